// Package vgen holds rapid generators shared by the storage checks: blob
// pools, enumerate cursors, source readers.
package vgen

import (
	"crypto/sha1"
	"crypto/sha256"
	"encoding/hex"
	"errors"
	"fmt"
	"io"
	"sort"

	"perkeep.org/pkg/blob"
	"pgregory.net/rapid"
)

// Blob is a generated blob.
type Blob struct {
	Ref   blob.Ref
	Data  []byte
	Class string
}

// GoString keeps rapid's draw log short.
func (b Blob) GoString() string { return b.String() }

func (b Blob) String() string { return fmt.Sprintf("%s(%s,%dB)", b.Ref, b.Class, len(b.Data)) }

// Noise expands seed into n deterministic pseudo-random bytes (xorshift64).
func Noise(seed uint64, n int) []byte {
	x := seed*2654435761 | 1
	out := make([]byte, n)
	for i := range out {
		x ^= x << 13
		x ^= x >> 7
		x ^= x << 17
		out[i] = byte(x >> 11)
	}
	return out
}

// RefOf computes the blobref of data under the named hash.
func RefOf(hashName string, data []byte) blob.Ref {
	var s string
	switch hashName {
	case "sha1":
		h := sha1.Sum(data)
		s = "sha1-" + hex.EncodeToString(h[:])
	case "sha256":
		h := sha256.Sum256(data)
		s = "sha256-" + hex.EncodeToString(h[:])
	default:
		h := sha256.Sum224(data)
		s = "sha224-" + hex.EncodeToString(h[:])
	}
	return blob.MustParse(s)
}

// GenBlob draws one blob. big allows the 64 KiB / 1 MiB classes.
func GenBlob(big bool) *rapid.Generator[Blob] {
	return rapid.Custom(func(t *rapid.T) Blob {
		maxClass := 7
		if big {
			maxClass = 9
		}
		c := rapid.IntRange(0, maxClass).Draw(t, "class")
		seed := rapid.Uint64Range(0, 1<<20).Draw(t, "seed")
		var data []byte
		var class string
		switch c {
		case 0:
			data, class = []byte{}, "empty"
		case 1:
			data, class = []byte{byte(seed)}, "1byte"
		case 2:
			data, class = []byte(fmt.Sprintf(`{"camliVersion": 1,
  "camliType": "bytes",
  "parts": [{"size": %d}]
}`, seed)), "schema"
		case 3:
			data, class = []byte(fmt.Sprintf(`{"camliVersion": 1, "notCamliType": %d}`, seed)), "json-nonschema"
		case 4:
			data, class = []byte(fmt.Sprintf(`{"camliVersion": 1,
  "camliType": "permanode",
  "random": "%d"
}`, seed)), "schema"
		case 5, 6:
			data, class = Noise(seed, int(seed%300)+2), "small"
		case 7:
			data, class = Noise(seed, 1024+int(seed%3000)), "kib"
		case 8:
			data, class = Noise(seed, 64<<10+int(seed%3)-1), "64k"
		default:
			data, class = Noise(seed, 1<<20-int(seed%2)), "1m"
		}
		hn := rapid.SampledFrom([]string{"sha224", "sha224", "sha224", "sha1", "sha256"}).Draw(t, "hash")
		return Blob{Ref: RefOf(hn, data), Data: data, Class: class}
	})
}

// GenPool draws a pool of distinct blobs.
func GenPool(t *rapid.T, min, max int, big bool) []Blob {
	n := rapid.IntRange(min, max).Draw(t, "poolSize")
	seen := map[blob.Ref]bool{}
	var out []Blob
	for i := 0; len(out) < n && i < 4*max; i++ {
		b := GenBlob(big).Draw(t, "blob")
		if !seen[b.Ref] {
			seen[b.Ref] = true
			out = append(out, b)
		}
	}
	return out
}

// GenCursor draws an enumerate cursor relative to the refs of the pool: any
// string, not only blobrefs.
func GenCursor(t *rapid.T, pool []Blob) string {
	texts := make([]string, len(pool))
	for i, b := range pool {
		texts[i] = b.Ref.String()
	}
	sort.Strings(texts)
	k := rapid.IntRange(0, 11).Draw(t, "cursorKind")
	pick := func() string {
		if len(texts) == 0 {
			return "sha224-00"
		}
		return texts[rapid.IntRange(0, len(texts)-1).Draw(t, "cursorOf")]
	}
	switch k {
	case 0:
		return ""
	case 1:
		return pick()
	case 2:
		return blob.MustParse(pick()).StringMinusOne()
	case 3:
		return pick() + "0"
	case 4:
		s := pick()
		return s[:rapid.IntRange(0, len(s)).Draw(t, "prefixLen")]
	case 5: // a valid but unknown ref of the same hash
		s := []byte(pick())
		i := rapid.IntRange(len(s)-8, len(s)-1).Draw(t, "pos")
		s[i] = "0123456789abcdef"[rapid.IntRange(0, 15).Draw(t, "nib")]
		return string(s)
	case 6:
		return rapid.SampledFrom([]string{"sha1", "sha1-", "sha224", "sha224-", "sha256-", "sha3", "t", "\xff", "sha224-g", "SHA224-", "s", "sha225", "-"}).Draw(t, "fixed")
	case 7:
		return rapid.StringMatching(`[a-z0-9-]{0,8}`).Draw(t, "cursor")
	case 8:
		s := pick()
		return s[:len(s)-1]
	default:
		return pick()
	}
}

// Reader kinds: how the source delivers its data.
var ReaderKinds = []string{"whole", "onebyte", "dataeof", "half", "frags"}

type fragReader struct {
	data  []byte
	sizes []int
	i     int
	eofWithData bool
}

func (r *fragReader) Read(p []byte) (int, error) {
	if len(r.data) == 0 {
		return 0, io.EOF
	}
	n := len(p)
	if len(r.sizes) > 0 {
		if s := r.sizes[r.i%len(r.sizes)]; s < n {
			n = s
		}
		r.i++
	}
	if n > len(r.data) {
		n = len(r.data)
	}
	if n == 0 && len(p) > 0 {
		n = 1
	}
	copy(p, r.data[:n])
	r.data = r.data[n:]
	if len(r.data) == 0 && r.eofWithData {
		return n, io.EOF
	}
	return n, nil
}

// ErrSource is the mid-stream source error.
var ErrSource = errors.New("vgen: source read error")

type errAfter struct {
	r io.Reader
	n int
}

func (e *errAfter) Read(p []byte) (int, error) {
	if e.n <= 0 {
		return 0, ErrSource
	}
	if len(p) > e.n {
		p = p[:e.n]
	}
	n, err := e.r.Read(p)
	e.n -= n
	if err == io.EOF {
		return n, err
	}
	return n, nil
}

// NewReader builds a reader of the given kind over data.
func NewReader(kind string, data []byte, fragSeed uint64) io.Reader {
	d := append([]byte(nil), data...)
	switch kind {
	case "onebyte":
		return &fragReader{data: d, sizes: []int{1}}
	case "dataeof":
		return &fragReader{data: d, eofWithData: true}
	case "half":
		h := len(d) / 2
		if h == 0 {
			h = 1
		}
		return &fragReader{data: d, sizes: []int{h}}
	case "frags":
		var sizes []int
		x := fragSeed | 1
		for i := 0; i < 7; i++ {
			x ^= x << 13
			x ^= x >> 7
			x ^= x << 17
			sizes = append(sizes, int(x%977)+1)
		}
		return &fragReader{data: d, sizes: sizes, eofWithData: fragSeed%2 == 0}
	default:
		return &fragReader{data: d}
	}
}

// NewErrReader returns a reader that fails with ErrSource after k bytes.
func NewErrReader(data []byte, k int) io.Reader {
	return &errAfter{r: &fragReader{data: append([]byte(nil), data...)}, n: k}
}
