// Package vvfs is the harness-owned files.VFS: an in-memory directory tree
// that logs every effectful call (mkdir, temp create, write, sync, close,
// rename, remove, rmdir), tracks how many bytes of every file were fsynced, and
// can materialise the tree a crash after log entry k leaves behind.
//
// Crash model (stated as an assumption by the checks that use it):
//   - directory operations (mkdir, create, rename, unlink, rmdir) are durable in
//     issue order (ordered-metadata-journal model);
//   - file DATA is durable only up to the last Sync of that file; for every file
//     with unsynced bytes a Loss function decides how many of them survive
//     (all, none, or an intermediate prefix). This also covers a write call that
//     was torn by the crash.
package vvfs

import (
	"bytes"
	"fmt"
	"io"
	"io/fs"
	"os"
	"path/filepath"
	"sort"
	"strings"
	"sync"
	"syscall"
	"time"

	"perkeep.org/pkg/blobserver/files"
)

// Op kinds.
const (
	Mkdir  = "mkdir"
	Create = "create"
	Write  = "write"
	Sync   = "sync"
	Close  = "close"
	Rename = "rename"
	Remove = "remove"
	Rmdir  = "rmdir"
)

// Op is one logged effectful call.
type Op struct {
	Kind string `json:"kind"`
	Path string `json:"path,omitempty"` // mkdir/create/rename(old)/remove/rmdir; for write/sync/close the name the file was created under
	To   string `json:"to,omitempty"`   // rename target
	File int    `json:"file,omitempty"` // file identity (inode number) for create/write/sync/close
	N    int    `json:"n,omitempty"`    // write: number of bytes
	data []byte
}

func (o Op) String() string {
	switch o.Kind {
	case Rename:
		return fmt.Sprintf("rename %s -> %s", o.Path, o.To)
	case Write:
		return fmt.Sprintf("write #%d %dB", o.File, o.N)
	case Sync, Close:
		return fmt.Sprintf("%s #%d", o.Kind, o.File)
	case Create:
		return fmt.Sprintf("create #%d %s", o.File, o.Path)
	}
	return o.Kind + " " + o.Path
}

type inode struct {
	id     int
	data   []byte
	synced int
}

type node struct {
	kids map[string]*node // non-nil for directories
	ino  *inode           // non-nil for files
}

func (n *node) isDir() bool { return n.kids != nil }

// FS implements files.VFS in memory.
type FS struct {
	mu             sync.Mutex
	root           *node
	log            []Op
	nextIno        int
	inodes         map[int]*inode // every inode ever created (also unlinked ones)
	ReadDirReverse bool           // ReadDirNames returns names in descending order (callers must sort themselves)
}

var _ files.VFS = (*FS)(nil)

// New returns an empty file system (only "/").
func New() *FS {
	return &FS{root: &node{kids: map[string]*node{}}, inodes: map[int]*inode{}, ReadDirReverse: true}
}

func split(p string) []string {
	p = filepath.ToSlash(filepath.Clean("/" + p))
	if p == "/" {
		return nil
	}
	return strings.Split(strings.TrimPrefix(p, "/"), "/")
}

func clean(p string) string { return filepath.ToSlash(filepath.Clean("/" + p)) }

func perr(op, path string, errno syscall.Errno) error {
	return &os.PathError{Op: op, Path: path, Err: errno}
}

// lookup returns the node at path, or nil.
func (f *FS) lookup(path string) *node {
	n := f.root
	for _, c := range split(path) {
		if !n.isDir() {
			return nil
		}
		n = n.kids[c]
		if n == nil {
			return nil
		}
	}
	return n
}

func (f *FS) parent(path string) (*node, string) {
	parts := split(path)
	if len(parts) == 0 {
		return nil, ""
	}
	n := f.root
	for _, c := range parts[:len(parts)-1] {
		if !n.isDir() {
			return nil, ""
		}
		n = n.kids[c]
		if n == nil {
			return nil, ""
		}
	}
	if !n.isDir() {
		return nil, ""
	}
	return n, parts[len(parts)-1]
}

// apply performs one op on the tree. It is the only place that mutates state,
// used by the live calls and by the replay in CrashAt, so both agree by
// construction. The caller has validated the op.
func (f *FS) apply(o Op) {
	switch o.Kind {
	case Mkdir:
		p, name := f.parent(o.Path)
		p.kids[name] = &node{kids: map[string]*node{}}
	case Create:
		p, name := f.parent(o.Path)
		in := &inode{id: o.File}
		f.inodes[o.File] = in
		if o.File >= f.nextIno {
			f.nextIno = o.File + 1
		}
		p.kids[name] = &node{ino: in}
	case Write:
		in := f.inodes[o.File]
		in.data = append(in.data, o.data...)
	case Sync:
		in := f.inodes[o.File]
		in.synced = len(in.data)
	case Close:
	case Rename:
		op, on := f.parent(o.Path)
		n := op.kids[on]
		delete(op.kids, on)
		np, nn := f.parent(o.To)
		np.kids[nn] = n
	case Remove, Rmdir:
		p, name := f.parent(o.Path)
		delete(p.kids, name)
	}
}

func (f *FS) record(o Op) {
	f.apply(o)
	f.log = append(f.log, o)
}

// --- files.VFS ---

func (f *FS) MkdirAll(path string, perm os.FileMode) error {
	f.mu.Lock()
	defer f.mu.Unlock()
	cur := ""
	n := f.root
	for _, c := range split(path) {
		cur += "/" + c
		k := n.kids[c]
		if k == nil {
			// one logged mkdir per created component, as os.MkdirAll issues one syscall each
			f.record(Op{Kind: Mkdir, Path: cur})
			k = n.kids[c]
		} else if !k.isDir() {
			return perr("mkdir", cur, syscall.ENOTDIR)
		}
		n = k
	}
	return nil
}

type wfile struct {
	fs     *FS
	ino    *inode
	name   string
	closed bool
}

func (w *wfile) Name() string { return w.name }

func (w *wfile) Write(p []byte) (int, error) {
	w.fs.mu.Lock()
	defer w.fs.mu.Unlock()
	if w.closed {
		return 0, perr("write", w.name, syscall.EBADF)
	}
	if len(p) == 0 {
		return 0, nil
	}
	w.fs.record(Op{Kind: Write, Path: w.name, File: w.ino.id, N: len(p), data: append([]byte(nil), p...)})
	return len(p), nil
}

func (w *wfile) Sync() error {
	w.fs.mu.Lock()
	defer w.fs.mu.Unlock()
	if w.closed {
		return perr("sync", w.name, syscall.EBADF)
	}
	w.fs.record(Op{Kind: Sync, Path: w.name, File: w.ino.id})
	return nil
}

func (w *wfile) Close() error {
	w.fs.mu.Lock()
	defer w.fs.mu.Unlock()
	if w.closed {
		return perr("close", w.name, syscall.EBADF)
	}
	w.closed = true
	w.fs.record(Op{Kind: Close, Path: w.name, File: w.ino.id})
	return nil
}

// TempFile behaves like os.CreateTemp(dir, prefix) with a deterministic suffix.
func (f *FS) TempFile(dir, prefix string) (files.WritableFile, error) {
	f.mu.Lock()
	defer f.mu.Unlock()
	d := f.lookup(dir)
	if d == nil {
		return nil, perr("open", dir, syscall.ENOENT)
	}
	if !d.isDir() {
		return nil, perr("open", dir, syscall.ENOTDIR)
	}
	pre, suf := prefix, ""
	if i := strings.LastIndexByte(prefix, '*'); i >= 0 {
		pre, suf = prefix[:i], prefix[i+1:]
	}
	var name string
	for {
		name = fmt.Sprintf("%s%09d%s", pre, 100000000+f.nextIno*7919%899999999, suf)
		if d.kids[name] == nil {
			break
		}
		f.nextIno++
	}
	full := clean(dir) + "/" + name
	if clean(dir) == "/" {
		full = "/" + name
	}
	id := f.nextIno
	f.record(Op{Kind: Create, Path: full, File: id})
	return &wfile{fs: f, ino: f.inodes[id], name: full}, nil
}

func (f *FS) Rename(oldname, newname string) error {
	f.mu.Lock()
	defer f.mu.Unlock()
	op, on := f.parent(oldname)
	if op == nil || op.kids[on] == nil {
		return &os.LinkError{Op: "rename", Old: oldname, New: newname, Err: syscall.ENOENT}
	}
	np, nn := f.parent(newname)
	if np == nil {
		return &os.LinkError{Op: "rename", Old: oldname, New: newname, Err: syscall.ENOENT}
	}
	src := op.kids[on]
	if dst := np.kids[nn]; dst != nil {
		if dst == src {
			return nil
		}
		if dst.isDir() != src.isDir() || (dst.isDir() && len(dst.kids) > 0) {
			return &os.LinkError{Op: "rename", Old: oldname, New: newname, Err: syscall.EEXIST}
		}
	}
	f.record(Op{Kind: Rename, Path: clean(oldname), To: clean(newname)})
	return nil
}

// Remove unlinks a file (not a directory).
func (f *FS) Remove(path string) error {
	f.mu.Lock()
	defer f.mu.Unlock()
	p, name := f.parent(path)
	if p == nil || p.kids[name] == nil {
		return perr("remove", path, syscall.ENOENT)
	}
	if p.kids[name].isDir() {
		return perr("remove", path, syscall.EISDIR)
	}
	f.record(Op{Kind: Remove, Path: clean(path)})
	return nil
}

// RemoveDir removes an empty directory.
func (f *FS) RemoveDir(path string) error {
	f.mu.Lock()
	defer f.mu.Unlock()
	p, name := f.parent(path)
	if p == nil || p.kids[name] == nil {
		return perr("rmdir", path, syscall.ENOENT)
	}
	k := p.kids[name]
	if !k.isDir() {
		return perr("rmdir", path, syscall.ENOTDIR)
	}
	if len(k.kids) > 0 {
		return perr("rmdir", path, syscall.ENOTEMPTY)
	}
	f.record(Op{Kind: Rmdir, Path: clean(path)})
	return nil
}

type info struct {
	name string
	size int64
	dir  bool
}

func (i info) Name() string { return i.name }
func (i info) Size() int64  { return i.size }
func (i info) Mode() fs.FileMode {
	if i.dir {
		return fs.ModeDir | 0o700
	}
	return 0o600
}
func (i info) ModTime() time.Time { return time.Time{} }
func (i info) IsDir() bool        { return i.dir }
func (i info) Sys() any           { return nil }

func (f *FS) Stat(path string) (os.FileInfo, error) {
	f.mu.Lock()
	defer f.mu.Unlock()
	n := f.lookup(path)
	if n == nil {
		return nil, perr("stat", path, syscall.ENOENT)
	}
	if n.isDir() {
		return info{name: filepath.Base(path), dir: true}, nil
	}
	return info{name: filepath.Base(path), size: int64(len(n.ino.data))}, nil
}

// Lstat: there are no symlinks.
func (f *FS) Lstat(path string) (os.FileInfo, error) { return f.Stat(path) }

type rfile struct {
	*bytes.Reader
}

func (rfile) Close() error { return nil }

var _ io.ReadSeeker = rfile{}

func (f *FS) Open(path string) (files.ReadableFile, error) {
	f.mu.Lock()
	defer f.mu.Unlock()
	n := f.lookup(path)
	if n == nil {
		return nil, perr("open", path, syscall.ENOENT)
	}
	if n.isDir() {
		return nil, perr("open", path, syscall.EISDIR)
	}
	return rfile{bytes.NewReader(append([]byte(nil), n.ino.data...))}, nil
}

func (f *FS) ReadDirNames(dir string) ([]string, error) {
	f.mu.Lock()
	defer f.mu.Unlock()
	n := f.lookup(dir)
	if n == nil {
		return nil, perr("open", dir, syscall.ENOENT)
	}
	if !n.isDir() {
		return nil, perr("readdirent", dir, syscall.ENOTDIR)
	}
	names := make([]string, 0, len(n.kids))
	for k := range n.kids {
		names = append(names, k)
	}
	sort.Strings(names)
	if f.ReadDirReverse {
		for i, j := 0, len(names)-1; i < j; i, j = i+1, j-1 {
			names[i], names[j] = names[j], names[i]
		}
	}
	return names, nil
}

// --- log and crash states ---

// LogLen is the number of logged ops so far.
func (f *FS) LogLen() int { f.mu.Lock(); defer f.mu.Unlock(); return len(f.log) }

// Log returns a copy of the op log.
func (f *FS) Log() []Op { f.mu.Lock(); defer f.mu.Unlock(); return append([]Op(nil), f.log...) }

// Loss decides how many bytes of a file with unsynced data survive the crash:
// the result is clamped to [synced, total].
type Loss func(path string, file, synced, total int) int

// KeepAll: every written byte reached the disk (plain process crash).
func KeepAll(path string, file, synced, total int) int { return total }

// SyncedOnly: nothing beyond the last fsync survives.
func SyncedOnly(path string, file, synced, total int) int { return synced }

// KeepExtra keeps exactly n unsynced bytes (n<0: all but -n).
func KeepExtra(n int) Loss {
	return func(path string, file, synced, total int) int {
		if n < 0 {
			return total + n
		}
		return synced + n
	}
}

// KeepHalf keeps half of the unsynced bytes.
func KeepHalf(path string, file, synced, total int) int { return synced + (total-synced)/2 }

// PerFile derives an independent pseudo-random cut for every file from seed.
func PerFile(seed uint64) Loss {
	return func(path string, file, synced, total int) int {
		x := (seed+uint64(file)*0x9e3779b97f4a7c15)*2654435761 | 1
		x ^= x << 13
		x ^= x >> 7
		x ^= x << 17
		return synced + int(x%uint64(total-synced+1))
	}
}

// Cut reports what a crash state dropped from one file.
type Cut struct {
	Path   string `json:"path"`
	File   int    `json:"file"`
	Synced int    `json:"synced"`
	Total  int    `json:"written"`
	Kept   int    `json:"kept"`
}

// CrashAt returns a NEW file system holding what is on disk after a crash
// right after log entry k-1 (k = 0: the empty tree, k = LogLen(): everything
// issued), with loss applied to every linked file that has unsynced bytes.
// The receiver is not modified. The new FS starts with an empty log.
func (f *FS) CrashAt(k int, loss Loss) (*FS, []Cut) {
	f.mu.Lock()
	prefix := append([]Op(nil), f.log[:k]...)
	rev := f.ReadDirReverse
	f.mu.Unlock()
	n := New()
	n.ReadDirReverse = rev
	for _, o := range prefix {
		n.apply(o)
	}
	var cuts []Cut
	n.walk("", n.root, func(path string, nd *node) {
		if nd.isDir() {
			return
		}
		in := nd.ino
		if len(in.data) > in.synced {
			keep := len(in.data)
			if loss != nil {
				keep = loss(path, in.id, in.synced, len(in.data))
			}
			if keep < in.synced {
				keep = in.synced
			}
			if keep > len(in.data) {
				keep = len(in.data)
			}
			cuts = append(cuts, Cut{Path: path, File: in.id, Synced: in.synced, Total: len(in.data), Kept: keep})
			in.data = in.data[:keep:keep]
		}
		in.synced = len(in.data)
	})
	n.nextIno += 1000 // temp names of the new incarnation never collide with leftovers
	return n, cuts
}

// UnsyncedAt reports how many linked files have unsynced bytes after log prefix k.
func (f *FS) UnsyncedAt(k int) int {
	_, cuts := f.CrashAt(k, KeepAll)
	return len(cuts)
}

func (f *FS) walk(path string, n *node, fn func(path string, n *node)) {
	if path != "" {
		fn(path, n)
	}
	if !n.isDir() {
		return
	}
	names := make([]string, 0, len(n.kids))
	for k := range n.kids {
		names = append(names, k)
	}
	sort.Strings(names)
	for _, k := range names {
		f.walk(path+"/"+k, n.kids[k], fn)
	}
}

// Entry is one path of the tree.
type Entry struct {
	Path string
	Dir  bool
	Data []byte
}

// Tree lists every path (sorted, parents first).
func (f *FS) Tree() []Entry {
	f.mu.Lock()
	defer f.mu.Unlock()
	var out []Entry
	f.walk("", f.root, func(path string, n *node) {
		e := Entry{Path: path, Dir: n.isDir()}
		if !e.Dir {
			e.Data = n.ino.data
		}
		out = append(out, e)
	})
	return out
}

// Describe renders the tree for case dumps.
func (f *FS) Describe() []string {
	var out []string
	for _, e := range f.Tree() {
		if e.Dir {
			out = append(out, e.Path+"/")
		} else {
			out = append(out, fmt.Sprintf("%s (%d bytes)", e.Path, len(e.Data)))
		}
	}
	return out
}
