package vvfs

import (
	"io"
	"os"
	"reflect"
	"testing"
)

func TestReplayEqualsLive(t *testing.T) {
	f := New()
	if err := f.MkdirAll("/r/a/b", 0o700); err != nil {
		t.Fatal(err)
	}
	w, err := f.TempFile("/r/a/b", "x.dat.tmp")
	if err != nil {
		t.Fatal(err)
	}
	w.Write([]byte("hello "))
	w.Sync()
	w.Write([]byte("world"))
	w.Close()
	if err := f.Rename(w.Name(), "/r/a/b/x.dat"); err != nil {
		t.Fatal(err)
	}
	w2, _ := f.TempFile("/r/a/b", "y.dat.tmp")
	w2.Write([]byte("1234"))
	if _, err := f.Stat("/r/a/b/nope"); !os.IsNotExist(err) {
		t.Fatalf("stat of a missing file: %v", err)
	}
	if err := f.RemoveDir("/r/a"); err == nil {
		t.Fatal("rmdir of a non-empty directory succeeded")
	}
	full, cuts := f.CrashAt(f.LogLen(), KeepAll)
	if !reflect.DeepEqual(full.Describe(), f.Describe()) {
		t.Fatalf("replay differs:\n%v\n%v", full.Describe(), f.Describe())
	}
	if len(cuts) != 2 {
		t.Fatalf("want 2 files with unsynced bytes, got %v", cuts)
	}
	lost, _ := f.CrashAt(f.LogLen(), SyncedOnly)
	r, err := lost.Open("/r/a/b/x.dat")
	if err != nil {
		t.Fatal(err)
	}
	b, _ := io.ReadAll(r)
	if string(b) != "hello " {
		t.Fatalf("synced prefix = %q", b)
	}
	fi, _ := lost.Stat(w2.Name())
	if fi.Size() != 0 {
		t.Fatalf("unsynced temp file kept %d bytes", fi.Size())
	}
	// prefix before the rename: only the temp name exists
	k := 0
	for i, o := range f.Log() {
		if o.Kind == Rename {
			k = i
		}
	}
	pre, _ := f.CrashAt(k, KeepAll)
	if _, err := pre.Stat("/r/a/b/x.dat"); !os.IsNotExist(err) {
		t.Fatalf("final name exists before the rename: %v", err)
	}
	if _, err := pre.Stat(w.Name()); err != nil {
		t.Fatalf("temp name missing before the rename: %v", err)
	}
	names, _ := f.ReadDirNames("/r/a/b")
	if len(names) != 2 {
		t.Fatalf("names %v", names)
	}
}
