// Package vsign signs schema JSON deterministically with the perkeep test key
// ring (identity Test) or with a second, harness-owned identity (Second).
// Signatures are cached by (identity, unsigned JSON, signature time).
package vsign

import (
	"context"
	"fmt"
	"path/filepath"
	"runtime"
	"strings"
	"sync"
	"time"

	"perkeep.org/pkg/blob"
	"perkeep.org/pkg/jsonsign"
	"perkeep.org/pkg/schema"
	"perkeep.org/pkg/test"
)

// TestSecring is the key ring shipped with perkeep's tests. (Do not use
// osutil.PkSourceRoot from the harness: it would resolve to the harness module.)
const TestSecring = "/repo/pkg/jsonsign/testdata/test-secring.gpg"

type Identity struct {
	Name    string
	KeyID   string   // long key id, e.g. 2931A67C26F5ABDA
	Armored string   // armored public key = contents of the public key blob
	Ref     blob.Ref // blobref of the public key blob
	ring    string
	ef      jsonsign.EntityFetcher
}

var (
	once   sync.Once
	ids    []*Identity
	keys   *test.Fetcher
	mu     sync.Mutex
	cache  = map[string]string{}
	initEr error
)

func secondRing() string {
	_, file, _, _ := runtime.Caller(0)
	return filepath.Join(filepath.Dir(file), "testdata", "second-secring.gpg")
}

func load() {
	keys = new(test.Fetcher)
	for _, r := range []struct{ name, ring string }{{"test", TestSecring}, {"second", secondRing()}} {
		keyID, err := jsonsign.KeyIdFromRing(r.ring)
		if err != nil {
			initEr = fmt.Errorf("vsign: %s: %v", r.ring, err)
			return
		}
		ent, err := jsonsign.EntityFromSecring(keyID, r.ring)
		if err != nil {
			initEr = fmt.Errorf("vsign: %s: %v", r.ring, err)
			return
		}
		arm, err := jsonsign.ArmoredPublicKey(ent)
		if err != nil {
			initEr = err
			return
		}
		ref := blob.RefFromString(arm)
		keys.AddBlob(&test.Blob{Contents: arm})
		ids = append(ids, &Identity{
			Name: r.name, KeyID: keyID, Armored: arm, Ref: ref, ring: r.ring,
			ef: &jsonsign.CachingEntityFetcher{Fetcher: &jsonsign.FileEntityFetcher{File: r.ring}},
		})
	}
}

func must() {
	once.Do(load)
	if initEr != nil {
		panic(initEr)
	}
}

// Test is the perkeep dev/test identity (key id 2931A67C26F5ABDA).
func Test() *Identity { must(); return ids[0] }

// Second is the harness's own second identity.
func Second() *Identity { must(); return ids[1] }

// KeyFetcher returns a fetcher holding both public key blobs.
func KeyFetcher() *test.Fetcher { must(); return keys }

// PubKeyBlob returns the public-key blob of id.
func (id *Identity) PubKeyBlob() *test.Blob { return &test.Blob{Contents: id.Armored} }

// SignJSON signs unsigned (which must name id.Ref as camliSigner, or any key
// present in KeyFetcher whose secret key is id's) at sigTime.
func (id *Identity) SignJSON(unsigned string, sigTime time.Time) (string, error) {
	must()
	k := id.Name + "\x00" + unsigned + "\x00" + sigTime.UTC().Format(time.RFC3339Nano)
	mu.Lock()
	s, ok := cache[k]
	mu.Unlock()
	if ok {
		return s, nil
	}
	sr := &jsonsign.SignRequest{
		UnsignedJSON:  unsigned,
		Fetcher:       keys,
		EntityFetcher: id.ef,
		SignatureTime: sigTime,
	}
	signed, err := sr.Sign(context.Background())
	if err != nil {
		return "", err
	}
	mu.Lock()
	if len(cache) > 200000 {
		cache = map[string]string{}
	}
	cache[k] = signed
	mu.Unlock()
	return signed, nil
}

// Sign sets the signer on b, signs it and returns the blob.
func (id *Identity) Sign(b *schema.Builder, sigTime time.Time) (*test.Blob, error) {
	b.SetSigner(id.Ref)
	unsigned, err := b.JSON()
	if err != nil {
		return nil, err
	}
	signed, err := id.SignJSON(unsigned, sigTime)
	if err != nil {
		return nil, err
	}
	return &test.Blob{Contents: signed}, nil
}

// MustSign is Sign that panics on error (harness bug, not a property violation).
func (id *Identity) MustSign(b *schema.Builder, sigTime time.Time) *test.Blob {
	tb, err := id.Sign(b, sigTime)
	if err != nil {
		panic(fmt.Sprintf("vsign: %v", err))
	}
	return tb
}

var (
	ssMu sync.Mutex
	ss   = map[string]*schema.Signer{}
)

// SchemaSigner returns the schema.Signer (the signer servers, importers and clients go through) of id.
func (id *Identity) SchemaSigner() (*schema.Signer, error) {
	must()
	ssMu.Lock()
	defer ssMu.Unlock()
	if s, ok := ss[id.Name]; ok {
		return s, nil
	}
	s, err := schema.NewSigner(id.Ref, strings.NewReader(id.Armored), id.ring)
	if err != nil {
		return nil, err
	}
	ss[id.Name] = s
	return s, nil
}

// Whitespace styles for SignStyled: what follows the opening brace of the unsigned object before
// "camliVersion". doc/schema/blob-magic.md: the ideal blob starts with {"camliVersion" but "some JSON
// serialization libraries will format things differently, so additional whitespace should be tolerated".
var leadStyles = []string{"", " ", "\n  ", "\n\t", strings.Repeat(" \n", 45)}

// NumLeadStyles is the number of styles SignStyled knows (0 = perkeep's own serializer).
var NumLeadStyles = len(leadStyles)

// SignStyled is MustSign for an object written by a foreign serializer that puts whitespace between the
// opening brace and "camliVersion" (style 1..NumLeadStyles-1).
func (id *Identity) SignStyled(b *schema.Builder, sigTime time.Time, style int) *test.Blob {
	if style <= 0 || style >= len(leadStyles) {
		return id.MustSign(b, sigTime)
	}
	b.SetSigner(id.Ref)
	unsigned, err := b.JSON()
	if err != nil {
		panic(fmt.Sprintf("vsign: %v", err))
	}
	const head = `{"camliVersion"`
	if !strings.HasPrefix(unsigned, head) {
		panic("vsign: the builder's JSON does not start with " + head)
	}
	signed, err := id.SignJSON("{"+leadStyles[style]+unsigned[1:], sigTime)
	if err != nil {
		panic(fmt.Sprintf("vsign: %v", err))
	}
	return &test.Blob{Contents: signed}
}
