// Package vwatch bounds calls in time and tells a real hang (every goroutine
// parked, nothing can make progress) from a slow, overloaded machine.
package vwatch

import (
	"fmt"
	"regexp"
	"runtime"
	"strings"
	"time"
)

// Timeout is the bound for one call of millisecond-scale work.
var Timeout = 120 * time.Second

// Result of a watched call.
type Result struct {
	TimedOut bool
	Parked   bool   // with TimedOut: two goroutine dumps 3 s apart show no runnable/running goroutine of the test
	Dump     string // goroutine dump (clipped)
}

var hdr = regexp.MustCompile(`(?m)^goroutine (\d+) \[([^\],]+)`)

// blocked states: a goroutine in one of these cannot make progress by itself.
func blockedState(s string) bool {
	switch {
	case strings.HasPrefix(s, "chan "), strings.HasPrefix(s, "select"), strings.HasPrefix(s, "semacquire"),
		strings.HasPrefix(s, "sync."), strings.HasPrefix(s, "sleep"), strings.HasPrefix(s, "GC "),
		strings.HasPrefix(s, "finalizer"), strings.HasPrefix(s, "force gc"), strings.HasPrefix(s, "IO wait") && false:
		return true
	}
	return false
}

func snapshot() (active int, dump string) {
	buf := make([]byte, 4<<20)
	n := runtime.Stack(buf, true)
	dump = string(buf[:n])
	me := true
	for _, m := range hdr.FindAllStringSubmatch(dump, -1) {
		if me { // first goroutine in the dump is the caller of runtime.Stack
			me = false
			continue
		}
		if !blockedState(m[2]) {
			active++
		}
	}
	return
}

// Run executes f with the watchdog.
func Run(f func()) Result {
	done := make(chan struct{})
	go func() { f(); close(done) }()
	select {
	case <-done:
		return Result{}
	case <-time.After(Timeout):
	}
	a1, _ := snapshot()
	select {
	case <-done:
		return Result{} // finished after all: slow, not hung
	case <-time.After(3 * time.Second):
	}
	a2, dump := snapshot()
	select {
	case <-done:
		return Result{}
	default:
	}
	if len(dump) > 12000 {
		dump = dump[:12000] + "…"
	}
	return Result{TimedOut: true, Parked: a1 == 0 && a2 == 0, Dump: dump}
}

// Describe renders a timed-out result.
func (r Result) Describe(what string) string {
	if r.Parked {
		return fmt.Sprintf("%s did not return within %v and every goroutine is parked (hang)\n%s", what, Timeout, r.Dump)
	}
	return fmt.Sprintf("VERIF-INCONCLUSIVE: %s did not return within %v but goroutines are still runnable (overloaded machine?)", what, Timeout)
}
