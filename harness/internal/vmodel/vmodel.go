// Package vmodel is the reference map from blobref to bytes and the "read
// battery" that compares a blobserver.Storage with it.
package vmodel

import (
	"bytes"
	"context"
	"errors"
	"fmt"
	"io"
	"os"
	"sort"
	"time"

	"perkeep.org/pkg/blob"
	"perkeep.org/pkg/blobserver"
)

type State int

const (
	Absent State = iota
	Present
	Maybe // a mutation of this ref failed or crashed: absent, or present with exactly these bytes
)

type Entry struct {
	Ref   blob.Ref
	Data  []byte
	State State
}

// Map is the reference model.
type Map struct {
	m map[blob.Ref]*Entry
}

func New() *Map { return &Map{m: map[blob.Ref]*Entry{}} }

func (m *Map) Clone() *Map {
	c := New()
	for k, e := range m.m {
		ce := *e
		c.m[k] = &ce
	}
	return c
}

// Know registers a ref (absent) so that the battery probes it.
func (m *Map) Know(ref blob.Ref, data []byte) {
	if _, ok := m.m[ref]; !ok {
		m.m[ref] = &Entry{Ref: ref, Data: data, State: Absent}
	}
}

func (m *Map) SetPresent(ref blob.Ref, data []byte) {
	m.m[ref] = &Entry{Ref: ref, Data: data, State: Present}
}

func (m *Map) SetAbsent(ref blob.Ref) {
	if e, ok := m.m[ref]; ok {
		e.State = Absent
	}
}

// SetMaybe: a receive/remove of ref failed or was cut by a crash.
func (m *Map) SetMaybe(ref blob.Ref, data []byte) {
	if e, ok := m.m[ref]; ok {
		if data == nil {
			data = e.Data
		}
	}
	m.m[ref] = &Entry{Ref: ref, Data: data, State: Maybe}
}

func (m *Map) Get(ref blob.Ref) *Entry {
	if e, ok := m.m[ref]; ok {
		return e
	}
	return &Entry{Ref: ref, State: Absent}
}

func (m *Map) State(ref blob.Ref) State { return m.Get(ref).State }

// Entries returns all known entries sorted by ref text.
func (m *Map) Entries() []*Entry {
	out := make([]*Entry, 0, len(m.m))
	for _, e := range m.m {
		out = append(out, e)
	}
	keys := make(map[*Entry]string, len(out))
	for _, e := range out {
		keys[e] = e.Ref.String()
	}
	sort.Slice(out, func(i, j int) bool { return keys[out[i]] < keys[out[j]] })
	return out
}

// PresentSorted returns the refs in state Present, ascending by text.
func (m *Map) PresentSorted() []*Entry {
	var out []*Entry
	for _, e := range m.Entries() {
		if e.State == Present {
			out = append(out, e)
		}
	}
	return out
}

func (m *Map) NumPresent() int { return len(m.PresentSorted()) }

// Mismatch is a structured oracle failure.
type Mismatch struct {
	Kind   string // e.g. "fetch-bytes", "fetch-missing", "stat-extra", "enum-order"
	Ref    string
	Detail string
}

func (e *Mismatch) Error() string { return fmt.Sprintf("%s ref=%s: %s", e.Kind, e.Ref, e.Detail) }

func mis(kind string, ref blob.Ref, f string, a ...any) *Mismatch {
	r := ""
	if ref.Valid() {
		r = ref.String()
	}
	return &Mismatch{Kind: kind, Ref: r, Detail: fmt.Sprintf(f, a...)}
}

// ErrTimeout marks a watchdog hit (never a violation by itself unless the property says so).
var ErrTimeout = errors.New("vmodel: watchdog timeout")

// CallTimeout bounds every storage call made by the battery.
var CallTimeout = 60 * time.Second

func short(b []byte) string {
	if len(b) > 48 {
		return fmt.Sprintf("%q…(%d bytes)", b[:48], len(b))
	}
	return fmt.Sprintf("%q", b)
}

// IsNotExist is the "absent" predicate of the statement: an error that says the blob does not exist.
func IsNotExist(err error) bool { return errors.Is(err, os.ErrNotExist) }

// CheckFetch compares one fetch with the model. For a Maybe entry it accepts
// either outcome and PINS the observed one into the model (so later reads in
// this instance lifetime must agree).
func (m *Map) CheckFetch(ctx context.Context, sto blob.Fetcher, ref blob.Ref) error {
	e := m.Get(ref)
	rc, size, err := sto.Fetch(ctx, ref)
	if err != nil {
		switch {
		case IsNotExist(err):
			if e.State == Present {
				return mis("fetch-missing", ref, "model has the blob (%d bytes) but Fetch says not-exist", len(e.Data))
			}
			if e.State == Maybe {
				e.State = Absent
			}
			return nil
		default:
			return mis("fetch-error", ref, "Fetch returned unexpected error %v (model state %d)", err, e.State)
		}
	}
	data, rerr := io.ReadAll(rc)
	rc.Close()
	if e.State == Absent {
		return mis("fetch-resurrected", ref, "model says absent but Fetch returned %d bytes %s", len(data), short(data))
	}
	if rerr != nil {
		return mis("fetch-read-error", ref, "reading the fetched blob failed: %v", rerr)
	}
	if !bytes.Equal(data, e.Data) {
		return mis("fetch-bytes", ref, "Fetch returned %s, want %s", short(data), short(e.Data))
	}
	if int(size) != len(e.Data) {
		return mis("fetch-size", ref, "Fetch reported size %d, true size %d", size, len(e.Data))
	}
	if e.State == Maybe {
		e.State = Present
	}
	return nil
}

// CheckSubFetch compares one ranged fetch. Returns (unimplemented, err).
func (m *Map) CheckSubFetch(ctx context.Context, sto blob.SubFetcher, ref blob.Ref, off, length int64) (bool, error) {
	e := m.Get(ref)
	rc, err := sto.SubFetch(ctx, ref, off, length)
	if errors.Is(err, blob.ErrUnimplemented) {
		return true, nil
	}
	if off < 0 || length < 0 {
		if err == nil {
			rc.Close()
			return false, mis("subfetch-negative", ref, "SubFetch(%d,%d) succeeded", off, length)
		}
		if !errors.Is(err, blob.ErrNegativeSubFetch) && !(e.State != Present && IsNotExist(err)) {
			return false, mis("subfetch-negative", ref, "SubFetch(%d,%d) error %v, want ErrNegativeSubFetch", off, length, err)
		}
		return false, nil
	}
	if e.State == Maybe {
		// resolve through a plain fetch first
		if f, ok := sto.(blob.Fetcher); ok {
			if ferr := m.CheckFetch(ctx, f, ref); ferr != nil {
				return false, ferr
			}
			if rc != nil {
				rc.Close()
			}
			return false, nil
		}
	}
	if e.State != Present {
		if err == nil {
			d, _ := io.ReadAll(rc)
			rc.Close()
			return false, mis("subfetch-resurrected", ref, "model says absent but SubFetch(%d,%d) returned %s", off, length, short(d))
		}
		if !IsNotExist(err) {
			return false, mis("subfetch-error", ref, "SubFetch of absent blob: error %v, want not-exist", err)
		}
		return false, nil
	}
	size := int64(len(e.Data))
	if off > size {
		if err == nil {
			// tolerated only if the read then fails or yields nothing? The interface says the error should be ErrOutOfRangeOffsetSubFetch.
			d, rerr := io.ReadAll(rc)
			rc.Close()
			return false, mis("subfetch-range", ref, "SubFetch(off=%d > size=%d) succeeded with %d bytes, read err %v", off, size, len(d), rerr)
		}
		if !errors.Is(err, blob.ErrOutOfRangeOffsetSubFetch) {
			return false, mis("subfetch-range", ref, "SubFetch(off=%d > size=%d) error %v, want ErrOutOfRangeOffsetSubFetch", off, size, err)
		}
		return false, nil
	}
	if err != nil {
		if off+length > size {
			// as in storagetest: an error is tolerated when the range runs past the end
			return false, nil
		}
		return false, mis("subfetch-error", ref, "SubFetch(%d,%d) of present blob (size %d): %v", off, length, size, err)
	}
	d, rerr := io.ReadAll(rc)
	rc.Close()
	end := off + length
	if end > size {
		end = size
	}
	want := e.Data[off:end]
	if rerr != nil {
		if off+length > size && bytes.Equal(d, want) {
			return false, nil
		}
		return false, mis("subfetch-read-error", ref, "reading SubFetch(%d,%d): %v", off, length, rerr)
	}
	if !bytes.Equal(d, want) {
		return false, mis("subfetch-bytes", ref, "SubFetch(%d,%d) returned %s, want %s", off, length, short(d), short(want))
	}
	return false, nil
}

// CheckStat stats refs (no duplicates) and compares with the model. Maybe
// entries are pinned by what stat says.
func (m *Map) CheckStat(ctx context.Context, sto blobserver.BlobStatter, refs []blob.Ref) error {
	got := map[blob.Ref]uint32{}
	var dup *Mismatch
	err := sto.StatBlobs(ctx, refs, func(sb blob.SizedRef) error {
		if _, ok := got[sb.Ref]; ok && dup == nil {
			dup = mis("stat-duplicate", sb.Ref, "StatBlobs called back twice")
		}
		got[sb.Ref] = sb.Size
		return nil
	})
	if err != nil {
		return mis("stat-error", blob.Ref{}, "StatBlobs(%d refs) returned %v", len(refs), err)
	}
	if dup != nil {
		return dup
	}
	asked := map[blob.Ref]bool{}
	for _, r := range refs {
		asked[r] = true
	}
	for r := range got {
		if !asked[r] {
			return mis("stat-unasked", r, "StatBlobs reported a ref that was not asked for")
		}
	}
	for _, r := range refs {
		e := m.Get(r)
		sz, ok := got[r]
		switch e.State {
		case Present:
			if !ok {
				return mis("stat-missing", r, "model has the blob (%d bytes) but StatBlobs did not report it", len(e.Data))
			}
		case Absent:
			if ok {
				return mis("stat-resurrected", r, "model says absent but StatBlobs reported size %d", sz)
			}
			continue
		case Maybe:
			if !ok {
				e.State = Absent
				continue
			}
			e.State = Present
		}
		if int(sz) != len(e.Data) {
			return mis("stat-size", r, "StatBlobs reported size %d, true size %d", sz, len(e.Data))
		}
	}
	return nil
}

// Enumerate runs one EnumerateBlobs call with a watchdog and returns the list.
func Enumerate(ctx context.Context, sto blobserver.BlobEnumerator, after string, limit int) ([]blob.SizedRef, error) {
	ch := make(chan blob.SizedRef, 16)
	errc := make(chan error, 1)
	cctx, cancel := context.WithCancel(ctx)
	defer cancel()
	go func() { errc <- sto.EnumerateBlobs(cctx, ch, after, limit) }()
	var out []blob.SizedRef
	timer := time.NewTimer(CallTimeout)
	defer timer.Stop()
	for {
		select {
		case sb, ok := <-ch:
			if !ok {
				select {
				case err := <-errc:
					return out, err
				case <-timer.C:
					return out, ErrTimeout
				}
			}
			out = append(out, sb)
		case <-timer.C:
			return out, ErrTimeout
		}
	}
}

// ExpectedEnum is what the reference map enumerates after `after` with `limit`
// (Maybe entries must have been resolved before).
func (m *Map) ExpectedEnum(after string, limit int) []blob.SizedRef {
	var out []blob.SizedRef
	for _, e := range m.PresentSorted() {
		if e.Ref.String() > after && len(out) < limit {
			out = append(out, blob.SizedRef{Ref: e.Ref, Size: uint32(len(e.Data))})
		}
	}
	return out
}

// ResolveMaybes pins every Maybe entry by fetching it.
func (m *Map) ResolveMaybes(ctx context.Context, sto blob.Fetcher) error {
	for _, e := range m.Entries() {
		if e.State == Maybe {
			if err := m.CheckFetch(ctx, sto, e.Ref); err != nil {
				return err
			}
		}
	}
	return nil
}

// CheckEnumerate compares one enumerate call with the model.
func (m *Map) CheckEnumerate(ctx context.Context, sto blobserver.Storage, after string, limit int) error {
	if err := m.ResolveMaybes(ctx, sto); err != nil {
		return err
	}
	got, err := Enumerate(ctx, sto, after, limit)
	if err != nil {
		if err == ErrTimeout {
			return err
		}
		return mis("enum-error", blob.Ref{}, "EnumerateBlobs(after=%q, limit=%d) returned %v", after, limit, err)
	}
	want := m.ExpectedEnum(after, limit)
	return compareEnum(got, want, after, limit)
}

func compareEnum(got, want []blob.SizedRef, after string, limit int) error {
	if len(got) > limit {
		return mis("enum-over-limit", blob.Ref{}, "EnumerateBlobs(after=%q, limit=%d) sent %d blobs", after, limit, len(got))
	}
	for i, sb := range got {
		if sb.Ref.String() <= after {
			return mis("enum-not-after-cursor", sb.Ref, "EnumerateBlobs(after=%q) sent a ref not strictly after the cursor", after)
		}
		if i > 0 && !(got[i-1].Ref.String() < sb.Ref.String()) {
			return mis("enum-order", sb.Ref, "EnumerateBlobs(after=%q, limit=%d): %s sent after %s (not strictly ascending / duplicate)", after, limit, sb.Ref, got[i-1].Ref)
		}
	}
	for i := 0; i < len(got) || i < len(want); i++ {
		switch {
		case i >= len(got):
			return mis("enum-missing", want[i].Ref, "EnumerateBlobs(after=%q, limit=%d) sent %d blobs, model expects %d; first missing %s", after, limit, len(got), len(want), want[i].Ref)
		case i >= len(want):
			return mis("enum-extra", got[i].Ref, "EnumerateBlobs(after=%q, limit=%d) sent %d blobs, model expects %d; first extra %s", after, limit, len(got), len(want), got[i].Ref)
		case got[i].Ref != want[i].Ref:
			if got[i].Ref.String() < want[i].Ref.String() {
				return mis("enum-extra", got[i].Ref, "EnumerateBlobs(after=%q, limit=%d) position %d: got %s, model expects %s", after, limit, i, got[i].Ref, want[i].Ref)
			}
			return mis("enum-missing", want[i].Ref, "EnumerateBlobs(after=%q, limit=%d) position %d: got %s, model expects %s", after, limit, i, got[i].Ref, want[i].Ref)
		case got[i].Size != want[i].Size:
			return mis("enum-size", got[i].Ref, "EnumerateBlobs reported size %d, true size %d", got[i].Size, want[i].Size)
		}
	}
	return nil
}

// CheckPaging pages through the whole store with the given page size and
// compares the concatenation with the model (each blob exactly once).
func (m *Map) CheckPaging(ctx context.Context, sto blobserver.Storage, page int) error {
	if err := m.ResolveMaybes(ctx, sto); err != nil {
		return err
	}
	var all []blob.SizedRef
	after := ""
	for rounds := 0; ; rounds++ {
		got, err := Enumerate(ctx, sto, after, page)
		if err != nil {
			if err == ErrTimeout {
				return err
			}
			return mis("enum-error", blob.Ref{}, "EnumerateBlobs(after=%q, limit=%d) returned %v", after, page, err)
		}
		if len(got) > page {
			return mis("enum-over-limit", blob.Ref{}, "EnumerateBlobs(after=%q, limit=%d) sent %d blobs", after, page, len(got))
		}
		all = append(all, got...)
		if len(got) < page {
			break
		}
		after = got[len(got)-1].Ref.String()
		if rounds > m.NumPresent()+5 {
			return mis("enum-paging-loop", blob.Ref{}, "paging with page size %d did not terminate after %d pages", page, rounds)
		}
	}
	return compareEnum(all, m.ExpectedEnum("", 1<<30), "", 1<<30)
}

// Battery runs the full read comparison: fetch + stat of every known ref (and
// the extra refs), a full enumeration, paging with the given page size, and a
// few ranged fetches when the store supports them.
func (m *Map) Battery(ctx context.Context, sto blobserver.Storage, extra []blob.Ref, page int) error {
	var refs []blob.Ref
	for _, e := range m.Entries() {
		refs = append(refs, e.Ref)
	}
	seen := map[blob.Ref]bool{}
	for _, r := range refs {
		seen[r] = true
	}
	for _, r := range extra {
		if !seen[r] {
			refs = append(refs, r)
			seen[r] = true
		}
	}
	for _, r := range refs {
		if err := m.CheckFetch(ctx, sto, r); err != nil {
			return err
		}
	}
	if err := m.CheckStat(ctx, sto, refs); err != nil {
		return err
	}
	if err := m.CheckEnumerate(ctx, sto, "", 1<<20); err != nil {
		return err
	}
	if page > 0 {
		if err := m.CheckPaging(ctx, sto, page); err != nil {
			return err
		}
	}
	if sf, ok := sto.(blob.SubFetcher); ok {
		for _, e := range m.Entries() {
			n := int64(len(e.Data))
			for _, r := range [][2]int64{{0, n}, {n / 2, n}, {n, 1}, {1, 1}} {
				if _, err := m.CheckSubFetch(ctx, sf, e.Ref, r[0], r[1]); err != nil {
					return err
				}
			}
		}
	}
	return nil
}
