// Package vworld generates small perkeep "worlds" (public keys, permanodes,
// attribute claims, delete claims with chains, hand-built files with 1-3 levels
// of "bytes" blobs, directories with static sets, opaque blobs) together with
// the harness's own model of what was generated, so that oracles never have to
// parse blobs back. It also holds the small helpers the index-family checks
// share (building an index over a blob source, dumping / copying rows).
//
// Domain rules (DESIGN.md section 4.1), all enforced by construction:
//   - claim dates of the claims attached to one permanode (its attribute claims
//     and every delete claim in a chain that ends at the permanode or at one of
//     its claims) are pairwise distinct, never in the future, and never inside
//     Unix second 0 (schema.Blob.AsClaim treats "Unix zero" as "no date");
//   - delete claims only target permanodes or claims (doc/schema/delete.md);
//   - blob indices are in dependency order: every dependency of blob i has an
//     index < i.
package vworld

import (
	"encoding/json"
	"fmt"
	"hash/fnv"
	"sort"
	"strings"
	"time"

	"perkeep.org/pkg/blob"
	"perkeep.org/pkg/schema"
	"perkeep.org/pkg/test"
	"pgregory.net/rapid"

	"verifharness/internal/vsign"
)

type Kind string

const (
	KKey       Kind = "key"
	KPermanode Kind = "permanode"
	KAttr      Kind = "attr-claim"
	KDelete    Kind = "delete-claim"
	KChunk     Kind = "chunk"
	KBytes     Kind = "bytes"
	KFile      Kind = "file"
	KStaticSet Kind = "static-set"
	KDir       Kind = "directory"
	KOpaque    Kind = "opaque"
)

// Claim is the model of a claim blob.
type Claim struct {
	Type      string // set-attribute | add-attribute | del-attribute | delete
	Permanode int    // attribute claims: blob index of the permanode; delete claims: -1
	Attr      string
	Value     string
	Target    int // delete claims: blob index of the target; else -1
	Date      time.Time
	DateStr   string // as written in the blob (and in index rows)
}

// Blob is one generated blob plus its model.
type Blob struct {
	I         int
	Kind      Kind
	Label     string
	Contents  string
	Ref       blob.Ref
	CamliType string // "" for non-schema blobs

	// FetchDeps: blobs that must be in *storage* when this blob is indexed
	// (signer key, file chunks and bytes blobs transitively, static set).
	FetchDeps []int
	// Signer is the identity index (into World.Ids) or -1.
	Signer int
	Claim  *Claim

	// files
	FileName     string
	FileContents string
	WholeRef     blob.Ref
	// directories / static sets
	StaticSet int // directory: index of its static-set blob, else -1
	Members   []blob.Ref
}

func (b *Blob) TB() *test.Blob { return &test.Blob{Contents: b.Contents} }

// World is a generated blob set with its model.
type World struct {
	Blobs    []*Blob
	Ids      []*vsign.Identity
	KeyIdx   []int        // blob index of the public-key blob of Ids[k]
	Withheld map[int]bool // blobs that never arrive anywhere
	byRef    map[blob.Ref]int
	// foreignEvery > 0: every foreignEvery-th signed blob is written with whitespace in front of
	// "camliVersion", as a foreign serializer may (vsign.SignStyled)
	foreignEvery, nSigned int
}

func (w *World) nextStyle() int {
	w.nSigned++
	if w.foreignEvery <= 0 || w.nSigned%w.foreignEvery != 0 {
		return 0
	}
	return 1 + (w.nSigned/w.foreignEvery)%(vsign.NumLeadStyles-1)
}

// Config bounds the generator.
type Config struct {
	MaxPermanodes int
	MaxAttrClaims int
	MaxDeletes    int
	MaxChain      int // maximal length of a delete chain (delete of delete of ...)
	MaxFiles      int
	MaxDirs       int
	MaxOpaque     int
	TwoSigners    bool
	// ForceTwoSigners makes every world carry claims of both identities.
	ForceTwoSigners bool
	Withhold        bool // allow a drawn subset of dependencies to be withheld
	Attrs           []string
	Values          []string
	RefValues       bool // attribute values may reference blobs of the world
	MaxBlobs        int  // 0 = unbounded; otherwise generation of optional parts stops when reached
	// DateSpread is the number of distinct seconds (per era) claim dates are drawn
	// from; 0 means the default of 15. 1 puts all claims of an era into the same
	// second (dates then differ in their fraction only).
	DateSpread int
}

// SigTime is the fixed signature time (makes RSA PKCS#1 signatures deterministic).
var SigTime = time.Date(2011, 11, 28, 1, 32, 37, 0, time.UTC)

var DefaultAttrs = []string{"tag", "title", "camliContent", "camliMember", "camliPath:a", "camliPath:sub dir", "camliRoot", "camliNodeType", "descr|ption"}
var DefaultValues = []string{"a", "b", "", "a|b", "50% off", "sp ace", "ünï-✓", "x+y", "%41", "foo/bar?z=1&w=2"}

func (w *World) add(b *Blob) int {
	b.Ref = blob.RefFromString(b.Contents)
	if i, ok := w.byRef[b.Ref]; ok {
		return i
	}
	b.I = len(w.Blobs)
	w.Blobs = append(w.Blobs, b)
	w.byRef[b.Ref] = b.I
	return b.I
}

// IndexOf returns the blob index of ref, or -1.
func (w *World) IndexOf(ref blob.Ref) int {
	if i, ok := w.byRef[ref]; ok {
		return i
	}
	return -1
}

func jstr(s string) string {
	b, _ := json.Marshal(s)
	return string(b)
}

type part struct {
	isBytes bool
	ref     blob.Ref
	size    int
}

func partsJSON(ps []part) string {
	var sb strings.Builder
	sb.WriteString("[")
	for i, p := range ps {
		if i > 0 {
			sb.WriteString(",")
		}
		k := "blobRef"
		if p.isBytes {
			k = "bytesRef"
		}
		fmt.Fprintf(&sb, "\n    {%q: %q, \"size\": %d}", k, p.ref.String(), p.size)
	}
	sb.WriteString("\n  ]")
	return sb.String()
}

// genParts builds a part list (1-3 parts) with up to maxLevel further levels
// of "bytes" blobs below it; returns the parts, the concatenated content and the
// transitive dependency set.
func (w *World) genParts(t *rapid.T, maxLevel int) (ps []part, content string, deps []int) {
	n := rapid.IntRange(1, 3).Draw(t, "nparts")
	for i := 0; i < n; i++ {
		if maxLevel > 0 && rapid.IntRange(0, 2).Draw(t, "viaBytes") == 0 {
			sub, c, d := w.genParts(t, maxLevel-1)
			js := "{\"camliVersion\": 1,\n  \"camliType\": \"bytes\",\n  \"parts\": " + partsJSON(sub) + "\n}"
			// a bytes blob is indexed on its own (meta row only); only the file needs the whole tree
			bi := w.add(&Blob{Kind: KBytes, Contents: js, CamliType: "bytes", Signer: -1, StaticSet: -1})
			w.Blobs[bi].Label = fmt.Sprintf("bytes%d", bi)
			ps = append(ps, part{true, w.Blobs[bi].Ref, len(c)})
			content += c
			deps = append(deps, d...)
			deps = append(deps, bi)
		} else {
			c := rapid.StringMatching(`[a-z]{1,4}`).Draw(t, "chunk")
			bi := w.add(&Blob{Kind: KChunk, Contents: c, Signer: -1, StaticSet: -1})
			w.Blobs[bi].Label = fmt.Sprintf("chunk%d(%q)", bi, c)
			ps = append(ps, part{false, w.Blobs[bi].Ref, len(c)})
			content += c
			deps = append(deps, bi)
		}
	}
	return
}

func uniq(in []int) []int {
	m := map[int]bool{}
	var out []int
	for _, v := range in {
		if !m[v] {
			m[v] = true
			out = append(out, v)
		}
	}
	sort.Ints(out)
	return out
}

// dateGen draws claim dates: whole seconds, sub-second with differing digit
// counts, both around 2011 and around the Unix epoch (pre-1970 included).
type dateGen struct {
	used   map[int]map[int64]bool // group (permanode blob index) -> unix nanos in use
	spread int
}

var fracs = []int{0, 0, 0, 500000000, 250000000, 50000000, 120000000, 123456789, 999999999, 1, 100}

func (g *dateGen) draw(t *rapid.T, group int) time.Time {
	var base time.Time
	switch rapid.IntRange(0, 5).Draw(t, "era") {
	case 0: // around the epoch, before it
		base = time.Date(1969, 12, 31, 23, 59, 50, 0, time.UTC)
	case 1: // long before
		base = time.Date(1931, 5, 17, 8, 0, 0, 0, time.UTC)
	default:
		base = time.Date(2011, 11, 28, 1, 32, 30, 0, time.UTC)
	}
	spread := g.spread
	if spread <= 0 {
		spread = 15
	}
	sec := rapid.IntRange(0, spread-1).Draw(t, "sec")
	ns := rapid.SampledFrom(fracs).Draw(t, "frac")
	d := base.Add(time.Duration(sec)*time.Second + time.Duration(ns))
	if g.used[group] == nil {
		g.used[group] = map[int64]bool{}
	}
	for g.used[group][d.UnixNano()] || d.Unix() == 0 {
		d = d.Add(7 * time.Nanosecond)
		if d.Unix() == 0 {
			d = d.Add(time.Second)
		}
	}
	g.used[group][d.UnixNano()] = true
	return d
}

// Draw generates a world.
func Draw(t *rapid.T, cfg Config) *World {
	w := &World{Withheld: map[int]bool{}, byRef: map[blob.Ref]int{}}
	w.foreignEvery = rapid.SampledFrom([]int{0, 0, 3, 7}).Draw(t, "foreignSerializerEvery")
	attrs, values := cfg.Attrs, cfg.Values
	if attrs == nil {
		attrs = DefaultAttrs
	}
	if values == nil {
		values = DefaultValues
	}
	full := func() bool { return cfg.MaxBlobs > 0 && len(w.Blobs) >= cfg.MaxBlobs }

	// identities
	w.Ids = []*vsign.Identity{vsign.Test()}
	if cfg.ForceTwoSigners || cfg.TwoSigners && rapid.IntRange(0, 2).Draw(t, "twoSigners") == 0 {
		w.Ids = append(w.Ids, vsign.Second())
	}
	if len(w.Ids) == 1 && cfg.TwoSigners && rapid.IntRange(0, 7).Draw(t, "onlySecond") == 0 {
		w.Ids[0] = vsign.Second()
	}
	for k, id := range w.Ids {
		bi := w.add(&Blob{Kind: KKey, Contents: id.Armored, Signer: -1, StaticSet: -1, Label: "key:" + id.Name})
		w.KeyIdx = append(w.KeyIdx, bi)
		_ = k
	}

	// files
	var fileIdx, refTargets []int
	if cfg.MaxFiles > 0 {
		nf := rapid.IntRange(0, cfg.MaxFiles).Draw(t, "nfiles")
		for f := 0; f < nf && !full(); f++ {
			levels := rapid.IntRange(0, 3).Draw(t, "levels")
			ps, content, deps := w.genParts(t, levels)
			name := rapid.SampledFrom([]string{"f.txt", "some file.dat", "ü|x.bin", "noext", "a%b.txt"}).Draw(t, "fname")
			js := "{\"camliVersion\": 1,\n  \"camliType\": \"file\",\n  \"fileName\": " + jstr(name) + ",\n  \"parts\": " + partsJSON(ps)
			if rapid.Bool().Draw(t, "mtime") {
				mt := time.Date(2009, 7, 1, 12, 0, rapid.IntRange(0, 59).Draw(t, "mtsec"), 0, time.UTC)
				js += ",\n  \"unixMtime\": " + jstr(schema.RFC3339FromTime(mt))
			}
			js += "\n}"
			bi := w.add(&Blob{Kind: KFile, Contents: js, CamliType: "file", Signer: -1, StaticSet: -1,
				FetchDeps: uniq(deps), FileName: name, FileContents: content, WholeRef: blob.RefFromString(content)})
			w.Blobs[bi].Label = fmt.Sprintf("file%d(%q)", bi, content)
			fileIdx = append(fileIdx, bi)
		}
	}
	// directories
	if cfg.MaxDirs > 0 {
		nd := rapid.IntRange(0, cfg.MaxDirs).Draw(t, "ndirs")
		for d := 0; d < nd && !full(); d++ {
			var members []blob.Ref
			for _, fi := range fileIdx {
				if rapid.Bool().Draw(t, "member") {
					members = append(members, w.Blobs[fi].Ref)
				}
			}
			if rapid.IntRange(0, 3).Draw(t, "ghostMember") == 0 {
				members = append(members, blob.RefFromString(fmt.Sprintf("ghost-%d", d)))
			}
			ms := make([]string, len(members))
			for i, m := range members {
				ms[i] = jstr(m.String())
			}
			ssjs := "{\"camliVersion\": 1,\n  \"camliType\": \"static-set\",\n  \"members\": [" + strings.Join(ms, ", ") + "]\n}"
			deps := []int{}
			if len(members) >= 2 && rapid.IntRange(0, 2).Draw(t, "splitStaticSet") == 0 {
				// a large directory: the top static-set only lists sub-sets ("mergeSets"), which hold the members
				cut := rapid.IntRange(1, len(members)-1).Draw(t, "splitAt")
				var subRefs []string
				for k, part := range [][]string{ms[:cut], ms[cut:]} {
					sub := "{\"camliVersion\": 1,\n  \"camliType\": \"static-set\",\n  \"members\": [" + strings.Join(part, ", ") + "]\n}"
					sbi := w.add(&Blob{Kind: KStaticSet, Contents: sub, CamliType: "static-set", Signer: -1, StaticSet: -1})
					w.Blobs[sbi].Label = fmt.Sprintf("static-subset%d.%d", d, k)
					deps = append(deps, sbi)
					subRefs = append(subRefs, jstr(w.Blobs[sbi].Ref.String()))
				}
				ssjs = "{\"camliVersion\": 1,\n  \"camliType\": \"static-set\",\n  \"mergeSets\": [" + strings.Join(subRefs, ", ") + "]\n}"
			}
			si := w.add(&Blob{Kind: KStaticSet, Contents: ssjs, CamliType: "static-set", Signer: -1, StaticSet: -1, Members: members})
			w.Blobs[si].Label = fmt.Sprintf("static-set%d", si)
			dname := rapid.SampledFrom([]string{"dir", "my dir", "d|r"}).Draw(t, "dname")
			djs := "{\"camliVersion\": 1,\n  \"camliType\": \"directory\",\n  \"fileName\": " + jstr(dname) + ",\n  \"entries\": " + jstr(w.Blobs[si].Ref.String()) + "\n}"
			di := w.add(&Blob{Kind: KDir, Contents: djs, CamliType: "directory", Signer: -1, StaticSet: si, FetchDeps: uniq(append([]int{si}, deps...)),
				FileName: dname, Members: members})
			w.Blobs[di].Label = fmt.Sprintf("dir%d", di)
			fileIdx = append(fileIdx, di)
		}
	}
	// opaque
	if cfg.MaxOpaque > 0 {
		no := rapid.IntRange(0, cfg.MaxOpaque).Draw(t, "nopaque")
		for o := 0; o < no && !full(); o++ {
			c := rapid.SampledFrom([]string{"", "hello world\n", "{\"a\": 1}", "\x00\x01\x02binary\xff", "{\"camliVersion\" is not json", "<html><body>x</body></html>"}).Draw(t, "opaque")
			c += strings.Repeat("z", rapid.IntRange(0, 3).Draw(t, "pad"))
			bi := w.add(&Blob{Kind: KOpaque, Contents: c, Signer: -1, StaticSet: -1})
			w.Blobs[bi].Label = fmt.Sprintf("opaque%d", bi)
		}
	}

	// permanodes
	np := rapid.IntRange(1, max(1, cfg.MaxPermanodes)).Draw(t, "npermanodes")
	var pns []int
	for p := 0; p < np; p++ {
		sg := rapid.IntRange(0, len(w.Ids)-1).Draw(t, "pnSigner")
		bb := schema.NewPlannedPermanode(fmt.Sprintf("verif-pn-%d-%d", p, rapid.IntRange(0, 3).Draw(t, "pnKey")))
		tb := w.Ids[sg].SignStyled(bb, SigTime, w.nextStyle())
		bi := w.add(&Blob{Kind: KPermanode, Contents: tb.Contents, CamliType: "permanode", Signer: sg, StaticSet: -1, FetchDeps: []int{w.KeyIdx[sg]}})
		w.Blobs[bi].Label = fmt.Sprintf("P%d", bi)
		pns = append(pns, bi)
	}
	pns = uniq(pns)
	refTargets = append(refTargets, fileIdx...)
	refTargets = append(refTargets, pns...)

	// attribute claims
	dg := &dateGen{used: map[int]map[int64]bool{}, spread: cfg.DateSpread}
	group := map[int]int{} // blob index -> permanode group
	for _, p := range pns {
		group[p] = p
	}
	var claimable []int // delete targets: permanodes, claims
	claimable = append(claimable, pns...)
	chainLen := map[int]int{} // blob -> number of delete claims below it in its chain
	na := rapid.IntRange(0, cfg.MaxAttrClaims).Draw(t, "nattr")
	for a := 0; a < na && !full(); a++ {
		pn := rapid.SampledFrom(pns).Draw(t, "claimPn")
		sg := rapid.IntRange(0, len(w.Ids)-1).Draw(t, "claimSigner")
		typ := rapid.SampledFrom([]string{"set-attribute", "set-attribute", "add-attribute", "add-attribute", "del-attribute"}).Draw(t, "claimType")
		attr := rapid.SampledFrom(attrs).Draw(t, "attr")
		var val string
		if cfg.RefValues && (attr == "camliContent" || attr == "camliMember" || strings.HasPrefix(attr, "camliPath:")) && rapid.IntRange(0, 3).Draw(t, "refVal") != 0 {
			val = w.Blobs[rapid.SampledFrom(refTargets).Draw(t, "refTarget")].Ref.String()
		} else if attr == "latitude" || attr == "longitude" {
			val = rapid.SampledFrom([]string{"1.5", "-2.25", "10", "0.125"}).Draw(t, "coord")
		} else if attr == "camliNodeType" {
			val = rapid.SampledFrom([]string{"foursquare.com:checkin", "other", ""}).Draw(t, "nodeType")
		} else {
			val = rapid.SampledFrom(values).Draw(t, "value")
		}
		date := dg.draw(t, pn)
		var bb *schema.Builder
		switch typ {
		case "set-attribute":
			bb = schema.NewSetAttributeClaim(w.Blobs[pn].Ref, attr, val)
		case "add-attribute":
			bb = schema.NewAddAttributeClaim(w.Blobs[pn].Ref, attr, val)
		default:
			bb = schema.NewDelAttributeClaim(w.Blobs[pn].Ref, attr, val)
		}
		bb.SetClaimDate(date)
		tb := w.Ids[sg].SignStyled(bb, SigTime, w.nextStyle())
		bi := w.add(&Blob{Kind: KAttr, Contents: tb.Contents, CamliType: "claim", Signer: sg, StaticSet: -1, FetchDeps: []int{w.KeyIdx[sg]},
			Claim: &Claim{Type: typ, Permanode: pn, Attr: attr, Value: val, Target: -1, Date: date, DateStr: schema.RFC3339FromTime(date)}})
		w.Blobs[bi].Label = fmt.Sprintf("C%d[%s %s=%q on P%d @%s by %s]", bi, typ, attr, val, pn, schema.RFC3339FromTime(date), w.Ids[sg].Name)
		group[bi] = pn
		claimable = append(claimable, bi)
	}
	claimable = uniq(claimable)

	// delete claims (targets: permanodes, attribute claims, earlier delete claims)
	if cfg.MaxDeletes > 0 {
		nd := rapid.IntRange(0, cfg.MaxDeletes).Draw(t, "ndeletes")
		var lastDel = -1
		for d := 0; d < nd && !full(); d++ {
			var target int
			if lastDel >= 0 && chainLen[lastDel] < cfg.MaxChain && rapid.IntRange(0, 2).Draw(t, "extendChain") == 0 {
				target = lastDel
			} else {
				target = rapid.SampledFrom(claimable).Draw(t, "delTarget")
				if chainLen[target] >= cfg.MaxChain {
					continue
				}
			}
			sg := rapid.IntRange(0, len(w.Ids)-1).Draw(t, "delSigner")
			date := dg.draw(t, group[target])
			bb := schema.NewDeleteClaim(w.Blobs[target].Ref)
			bb.SetClaimDate(date)
			tb := w.Ids[sg].SignStyled(bb, SigTime, w.nextStyle())
			bi := w.add(&Blob{Kind: KDelete, Contents: tb.Contents, CamliType: "claim", Signer: sg, StaticSet: -1, FetchDeps: []int{w.KeyIdx[sg]},
				Claim: &Claim{Type: "delete", Permanode: -1, Target: target, Date: date, DateStr: schema.RFC3339FromTime(date)}})
			if w.Blobs[bi].Label == "" {
				w.Blobs[bi].Label = fmt.Sprintf("D%d[delete %d @%s by %s]", bi, target, schema.RFC3339FromTime(date), w.Ids[sg].Name)
				group[bi] = group[target]
				if w.Blobs[target].Kind == KDelete {
					chainLen[bi] = chainLen[target] + 1
				} else {
					chainLen[bi] = 1
				}
				claimable = append(claimable, bi)
			}
			lastDel = bi
		}
	}

	// withheld dependencies
	if cfg.Withhold && rapid.IntRange(0, 2).Draw(t, "withhold") == 0 {
		needed := map[int]bool{}
		for _, b := range w.Blobs {
			for _, d := range b.FetchDeps {
				needed[d] = true
			}
			if b.Kind == KDelete {
				needed[b.Claim.Target] = true
			}
		}
		var cand []int
		for i := range w.Blobs {
			if needed[i] {
				cand = append(cand, i)
			}
		}
		if len(cand) > 0 {
			n := rapid.IntRange(1, min(2, len(cand))).Draw(t, "nwithheld")
			for k := 0; k < n; k++ {
				w.Withheld[rapid.SampledFrom(cand).Draw(t, "withheld")] = true
			}
		}
	}
	return w
}

// Arriving returns the indices of the blobs that arrive (not withheld), in
// dependency order.
func (w *World) Arriving() []int {
	var out []int
	for i := range w.Blobs {
		if !w.Withheld[i] {
			out = append(out, i)
		}
	}
	return out
}

// HasMeta reports whether blob i gets a meta row given the set of blobs in
// storage: it is itself present and so are all its fetch dependencies.
func (w *World) HasMeta(i int, present func(int) bool) bool {
	if !present(i) {
		return false
	}
	for _, d := range w.Blobs[i].FetchDeps {
		if !present(d) {
			return false
		}
	}
	return true
}

// Full reports whether blob i is completely indexed: meta row, and for delete
// claims the target has a meta row too.
func (w *World) Full(i int, present func(int) bool) bool {
	if !w.HasMeta(i, present) {
		return false
	}
	b := w.Blobs[i]
	if b.Kind == KDelete {
		return w.HasMeta(b.Claim.Target, present)
	}
	return true
}

// DirectMissing returns the direct dependencies of blob i that keep it from
// being fully indexed (fetch deps absent from storage, delete target without
// meta row).
func (w *World) DirectMissing(i int, present func(int) bool) []int {
	var out []int
	b := w.Blobs[i]
	for _, d := range b.FetchDeps {
		if !present(d) {
			out = append(out, d)
		}
	}
	if b.Kind == KDelete && len(out) == 0 && !w.HasMeta(b.Claim.Target, present) {
		out = append(out, b.Claim.Target)
	}
	return out
}

// Deleted implements doc/schema/delete.md over the delete claims for which
// effective(deleteClaimIndex) holds: i is deleted iff some effective delete
// claim targeting i is itself not deleted.
func (w *World) Deleted(i int, effective func(int) bool) bool {
	for _, b := range w.Blobs {
		if b.Kind == KDelete && b.Claim.Target == i && effective(b.I) && !w.Deleted(b.I, effective) {
			return true
		}
	}
	return false
}

// ClaimsOn returns the indices of the attribute claims on permanode pn, sorted
// by claim date.
func (w *World) ClaimsOn(pn int) []int {
	var out []int
	for _, b := range w.Blobs {
		if b.Kind == KAttr && b.Claim.Permanode == pn {
			out = append(out, b.I)
		}
	}
	sort.Slice(out, func(a, c int) bool { return w.Blobs[out[a]].Claim.Date.Before(w.Blobs[out[c]].Claim.Date) })
	return out
}

// Permanodes returns the indices of the permanode blobs.
func (w *World) Permanodes() []int {
	var out []int
	for _, b := range w.Blobs {
		if b.Kind == KPermanode {
			out = append(out, b.I)
		}
	}
	return out
}

// Hash is a canonical hash of the blob set (refs + withheld).
func (w *World) Hash() uint64 {
	h := fnv.New64a()
	refs := make([]string, 0, len(w.Blobs))
	for _, b := range w.Blobs {
		s := b.Ref.String()
		if w.Withheld[b.I] {
			s += "!"
		}
		refs = append(refs, s)
	}
	sort.Strings(refs)
	for _, r := range refs {
		h.Write([]byte(r))
		h.Write([]byte{0})
	}
	return h.Sum64()
}

// Summary renders the world for evidence samples and failure messages.
func (w *World) Summary() []string {
	var out []string
	for _, b := range w.Blobs {
		s := fmt.Sprintf("%d %s %s %s", b.I, b.Kind, b.Label, b.Ref.String()[:16])
		if len(b.FetchDeps) > 0 {
			s += fmt.Sprintf(" deps=%v", b.FetchDeps)
		}
		if w.Withheld[b.I] {
			s += " WITHHELD"
		}
		out = append(out, s)
	}
	return out
}

// KindCounts returns how many blobs of each kind the world has.
func (w *World) KindCounts() map[Kind]int {
	m := map[Kind]int{}
	for _, b := range w.Blobs {
		m[b.Kind]++
	}
	return m
}
