package vworld

import (
	"fmt"
	"net/url"
	"strings"
)

// CheckAnchors compares a row dump with the rows the harness computes itself
// from its world model, given the set of blobs present in storage (every
// present blob is assumed to have been delivered to the index and the index to
// be quiescent). It is the absolute anchor paired with the differential
// oracles: both directions (row must exist / row must not exist) and row counts
// per family.
func CheckAnchors(w *World, rows []Row, present func(int) bool) error {
	m := make(map[string]string, len(rows))
	for _, r := range rows {
		m[r.K] = r.V
	}
	hasPrefixSuffix := func(prefix, suffix string) (string, string, bool) {
		for _, r := range rows {
			if strings.HasPrefix(r.K, prefix) && strings.HasSuffix(r.K, suffix) {
				return r.K, r.V, true
			}
		}
		return "", "", false
	}
	count := func(prefix string) int {
		n := 0
		for _, r := range rows {
			if strings.HasPrefix(r.K, prefix) {
				n++
			}
		}
		return n
	}
	urle := url.QueryEscape
	var nMeta, nClaimRows, nDeleted, nMissingBlobs int
	signerSeen := map[int]bool{}
	for _, b := range w.Blobs {
		ref := b.Ref.String()
		meta := w.HasMeta(b.I, present)
		full := w.Full(b.I, present)
		size := len(b.Contents)
		hv, hok := m["have:"+ref]
		mv, mok := m["meta:"+ref]
		if meta {
			nMeta++
			want := fmt.Sprintf("%d", size)
			if full {
				want += "|indexed"
			}
			if !hok || hv != want {
				return fmt.Errorf("anchor: have:%s (%s) = %q (present=%v), model says %q", ref, b.Label, hv, hok, want)
			}
			if !mok || !strings.HasPrefix(mv, fmt.Sprintf("%d|", size)) {
				return fmt.Errorf("anchor: meta:%s (%s) = %q (present=%v), model says size %d", ref, b.Label, mv, mok, size)
			}
			if b.CamliType != "" {
				if want := fmt.Sprintf("%d|application/json; camliType=%s", size, b.CamliType); mv != want {
					return fmt.Errorf("anchor: meta:%s (%s) = %q, model says %q", ref, b.Label, mv, want)
				}
			}
		} else {
			if hok || mok {
				return fmt.Errorf("anchor: %s (%s) has have/meta rows (%q,%q) although a fetch dependency is absent or it never arrived", ref, b.Label, hv, mv)
			}
		}
		nMissing := count("missing|" + ref + "|")
		if present(b.I) && !full {
			nMissingBlobs++
			found := false
			for _, d := range w.DirectMissing(b.I, present) {
				if _, ok := m["missing|"+ref+"|"+w.Blobs[d].Ref.String()]; ok {
					found = true
				}
			}
			if !found {
				return fmt.Errorf("anchor: %s (%s) waits for %v but has no missing|have|needed row for any of them (it has %d missing rows)", ref, b.Label, w.DirectMissing(b.I, present), nMissing)
			}
		} else if nMissing != 0 {
			return fmt.Errorf("anchor: %s (%s) is fully indexed or absent but still has %d missing| rows", ref, b.Label, nMissing)
		}
		if (b.Kind == KAttr || b.Kind == KDelete) && meta {
			signerSeen[b.Signer] = true
		}
		switch b.Kind {
		case KAttr:
			c := b.Claim
			id := w.Ids[b.Signer]
			key := fmt.Sprintf("claim|%s|%s|%s|%s", w.Blobs[c.Permanode].Ref, id.KeyID, c.DateStr, ref)
			v, ok := m[key]
			if full {
				nClaimRows++
				want := fmt.Sprintf("%s|%s|%s|%s", urle(c.Type), urle(c.Attr), urle(c.Value), id.Ref)
				if !ok || v != want {
					return fmt.Errorf("anchor: claim row %q = %q (present=%v), model says %q", key, v, ok, want)
				}
				if k, v, ok := hasPrefixSuffix("recpn|"+id.KeyID+"|", "|"+ref); !ok || v != w.Blobs[c.Permanode].Ref.String() {
					return fmt.Errorf("anchor: recpn row for claim %s: %q=%q present=%v", b.Label, k, v, ok)
				}
			} else if ok {
				return fmt.Errorf("anchor: claim row %q exists although the claim is not indexed", key)
			}
		case KDelete:
			c := b.Claim
			id := w.Ids[b.Signer]
			tref := w.Blobs[c.Target].Ref.String()
			k, v, ok := hasPrefixSuffix("deleted|"+tref+"|", "|"+ref)
			if full {
				nDeleted++
				if !ok || v != "" {
					return fmt.Errorf("anchor: no deleted|%s|...|%s row for %s", tref, ref, b.Label)
				}
				if w.Blobs[c.Target].Kind == KPermanode {
					nClaimRows++
					key := fmt.Sprintf("claim|%s|%s|%s|%s", tref, id.KeyID, c.DateStr, ref)
					want := fmt.Sprintf("delete|||%s", id.Ref)
					if got, ok := m[key]; !ok || got != want {
						return fmt.Errorf("anchor: claim row %q = %q (present=%v), model says %q", key, got, ok, want)
					}
				}
			} else if ok {
				return fmt.Errorf("anchor: row %q exists although delete claim %s is not fully indexed", k, b.Label)
			}
		case KFile:
			v, ok := m["fileinfo|"+ref]
			if full {
				pre := fmt.Sprintf("%d|%s|", len(b.FileContents), urle(b.FileName))
				if !ok || !strings.HasPrefix(v, pre) || !strings.HasSuffix(v, "|"+b.WholeRef.String()) {
					return fmt.Errorf("anchor: fileinfo|%s = %q (present=%v), model says %s...|%s", ref, v, ok, pre, b.WholeRef)
				}
				if m["wholetofile|"+b.WholeRef.String()+"|"+ref] != "1" {
					return fmt.Errorf("anchor: no wholetofile row for %s", b.Label)
				}
			} else if ok {
				return fmt.Errorf("anchor: fileinfo|%s exists although the file is not indexed", ref)
			}
		case KDir:
			v, ok := m["fileinfo|"+ref]
			if full {
				want := fmt.Sprintf("%d|%s||", len(b.Members), urle(b.FileName))
				if !ok || v != want {
					return fmt.Errorf("anchor: fileinfo|%s = %q (present=%v), model says %q", ref, v, ok, want)
				}
				for _, mem := range b.Members {
					if m["dirchild|"+ref+"|"+mem.String()] != "1" {
						return fmt.Errorf("anchor: no dirchild row %s -> %s", b.Label, mem)
					}
				}
				if n := count("dirchild|" + ref + "|"); n != len(uniqRefs(b.Members)) {
					return fmt.Errorf("anchor: %d dirchild rows for %s, model says %d", n, b.Label, len(b.Members))
				}
			} else if ok {
				return fmt.Errorf("anchor: fileinfo|%s exists although the directory is not indexed", ref)
			}
		}
	}
	for k, id := range w.Ids {
		v, ok := m["signerkeyid:"+id.Ref.String()]
		if signerSeen[k] && (!ok || v != id.KeyID) {
			return fmt.Errorf("anchor: signerkeyid:%s = %q (present=%v), model says %q", id.Ref, v, ok, id.KeyID)
		}
		if !signerSeen[k] && ok {
			return fmt.Errorf("anchor: signerkeyid:%s exists although no claim of that signer was verified", id.Ref)
		}
	}
	if n := count("meta:"); n != nMeta {
		return fmt.Errorf("anchor: %d meta rows, model says %d", n, nMeta)
	}
	if n := count("have:"); n != nMeta {
		return fmt.Errorf("anchor: %d have rows, model says %d", n, nMeta)
	}
	if n := count("claim|"); n != nClaimRows {
		return fmt.Errorf("anchor: %d claim rows, model says %d", n, nClaimRows)
	}
	if n := count("deleted|"); n != nDeleted {
		return fmt.Errorf("anchor: %d deleted rows, model says %d", n, nDeleted)
	}
	if nMissingBlobs == 0 {
		if n := count("missing|"); n != 0 {
			return fmt.Errorf("anchor: %d missing rows although nothing is pending", n)
		}
	}
	return nil
}

func uniqRefs[T comparable](in []T) []T {
	seen := map[T]bool{}
	var out []T
	for _, v := range in {
		if !seen[v] {
			seen[v] = true
			out = append(out, v)
		}
	}
	return out
}

// PendingCount is the model's number of blobs that arrived but are not fully
// indexed (what Index.VerifPending's first result must be after quiescence).
func (w *World) PendingCount(present func(int) bool) int {
	n := 0
	for _, b := range w.Blobs {
		if present(b.I) && !w.Full(b.I, present) {
			n++
		}
	}
	return n
}
