package vworld

import (
	"context"
	"fmt"
	"io"
	"log"
	"sort"
	"strings"
	"sync"

	"go4.org/jsonconfig"
	"perkeep.org/pkg/blob"
	"perkeep.org/pkg/blobserver"
	_ "perkeep.org/pkg/blobserver/blobpacked"
	"perkeep.org/pkg/blobserver/memory"
	"perkeep.org/pkg/index"
	"perkeep.org/pkg/sorted"
	"perkeep.org/pkg/test"
)

var quietOnce sync.Once

// Quiet silences perkeep's logging (the index logs every out-of-order event and
// the corpus runs runtime.GC() for its start-up statistics unless told not to).
func Quiet() {
	quietOnce.Do(func() {
		log.SetOutput(io.Discard)
		index.SetVerboseCorpusLogging(false)
	})
}

var ctxbg = context.Background()

// Env is one index instance over a blob source (storage).
type Env struct {
	W   *World
	Src *test.Fetcher
	// Packed, if non-nil, is the blob source instead of Src (see UsePackedSource).
	Packed blobserver.Storage
	KV  sorted.KeyValue
	Ix  *index.Index
}

// NewEnv builds index.New(kv) with KeyFetcher = blob source = src.
func NewEnv(w *World, kv sorted.KeyValue, src *test.Fetcher) (*Env, error) {
	Quiet()
	if kv == nil {
		kv = sorted.NewMemoryKeyValue()
	}
	if src == nil {
		src = new(test.Fetcher)
	}
	ix, err := index.New(kv)
	if err != nil {
		return nil, err
	}
	ix.InitBlobSource(src)
	return &Env{W: w, Src: src, KV: kv, Ix: ix}, nil
}

// Restart replaces the index by a fresh index.New over the same rows and the
// same blob source (after waiting for asynchronous work of the old one).
func (e *Env) Restart() error {
	e.Ix.VerifAwaitAsync()
	ix, err := index.New(e.KV)
	if err != nil {
		return err
	}
	ix.InitBlobSource(e.source())
	e.Ix = ix
	return nil
}

func (e *Env) source() blobserver.FetcherEnumerator {
	if e.Packed != nil {
		return e.Packed
	}
	return e.Src
}

type packedLoader struct{ m map[string]blobserver.Storage }

func (ld *packedLoader) FindHandlerByType(string) (string, any, error) {
	return "", nil, blobserver.ErrHandlerTypeNotFound
}
func (ld *packedLoader) AllHandlers() (map[string]string, map[string]any) { return nil, nil }
func (ld *packedLoader) MyPrefix() string                                   { return "/bs/" }
func (ld *packedLoader) BaseURL() string                                    { return "http://verif.invalid" }
func (ld *packedLoader) GetHandlerType(string) string                       { return "" }
func (ld *packedLoader) GetHandler(p string) (any, error)                   { return ld.GetStorage(p) }
func (ld *packedLoader) GetStorage(p string) (blobserver.Storage, error) {
	if s, ok := ld.m[p]; ok {
		return s, nil
	}
	return nil, fmt.Errorf("no storage %q", p)
}

// UsePackedSource makes the index read from a blobpacked storage (loose and packed blobs in memory
// stores, meta index in memory) instead of the plain fetcher: the blob source of the default server
// configuration. To be called before the first Store.
func (e *Env) UsePackedSource() error {
	ld := &packedLoader{m: map[string]blobserver.Storage{"/small/": new(memory.Storage), "/large/": new(memory.Storage)}}
	sto, err := blobserver.CreateStorage("blobpacked", ld, jsonconfig.Obj{
		"smallBlobs": "/small/", "largeBlobs": "/large/", "metaIndex": map[string]any{"type": "memory"},
	})
	if err != nil {
		return err
	}
	e.Packed = sto
	return e.Restart() // a fresh index over the (still empty) rows, reading from the packed source
}

// Store puts blob i into storage.
func (e *Env) Store(i int) {
	tb := e.W.Blobs[i].TB()
	if e.Packed != nil {
		if _, err := blobserver.Receive(ctxbg, e.Packed, tb.BlobRef(), tb.Reader()); err != nil {
			panic("vworld: storing into the packed source: " + err.Error())
		}
		return
	}
	e.Src.AddBlob(tb)
}

// Deliver hands blob i to Index.ReceiveBlob.
func (e *Env) Deliver(i int) error {
	tb := e.W.Blobs[i].TB()
	_, err := e.Ix.ReceiveBlob(ctxbg, e.W.Blobs[i].Ref, tb.Reader())
	return err
}

// Await waits for asynchronous re-indexing to drain.
func (e *Env) Await() { e.Ix.VerifAwaitAsync() }

// Release drops the rows of a memory KV so that an index pinned by perkeep's
// process-wide hub map (blobserver.GetHub keeps every index that ever re-indexed
// a blob asynchronously) does not pin its rows as well.
func (e *Env) Release() {
	if wp, ok := e.KV.(sorted.Wiper); ok {
		wp.Wipe()
	}
	e.ReleaseSrc()
}

// ReleaseSrc empties the blob source (it stays reachable from a pinned index).
func (e *Env) ReleaseSrc() {
	refs := make([]blob.Ref, 0, len(e.W.Blobs))
	for _, b := range e.W.Blobs {
		refs = append(refs, b.Ref)
	}
	e.Src.RemoveBlobs(ctxbg, refs)
	if e.Packed != nil {
		e.Packed.RemoveBlobs(ctxbg, refs)
	}
}

// Row is one index row.
type Row struct{ K, V string }

// Dump returns all rows of kv in key order.
func Dump(kv sorted.KeyValue) ([]Row, error) {
	var out []Row
	it := kv.Find("", "")
	for it.Next() {
		out = append(out, Row{it.Key(), it.Value()})
	}
	if err := it.Close(); err != nil {
		return nil, err
	}
	sort.Slice(out, func(i, j int) bool { return out[i].K < out[j].K })
	return out, nil
}

// DumpString renders rows one per line.
func DumpString(rows []Row) string {
	var sb strings.Builder
	for _, r := range rows {
		fmt.Fprintf(&sb, "%q = %q\n", r.K, r.V)
	}
	return sb.String()
}

// DiffRows returns a readable difference of two dumps ("" when equal).
func DiffRows(a, b []Row, na, nb string) string {
	ma := map[string]string{}
	mb := map[string]string{}
	for _, r := range a {
		ma[r.K] = r.V
	}
	for _, r := range b {
		mb[r.K] = r.V
	}
	var sb strings.Builder
	for _, r := range a {
		if v, ok := mb[r.K]; !ok {
			fmt.Fprintf(&sb, "only in %s: %q = %q\n", na, r.K, r.V)
		} else if v != r.V {
			fmt.Fprintf(&sb, "differs: %q: %s=%q %s=%q\n", r.K, na, r.V, nb, v)
		}
	}
	for _, r := range b {
		if _, ok := ma[r.K]; !ok {
			fmt.Fprintf(&sb, "only in %s: %q = %q\n", nb, r.K, r.V)
		}
	}
	return sb.String()
}

// CopyKV copies every row of src into a fresh memory KV.
func CopyKV(src sorted.KeyValue) (sorted.KeyValue, error) {
	dst := sorted.NewMemoryKeyValue()
	rows, err := Dump(src)
	if err != nil {
		return nil, err
	}
	bm := dst.BeginBatch()
	for _, r := range rows {
		bm.Set(r.K, r.V)
	}
	if err := dst.CommitBatch(bm); err != nil {
		return nil, err
	}
	return dst, nil
}

// Reindexed builds a fresh index over a fresh memory KV and the given blob
// source and runs Index.Reindex(); the returned error is Reindex's (it is
// expected to be non-nil when dependencies are withheld).
func Reindexed(w *World, src *test.Fetcher) (*Env, error, error) {
	e, err := NewEnv(w, nil, src)
	if err != nil {
		return nil, nil, err
	}
	rerr := e.Ix.Reindex()
	e.Ix.VerifAwaitAsync()
	return e, rerr, nil
}
