package vworld

import (
	"fmt"
	"sort"
	"strings"
	"time"

	"perkeep.org/pkg/blob"
	"perkeep.org/pkg/index"
	"perkeep.org/pkg/types/camtypes"
)

// QA is one query of the battery with its canonical (order-normalised where
// the API promises no order) answer.
type QA struct{ Q, A string }

// BatteryOpts selects what the battery evaluates.
type BatteryOpts struct {
	// Times are the query times for attribute lookups (the zero time is always
	// included). nil: per permanode, {each claim date on it, date-1ns, date+1ns}.
	Times []time.Time
}

func tstr(t time.Time) string {
	if t.IsZero() {
		return "0"
	}
	return t.UTC().Format(time.RFC3339Nano)
}

func claimStr(c *camtypes.Claim) string {
	return fmt.Sprintf("{%s by %s pn=%s @%s %s %q=%q target=%s}", short(c.BlobRef), short(c.Signer), short(c.Permanode), tstr(c.Date), c.Type, c.Attr, c.Value, short(c.Target))
}

func short(r blob.Ref) string {
	if !r.Valid() {
		return "-"
	}
	return r.String()[:14]
}

func sortedJoin(ss []string) string {
	sort.Strings(ss)
	return "[" + strings.Join(ss, " ") + "]"
}

func refSet(m map[blob.Ref]struct{}) string {
	var ss []string
	for r := range m {
		ss = append(ss, short(r))
	}
	return sortedJoin(ss)
}

// QueryTimes returns {each claim date, date-1ns, date+1ns} over the attribute
// claims on permanode pn and the delete claims targeting pn (pn < 0: all claims).
func (w *World) QueryTimes(pn int) []time.Time {
	seen := map[int64]bool{}
	var out []time.Time
	add := func(t time.Time) {
		if !seen[t.UnixNano()] {
			seen[t.UnixNano()] = true
			out = append(out, t)
		}
	}
	for _, b := range w.Blobs {
		if b.Claim == nil {
			continue
		}
		if pn >= 0 && b.Claim.Permanode != pn && b.Claim.Target != pn {
			continue
		}
		add(b.Claim.Date)
		add(b.Claim.Date.Add(-time.Nanosecond))
		add(b.Claim.Date.Add(time.Nanosecond))
	}
	sort.Slice(out, func(i, j int) bool { return out[i].Before(out[j]) })
	return out
}

// AttrsOn returns the attribute names used by claims on pn, plus one unused.
func (w *World) AttrsOn(pn int) (attrs, vals []string) {
	as, vs := map[string]bool{"neverused": true}, map[string]bool{"nevervalue": true}
	for _, b := range w.Blobs {
		if b.Kind == KAttr && b.Claim.Permanode == pn {
			as[b.Claim.Attr] = true
			vs[b.Claim.Value] = true
		}
	}
	for a := range as {
		attrs = append(attrs, a)
	}
	for v := range vs {
		vals = append(vals, v)
	}
	sort.Strings(attrs)
	sort.Strings(vals)
	return
}

// Battery evaluates a fixed list of exported query methods of the index (and of
// the corpus c when non-nil) for every ref, permanode, attribute and signer of
// the world. The caller must not run deliveries concurrently; the index read
// lock is taken here (the corpus requires it).
func Battery(w *World, ix *index.Index, c *index.Corpus, opts BatteryOpts) []QA {
	ix.RLock()
	defer ix.RUnlock()
	var out []QA
	add := func(q string, format string, a ...any) {
		out = append(out, QA{q, fmt.Sprintf(format, a...)})
	}
	ghost := blob.RefFromString("verif ghost blob")
	refs := make([]blob.Ref, 0, len(w.Blobs)+1)
	for _, b := range w.Blobs {
		refs = append(refs, b.Ref)
	}
	refs = append(refs, ghost)
	label := func(r blob.Ref) string {
		if i := w.IndexOf(r); i >= 0 {
			return fmt.Sprintf("#%d", i)
		}
		return "ghost"
	}

	// attributes / values / suffixes in use
	attrSet, valSet := map[string]bool{}, map[string]bool{}
	for _, b := range w.Blobs {
		if b.Kind == KAttr {
			attrSet[b.Claim.Attr] = true
			valSet[b.Claim.Value] = true
		}
	}
	attrSet["neverused"] = true
	valSet["nevervalue"] = true
	var attrs, vals []string
	for a := range attrSet {
		attrs = append(attrs, a)
	}
	for v := range valSet {
		vals = append(vals, v)
	}
	sort.Strings(attrs)
	sort.Strings(vals)
	signers := []string{""}
	for _, id := range w.Ids {
		signers = append(signers, id.KeyID)
	}
	signers = append(signers, "FFFFFFFFFFFFFFFF")
	times := append([]time.Time{{}}, opts.Times...)

	for _, r := range refs {
		l := label(r)
		bm, err := ix.GetBlobMeta(ctxbg, r)
		add("Index.GetBlobMeta "+l, "%v %d %q err=%v", short(bm.Ref), bm.Size, bm.CamliType, err)
		add("Index.IsDeleted "+l, "%v", ix.IsDeleted(r))
		kid, err := ix.KeyId(ctxbg, r)
		add("Index.KeyId "+l, "%q err=%v", kid, err)
		fi, err := ix.GetFileInfo(ctxbg, r)
		add("Index.GetFileInfo "+l, "%s err=%v", fileInfoStr(fi), err)
		edges, err := ix.EdgesTo(r, nil)
		var es []string
		for _, e := range edges {
			es = append(es, fmt.Sprintf("%s<-%s(%s,%q)via%s", short(e.To), short(e.From), e.FromType, e.FromTitle, short(e.BlobRef)))
		}
		add("Index.EdgesTo "+l, "%s err=%v", sortedJoin(es), err)
		dch := make(chan blob.Ref, 64)
		derr := ix.GetDirMembers(ctxbg, r, dch, 60)
		var ms []string
		for m := range dch {
			ms = append(ms, short(m))
		}
		add("Index.GetDirMembers "+l, "%s err=%v", sortedJoin(ms), derr)
		if c != nil {
			cbm, err := c.GetBlobMeta(ctxbg, r)
			add("Corpus.GetBlobMeta "+l, "%v %d %q err=%v", short(cbm.Ref), cbm.Size, cbm.CamliType, err)
			add("Corpus.IsDeleted "+l, "%v", c.IsDeleted(r))
			ch, err := c.GetDirChildren(ctxbg, r)
			add("Corpus.GetDirChildren "+l, "%s err=%v", refSet(ch), err)
			ps, err := c.GetParentDirs(ctxbg, r)
			add("Corpus.GetParentDirs "+l, "%s err=%v", refSet(ps), err)
			wr, ok := c.GetWholeRef(ctxbg, r)
			add("Corpus.GetWholeRef "+l, "%s %v", short(wr), ok)
			cfi, err := c.GetFileInfo(ctxbg, r)
			add("Corpus.GetFileInfo "+l, "%s err=%v", fileInfoStr(cfi), err)
			var back []string
			c.ForeachClaimBack(r, time.Time{}, func(cl *camtypes.Claim) bool { back = append(back, claimStr(cl)); return true })
			add("Corpus.ForeachClaimBack "+l, "%s", sortedJoin(back))
			ckid, err := c.KeyId(ctxbg, r)
			add("Corpus.KeyId "+l, "%q err=%v", ckid, err)
		}
	}
	for _, b := range w.Blobs {
		if b.Kind == KFile {
			m, err := ix.ExistingFileSchemas(b.WholeRef)
			var ss []string
			for k, v := range m {
				for _, r := range v {
					ss = append(ss, short(blob.MustParse(k))+">"+short(r))
				}
			}
			add(fmt.Sprintf("Index.ExistingFileSchemas #%d", b.I), "%s err=%v", sortedJoin(ss), err)
		}
	}

	pns := w.Permanodes()
	pnRefs := make([]blob.Ref, 0, len(pns)+1)
	for _, p := range pns {
		pnRefs = append(pnRefs, w.Blobs[p].Ref)
	}
	pnRefs = append(pnRefs, ghost)
	for _, pn := range pnRefs {
		l := label(pn)
		for _, sg := range signers {
			for _, af := range append([]string{""}, attrs...) {
				cls, err := ix.AppendClaims(ctxbg, nil, pn, sg, af)
				var ss []string
				for i := range cls {
					ss = append(ss, claimStr(&cls[i]))
				}
				add(fmt.Sprintf("Index.AppendClaims %s signer=%q attr=%q", l, sg, af), "[%s] err=%v", strings.Join(ss, " "), err)
			}
		}
		if c != nil {
			mt, ok := c.PermanodeModtime(pn)
			add("Corpus.PermanodeModtime "+l, "%s %v", tstr(mt), ok)
			at, ok := c.PermanodeAnyTime(pn)
			add("Corpus.PermanodeAnyTime "+l, "%s %v", tstr(at), ok)
			pt, ok := c.PermanodeTime(pn)
			add("Corpus.PermanodeTime "+l, "%s %v", tstr(pt), ok)
			var fc []string
			c.ForeachClaim(pn, time.Time{}, func(cl *camtypes.Claim) bool { fc = append(fc, claimStr(cl)); return true })
			add("Corpus.ForeachClaim "+l, "%s", sortedJoin(fc))
			pnAttrs, pnVals, pnTimes := attrs, vals, times
			if pi := w.IndexOf(pn); pi >= 0 && opts.Times == nil {
				pnAttrs, pnVals = w.AttrsOn(pi)
				pnTimes = append([]time.Time{{}}, w.QueryTimes(pi)...)
			}
			for _, at := range pnTimes {
				for _, a := range pnAttrs {
					for _, sg := range signers {
						add(fmt.Sprintf("Corpus.PermanodeAttrValue %s %q at=%s signer=%q", l, a, tstr(at), sg), "%q", c.PermanodeAttrValue(pn, a, at, sg))
						add(fmt.Sprintf("Corpus.AppendPermanodeAttrValues %s %q at=%s signer=%q", l, a, tstr(at), sg), "%q", c.AppendPermanodeAttrValues(nil, pn, a, at, sg))
					}
					for _, v := range pnVals {
						add(fmt.Sprintf("Corpus.PermanodeHasAttrValue %s %q=%q at=%s", l, a, v, tstr(at)), "%v", c.PermanodeHasAttrValue(pn, at, a, v))
					}
				}
			}
		}
		// paths
		for _, id := range w.Ids {
			for _, a := range attrs {
				if suffix, ok := strings.CutPrefix(a, "camliPath:"); ok {
					paths, err := ix.PathsLookup(ctxbg, id.Ref, pn, suffix)
					add(fmt.Sprintf("Index.PathsLookup %s signer=%s %q", l, id.Name, suffix), "%s err=%v", pathsStr(paths), err)
					ptimes := times
					if pi := w.IndexOf(pn); pi >= 0 && opts.Times == nil {
						ptimes = append([]time.Time{{}}, w.QueryTimes(pi)...)
					}
					for _, at := range ptimes {
						p, err := ix.PathLookup(ctxbg, id.Ref, pn, suffix, at)
						s := "nil"
						if p != nil {
							s = p.String()
						}
						add(fmt.Sprintf("Index.PathLookup %s signer=%s %q at=%s", l, id.Name, suffix, tstr(at)), "%s err=%v", s, err)
					}
				}
			}
		}
	}
	for _, id := range w.Ids {
		for _, r := range refs {
			paths, err := ix.PathsOfSignerTarget(ctxbg, id.Ref, r)
			add(fmt.Sprintf("Index.PathsOfSignerTarget signer=%s %s", id.Name, label(r)), "%s err=%v", pathsStr(paths), err)
		}
		rtimes := times
		if opts.Times == nil {
			rtimes = append([]time.Time{{}}, w.QueryTimes(-1)...)
		}
		for _, before := range rtimes {
			ch := make(chan camtypes.RecentPermanode, 100)
			err := ix.GetRecentPermanodes(ctxbg, ch, id.Ref, 50, before)
			var ss []string
			for rp := range ch {
				ss = append(ss, fmt.Sprintf("%s@%s", short(rp.Permanode), tstr(rp.LastModTime)))
			}
			add(fmt.Sprintf("Index.GetRecentPermanodes owner=%s before=%s", id.Name, tstr(before)), "[%s] err=%v", strings.Join(ss, " "), err)
		}
		for _, a := range attrs {
			if !index.IsIndexedAttribute(a) {
				continue
			}
			for _, v := range append([]string{""}, vals...) {
				if v != "" {
					pn, err := ix.PermanodeOfSignerAttrValue(ctxbg, id.Ref, a, v)
					add(fmt.Sprintf("Index.PermanodeOfSignerAttrValue signer=%s %q=%q", id.Name, a, v), "%s err=%v", short(pn), err)
				}
				ch := make(chan blob.Ref, 100)
				err := ix.SearchPermanodesWithAttr(ctxbg, ch, &camtypes.PermanodeByAttrRequest{Signer: id.Ref, Attribute: a, Query: v})
				var ss []string
				for r := range ch {
					ss = append(ss, short(r))
				}
				add(fmt.Sprintf("Index.SearchPermanodesWithAttr signer=%s %q=%q", id.Name, a, v), "%s err=%v", sortedJoin(ss), err)
			}
		}
	}
	if c != nil {
		var ss []string
		c.EnumeratePermanodesLastModified(func(bm camtypes.BlobMeta) bool { ss = append(ss, short(bm.Ref)); return true })
		add("Corpus.EnumeratePermanodesLastModified", "[%s]", strings.Join(ss, " "))
		for _, newest := range []bool{true, false} {
			ss = nil
			c.EnumeratePermanodesCreated(func(bm camtypes.BlobMeta) bool { ss = append(ss, short(bm.Ref)); return true }, newest)
			add(fmt.Sprintf("Corpus.EnumeratePermanodesCreated newestFirst=%v", newest), "[%s]", strings.Join(ss, " "))
		}
		ss = nil
		c.EnumerateBlobMeta(func(bm camtypes.BlobMeta) bool {
			ss = append(ss, fmt.Sprintf("%s:%d:%s", short(bm.Ref), bm.Size, bm.CamliType))
			return true
		})
		add("Corpus.EnumerateBlobMeta", "%s", sortedJoin(ss))
		ss = nil
		c.EnumerateCamliBlobs("", func(bm camtypes.BlobMeta) bool {
			ss = append(ss, fmt.Sprintf("%s:%d:%s", short(bm.Ref), bm.Size, bm.CamliType))
			return true
		})
		add("Corpus.EnumerateCamliBlobs", "%s", sortedJoin(ss))
		ss = nil
		c.EnumeratePermanodesByNodeTypes(func(bm camtypes.BlobMeta) bool { ss = append(ss, short(bm.Ref)); return true }, []string{"foursquare.com:checkin", "other"})
		add("Corpus.EnumeratePermanodesByNodeTypes", "%s", sortedJoin(uniqRefs(ss)))
	}
	var ss []string
	err := ix.EnumerateBlobMeta(ctxbg, func(bm camtypes.BlobMeta) bool {
		ss = append(ss, fmt.Sprintf("%s:%d:%s", short(bm.Ref), bm.Size, bm.CamliType))
		return true
	})
	add("Index.EnumerateBlobMeta", "%s err=%v", sortedJoin(ss), err)
	return out
}

func fileInfoStr(fi camtypes.FileInfo) string {
	t, mt := "nil", "nil"
	if fi.Time != nil {
		t = fi.Time.String()
	}
	if fi.ModTime != nil {
		mt = fi.ModTime.String()
	}
	return fmt.Sprintf("{%q %d %q time=%s mod=%s whole=%s}", fi.FileName, fi.Size, fi.MIMEType, t, mt, short(fi.WholeRef))
}

func pathsStr(ps []*camtypes.Path) string {
	var ss []string
	for _, p := range ps {
		ss = append(ss, fmt.Sprintf("{claim=%s base=%s target=%s @%s %q}", short(p.Claim), short(p.Base), short(p.Target), tstr(p.ClaimDate), p.Suffix))
	}
	return sortedJoin(ss)
}

// DiffBattery returns the first differing query ("" if none).
func DiffBattery(a, b []QA, na, nb string) string {
	if len(a) != len(b) {
		return fmt.Sprintf("battery length differs: %s=%d %s=%d", na, len(a), nb, len(b))
	}
	var sb strings.Builder
	n := 0
	for i := range a {
		if a[i].Q != b[i].Q {
			return fmt.Sprintf("battery query order differs at %d: %q vs %q", i, a[i].Q, b[i].Q)
		}
		if a[i].A != b[i].A {
			n++
			if n <= 6 {
				fmt.Fprintf(&sb, "%s\n    %s: %s\n    %s: %s\n", a[i].Q, na, a[i].A, nb, b[i].A)
			}
		}
	}
	if n > 6 {
		fmt.Fprintf(&sb, "... and %d more differing answers\n", n-6)
	}
	return sb.String()
}

// Mismatches returns the indices of the differing answers.
func Mismatches(a, b []QA) []int {
	var out []int
	for i := range a {
		if i < len(b) && a[i].A != b[i].A {
			out = append(out, i)
		}
	}
	return out
}
