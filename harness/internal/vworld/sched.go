package vworld

import (
	"fmt"
	"strings"

	"pgregory.net/rapid"
)

// Event is one step of a sequential arrival schedule.
type Event struct {
	Op byte // 'S' arrival at storage, 'X' delivery to Index.ReceiveBlob
	I  int
}

// SeqString renders a sequential schedule.
func SeqString(ev []Event) string {
	var sb strings.Builder
	for _, e := range ev {
		fmt.Fprintf(&sb, "%c%d ", e.Op, e.I)
	}
	return strings.TrimSpace(sb.String())
}

// DrawSequential draws a sequential schedule over the arriving blobs: order of
// deliveries (dependency / reverse / random), placement of storage arrivals
// (coupled / all first / mixed, always S(b) before X(b)) and optional duplicate
// deliveries. It returns the events and a class label.
func DrawSequential(t *rapid.T, w *World, arriving []int, allowDup bool) ([]Event, string) {
	orderClass := rapid.SampledFrom([]string{"dep", "reverse", "random", "random", "random"}).Draw(t, "orderClass")
	var order []int
	switch orderClass {
	case "dep":
		order = append(order, arriving...)
	case "reverse":
		for i := len(arriving) - 1; i >= 0; i-- {
			order = append(order, arriving[i])
		}
	default:
		order = rapid.Permutation(arriving).Draw(t, "perm")
	}
	storage := rapid.SampledFrom([]string{"coupled", "coupled", "first", "mixed"}).Draw(t, "storage")
	var ev []Event
	switch storage {
	case "coupled":
		for _, i := range order {
			ev = append(ev, Event{'S', i}, Event{'X', i})
		}
	case "first":
		for _, i := range rapid.Permutation(arriving).Draw(t, "storeOrder") {
			ev = append(ev, Event{'S', i})
		}
		for _, i := range order {
			ev = append(ev, Event{'X', i})
		}
	default:
		at := make([][]int, len(order))
		for pos, i := range order {
			p := rapid.IntRange(0, pos).Draw(t, "storeAt")
			at[p] = append(at[p], i)
		}
		for pos, i := range order {
			for _, j := range at[pos] {
				ev = append(ev, Event{'S', j})
			}
			ev = append(ev, Event{'X', i})
		}
	}
	class := orderClass + "/" + storage
	if allowDup && len(arriving) > 0 && rapid.IntRange(0, 3).Draw(t, "dups") == 0 {
		class += "/dup"
		nd := rapid.IntRange(1, 2).Draw(t, "ndup")
		for k := 0; k < nd; k++ {
			i := rapid.SampledFrom(arriving).Draw(t, "dupBlob")
			first := 0
			for p, e := range ev {
				if e.Op == 'S' && e.I == i {
					first = p
					break
				}
			}
			pos := rapid.IntRange(first+1, len(ev)).Draw(t, "dupPos")
			ev = append(ev[:pos:pos], append([]Event{{'X', i}}, ev[pos:]...)...)
		}
	}
	return ev, class
}
