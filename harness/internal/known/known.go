// Package known reads /verif/known_findings.json (never writes it) and decides
// whether a failing case matches a recorded open finding. The *predicate* that
// recognises a root cause lives in the check that owns it; this package only
// says whether that signature id is listed as open.
package known

import (
	"encoding/json"
	"fmt"
	"os"
	"path/filepath"
	"sync"

	"verifharness/internal/evid"
)

type Entry struct {
	ID       string `json:"id"`       // signature id, e.g. "C07-corpus-attr-ignores-deleted-claims"
	Property string `json:"property"` // Cxx
	Status   string `json:"status"`   // "open" | "fixed"
	Commit   string `json:"commit,omitempty"`
	What     string `json:"what"`
	Where    string `json:"where,omitempty"`
}

type fileT struct {
	Findings []Entry `json:"findings"`
}

var (
	once    sync.Once
	entries map[string]Entry
	mu      sync.Mutex
	printed = map[string]bool{}
)

func load() {
	entries = map[string]Entry{}
	path := os.Getenv("VERIF_KNOWN")
	if path == "" {
		// harness/checks/cNN -> ../../../known_findings.json
		for _, p := range []string{"/verif/known_findings.json"} {
			if _, err := os.Stat(p); err == nil {
				path = p
				break
			}
		}
		if path == "" {
			wd, _ := os.Getwd()
			path = filepath.Join(wd, "..", "..", "..", "known_findings.json")
		}
	}
	b, err := os.ReadFile(path)
	if err != nil {
		return
	}
	var f fileT
	if err := json.Unmarshal(b, &f); err != nil {
		fmt.Fprintf(os.Stderr, "known: cannot parse %s: %v\n", path, err)
		return
	}
	for _, e := range f.Findings {
		entries[e.ID] = e
	}
}

// Open reports whether signature id is listed as an open finding of property.
func Open(property, id string) bool {
	once.Do(load)
	e, ok := entries[id]
	return ok && e.Status == "open" && e.Property == property
}

// Hit is called by a check when a failing case matches the predicate of
// signature id. If the finding is listed open it prints the KNOWN-FINDING line
// (once per process), counts the exclusion and returns true: the caller ends
// the case successfully. Otherwise it returns false: the caller must fail.
func Hit(property, id, detail string) bool {
	if !Open(property, id) {
		return false
	}
	mu.Lock()
	defer mu.Unlock()
	evid.R.KnownExcluded(id)
	if !printed[id] {
		printed[id] = true
		e := entries[id]
		fmt.Printf("KNOWN-FINDING: property=%s id=%s %s [first case: %s]\n", property, id, e.What, detail)
	}
	return true
}
