package vstore

import (
	"os"
	"regexp"
	"strings"

	"perkeep.org/pkg/blobserver/files"
)

// FaultFS wraps a files.VFS so that every file-system call is a lower-layer
// call of the Env (logged, addressable, faultable, freezable).
type FaultFS struct {
	env   *Env
	name  string
	inner files.VFS
	root  string // trimmed from keys so that they do not depend on the temp dir name
}

var tmpSuffix = regexp.MustCompile(`\.tmp\d+$`)

// NewFaultFS returns inner wrapped for env under the layer name "fs:<name>".
func NewFaultFS(env *Env, name string, inner files.VFS, root string) *FaultFS {
	return &FaultFS{env: env, name: name, inner: inner, root: root}
}

func (f *FaultFS) key(p string) string {
	p = strings.TrimPrefix(p, f.root)
	return tmpSuffix.ReplaceAllString(p, ".tmp")
}

func (f *FaultFS) call(op, path string, mutating bool, do func() error) error {
	ev, b, err := f.env.begin("fs:"+f.name, op, f.key(path), 0, mutating)
	if err != nil {
		return err
	}
	if b == Fail {
		f.env.end(ev, "injected")
		return &os.PathError{Op: op, Path: path, Err: ErrInjected}
	}
	err = do()
	if b != OK { // FailAfter and friends: performed, but report failure
		f.env.end(ev, "injected-after")
		return &os.PathError{Op: op, Path: path, Err: ErrInjected}
	}
	f.env.end(ev, "ok")
	return err
}

func (f *FaultFS) Remove(p string) error {
	return f.call("remove", p, true, func() error { return f.inner.Remove(p) })
}
func (f *FaultFS) RemoveDir(p string) error {
	return f.call("rmdir", p, true, func() error { return f.inner.RemoveDir(p) })
}
func (f *FaultFS) Stat(p string) (fi os.FileInfo, err error) {
	err = f.call("stat", p, false, func() (e error) { fi, e = f.inner.Stat(p); return })
	if err != nil {
		fi = nil
	}
	return
}
func (f *FaultFS) Lstat(p string) (fi os.FileInfo, err error) {
	err = f.call("lstat", p, false, func() (e error) { fi, e = f.inner.Lstat(p); return })
	if err != nil {
		fi = nil
	}
	return
}
func (f *FaultFS) Open(p string) (rf files.ReadableFile, err error) {
	err = f.call("open", p, false, func() (e error) { rf, e = f.inner.Open(p); return })
	if err != nil && rf != nil {
		rf.Close()
		rf = nil
	}
	return
}
func (f *FaultFS) MkdirAll(p string, perm os.FileMode) error {
	return f.call("mkdirall", p, true, func() error { return f.inner.MkdirAll(p, perm) })
}
func (f *FaultFS) Rename(o, n string) error {
	return f.call("rename", n, true, func() error { return f.inner.Rename(o, n) })
}
func (f *FaultFS) ReadDirNames(d string) (names []string, err error) {
	err = f.call("readdir", d, false, func() (e error) { names, e = f.inner.ReadDirNames(d); return })
	if err != nil {
		names = nil
	}
	return
}

type faultWF struct {
	f  *FaultFS
	wf files.WritableFile
}

func (f *FaultFS) TempFile(dir, prefix string) (files.WritableFile, error) {
	var wf files.WritableFile
	created := false
	err := f.call("tempfile", dir+"/"+prefix, true, func() (e error) {
		wf, e = f.inner.TempFile(dir, prefix)
		created = e == nil // on failure wf may hold a typed nil (*os.File)(nil)
		return
	})
	if err != nil {
		if created {
			wf.Close()
			f.inner.Remove(wf.Name())
		}
		return nil, err
	}
	return &faultWF{f, wf}, nil
}

func (w *faultWF) Name() string { return w.wf.Name() }
func (w *faultWF) Write(p []byte) (n int, err error) {
	err = w.f.call("write", w.wf.Name(), true, func() (e error) { n, e = w.wf.Write(p); return })
	if err != nil && n == len(p) {
		n = 0
	}
	return
}
func (w *faultWF) Sync() error {
	return w.f.call("sync", w.wf.Name(), true, func() error { return w.wf.Sync() })
}
func (w *faultWF) Close() error {
	return w.f.call("close", w.wf.Name(), true, func() error { return w.wf.Close() })
}
