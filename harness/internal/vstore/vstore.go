// Package vstore is the harness-owned lower layer: a blobserver.Storage
// ("verif" storage type) and a sorted.KeyValue ("verifkv" type) that record
// every call in a shared Env, can fail or misbehave at the k-th call, can
// freeze (= the process died: nothing mutates any more) and survive "restarts"
// of the layers above them because instances are looked up by name.
package vstore

import (
	"bytes"
	"context"
	"errors"
	"fmt"
	"io"
	"os"
	"sort"
	"sync"
	"time"

	"go4.org/jsonconfig"
	"perkeep.org/pkg/blob"
	"perkeep.org/pkg/blobserver"
	"perkeep.org/pkg/sorted"
)

// ErrInjected is the transient lower-layer failure.
var ErrInjected = errors.New("vstore: injected transient I/O error")

// Shapes of the injected error (Env.ErrKind). Every shape satisfies
// errors.Is(err, ErrInjected); the others additionally look like the errors a
// real lower layer gives up with.
const (
	ErrPlain    = iota
	ErrDeadline // errors.Is(err, context.DeadlineExceeded), Timeout() == true
	ErrCanceled // errors.Is(err, context.Canceled)
	ErrTimeout  // a net.Error-like value: Timeout() and Temporary() are true
	NumErrKinds
)

type injErr struct{ kind int }

func (e injErr) Error() string {
	switch e.kind {
	case ErrDeadline:
		return ErrInjected.Error() + " (the lower layer's own request timed out: context deadline exceeded)"
	case ErrCanceled:
		return ErrInjected.Error() + " (the lower layer cancelled its own request: context canceled)"
	case ErrTimeout:
		return ErrInjected.Error() + " (i/o timeout)"
	}
	return ErrInjected.Error()
}

func (e injErr) Is(t error) bool {
	return t == ErrInjected || e.kind == ErrDeadline && t == context.DeadlineExceeded || e.kind == ErrCanceled && t == context.Canceled
}
func (e injErr) Timeout() bool   { return e.kind == ErrDeadline || e.kind == ErrTimeout }
func (e injErr) Temporary() bool { return e.kind == ErrTimeout }

func (e *Env) injected() error {
	if e.ErrKind == ErrPlain {
		return ErrInjected
	}
	return injErr{e.ErrKind}
}

// wrongSize is the size a WrongSize fault reports for a blob of n bytes.
func (e *Env) wrongSize(n uint32) uint32 {
	if e.WrongSizeZero && n != 0 {
		return 0
	}
	return n + 1
}

// ErrCrashed is returned by every call after the Env froze.
var ErrCrashed = errors.New("vstore: process crashed (frozen lower layer)")

// Behaviour of one faulted call.
type Behaviour int

const (
	OK        Behaviour = iota
	Fail                // return ErrInjected, mutate nothing
	FailAfter           // perform the mutation, then return ErrInjected (lost ack)
	WrongSize           // receive: store, but report size+1; fetch/stat: report size+1
	Corrupt             // fetch: return bytes with one bit flipped
	ZeroSize            // receive: consume the data, store nothing, report (ref, size 0) without error; otherwise as WrongSize
)

// Event is one lower-layer call.
type Event struct {
	Seq      int    `json:"seq"`
	MutSeq   int    `json:"mut_seq,omitempty"` // >0 for mutating calls
	Layer    string `json:"layer"`             // "store:<name>" / "kv:<name>"
	Op       string `json:"op"`
	Key      string `json:"key,omitempty"`
	N        int    `json:"n,omitempty"`
	Outcome  string `json:"outcome,omitempty"`
	Mutating bool   `json:"-"`
}

// Env is shared by all stores/KVs of one case.
type Env struct {
	mu sync.Mutex

	seq    int
	mutSeq int
	log    []Event
	keep   bool

	// fault plan
	ErrKind int // shape of the injected error (ErrPlain, ErrDeadline, ...)
	// SlowErrorReturn: a failing EnumerateBlobs closes its channel this long before it returns its error.
	SlowErrorReturn time.Duration
	WrongSizeZero   bool              // WrongSize faults report 0 for a non-empty blob instead of size+1
	FailSeq         map[int]Behaviour // by global call sequence number (1-based)
	Match           func(e *Event) Behaviour
	freezeMut       int // freeze when the mutating call with this number is ABOUT to run (0 = never)
	frozen          bool
	frozenAt        int
	faultsHit       int
	Stores          map[string]*Store
	KVs             map[string]*KV
	YieldHook       func(e *Event) // called outside the lock before each call (C14 schedule perturbation)
	AfterHook       func(e *Event) // called after each call completed
	BeforeMut       func(e *Event) // called (outside lock) right before a mutating call takes effect
}

func NewEnv() *Env {
	return &Env{FailSeq: map[int]Behaviour{}, Stores: map[string]*Store{}, KVs: map[string]*KV{}, keep: true}
}

// current is the Env new "verif"/"verifkv" instances attach to.
var (
	curMu   sync.Mutex
	current *Env
)

// SetCurrent makes e the Env that configuration-created instances attach to.
func SetCurrent(e *Env) {
	curMu.Lock()
	current = e
	curMu.Unlock()
}

func cur() *Env {
	curMu.Lock()
	defer curMu.Unlock()
	if current == nil {
		current = NewEnv()
	}
	return current
}

// Seq returns the number of lower-layer calls so far.
func (e *Env) Seq() int { e.mu.Lock(); defer e.mu.Unlock(); return e.seq }

// MutSeq returns the number of mutating lower-layer calls so far.
func (e *Env) MutSeq() int { e.mu.Lock(); defer e.mu.Unlock(); return e.mutSeq }

// Log returns a copy of the call log.
func (e *Env) Log() []Event {
	e.mu.Lock()
	defer e.mu.Unlock()
	return append([]Event(nil), e.log...)
}

// LogSince returns events with Seq > seq.
func (e *Env) LogSince(seq int) []Event {
	e.mu.Lock()
	defer e.mu.Unlock()
	var out []Event
	for _, ev := range e.log {
		if ev.Seq > seq {
			out = append(out, ev)
		}
	}
	return out
}

// ReleaseAll drops the contents of every store and KV of the Env and its call log. perkeep's
// process-global hub map (blobserver.GetHub) keeps every storage that was ever passed to
// blobserver.Receive reachable, so a long run must empty what it created, or memory grows by the
// contents of every case.
func (e *Env) ReleaseAll() {
	e.mu.Lock()
	defer e.mu.Unlock()
	for _, s := range e.Stores {
		s.mu.Lock()
		s.m = map[blob.Ref][]byte{}
		s.mu.Unlock()
	}
	for _, k := range e.KVs {
		k.inner = sorted.NewMemoryKeyValue()
	}
	e.log = nil
	e.YieldHook, e.AfterHook, e.BeforeMut, e.Match = nil, nil, nil, nil
}

// ClearFaults removes every planned fault (not the freeze).
func (e *Env) ClearFaults() {
	e.mu.Lock()
	e.FailSeq = map[int]Behaviour{}
	e.Match = nil
	e.mu.Unlock()
}

// FaultsHit is how many planned faults were actually delivered.
func (e *Env) FaultsHit() int { e.mu.Lock(); defer e.mu.Unlock(); return e.faultsHit }

// FreezeAtMut arms a crash: the k-th mutating call from now (1 = the next one)
// and everything after it fails with ErrCrashed without mutating.
func (e *Env) FreezeAtMut(k int) {
	e.mu.Lock()
	e.freezeMut = e.mutSeq + k
	e.mu.Unlock()
}

// FreezeNow freezes immediately.
func (e *Env) FreezeNow() {
	e.mu.Lock()
	e.frozen = true
	e.frozenAt = e.mutSeq
	e.mu.Unlock()
}

// Frozen reports whether the crash happened.
func (e *Env) Frozen() bool { e.mu.Lock(); defer e.mu.Unlock(); return e.frozen }

// Thaw = the machine rebooted: stores keep their contents, calls work again.
func (e *Env) Thaw() {
	e.mu.Lock()
	e.frozen = false
	e.freezeMut = 0
	e.mu.Unlock()
}

// begin registers a call; returns the event and the behaviour to apply.
func (e *Env) begin(layer, op, key string, n int, mutating bool) (*Event, Behaviour, error) {
	e.mu.Lock()
	e.seq++
	ev := &Event{Seq: e.seq, Layer: layer, Op: op, Key: key, N: n, Mutating: mutating}
	if mutating {
		e.mutSeq++
		ev.MutSeq = e.mutSeq
		if e.freezeMut != 0 && e.mutSeq >= e.freezeMut && !e.frozen {
			e.frozen = true
			e.frozenAt = e.mutSeq
		}
	}
	if e.frozen {
		ev.Outcome = "crashed"
		if e.keep {
			e.log = append(e.log, *ev)
		}
		e.mu.Unlock()
		return ev, Fail, ErrCrashed
	}
	b := OK
	if fb, ok := e.FailSeq[e.seq]; ok {
		b = fb
	} else if e.Match != nil {
		b = e.Match(ev)
	}
	if b != OK {
		e.faultsHit++
	}
	y := e.YieldHook
	bm := e.BeforeMut
	e.mu.Unlock()
	if y != nil {
		y(ev)
	}
	if mutating && bm != nil && b != Fail {
		bm(ev)
	}
	return ev, b, nil
}

func (e *Env) end(ev *Event, outcome string) {
	e.mu.Lock()
	ev.Outcome = outcome
	if e.keep {
		e.log = append(e.log, *ev)
	}
	ah := e.AfterHook
	e.mu.Unlock()
	if ah != nil {
		ah(ev)
	}
}

// ---------------------------------------------------------------------------
// Store

// Store is an in-memory blobserver.Storage with fault injection.
type Store struct {
	Name       string
	env        *Env
	mu         sync.RWMutex
	m          map[blob.Ref][]byte
	NoSubFetch bool // SubFetch returns blob.ErrUnimplemented
	ReadOnly   bool
}

var (
	_ blobserver.Storage = (*Store)(nil)
	_ blob.SubFetcher    = (*Store)(nil)
)

// NewStore creates (or returns the existing) store called name in env.
func (e *Env) NewStore(name string) *Store {
	e.mu.Lock()
	defer e.mu.Unlock()
	if s, ok := e.Stores[name]; ok {
		return s
	}
	s := &Store{Name: name, env: e, m: map[blob.Ref][]byte{}}
	e.Stores[name] = s
	return s
}

func (s *Store) layer() string { return "store:" + s.Name }

// --- raw access for the harness (not logged, not faulted) ---

func (s *Store) RawGet(br blob.Ref) ([]byte, bool) {
	s.mu.RLock()
	defer s.mu.RUnlock()
	b, ok := s.m[br]
	return b, ok
}

func (s *Store) RawPut(br blob.Ref, data []byte) {
	s.mu.Lock()
	s.m[br] = append([]byte(nil), data...)
	s.mu.Unlock()
}

func (s *Store) RawDelete(br blob.Ref) {
	s.mu.Lock()
	delete(s.m, br)
	s.mu.Unlock()
}

func (s *Store) RawRefs() []blob.Ref {
	s.mu.RLock()
	defer s.mu.RUnlock()
	out := make([]blob.Ref, 0, len(s.m))
	for br := range s.m {
		out = append(out, br)
	}
	sort.Slice(out, func(i, j int) bool { return out[i].String() < out[j].String() })
	return out
}

func (s *Store) RawLen() int { s.mu.RLock(); defer s.mu.RUnlock(); return len(s.m) }

// Snapshot copies the contents.
func (s *Store) Snapshot() map[blob.Ref][]byte {
	s.mu.RLock()
	defer s.mu.RUnlock()
	out := make(map[blob.Ref][]byte, len(s.m))
	for k, v := range s.m {
		out[k] = v
	}
	return out
}

// Restore replaces the contents.
func (s *Store) Restore(snap map[blob.Ref][]byte) {
	s.mu.Lock()
	s.m = make(map[blob.Ref][]byte, len(snap))
	for k, v := range snap {
		s.m[k] = v
	}
	s.mu.Unlock()
}

// --- blobserver.Storage ---

func (s *Store) Fetch(ctx context.Context, br blob.Ref) (io.ReadCloser, uint32, error) {
	ev, b, err := s.env.begin(s.layer(), "fetch", br.String(), 0, false)
	if err != nil {
		return nil, 0, err
	}
	if b == Fail || b == FailAfter {
		s.env.end(ev, "injected")
		return nil, 0, s.env.injected()
	}
	s.mu.RLock()
	data, ok := s.m[br]
	s.mu.RUnlock()
	if !ok {
		s.env.end(ev, "absent")
		return nil, 0, os.ErrNotExist
	}
	size := uint32(len(data))
	switch b {
	case WrongSize:
		size = s.env.wrongSize(size)
	case Corrupt:
		data = append([]byte(nil), data...)
		if len(data) > 0 {
			data[len(data)/2] ^= 0x20
		} else {
			data = []byte{0}
		}
	}
	s.env.end(ev, "ok")
	return io.NopCloser(bytes.NewReader(data)), size, nil
}

func (s *Store) SubFetch(ctx context.Context, br blob.Ref, offset, length int64) (io.ReadCloser, error) {
	if s.NoSubFetch {
		return nil, blob.ErrUnimplemented
	}
	if offset < 0 || length < 0 {
		return nil, blob.ErrNegativeSubFetch
	}
	ev, b, err := s.env.begin(s.layer(), "subfetch", br.String(), 0, false)
	if err != nil {
		return nil, err
	}
	if b == Fail || b == FailAfter {
		s.env.end(ev, "injected")
		return nil, s.env.injected()
	}
	s.mu.RLock()
	data, ok := s.m[br]
	s.mu.RUnlock()
	if !ok {
		s.env.end(ev, "absent")
		return nil, os.ErrNotExist
	}
	if offset > int64(len(data)) {
		s.env.end(ev, "range")
		return nil, blob.ErrOutOfRangeOffsetSubFetch
	}
	end := offset + length
	if end > int64(len(data)) {
		end = int64(len(data))
	}
	out := data[offset:end]
	if b == Corrupt && len(out) > 0 {
		out = append([]byte(nil), out...)
		out[len(out)/2] ^= 0x20
	}
	s.env.end(ev, "ok")
	return io.NopCloser(bytes.NewReader(out)), nil
}

func (s *Store) ReceiveBlob(ctx context.Context, br blob.Ref, src io.Reader) (blob.SizedRef, error) {
	data, rerr := io.ReadAll(src)
	if rerr != nil {
		return blob.SizedRef{}, rerr
	}
	if s.ReadOnly {
		return blob.SizedRef{}, blobserver.ErrReadonly
	}
	ev, b, err := s.env.begin(s.layer(), "receive", br.String(), len(data), true)
	if err != nil {
		return blob.SizedRef{}, err
	}
	if b == Fail {
		s.env.end(ev, "injected")
		return blob.SizedRef{}, s.env.injected()
	}
	if b == ZeroSize && len(data) > 0 {
		s.env.end(ev, "zero-size")
		return blob.SizedRef{Ref: br}, nil
	}
	s.mu.Lock()
	if _, had := s.m[br]; !had {
		s.m[br] = data
	}
	s.mu.Unlock()
	if b == FailAfter {
		s.env.end(ev, "injected-after")
		return blob.SizedRef{}, s.env.injected()
	}
	size := uint32(len(data))
	if b == WrongSize {
		size = s.env.wrongSize(size)
	}
	s.env.end(ev, "ok")
	return blob.SizedRef{Ref: br, Size: size}, nil
}

func (s *Store) StatBlobs(ctx context.Context, blobs []blob.Ref, fn func(blob.SizedRef) error) error {
	ev, b, err := s.env.begin(s.layer(), "stat", firstKey(blobs), len(blobs), false)
	if err != nil {
		return err
	}
	if b == Fail || b == FailAfter {
		s.env.end(ev, "injected")
		return s.env.injected()
	}
	for _, br := range blobs {
		s.mu.RLock()
		data, ok := s.m[br]
		s.mu.RUnlock()
		if !ok {
			continue
		}
		size := uint32(len(data))
		if b == WrongSize {
			size = s.env.wrongSize(size)
		}
		if err := fn(blob.SizedRef{Ref: br, Size: size}); err != nil {
			s.env.end(ev, "fn-error")
			return err
		}
	}
	s.env.end(ev, "ok")
	return nil
}

func firstKey(blobs []blob.Ref) string {
	if len(blobs) == 0 {
		return ""
	}
	return blobs[0].String()
}

func (s *Store) EnumerateBlobs(ctx context.Context, dest chan<- blob.SizedRef, after string, limit int) error {
	closed := false
	defer func() {
		if !closed {
			close(dest)
		}
	}()
	ev, b, err := s.env.begin(s.layer(), "enumerate", after, limit, false)
	if err != nil {
		return err
	}
	if b == Fail || b == FailAfter {
		s.env.end(ev, "injected")
		if d := s.env.SlowErrorReturn; d > 0 {
			// the channel is closed (as every store's deferred close does) a moment before the caller of
			// EnumerateBlobs gets to see the error: whoever watches the channel must not take the close for
			// the end of a successful enumeration
			closed = true
			close(dest)
			time.Sleep(d)
		}
		return s.env.injected()
	}
	s.mu.RLock()
	type kv struct {
		k string
		r blob.Ref
		n int
	}
	all := make([]kv, 0, len(s.m))
	for br, d := range s.m {
		k := br.String()
		if k > after {
			all = append(all, kv{k, br, len(d)})
		}
	}
	s.mu.RUnlock()
	sort.Slice(all, func(i, j int) bool { return all[i].k < all[j].k })
	n := 0
	for _, e := range all {
		if n >= limit {
			break
		}
		select {
		case dest <- blob.SizedRef{Ref: e.r, Size: uint32(e.n)}:
			n++
		case <-ctx.Done():
			s.env.end(ev, "ctx")
			return ctx.Err()
		}
	}
	s.env.end(ev, "ok")
	return nil
}

// RemoveBlobs counts one mutating call per blob, so that a crash can land
// between two removals of one batch.
func (s *Store) RemoveBlobs(ctx context.Context, blobs []blob.Ref) error {
	if s.ReadOnly {
		return blobserver.ErrReadonly
	}
	for _, br := range blobs {
		ev, b, err := s.env.begin(s.layer(), "remove", br.String(), 0, true)
		if err != nil {
			return err
		}
		if b == Fail {
			s.env.end(ev, "injected")
			return s.env.injected()
		}
		s.mu.Lock()
		delete(s.m, br)
		s.mu.Unlock()
		if b == FailAfter {
			s.env.end(ev, "injected-after")
			return s.env.injected()
		}
		s.env.end(ev, "ok")
	}
	return nil
}

// ---------------------------------------------------------------------------
// KV

// KV is a sorted.KeyValue over perkeep's memory KV with fault injection.
type KV struct {
	Name  string
	env   *Env
	inner sorted.KeyValue
}

var _ sorted.KeyValue = (*KV)(nil)
var _ sorted.Wiper = (*KV)(nil)

// NewKV creates (or returns the existing) KV called name.
func (e *Env) NewKV(name string) *KV {
	e.mu.Lock()
	defer e.mu.Unlock()
	if k, ok := e.KVs[name]; ok {
		return k
	}
	k := &KV{Name: name, env: e, inner: sorted.NewMemoryKeyValue()}
	e.KVs[name] = k
	return k
}

func (k *KV) layer() string { return "kv:" + k.Name }

// Inner gives unlogged, unfaulted access.
func (k *KV) Inner() sorted.KeyValue { return k.inner }

// Dump returns all rows (unlogged).
func (k *KV) Dump() map[string]string {
	out := map[string]string{}
	it := k.inner.Find("", "")
	for it.Next() {
		out[it.Key()] = it.Value()
	}
	it.Close()
	return out
}

// WipeRaw empties the KV without logging (index lost).
func (k *KV) WipeRaw() {
	k.env.mu.Lock()
	k.inner = sorted.NewMemoryKeyValue()
	k.env.mu.Unlock()
}

func (k *KV) Wipe() error {
	ev, b, err := k.env.begin(k.layer(), "wipe", "", 0, true)
	if err != nil {
		return err
	}
	if b == Fail {
		k.env.end(ev, "injected")
		return k.env.injected()
	}
	k.inner = sorted.NewMemoryKeyValue()
	k.env.end(ev, "ok")
	return nil
}

func (k *KV) Get(key string) (string, error) {
	ev, b, err := k.env.begin(k.layer(), "get", key, 0, false)
	if err != nil {
		return "", err
	}
	if b == Fail || b == FailAfter {
		k.env.end(ev, "injected")
		return "", k.env.injected()
	}
	v, err := k.inner.Get(key)
	k.env.end(ev, "ok")
	return v, err
}

func (k *KV) Set(key, value string) error {
	ev, b, err := k.env.begin(k.layer(), "set", key, 0, true)
	if err != nil {
		return err
	}
	if b == Fail {
		k.env.end(ev, "injected")
		return k.env.injected()
	}
	err = k.inner.Set(key, value)
	if b == FailAfter {
		k.env.end(ev, "injected-after")
		return k.env.injected()
	}
	k.env.end(ev, "ok")
	return err
}

func (k *KV) Delete(key string) error {
	ev, b, err := k.env.begin(k.layer(), "delete", key, 0, true)
	if err != nil {
		return err
	}
	if b == Fail {
		k.env.end(ev, "injected")
		return k.env.injected()
	}
	err = k.inner.Delete(key)
	if b == FailAfter {
		k.env.end(ev, "injected-after")
		return k.env.injected()
	}
	k.env.end(ev, "ok")
	return err
}

func (k *KV) BeginBatch() sorted.BatchMutation { return k.inner.BeginBatch() }

// CommitBatch is atomic: under a fault or crash nothing is applied.
func (k *KV) CommitBatch(bm sorted.BatchMutation) error {
	ev, b, err := k.env.begin(k.layer(), "commit", "", 0, true)
	if err != nil {
		return err
	}
	if b == Fail {
		k.env.end(ev, "injected")
		return k.env.injected()
	}
	err = k.inner.CommitBatch(bm)
	if b == FailAfter {
		k.env.end(ev, "injected-after")
		return k.env.injected()
	}
	k.env.end(ev, "ok")
	return err
}

type errIter struct{ err error }

func (errIter) Next() bool         { return false }
func (errIter) Key() string        { return "" }
func (errIter) KeyBytes() []byte   { return nil }
func (errIter) Value() string      { return "" }
func (errIter) ValueBytes() []byte { return nil }
func (e errIter) Close() error     { return e.err }

func (k *KV) Find(start, end string) sorted.Iterator {
	ev, b, err := k.env.begin(k.layer(), "find", start, 0, false)
	if err != nil {
		return errIter{err}
	}
	if b == Fail || b == FailAfter {
		k.env.end(ev, "injected")
		return errIter{k.env.injected()}
	}
	it := k.inner.Find(start, end)
	k.env.end(ev, "ok")
	return it
}

func (k *KV) Close() error { return nil }

// ---------------------------------------------------------------------------
// registration

func init() {
	blobserver.RegisterStorageConstructor("verif", func(_ blobserver.Loader, conf jsonconfig.Obj) (blobserver.Storage, error) {
		name := conf.RequiredString("name")
		noSub := conf.OptionalBool("noSubFetch", false)
		if err := conf.Validate(); err != nil {
			return nil, err
		}
		s := cur().NewStore(name)
		s.NoSubFetch = noSub
		return s, nil
	})
	sorted.RegisterKeyValue("verifkv", func(conf jsonconfig.Obj) (sorted.KeyValue, error) {
		name := conf.RequiredString("name")
		if err := conf.Validate(); err != nil {
			return nil, err
		}
		return cur().NewKV(name), nil
	})
}

// KVConf is the jsonconfig of a named harness KV.
func KVConf(name string) map[string]any {
	return map[string]any{"type": "verifkv", "name": name}
}

func (e *Event) String() string {
	return fmt.Sprintf("#%d %s %s %s n=%d -> %s", e.Seq, e.Layer, e.Op, e.Key, e.N, e.Outcome)
}
