package vcompose

import (
	"context"
	"io"
	"net/http"
	"net/http/httptest"
	"os"
	"strings"
	"sync"

	"perkeep.org/pkg/auth"
	"perkeep.org/pkg/blob"
	"perkeep.org/pkg/blobserver"
	"perkeep.org/pkg/blobserver/gethandler"
	"perkeep.org/pkg/blobserver/handlers"
	"perkeep.org/pkg/client"
)

// Node type "http": the blob protocol handlers (pkg/blobserver/handlers, gethandler) over the child,
// served by an httptest server, and a pkg/client Client talking to it - the composition a remote
// storage or any command-line tool is. Int&1: the client has a have-cache installed (as pk-put does);
// such a tree does not support removal (the cache assumes blobs stay).

type configuredStorage struct {
	blobserver.Storage
}

func (configuredStorage) Config() *blobserver.Config {
	return &blobserver.Config{Writable: true, Readable: true, Deletable: true, CanLongPoll: true}
}

type haveCache struct {
	mu sync.Mutex
	m  map[blob.Ref]uint32
}

func (c *haveCache) StatBlobCache(br blob.Ref) (uint32, bool) {
	c.mu.Lock()
	defer c.mu.Unlock()
	n, ok := c.m[br]
	return n, ok
}

func (c *haveCache) NoteBlobExists(br blob.Ref, size uint32) {
	c.mu.Lock()
	defer c.mu.Unlock()
	if c.m == nil {
		c.m = map[blob.Ref]uint32{}
	}
	c.m[br] = size
}

// httpStore is the client end; it is the blobserver.Storage of the node.
type httpStore struct {
	cl *client.Client
	ts *httptest.Server
}

func (h *httpStore) Fetch(ctx context.Context, br blob.Ref) (io.ReadCloser, uint32, error) {
	return h.cl.Fetch(ctx, br)
}
func (h *httpStore) ReceiveBlob(ctx context.Context, br blob.Ref, src io.Reader) (blob.SizedRef, error) {
	return h.cl.ReceiveBlob(ctx, br, src)
}
func (h *httpStore) StatBlobs(ctx context.Context, blobs []blob.Ref, fn func(blob.SizedRef) error) error {
	return h.cl.StatBlobs(ctx, blobs, fn)
}
func (h *httpStore) EnumerateBlobs(ctx context.Context, dest chan<- blob.SizedRef, after string, limit int) error {
	return h.cl.EnumerateBlobs(ctx, dest, after, limit)
}
func (h *httpStore) RemoveBlobs(ctx context.Context, blobs []blob.Ref) error {
	return h.cl.RemoveBlobs(ctx, blobs)
}
func (h *httpStore) Close() error {
	h.cl.Close()
	if h.ts != nil {
		h.ts.CloseClientConnections()
		h.ts.Close()
	}
	return nil
}

// memTransport serves a client's requests by calling the handler directly.
type memTransport struct{ h http.Handler }

func (t memTransport) RoundTrip(req *http.Request) (*http.Response, error) {
	sreq := req.Clone(req.Context())
	if sreq.Body == nil {
		sreq.Body = http.NoBody
	}
	sreq.RequestURI = req.URL.RequestURI()
	sreq.RemoteAddr = "192.0.2.1:1234"
	rec := httptest.NewRecorder()
	t.h.ServeHTTP(rec, sreq)
	// what net/http's server and transport do between them: the rest of a request body the handler did
	// not read is consumed (pkg/client feeds the body through a pipe and waits for its writer to finish)
	io.Copy(io.Discard, sreq.Body)
	sreq.Body.Close()
	res := rec.Result()
	res.Request = req
	return res, nil
}

// NewHTTPStore is the "http" node outside a tree: the protocol handlers over kid, a pkg/client in front.
// tamper, if non-nil, may rewrite the body of every upload response (a peer that misreports).
func NewHTTPStore(kid blobserver.Storage, withHaveCache bool, tamper func(body []byte) []byte) (blobserver.Storage, error) {
	return newHTTPStoreT(kid, withHaveCache, tamper)
}

func newHTTPStore(kid blobserver.Storage, withHaveCache bool) (blobserver.Storage, error) {
	return newHTTPStoreT(kid, withHaveCache, nil)
}

func newHTTPStoreT(kid blobserver.Storage, withHaveCache bool, tamper func(body []byte) []byte) (blobserver.Storage, error) {
	sc := configuredStorage{kid}
	const pfx = "/bs"
	mux := http.NewServeMux()
	upload := handlers.CreateBatchUploadHandler(sc)
	if tamper != nil {
		real := upload
		upload = http.HandlerFunc(func(w http.ResponseWriter, r *http.Request) {
			rec := httptest.NewRecorder()
			real.ServeHTTP(rec, r)
			for k, v := range rec.Header() {
				if k != "Content-Length" {
					w.Header()[k] = v
				}
			}
			w.WriteHeader(rec.Code)
			w.Write(tamper(rec.Body.Bytes()))
		})
	}
	mux.Handle(pfx+"/camli/upload", upload)
	mux.Handle(pfx+"/camli/stat", handlers.CreateStatHandler(sc))
	mux.Handle(pfx+"/camli/enumerate-blobs", handlers.CreateEnumerateHandler(sc))
	mux.Handle(pfx+"/camli/remove", handlers.CreateRemoveHandler(sc))
	get, put := gethandler.CreateGetHandler(sc), handlers.CreatePutUploadHandler(sc)
	mux.HandleFunc(pfx+"/camli/", func(w http.ResponseWriter, r *http.Request) {
		switch {
		case r.Method == "PUT":
			put.ServeHTTP(w, r)
		case r.Method == "GET" || r.Method == "HEAD":
			get.ServeHTTP(w, r)
		default:
			http.Error(w, "unsupported", http.StatusBadRequest)
		}
	})
	// Quick tier: a real loopback server (net/http's transport and server are part of what is exercised).
	// Thorough tier: hundreds of thousands of these per run would exhaust the ephemeral ports (closed client
	// connections linger in TIME_WAIT), so the client's transport hands the request to the mux in memory.
	var ts *httptest.Server
	base := "http://verif.invalid"
	if os.Getenv("VERIF_TIER") != "thorough" || os.Getenv("VERIF_HTTP_TCP") != "" {
		ts = httptest.NewServer(mux)
		base = ts.URL
	}
	cl, err := client.New(client.OptionNoExternalConfig(), client.OptionServer(base+pfx), client.OptionAuthMode(auth.None{}))
	if err != nil {
		if ts != nil {
			ts.Close()
		}
		return nil, err
	}
	if ts == nil {
		cl.SetHTTPClient(&http.Client{Transport: memTransport{mux}})
	}
	cl.Logger.SetOutput(io.Discard)
	if withHaveCache {
		cl.SetHaveCache(&haveCache{})
	}
	_ = strings.TrimSpace
	return &httpStore{cl: cl, ts: ts}, nil
}
