// Package vcompose builds trees of perkeep storage backends through
// blobserver.CreateStorage with a harness Loader.
package vcompose

import (
	"fmt"
	"io"
	"log"
	"os"
	"path/filepath"
	"strings"
	"sync"

	"go4.org/jsonconfig"
	"perkeep.org/pkg/blob"
	"perkeep.org/pkg/blobserver"
	"perkeep.org/pkg/blobserver/files"
	"perkeep.org/pkg/blobserver/memory"
	"pgregory.net/rapid"

	_ "perkeep.org/pkg/blobserver/blobpacked"
	_ "perkeep.org/pkg/blobserver/cond"
	_ "perkeep.org/pkg/blobserver/diskpacked"
	_ "perkeep.org/pkg/blobserver/encrypt"
	_ "perkeep.org/pkg/blobserver/localdisk"
	_ "perkeep.org/pkg/blobserver/namespace"
	_ "perkeep.org/pkg/blobserver/overlay"
	_ "perkeep.org/pkg/blobserver/proxycache"
	_ "perkeep.org/pkg/blobserver/replica"
	_ "perkeep.org/pkg/blobserver/shard"
	_ "perkeep.org/pkg/blobserver/union"
	_ "perkeep.org/pkg/sorted/kvfile"
	_ "perkeep.org/pkg/sorted/leveldb"

	"verifharness/internal/vstore"
)

func init() {
	// perkeep logs a lot (overlay logs every enumerated blob); keep test output readable.
	if os.Getenv("VERIF_LOG") == "" {
		log.SetOutput(io.Discard)
	}
}

// AgeKey is a fixed X25519 identity for encrypt nodes (ciphertexts are randomised anyway).
const AgeKey = "AGE-SECRET-KEY-16JPH376MLUEW3TNYA6PCATPZZF2PMJUF9VRFDYJJFDACPUZVC6ZSRPRC99"

const encryptAgreement = "that encryption support hasn't been peer-reviewed, isn't finished, and its format might change."

// Node is one backend in a configuration tree.
type Node struct {
	Type string  // memory verif localdisk diskpacked memcache | blobpacked encrypt replica shard cond overlay namespace proxycache union
	Kids []*Node // children in type-specific order
	Int  int64   // diskpacked maxFileSize / memcache size / proxycache maxCacheBytes / replica minWrites
	id   int
}

func (n *Node) prefix() string { return fmt.Sprintf("/n%d/", n.id) }

// ID is the node's number in its tree (root = 1), assigned by Build.
func (n *Node) ID() int { return n.id }

// KVName is the name of the harness KV the node uses for the given purpose
// ("dpindex", "bpmeta", "encmeta", "deleted", "inventory").
func (n *Node) KVName(what string) string { return fmt.Sprintf("n%d-%s", n.id, what) }

// DiskDir is the directory of a localdisk/diskpacked node under the case dir.
func (b *Built) DiskDir(n *Node) string {
	return filepath.Join(b.Dir, fmt.Sprintf("n%d-%s", n.id, n.Type))
}

// String is the configuration descriptor used in evidence and case dumps.
func (n *Node) String() string {
	var kids []string
	for _, k := range n.Kids {
		kids = append(kids, k.String())
	}
	s := n.Type
	switch n.Type {
	case "http":
		if n.Int&1 != 0 {
			return fmt.Sprintf("http[client with have-cache](%s)", n.Kids[0])
		}
		return fmt.Sprintf("http(%s)", n.Kids[0])
	case "diskpacked", "memcache", "proxycache":
		s += fmt.Sprintf("[%d]", n.Int)
	}
	if len(kids) > 0 {
		s += "(" + strings.Join(kids, ",") + ")"
	}
	return s
}

// Depth of the tree (leaf = 1).
func (n *Node) Depth() int {
	d := 0
	for _, k := range n.Kids {
		if kd := k.Depth(); kd > d {
			d = kd
		}
	}
	return d + 1
}

// Types lists every node type in the tree.
func (n *Node) Types() []string {
	out := []string{n.Type}
	for _, k := range n.Kids {
		out = append(out, k.Types()...)
	}
	return out
}

func (n *Node) has(pred func(*Node) bool) bool {
	if pred(n) {
		return true
	}
	for _, k := range n.Kids {
		if k.has(pred) {
			return true
		}
	}
	return false
}

// Caps are the capabilities of a tree.
type Caps struct {
	Receive    bool // false for union (read-only)
	Remove     bool // RemoveBlobs supported with map semantics
	Persistent bool // contents survive Reopen
	Preloaded  bool // model starts non-empty (overlay lower / union subsets)
}

func (n *Node) caps() Caps {
	c := Caps{Receive: true, Remove: true, Persistent: true}
	switch n.Type {
	case "memory":
		c.Persistent = false
	case "memcache":
		c.Persistent = false
	case "verif", "localdisk", "diskpacked", "filesvfs":
	case "http":
		c = n.Kids[0].caps()
		if n.Int&1 != 0 {
			c.Remove = false // the client's have-cache assumes blobs are never removed
		}
	case "encrypt":
		kc0, kc1 := n.Kids[0].caps(), n.Kids[1].caps()
		c.Remove = false
		c.Persistent = kc0.Persistent && kc1.Persistent
	case "union":
		c.Receive, c.Remove, c.Preloaded = false, false, true
		for _, k := range n.Kids {
			c.Persistent = c.Persistent && k.caps().Persistent
		}
	case "overlay":
		// Kids: lower (preloaded, never written), upper
		u := n.Kids[1].caps()
		c.Remove = u.Remove
		c.Persistent = u.Persistent && n.Kids[0].caps().Persistent
		c.Preloaded = true
	case "proxycache":
		// Kids: cache, origin. The cache may legitimately lose blobs.
		o := n.Kids[1].caps()
		c.Remove = o.Remove && n.Kids[0].caps().Remove
		c.Persistent = o.Persistent
		c.Preloaded = o.Preloaded
	default: // blobpacked replica shard cond namespace
		for _, k := range n.Kids {
			kc := k.caps()
			c.Remove = c.Remove && kc.Remove
			c.Persistent = c.Persistent && kc.Persistent
			c.Receive = c.Receive && kc.Receive
			c.Preloaded = c.Preloaded || kc.Preloaded
		}
	}
	return c
}

// ---------------------------------------------------------------------------
// generation

var allLeafTypes = []string{"memory", "verif", "localdisk", "diskpacked", "filesvfs"}

// LeafTypes is the set of leaf backends GenTree draws from (a check may narrow
// it, e.g. to the fault-injectable ones, before generating).
var LeafTypes = allLeafTypes[:4]

func genLeaf(t *rapid.T, persistentOnly bool) *Node {
	types := LeafTypes
	typ := rapid.SampledFrom(types).Draw(t, "leaf")
	n := &Node{Type: typ}
	if typ == "diskpacked" {
		n.Int = rapid.SampledFrom([]int64{1, 200, 4096, 1 << 20}).Draw(t, "maxFileSize")
	}
	return n
}

// subFetchLeaf: blobpacked's large store must support SubFetch.
func genSubFetchLeaf(t *rapid.T) *Node { return genLeaf(t, false) }

var compositeTypes = []string{"blobpacked", "encrypt", "replica", "shard", "cond", "overlay", "namespace", "proxycache", "union"}

// GenTree draws a configuration tree of at most the given depth. root, if not
// empty, forces the root type.
func GenTree(t *rapid.T, depth int, root string) *Node {
	return genNode(t, depth, root, false)
}

// readOnlyLeaf is a preloaded leaf (overlay lower, union subset).
func genPreloadLeaf(t *rapid.T) *Node {
	return &Node{Type: rapid.SampledFrom([]string{"verif", "memory"}).Draw(t, "preloadLeaf")}
}

func genNode(t *rapid.T, depth int, force string, noPreload bool) *Node {
	typ := force
	if typ == "" {
		if depth <= 1 || rapid.IntRange(0, 3).Draw(t, "leaf?") == 0 {
			return genLeaf(t, false)
		}
		types := compositeTypes
		if noPreload {
			types = []string{"blobpacked", "encrypt", "replica", "shard", "cond", "namespace", "proxycache"}
		}
		typ = rapid.SampledFrom(types).Draw(t, "composite")
	}
	for _, l := range allLeafTypes {
		if typ == l {
			n := &Node{Type: typ}
			if typ == "diskpacked" {
				n.Int = rapid.SampledFrom([]int64{1, 200, 4096, 1 << 20}).Draw(t, "maxFileSize")
			}
			return n
		}
	}
	kid := func() *Node { return genNode(t, depth-1, "", true) }
	n := &Node{Type: typ}
	switch typ {
	case "blobpacked":
		n.Kids = []*Node{kid(), genSubFetchLeaf(t)}
	case "encrypt":
		n.Kids = []*Node{kid(), kid()}
	case "replica":
		k := rapid.IntRange(2, 3).Draw(t, "nReplicas")
		for i := 0; i < k; i++ {
			n.Kids = append(n.Kids, kid())
		}
	case "shard":
		k := rapid.IntRange(2, 3).Draw(t, "nShards")
		for i := 0; i < k; i++ {
			n.Kids = append(n.Kids, kid())
		}
	case "cond":
		n.Kids = []*Node{kid(), kid()}
	case "overlay":
		n.Kids = []*Node{genPreloadLeaf(t), kid()}
	case "namespace":
		n.Kids = []*Node{kid()}
	case "http":
		n.Kids = []*Node{kid()}
		n.Int = int64(rapid.IntRange(0, 1).Draw(t, "clientHaveCache"))
	case "proxycache":
		n.Kids = []*Node{{Type: "memcache", Int: rapid.SampledFrom([]int64{64, 4096, 1 << 30}).Draw(t, "cacheSize")}, kid()}
		n.Int = rapid.SampledFrom([]int64{0, 64, 4096, 512 << 20}).Draw(t, "maxCacheBytes")
	case "union":
		k := rapid.IntRange(1, 3).Draw(t, "nSubsets")
		for i := 0; i < k; i++ {
			n.Kids = append(n.Kids, genPreloadLeaf(t))
		}
	default:
		panic("vcompose: unknown type " + typ)
	}
	return n
}

// ---------------------------------------------------------------------------
// building

type loader struct {
	mu  sync.Mutex
	sto map[string]blobserver.Storage
}

func (ld *loader) FindHandlerByType(string) (string, any, error) {
	return "", nil, blobserver.ErrHandlerTypeNotFound
}
func (ld *loader) AllHandlers() (map[string]string, map[string]any) { return nil, nil }
func (ld *loader) MyPrefix() string                                   { return "/verif/" }
func (ld *loader) BaseURL() string                                    { return "http://localhost:1" }
func (ld *loader) GetHandlerType(string) string                       { return "" }
func (ld *loader) GetHandler(p string) (any, error)                   { return ld.GetStorage(p) }
func (ld *loader) GetStorage(p string) (blobserver.Storage, error) {
	ld.mu.Lock()
	defer ld.mu.Unlock()
	s, ok := ld.sto[p]
	if !ok {
		return nil, fmt.Errorf("vcompose: no storage at %q", p)
	}
	return s, nil
}

// Built is an instantiated tree.
type Built struct {
	Tree    *Node
	Root    blobserver.Storage
	Caps    Caps
	Env     *vstore.Env
	Dir     string
	nodes   map[*Node]blobserver.Storage
	order   []*Node // creation order (children first)
	Preload []*Node // leaves the harness may fill before use
}

// Storage returns the instance of a node.
func (b *Built) Storage(n *Node) blobserver.Storage { return b.nodes[n] }

func number(n *Node, next *int) {
	n.id = *next
	*next++
	for _, k := range n.Kids {
		number(k, next)
	}
}

// Build instantiates tree under dir (a per-case temp dir) and env.
func Build(env *vstore.Env, dir string, tree *Node) (*Built, error) {
	next := 1
	number(tree, &next)
	b := &Built{Tree: tree, Env: env, Dir: dir, Caps: tree.caps()}
	if err := b.instantiate(); err != nil {
		b.Close()
		return nil, err
	}
	return b, nil
}

func (b *Built) instantiate() error {
	vstore.SetCurrent(b.Env)
	ld := &loader{sto: map[string]blobserver.Storage{}}
	b.nodes = map[*Node]blobserver.Storage{}
	b.order = nil
	b.Preload = nil
	var mk func(n *Node, preload bool) error
	mk = func(n *Node, preload bool) error {
		for i, k := range n.Kids {
			kp := preload
			if n.Type == "union" || (n.Type == "overlay" && i == 0) {
				kp = true
			}
			if err := mk(k, kp); err != nil {
				return err
			}
		}
		s, err := b.create(ld, n)
		if err != nil {
			return fmt.Errorf("creating %s at %s: %w", n.Type, n.prefix(), err)
		}
		ld.mu.Lock()
		ld.sto[n.prefix()] = s
		ld.mu.Unlock()
		b.nodes[n] = s
		b.order = append(b.order, n)
		if preload && len(n.Kids) == 0 {
			b.Preload = append(b.Preload, n)
		}
		return nil
	}
	if err := mk(b.Tree, false); err != nil {
		return err
	}
	b.Root = b.nodes[b.Tree]
	return nil
}

func kvName(n *Node, what string) map[string]any {
	return vstore.KVConf(fmt.Sprintf("n%d-%s", n.id, what))
}

func (b *Built) create(ld *loader, n *Node) (blobserver.Storage, error) {
	if n.Type == "http" {
		return newHTTPStore(b.nodes[n.Kids[0]], n.Int&1 != 0)
	}
	p := func(i int) string { return n.Kids[i].prefix() }
	var conf jsonconfig.Obj
	switch n.Type {
	case "memory":
		conf = jsonconfig.Obj{}
	case "memcache":
		return memory.NewCache(n.Int), nil
	case "verif":
		conf = jsonconfig.Obj{"name": fmt.Sprintf("n%d", n.id)}
	case "localdisk":
		d := filepath.Join(b.Dir, fmt.Sprintf("n%d-localdisk", n.id))
		if err := os.MkdirAll(d, 0o755); err != nil {
			return nil, err
		}
		conf = jsonconfig.Obj{"path": d}
	case "filesvfs":
		// the file-per-blob store over a fault-injectable view of the host file system
		d := filepath.Join(b.Dir, fmt.Sprintf("n%d-filesvfs", n.id))
		if err := os.MkdirAll(d, 0o755); err != nil {
			return nil, err
		}
		return files.NewStorage(vstore.NewFaultFS(b.Env, fmt.Sprintf("n%d", n.id), files.OSFS(), d), d), nil
	case "diskpacked":
		d := filepath.Join(b.Dir, fmt.Sprintf("n%d-diskpacked", n.id))
		if err := os.MkdirAll(d, 0o755); err != nil {
			return nil, err
		}
		conf = jsonconfig.Obj{"path": d, "maxFileSize": float64(n.Int), "metaIndex": kvName(n, "dpindex")}
	case "blobpacked":
		conf = jsonconfig.Obj{"smallBlobs": p(0), "largeBlobs": p(1), "metaIndex": kvName(n, "bpmeta"), "keepGoing": true}
	case "encrypt":
		kf := filepath.Join(b.Dir, fmt.Sprintf("n%d-age.key", n.id))
		if err := os.WriteFile(kf, []byte(AgeKey+"\n"), 0o600); err != nil {
			return nil, err
		}
		conf = jsonconfig.Obj{"I_AGREE": encryptAgreement, "keyFile": kf, "blobs": p(0), "meta": p(1), "metaIndex": kvName(n, "encmeta")}
	case "replica":
		var bs []any
		for i := range n.Kids {
			bs = append(bs, p(i))
		}
		conf = jsonconfig.Obj{"backends": bs}
		if n.Int > 0 {
			conf["minWritesForSuccess"] = float64(n.Int)
		}
	case "shard":
		var bs []any
		for i := range n.Kids {
			bs = append(bs, p(i))
		}
		conf = jsonconfig.Obj{"backends": bs}
	case "cond":
		// reads and removes go through a replica over both branches, which is never written through
		rd, err := blobserver.CreateStorage("replica", ld, jsonconfig.Obj{"backends": []any{p(0), p(1)}})
		if err != nil {
			return nil, err
		}
		rp := fmt.Sprintf("/n%d-read/", n.id)
		ld.mu.Lock()
		ld.sto[rp] = rd
		ld.mu.Unlock()
		conf = jsonconfig.Obj{
			"write":  map[string]any{"if": "isSchema", "then": p(0), "else": p(1)},
			"read":   rp,
			"remove": rp,
		}
	case "overlay":
		conf = jsonconfig.Obj{"lower": p(0), "upper": p(1), "deleted": kvName(n, "deleted")}
	case "namespace":
		conf = jsonconfig.Obj{"inventory": kvName(n, "inventory"), "storage": p(0)}
	case "proxycache":
		conf = jsonconfig.Obj{"cache": p(0), "origin": p(1), "maxCacheBytes": float64(n.Int)}
	case "union":
		var bs []any
		for i := range n.Kids {
			bs = append(bs, p(i))
		}
		conf = jsonconfig.Obj{"subsets": bs}
	default:
		return nil, fmt.Errorf("unknown node type %q", n.Type)
	}
	typ := n.Type
	if typ == "localdisk" {
		typ = "filesystem"
	}
	return blobserver.CreateStorage(typ, ld, conf)
}

// Close shuts down every node that can be shut down (parents first).
func (b *Built) Close() error {
	var first error
	for i := len(b.order) - 1; i >= 0; i-- {
		if c, ok := b.nodes[b.order[i]].(io.Closer); ok {
			if err := c.Close(); err != nil && first == nil {
				first = err
			}
		}
	}
	return first
}

// Release closes the tree and empties everything the case created in memory (harness stores and
// KVs, in-memory leaves): the instances stay reachable from perkeep's process-global hub map, their
// contents need not.
func (b *Built) Release() {
	b.Close()
	for _, n := range b.order {
		if ms, ok := b.nodes[n].(*memory.Storage); ok {
			var refs []blob.Ref
			for _, s := range ms.BlobrefStrings() {
				refs = append(refs, blob.MustParse(s))
			}
			ms.RemoveBlobs(ctxBG, refs)
		}
	}
	b.Env.ReleaseAll()
	b.nodes = nil
}

// Reopen closes the tree and instantiates it again over the same directories
// and named harness stores/KVs (= a clean restart).
func (b *Built) Reopen() error {
	b.Close()
	return b.instantiate()
}

// Restart instantiates the tree again WITHOUT closing the old instances first
// (= the process died); the old instances must not be used any more. File locks
// held by the dead instances are released by closing their files only.
func (b *Built) Restart() error {
	b.Close() // releases file locks; with a frozen Env nothing is written any more
	return b.instantiate()
}

// PreloadBlob puts data directly into a preload leaf.
func (b *Built) PreloadBlob(n *Node, ref blob.Ref, data []byte) error {
	switch s := b.nodes[n].(type) {
	case *vstore.Store:
		s.RawPut(ref, data)
		return nil
	default:
		_, err := blobserver.ReceiveNoHash(ctxBG, s, ref, strings.NewReader(string(data)))
		return err
	}
}

var ctxBG = contextBackground()
