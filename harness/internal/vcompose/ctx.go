package vcompose

import "context"

func contextBackground() context.Context { return context.Background() }
