// Package vhttp builds in-process perkeep servers for the HTTP-family checks
// (C17, C18): a HIGH-LEVEL configuration (pkg/types/serverconfig.Config, the
// format users write) is marshalled to JSON, expanded by serverinit.Load into
// the low-level handler configuration exactly as perkeepd does, and installed
// on a fresh http.ServeMux with (*serverinit.Config).InstallHandlers.
package vhttp

import (
	"encoding/json"
	"fmt"
	"io"
	"log"
	"net/http"
	"net/http/httptest"
	"os"
	"path/filepath"
	"sort"
	"sync"
	"sync/atomic"
	"time"

	"perkeep.org/pkg/auth"
	"perkeep.org/pkg/serverinit"
	"perkeep.org/pkg/types/serverconfig"

	// what perkeepd links in and the generated low-level configurations use
	_ "perkeep.org/pkg/blobserver/blobpacked"
	_ "perkeep.org/pkg/blobserver/cond"
	_ "perkeep.org/pkg/blobserver/diskpacked"
	_ "perkeep.org/pkg/blobserver/localdisk"
	_ "perkeep.org/pkg/blobserver/memory"
	_ "perkeep.org/pkg/blobserver/replica"
	_ "perkeep.org/pkg/importer/allimporters"
	_ "perkeep.org/pkg/search"
	_ "perkeep.org/pkg/server"
	_ "perkeep.org/pkg/sorted/kvfile"
	_ "perkeep.org/pkg/sorted/leveldb"
	_ "perkeep.org/pkg/sorted/sqlite"
)

// TestSecring is perkeep's test key ring (identity 26F5ABDA).
const TestSecring = "/repo/pkg/jsonsign/testdata/test-secring.gpg"

var (
	Storages = []string{"memory", "localdisk", "diskpacked", "blobpacked"}
	Indexes  = []string{"memory", "leveldb", "kv", "sqlite"}
)

// Spec selects one high-level configuration.
type Spec struct {
	Storage string // memory | localdisk | diskpacked | blobpacked
	Index   string // memory | leveldb | kv | sqlite | none (runIndex:false)
	Auth    string // e.g. "userpass:alice:secret"
	Share   bool   // shareHandler: true
}

func (s Spec) String() string {
	return fmt.Sprintf("%s+%s+share=%v+auth=%s", s.Storage, s.Index, s.Share, s.Auth)
}

// Valid reports whether genconfig accepts the combination (memoryStorage does
// not support packRelated, so "memory" storage has no blobpacked variant; that
// is the only storage x index restriction of the high-level format).
func (s Spec) Valid() bool { return true }

// Server is one loaded configuration.
type Server struct {
	Spec Spec
	Mux  *http.ServeMux
	TS   *httptest.Server // nil unless started with listen=true
	URL  string           // base URL given to InstallHandlers
	Dir  string           // temp dir holding blobs and index files ("" for none)
	High map[string]any   // the high-level JSON object that was loaded
	Low  map[string]any   // the low-level configuration Load produced
	shut io.Closer
}

var (
	envOnce sync.Once
	quiet   sync.Once
)

// Quiet discards the standard logger's output (perkeep logs every received
// blob and every refused share request).
func Quiet() { quiet.Do(func() { log.SetOutput(io.Discard) }) }

// HighLevel returns the high-level configuration for spec rooted at dir.
func HighLevel(spec Spec, dir string) (*serverconfig.Config, error) {
	c := &serverconfig.Config{
		Listen:             "localhost:3179",
		Auth:               spec.Auth,
		Identity:           "26F5ABDA",
		IdentitySecretRing: TestSecring,
		OwnerName:          "Verif Owner",
		ShareHandler:       spec.Share,
	}
	switch spec.Storage {
	case "memory":
		c.MemoryStorage = true
	case "localdisk":
		c.BlobPath = filepath.Join(dir, "blobs")
	case "diskpacked":
		c.BlobPath = filepath.Join(dir, "blobs")
		c.PackBlobs = true
	case "blobpacked":
		c.BlobPath = filepath.Join(dir, "blobs")
		c.PackRelated = true
	default:
		return nil, fmt.Errorf("vhttp: unknown storage %q", spec.Storage)
	}
	switch spec.Index {
	case "memory":
		c.MemoryIndex = true
	case "leveldb":
		c.LevelDB = filepath.Join(dir, "index.leveldb")
	case "kv":
		c.KVFile = filepath.Join(dir, "index.kv")
	case "sqlite":
		c.SQLite = filepath.Join(dir, "index.sqlite")
	default:
		return nil, fmt.Errorf("vhttp: unknown index %q", spec.Index)
	}
	return c, nil
}

// HermeticEnv points perkeep's configuration, cache and var directories at a scratch directory
// (osutil refuses to look at host configuration when package testing is linked in).
func HermeticEnv() {
	envOnce.Do(func() {
		d, _ := os.MkdirTemp("", "verif-camli-cfg-")
		os.Setenv("CAMLI_CONFIG_DIR", d)
		os.Setenv("CAMLI_CACHE_DIR", d)
		os.Setenv("CAMLI_VAR_DIR", d)
	})
}

// Start loads spec. With listen=true the mux is served by an httptest.Server
// (real TCP on 127.0.0.1); otherwise requests go straight to s.Mux.
func Start(spec Spec, listen bool) (srv *Server, err error) {
	HermeticEnv()
	s := &Server{Spec: spec}
	needDir := spec.Storage != "memory" || spec.Index != "memory"
	if needDir {
		s.Dir, err = os.MkdirTemp("", "verif-http-")
		if err != nil {
			return nil, err
		}
		if spec.Storage != "memory" {
			// genconfig creates <blobPath>/cache itself, except after a memoryStorage
			// configuration was generated in the same process (sticky package variable
			// noMkdir) - several configurations per process is our situation, not perkeepd's.
			for _, sub := range []string{"cache", "packed"} {
				if err := os.MkdirAll(filepath.Join(s.Dir, "blobs", sub), 0o700); err != nil {
					return nil, err
				}
			}
		}
	}
	defer func() {
		if r := recover(); r != nil {
			err = fmt.Errorf("vhttp: panic while loading %v: %v", spec, r)
		}
		if err != nil {
			s.Close()
			srv = nil
		}
	}()
	high, err := HighLevel(spec, s.Dir)
	if err != nil {
		return nil, err
	}
	hb, err := json.Marshal(high)
	if err != nil {
		return nil, err
	}
	json.Unmarshal(hb, &s.High)
	conf, err := serverinit.Load(hb)
	if err != nil {
		return nil, fmt.Errorf("vhttp: serverinit.Load(%s): %v", hb, err)
	}
	conf.SetKeepGoing(true) // = perkeepd -keep-going; blobpacked/index would os.Exit otherwise
	s.Low = conf.LowLevelJSONConfig()
	s.Mux = http.NewServeMux()
	if listen {
		s.TS = httptest.NewUnstartedServer(s.Mux)
		s.URL = "http://" + s.TS.Listener.Addr().String()
	} else {
		s.URL = "http://verif.invalid"
	}
	s.shut, err = conf.InstallHandlers(s.Mux, s.URL)
	if err != nil {
		return nil, fmt.Errorf("vhttp: InstallHandlers(%v): %v", spec, err)
	}
	if listen {
		s.TS.Start()
	}
	return s, nil
}

// Prefixes returns prefix -> handler type of the loaded low-level config, sorted by prefix.
func (s *Server) Prefixes() (prefixes []string, types map[string]string) {
	types = map[string]string{}
	pm, _ := s.Low["prefixes"].(map[string]any)
	for p, v := range pm {
		if p == "_knownkeys" {
			continue
		}
		m, ok := v.(map[string]any)
		if !ok {
			continue
		}
		if en, ok := m["enabled"].(bool); ok && !en {
			continue
		}
		t, _ := m["handler"].(string)
		types[p] = t
		prefixes = append(prefixes, p)
	}
	sort.Strings(prefixes)
	return
}

// Leaked counts servers whose storages were left open because their sync queue did not drain.
var Leaked atomic.Int64

// syncIdle asks the status handler (with the process token, which every auth mode accepts)
// whether every sync handler has copied everything it was told about.
func (s *Server) syncIdle() bool {
	req := httptest.NewRequest("GET", "http://verif.invalid/status/status.json", nil)
	req.Header.Set("Authorization", "Token "+auth.Token())
	rec := httptest.NewRecorder()
	s.Mux.ServeHTTP(rec, req)
	var st struct {
		Sync map[string]struct {
			BlobsToCopy int `json:"blobsToCopy"`
		} `json:"sync"`
	}
	if rec.Code != 200 || json.Unmarshal(rec.Body.Bytes(), &st) != nil {
		return false
	}
	for _, v := range st.Sync {
		if v.BlobsToCopy != 0 {
			return false
		}
	}
	return true
}

// Close stops the listener, shuts the handlers down and removes the temp dir.
//
// The sync handler (/bs/ -> /index/) of a loaded configuration has a goroutine that is never
// stopped; if it still has queued blobs when the index's database is closed, perkeep crashes the
// process (nil *sql.Tx in sqlkv.CommitBatch after a failed BEGIN). perkeepd never closes storages
// while serving, so this is our situation only: wait until the queue is drained before closing,
// and if that does not happen in time leave the storages open (counted in Leaked).
func (s *Server) Close() {
	if s == nil {
		return
	}
	if s.TS != nil {
		s.TS.CloseClientConnections()
		s.TS.Close()
		s.TS = nil
	}
	if s.shut != nil {
		idle := false
		for i := 0; i < 400 && !idle; i++ {
			if idle = s.syncIdle(); !idle {
				time.Sleep(5 * time.Millisecond)
			}
		}
		if idle {
			s.shut.Close()
		} else {
			Leaked.Add(1)
		}
		s.shut = nil
	}
	if s.Dir != "" {
		os.RemoveAll(s.Dir)
		s.Dir = ""
	}
}
