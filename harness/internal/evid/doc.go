package evid
