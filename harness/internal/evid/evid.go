// Package evid records what a check run actually covered and writes it as
// /verif/evidence/<ID>.json (EVIDENCE.schema.json). One Recorder per process.
package evid

import (
	"encoding/binary"
	"encoding/json"
	"flag"
	"fmt"
	"hash/fnv"
	"io"
	"log"
	"os"
	"sort"
	"strconv"
	"sync"
	"testing"
	"time"

	"pgregory.net/rapid"
)

type Recorder struct {
	mu          sync.Mutex
	Property    string
	Level       string
	Rule        string
	start       time.Time
	evals       int64
	distinct    map[uint64]struct{}
	labels      map[string]int64
	samples     []any
	ntSamples   []any
	assumptions []string
	exhaustive  map[string]bool
	known       map[string]int64
	violations  int
	extra       map[string]any
}

// R is the process-wide recorder.
var R = &Recorder{
	distinct:   map[uint64]struct{}{},
	labels:     map[string]int64{},
	exhaustive: map[string]bool{},
	known:      map[string]int64{},
	extra:      map[string]any{},
}

const maxSamples = 4

// Tier returns "quick" or "thorough".
func Tier() string {
	if os.Getenv("VERIF_TIER") == "thorough" {
		return "thorough"
	}
	return "quick"
}

func Thorough() bool { return Tier() == "thorough" }

// Pick returns q in the quick tier and th in the thorough tier.
func Pick(q, th int) int {
	if Thorough() {
		return th
	}
	return q
}

// BaseSeed is VERIF_SEED (default 1, 0 remapped to 1).
func BaseSeed() uint64 {
	s, err := strconv.ParseUint(os.Getenv("VERIF_SEED"), 10, 64)
	if err != nil || s == 0 {
		// negative or unparsable seeds are folded into a positive one
		if v, err2 := strconv.ParseInt(os.Getenv("VERIF_SEED"), 10, 64); err2 == nil && v != 0 {
			return uint64(-v) + 7
		}
		return 1
	}
	return s
}

// Shard returns (index, count) of this process among thorough shards.
func Shard() (int, int) {
	i, _ := strconv.Atoi(os.Getenv("VERIF_SHARD"))
	n, _ := strconv.Atoi(os.Getenv("VERIF_SHARDS"))
	if n <= 0 {
		n = 1
	}
	return i, n
}

// Seed is the rapid seed of this process: derived from VERIF_SEED and the shard.
func Seed() uint64 {
	i, _ := Shard()
	s := BaseSeed()*1000 + uint64(i) + 1
	if s == 0 {
		s = 1
	}
	return s
}

// Replaying reports whether the run is a replay of a fail file.
func Replaying() bool { return os.Getenv("VERIF_REPLAY") != "" }

// Check runs prop with rapid for n cases (per tier) under the run's seed. The
// sub-seed salt keeps several rapid tests in one package on different streams.
func Check(t *testing.T, quickN, thoroughN int, prop func(*rapid.T)) {
	t.Helper()
	n := Pick(quickN, thoroughN)
	if _, shards := Shard(); !Thorough() && shards > 1 {
		n = (n + shards - 1) / shards // the quick tier's case count is divided over its shards
	}
	if v := os.Getenv("VERIF_CHECKS_SCALE"); v != "" {
		if f, err := strconv.ParseFloat(v, 64); err == nil && f > 0 {
			n = int(float64(n)*f) + 1
		}
	}
	flag.Set("rapid.checks", strconv.Itoa(n))
	h := fnv.New64a()
	h.Write([]byte(t.Name()))
	seed := Seed()*1000003 + h.Sum64()%1000003
	if seed == 0 {
		seed = 1
	}
	flag.Set("rapid.seed", strconv.FormatUint(seed, 10))
	if ff := os.Getenv("VERIF_REPLAY"); ff != "" {
		flag.Set("rapid.failfile", ff)
	}
	rapid.Check(t, prop)
	if t.Failed() {
		R.mu.Lock()
		R.violations++
		R.mu.Unlock()
	}
}

// Eval counts one generated case.
func (r *Recorder) Eval() {
	r.mu.Lock()
	r.evals++
	r.mu.Unlock()
}

// EvalN counts n generated cases.
func (r *Recorder) EvalN(n int) {
	r.mu.Lock()
	r.evals += int64(n)
	r.mu.Unlock()
}

// NonTrivial records a case (by canonical hash) that satisfies the property's
// non-triviality rule. Returns true if the hash was new.
func (r *Recorder) NonTrivial(h uint64) bool {
	r.mu.Lock()
	defer r.mu.Unlock()
	if _, ok := r.distinct[h]; ok {
		return false
	}
	r.distinct[h] = struct{}{}
	return true
}

// Label bumps a class counter.
func (r *Recorder) Label(name string) { r.LabelN(name, 1) }

func (r *Recorder) LabelN(name string, n int) {
	r.mu.Lock()
	r.labels[name] += int64(n)
	r.mu.Unlock()
}

// Sample stores one of the first few cases (nontrivial ones kept separately so
// that the evidence always shows some).
func (r *Recorder) Sample(nontrivial bool, v any) {
	r.mu.Lock()
	defer r.mu.Unlock()
	if nontrivial {
		if len(r.ntSamples) < maxSamples {
			r.ntSamples = append(r.ntSamples, v)
		}
		return
	}
	if len(r.samples) < 2 {
		r.samples = append(r.samples, v)
	}
}

// WantSample tells whether a further sample of that kind would be kept, so that
// callers can avoid building expensive dumps.
func (r *Recorder) WantSample(nontrivial bool) bool {
	r.mu.Lock()
	defer r.mu.Unlock()
	if nontrivial {
		return len(r.ntSamples) < maxSamples
	}
	return len(r.samples) < 2
}

func (r *Recorder) Assume(s string) {
	r.mu.Lock()
	defer r.mu.Unlock()
	for _, a := range r.assumptions {
		if a == s {
			return
		}
	}
	r.assumptions = append(r.assumptions, s)
}

// Exhaustive marks a named finite sub-domain as completely enumerated.
func (r *Recorder) Exhaustive(name string) {
	r.mu.Lock()
	r.exhaustive[name] = true
	r.mu.Unlock()
}

func (r *Recorder) Extra(k string, v any) {
	r.mu.Lock()
	r.extra[k] = v
	r.mu.Unlock()
}

// KnownExcluded counts a case ended early because it matched an open finding.
func (r *Recorder) KnownExcluded(sig string) {
	r.mu.Lock()
	r.known[sig]++
	r.mu.Unlock()
}

func (r *Recorder) Violation() {
	r.mu.Lock()
	r.violations++
	r.mu.Unlock()
}

// Hash is FNV-64a over the fmt representation of its arguments.
func Hash(parts ...any) uint64 {
	h := fnv.New64a()
	for _, p := range parts {
		switch v := p.(type) {
		case string:
			h.Write([]byte(v))
		case []byte:
			h.Write(v)
		default:
			fmt.Fprint(h, v)
		}
		h.Write([]byte{0})
	}
	return h.Sum64()
}

type fileT struct {
	PropertyID  string         `json:"property_id"`
	Tier        string         `json:"tier"`
	Seed        int64          `json:"seed"`
	Level       string         `json:"level"`
	Coverage    map[string]any `json:"coverage"`
	Assumptions []string       `json:"assumptions,omitempty"`
	WallS       float64        `json:"wall_s"`
	Violations  int            `json:"violations"`
}

// Flush writes the evidence file named by VERIF_EVIDENCE (and the side file of
// distinct hashes used by the driver to merge shards).
func (r *Recorder) Flush(failed bool) {
	path := os.Getenv("VERIF_EVIDENCE")
	if path == "" {
		return
	}
	r.mu.Lock()
	defer r.mu.Unlock()
	if failed && r.violations == 0 {
		r.violations = 1
	}
	cov := map[string]any{
		"evaluations":         r.evals,
		"distinct_nontrivial": len(r.distinct),
		"rule":                r.Rule,
	}
	samples := append([]any{}, r.ntSamples...)
	samples = append(samples, r.samples...)
	if len(samples) == 0 {
		samples = []any{}
	}
	cov["samples"] = samples
	if len(r.labels) > 0 {
		cov["classes"] = r.labels
	}
	if len(r.known) > 0 {
		cov["excluded_known"] = r.known
	}
	if len(r.exhaustive) > 0 {
		var names []string
		for k := range r.exhaustive {
			names = append(names, k)
		}
		sort.Strings(names)
		cov["exhaustive_subdomains"] = names
		cov["exhaustive"] = true
	}
	for k, v := range r.extra {
		cov[k] = v
	}
	f := fileT{
		PropertyID:  r.Property,
		Tier:        Tier(),
		Seed:        int64(BaseSeed()),
		Level:       r.Level,
		Coverage:    cov,
		Assumptions: r.assumptions,
		WallS:       time.Since(r.start).Seconds(),
		Violations:  r.violations,
	}
	b, err := json.MarshalIndent(f, "", " ")
	if err != nil {
		fmt.Fprintf(os.Stderr, "evid: marshal: %v\n", err)
		// fall back to evidence without samples
		cov["samples"] = []any{fmt.Sprintf("unmarshalable samples: %v", err)}
		b, _ = json.MarshalIndent(f, "", " ")
	}
	if err := os.WriteFile(path, b, 0o644); err != nil {
		fmt.Fprintf(os.Stderr, "evid: write %s: %v\n", path, err)
	}
	hb := make([]byte, 0, 8*len(r.distinct))
	for h := range r.distinct {
		hb = binary.LittleEndian.AppendUint64(hb, h)
	}
	os.WriteFile(path+".hashes", hb, 0o644)
}

// Main is the TestMain body of every check package.
func Main(m *testing.M, property, level, rule string) {
	R.Property = property
	R.Level = level
	R.Rule = rule
	R.start = time.Now()
	if os.Getenv("VERIF_LOG") == "" {
		log.SetOutput(io.Discard) // perkeep logs every failure it handles
	}
	code := m.Run()
	R.Flush(code != 0)
	os.Exit(code)
}

// QuietStderr points the os.Stderr VARIABLE at /dev/null (unless VERIF_LOG is set): some perkeep
// packages create their own loggers on os.Stderr (every blobpacked instance: "Packing file ...", and on a
// failed removal a %s of the whole wrapped store - megabytes per line). Runtime panics, race reports and
// test timeouts still go to the real file descriptor 2.
func QuietStderr() {
	if os.Getenv("VERIF_LOG") != "" {
		return
	}
	if f, err := os.OpenFile(os.DevNull, os.O_WRONLY, 0); err == nil {
		os.Stderr = f
	}
}
