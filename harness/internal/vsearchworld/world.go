// Package vsearchworld builds small perkeep "worlds" (signed permanodes and
// claims, files, directories, raw chunks), keeps the harness's OWN MODEL of
// them (nothing is ever parsed back from the blobs or read from the index for
// the oracle), indexes them into a real index.Index with an incremental corpus
// and search.Handler, and evaluates search constraints over the model following
// the field documentation in pkg/search/query.go (eval.go).
package vsearchworld

import (
	"context"
	"fmt"
	"perkeep.org/pkg/types/camtypes"
	"sort"
	"strings"
	"time"

	"perkeep.org/pkg/blob"
	"perkeep.org/pkg/index"
	"perkeep.org/pkg/schema"
	"perkeep.org/pkg/search"
	"perkeep.org/pkg/sorted"
	"perkeep.org/pkg/test"

	"verifharness/internal/evid"
	"verifharness/internal/vsign"
)

// SigTime is the fixed GPG signature time of every signed blob (makes refs
// deterministic and lets vsign cache signatures across worlds).
var SigTime = time.Unix(1300000000, 0).UTC()

// Blob is one blob known to the index, as the harness models it.
type Blob struct {
	Ref      blob.Ref
	RefS     string
	Size     int
	Type     string // camliType, "" for non-schema blobs
	Contents string

	Perm  *Perm
	File  *File
	Dir   *Dir
	Claim *Claim
}

// Claim is one attribute claim on a permanode.
type Claim struct {
	Ref   blob.Ref
	Perm  *Perm
	Date  time.Time
	Kind  string // "set-attribute", "add-attribute", "del-attribute"
	Attr  string
	Value string
}

// Perm is a permanode with its claims in claim-date order (dates pairwise
// distinct on one permanode).
type Perm struct {
	Ref    blob.Ref
	RefS   string
	Key    string
	Claims []*Claim
}

// File is a "file" schema blob.
type File struct {
	Ref      blob.Ref
	RefS     string
	Name     string
	Size     int64
	Mime     string // what the file's magic number / extension say, by construction of the generator
	WholeRef blob.Ref
	MTime    time.Time // zero: no unixMtime in the schema
	Parents  []*Dir
}

// Dir is a "directory" schema blob; Children are the distinct static-set members.
type Dir struct {
	Ref       blob.Ref
	RefS      string
	Name      string
	StaticSet blob.Ref
	Children  []blob.Ref
	Parents   []*Dir
}

// World is the model.
type World struct {
	Blobs map[string]*Blob // by ref string
	Order []string         // upload order (ref strings)
	// WarmDuringBuild makes Build read the corpus's sorted permanode enumerations after every delivery
	// (as a server answering queries while blobs arrive would), so that caches exist to go stale.
	WarmDuringBuild bool
	// ForeignEvery > 0: every ForeignEvery-th signed blob (permanodes and claims) is written as a foreign
	// serializer would, with whitespace in front of "camliVersion" (vsign.SignStyled), cycling the styles.
	ForeignEvery int
	nSigned      int
	Perms        []*Perm
	Files        []*File
	Dirs         []*Dir
}

func New() *World { return &World{Blobs: map[string]*Blob{}} }

func (w *World) nextStyle() int {
	w.nSigned++
	if w.ForeignEvery <= 0 || w.nSigned%w.ForeignEvery != 0 {
		return 0
	}
	return 1 + (w.nSigned/w.ForeignEvery)%(vsign.NumLeadStyles-1)
}

func (w *World) add(contents, typ string) (*Blob, bool) {
	ref := blob.RefFromString(contents)
	rs := ref.String()
	if b, ok := w.Blobs[rs]; ok {
		return b, false
	}
	b := &Blob{Ref: ref, RefS: rs, Size: len(contents), Type: typ, Contents: contents}
	w.Blobs[rs] = b
	w.Order = append(w.Order, rs)
	return b, true
}

// AddRaw adds a non-schema blob.
func (w *World) AddRaw(contents string) *Blob {
	b, _ := w.add(contents, "")
	return b
}

// AddFile adds a file whose contents are split into chunks of the given sizes
// (the last chunk takes the rest; nil = one chunk; empty content = no parts).
// mime is the MIME type the content's magic number or the name's extension
// stand for (the caller's table), not something computed from the blobs.
func (w *World) AddFile(name, content, mime string, mtime time.Time, chunkSizes []int) *File {
	var parts []schema.BytesPart
	rest := content
	for _, n := range chunkSizes {
		if n <= 0 || n >= len(rest) {
			break
		}
		c := w.AddRaw(rest[:n])
		parts = append(parts, schema.BytesPart{Size: uint64(n), BlobRef: c.Ref})
		rest = rest[n:]
	}
	if len(rest) > 0 {
		c := w.AddRaw(rest)
		parts = append(parts, schema.BytesPart{Size: uint64(len(rest)), BlobRef: c.Ref})
	}
	m := schema.NewFileMap(name)
	if err := m.PopulateParts(int64(len(content)), parts); err != nil {
		panic(fmt.Sprintf("vsearchworld: PopulateParts: %v", err))
	}
	if !mtime.IsZero() {
		m.SetModTime(mtime)
	}
	js, err := m.JSON()
	if err != nil {
		panic(fmt.Sprintf("vsearchworld: file JSON: %v", err))
	}
	b, fresh := w.add(js, "file")
	if !fresh {
		return b.File
	}
	f := &File{Ref: b.Ref, RefS: b.RefS, Name: name, Size: int64(len(content)), Mime: mime,
		WholeRef: blob.RefFromString(content), MTime: mtime}
	b.File = f
	w.Files = append(w.Files, f)
	return f
}

// AddDir adds a directory (and its static-set blob). children must be distinct
// refs of files or directories already in the world.
func (w *World) AddDir(name string, children []blob.Ref) *Dir {
	seen := map[blob.Ref]bool{}
	for _, c := range children {
		if seen[c] {
			panic("vsearchworld: duplicate directory child")
		}
		seen[c] = true
		cb := w.Blobs[c.String()]
		if cb == nil || (cb.File == nil && cb.Dir == nil) {
			panic("vsearchworld: directory child must be a known file or directory")
		}
	}
	ss := schema.NewStaticSet()
	ss.SetStaticSetMembers(children)
	ssb, _ := w.add(ss.Blob().JSON(), "static-set")
	bb := schema.NewDirMap(name)
	bb.PopulateDirectoryMap(ssb.Ref)
	js, err := bb.JSON()
	if err != nil {
		panic(fmt.Sprintf("vsearchworld: dir JSON: %v", err))
	}
	b, fresh := w.add(js, "directory")
	if !fresh {
		return b.Dir
	}
	d := &Dir{Ref: b.Ref, RefS: b.RefS, Name: name, StaticSet: ssb.Ref, Children: append([]blob.Ref(nil), children...)}
	b.Dir = d
	w.Dirs = append(w.Dirs, d)
	for _, c := range children {
		cb := w.Blobs[c.String()]
		if cb.File != nil {
			cb.File.Parents = append(cb.File.Parents, d)
		} else {
			cb.Dir.Parents = append(cb.Dir.Parents, d)
		}
	}
	return d
}

// AddPermanode adds a planned permanode signed by the test identity.
func (w *World) AddPermanode(key string) *Perm {
	tb := vsign.Test().SignStyled(schema.NewPlannedPermanode(key), SigTime, w.nextStyle())
	b, fresh := w.add(tb.Contents, "permanode")
	if !fresh {
		return b.Perm
	}
	p := &Perm{Ref: b.Ref, RefS: b.RefS, Key: key}
	b.Perm = p
	w.Perms = append(w.Perms, p)
	return p
}

// AddClaim adds an attribute claim dated date. Dates on one permanode must be
// pairwise distinct (the order of equal-dated claims is unspecified).
func (w *World) AddClaim(p *Perm, date time.Time, kind, attr, value string) *Claim {
	for _, c := range p.Claims {
		if c.Date.Equal(date) {
			panic("vsearchworld: two claims with the same date on one permanode")
		}
	}
	var bb *schema.Builder
	switch kind {
	case "set-attribute":
		bb = schema.NewSetAttributeClaim(p.Ref, attr, value)
	case "add-attribute":
		bb = schema.NewAddAttributeClaim(p.Ref, attr, value)
	case "del-attribute":
		bb = schema.NewDelAttributeClaim(p.Ref, attr, value)
	default:
		panic("vsearchworld: claim kind " + kind)
	}
	bb.SetClaimDate(date)
	tb := vsign.Test().SignStyled(bb, SigTime, w.nextStyle())
	b, fresh := w.add(tb.Contents, "claim")
	if !fresh {
		panic("vsearchworld: duplicate claim blob")
	}
	c := &Claim{Ref: b.Ref, Perm: p, Date: date, Kind: kind, Attr: attr, Value: value}
	b.Claim = c
	p.Claims = append(p.Claims, c)
	sort.SliceStable(p.Claims, func(i, j int) bool { return p.Claims[i].Date.Before(p.Claims[j].Date) })
	return c
}

// MoveToEnd moves the named blobs to the end of the upload order, in the given order.
func (w *World) SetOrder(order []string) {
	if len(order) != len(w.Order) {
		panic("vsearchworld: SetOrder length")
	}
	w.Order = append([]string(nil), order...)
}

// ---- model queries ----

// AttrsAt folds the claims dated <= at (zero at: all claims; every claim of a
// generated world lies in the past) in date order.
func (p *Perm) AttrsAt(at time.Time) map[string][]string {
	m := map[string][]string{}
	for _, c := range p.Claims {
		if !at.IsZero() && c.Date.After(at) {
			continue
		}
		switch c.Kind {
		case "set-attribute":
			m[c.Attr] = []string{c.Value}
		case "add-attribute":
			m[c.Attr] = append(append([]string(nil), m[c.Attr]...), c.Value)
		case "del-attribute":
			if c.Value == "" {
				delete(m, c.Attr)
			} else {
				var keep []string
				for _, v := range m[c.Attr] {
					if v != c.Value {
						keep = append(keep, v)
					}
				}
				if len(keep) == 0 {
					delete(m, c.Attr)
				} else {
					m[c.Attr] = keep
				}
			}
		}
	}
	return m
}

func (p *Perm) ValuesAt(attr string, at time.Time) []string { return p.AttrsAt(at)[attr] }

// ModTime is the date of the newest claim (no claim is ever deleted in a generated world).
func (p *Perm) ModTime() time.Time {
	var t time.Time
	for i, c := range p.Claims {
		if i == 0 || c.Date.After(t) {
			t = c.Date
		}
	}
	return t
}

// ContentTime is the time of the permanode's content, if it has one: an explicit
// "dateCreated" attribute, else the unixMtime of the file its camliContent points
// to. (Generated worlds give a permanode at most one of dateCreated /
// camliContent, so the priority between the sources listed in
// Corpus.PermanodeTime is never exercised. The last entry of that list,
// "camliContent claim set time", sits under a "TODO: finish implementing all
// these" and is not modelled: a camliContent that is not a file with a
// unixMtime gives no content time.)
func (w *World) ContentTime(p *Perm) (time.Time, bool) {
	if vs := p.ValuesAt("dateCreated", time.Time{}); len(vs) > 0 {
		if t, err := time.Parse(time.RFC3339, vs[0]); err == nil {
			return t, true
		}
	}
	var cc *Claim
	for _, c := range p.Claims {
		if c.Attr == "camliContent" && c.Kind == "set-attribute" {
			cc = c
		}
	}
	if cc != nil {
		if ref, ok := blob.Parse(cc.Value); ok {
			if b := w.Blobs[ref.String()]; b != nil && b.File != nil && !b.File.MTime.IsZero() {
				return b.File.MTime, true
			}
		}
	}
	return time.Time{}, false
}

// AnyTime: content time if known, the modtime otherwise (doc of Corpus.PermanodeAnyTime
// and of EnumeratePermanodesCreated).
func (w *World) AnyTime(p *Perm) time.Time {
	if t, ok := w.ContentTime(p); ok {
		return t
	}
	return p.ModTime()
}

// SortedRefs returns all blob refs in ascending order.
func (w *World) SortedRefs() []string {
	out := make([]string, 0, len(w.Blobs))
	for k := range w.Blobs {
		out = append(out, k)
	}
	sort.Strings(out)
	return out
}

// Hash identifies the world (set of blobs + upload order).
func (w *World) Hash() uint64 {
	return evid.Hash("world", strings.Join(w.Order, ","))
}

// Describe is a compact human-readable dump for samples and failure reports.
func (w *World) Describe() map[string]any {
	var perms, files, dirs []any
	for _, p := range w.Perms {
		var cl []string
		for _, c := range p.Claims {
			cl = append(cl, fmt.Sprintf("%s %s %s=%q", c.Date.UTC().Format(time.RFC3339Nano), strings.TrimSuffix(c.Kind, "-attribute"), c.Attr, c.Value))
		}
		perms = append(perms, map[string]any{"ref": p.RefS, "key": p.Key, "claims": cl})
	}
	for _, f := range w.Files {
		m := map[string]any{"ref": f.RefS, "name": f.Name, "size": f.Size, "mime": f.Mime, "wholeRef": f.WholeRef.String()}
		if !f.MTime.IsZero() {
			m["mtime"] = f.MTime.UTC().Format(time.RFC3339Nano)
		}
		files = append(files, m)
	}
	for _, d := range w.Dirs {
		var ch []string
		for _, c := range d.Children {
			ch = append(ch, c.String())
		}
		dirs = append(dirs, map[string]any{"ref": d.RefS, "name": d.Name, "children": ch})
	}
	return map[string]any{"blobs": len(w.Blobs), "permanodes": perms, "files": files, "dirs": dirs}
}

// ---- real index ----

// Indexed is the production-shaped stack over a world: memory sorted KV, index
// with incremental in-memory corpus, search handler owned by the test identity.
type Indexed struct {
	Idx    *index.Index
	Corpus *index.Corpus
	H      *search.Handler
}

// Build indexes the world's blobs in w.Order and waits for quiescence.
func (w *World) Build() (*Indexed, error) {
	idx, err := index.New(sorted.NewMemoryKeyValue())
	if err != nil {
		return nil, fmt.Errorf("index.New: %v", err)
	}
	corpus, err := idx.KeepInMemory()
	if err != nil {
		return nil, fmt.Errorf("KeepInMemory: %v", err)
	}
	src := new(test.Fetcher)
	idx.KeyFetcher = vsign.KeyFetcher()
	idx.InitBlobSource(src)
	ctx := context.Background()
	for _, rs := range w.Order {
		b := w.Blobs[rs]
		tb := &test.Blob{Contents: b.Contents}
		src.AddBlob(tb)
		if _, err := idx.ReceiveBlob(ctx, b.Ref, tb.Reader()); err != nil {
			return nil, fmt.Errorf("ReceiveBlob(%v, type %q): %v", b.Ref, b.Type, err)
		}
		if w.WarmDuringBuild {
			idx.VerifAwaitAsync()
			idx.RLock()
			corpus.EnumeratePermanodesCreated(func(camtypes.BlobMeta) bool { return true }, true)
			corpus.EnumeratePermanodesLastModified(func(camtypes.BlobMeta) bool { return true })
			idx.RUnlock()
		}
	}
	idx.VerifAwaitAsync()
	if needs, ready := idx.VerifPending(); needs != 0 || ready != 0 {
		return nil, fmt.Errorf("index not quiescent after all blobs arrived: needs=%d ready=%d", needs, ready)
	}
	owner := index.NewOwner(vsign.Test().KeyID, vsign.Test().Ref)
	h := search.NewHandler(idx, owner)
	h.SetCorpus(corpus)
	return &Indexed{Idx: idx, Corpus: corpus, H: h}, nil
}
