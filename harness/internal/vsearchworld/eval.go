package vsearchworld

import (
	"strings"
	"time"

	"perkeep.org/pkg/blob"
	"perkeep.org/pkg/search"
)

// Tri is a three-valued verdict of the reference evaluator. U ("unspecified")
// is returned where the field documentation in query.go does not decide the
// case; a blob whose verdict is U may or may not be in a result.
type Tri int8

const (
	F Tri = iota
	U
	T
)

func (t Tri) String() string { return [...]string{"F", "U", "T"}[t] }

func tb(b bool) Tri {
	if b {
		return T
	}
	return F
}

func and3(a, b Tri) Tri {
	if a == F || b == F {
		return F
	}
	if a == T && b == T {
		return T
	}
	return U
}

func or3(a, b Tri) Tri {
	if a == T || b == T {
		return T
	}
	if a == F && b == F {
		return F
	}
	return U
}

func not3(a Tri) Tri {
	switch a {
	case T:
		return F
	case F:
		return T
	}
	return U
}

// Stats counts which doc-silent cases an evaluation ran into.
type Stats struct {
	URelAllEmpty    int // relation "all" over an empty set of relatives
	UTimeGuess      int // permanode "time" constraint on a permanode without a content time
	URelAllDangling int // relation "all" where every known relative matches but one edge points at an unknown blob
}

// Evaluator evaluates search constraints over the model.
type Evaluator struct {
	W     *World
	Stats Stats
}

// Matches returns the verdict of constraint c on blob b, following the
// documentation of the Constraint types in pkg/search/query.go:
//
//	Constraint: "A blob matches if it matches all non-zero fields' predicates.
//	A zero constraint matches nothing."
func (e *Evaluator) Matches(c *search.Constraint, b *Blob) Tri {
	if c.Logical != nil {
		// "If Logical is non-nil, all other fields are ignored." (other fields are never generated together with Logical)
		return e.logical(c.Logical, b)
	}
	n := 0
	r := T
	add := func(v Tri) { n++; r = and3(r, v) }
	if c.Anything {
		add(T)
	}
	if c.CamliType != "" {
		add(tb(b.Type == string(c.CamliType)))
	}
	if c.AnyCamliType {
		add(tb(b.Type != ""))
	}
	if c.BlobRefPrefix != "" {
		add(tb(refHasPrefix(b.RefS, c.BlobRefPrefix)))
	}
	if c.BlobSize != nil {
		add(tb(intMatches(c.BlobSize, int64(b.Size))))
	}
	if c.Permanode != nil {
		add(e.permanode(c.Permanode, b))
	}
	if c.File != nil {
		add(e.file(c.File, b))
	}
	if c.Dir != nil {
		add(e.dir(c.Dir, b))
	}
	if n == 0 {
		return F
	}
	return r
}

func (e *Evaluator) logical(l *search.LogicalConstraint, b *Blob) Tri {
	a := e.Matches(l.A, b)
	switch l.Op {
	case "not":
		return not3(a)
	case "and":
		if a == F {
			return F
		}
		return and3(a, e.Matches(l.B, b))
	case "or":
		if a == T {
			return T
		}
		return or3(a, e.Matches(l.B, b))
	case "xor":
		bb := e.Matches(l.B, b)
		if a == U || bb == U {
			return U
		}
		return tb(a != bb)
	}
	panic("vsearchworld: logical op " + l.Op)
}

// refHasPrefix: blob.Ref.HasPrefix doc — "reports whether s is a prefix of
// r.String(). It returns false if s does not contain at least the digest name
// prefix (e.g. "sha224-") and one byte of digest."
func refHasPrefix(ref, pfx string) bool {
	dash := strings.IndexByte(ref, '-')
	if len(pfx) < dash+2 {
		return false
	}
	return strings.HasPrefix(ref, pfx)
}

// IntConstraint: "Min and Max are both optional and inclusive bounds. Zero means
// don't check." ZeroMin/ZeroMax: "if true, min/max is actually zero". Equals:
// "if non-nil, value must equal this".
func intMatches(c *search.IntConstraint, v int64) bool {
	if c.Equals != nil {
		return v == *c.Equals
	}
	if (c.Min != 0 || c.ZeroMin) && v < c.Min {
		return false
	}
	if (c.Max != 0 || c.ZeroMax) && v > c.Max {
		return false
	}
	return true
}

// StringConstraint: "All non-zero must match." Empty "matches empty string";
// ByteLength "length in bytes"; CaseInsensitive folds the four comparisons.
func strMatches(c *search.StringConstraint, s string) bool {
	if c.Empty && s != "" {
		return false
	}
	if c.ByteLength != nil && !intMatches(c.ByteLength, int64(len(s))) {
		return false
	}
	x := s
	eq, co, pf, sf := c.Equals, c.Contains, c.HasPrefix, c.HasSuffix
	if c.CaseInsensitive {
		x = strings.ToLower(x)
		eq, co, pf, sf = strings.ToLower(eq), strings.ToLower(co), strings.ToLower(pf), strings.ToLower(sf)
	}
	if c.Equals != "" && x != eq {
		return false
	}
	if c.Contains != "" && !strings.Contains(x, co) {
		return false
	}
	if c.HasPrefix != "" && !strings.HasPrefix(x, pf) {
		return false
	}
	if c.HasSuffix != "" && !strings.HasSuffix(x, sf) {
		return false
	}
	return true
}

// TimeConstraint: Before "<", After ">="; a zero time never matches; InLast is
// never generated.
func timeMatches(c *search.TimeConstraint, t time.Time) bool {
	if t.IsZero() {
		return false
	}
	if b := time.Time(c.Before); !b.IsZero() && !t.Before(b) {
		return false
	}
	if a := time.Time(c.After); !a.IsZero() && t.Before(a) {
		return false
	}
	return true
}

// canonical base-10 integer: -?(0|[1-9][0-9]*), fits int64 (generated values are short).
func parseCanonInt(s string) (int64, bool) {
	neg := false
	d := s
	if strings.HasPrefix(d, "-") {
		neg = true
		d = d[1:]
	}
	if d == "" || len(d) > 15 || (len(d) > 1 && d[0] == '0') {
		return 0, false
	}
	var v int64
	for i := 0; i < len(d); i++ {
		if d[i] < '0' || d[i] > '9' {
			return 0, false
		}
		v = v*10 + int64(d[i]-'0')
	}
	if neg {
		if v == 0 {
			return 0, false // "-0" is not generated; treat as non-canonical
		}
		v = -v
	}
	return v, true
}

func (e *Evaluator) permanode(c *search.PermanodeConstraint, b *Blob) Tri {
	// "PermanodeConstraint matches permanodes."
	if b.Perm == nil {
		return F
	}
	p := b.Perm
	r := T
	if c.Attr != "" {
		// At: "the time at which to pretend we're resolving attributes. Attribute
		// claims after this point in time are ignored. If zero, the current time is used."
		vals := p.ValuesAt(c.Attr, c.At)
		// NumValue "tests the number of values this permanode has for Attr".
		if c.NumValue != nil && !intMatches(c.NumValue, int64(len(vals))) {
			return F
		}
		if c.Value != "" || c.ValueMatches != nil || c.ValueMatchesInt != nil || c.ValueInSet != nil {
			// "By default, when ValueAll is false, only one value of a multi-valued
			// attribute needs to match. If ValueAll is true, all attributes must match."
			anyV, allV := F, T
			for _, v := range vals {
				m := e.valueMatches(c, v)
				anyV = or3(anyV, m)
				allV = and3(allV, m)
			}
			if c.ValueAll {
				// ValueAll only "modifies the matching behavior when an attribute is
				// multi-valued": one matching value is still required.
				r = and3(r, and3(anyV, allV))
			} else {
				r = and3(r, anyV)
			}
			if r == F {
				return F
			}
		}
	}
	if c.SkipHidden {
		// "SkipHidden skips hidden or other boring files": camliDefVis=hide.
		if vs := p.ValuesAt("camliDefVis", c.At); len(vs) > 0 && vs[0] == "hide" {
			return F
		}
	}
	if c.ModTime != nil {
		// "ModTime optionally matches on the last modtime of the permanode."
		if !timeMatches(c.ModTime, p.ModTime()) {
			return F
		}
	}
	if c.Time != nil {
		// "Time optionally matches the permanode's time. A Permanode may not have a
		// known time. If the permanode does not have a known time, one may be guessed
		// if the top-level search parameters request so."
		if ct, ok := e.W.ContentTime(p); ok {
			if !timeMatches(c.Time, ct) {
				return F
			}
		} else {
			// no known time: the doc leaves open whether a guess (the modtime) is used.
			if !timeMatches(c.Time, p.ModTime()) {
				return F // no match under either reading
			}
			e.Stats.UTimeGuess++
			r = and3(r, U)
		}
	}
	if rc := c.Relation; rc != nil {
		r = and3(r, e.relation(rc, p, c.At))
		if r == F {
			return F
		}
	}
	return r
}

func (e *Evaluator) valueMatches(c *search.PermanodeConstraint, v string) Tri {
	if c.Value != "" && c.Value != v {
		return F
	}
	if c.ValueMatches != nil && !strMatches(c.ValueMatches, v) {
		return F
	}
	if c.ValueMatchesInt != nil {
		// "Non-integer values will not match."
		i, ok := parseCanonInt(v)
		if !ok || !intMatches(c.ValueMatchesInt, i) {
			return F
		}
	}
	if c.ValueInSet != nil {
		// "a sub-query which the value (which must be a blobref) must be a part of"
		ref, ok := blob.Parse(v)
		if !ok {
			return F
		}
		vb := e.W.Blobs[ref.String()]
		if vb == nil {
			return F
		}
		return e.Matches(c.ValueInSet, vb)
	}
	return T
}

func edgeMatches(rc *search.RelationConstraint, attr string) bool {
	// EdgeType: "By default it matches "camliMember" and "camliPath:*"."
	if rc.EdgeType != "" {
		return attr == rc.EdgeType
	}
	return attr == "camliMember" || strings.HasPrefix(attr, "camliPath:")
}

// relation: "After finding all the nodes matching the Relation and EdgeType,
// either one or all (depending on whether Any or All is set) must then match".
// Relatives are taken at time at (the enclosing PermanodeConstraint's At).
func (e *Evaluator) relation(rc *search.RelationConstraint, p *Perm, at time.Time) Tri {
	var rel []*Blob
	dangling := 0
	seen := map[string]bool{}
	addRel := func(b *Blob) {
		if b != nil && !seen[b.RefS] {
			seen[b.RefS] = true
			rel = append(rel, b)
		}
	}
	switch rc.Relation {
	case "child":
		attrs := p.AttrsAt(at)
		for _, a := range sortedKeys(attrs) {
			if !edgeMatches(rc, a) {
				continue
			}
			for _, v := range attrs[a] {
				if ref, ok := blob.Parse(v); ok {
					if rb := e.W.Blobs[ref.String()]; rb != nil {
						addRel(rb)
					} else {
						dangling++ // an edge to a blob the index never saw: no node to test
					}
				}
			}
		}
	case "parent":
		for _, q := range e.W.Perms {
			attrs := q.AttrsAt(at)
			for _, a := range sortedKeys(attrs) {
				if !edgeMatches(rc, a) {
					continue
				}
				for _, v := range attrs[a] {
					if v == p.RefS {
						addRel(e.W.Blobs[q.RefS])
					}
				}
			}
		}
	default:
		panic("vsearchworld: relation " + rc.Relation)
	}
	if rc.Any != nil {
		r := F
		for _, b := range rel {
			r = or3(r, e.Matches(rc.Any, b))
		}
		return r
	}
	if len(rel) == 0 {
		// "all must then match" over no nodes at all: not decided by the doc.
		e.Stats.URelAllEmpty++
		return U
	}
	r := T
	for _, b := range rel {
		r = and3(r, e.Matches(rc.All, b))
	}
	if r == T && dangling > 0 {
		// whether an edge to an unknown blob counts against "all" is not documented
		e.Stats.URelAllDangling++
		return U
	}
	return r
}

func sortedKeys(m map[string][]string) []string {
	out := make([]string, 0, len(m))
	for k := range m {
		out = append(out, k)
	}
	sortStrings(out)
	return out
}

func sortStrings(s []string) {
	for i := 1; i < len(s); i++ {
		for j := i; j > 0 && s[j] < s[j-1]; j-- {
			s[j], s[j-1] = s[j-1], s[j]
		}
	}
}

func (e *Evaluator) file(c *search.FileConstraint, b *Blob) Tri {
	if b.File == nil {
		return F
	}
	f := b.File
	// "(All non-zero fields must match)"
	if c.FileSize != nil && !intMatches(c.FileSize, f.Size) {
		return F
	}
	if c.FileName != nil && !strMatches(c.FileName, f.Name) {
		return F
	}
	if c.MIMEType != nil && !strMatches(c.MIMEType, f.Mime) {
		return F
	}
	if c.WholeRef.Valid() {
		// "only matches if the entire checksum of the file (the concatenation of all
		// its blobs) is equal to the provided blobref" (sha224 only is generated)
		if c.WholeRef != f.WholeRef {
			return F
		}
	}
	r := T
	if c.ParentDir != nil {
		// "constrains the file match based on properties of its parent directory"
		pr := F
		for _, d := range f.Parents {
			pr = or3(pr, e.dir(c.ParentDir, e.W.Blobs[d.RefS]))
		}
		r = and3(r, pr)
	}
	return r
}

func (e *Evaluator) dir(c *search.DirConstraint, b *Blob) Tri {
	// "DirConstraint matches static directories."
	if b.Dir == nil {
		return F
	}
	d := b.Dir
	if c.BlobRefPrefix != "" && !refHasPrefix(b.RefS, c.BlobRefPrefix) {
		return F
	}
	if c.FileName != nil && !strMatches(c.FileName, d.Name) {
		return F
	}
	// "TopFileCount ... the directory's number of children (non-recursively)"
	if c.TopFileCount != nil && !intMatches(c.TopFileCount, int64(len(d.Children))) {
		return F
	}
	r := T
	if c.ParentDir != nil {
		pr := F
		for _, pd := range d.Parents {
			pr = or3(pr, e.dir(c.ParentDir, e.W.Blobs[pd.RefS]))
		}
		r = and3(r, pr)
		if r == F {
			return F
		}
	}
	if c.Contains != nil {
		// "just those directories containing a file matched by Contains ... only
		// applied to the children of the directory, in a non-recursive manner"
		cr := F
		for _, ch := range d.Children {
			cr = or3(cr, e.containsMatch(c.Contains, e.W.Blobs[ch.String()]))
		}
		r = and3(r, cr)
	} else if c.RecursiveContains != nil {
		// "like Contains, but applied to all the descendants of the directory"
		r = and3(r, e.anyDescendant(d, c.RecursiveContains))
	}
	return r
}

// containsMatch applies a Contains sub-constraint to a child: "Contains should
// have a BlobPrefix, or a *FileConstraint, or a *DirConstraint, or a
// *LogicalConstraint combination of the aforementioned." (only those shapes,
// with a single field per leaf, are generated)
func (e *Evaluator) containsMatch(cc *search.Constraint, child *Blob) Tri {
	return e.Matches(cc, child)
}

func (e *Evaluator) anyDescendant(d *Dir, cc *search.Constraint) Tri {
	r := F
	for _, ch := range d.Children {
		cb := e.W.Blobs[ch.String()]
		r = or3(r, e.containsMatch(cc, cb))
		if r == T {
			return T
		}
		if cb.Dir != nil {
			r = or3(r, e.anyDescendant(cb.Dir, cc))
			if r == T {
				return T
			}
		}
	}
	return r
}

// Result evaluates c on every blob of the world: must = verdict T, may = verdict U.
func (e *Evaluator) Result(c *search.Constraint) (must, may map[string]bool) {
	must, may = map[string]bool{}, map[string]bool{}
	for rs, b := range e.W.Blobs {
		switch e.Matches(c, b) {
		case T:
			must[rs] = true
		case U:
			may[rs] = true
		}
	}
	return
}
