package vsearchworld

import (
	"fmt"
	"mime"
	"sort"
	"strings"
	"time"

	"perkeep.org/pkg/blob"
	"pgregory.net/rapid"
)

// Config bounds a generated world.
type Config struct {
	MaxFiles, MaxDirs, MaxPerms, MaxClaimsPerPerm int
}

var (
	QuickConfig    = Config{MaxFiles: 7, MaxDirs: 6, MaxPerms: 10, MaxClaimsPerPerm: 7}
	ThoroughConfig = Config{MaxFiles: 10, MaxDirs: 9, MaxPerms: 16, MaxClaimsPerPerm: 9}
)

// ---- vocabulary (small pools: many coincidences, many signature-cache hits) ----

var (
	NodeTypes = []string{"t:a", "t:b", "t:c"}
	Tags      = []string{"foo", "bar", "Foo", "baz qux", "é1", "fo"}
	Titles    = []string{"Alpha", "alpha beta", "BETA", "gamma", "É x"}
	Nums      = []string{"-3", "0", "7", "42", "100", "4x", "1.5", " 7"}
	FileNames = []string{"a.txt", "b.txt", "Photo.gif", "doc.pdf", "notes", "x.json", "data", "A.txt", ""}
	DirNames  = []string{"top", "sub", "photos", "Top", ""}
	PathAttrs = []string{"camliPath:x", "camliPath:y"}
)

// Zones: the same instant may be written with different UTC offsets in a dateCreated value.
var Zones = []*time.Location{time.UTC, time.UTC, time.FixedZone("", 2*3600), time.FixedZone("", 5*3600+1800), time.FixedZone("", -8*3600)}

// DanglingRef is a well-formed ref of a blob that is in no generated world.
var DanglingRef = blob.RefFromString("vsearchworld: a blob nobody uploaded").String()

// DatePool: instants claims are dated with. Whole seconds, sub-second (differing
// digit counts), pre-1970. All lie in the past; none is the Unix epoch itself.
var DatePool = func() []time.Time {
	base := time.Date(2012, 3, 4, 5, 6, 7, 0, time.UTC)
	var out []time.Time
	for i := 0; i < 10; i++ {
		out = append(out, base.Add(time.Duration(i)*37*time.Hour))
	}
	out = append(out,
		base.Add(500*time.Millisecond),
		base.Add(1*time.Nanosecond),
		base.Add(37*time.Hour+250*time.Millisecond),
		time.Date(1969, 12, 31, 23, 59, 59, 0, time.UTC),
		time.Date(1955, 6, 1, 0, 0, 0, 250000000, time.UTC),
		time.Date(2001, 9, 9, 1, 46, 40, 0, time.UTC),
	)
	return out
}()

// file kinds: content = magic + filler; MIME = what the magic number stands
// for, or (no magic) what the extension stands for.
type fileKind struct {
	name  string
	magic string
	mime  string // "" = by extension
	text  bool
}

var fileKinds = []fileKind{
	{name: "text", text: true},
	{name: "text", text: true},
	{name: "pdf", magic: "%PDF-1.4\n", mime: "application/pdf"},
	{name: "gif", magic: "GIF89a", mime: "image/gif"},
	{name: "gzip", magic: "\x1f\x8b\x08", mime: "application/x-gzip"},
	{name: "bin", magic: "\x01\x02\x03\x04"},
}

// extMime is the harness's table for magic-less contents. It is cross-checked
// once against the Go standard library (which perkeep consults) so that a
// system mime.types file that disagrees is reported as a harness environment
// problem instead of a false alarm.
var extMime = map[string]string{".txt": "text/plain", ".json": "application/json", ".gif": "image/gif", ".pdf": "application/pdf", "": ""}

func CheckEnv() error {
	for ext, want := range extMime {
		if ext == "" {
			continue
		}
		got := strings.TrimSpace(strings.SplitN(mime.TypeByExtension(ext), ";", 2)[0])
		if got != want {
			return fmt.Errorf("vsearchworld: this system maps %q to %q, the harness table says %q", ext, got, want)
		}
	}
	return nil
}

func extOf(name string) string {
	i := strings.LastIndexByte(name, '.')
	if i < 0 {
		return ""
	}
	return strings.ToLower(name[i:])
}

func filler(seed, n int, text bool) string {
	var sb strings.Builder
	words := []string{"lorem ", "ipsum ", "dolor ", "sit ", "amet "}
	for i := 0; sb.Len() < n; i++ {
		if text {
			sb.WriteString(words[(seed+i)%len(words)])
		} else {
			sb.WriteByte(byte(1 + (seed*7+i*13)%30))
		}
	}
	return sb.String()[:n]
}

// Gen draws a world.
func Gen(t *rapid.T, cfg Config) *World {
	w := New()
	w.ForeignEvery = rapid.SampledFrom([]int{0, 0, 2, 5}).Draw(t, "foreignSerializerEvery")
	// files
	nf := rapid.IntRange(0, cfg.MaxFiles).Draw(t, "nFiles")
	for i := 0; i < nf; i++ {
		GenFile(t, w)
	}
	// directories, bottom-up
	nd := rapid.IntRange(0, cfg.MaxDirs).Draw(t, "nDirs")
	for i := 0; i < nd; i++ {
		var cands []blob.Ref
		for _, f := range w.Files {
			cands = append(cands, f.Ref)
		}
		for _, d := range w.Dirs {
			cands = append(cands, d.Ref)
		}
		var children []blob.Ref
		if len(cands) > 0 {
			k := rapid.IntRange(0, min(4, len(cands))).Draw(t, "nChildren")
			used := map[int]bool{}
			for j := 0; j < k; j++ {
				// prefer recently created entries so that chains get deep
				var ix int
				if rapid.Bool().Draw(t, "recent") {
					ix = len(cands) - 1 - rapid.IntRange(0, min(2, len(cands)-1)).Draw(t, "back")
				} else {
					ix = rapid.IntRange(0, len(cands)-1).Draw(t, "child")
				}
				if !used[ix] {
					used[ix] = true
					children = append(children, cands[ix])
				}
			}
		}
		w.AddDir(rapid.SampledFrom(DirNames).Draw(t, "dirName"), children)
	}
	// now and then a world with several hundred further (non-schema) blobs: enumerations that poll,
	// batch or page every N candidates only show their seams on worlds larger than N
	if rapid.IntRange(0, 24).Draw(t, "largeWorld") == 0 {
		n := rapid.IntRange(260, 700).Draw(t, "fillerBlobs")
		salt := rapid.IntRange(0, 1<<20).Draw(t, "fillerSalt")
		for i := 0; i < n; i++ {
			w.AddRaw(fmt.Sprintf("filler blob %d of %d (salt %d) %s", i, n, salt, strings.Repeat("x", i%17)))
		}
	}
	// permanodes
	np := rapid.IntRange(1, cfg.MaxPerms).Draw(t, "nPerms")
	for i := 0; i < np; i++ {
		w.AddPermanode(fmt.Sprintf("p%d", i))
	}
	for _, p := range w.Perms {
		GenClaims(t, w, p, cfg.MaxClaimsPerPerm)
	}
	// Targeted shape "set of tagged members": a set whose first member carries several values of an
	// attribute and whose later member carries another value; a valueInSet sub-query about that attribute
	// is then evaluated member by member in the middle of the loop over the set's values.
	if rapid.IntRange(0, 4).Draw(t, "taggedMembers") == 0 {
		set, a, b := w.AddPermanode("tm-set"), w.AddPermanode("tm-a"), w.AddPermanode("tm-b")
		tags := rapid.Permutation(Tags).Draw(t, "tmTags")
		w.AddClaim(a, DatePool[0], "add-attribute", "tag", tags[0])
		w.AddClaim(a, DatePool[1], "add-attribute", "tag", tags[1%len(tags)])
		if len(tags) > 2 {
			w.AddClaim(b, DatePool[2], "add-attribute", "tag", tags[2])
		} else {
			w.AddClaim(b, DatePool[2], "set-attribute", "title", Titles[0])
		}
		w.AddClaim(set, DatePool[3], "add-attribute", "camliMember", a.RefS)
		w.AddClaim(set, DatePool[4], "add-attribute", "camliMember", b.RefS)
	}
	// upload order of the claims: date order per permanode, or shuffled
	if rapid.IntRange(0, 2).Draw(t, "shuffleClaims") == 0 {
		ShuffleClaims(t, w)
	}
	// arrival order must not matter to search results: in a third of the worlds the files, chunks and
	// directories arrive AFTER the permanodes and claims that reference them (out-of-order indexing), and
	// the corpus orderings are read while the world is being built (see Build), so that an ordering or
	// candidate cache that is not refreshed by a late dependency shows up as a wrong search result.
	if rapid.IntRange(0, 2).Draw(t, "lateContent") == 0 {
		LateContent(w)
		w.WarmDuringBuild = true
	}
	return w
}

// LateContent moves every blob that is neither a public key, a permanode nor a claim behind the claims.
func LateContent(w *World) {
	var head, tail []string
	for _, rs := range w.Order {
		b := w.Blobs[rs]
		if b.Claim != nil || b.Type == "permanode" || b.Type == "" && len(head) == 0 {
			head = append(head, rs)
		} else if b.Type == "file" || b.Type == "directory" || b.Type == "static-set" || b.Type == "bytes" || b.Type == "" {
			tail = append(tail, rs)
		} else {
			head = append(head, rs)
		}
	}
	w.SetOrder(append(head, tail...))
}

// GenFile adds one file.
func GenFile(t *rapid.T, w *World) *File {
	k := rapid.SampledFrom(fileKinds).Draw(t, "fileKind")
	name := rapid.SampledFrom(FileNames).Draw(t, "fileName")
	n := rapid.SampledFrom([]int{0, 1, 5, 17, 300, 1100, 2500}).Draw(t, "fillerLen")
	seed := rapid.IntRange(0, 3).Draw(t, "fillerSeed")
	if k.magic != "" && n == 0 {
		n = 1 // the sniffer needs at least one byte after the magic number
	}
	content := k.magic + filler(seed, n, k.text)
	m := k.mime
	if m == "" {
		var ok bool
		m, ok = extMime[extOf(name)]
		if !ok {
			panic("vsearchworld: extension without MIME table entry: " + name)
		}
	}
	var mtime time.Time
	if rapid.IntRange(0, 2).Draw(t, "hasMtime") == 0 {
		mtime = rapid.SampledFrom(DatePool).Draw(t, "mtime")
	}
	var chunks []int
	if len(content) > 20 && rapid.Bool().Draw(t, "multiChunk") {
		chunks = []int{rapid.IntRange(1, len(content)-1).Draw(t, "chunk0")}
		if rapid.Bool().Draw(t, "threeChunks") {
			chunks = append(chunks, rapid.IntRange(1, 10).Draw(t, "chunk1"))
		}
	}
	return w.AddFile(name, content, m, mtime, chunks)
}

// anyRef draws the ref of some blob a claim value may point at.
func anyRef(t *rapid.T, w *World, self *Perm) string {
	var cands []string
	for _, p := range w.Perms {
		cands = append(cands, p.RefS)
	}
	for _, f := range w.Files {
		cands = append(cands, f.RefS)
	}
	for _, d := range w.Dirs {
		cands = append(cands, d.RefS)
	}
	return rapid.SampledFrom(cands).Draw(t, "target")
}

func permRef(t *rapid.T, w *World) string {
	return rapid.SampledFrom(w.Perms).Draw(t, "targetPerm").RefS
}

func has(vals []string, v string) bool {
	for _, x := range vals {
		if x == v {
			return true
		}
	}
	return false
}

// GenClaims draws 1..max claims for p, in date order, each valid in the state
// reached so far: no empty values, no add of a value already present, del only
// of present values/attributes; camliContent and dateCreated are only ever set
// (at most one of the two per permanode); edge values name indexed blobs, are not refs at all, or (camliMember only) are DanglingRef.
func GenClaims(t *rapid.T, w *World, p *Perm, max int) {
	n := rapid.IntRange(1, max).Draw(t, "nClaims")
	// n distinct dates from the pool, ascending
	idx := rapid.Permutation(indices(len(DatePool))).Draw(t, "dates")[:min(n, len(DatePool))]
	dates := make([]time.Time, len(idx))
	for i, ix := range idx {
		dates[i] = DatePool[ix]
	}
	sortTimes(dates)
	state := map[string][]string{}
	edgeSeen := map[string][]string{} // edge attribute -> every target it ever had (also overwritten/removed ones)
	timeSource := ""                  // "dateCreated" or "camliContent"
	// Targeted shape "moved edge": the last three claims make a node reachable through an edge attribute
	// that was since overwritten (stale claim) and, later, through a different edge attribute (valid
	// claim). A relation constraint without edgeType has to look past the stale claim.
	var script []time.Time
	if len(dates) >= 4 && rapid.IntRange(0, 3).Draw(t, "movedEdge") == 0 {
		script = dates[len(dates)-3:]
		dates = dates[:len(dates)-3]
	}
	defer func() {
		if script == nil {
			return
		}
		c, d2 := anyRef(t, w, p), anyRef(t, w, p)
		if c == d2 {
			return
		}
		second := "camliMember"
		if has(state["camliMember"], c) {
			second = "camliPath:y"
		}
		w.AddClaim(p, script[0], "set-attribute", "camliPath:x", c)
		w.AddClaim(p, script[1], "set-attribute", "camliPath:x", d2)
		if second == "camliMember" {
			w.AddClaim(p, script[2], "add-attribute", second, c)
		} else {
			w.AddClaim(p, script[2], "set-attribute", second, c)
		}
	}()
	for _, d := range dates {
		var kind, attr, val string
		for tries := 0; ; tries++ {
			kind, attr, val = "", "", ""
			switch rapid.IntRange(0, 15).Draw(t, "claimClass") {
			case 14, 15: // a location, one coordinate per claim (the map sort spreads results that have one)
				kind = "set-attribute"
				switch {
				case len(state["latitude"]) == 0:
					attr, val = "latitude", rapid.SampledFrom([]string{"10.5", "-33.25", "48"}).Draw(t, "lat")
				case len(state["longitude"]) == 0:
					attr, val = "longitude", rapid.SampledFrom([]string{"20.5", "151", "2.25"}).Draw(t, "long")
				default:
					attr, val = "latitude", rapid.SampledFrom([]string{"10.5", "-33.25", "48", "11"}).Draw(t, "lat2")
				}
			case 0, 1: // node type
				kind, attr, val = "set-attribute", "camliNodeType", rapid.SampledFrom(NodeTypes).Draw(t, "nodeType")
				if !has(state[attr], val) && rapid.IntRange(0, 2).Draw(t, "nodeTypeAdded") == 0 {
					kind = "add-attribute" // a type given (or a second type added) with add-attribute
				}
			case 2, 3: // tag add
				attr, val = "tag", rapid.SampledFrom(Tags).Draw(t, "tag")
				kind = "add-attribute"
				if has(state[attr], val) {
					kind = "del-attribute"
				}
			case 4: // title set
				kind, attr, val = "set-attribute", "title", rapid.SampledFrom(Titles).Draw(t, "title")
			case 5: // num
				attr, val = "num", rapid.SampledFrom(Nums).Draw(t, "num")
				if rapid.Bool().Draw(t, "numSet") {
					kind = "set-attribute"
				} else if !has(state[attr], val) {
					kind = "add-attribute"
				} else {
					kind = "del-attribute"
				}
			case 6, 7: // member edge
				attr, val = "camliMember", anyRef(t, w, p)
				if tg := otherEdgeTargets(state, edgeSeen, attr); len(tg) > 0 && rapid.Bool().Draw(t, "memberReusesPathTarget") {
					val = rapid.SampledFrom(tg).Draw(t, "reusedTarget") // the same node reached through a second edge attribute
				}
				kind = "add-attribute"
				if len(state[attr]) > 0 && rapid.IntRange(0, 2).Draw(t, "dropMember") == 0 {
					val = rapid.SampledFrom(state[attr]).Draw(t, "memberToDrop") // an edge that existed once
				}
				if has(state[attr], val) {
					kind = "del-attribute"
				}
			case 8: // path edge
				kind, attr = "set-attribute", rapid.SampledFrom(PathAttrs).Draw(t, "pathAttr")
				val = anyRef(t, w, p)
				if tg := otherEdgeTargets(state, edgeSeen, attr); len(tg) > 0 && rapid.Bool().Draw(t, "pathReusesEdgeTarget") {
					val = rapid.SampledFrom(tg).Draw(t, "reusedTarget") // the same node reached through a second edge attribute
				}
			case 9: // content
				if timeSource == "dateCreated" {
					continue
				}
				kind, attr, val = "set-attribute", "camliContent", anyRef(t, w, p)
				if len(w.Files) > 0 && rapid.Bool().Draw(t, "contentIsFile") {
					val = rapid.SampledFrom(w.Files).Draw(t, "contentFile").RefS
				}
			case 10: // explicit creation date
				if timeSource == "camliContent" {
					continue
				}
				kind, attr = "set-attribute", "dateCreated"
				val = rapid.SampledFrom(DatePool).Draw(t, "dateCreated").In(rapid.SampledFrom(Zones).Draw(t, "zone")).Format(time.RFC3339Nano)
			case 11: // visibility
				kind, attr, val = "set-attribute", "camliDefVis", rapid.SampledFrom([]string{"hide", "show"}).Draw(t, "defVis")
			case 12: // delete a whole attribute that currently has values
				var present []string
				for _, a := range []string{"tag", "num", "camliMember", "title", "camliNodeType", "camliDefVis", "camliPath:x", "camliPath:y"} {
					if len(state[a]) > 0 {
						present = append(present, a)
					}
				}
				if len(present) == 0 {
					continue
				}
				kind, attr, val = "del-attribute", rapid.SampledFrom(present).Draw(t, "delAttr"), ""
			case 13: // tag referencing a ref-like string that is not a blob, or a plain string as member
				kind, attr, val = "add-attribute", "camliMember", "not-a-ref"
				if rapid.IntRange(0, 2).Draw(t, "dangling") == 0 {
					val = DanglingRef // a member this server never received
				}
				if has(state[attr], val) {
					kind = "del-attribute"
				}
			}
			if kind != "" || tries > 20 {
				break
			}
		}
		if kind == "" {
			kind, attr, val = "set-attribute", "title", "Alpha"
		}
		if attr == "camliContent" || attr == "dateCreated" {
			timeSource = attr
		}
		w.AddClaim(p, d, kind, attr, val)
		if (attr == "camliMember" || strings.HasPrefix(attr, "camliPath:")) && kind != "del-attribute" && val != "" {
			edgeSeen[attr] = append(edgeSeen[attr], val)
		}
		state = p.AttrsAt(time.Time{})
	}
}

// otherEdgeTargets lists the targets this permanode ever had under an edge attribute other than attr
// (current or since overwritten/removed): drawing one of them makes a node reachable through two edge
// attributes, one of which may be stale.
func otherEdgeTargets(state, seen map[string][]string, attr string) []string {
	var out []string
	var attrs []string
	for a := range seen {
		attrs = append(attrs, a)
	}
	sort.Strings(attrs)
	for _, a := range attrs {
		if a == attr {
			continue
		}
		for _, v := range seen[a] {
			if !has(out, v) {
				out = append(out, v)
			}
		}
	}
	return out
}

// ShuffleClaims permutes the upload order of the claim blobs (all other blobs keep their place before them).
func ShuffleClaims(t *rapid.T, w *World) {
	var head, claims []string
	for _, rs := range w.Order {
		if w.Blobs[rs].Claim != nil {
			claims = append(claims, rs)
		} else {
			head = append(head, rs)
		}
	}
	if len(claims) > 1 {
		claims = rapid.Permutation(claims).Draw(t, "claimOrder")
	}
	w.SetOrder(append(head, claims...))
}

func indices(n int) []int {
	out := make([]int, n)
	for i := range out {
		out[i] = i
	}
	return out
}

func sortTimes(ts []time.Time) {
	for i := 1; i < len(ts); i++ {
		for j := i; j > 0 && ts[j].Before(ts[j-1]); j-- {
			ts[j], ts[j-1] = ts[j-1], ts[j]
		}
	}
}
