module verifharness

go 1.25.3

require (
	github.com/anishathalye/porcupine v1.3.0
	perkeep.org v0.0.0
	pgregory.net/rapid v1.3.0
)

require (
	cloud.google.com/go/compute/metadata v0.3.0 // indirect
	github.com/bradfitz/latlong v0.0.0-20170410180902-f3db6d0dff40 // indirect
	github.com/rwcarlsen/goexif v0.0.0-20190401172101-9e8deecbddbd // indirect
	go4.org v0.0.0-20230225012048-214862532bf5 // indirect
	golang.org/x/crypto v0.38.0 // indirect
)

replace perkeep.org => /repo
