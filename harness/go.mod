module verifharness

go 1.25.3

require (
	github.com/anishathalye/porcupine v1.3.0
	perkeep.org v0.0.0
	pgregory.net/rapid v1.3.0
)

replace perkeep.org => /repo
