// C07 — permanode attributes and deletions follow the documented claim semantics.
package c07

import (
	"context"
	"encoding/json"
	"fmt"
	"net/http/httptest"
	"sort"
	"strconv"
	"strings"
	"testing"
	"time"

	"go4.org/types"
	"perkeep.org/pkg/blob"
	"perkeep.org/pkg/index"
	"perkeep.org/pkg/search"
	"perkeep.org/pkg/types/camtypes"
	"pgregory.net/rapid"

	"verifharness/internal/evid"
	"verifharness/internal/known"
	"verifharness/internal/vworld"
)

const prop = "C07"

var ctxbg = context.Background()

func TestMain(m *testing.M) {
	evid.Main(m, prop, "exploration",
		"a case = (generated claim world, sequential arrival schedule). World: 1-2 signers, 1-2 permanodes, 0-12 set/add/del-attribute claims over a small attribute/value pool (values needing URL escaping, empty values, repeats, latitude/longitude), "+
			"claim dates pairwise distinct per permanode (whole seconds, sub-second with 1..9 digits, pre-1970), delete claims on permanodes, attribute claims and delete claims (undelete chains <= 4); arrival order independent of date order, optional duplicate deliveries. "+
			"Reference written from doc/schema/permanode.md + delete.md: deleted(x) iff some delete claim targeting x is itself not deleted; values(pn, attr, T, signer) = fold in date order of that signer's non-deleted claims dated <= T. The docs leave two points open (does add-attribute of a present value add a duplicate; is the empty string a value), "+
			"so the reference is evaluated under all 4 readings and a path is faulted only if no single reading explains all of its answers of the case. Paths: (1) index without corpus: AppendClaims x signer/attr filters (claim set + fold), Index.IsDeleted, search.Handler.Describe at T (Attr, and Location derived from latitude/longitude); "+
			"(2) corpus built incrementally and (3) corpus loaded by a fresh index over the rows: PermanodeAttrValue, AppendPermanodeAttrValues, PermanodeHasAttrValue, AppendClaims, IsDeleted, PermanodeModtime. T in {zero, before all, each claim date, +-1ns, midpoints, after all}; signer filter in {none, each signer, unknown}. "+
			"non-trivial = world with >= 3 claims on one (permanode, attribute) that arrive in an order different from date order, or >= 1 deleted attribute claim, or >= 2 dated claims on a permanode (so that query times strictly between two claim dates exist); distinct = FNV-64 of (world hash, schedule)")
}

var worldCfg = vworld.Config{
	MaxPermanodes: 2, MaxAttrClaims: 12, MaxDeletes: 7, MaxChain: 4,
	TwoSigners: true, RefValues: false,
	Attrs:  []string{"tag", "tag", "title", "x|y", "latitude", "longitude", "r&d+q a", "étiquette", "标签2"},
	Values: []string{"a", "a", "b", "", "a|b", "50% off", "sp ace", "ünï-✓"},
}

// ---- reference ----

type reading struct{ set, dropEmpty bool }

var readings = []reading{{false, false}, {false, true}, {true, false}, {true, true}}

func (r reading) String() string {
	s := "add-appends-duplicates"
	if r.set {
		s = "add-skips-present-value"
	}
	if r.dropEmpty {
		return s + "/empty-is-no-value"
	}
	return s + "/empty-is-a-value"
}

// fold applies claims (already selected and in date order) for attr.
func fold(w *vworld.World, claims []int, attr string, r reading) []string {
	var v []string
	for _, ci := range claims {
		c := w.Blobs[ci].Claim
		if c.Attr != attr {
			continue
		}
		switch c.Type {
		case "del-attribute":
			if c.Value == "" {
				v = v[:0]
			} else {
				n := v[:0]
				for _, x := range v {
					if x != c.Value {
						n = append(n, x)
					}
				}
				v = n
			}
		case "set-attribute":
			v = v[:0]
			fallthrough
		case "add-attribute":
			if c.Value == "" && r.dropEmpty {
				continue
			}
			if r.set {
				dup := false
				for _, x := range v {
					if x == c.Value {
						dup = true
					}
				}
				if dup {
					continue
				}
			}
			v = append(v, c.Value)
		}
	}
	return v
}

type model struct {
	w       *vworld.World
	deleted map[int]bool
}

func newModel(w *vworld.World) *model {
	m := &model{w: w, deleted: map[int]bool{}}
	all := func(int) bool { return true }
	for _, b := range w.Blobs {
		if b.Kind == vworld.KPermanode || b.Claim != nil {
			m.deleted[b.I] = w.Deleted(b.I, all)
		}
	}
	return m
}

// sel returns the attribute claims on pn in date order, dated <= at (zero: all),
// signed by keyID ("" = anyone), including deleted ones or not.
func (m *model) sel(pn int, keyID string, at time.Time, includeDeleted bool) []int {
	var out []int
	for _, ci := range m.w.ClaimsOn(pn) {
		b := m.w.Blobs[ci]
		if !includeDeleted && m.deleted[ci] {
			continue
		}
		if keyID != "" && m.w.Ids[b.Signer].KeyID != keyID {
			continue
		}
		if !at.IsZero() && b.Claim.Date.After(at) {
			continue
		}
		out = append(out, ci)
	}
	return out
}

func (m *model) tainted(pn int, attr string) bool {
	for _, ci := range m.w.ClaimsOn(pn) {
		if m.deleted[ci] && m.w.Blobs[ci].Claim.Attr == attr {
			return true
		}
	}
	return false
}

func eqStrings(a, b []string) bool {
	if len(a) != len(b) {
		return false
	}
	for i := range a {
		if a[i] != b[i] {
			return false
		}
	}
	return true
}

func first(v []string) string {
	if len(v) == 0 {
		return ""
	}
	return v[0]
}

func contains(v []string, s string) bool {
	for _, x := range v {
		if x == s {
			return true
		}
	}
	return false
}

// judge collects the verdicts for one path.
type judge struct {
	path       string
	consistent []reading // readings that explain every untainted answer so far
	violations []string
	knownHits  []string
	divergent  bool // some answer was explained by only a strict subset of the readings
}

func newJudge(path string) *judge {
	return &judge{path: path, consistent: append([]reading(nil), readings...)}
}

// check: match(claims, reading) says whether the observed answer equals the
// reference over that claim selection under that reading.
func (j *judge) check(m *model, what string, pn int, attr, keyID string, at time.Time, corpusPath bool, got string, match func(claims []int, r reading) bool) {
	nd := m.sel(pn, keyID, at, false)
	tainted := corpusPath && m.tainted(pn, attr)
	if !tainted {
		var keep []reading
		for _, r := range j.consistent {
			if match(nd, r) {
				keep = append(keep, r)
			}
		}
		if len(keep) > 0 {
			if len(keep) < len(j.consistent) {
				j.divergent = true
			}
			j.consistent = keep
			return
		}
		var exp []string
		for _, r := range readings {
			exp = append(exp, fmt.Sprintf("%s => %q", r, fold(m.w, nd, attr, r)))
		}
		j.violations = append(j.violations, fmt.Sprintf("%s: %s = %s; no reading consistent with this path's other answers (%v) explains it; reference over non-deleted claims %v: %s", j.path, what, got, j.consistent, labels(m.w, nd), strings.Join(exp, "; ")))
		return
	}
	for _, r := range readings {
		if match(nd, r) {
			return
		}
	}
	all := m.sel(pn, keyID, at, true)
	for _, r := range readings {
		if match(all, r) {
			j.knownHits = append(j.knownHits, fmt.Sprintf("%s: %s = %s equals the fold over all claims including deleted ones %q (claims %v), not the fold over non-deleted claims %q (claims %v)", j.path, what, got, fold(m.w, all, attr, r), labels(m.w, all), fold(m.w, nd, attr, r), labels(m.w, nd)))
			return
		}
	}
	j.violations = append(j.violations, fmt.Sprintf("%s: %s = %s matches neither the fold over non-deleted claims %v nor the fold over all claims %v under any reading", j.path, what, got, labels(m.w, nd), labels(m.w, all)))
}

func labels(w *vworld.World, claims []int) []string {
	var out []string
	for _, c := range claims {
		out = append(out, w.Blobs[c].Label)
	}
	return out
}

// ---- query times ----

func queryTimes(w *vworld.World, pn int) []time.Time {
	var dates []time.Time
	for _, b := range w.Blobs {
		if b.Claim != nil && (b.Claim.Permanode == pn || b.Claim.Target == pn) {
			dates = append(dates, b.Claim.Date)
		}
	}
	sort.Slice(dates, func(i, j int) bool { return dates[i].Before(dates[j]) })
	seen := map[int64]bool{}
	out := []time.Time{{}}
	add := func(t time.Time) {
		if !seen[t.UnixNano()] {
			seen[t.UnixNano()] = true
			out = append(out, t)
		}
	}
	if len(dates) == 0 {
		add(time.Date(2000, 1, 1, 0, 0, 0, 0, time.UTC))
		return out
	}
	add(dates[0].Add(-time.Second))
	for i, d := range dates {
		add(d.Add(-time.Nanosecond))
		add(d)
		add(d.Add(time.Nanosecond))
		if i+1 < len(dates) {
			add(d.Add(dates[i+1].Sub(d) / 2))
		}
	}
	add(dates[len(dates)-1].Add(time.Second))
	return out
}

func tstr(t time.Time) string {
	if t.IsZero() {
		return "zero"
	}
	return t.UTC().Format(time.RFC3339Nano)
}

// ---- running ----

func runSchedule(t *rapid.T, w *vworld.World, ev []vworld.Event, withCorpus bool) (*vworld.Env, *index.Corpus) {
	e, err := vworld.NewEnv(w, nil, nil)
	if err != nil {
		t.Fatalf("C07 infrastructure: %v", err)
	}
	var c *index.Corpus
	if withCorpus {
		if c, err = e.Ix.KeepInMemory(); err != nil {
			t.Fatalf("C07 infrastructure: %v", err)
		}
	}
	for _, x := range ev {
		if x.Op == 'S' {
			e.Store(x.I)
			continue
		}
		if err := e.Deliver(x.I); err != nil {
			t.Fatalf("C07 violated: ReceiveBlob(%s): %v", w.Blobs[x.I].Label, err)
		}
		e.Await()
	}
	e.Await()
	return e, c
}

func claimKey(c *camtypes.Claim) string {
	return fmt.Sprintf("%s|%s|%s|%s|%q|%q|%s", c.BlobRef, c.Signer, c.Permanode, c.Date.UTC().Format(time.RFC3339Nano), c.Type, c.Attr+"="+c.Value, "")
}

// expectedClaims: the non-deleted claim rows of pn per the model (attribute
// claims, and delete claims that target the permanode itself).
func expectedClaims(m *model, pn int, keyID, attrFilter string) []string {
	w := m.w
	var out []string
	for _, b := range w.Blobs {
		if b.Claim == nil || m.deleted[b.I] {
			continue
		}
		var c camtypes.Claim
		switch {
		case b.Kind == vworld.KAttr && b.Claim.Permanode == pn:
			c = camtypes.Claim{Type: b.Claim.Type, Attr: b.Claim.Attr, Value: b.Claim.Value}
		case b.Kind == vworld.KDelete && b.Claim.Target == pn:
			c = camtypes.Claim{Type: "delete"}
		default:
			continue
		}
		if keyID != "" && w.Ids[b.Signer].KeyID != keyID {
			continue
		}
		if attrFilter != "" && c.Attr != attrFilter {
			continue
		}
		c.BlobRef, c.Signer, c.Permanode, c.Date = b.Ref, w.Ids[b.Signer].Ref, w.Blobs[pn].Ref, b.Claim.Date
		out = append(out, claimKey(&c))
	}
	sort.Strings(out)
	return out
}

func nonTrivial(w *vworld.World, m *model, ev []vworld.Event) (bool, []string) {
	var why []string
	arrival := map[int]int{}
	for k, e := range ev {
		if e.Op == 'X' {
			if _, ok := arrival[e.I]; !ok {
				arrival[e.I] = k
			}
		}
	}
	for _, pn := range w.Permanodes() {
		cl := w.ClaimsOn(pn)
		if len(cl) >= 2 {
			why = append(why, "between-times")
		}
		byAttr := map[string][]int{}
		for _, ci := range cl {
			byAttr[w.Blobs[ci].Claim.Attr] = append(byAttr[w.Blobs[ci].Claim.Attr], ci)
			if m.deleted[ci] {
				why = append(why, "deleted-attribute-claim")
			}
		}
		for _, cs := range byAttr {
			if len(cs) >= 3 {
				for i := 1; i < len(cs); i++ {
					if arrival[cs[i]] < arrival[cs[i-1]] {
						why = append(why, "3+claims-arrival!=date-order")
						break
					}
				}
			}
		}
	}
	return len(why) > 0, why
}

const knownID = "C07-corpus-attr-ignores-deleted-claims"

func TestAttrAndDeletionSemantics(t *testing.T) {
	evid.Check(t, 900, 8000, func(t *rapid.T) {
		cfg := worldCfg
		switch rapid.IntRange(0, 4).Draw(t, "pool") {
		case 4: // two signers interleaving add/del claims on one multi-valued attribute of one permanode
			cfg.ForceTwoSigners = true
			cfg.MaxPermanodes = 1
			cfg.MaxDeletes = 2
			cfg.Attrs = []string{"tag"}
			cfg.Values = []string{"a", "b", "c", "d"}
		case 0: // few attributes, dates within one or two seconds: many claims per attribute, fractional dates
			cfg.Attrs = []string{"tag", "title"}
			cfg.DateSpread = rapid.IntRange(1, 2).Draw(t, "spread")
		case 1: // coordinates (Describe derives Location from them)
			cfg.Attrs = []string{"latitude", "latitude", "longitude", "tag"}
			cfg.DateSpread = rapid.IntRange(1, 3).Draw(t, "spread")
		}
		w := vworld.Draw(t, cfg)
		arriving := w.Arriving()
		ev, class := vworld.DrawSequential(t, w, arriving, true)
		m := newModel(w)
		evid.R.Eval()
		evid.R.Label("schedule/" + class)
		nt, why := nonTrivial(w, m, ev)
		seenWhy := map[string]bool{}
		var uniqWhy []string
		for _, y := range why {
			if !seenWhy[y] {
				seenWhy[y] = true
				uniqWhy = append(uniqWhy, y)
				evid.R.Label("nontrivial/" + y)
			}
		}
		why = uniqWhy
		if nt {
			evid.R.NonTrivial(evid.Hash(w.Hash(), vworld.SeqString(ev)))
		}
		if evid.R.WantSample(nt) {
			evid.R.Sample(nt, map[string]any{"world": w.Summary(), "schedule": vworld.SeqString(ev), "nontrivial_because": why})
		}
		undel := false
		for _, b := range w.Blobs {
			if b.Kind == vworld.KDelete && w.Blobs[b.Claim.Target].Kind == vworld.KDelete {
				undel = true
			}
		}
		if undel {
			evid.R.Label("world/undelete-chain")
		}
		if len(w.Ids) > 1 {
			evid.R.Label("world/two-signers")
		}

		e1, _ := runSchedule(t, w, ev, false)
		e2, c2 := runSchedule(t, w, ev, true)
		defer e1.Release()
		defer e2.Release()
		rows1, _ := vworld.Dump(e1.KV)
		rows2, _ := vworld.Dump(e2.KV)
		if d := vworld.DiffRows(rows1, rows2, "index-without-corpus", "index-with-corpus"); d != "" {
			t.Fatalf("C07 violated: rows written with and without a corpus differ:\n%s", d)
		}
		kv3, err := vworld.CopyKV(e2.KV)
		if err != nil {
			t.Fatalf("C07 infrastructure: %v", err)
		}
		ix3, err := index.New(kv3)
		if err != nil {
			t.Fatalf("C07 violated: index.New over the rows: %v", err)
		}
		c3, err := ix3.KeepInMemory()
		if err != nil {
			t.Fatalf("C07 violated: KeepInMemory over the rows: %v", err)
		}

		ctx := func() string {
			return fmt.Sprintf("\nschedule: %s\nworld:\n%s", vworld.SeqString(ev), strings.Join(w.Summary(), "\n"))
		}
		var violations, knownHits []string

		// ---- deletion status: three paths vs the recursive rule ----
		for _, b := range w.Blobs {
			if b.Kind != vworld.KPermanode && b.Claim == nil {
				continue
			}
			want := m.deleted[b.I]
			if got := e1.Ix.IsDeleted(b.Ref); got != want {
				violations = append(violations, fmt.Sprintf("rows: Index.IsDeleted(%s) = %v, reference says %v", b.Label, got, want))
			}
			e2.Ix.RLock()
			got2 := c2.IsDeleted(b.Ref)
			e2.Ix.RUnlock()
			ix3.RLock()
			got3 := c3.IsDeleted(b.Ref)
			ix3.RUnlock()
			if got2 != want {
				violations = append(violations, fmt.Sprintf("corpus-incremental: Corpus.IsDeleted(%s) = %v, reference says %v", b.Label, got2, want))
			}
			if got3 != want {
				violations = append(violations, fmt.Sprintf("corpus-loaded: Corpus.IsDeleted(%s) = %v, reference says %v", b.Label, got3, want))
			}
			if got := ix3.IsDeleted(b.Ref); got != want {
				violations = append(violations, fmt.Sprintf("reopened index: Index.IsDeleted(%s) = %v, reference says %v", b.Label, got, want))
			}
		}

		signers := []string{""}
		for _, id := range w.Ids {
			signers = append(signers, id.KeyID)
		}
		signers = append(signers, "FFFFFFFFFFFFFFFF")

		jRows := newJudge("rows/AppendClaims-folded")
		jDesc := newJudge("rows/Describe")
		jC2 := newJudge("corpus-incremental")
		jC3 := newJudge("corpus-loaded")

		owner := rapid.IntRange(0, len(w.Ids)-1).Draw(t, "describeOwner")
		sh := search.NewHandler(e1.Ix, index.NewOwner(w.Ids[owner].KeyID, w.Ids[owner].Ref))

		nq := 0
		for _, pn := range w.Permanodes() {
			pref := w.Blobs[pn].Ref
			attrs, vals := w.AttrsOn(pn)
			times := queryTimes(w, pn)

			// the claims request as pkg/client sends it (ClaimsRequest.URLSuffix, GET camli/search/claims) must
			// select the same claims as the same request made in-process, for attribute names of any bytes
			for _, af := range append([]string{""}, attrs...) {
				creq := &search.ClaimsRequest{Permanode: pref, AttrFilter: af}
				inproc, err := sh.GetClaims(creq)
				if err != nil {
					violations = append(violations, fmt.Sprintf("rows/GetClaims(P%d, attr=%q): %v", pn, af, err))
					continue
				}
				hreq := httptest.NewRequest("GET", "http://verif.invalid/my-search/"+creq.URLSuffix(), nil)
				hreq.Header.Set("X-Prefixhandler-Pathsuffix", "camli/search/claims") // httputil.PathSuffixHeader
				rec := httptest.NewRecorder()
				sh.ServeHTTP(rec, hreq)
				var hres search.ClaimsResponse
				if rec.Code != 200 || json.Unmarshal(rec.Body.Bytes(), &hres) != nil {
					violations = append(violations, fmt.Sprintf("rows/claims over HTTP (P%d, attr=%q): HTTP %d %.200q", pn, af, rec.Code, rec.Body.String()))
					continue
				}
				var a, b []string
				for _, c := range inproc.Claims {
					a = append(a, c.BlobRef.String())
				}
				for _, c := range hres.Claims {
					b = append(b, c.BlobRef.String())
				}
				sort.Strings(a)
				sort.Strings(b)
				nq++
				if !eqStrings(a, b) {
					violations = append(violations, fmt.Sprintf("rows/claims over HTTP: GET %s selects %d claims %v; the same request in-process selects %d claims %v", creq.URLSuffix(), len(b), b, len(a), a))
				}
			}
			// AppendClaims on all three paths: exactly the non-deleted claims
			for _, sg := range signers {
				for _, af := range append([]string{""}, attrs...) {
					want := expectedClaims(m, pn, sg, af)
					for pi, p := range []struct {
						name string
						ix   *index.Index
					}{{"rows", e1.Ix}, {"corpus-incremental", e2.Ix}, {"corpus-loaded", ix3}} {
						p.ix.RLock()
						cls, err := p.ix.AppendClaims(ctxbg, nil, pref, sg, af)
						p.ix.RUnlock()
						var got []string
						for i := range cls {
							got = append(got, claimKey(&cls[i]))
						}
						sort.Strings(got)
						nq++
						if err != nil || !eqStrings(got, want) {
							violations = append(violations, fmt.Sprintf("%s: AppendClaims(P%d, signer=%q, attr=%q) err=%v returned\n  %v\nreference (non-deleted claims):\n  %v", p.name, pn, sg, af, err, got, want))
						}
						// the row path folded in date order
						if pi == 0 && af != "" {
							sort.Sort(camtypes.ClaimsByDate(cls))
							for _, at := range times {
								var sel []camtypes.Claim
								for _, c := range cls {
									if at.IsZero() || !c.Date.After(at) {
										sel = append(sel, c)
									}
								}
								gotV := foldReal(sel, af)
								jRows.check(m, fmt.Sprintf("fold(AppendClaims(P%d, signer=%q, attr=%q)) at %s", pn, sg, af, tstr(at)), pn, af, sg, at, false, fmt.Sprintf("%q", gotV),
									func(claims []int, r reading) bool { return r == readings[0] && eqStrings(fold(w, claims, af, r), gotV) })
							}
						}
					}
				}
			}

			for _, at := range times {
				// Describe (row path), owner's claims
				if at.IsZero() || at.Unix() != 0 {
					res, err := sh.Describe(ctxbg, &search.DescribeRequest{BlobRef: pref, At: types.Time3339(at)})
					if err != nil {
						violations = append(violations, fmt.Sprintf("rows/Describe(P%d at %s): %v", pn, tstr(at), err))
					} else if db := res.Meta[pref.String()]; db == nil || db.Permanode == nil {
						violations = append(violations, fmt.Sprintf("rows/Describe(P%d at %s): permanode not described", pn, tstr(at)))
					} else {
						for _, a := range attrs {
							gotV := []string(db.Permanode.Attr[a])
							nq++
							jDesc.check(m, fmt.Sprintf("Describe(P%d at %s).Attr[%q] (owner %s)", pn, tstr(at), a, w.Ids[owner].Name), pn, a, w.Ids[owner].KeyID, at, false, fmt.Sprintf("%q", gotV),
								func(claims []int, r reading) bool { return eqStrings(fold(w, claims, a, r), gotV) })
						}
						// Location derives from the first latitude / longitude value
						nd := m.sel(pn, w.Ids[owner].KeyID, at, false)
						lat, long := first(fold(w, nd, "latitude", readings[0])), first(fold(w, nd, "longitude", readings[0]))
						wantLoc := "none"
						if lat != "" && long != "" {
							la, _ := strconv.ParseFloat(lat, 64)
							lo, _ := strconv.ParseFloat(long, 64)
							wantLoc = fmt.Sprintf("%v,%v", la, lo)
						}
						gotLoc := "none"
						if db.Location != nil {
							gotLoc = fmt.Sprintf("%v,%v", db.Location.Latitude, db.Location.Longitude)
						}
						nq++
						if gotLoc != wantLoc {
							violations = append(violations, fmt.Sprintf("rows/Describe(P%d at %s).Location = %s but the owner's latitude/longitude values at that time are %q/%q (=> %s); Attr of the same response: lat=%q long=%q",
								pn, tstr(at), gotLoc, lat, long, wantLoc, db.Permanode.Attr["latitude"], db.Permanode.Attr["longitude"]))
						}
					}
				}
				// corpus paths
				for _, p := range []struct {
					j  *judge
					ix *index.Index
					c  *index.Corpus
				}{{jC2, e2.Ix, c2}, {jC3, ix3, c3}} {
					p.ix.RLock()
					for _, a := range attrs {
						for _, sg := range signers {
							gotVs := p.c.AppendPermanodeAttrValues(nil, pref, a, at, sg)
							gotV := p.c.PermanodeAttrValue(pref, a, at, sg)
							nq += 2
							p.j.check(m, fmt.Sprintf("AppendPermanodeAttrValues(P%d, %q, at %s, signer %q)", pn, a, tstr(at), sg), pn, a, sg, at, true, fmt.Sprintf("%q", gotVs),
								func(claims []int, r reading) bool { return eqStrings(fold(w, claims, a, r), gotVs) })
							p.j.check(m, fmt.Sprintf("PermanodeAttrValue(P%d, %q, at %s, signer %q)", pn, a, tstr(at), sg), pn, a, sg, at, true, fmt.Sprintf("%q", gotV),
								func(claims []int, r reading) bool { return first(fold(w, claims, a, r)) == gotV })
						}
						for _, v := range vals {
							got := p.c.PermanodeHasAttrValue(pref, at, a, v)
							nq++
							p.j.check(m, fmt.Sprintf("PermanodeHasAttrValue(P%d, at %s, %q, %q)", pn, tstr(at), a, v), pn, a, "", at, true, fmt.Sprint(got),
								func(claims []int, r reading) bool { return contains(fold(w, claims, a, r), v) == got })
						}
					}
					p.ix.RUnlock()
				}
			}

			// PermanodeModtime: latest date of a non-deleted claim of the permanode
			// (doc/schema/delete.md and the code disagree on whether a delete claim
			// targeting the permanode counts; both accepted); paths must agree.
			var mtA, mtB time.Time
			for _, b := range w.Blobs {
				if b.Claim == nil || m.deleted[b.I] {
					continue
				}
				if b.Kind == vworld.KAttr && b.Claim.Permanode == pn {
					if b.Claim.Date.After(mtA) {
						mtA = b.Claim.Date
					}
					if b.Claim.Date.After(mtB) {
						mtB = b.Claim.Date
					}
				}
				if b.Kind == vworld.KDelete && b.Claim.Target == pn && b.Claim.Date.After(mtB) {
					mtB = b.Claim.Date
				}
			}
			e2.Ix.RLock()
			mt2, ok2 := c2.PermanodeModtime(pref)
			e2.Ix.RUnlock()
			ix3.RLock()
			mt3, ok3 := c3.PermanodeModtime(pref)
			ix3.RUnlock()
			if !mt2.Equal(mt3) || ok2 != ok3 {
				violations = append(violations, fmt.Sprintf("PermanodeModtime(P%d): corpus-incremental %s,%v vs corpus-loaded %s,%v", pn, tstr(mt2), ok2, tstr(mt3), ok3))
			}
			if !(mt2.Equal(mtA) && ok2 == !mtA.IsZero()) && !(mt2.Equal(mtB) && ok2 == !mtB.IsZero()) {
				violations = append(violations, fmt.Sprintf("PermanodeModtime(P%d) = %s,%v; reference: latest non-deleted attribute claim %s (or %s counting delete claims on the permanode)", pn, tstr(mt2), ok2, tstr(mtA), tstr(mtB)))
			}
		}
		evid.R.LabelN("queries/answers-checked", nq)

		for _, j := range []*judge{jRows, jDesc, jC2, jC3} {
			violations = append(violations, j.violations...)
			knownHits = append(knownHits, j.knownHits...)
			if j.divergent {
				evid.R.Label("readings/" + j.path + " pinned to " + fmt.Sprint(j.consistent))
			}
		}
		if len(jDesc.consistent) > 0 && len(jC2.consistent) > 0 && !overlap(jDesc.consistent, jC2.consistent) {
			evid.R.Label("readings/describe-and-corpus-follow-different-readings (dup or empty values)")
		}
		if len(violations) > 0 {
			t.Fatalf("C07 violated (%d findings):\n%s%s", len(violations), strings.Join(head(violations, 6), "\n"), ctx())
		}
		if len(knownHits) > 0 {
			evid.R.Label("known/corpus-answers-that-count-deleted-claims")
			if !known.Hit(prop, knownID, knownHits[0]+ctx()) {
				t.Fatalf("C07 violated (%d answers): %s%s", len(knownHits), strings.Join(head(knownHits, 4), "\n"), ctx())
			}
		}
	})
}

func overlap(a, b []reading) bool {
	for _, x := range a {
		for _, y := range b {
			if x == y {
				return true
			}
		}
	}
	return false
}

func head(s []string, n int) []string {
	if len(s) > n {
		return append(s[:n:n], fmt.Sprintf("... and %d more", len(s)-n))
	}
	return s
}

// foldReal folds real claims (date order, one attribute) the way
// index.claimsIntfAttrValue documents it: duplicates appended, empty kept.
func foldReal(cls []camtypes.Claim, attr string) []string {
	var v []string
	for _, c := range cls {
		if c.Attr != attr {
			continue
		}
		switch c.Type {
		case "del-attribute":
			if c.Value == "" {
				v = v[:0]
			} else {
				n := v[:0]
				for _, x := range v {
					if x != c.Value {
						n = append(n, x)
					}
				}
				v = n
			}
		case "set-attribute":
			v = append(v[:0], c.Value)
		case "add-attribute":
			v = append(v, c.Value)
		}
	}
	return v
}

var _ = blob.Ref{}
