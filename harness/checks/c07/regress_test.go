package c07

// Plain (non-rapid) regression test of the shrunk generated case behind the fix:
// commit in pkg/index/location.go (row-path claims folded in row key order).

import (
	"testing"
	"time"

	"perkeep.org/pkg/index"
	"perkeep.org/pkg/schema"
	"perkeep.org/pkg/search"

	"verifharness/internal/evid"
	"verifharness/internal/vsign"
	"verifharness/internal/vworld"
)

func TestRegressDescribeLocationUsesDateOrder(t *testing.T) {
	if evid.Replaying() {
		t.Skip()
	}
	id := vsign.Test()
	pn := id.MustSign(schema.NewPlannedPermanode("regress-c07-location"), vworld.SigTime)
	t0 := time.Date(2011, 11, 28, 1, 32, 30, 0, time.UTC)
	long := id.MustSign(schema.NewSetAttributeClaim(pn.BlobRef(), "longitude", "1.5").SetClaimDate(t0.Add(-time.Second)), vworld.SigTime)
	lat1 := id.MustSign(schema.NewSetAttributeClaim(pn.BlobRef(), "latitude", "1.5").SetClaimDate(t0), vworld.SigTime)
	lat2 := id.MustSign(schema.NewSetAttributeClaim(pn.BlobRef(), "latitude", "-2.25").SetClaimDate(t0.Add(7*time.Nanosecond)), vworld.SigTime)
	w := &vworld.World{Withheld: map[int]bool{}, Ids: []*vsign.Identity{id}}
	for i, c := range []string{id.Armored, pn.Contents, long.Contents, lat1.Contents, lat2.Contents} {
		b := &vworld.Blob{I: i, Contents: c}
		b.Ref = b.TB().BlobRef()
		w.Blobs = append(w.Blobs, b)
	}
	e, err := vworld.NewEnv(w, nil, nil)
	if err != nil {
		t.Fatal(err)
	}
	for i := range w.Blobs {
		e.Store(i)
		if err := e.Deliver(i); err != nil {
			t.Fatal(err)
		}
	}
	e.Await()
	sh := search.NewHandler(e.Ix, index.NewOwner(id.KeyID, id.Ref))
	res, err := sh.Describe(ctxbg, &search.DescribeRequest{BlobRef: pn.BlobRef()})
	if err != nil {
		t.Fatal(err)
	}
	db := res.Meta[pn.BlobRef().String()]
	if db == nil || db.Permanode == nil {
		t.Fatal("permanode not described")
	}
	if got := db.Permanode.Attr.Get("latitude"); got != "-2.25" {
		t.Fatalf("C07 violated: Describe Attr[latitude] = %q, want -2.25 (the newer claim)", got)
	}
	if db.Location == nil || db.Location.Latitude != -2.25 || db.Location.Longitude != 1.5 {
		t.Fatalf("C07 violated: Describe Location = %+v but the latitude/longitude attributes of the same response are -2.25/1.5 (claims dated :30Z and :30.000000007Z folded in row order instead of date order)", db.Location)
	}
}
