package c05

// Plain (non-rapid) regression tests of the shrunk generated cases behind the two
// fix: commits in pkg/index/receive.go (see known_findings.json, status "fixed").

import (
	"strings"
	"testing"
	"time"

	"perkeep.org/pkg/schema"

	"verifharness/internal/evid"
	"verifharness/internal/vsign"
	"verifharness/internal/vworld"
)

func handWorld(blobs ...*vworld.Blob) *vworld.World {
	w := &vworld.World{Withheld: map[int]bool{}, Ids: []*vsign.Identity{vsign.Test()}}
	for i, b := range blobs {
		b.I = i
		w.Blobs = append(w.Blobs, b)
	}
	return w
}

func rowsWithPrefix(t *testing.T, e *vworld.Env, prefix string) []string {
	rows, err := vworld.Dump(e.KV)
	if err != nil {
		t.Fatal(err)
	}
	var out []string
	for _, r := range rows {
		if strings.HasPrefix(r.K, prefix) {
			out = append(out, r.K)
		}
	}
	return out
}

// Shrunk case 1: a delete claim arrives before its target; the half-indexed
// delete claim must stay recorded as pending in the rows (missing|claim|target),
// so that an index restarted before the target arrives still applies the delete.
func TestRegressDeleteBeforeTargetSurvivesRestart(t *testing.T) {
	if evid.Replaying() {
		t.Skip()
	}
	id := vsign.Test()
	pn := id.MustSign(schema.NewPlannedPermanode("regress-c05-1"), vworld.SigTime)
	del := id.MustSign(schema.NewDeleteClaim(pn.BlobRef()).SetClaimDate(time.Date(2011, 11, 28, 1, 32, 40, 0, time.UTC)), vworld.SigTime)
	w := handWorld(
		&vworld.Blob{Kind: vworld.KKey, Contents: id.Armored, Ref: id.Ref},
		&vworld.Blob{Kind: vworld.KPermanode, Contents: pn.Contents, Ref: pn.BlobRef()},
		&vworld.Blob{Kind: vworld.KDelete, Contents: del.Contents, Ref: del.BlobRef()},
	)
	e, err := vworld.NewEnv(w, nil, nil)
	if err != nil {
		t.Fatal(err)
	}
	for _, i := range []int{0, 2} {
		e.Store(i)
		if err := e.Deliver(i); err != nil {
			t.Fatal(err)
		}
	}
	e.Await()
	want := "missing|" + del.BlobRef().String() + "|" + pn.BlobRef().String()
	if got := rowsWithPrefix(t, e, "missing|"); len(got) != 1 || got[0] != want {
		t.Errorf("C05 violated: delete claim waiting for its target: missing rows = %v, want [%s]", got, want)
	}
	if err := e.Restart(); err != nil {
		t.Fatal(err)
	}
	if n, _ := e.Ix.VerifPending(); n != 1 {
		t.Errorf("C05 violated: restarted index has %d pending blobs, want 1", n)
	}
	e.Store(1)
	if err := e.Deliver(1); err != nil {
		t.Fatal(err)
	}
	e.Await()
	if got := rowsWithPrefix(t, e, "deleted|"+pn.BlobRef().String()+"|"); len(got) != 1 {
		t.Fatalf("C05 violated: after restart + arrival of the target the delete claim was never applied; deleted rows = %v", got)
	}
	if got := rowsWithPrefix(t, e, "missing|"); len(got) != 0 {
		t.Fatalf("C05 violated: missing rows left: %v", got)
	}
}

// Shrunk case 2: a file arrives before both of its chunks; when the first chunk
// arrives the satisfied edge must be forgotten in the rows too, otherwise a
// restarted index reloads it as a need nothing will ever satisfy and the file is
// never indexed when the second chunk arrives.
func TestRegressSatisfiedMissingEdgeIsForgotten(t *testing.T) {
	if evid.Replaying() {
		t.Skip()
	}
	c1 := &vworld.Blob{Kind: vworld.KChunk, Contents: "ab"}
	c2 := &vworld.Blob{Kind: vworld.KChunk, Contents: "cd"}
	c1.Ref, c2.Ref = c1.TB().BlobRef(), c2.TB().BlobRef()
	fjs := "{\"camliVersion\": 1,\n  \"camliType\": \"file\",\n  \"fileName\": \"f.txt\",\n  \"parts\": [\n    {\"blobRef\": \"" + c1.Ref.String() + "\", \"size\": 2},\n    {\"blobRef\": \"" + c2.Ref.String() + "\", \"size\": 2}\n  ]\n}"
	f := &vworld.Blob{Kind: vworld.KFile, Contents: fjs}
	f.Ref = f.TB().BlobRef()
	w := handWorld(c1, c2, f)
	e, err := vworld.NewEnv(w, nil, nil)
	if err != nil {
		t.Fatal(err)
	}
	for _, i := range []int{2, 0} {
		e.Store(i)
		if err := e.Deliver(i); err != nil {
			t.Fatal(err)
		}
		e.Await()
	}
	want := "missing|" + f.Ref.String() + "|" + c2.Ref.String()
	if got := rowsWithPrefix(t, e, "missing|"); len(got) != 1 || got[0] != want {
		t.Errorf("C05 violated: file waiting for its second chunk only: missing rows = %v, want [%s]", got, want)
	}
	if err := e.Restart(); err != nil {
		t.Fatal(err)
	}
	e.Store(1)
	if err := e.Deliver(1); err != nil {
		t.Fatal(err)
	}
	e.Await()
	if got := rowsWithPrefix(t, e, "fileinfo|"+f.Ref.String()); len(got) != 1 {
		t.Fatalf("C05 violated: after restart + arrival of the last chunk the file was never indexed (fileinfo rows = %v, missing rows = %v)", got, rowsWithPrefix(t, e, "missing|"))
	}
}
