// C05 — the index is a function of the set of blobs, not of their arrival order.
package c05

import (
	"fmt"
	"sort"
	"strings"
	"sync"
	"testing"

	"perkeep.org/pkg/test"
	"pgregory.net/rapid"

	"verifharness/internal/evid"
	"verifharness/internal/vworld"
)

const prop = "C05"

func TestMain(m *testing.M) {
	evid.Main(m, prop, "exploration",
		"a case = (generated world, arrival schedule). World: 1-2 signer key blobs, 1-3 permanodes, set/add/del-attribute claims (camliPath:*, camliMember, camliContent, tag, title, values needing URL escaping), delete claims on permanodes/claims/delete claims (chains <= 4), "+
			"hand-built files with 0-3 levels of bytes blobs, directories with static sets, opaque blobs, optionally 1-2 withheld dependencies. Schedule: interleaving of storage arrivals S(b) and index deliveries X(b) with S(b) before X(b): "+
			"dependency/reverse/random order x coupled/storage-first/mixed storage, duplicates, an index restart (index.New over the same rows) at a drawn point, 2-4 concurrent delivering goroutines; all permutations for worlds of <= 6 blobs. "+
			"Oracle: after quiescence the full row dump equals the dump of dependency-order delivery and of Index.Reindex() into a fresh KV, VerifPending() equals the model's pending count, and rows computed from the harness's world model (have/meta/claim/deleted/recpn/signerkeyid/fileinfo/wholetofile/dirchild/missing, row counts per family) are present/absent as predicted. "+
			"non-trivial = schedule in which at least one blob is delivered to the index before one of its dependencies is available (fetch dependency not yet in storage, or delete target not yet delivered), decided by simulating the schedule; in a concurrent phase a delivery counts when its dependency is not made available by an earlier phase or earlier by the same goroutine (the interleaving then decides who comes first); distinct = FNV-64 of (world blob-set hash, schedule encoding)")
}

var worldCfg = vworld.Config{
	MaxPermanodes: 3, MaxAttrClaims: 6, MaxDeletes: 5, MaxChain: 4,
	MaxFiles: 2, MaxDirs: 1, MaxOpaque: 2, TwoSigners: true, Withhold: true, RefValues: true,
}

// ---- schedules ----

type event struct {
	Op byte // 'S' storage arrival, 'X' index delivery
	I  int
}

type phase struct {
	Workers [][]event
	Restart bool // restart the index after this phase (after quiescence)
}

type schedule struct {
	Class  string
	Phases []phase
	// Corpus: the index keeps its in-memory corpus (as under perkeepd's search handler); lookups made
	// while indexing (blob meta, deletions, signer ids) are then answered by the corpus, not by the rows.
	Corpus bool
	// PackedSource: the index reads blobs (signing keys, delete targets, file chunks, static sets) from a
	// blobpacked storage, as under the default server configuration, instead of a plain fetcher.
	PackedSource bool
}

func (s *schedule) String() string {
	var sb strings.Builder
	sb.WriteString(s.Class + ":")
	if s.Corpus {
		sb.WriteString("(with corpus)")
	}
	if s.PackedSource {
		sb.WriteString("(blob source: blobpacked)")
	}
	for _, p := range s.Phases {
		sb.WriteString("[")
		for wi, wk := range p.Workers {
			if wi > 0 {
				sb.WriteString(" || ")
			}
			for _, e := range wk {
				fmt.Fprintf(&sb, "%c%d ", e.Op, e.I)
			}
		}
		sb.WriteString("]")
		if p.Restart {
			sb.WriteString(" RESTART ")
		}
	}
	return sb.String()
}

// outOfOrder simulates the schedule and reports whether some delivery
// certainly happens before one of its dependencies is available.
func outOfOrder(w *vworld.World, s *schedule) bool {
	stored := map[int]bool{}
	delivered := map[int]bool{}
	ooo := false
	for _, p := range s.Phases {
		snapS, snapD := copySet(stored), copySet(delivered)
		for _, wk := range p.Workers {
			// what this worker can rely on: everything before the phase + its own earlier events
			ls, ld := copySet(snapS), copySet(snapD)
			for _, e := range wk {
				if e.Op == 'S' {
					ls[e.I] = true
					stored[e.I] = true
					continue
				}
				b := w.Blobs[e.I]
				if !delivered[e.I] || len(p.Workers) > 1 {
					for _, d := range b.FetchDeps {
						if !ls[d] {
							ooo = true
						}
					}
					if b.Kind == vworld.KDelete && !ld[b.Claim.Target] {
						ooo = true
					}
				}
				ld[e.I] = true
				delivered[e.I] = true
			}
		}
	}
	return ooo
}

func copySet(m map[int]bool) map[int]bool {
	o := make(map[int]bool, len(m))
	for k, v := range m {
		o[k] = v
	}
	return o
}

func coupled(order []int) []event {
	var ev []event
	for _, i := range order {
		ev = append(ev, event{'S', i}, event{'X', i})
	}
	return ev
}

func reverse(in []int) []int {
	out := make([]int, len(in))
	for i, v := range in {
		out[len(in)-1-i] = v
	}
	return out
}

// drawSchedule draws one schedule over the arriving blobs.
func drawSchedule(t *rapid.T, w *vworld.World, arriving []int) *schedule {
	n := len(arriving)
	orderClass := rapid.SampledFrom([]string{"dep", "reverse", "random", "random", "random"}).Draw(t, "orderClass")
	var order []int
	switch orderClass {
	case "dep":
		order = append(order, arriving...)
	case "reverse":
		order = reverse(arriving)
	default:
		order = rapid.Permutation(arriving).Draw(t, "perm")
	}
	mode := rapid.SampledFrom([]string{"seq", "seq", "dup", "restart", "restart", "conc", "conc", "conc-restart"}).Draw(t, "mode")
	storage := rapid.SampledFrom([]string{"coupled", "coupled", "first", "mixed"}).Draw(t, "storage")
	s := &schedule{Class: orderClass + "/" + storage + "/" + mode}
	s.Corpus = rapid.IntRange(0, 2).Draw(t, "withCorpus") == 0
	s.PackedSource = rapid.IntRange(0, 3).Draw(t, "packedSource") == 0

	// sequential event list
	var ev []event
	switch storage {
	case "coupled":
		ev = coupled(order)
	case "first":
		so := rapid.Permutation(arriving).Draw(t, "storeOrder")
		for _, i := range so {
			ev = append(ev, event{'S', i})
		}
		for _, i := range order {
			ev = append(ev, event{'X', i})
		}
	case "mixed":
		// S(i) is placed before the delivery at a drawn position <= pos(i)
		at := make([][]int, n)
		for pos, i := range order {
			p := rapid.IntRange(0, pos).Draw(t, "storeAt")
			at[p] = append(at[p], i)
		}
		for pos, i := range order {
			for _, j := range at[pos] {
				ev = append(ev, event{'S', j})
			}
			ev = append(ev, event{'X', i})
		}
	}
	switch mode {
	case "seq":
		s.Phases = []phase{{Workers: [][]event{ev}}}
	case "dup":
		// re-deliver (and re-store) some blobs at drawn later positions
		nd := rapid.IntRange(1, 3).Draw(t, "ndup")
		for k := 0; k < nd; k++ {
			i := rapid.SampledFrom(arriving).Draw(t, "dupBlob")
			first := 0
			for p, e := range ev {
				if e.Op == 'S' && e.I == i {
					first = p
					break
				}
			}
			pos := rapid.IntRange(first+1, len(ev)).Draw(t, "dupPos")
			ins := []event{{'X', i}}
			if rapid.Bool().Draw(t, "dupStore") {
				ins = []event{{'S', i}, {'X', i}}
			}
			ev = append(ev[:pos:pos], append(ins, ev[pos:]...)...)
		}
		s.Phases = []phase{{Workers: [][]event{ev}}}
	case "restart":
		k := rapid.IntRange(0, len(ev)).Draw(t, "restartAt")
		s.Phases = []phase{{Workers: [][]event{ev[:k:k]}, Restart: true}, {Workers: [][]event{ev[k:]}}}
		if rapid.IntRange(0, 3).Draw(t, "secondRestart") == 0 && len(ev)-k > 1 {
			k2 := rapid.IntRange(k, len(ev)).Draw(t, "restartAt2")
			s.Phases = []phase{{Workers: [][]event{ev[:k:k]}, Restart: true}, {Workers: [][]event{ev[k:k2:k2]}, Restart: true}, {Workers: [][]event{ev[k2:]}}}
		}
	case "conc", "conc-restart":
		nw := rapid.IntRange(2, 4).Draw(t, "workers")
		var pre []event
		if storage == "first" {
			for _, e := range ev {
				if e.Op == 'S' {
					pre = append(pre, e)
				}
			}
		}
		split := len(order)
		if mode == "conc-restart" {
			split = rapid.IntRange(0, len(order)).Draw(t, "concRestartAt")
		}
		mk := func(part []int) [][]event {
			ws := make([][]event, nw)
			for _, i := range part {
				k := rapid.IntRange(0, nw-1).Draw(t, "worker")
				if storage != "first" {
					ws[k] = append(ws[k], event{'S', i})
				}
				ws[k] = append(ws[k], event{'X', i})
				if rapid.IntRange(0, 5).Draw(t, "concDup") == 0 {
					k2 := rapid.IntRange(0, nw-1).Draw(t, "worker2")
					ws[k2] = append(ws[k2], event{'S', i}, event{'X', i})
				}
			}
			return ws
		}
		if len(pre) > 0 {
			s.Phases = append(s.Phases, phase{Workers: [][]event{pre}})
		}
		s.Phases = append(s.Phases, phase{Workers: mk(order[:split]), Restart: mode == "conc-restart"})
		if split < len(order) {
			s.Phases = append(s.Phases, phase{Workers: mk(order[split:])})
		}
	}
	return s
}

// ---- running ----

type outcome struct {
	rows         []vworld.Row
	needs, ready int
	err          error
}

func run(w *vworld.World, s *schedule) outcome {
	e, err := vworld.NewEnv(w, nil, nil)
	if err != nil {
		return outcome{err: err}
	}
	defer e.Release()
	if s.PackedSource {
		if err := e.UsePackedSource(); err != nil {
			return outcome{err: fmt.Errorf("harness: blobpacked source: %v", err)}
		}
	}
	if s.Corpus {
		if _, err := e.Ix.KeepInMemory(); err != nil {
			return outcome{err: fmt.Errorf("KeepInMemory: %v", err)}
		}
	}
	var mu sync.Mutex
	var firstErr error
	note := func(err error) {
		if err != nil {
			mu.Lock()
			if firstErr == nil {
				firstErr = err
			}
			mu.Unlock()
		}
	}
	do := func(wk []event) {
		for _, ev := range wk {
			if ev.Op == 'S' {
				e.Store(ev.I)
			} else if err := e.Deliver(ev.I); err != nil {
				note(fmt.Errorf("ReceiveBlob(%s): %v", w.Blobs[ev.I].Label, err))
			}
		}
	}
	for _, p := range s.Phases {
		if len(p.Workers) == 1 {
			do(p.Workers[0])
		} else {
			var wg sync.WaitGroup
			for _, wk := range p.Workers {
				wg.Add(1)
				go func(wk []event) { defer wg.Done(); do(wk) }(wk)
			}
			wg.Wait()
		}
		e.Await()
		if p.Restart {
			if err := e.Restart(); err != nil {
				note(fmt.Errorf("index.New over existing rows: %v", err))
				break
			}
			if s.Corpus {
				if _, err := e.Ix.KeepInMemory(); err != nil {
					note(fmt.Errorf("KeepInMemory over existing rows: %v", err))
					break
				}
			}
		}
	}
	e.Await()
	if firstErr != nil {
		return outcome{err: firstErr}
	}
	rows, err := vworld.Dump(e.KV)
	if err != nil {
		return outcome{err: err}
	}
	nd, rd := e.Ix.VerifPending()
	return outcome{rows: rows, needs: nd, ready: rd}
}

type world = vworld.World

// checkWorld runs the canonical delivery, the anchors and the reindex for w and
// returns the canonical outcome.
func canonical(t interface{ Fatalf(string, ...any) }, w *world, arriving []int) outcome {
	present := func(i int) bool { return !w.Withheld[i] }
	canon := run(w, &schedule{Class: "canonical", Phases: []phase{{Workers: [][]event{coupled(arriving)}}}})
	if canon.err != nil {
		t.Fatalf("C05 violated: dependency-order delivery failed: %v\nworld:\n%s", canon.err, strings.Join(w.Summary(), "\n"))
	}
	if err := vworld.CheckAnchors(w, canon.rows, present); err != nil {
		t.Fatalf("C05 violated: dependency-order delivery: %v\nworld:\n%s\nrows:\n%s", err, strings.Join(w.Summary(), "\n"), vworld.DumpString(canon.rows))
	}
	want := w.PendingCount(present)
	if canon.needs != want || canon.ready != 0 {
		t.Fatalf("C05 violated: dependency-order delivery: VerifPending()=(%d,%d), model says (%d,0)\nworld:\n%s", canon.needs, canon.ready, want, strings.Join(w.Summary(), "\n"))
	}
	return canon
}

func checkReindex(t interface{ Fatalf(string, ...any) }, w *world, arriving []int, canon outcome) {
	src := new(test.Fetcher)
	for _, i := range arriving {
		src.AddBlob(w.Blobs[i].TB())
	}
	re, rerr, err := vworld.Reindexed(w, src)
	if err != nil {
		t.Fatalf("C05: cannot build index for Reindex: %v", err)
	}
	defer re.Release()
	rows, _ := vworld.Dump(re.KV)
	wantPending := canon.needs > 0
	if (rerr != nil) != wantPending {
		t.Fatalf("C05 violated: Index.Reindex() error = %v, but the model says pending=%v\nworld:\n%s", rerr, wantPending, strings.Join(w.Summary(), "\n"))
	}
	if d := vworld.DiffRows(canon.rows, rows, "dependency-order", "Reindex"); d != "" {
		t.Fatalf("C05 violated: rows after Index.Reindex() differ from rows after dependency-order delivery:\n%s\nworld:\n%s", d, strings.Join(w.Summary(), "\n"))
	}
}

func compare(t interface{ Fatalf(string, ...any) }, w *world, s *schedule, canon, got outcome) {
	fail := func(format string, a ...any) {
		t.Fatalf("C05 violated: "+format+"\nschedule: %s\nworld:\n%s", append(a, s.String(), strings.Join(w.Summary(), "\n"))...)
	}
	if got.err != nil {
		fail("delivery failed: %v", got.err)
	}
	if d := vworld.DiffRows(canon.rows, got.rows, "dependency-order", "schedule"); d != "" {
		fail("index rows depend on the arrival schedule:\n%s", d)
	}
	if got.needs != canon.needs || got.ready != canon.ready {
		fail("VerifPending()=(%d,%d) but dependency-order delivery of the same blobs gives (%d,%d)", got.needs, got.ready, canon.needs, canon.ready)
	}
}

func label(w *world, s *schedule) {
	evid.R.Label("schedule/" + s.Class)
	if s.Corpus {
		evid.R.Label("schedule/index-with-in-memory-corpus")
	}
	if s.PackedSource {
		evid.R.Label("schedule/blob-source-is-blobpacked")
	}
}

func worldLabels(w *world) {
	kc := w.KindCounts()
	if len(w.Withheld) > 0 {
		evid.R.Label("world/with-withheld-deps")
	}
	if kc[vworld.KDelete] > 0 {
		evid.R.Label("world/with-delete-claims")
	}
	if kc[vworld.KFile] > 0 {
		evid.R.Label("world/with-files")
	}
	if kc[vworld.KBytes] > 0 {
		evid.R.Label("world/with-bytes-trees")
	}
	if kc[vworld.KDir] > 0 {
		evid.R.Label("world/with-directories")
	}
	if len(w.Ids) > 1 {
		evid.R.Label("world/two-signers")
	}
	switch n := len(w.Blobs); {
	case n <= 5:
		evid.R.Label("world/blobs<=5")
	case n <= 10:
		evid.R.Label("world/blobs-6..10")
	case n <= 20:
		evid.R.Label("world/blobs-11..20")
	default:
		evid.R.Label("world/blobs>20")
	}
	for _, b := range w.Blobs {
		if b.Kind == vworld.KDelete && w.Blobs[b.Claim.Target].Kind == vworld.KDelete {
			evid.R.Label("world/with-undelete-chain")
			break
		}
	}
}

func TestSchedules(t *testing.T) {
	nSched := evid.Pick(8, 12)
	evid.Check(t, 500, 6000, func(t *rapid.T) {
		w := vworld.Draw(t, worldCfg)
		arriving := w.Arriving()
		canon := canonical(t, w, arriving)
		worldLabels(w)
		checkReindex(t, w, arriving, canon)
		wh := w.Hash()
		for k := 0; k < nSched; k++ {
			s := drawSchedule(t, w, arriving)
			evid.R.Eval()
			label(w, s)
			nt := outOfOrder(w, s)
			if nt {
				evid.R.NonTrivial(evid.Hash(wh, s.String()))
				evid.R.Label("nontrivial/out-of-order")
			}
			if evid.R.WantSample(nt) {
				evid.R.Sample(nt, map[string]any{"world": w.Summary(), "schedule": s.String(), "out_of_order": nt, "rows": len(canon.rows), "pending": canon.needs})
			}
			got := run(w, s)
			compare(t, w, s, canon, got)
		}
	})
}

// ---- all permutations of small worlds ----

var smallCfg = vworld.Config{
	MaxPermanodes: 2, MaxAttrClaims: 2, MaxDeletes: 3, MaxChain: 3,
	MaxFiles: 1, MaxDirs: 1, MaxOpaque: 0, TwoSigners: false, Withhold: true, RefValues: true,
}

func permutations(in []int, fn func([]int) bool) {
	a := append([]int(nil), in...)
	sort.Ints(a)
	n := len(a)
	c := make([]int, n)
	if !fn(a) {
		return
	}
	i := 0
	for i < n {
		if c[i] < i {
			if i%2 == 0 {
				a[0], a[i] = a[i], a[0]
			} else {
				a[c[i]], a[i] = a[i], a[c[i]]
			}
			if !fn(a) {
				return
			}
			c[i]++
			i = 0
		} else {
			c[i] = 0
			i++
		}
	}
}

func TestAllPermutations(t *testing.T) {
	maxBlobs := evid.Pick(5, 6)
	evid.Check(t, 40, 110, func(t *rapid.T) {
		cfg := smallCfg
		cfg.MaxBlobs = maxBlobs
		w := vworld.Draw(t, cfg)
		arriving := w.Arriving()
		if len(arriving) > maxBlobs || len(arriving) < 3 {
			t.Skip("world too large/small for the exhaustive part")
		}
		canon := canonical(t, w, arriving)
		worldLabels(w)
		wh := w.Hash()
		storeFirst := rapid.Bool().Draw(t, "storeFirst")
		withCorpus := rapid.IntRange(0, 2).Draw(t, "withCorpus") == 0
		restartAt := -1
		if rapid.Bool().Draw(t, "withRestart") {
			restartAt = rapid.IntRange(1, len(arriving)-1).Draw(t, "restartAt")
		}
		nperm := 0
		permutations(arriving, func(p []int) bool {
			nperm++
			s := &schedule{Class: "allperm/coupled", Corpus: withCorpus}
			var ev []event
			if storeFirst {
				s.Class = "allperm/storage-first"
				for _, i := range arriving {
					ev = append(ev, event{'S', i})
				}
				for _, i := range p {
					ev = append(ev, event{'X', i})
				}
			} else {
				ev = coupled(p)
			}
			if restartAt >= 0 {
				s.Class += "/restart"
				cut := 0
				nx := 0
				for k, e := range ev {
					if e.Op == 'X' {
						nx++
						if nx == restartAt {
							cut = k + 1
							break
						}
					}
				}
				s.Phases = []phase{{Workers: [][]event{ev[:cut:cut]}, Restart: true}, {Workers: [][]event{ev[cut:]}}}
			} else {
				s.Phases = []phase{{Workers: [][]event{ev}}}
			}
			evid.R.Eval()
			label(w, s)
			nt := outOfOrder(w, s)
			if nt {
				evid.R.NonTrivial(evid.Hash(wh, s.String()))
				evid.R.Label("nontrivial/out-of-order")
			}
			got := run(w, s)
			compare(t, w, s, canon, got)
			return true
		})
		evid.R.Label(fmt.Sprintf("allperm/worlds-of-%d-blobs", len(arriving)))
		evid.R.Exhaustive(fmt.Sprintf("all arrival permutations of every generated world with 3..%d arriving blobs (TestAllPermutations)", maxBlobs))
	})
}
