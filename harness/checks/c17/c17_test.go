// C17 — without credentials, blobs are reachable only through a valid share chain,
// and every other endpoint refuses unauthenticated requests.
package c17

import (
	"bytes"
	"encoding/json"
	"flag"
	"fmt"
	"net/http"
	"net/http/httptest"
	"os"
	"sort"
	"strings"
	"testing"

	"perkeep.org/pkg/server"
	"pgregory.net/rapid"

	"verifharness/internal/evid"
	"verifharness/internal/vhttp"
)

const prop = "C17"

func TestMain(m *testing.M) {
	flag.Parse()
	flag.Set("rapid.shrinktime", "15s")
	vhttp.Quiet()
	server.VerifNoShareDelay()
	evid.Main(m, prop, "fault_enumeration",
		"(a) share chains: rapid generates a world = STRUCTURE of a small blob store (2-3 data blobs, file with nested bytes parts, directory shapes none/flat/split(mergeSets)/nested/mixed/real-writer-split, blobs that only MENTION a ref: raw text, non-schema JSON, symlink target, file name, attribute-claim value, link-looking field on the wrong camliType, unsigned share-shaped JSON; 1-3 share claims: transitive or not, no/far-past/far-future expiry, target = any blob incl. another share or an absent ref, or a search share; 0-3 delete claims on shares or on delete claims (undelete), two signers); "+
			"the blobs are fed to a memory store + memory index and the share handler from blobserver.CreateHandler(\"share\"). For each world EVERY tuple (b1..bk,blob) of k+1<=3 (quick) / <=4 (thorough) refs over the request alphabet (the whole world when it has <= 13 (quick) / 14 (thorough) refs, otherwise all shares + a drawn subset) is requested as GET /<blob>?via=b1,..,bk; additionally every valid chain of any length found by walking the structure, every single-element substitution/deletion/duplication of those, the same chains by HEAD/POST/PUT/DELETE, with assemble=1, and malformed refs. "+
			"Oracle: validator over the generated structure (never parses blobs): HTTP 200 with exactly the blob's bytes <=> valid chain to a stored blob; everything else non-2xx and no stored blob's bytes in the body. "+
			"(b) endpoints: for each high-level configuration (storage x index x share on/off) loaded by serverinit.Load+InstallHandlers under userpass/token auth, every prefix of the loaded low-level config x {GET,HEAD,POST,PUT,DELETE} x sub-paths, without / with wrong / with correct credentials (see TestEndpoints). "+
			"non-trivial = a request whose chain has length >= 3 and is served, or is refused only because of its LAST hop / the share's state (deleted, expired, not transitive) while every earlier condition holds, or that starts at a share that was deleted and undeleted again; for (b): a request to a non-public endpoint that is answered 2xx with correct credentials and was refused under every wrong-credential class. distinct = FNV-64 of (world refs, method, chain) resp. (configuration, auth kind, method, symbolic path)")
}

type reqResult struct {
	code int
	body []byte
	hdr  http.Header
}

func (e *env) do(method string, chain []*node, extraQuery string) reqResult {
	return e.doPath(method, chain, extraQuery, false)
}

// doPath: with escaped, the blobref in the URL path is written with percent-encoded characters (the
// same resource, RFC 3986 section 2.3: "-" as %2D, the first hex digit as %XX).
func (e *env) doPath(method string, chain []*node, extraQuery string, escaped bool) reqResult {
	var sb strings.Builder
	sb.WriteString(e.base())
	ref := chain[len(chain)-1].Ref
	if escaped {
		if i := strings.IndexByte(ref, '-'); i >= 0 && i+1 < len(ref) {
			ref = ref[:i] + "%2D" + fmt.Sprintf("%%%02X", ref[i+1]) + ref[i+2:]
		}
	}
	sb.WriteString(ref)
	sep := "?"
	if len(chain) > 1 {
		sb.WriteString("?via=")
		for i, n := range chain[:len(chain)-1] {
			if i > 0 {
				sb.WriteByte(',')
			}
			sb.WriteString(n.Ref)
		}
		sep = "&"
	}
	if extraQuery != "" {
		sb.WriteString(sep + extraQuery)
	}
	return e.doURL(method, sb.String())
}

// base is the URL the blobref is appended to: the bare handler is addressed as in share_test.go
// ("/<ref>"), a server built by serverinit at its configured prefix ("/share/<ref>").
func (e *env) base() string {
	if e.prefix == "" {
		return "http://verif.invalid/"
	}
	return "http://verif.invalid" + e.prefix
}

func (e *env) doURL(method, url string) reqResult {
	req, err := http.NewRequest(method, url, nil)
	if err != nil {
		panic("harness: " + err.Error())
	}
	req.RequestURI = req.URL.RequestURI()
	req.RemoteAddr = "192.0.2.1:1234"
	rec := httptest.NewRecorder()
	if p := serveRecovering(e.h, rec, req); p != "" {
		// net/http would drop the connection: the client gets no response at all
		return reqResult{599, []byte("handler panicked: " + p), http.Header{}}
	}
	return reqResult{rec.Code, rec.Body.Bytes(), rec.Result().Header}
}

func serveRecovering(h http.Handler, rw http.ResponseWriter, req *http.Request) (panicked string) {
	defer func() {
		if p := recover(); p != nil {
			panicked = fmt.Sprint(p)
		}
	}()
	h.ServeHTTP(rw, req)
	return ""
}

// leaks reports the name of a stored blob whose bytes occur in body.
func (w *world) leaks(body []byte) string {
	if len(body) < 16 {
		return ""
	}
	for _, n := range w.nodes {
		if n.Absent || len(n.data) < 16 || n.Kind == "pubkey" && false {
			continue
		}
		if bytes.Contains(body, n.data) {
			return n.Name
		}
	}
	return ""
}

type caseFail struct {
	msg string
}

// checkGET compares one GET with the oracle.
func (e *env) checkGET(chain []*node, v verdict) *caseFail {
	r := e.do("GET", chain, "")
	last := chain[len(chain)-1]
	if v.served {
		if r.code != 200 || !bytes.Equal(r.body, last.data) {
			return &caseFail{fmt.Sprintf("valid chain %s (%s) is NOT served: HTTP %d body=%q; want 200 with the %d bytes of %s",
				chainNames(chain), v.reason, r.code, trunc(r.body), len(last.data), last.Name)}
		}
		// the same resource addressed with percent-encoded characters in the path
		if r2 := e.doPath("GET", chain, "", true); r2.code != 200 || !bytes.Equal(r2.body, last.data) {
			return &caseFail{fmt.Sprintf("valid chain %s (%s) is served for the plain path but NOT when the blobref in the path is percent-encoded: HTTP %d body=%q",
				chainNames(chain), v.reason, r2.code, trunc(r2.body))}
		}
		return nil
	}
	if r.code >= 200 && r.code < 300 {
		return &caseFail{fmt.Sprintf("invalid chain %s (%s) is SERVED: HTTP %d body=%q", chainNames(chain), v.reason, r.code, trunc(r.body))}
	}
	if l := e.w.leaks(r.body); l != "" {
		return &caseFail{fmt.Sprintf("refused chain %s (%s): HTTP %d but the body contains the bytes of blob %s", chainNames(chain), v.reason, r.code, l)}
	}
	return nil
}

func trunc(b []byte) string {
	if len(b) > 160 {
		return string(b[:160]) + "..."
	}
	return string(b)
}

type counters struct {
	n      int
	byWhy  map[string]int
	nt     int
	served int
}

func (c *counters) note(w *world, wc string, method string, chain []*node, v verdict) {
	c.n++
	c.byWhy[v.reason]++
	if v.served {
		c.served++
	}
	nt := (v.served && len(chain) >= 3) || (!v.served && v.lastHopOnly) ||
		(!v.served && len(chain) >= 2 && (v.reason == "share-deleted" || v.reason == "share-expired") && w.structurallyValid(chain)) ||
		(w.undel && chain[0].Share != nil && w.wasUndeleted(chain[0].Name))
	if nt {
		c.nt++
		evid.R.NonTrivial(evid.Hash("chain", wc, method, chainNames(chain)))
	}
}

// structurallyValid: the chain would be valid if the share were live.
func (w *world) structurallyValid(chain []*node) bool {
	s := chain[0]
	if s.Share == nil || s.Absent {
		return false
	}
	if len(chain) == 1 {
		return true
	}
	if s.Share.Target == "" || chain[1].Name != s.Share.Target {
		return false
	}
	if len(chain) > 2 && !s.Share.Transitive {
		return false
	}
	for i := 1; i+1 < len(chain); i++ {
		if chain[i].Absent || !w.hasLink(chain[i], chain[i+1]) {
			return false
		}
	}
	return true
}

// wasUndeleted: some delete claim on name is itself deleted.
func (w *world) wasUndeleted(name string) bool {
	for _, d := range w.nodes {
		if d.Kind == "delete" && d.Deletes == name && w.deleted(d.Name) {
			return true
		}
	}
	return false
}

// validChains walks the structure from every share and returns all valid chains up to maxLen.
func (w *world) validChains(maxLen int) [][]*node {
	var out [][]*node
	for _, s := range w.nodes {
		if s.Share == nil {
			continue
		}
		out = append(out, []*node{s})
		if s.Share.Target == "" {
			continue
		}
		var rec func(chain []*node)
		rec = func(chain []*node) {
			out = append(out, append([]*node{}, chain...))
			if len(chain) >= maxLen {
				return
			}
			last := chain[len(chain)-1]
			if last.Absent {
				return
			}
			for _, l := range last.Links {
				rec(append(chain, w.get(l)))
			}
		}
		rec([]*node{s, w.get(s.Share.Target)})
	}
	return out
}

func runWorld(t *rapid.T, w *world, maxLen, maxAlpha int) {
	e, err := newEnv(w)
	if err != nil {
		t.Fatalf("harness: cannot build world: %v", err)
	}
	exercise(t, e, "share", maxLen, maxAlpha)
}

// exercise runs the chain enumeration of world e.w against handler e.h.
func exercise(t *rapid.T, e *env, lbl string, maxLen, maxAlpha int) {
	w := e.w
	wc := lbl + ":" + w.canon()
	cnt := &counters{byWhy: map[string]int{}}
	fail := func(f *caseFail, method string, chain []*node) {
		writeCase(w, method, chain, f.msg)
		t.Fatalf("C17 violated: %s\nworld: %s", f.msg, mustJSON(w.dump()))
	}

	// ---- request alphabet ----
	alpha := w.nodes
	restricted := false
	if len(alpha) > maxAlpha {
		restricted = true
		var shares, others []*node
		for _, n := range w.nodes {
			if n.Share != nil {
				shares = append(shares, n)
			} else {
				others = append(others, n)
			}
		}
		// every share, every share target, then a drawn subset of the rest
		chosen := map[string]bool{}
		alpha = nil
		for _, s := range shares {
			alpha = append(alpha, s)
			chosen[s.Name] = true
		}
		for _, s := range shares {
			if s.Share.Target != "" && !chosen[s.Share.Target] && len(alpha) < maxAlpha {
				alpha = append(alpha, w.get(s.Share.Target))
				chosen[s.Share.Target] = true
			}
		}
		perm := rapid.Permutation(others).Draw(t, "alphabetOrder")
		for _, n := range perm {
			if len(alpha) >= maxAlpha {
				break
			}
			if !chosen[n.Name] {
				alpha = append(alpha, n)
				chosen[n.Name] = true
			}
		}
	}

	// ---- (1) every tuple over the alphabet up to maxLen ----
	chain := make([]*node, 0, maxLen)
	var rec func()
	rec = func() {
		if len(chain) > 0 {
			v := w.validate(chain)
			cnt.note(w, wc, "GET", chain, v)
			if f := e.checkGET(chain, v); f != nil {
				fail(f, "GET", chain)
			}
		}
		if len(chain) == maxLen {
			return
		}
		for _, n := range alpha {
			chain = append(chain, n)
			rec()
			chain = chain[:len(chain)-1]
		}
	}
	rec()
	tuples := cnt.n

	// ---- (2) directed: every valid chain of any length + single edits of it ----
	valids := w.validChains(9)
	longest := 0
	for _, vc := range valids {
		if len(vc) > longest {
			longest = len(vc)
		}
		var variants [][]*node
		variants = append(variants, vc)
		for i := range vc {
			for _, n := range w.nodes { // substitution by every world blob
				if n == vc[i] {
					continue
				}
				m := append([]*node{}, vc...)
				m[i] = n
				variants = append(variants, m)
			}
			if len(vc) > 1 { // deletion, duplication
				m := append(append([]*node{}, vc[:i]...), vc[i+1:]...)
				variants = append(variants, m)
			}
			m := append(append(append([]*node{}, vc[:i+1]...), vc[i]), vc[i+1:]...)
			variants = append(variants, m)
		}
		for _, n := range w.nodes { // extension by one more hop
			variants = append(variants, append(append([]*node{}, vc...), n))
		}
		for _, c := range variants {
			v := w.validate(c)
			cnt.note(w, wc, "GET", c, v)
			if f := e.checkGET(c, v); f != nil {
				fail(f, "GET", c)
			}
		}
		// ---- (3) other methods on the valid chain and on one broken variant ----
		broken := append(append([]*node{}, vc...), vc[0])
		for _, c := range [][]*node{vc, broken} {
			v := w.validate(c)
			last := c[len(c)-1]
			for _, method := range []string{"HEAD", "POST", "PUT", "DELETE", "PATCH"} {
				r := e.do(method, c, "")
				cnt.note(w, wc, method, c, v)
				evid.R.Label(lbl+"/method-" + method)
				switch {
				case method == "HEAD" && v.served:
					if r.code != 200 || len(r.body) != 0 {
						fail(&caseFail{fmt.Sprintf("HEAD of valid chain %s: HTTP %d body %d bytes; want 200 without body", chainNames(c), r.code, len(r.body))}, method, c)
					}
					if cl := r.hdr.Get("Content-Length"); cl != fmt.Sprint(len(last.data)) {
						fail(&caseFail{fmt.Sprintf("HEAD of valid chain %s: Content-Length %q, blob has %d bytes", chainNames(c), cl, len(last.data))}, method, c)
					}
				default:
					// non-GET methods never yield contents; HEAD of an invalid chain must not confirm the blob (no 2xx)
					if r.code >= 200 && r.code < 300 {
						fail(&caseFail{fmt.Sprintf("%s with chain %s (%s) answered HTTP %d body=%q; want a refusal", method, chainNames(c), v.reason, r.code, trunc(r.body))}, method, c)
					}
					if l := w.leaks(r.body); l != "" {
						fail(&caseFail{fmt.Sprintf("%s with chain %s: body contains the bytes of %s", method, chainNames(c), l)}, method, c)
					}
				}
			}
			// ---- (4) assemble=1 ----
			r := e.do("GET", c, "assemble=1")
			evid.R.Label(lbl+"/assemble")
			cnt.note(w, wc, "GET+assemble", c, v)
			want, okFile := w.assembled(last)
			switch {
			case v.served && c[0].Share.Transitive && okFile && len(c) >= 2:
				if r.code != 200 || !bytes.Equal(r.body, want) {
					fail(&caseFail{fmt.Sprintf("assemble=1 via valid transitive chain %s to file %s: HTTP %d body=%q; want 200 with the file's %d bytes", chainNames(c), last.Name, r.code, trunc(r.body), len(want))}, "GET+assemble", c)
				}
			case r.code >= 200 && r.code < 300:
				// a 2xx needs a valid chain of a transitive share (assembling follows the file's part links)
				if !v.served || !c[0].Share.Transitive {
					fail(&caseFail{fmt.Sprintf("assemble=1 with chain %s (%s, transitive=%v) answered HTTP %d body=%q", chainNames(c), v.reason, c[0].Share != nil && c[0].Share.Transitive, r.code, trunc(r.body))}, "GET+assemble", c)
				}
			default:
				if !v.served {
					if l := w.leaks(r.body); l != "" {
						fail(&caseFail{fmt.Sprintf("assemble=1 with refused chain %s: body contains the bytes of %s", chainNames(c), l)}, "GET+assemble", c)
					}
				}
			}
		}
	}

	// ---- (5) malformed refs ----
	if len(valids) > 0 {
		vc := valids[len(valids)-1]
		last := vc[len(vc)-1]
		var vias []string
		for _, n := range vc[:len(vc)-1] {
			vias = append(vias, n.Ref)
		}
		via := strings.Join(vias, ",")
		bad := []string{
			e.base() + last.Ref[:len(last.Ref)-1] + "?via=" + via,
			e.base() + strings.ToUpper(last.Ref) + "?via=" + via,
			e.base() + "?via=" + via,
			e.base() + last.Ref + "x?via=" + via,
		}
		if len(vc) > 1 {
			bad = append(bad,
				e.base()+last.Ref+"?via="+via+",",
				e.base()+last.Ref+"?via=,"+via,
				e.base()+last.Ref+"?via="+via[:len(via)-1],
				e.base()+last.Ref+"?via="+strings.Replace(via, "-", "_", 1),
				e.base()+last.Ref+"?via="+via+"%00",
				e.base()+last.Ref+"?via=%20"+via,
			)
		}
		for _, u := range bad {
			r := e.doURL("GET", u)
			cnt.n++
			evid.R.Label(lbl+"/malformed-ref")
			if r.code >= 200 && r.code < 300 || w.leaks(r.body) != "" {
				writeCase(w, "GET", vc, "malformed request "+u)
				t.Fatalf("C17 violated: malformed request %s answered HTTP %d body=%q; want 4xx without blob bytes\nworld: %s", u, r.code, trunc(r.body), mustJSON(w.dump()))
			}
		}
	}

	// ---- evidence ----
	evid.R.EvalN(cnt.n)
	evid.R.Label(lbl+"/worlds")
	evid.R.LabelN(lbl+"/requests-exhaustive-tuples", tuples)
	evid.R.LabelN(lbl+"/requests-directed", cnt.n-tuples)
	evid.R.LabelN(lbl+"/requests-served", cnt.served)
	evid.R.LabelN(lbl+"/requests-nontrivial", cnt.nt)
	for k, v := range cnt.byWhy {
		evid.R.LabelN(lbl+"/verdict-"+k, v)
	}
	evid.R.Label(fmt.Sprintf("%s/longest-valid-chain-%d", lbl, longest))
	if restricted {
		evid.R.Label(lbl+"/alphabet-restricted")
	} else {
		evid.R.Label(lbl+"/alphabet-whole-world")
	}
	if w.split {
		evid.R.Label(lbl+"/world-has-mergeSets")
	}
	if w.undel {
		evid.R.Label(lbl+"/world-has-undelete")
	}
	if evid.R.WantSample(true) && cnt.nt > 0 {
		evid.R.Sample(true, map[string]any{"kind": "share-world", "world": w.dump(), "alphabet": len(alpha), "max_chain": maxLen,
			"requests": cnt.n, "served": cnt.served, "verdicts": cnt.byWhy, "valid_chains": chainList(valids)})
	}
}

func chainList(cs [][]*node) []string {
	var out []string
	for _, c := range cs {
		out = append(out, chainNames(c))
	}
	sort.Strings(out)
	if len(out) > 40 {
		out = out[:40]
	}
	return out
}

// assembled returns the bytes a file node represents (all parts present).
func (w *world) assembled(n *node) ([]byte, bool) {
	if n.Kind != "file" {
		return nil, false
	}
	var out []byte
	var rec func(m *node) bool
	rec = func(m *node) bool {
		for _, l := range m.Links {
			c := w.get(l)
			if c.Absent {
				return false
			}
			switch c.Kind {
			case "data":
				out = append(out, c.data...)
			case "bytes":
				if !rec(c) {
					return false
				}
			default:
				return false
			}
		}
		return true
	}
	if !rec(n) {
		return nil, false
	}
	return out, true
}

func mustJSON(v any) string {
	b, err := json.MarshalIndent(v, "", " ")
	if err != nil {
		return fmt.Sprintf("%v", v)
	}
	return string(b)
}

func writeCase(w *world, method string, chain []*node, msg string) {
	root := os.Getenv("VERIF_ROOT")
	if root == "" || os.Getenv("VERIF_REPO") != "" {
		return
	}
	dir := root + "/replays/C17"
	os.MkdirAll(dir, 0o755)
	os.WriteFile(dir+"/last-violation.case.json", []byte(mustJSON(map[string]any{
		"violation": msg, "method": method, "chain": chainNames(chain), "world": w.dump()})+"\n"), 0o644)
}

func TestShareChains(t *testing.T) {
	maxLen := evid.Pick(3, 4)
	maxAlpha := evid.Pick(13, 14)
	evid.Check(t, 220, 200, func(t *rapid.T) {
		w := genWorld(t)
		runWorld(t, w, maxLen, maxAlpha)
	})
	if !t.Failed() {
		evid.R.Exhaustive(fmt.Sprintf("all request chains of length <= %d over each world's request alphabet", maxLen))
	}
}
