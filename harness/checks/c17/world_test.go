package c17

import (
	"bytes"
	"context"
	"encoding/json"
	"fmt"
	"net/http"
	"sort"
	"strings"
	"time"

	"go4.org/jsonconfig"
	"perkeep.org/pkg/blob"
	"perkeep.org/pkg/blobserver"
	"perkeep.org/pkg/blobserver/memory"
	"perkeep.org/pkg/index"
	"perkeep.org/pkg/schema"
	"pgregory.net/rapid"

	"verifharness/internal/vsign"
)

// ---------------------------------------------------------------------------
// The world: a small blob store described as a STRUCTURE (nodes with genuine
// links, mere mentions, share parameters, delete targets). Blob bytes are
// produced from the structure; the oracle only ever reads the structure.
// ---------------------------------------------------------------------------

type shareInfo struct {
	Target     string `json:"target,omitempty"` // node name ("" for a search share)
	Search     bool   `json:"search,omitempty"`
	Transitive bool   `json:"transitive"`
	Expiry     string `json:"expiry"` // none | past | future
	PastAt     string `json:"expired_at,omitempty"` // Expiry == "past": the instant (RFC 3339), drawn from pastInstants
}

type node struct {
	Name     string     `json:"name"`
	Kind     string     `json:"kind"`
	Ref      string     `json:"ref"`
	Links    []string   `json:"links,omitempty"`    // genuine schema links (statement: parts, entries, members, sub-sets)
	Mentions []string   `json:"mentions,omitempty"` // refs that merely occur in the bytes (non-link fields / raw text)
	Share    *shareInfo `json:"share,omitempty"`
	Deletes  string     `json:"deletes,omitempty"` // delete claim: name of the deleted claim
	Signer   string     `json:"signer,omitempty"`
	Absent   bool       `json:"absent,omitempty"` // ref is referenced but the blob is not in the store
	Body     string     `json:"body,omitempty"`   // blob bytes (filled for dumps)

	ref  blob.Ref
	data []byte
	size int64 // bytes represented (file/bytes), len(data) for data blobs
}

type world struct {
	nodes  []*node // in creation = delivery order (dependencies first)
	byName map[string]*node
	byRef  map[blob.Ref]*node
	split  bool // contains a static-set with mergeSets
	undel  bool // contains a delete claim on a delete claim
}

func (w *world) add(n *node) *node {
	if n.data != nil || n.Absent {
		if !n.ref.Valid() {
			n.ref = blob.RefFromBytes(n.data)
		}
	}
	n.Ref = n.ref.String()
	if _, dup := w.byName[n.Name]; dup {
		panic("harness: duplicate node name " + n.Name)
	}
	if old, dup := w.byRef[n.ref]; dup {
		panic(fmt.Sprintf("harness: nodes %s and %s have the same ref", old.Name, n.Name))
	}
	w.nodes = append(w.nodes, n)
	w.byName[n.Name] = n
	w.byRef[n.ref] = n
	return n
}

func (w *world) get(name string) *node {
	n := w.byName[name]
	if n == nil {
		panic("harness: no node " + name)
	}
	return n
}

func (w *world) hasLink(from *node, to *node) bool {
	for _, l := range from.Links {
		if l == to.Name {
			return true
		}
	}
	return false
}

// deleted: a claim is deleted iff some delete claim on it is itself not deleted
// (doc/schema/delete.md: deleting a delete claim undeletes).
func (w *world) deleted(name string) bool {
	for _, d := range w.nodes {
		if d.Kind == "delete" && d.Deletes == name && !d.Absent && !w.deleted(d.Name) {
			return true
		}
	}
	return false
}

// verdict of the chain validator.
type verdict struct {
	served bool
	reason string // class of the decision
	// lastHopOnly: every proper prefix condition holds and only the final hop (or only the
	// existence of the final blob) decides against serving
	lastHopOnly bool
}

// validate is the oracle, written against the property statement:
// "the request's via-chain starts at an existing, undeleted, unexpired share claim and either
// asks for that claim itself, or hops to exactly that claim's target and - for transitive shares
// only - continues through genuine schema links (file/bytes parts, directory entries, static-set
// members and sub-sets) to the requested blob; conversely every blob so reachable is served."
func (w *world) validate(chain []*node) verdict {
	s := chain[0]
	if s.Absent {
		return verdict{false, "start-absent", false}
	}
	if s.Share == nil {
		return verdict{false, "start-not-share", false}
	}
	if w.deleted(s.Name) {
		return verdict{false, "share-deleted", false}
	}
	if s.Share.Expiry == "past" {
		return verdict{false, "share-expired", false}
	}
	if len(chain) == 1 {
		return verdict{true, "claim-itself", false}
	}
	if s.Share.Target == "" || chain[1].Name != s.Share.Target {
		return verdict{false, "first-hop-not-target", len(chain) == 2}
	}
	if len(chain) > 2 && !s.Share.Transitive {
		return verdict{false, "not-transitive", len(chain) == 3 && !chain[1].Absent && w.hasLink(chain[1], chain[2])}
	}
	for i := 1; i+1 < len(chain); i++ {
		if chain[i].Absent || !w.hasLink(chain[i], chain[i+1]) {
			return verdict{false, "no-genuine-link", i+2 == len(chain)}
		}
	}
	last := chain[len(chain)-1]
	if last.Absent {
		return verdict{false, "valid-chain-blob-absent", true}
	}
	return verdict{true, "valid-chain", false}
}

// ---------------------------------------------------------------------------
// generation
// ---------------------------------------------------------------------------

var (
	claimBase = time.Date(2020, 1, 2, 3, 4, 5, 0, time.UTC)
	farPast   = time.Date(1995, 6, 1, 0, 0, 0, 0, time.UTC)
	// instants that are all long past; some of them look "unset" to a careless test (the Unix epoch,
	// the second after it, the day after Go's zero time)
	pastInstants = []string{"1995-06-01T00:00:00Z", "1995-06-01T00:00:00Z", "1970-01-01T00:00:00Z", "1970-01-01T00:00:01Z", "1969-12-31T23:59:59Z", "0001-01-02T00:00:00Z", "2001-09-09T01:46:40Z"}
	farFuture = time.Date(2190, 6, 1, 0, 0, 0, 0, time.UTC)
)

type gen struct {
	t     *rapid.T
	w     *world
	salt  uint64
	clock int
}

func (g *gen) nextDate() time.Time {
	g.clock++
	return claimBase.Add(time.Duration(g.clock) * time.Minute)
}

func jsonStr(s string) string {
	b, _ := json.Marshal(s)
	return string(b)
}

func (g *gen) data(name string) *node {
	body := fmt.Sprintf("verif-secret:%s:%016x:only-for-authorised-eyes", name, g.salt)
	// now and then a blob at the sizes where the blob handler changes how it answers (32 KiB: sniffed and
	// served from memory below, streamed above), text or binary
	if g.t != nil && rapid.IntRange(0, 7).Draw(g.t, "bigData") == 0 {
		n := rapid.SampledFrom([]int{32767, 32768, 32768, 32769, 65536, 100000}).Draw(g.t, "dataSize")
		fill := byte('.')
		if rapid.Bool().Draw(g.t, "binaryData") {
			fill = 0xfe
		}
		body += string(bytes.Repeat([]byte{fill}, n-len(body)))
	}
	return g.w.add(&node{Name: name, Kind: "data", data: []byte(body), size: int64(len(body))})
}

func (g *gen) absent(name string) *node {
	r := blob.RefFromString(fmt.Sprintf("verif-absent:%s:%016x", name, g.salt))
	return g.w.add(&node{Name: name, Kind: "absent", Absent: true, ref: r})
}

type part struct {
	n     *node
	bytes bool // bytesRef (n is a bytes schema) instead of blobRef
}

func partsJSON(parts []part) (string, int64, []string) {
	var sb strings.Builder
	var total int64
	var links []string
	sb.WriteString("[")
	for i, p := range parts {
		if i > 0 {
			sb.WriteString(",")
		}
		key := "blobRef"
		if p.bytes {
			key = "bytesRef"
		}
		sz := p.n.size
		if p.n.Absent {
			sz = 11
		}
		fmt.Fprintf(&sb, "\n    {%q: %q, \"size\": %d}", key, p.n.ref.String(), sz)
		total += sz
		links = append(links, p.n.Name)
	}
	sb.WriteString("\n  ]")
	return sb.String(), total, links
}

func (g *gen) bytesBlob(name string, parts []part) *node {
	pj, total, links := partsJSON(parts)
	body := fmt.Sprintf("{\"camliVersion\": 1,\n  \"camliType\": \"bytes\",\n  \"parts\": %s\n}", pj)
	return g.w.add(&node{Name: name, Kind: "bytes", data: []byte(body), Links: links, size: total})
}

// file: fileName may carry the text of a ref (a non-link field).
func (g *gen) file(name string, parts []part, fileNameMention *node) *node {
	pj, total, links := partsJSON(parts)
	fn := name + ".bin"
	var mentions []string
	if fileNameMention != nil {
		fn = fileNameMention.ref.String()
		mentions = []string{fileNameMention.Name}
	}
	body := fmt.Sprintf("{\"camliVersion\": 1,\n  \"camliType\": \"file\",\n  \"fileName\": %s,\n  \"parts\": %s\n}", jsonStr(fn), pj)
	return g.w.add(&node{Name: name, Kind: "file", data: []byte(body), Links: links, Mentions: mentions, size: total})
}

func refList(ns []*node) (string, []string) {
	var ss, names []string
	for _, n := range ns {
		ss = append(ss, fmt.Sprintf("%q", n.ref.String()))
		names = append(names, n.Name)
	}
	return "[" + strings.Join(ss, ", ") + "]", names
}

func (g *gen) staticSet(name string, members, mergeSets []*node) *node {
	var fields []string
	var links []string
	if members != nil {
		l, names := refList(members)
		fields = append(fields, `"members": `+l)
		links = append(links, names...)
	}
	if mergeSets != nil {
		l, names := refList(mergeSets)
		fields = append(fields, `"mergeSets": `+l)
		links = append(links, names...)
		g.w.split = true
	}
	body := fmt.Sprintf("{\"camliVersion\": 1,\n  \"camliType\": \"static-set\",\n  %s\n}", strings.Join(fields, ",\n  "))
	return g.w.add(&node{Name: name, Kind: "static-set", data: []byte(body), Links: links})
}

func (g *gen) dir(name string, entries *node) *node {
	body := fmt.Sprintf("{\"camliVersion\": 1,\n  \"camliType\": \"directory\",\n  \"fileName\": %q,\n  \"entries\": %q\n}", name, entries.ref.String())
	return g.w.add(&node{Name: name, Kind: "directory", data: []byte(body), Links: []string{entries.Name}})
}

// writerSplitDir builds directory entries with the REAL static-set writer
// (schema.SetStaticSetMembers) under a tiny split threshold, so that the blobs are exactly
// what pk-put would upload for a large directory. The structure (which sub-set holds which
// member) follows the writer's documented layout for n/max < max: full sub-sets of max members
// in order, the rest in a last sub-set; it is cross-checked against the produced blobs.
func (g *gen) writerSplitDir(prefix string, members []*node, max int) *node {
	old := schema.VerifSetMaxStaticSetMembers(max)
	defer schema.VerifSetMaxStaticSetMembers(old)
	var refs []blob.Ref
	for _, m := range members {
		refs = append(refs, m.ref)
	}
	ss := schema.NewStaticSet()
	subs := ss.SetStaticSetMembers(refs)
	if len(members) <= max || len(members)/max >= max {
		panic("harness: writerSplitDir outside the simple split regime")
	}
	var subNodes []*node
	for i := 0; i*max < len(members); i++ {
		end := (i + 1) * max
		if end > len(members) {
			end = len(members)
		}
		var names []string
		for _, m := range members[i*max : end] {
			names = append(names, m.Name)
		}
		if i >= len(subs) {
			panic("harness: writer produced fewer sub-sets than modelled")
		}
		sb := subs[i]
		// harness self-check of the layout assumption (not an oracle of the property)
		got := sb.StaticSetMembers()
		if len(got) != len(names) {
			panic("harness: static-set writer layout differs from the model")
		}
		for j, r := range got {
			if r != members[i*max+j].ref {
				panic("harness: static-set writer layout differs from the model")
			}
		}
		subNodes = append(subNodes, g.w.add(&node{Name: fmt.Sprintf("%ssub%d", prefix, i), Kind: "static-set", data: []byte(sb.JSON()), Links: names}))
	}
	if len(subNodes) != len(subs) {
		panic("harness: writer produced more sub-sets than modelled")
	}
	var names []string
	for _, s := range subNodes {
		names = append(names, s.Name)
	}
	g.w.split = true
	return g.w.add(&node{Name: prefix + "set", Kind: "static-set", data: []byte(ss.Blob().JSON()), Links: names})
}

func (g *gen) signer(second bool) (*vsign.Identity, string) {
	if second {
		return vsign.Second(), "second"
	}
	return vsign.Test(), "test"
}

func (g *gen) ensureKey(id *vsign.Identity, name string) {
	if _, ok := g.w.byName["key-"+name]; ok {
		return
	}
	g.w.add(&node{Name: "key-" + name, Kind: "pubkey", data: []byte(id.Armored)})
}

func (g *gen) signed(name, kind string, b *schema.Builder, second bool) *node {
	id, sname := g.signer(second)
	g.ensureKey(id, sname)
	d := g.nextDate()
	b.SetClaimDate(d)
	// one claim in five comes from a serializer that puts whitespace in front of "camliVersion"
	style := 0
	if g.t != nil && rapid.IntRange(0, 4).Draw(g.t, "foreignSerializer") == 0 {
		style = rapid.IntRange(1, vsign.NumLeadStyles-1).Draw(g.t, "leadStyle")
	}
	tb := id.SignStyled(b, d, style)
	return g.w.add(&node{Name: name, Kind: kind, data: []byte(tb.Contents), Signer: sname})
}

func (g *gen) share(name string, si shareInfo, second bool) *node {
	b := schema.NewShareRef(schema.ShareHaveRef, si.Transitive)
	if si.Search {
		b.SetShareSearch(map[string]any{"expression": "tag:verif"})
	} else {
		b.SetShareTarget(g.w.get(si.Target).ref)
	}
	switch si.Expiry {
	case "past":
		at := farPast
		if si.PastAt != "" {
			var err error
			if at, err = time.Parse(time.RFC3339, si.PastAt); err != nil {
				panic("harness: " + err.Error())
			}
		}
		b.SetShareExpiration(at)
	case "future":
		b.SetShareExpiration(farFuture)
	}
	n := g.signed(name, "share", b, second)
	n.Share = &si
	return n
}

func (g *gen) deleteClaim(name, target string, second bool) *node {
	n := g.signed(name, "delete", schema.NewDeleteClaim(g.w.get(target).ref), second)
	n.Deletes = target
	if g.w.get(target).Kind == "delete" {
		g.w.undel = true
	}
	return n
}

func genWorld(t *rapid.T) *world {
	g := &gen{t: t, w: &world{byName: map[string]*node{}, byRef: map[blob.Ref]*node{}}}
	g.salt = rapid.Uint64().Draw(t, "salt")
	w := g.w

	// data blobs
	nData := rapid.IntRange(2, 3).Draw(t, "nData")
	var datas []*node
	for i := 0; i < nData; i++ {
		datas = append(datas, g.data(fmt.Sprintf("d%d", i)))
	}
	var dangling *node
	if rapid.IntRange(0, 3).Draw(t, "dangling") == 0 {
		dangling = g.absent("gone")
	}

	// a file with (optionally nested) bytes parts
	var linkable []*node // things a share may target / a mention may name
	linkable = append(linkable, datas...)
	fileParts := []part{{n: datas[0]}}
	switch rapid.IntRange(0, 2).Draw(t, "bytesDepth") {
	case 1:
		b := g.bytesBlob("B", []part{{n: datas[1]}})
		fileParts = append(fileParts, part{n: b, bytes: true})
		linkable = append(linkable, b)
	case 2:
		b2 := g.bytesBlob("B2", []part{{n: datas[len(datas)-1]}})
		b := g.bytesBlob("B", []part{{n: datas[1]}, {n: b2, bytes: true}})
		fileParts = append(fileParts, part{n: b, bytes: true})
		linkable = append(linkable, b, b2)
	}
	if dangling != nil && rapid.Bool().Draw(t, "danglingPart") {
		fileParts = append(fileParts, part{n: dangling})
	}
	var fnMention *node
	if rapid.Bool().Draw(t, "fileNameMention") {
		fnMention = datas[len(datas)-1]
	}
	F := g.file("F", fileParts, fnMention)
	linkable = append(linkable, F)

	// directory shapes
	dirShape := rapid.SampledFrom([]string{"none", "flat", "split", "nested", "mixed", "writer"}).Draw(t, "dirShape")
	if dirShape != "none" {
		G := g.file("G", []part{{n: datas[1]}}, nil)
		linkable = append(linkable, G)
		var top *node
		switch dirShape {
		case "flat":
			top = g.staticSet("S", []*node{F, G}, nil)
		case "split":
			s1 := g.staticSet("S1", []*node{F}, nil)
			s2 := g.staticSet("S2", []*node{G}, nil)
			top = g.staticSet("S", nil, []*node{s1, s2})
			linkable = append(linkable, s1, s2)
		case "nested":
			s3 := g.staticSet("S3", []*node{G}, nil)
			s1 := g.staticSet("S1", []*node{F}, nil)
			s2 := g.staticSet("S2", nil, []*node{s3})
			top = g.staticSet("S", nil, []*node{s1, s2})
			linkable = append(linkable, s1, s2, s3)
		case "mixed": // members and mergeSets in one set
			s1 := g.staticSet("S1", []*node{G}, nil)
			top = g.staticSet("S", []*node{F}, []*node{s1})
			linkable = append(linkable, s1)
		case "writer":
			H := g.file("H", []part{{n: datas[0]}, {n: datas[1]}}, nil)
			I := g.file("I", []part{{n: datas[len(datas)-1]}}, nil)
			top = g.writerSplitDir("W", []*node{F, G, H, I}, 3)
			linkable = append(linkable, H, I, w.get("Wsub0"), w.get("Wsub1"))
		}
		D := g.dir("D", top)
		linkable = append(linkable, top, D)
	}

	// blobs that merely mention a ref
	pick := func(label string) *node {
		return linkable[rapid.IntRange(0, len(linkable)-1).Draw(t, label)]
	}
	nMent := rapid.IntRange(0, 3).Draw(t, "nMentions")
	var mentionNodes []*node
	for i := 0; i < nMent; i++ {
		m := pick("mentioned")
		name := fmt.Sprintf("M%d", i)
		msalt := g.salt*4 + uint64(i) // distinct bytes for two mentions of the same kind and ref
		var n *node
		switch rapid.SampledFrom([]string{"text", "json", "symlink", "wrongfield", "wrongfield", "attr", "claimsfield"}).Draw(t, "mentionKind") {
		case "text":
			n = w.add(&node{Name: name, Kind: "mention/text", data: []byte(fmt.Sprintf("%016x note to self: the secret is in %s, do not tell", msalt, m.ref))})
		case "json": // JSON, not a schema blob
			n = w.add(&node{Name: name, Kind: "mention/json", data: []byte(fmt.Sprintf("{\"note\": %q, \"parts\": [{\"blobRef\": %q, \"size\": 1}], \"salt\": \"%x\"}", m.ref.String(), m.ref.String(), msalt))})
		case "symlink": // schema blob, ref in a non-link field
			n = w.add(&node{Name: name, Kind: "mention/symlink", data: []byte(fmt.Sprintf("{\"camliVersion\": 1,\n  \"camliType\": \"symlink\",\n  \"fileName\": \"l%x\",\n  \"symlinkTarget\": %q\n}", msalt, m.ref.String()))})
		case "wrongfield": // link-looking field on a type for which it is not a link
			typ := rapid.SampledFrom([]string{"bytes-entries", "file-members", "directory-members", "static-set-entries", "inode-parts"}).Draw(t, "wrongfield")
			var body string
			switch typ {
			case "bytes-entries":
				body = fmt.Sprintf("{\"camliVersion\": 1,\n  \"camliType\": \"bytes\",\n  \"entries\": %q,\n  \"parts\": [],\n  \"verifSalt\": \"%x\"\n}", m.ref.String(), msalt)
			case "file-members":
				body = fmt.Sprintf("{\"camliVersion\": 1,\n  \"camliType\": \"file\",\n  \"fileName\": \"w%x\",\n  \"members\": [%q],\n  \"mergeSets\": [%q],\n  \"parts\": []\n}", msalt, m.ref.String(), m.ref.String())
			case "directory-members":
				body = fmt.Sprintf("{\"camliVersion\": 1,\n  \"camliType\": \"directory\",\n  \"fileName\": \"w%x\",\n  \"entries\": %q,\n  \"members\": [%q]\n}", msalt, datas[0].ref.String(), m.ref.String())
			case "static-set-entries":
				body = fmt.Sprintf("{\"camliVersion\": 1,\n  \"camliType\": \"static-set\",\n  \"entries\": %q,\n  \"members\": [],\n  \"verifSalt\": \"%x\"\n}", m.ref.String(), msalt)
			default:
				body = fmt.Sprintf("{\"camliVersion\": 1,\n  \"camliType\": \"inode\",\n  \"parts\": [{\"blobRef\": %q, \"size\": 1}],\n  \"members\": [%q],\n  \"entries\": %q,\n  \"verifSalt\": \"%x\"\n}", m.ref.String(), m.ref.String(), m.ref.String(), msalt)
			}
			n = &node{Name: name, Kind: "mention/wrongfield-" + typ, data: []byte(body)}
			if typ == "directory-members" {
				n.Links = []string{datas[0].Name} // its genuine entries link
			}
			n.size = 0
			w.add(n)
		case "attr": // attribute value of a claim on a permanode
			pn := g.signed(name+"p", "permanode", schema.NewPlannedPermanode(fmt.Sprintf("verif-%x-%d", g.salt, i)), false)
			n = g.signed(name, "mention/attr-claim", schema.NewSetAttributeClaim(pn.ref, "camliContent", m.ref.String()), false)
			n.Mentions = []string{pn.Name}
			linkable = append(linkable, pn)
		case "claimsfield": // an (unsigned) JSON object shaped like a share but without signature: not a claim
			n = w.add(&node{Name: name, Kind: "mention/unsigned-share-shape", data: []byte(fmt.Sprintf("{\"camliVersion\": 1,\n  \"camliType\": \"keep\",\n  \"authType\": \"haveref\",\n  \"target\": %q,\n  \"transitive\": true,\n  \"salt\": \"%x\"\n}", m.ref.String(), msalt))})
		}
		n.Mentions = append(n.Mentions, m.Name)
		linkable = append(linkable, n)
		mentionNodes = append(mentionNodes, n)
	}
	if dangling != nil {
		linkable = append(linkable, dangling)
	}

	// share claims
	nShares := rapid.IntRange(1, 3).Draw(t, "nShares")
	var claims []*node // shares and delete claims (possible delete targets)
	for i := 0; i < nShares; i++ {
		si := shareInfo{
			Transitive: rapid.Bool().Draw(t, "transitive"),
			Expiry:     rapid.SampledFrom([]string{"none", "none", "future", "past"}).Draw(t, "expiry"),
		}
		if si.Expiry == "past" {
			si.PastAt = rapid.SampledFrom(pastInstants).Draw(t, "expiredAt")
		}
		if rapid.IntRange(0, 9).Draw(t, "searchShare") == 0 {
			si.Search = true
		} else {
			// what the share points at: the interesting roots (directory, file), a blob that merely
			// mentions refs (the chain through it must stop there), or any blob incl. an earlier claim
			var cands []*node
			switch k := rapid.IntRange(0, 9).Draw(t, "targetKind"); {
			case k <= 2 && w.byName["D"] != nil:
				cands = []*node{w.get("D")}
			case k <= 4:
				cands = []*node{F}
			case k <= 7 && len(mentionNodes) > 0:
				cands = mentionNodes
			default:
				cands = append(append([]*node{}, linkable...), claims...)
			}
			si.Target = cands[rapid.IntRange(0, len(cands)-1).Draw(t, "target")].Name
		}
		claims = append(claims, g.share(fmt.Sprintf("share%d", i), si, rapid.IntRange(0, 4).Draw(t, "secondSigner") == 0))
	}
	// delete / undelete claims
	nDel := rapid.IntRange(0, 3).Draw(t, "nDeletes")
	for i := 0; i < nDel; i++ {
		tgt := claims[rapid.IntRange(0, len(claims)-1).Draw(t, "deleteTarget")]
		claims = append(claims, g.deleteClaim(fmt.Sprintf("del%d", i), tgt.Name, rapid.IntRange(0, 4).Draw(t, "secondSigner") == 0))
	}
	return w
}

// ---------------------------------------------------------------------------
// environment: memory store + memory index + share handler via CreateHandler
// ---------------------------------------------------------------------------

type loader struct {
	sto blobserver.Storage
	idx *index.Index
}

func (l *loader) FindHandlerByType(string) (string, any, error) {
	return "", nil, blobserver.ErrHandlerTypeNotFound
}
func (l *loader) AllHandlers() (map[string]string, map[string]any) { return nil, nil }
func (l *loader) MyPrefix() string                                 { return "/share/" }
func (l *loader) BaseURL() string                                  { return "http://verif.invalid" }
func (l *loader) GetHandlerType(p string) string {
	switch p {
	case "/bs/":
		return "storage-memory"
	case "/index/":
		return "storage-index"
	}
	return ""
}
func (l *loader) GetHandler(p string) (any, error) {
	switch p {
	case "/bs/":
		return l.sto, nil
	case "/index/":
		return l.idx, nil
	}
	return nil, fmt.Errorf("no handler %q", p)
}
func (l *loader) GetStorage(p string) (blobserver.Storage, error) {
	if p == "/bs/" {
		return l.sto, nil
	}
	return nil, fmt.Errorf("no storage %q", p)
}

type env struct {
	w      *world
	sto    *memory.Storage
	idx    *index.Index
	h      http.Handler
	prefix string // "" = bare handler, else the mount point, e.g. "/share/"
}

var ctxbg = context.Background()

func newEnv(w *world) (*env, error) {
	sto := &memory.Storage{}
	idx := index.NewMemoryIndex()
	idx.InitBlobSource(sto)
	e := &env{w: w, sto: sto, idx: idx}
	for _, n := range w.nodes {
		if n.Absent {
			continue
		}
		if _, err := blobserver.Receive(ctxbg, sto, n.ref, strings.NewReader(string(n.data))); err != nil {
			return nil, fmt.Errorf("store %s: %v", n.Name, err)
		}
		if _, err := idx.ReceiveBlob(ctxbg, n.ref, strings.NewReader(string(n.data))); err != nil {
			return nil, fmt.Errorf("index %s (%s): %v\n%s", n.Name, n.ref, err, n.data)
		}
	}
	idx.VerifAwaitAsync()
	h, err := blobserver.CreateHandler("share", &loader{sto: sto, idx: idx}, jsonconfig.Obj{"blobRoot": "/bs/", "index": "/index/"})
	if err != nil {
		return nil, err
	}
	e.h = h
	return e, nil
}

func (w *world) dump() []*node {
	out := make([]*node, len(w.nodes))
	for i, n := range w.nodes {
		c := *n
		c.Body = string(n.data)
		if c.Kind == "pubkey" {
			c.Body = "(armored public key)"
		}
		out[i] = &c
	}
	return out
}

func (w *world) canon() string {
	var refs []string
	for _, n := range w.nodes {
		refs = append(refs, n.Name+"="+n.Ref)
	}
	sort.Strings(refs)
	return strings.Join(refs, ";")
}

func chainNames(c []*node) string {
	var s []string
	for _, n := range c {
		s = append(s, n.Name)
	}
	return strings.Join(s, ">")
}
