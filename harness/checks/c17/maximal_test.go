package c17

import (
	"bytes"
	"fmt"
	"testing"

	"perkeep.org/pkg/blob"
	"perkeep.org/pkg/schema"
	"pgregory.net/rapid"

	"verifharness/internal/evid"
)

// TestChainThroughLargestSchemaBlobs: a transitive share of a file whose schema blob is as large as a
// schema blob may be (schema.MaxSchemaBlobSize bytes exactly, and a few sizes just below; the padding is
// JSON whitespace in front of the closing brace). Its links are genuine schema links, so the chain
// share > file > chunk is valid and must be served, and the chain that skips the file is not.
func TestChainThroughLargestSchemaBlobs(t *testing.T) {
	evid.Check(t, 2, 8, func(t *rapid.T) {
		for _, below := range []int{0, rapid.SampledFrom([]int{1, 2, 1000}).Draw(t, "belowTheLimit")} {
			size := schema.MaxSchemaBlobSize - below
			g := &gen{w: &world{byName: map[string]*node{}, byRef: map[blob.Ref]*node{}}, salt: rapid.Uint64Range(1, 1<<20).Draw(t, "salt")}
			d0 := g.data("d0")
			other := g.data("d1")
			F := g.file("F", []part{{n: d0}}, nil)
			// re-add F padded to the wanted size: same links, other bytes (and ref)
			body := F.data
			pad := size - len(body)
			if pad < 0 {
				t.Fatalf("harness: file blob already larger than %d", size)
			}
			padded := append(append(append([]byte{}, body[:len(body)-1]...), bytes.Repeat([]byte{' '}, pad)...), '}')
			big := g.w.add(&node{Name: "Fmax", Kind: "file", data: padded, Links: F.Links, size: F.size})
			sh := g.share("share0", shareInfo{Target: "Fmax", Transitive: true, Expiry: "none"}, false)
			e, err := newEnv(g.w)
			if err != nil {
				t.Fatalf("harness: %v", err)
			}
			evid.R.Label(fmt.Sprintf("maximal/file-schema-blob-of-%d-bytes", len(padded)))
			for _, c := range [][]*node{{sh}, {sh, big}, {sh, big, d0}, {sh, d0}, {sh, big, other}, {big}} {
				v := g.w.validate(c)
				evid.R.Eval()
				if v.served && len(c) == 3 {
					evid.R.NonTrivial(evid.Hash("maximal", len(padded), g.salt, chainNames(c)))
				}
				if f := e.checkGET(c, v); f != nil {
					t.Fatalf("C17 violated (file schema blob of %d bytes, limit %d): %s", len(padded), schema.MaxSchemaBlobSize, f.msg)
				}
			}
			if evid.R.WantSample(true) {
				evid.R.Sample(true, map[string]any{"kind": "chain-through-largest-schema-blob", "schema_blob_bytes": len(padded), "limit": schema.MaxSchemaBlobSize})
			}
		}
	})
}
