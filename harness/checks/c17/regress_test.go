package c17

import (
	"testing"

	"perkeep.org/pkg/blob"

	"verifharness/internal/evid"
)

// Regression for fix aafe31f (share: follow static-set mergeSets): the shrunk generated case was
// "valid chain share>D>S>S1 is NOT served: HTTP 401" for a transitive share of a directory whose
// static-set is split into sub-sets.
func TestRegressMergeSetsChain(t *testing.T) {
	if evid.Replaying() {
		t.Skip()
	}
	g := &gen{w: &world{byName: map[string]*node{}, byRef: map[blob.Ref]*node{}}, salt: 7}
	d0 := g.data("d0")
	F := g.file("F", []part{{n: d0}}, nil)
	s1 := g.staticSet("S1", []*node{F}, nil)
	S := g.staticSet("S", nil, []*node{s1})
	D := g.dir("D", S)
	sh := g.share("share0", shareInfo{Target: "D", Transitive: true, Expiry: "none"}, false)
	nt := g.share("share1", shareInfo{Target: "D", Transitive: false, Expiry: "none"}, false)
	e, err := newEnv(g.w)
	if err != nil {
		t.Fatal(err)
	}
	for _, c := range [][]*node{{sh}, {sh, D}, {sh, D, S}, {sh, D, S, s1}, {sh, D, S, s1, F}, {sh, D, S, s1, F, d0}, // served
		{nt, D}, {nt, D, S}, {sh, D, s1}, {sh, S}, {sh, D, S, F}, {s1}, {sh, D, S, s1, d0}} {
		v := g.w.validate(c)
		if f := e.checkGET(c, v); f != nil {
			t.Errorf("C17 violated: %s", f.msg)
		}
	}
}
