package c17

import (
	"bytes"
	"encoding/base64"
	"encoding/json"
	"fmt"
	"io"
	"mime/multipart"
	"net/http"
	"net/http/httptest"
	"net/url"
	"os"
	"sort"
	"strings"
	"testing"
	"time"

	"perkeep.org/pkg/auth"
	"perkeep.org/pkg/blob"
	"pgregory.net/rapid"

	"verifharness/internal/evid"
	"verifharness/internal/vhttp"
)

// ---------------------------------------------------------------------------
// (b) every endpoint of a loaded configuration refuses unauthenticated requests
// ---------------------------------------------------------------------------
//
// PUBLIC EXCEPTIONS, derived from the code (not from observation):
//   * pkg/server/root.go RootHandler.ServeHTTP (handler type "root" is not in
//     serverinit.handlerTypeWantsAuth; it checks auth itself for discovery only): URL path
//     exactly "/" -> the splash page "This is perkeepd (...)" (or a 301 to the UI when
//     RequestURI is "/" and a UI is configured), "/favicon.ico" -> a static icon,
//     "/mobile-setup" -> 302; every other path routed to it -> 404; discovery
//     (Accept: text/x-camli-configuration or ?camli.mode=config) -> 401 without OpDiscovery.
//     So an unauthenticated 2xx is allowed for URL paths "/" and "/favicon.ico" only, and the
//     body of "/" must be the splash page.
//   * handler type "share" (pkg/server/share.go) is public by design and governed by the chain
//     validator (part (a), repeated here through the mux at /share/).
//   * serverinit.InstallHandlers additionally mounts /debug/vars, /debug/pprof/, /debug/goroutines,
//     /debug/config and /debug/logs/. They report status, so the statement's "every other endpoint"
//     covers them: all five are swept. (/debug/vars and /debug/pprof/ were served without
//     credentials until fix 93ebe86; see known_findings.json C17-debug-vars-pprof-unauthenticated.)

type cred struct {
	class string // none | wrong/... | correct/...
	hdr   string // Authorization header ("" = none)
}

func basic(u, p string) string {
	return "Basic " + base64.StdEncoding.EncodeToString([]byte(u+":"+p))
}

type authMode struct {
	Kind   string `json:"kind"` // userpass | userpass+vivify | token
	Config string `json:"config"`
	User   string `json:"user,omitempty"`
	Pass   string `json:"pass,omitempty"`
	Vivify string `json:"vivify,omitempty"`
	Token  string `json:"token,omitempty"`
}

func genAuth(t *rapid.T) authMode {
	word := rapid.StringMatching(`[A-Za-z0-9]{1,10}`)
	kind := rapid.SampledFrom([]string{"userpass", "userpass", "userpass+vivify", "token"}).Draw(t, "authKind")
	am := authMode{Kind: kind}
	switch kind {
	case "userpass":
		am.User, am.Pass = word.Draw(t, "user"), word.Draw(t, "pass")
		am.Config = "userpass:" + am.User + ":" + am.Pass
	case "userpass+vivify":
		am.User, am.Pass = word.Draw(t, "user"), word.Draw(t, "pass")
		am.Vivify = word.Filter(func(s string) bool { return s != am.Pass }).Draw(t, "vivify")
		am.Config = "userpass:" + am.User + ":" + am.Pass + ":vivify=" + am.Vivify
	case "token":
		am.Token = word.Draw(t, "token")
		am.Config = "token:" + am.Token
	}
	return am
}

// credentials that must NOT open anything, and the one that must.
func (am authMode) creds() (wrong []cred, correct []cred) {
	wrong = append(wrong, cred{"none", ""})
	ptok := auth.Token() // process-wide UI token, accepted by every mode (pkg/auth authTokenHeaderMatches)
	switch am.Kind {
	case "userpass", "userpass+vivify":
		u, p := am.User, am.Pass
		wrong = append(wrong,
			cred{"wrong/password", basic(u, p+"x")},
			cred{"wrong/password-prefix", basic(u, p[:len(p)-1])},
			cred{"wrong/empty-password", basic(u, "")},
			cred{"wrong/user", basic(u+"x", p)},
			cred{"wrong/empty-user", basic("", p)},
			cred{"wrong/swapped", basic(p+"~", u+"~")},
			cred{"wrong/password-as-token", "Token " + p},
			cred{"wrong/bearer", "Bearer " + p},
			cred{"wrong/basic-garbage", "Basic !!!"},
			cred{"wrong/basic-nocolon", "Basic " + base64.StdEncoding.EncodeToString([]byte(u+p))},
			cred{"wrong/token-prefix", "Token " + ptok[:len(ptok)-1]},
			cred{"wrong/token-empty", "Token "},
		)
		if strings.ToUpper(u) != u {
			wrong = append(wrong, cred{"wrong/user-case", basic(strings.ToUpper(u), p)})
		}
		if strings.ToUpper(p) != p {
			wrong = append(wrong, cred{"wrong/password-case", basic(u, strings.ToUpper(p))})
		}
		correct = append(correct, cred{"correct/userpass", basic(u, p)}, cred{"correct/process-token", "Token " + ptok})
	case "token":
		wrong = append(wrong,
			cred{"wrong/token", "Token " + am.Token + "x"},
			cred{"wrong/token-as-basic-password", basic("", am.Token)},
			cred{"wrong/token-as-basic-user", basic(am.Token, "")},
			cred{"wrong/bearer", "Bearer " + am.Token},
			cred{"wrong/token-prefix", "Token " + ptok[:len(ptok)-1]},
			cred{"wrong/token-empty", "Token "},
		)
		// pkg/auth tokenAuth.AllowedAccess compares the header with the PROCESS token (auth.Token()),
		// never with the configured string; so the credential that opens a token-mode server is
		// the process token. "Token <configured>" is recorded as an observation only.
		correct = append(correct, cred{"correct/process-token", "Token " + ptok})
	}
	return
}

type epReq struct {
	method string
	path   string // URL path + query
	sym    string // symbolic path for hashing/reporting (refs replaced by names)
	ctype  string
	body   []byte
	accept string
}

func do(mux http.Handler, r epReq, c cred) reqResult {
	var body io.Reader
	if r.body != nil {
		body = bytes.NewReader(r.body)
	}
	req := httptest.NewRequest(r.method, "http://verif.invalid"+r.path, body)
	if r.ctype != "" {
		req.Header.Set("Content-Type", r.ctype)
	}
	if r.accept != "" {
		req.Header.Set("Accept", r.accept)
	}
	if c.hdr != "" {
		req.Header.Set("Authorization", c.hdr)
	}
	rec := httptest.NewRecorder()
	func() {
		// net/http recovers a handler panic and drops the connection; model that as status 599.
		// (Seen with credentials only: GET /bs-and-index/camli/<ref> -> replica.Fetch ->
		// (*index.Index).Fetch on the nil embedded *NoImplStorage.)
		defer func() {
			if p := recover(); p != nil {
				rec = httptest.NewRecorder()
				rec.Code = 599
				evid.R.Label("endpoint/handler-panic-recovered(" + c.class[:strings.IndexAny(c.class+"/", "/")] + ")")
			}
		}()
		mux.ServeHTTP(rec, req)
	}()
	return reqResult{rec.Code, rec.Body.Bytes(), rec.Result().Header}
}

func multipartBody(blobs map[string][]byte) (string, []byte) {
	var buf bytes.Buffer
	mw := multipart.NewWriter(&buf)
	var refs []string
	for r := range blobs {
		refs = append(refs, r)
	}
	sort.Strings(refs)
	for _, r := range refs {
		pw, _ := mw.CreateFormFile(r, r)
		pw.Write(blobs[r])
	}
	mw.Close()
	return mw.FormDataContentType(), buf.Bytes()
}

var methods = []string{"GET", "HEAD", "POST", "PUT", "DELETE"}

func TestEndpoints(t *testing.T) {
	openDebug := map[string]bool{}
	evid.Check(t, 10, 45, func(t *rapid.T) {
		spec := vhttp.Spec{
			Storage: rapid.SampledFrom(vhttp.Storages).Draw(t, "storage"),
			Index:   rapid.SampledFrom(vhttp.Indexes).Draw(t, "index"),
			Share:   rapid.IntRange(0, 3).Draw(t, "share") != 0,
		}
		am := genAuth(t)
		spec.Auth = am.Config
		w := genWorld(t)
		srv, err := vhttp.Start(spec, false)
		if err != nil {
			t.Fatalf("harness: %v", err)
		}
		defer srv.Close()
		mux := srv.Mux
		wrong, correct := am.creds()
		good := correct[0]
		cfgName := fmt.Sprintf("%s+%s+share=%v+%s", spec.Storage, spec.Index, spec.Share, am.Kind)
		fail := func(format string, a ...any) {
			t.Fatalf("C17 violated [%s auth=%q]: %s", cfgName, am.Config, fmt.Sprintf(format, a...))
		}
		prefixes, types := srv.Prefixes()
		blobRoot := "/bs-and-maybe-also-index/"
		if types[blobRoot] == "" {
			t.Fatalf("harness: no %s in %v", blobRoot, types)
		}

		tPhase := time.Now()
		phase := func(n string) {
			if os.Getenv("VERIF_C17_TIMING") != "" {
				fmt.Printf("  phase %s: %v\n", n, time.Since(tPhase))
			}
			tPhase = time.Now()
		}
		// ---- 1. populate the store with the world through the authenticated blob root ----
		for _, n := range w.nodes {
			if n.Absent {
				continue
			}
			r := do(mux, epReq{method: "PUT", path: blobRoot + "camli/" + n.Ref, body: n.data}, good)
			if r.code/100 != 2 {
				t.Fatalf("harness: authenticated PUT of %s failed: HTTP %d %s", n.Name, r.code, r.body)
			}
		}
		var present []*node
		for _, n := range w.nodes {
			if !n.Absent {
				present = append(present, n)
			}
		}
		secret := present[0] // a data blob
		intruder := []byte(fmt.Sprintf("verif-intruder-blob:%x: written without credentials", w.nodes[0].ref.String()))
		intruderRef := blob.RefFromBytes(intruder).String()
		intruder2 := []byte(fmt.Sprintf("verif-intruder-blob-2:%x: written without credentials", w.nodes[0].ref.String()))
		intruder2Ref := blob.RefFromBytes(intruder2).String()

		// secrets that must never show up in an answer to an unauthenticated request
		type marker struct {
			name string
			b    []byte
		}
		var markers []marker
		for _, n := range present {
			if len(n.data) >= 16 {
				markers = append(markers, marker{"bytes of " + n.Name, n.data})
			}
			markers = append(markers, marker{"ref of " + n.Name, []byte(n.Ref)})
		}
		markers = append(markers, marker{"process auth token", []byte(auth.Token())})
		for _, s := range []string{am.Pass, am.Vivify, am.Token} {
			if len(s) >= 6 {
				markers = append(markers, marker{"configured secret", []byte(s)})
			}
		}

		phase("populate")
		// ---- 2. the share endpoint through the mux (public by design) ----
		if spec.Share {
			e := &env{w: w, h: mux, prefix: "/share/"}
			exercise(t, e, "endpoint-share", 2, 9)
		} else {
			for _, vc := range w.validChains(6) {
				e := &env{w: w, h: mux, prefix: "/share/"}
				r := e.do("GET", vc, "")
				evid.R.Eval()
				evid.R.Label("endpoint-share/disabled-refused")
				if r.code/100 == 2 {
					fail("no share handler configured, yet GET /share/ chain %s answered HTTP %d %q", chainNames(vc), r.code, trunc(r.body))
				}
			}
		}

		phase("share")
		// ---- 3. the request matrix ----
		statForm := "camliversion=1&blob1=" + secret.Ref + "&blob2=" + intruderRef + "&blob3=" + intruder2Ref
		mpType, mpBody := multipartBody(map[string][]byte{intruderRef: intruder})
		queryJSON := []byte(`{"constraint": {"blobRefPrefix": "sha"}, "describe": {"depth": 1}}`)
		signForm := "json=" + url.QueryEscape(`{"camliVersion": 1, "camliType": "permanode", "random": "x", "camliSigner": "`+w.signerRef()+`"}`)
		type sub struct {
			path, sym string
			post      []byte // body for POST/PUT ("" => none)
			ctype     string
			accept    string
			getOnly   bool
		}
		subs := []sub{
			{path: "", sym: ""},
			{path: "?camli.mode=config", sym: "?camli.mode=config"},
			{path: "", sym: "(Accept: text/x-camli-configuration)", accept: "text/x-camli-configuration"},
			{path: "camli/enumerate-blobs", sym: "camli/enumerate-blobs"},
			{path: "camli/enumerate-blobs?limit=3&after=sha224-", sym: "camli/enumerate-blobs?limit=3&after=sha224-"},
			{path: "camli/stat?" + statForm, sym: "camli/stat?camliversion=1&blob1=SECRET..", post: []byte(statForm), ctype: "application/x-www-form-urlencoded"},
			{path: "camli/stat", sym: "camli/stat", post: []byte(statForm), ctype: "application/x-www-form-urlencoded"},
			{path: "camli/upload", sym: "camli/upload", post: mpBody, ctype: mpType},
			{path: "camli/remove", sym: "camli/remove", post: []byte("blob1=" + secret.Ref), ctype: "application/x-www-form-urlencoded"},
			{path: "camli/" + secret.Ref, sym: "camli/SECRET", post: secret.data},
			{path: "camli/" + intruder2Ref, sym: "camli/INTRUDER2", post: intruder2},
			{path: "camli/" + w.nodes[len(w.nodes)-1].Ref, sym: "camli/LASTCLAIM"},
			{path: "camli/search/query", sym: "camli/search/query", post: queryJSON, ctype: "application/json"},
			{path: "camli/search/recent", sym: "camli/search/recent"},
			{path: "camli/search/describe?blobref=" + secret.Ref, sym: "camli/search/describe?blobref=SECRET", post: []byte(`{"blobref": "` + secret.Ref + `"}`), ctype: "application/json"},
			{path: "camli/search/claims?permanode=" + secret.Ref, sym: "camli/search/claims?permanode=SECRET"},
			{path: "camli/search/files?wholedigest=" + secret.Ref, sym: "camli/search/files?wholedigest=SECRET"},
			{path: "camli/search/ws", sym: "camli/search/ws"},
			{path: "camli/sig/sign", sym: "camli/sig/sign", post: []byte(signForm), ctype: "application/x-www-form-urlencoded"},
			{path: "camli/sig/verify", sym: "camli/sig/verify", post: []byte("sjson=" + url.QueryEscape(string(w.nodes[len(w.nodes)-1].data))), ctype: "application/x-www-form-urlencoded"},
			{path: "camli/sig/discovery", sym: "camli/sig/discovery"},
			{path: "status.json", sym: "status.json"},
			{path: "restart", sym: "restart", getOnly: true}, // never POSTed: with credentials it re-execs the process
			{path: "?clientConfig=true", sym: "?clientConfig=true"},
			{path: "download/" + w.get("F").Ref + "/f.bin", sym: "download/F/f.bin"},
			{path: "thumbnail/" + w.get("F").Ref + "/t.jpg?mw=10&mh=10", sym: "thumbnail/F/t.jpg"},
			{path: "tree/" + w.get("F").Ref, sym: "tree/F"},
			{path: "index.html", sym: "index.html"},
			{path: "?p=" + secret.Ref, sym: "?p=SECRET"},
			{path: "?b=" + secret.Ref, sym: "?b=SECRET"},
			{path: secret.Ref, sym: "SECRET"},
			{path: secret.Ref + "?via=" + w.nodes[len(w.nodes)-1].Ref, sym: "SECRET?via=LASTCLAIM"},
			{path: "dummy", sym: "dummy"},
			{path: "dummy/", sym: "dummy/"},
			{path: "queue", sym: "queue"},
			{path: "camli/ws", sym: "camli/ws"},
			{path: "favicon.ico", sym: "favicon.ico"},
			{path: "mobile-setup", sym: "mobile-setup"},
		}
		targets := append([]string{}, prefixes...)
		targets = append(targets, "/debug/goroutines", "/debug/config", "/debug/logs/", "/debug/vars", "/debug/pprof/", "/no-such-prefix/")
		var reqs []epReq
		for _, p := range targets {
			for _, sb := range subs {
				if !strings.HasSuffix(p, "/") && sb.path != "" {
					continue
				}
				for _, m := range methods {
					if sb.getOnly && m != "GET" && m != "HEAD" {
						continue
					}
					r := epReq{method: m, path: p + sb.path, sym: p + sb.sym, accept: sb.accept}
					if (m == "POST" || m == "PUT") && sb.post != nil {
						r.body, r.ctype = sb.post, sb.ctype
					}
					reqs = append(reqs, r)
				}
			}
		}

		publicOK := func(r epReq, res reqResult) bool {
			u, _ := url.Parse(r.path)
			switch u.Path {
			case "/":
				// the splash page of the root handler (whatever the method or query), never the
				// discovery document (which only GET/HEAD can ask for, and which needs OpDiscovery)
				return bytes.HasPrefix(res.body, []byte("<html><body><p>This is perkeepd")) && !bytes.Contains(res.body, []byte("blobRoot"))
			case "/favicon.ico":
				return true
			}
			return false
		}

		// ---- 4. without / with wrong credentials: refused ----
		nUn := 0
		for _, r := range reqs {
			for _, c := range wrong {
				res := do(mux, r, c)
				nUn++
				if spec.Share && strings.HasPrefix(r.path, "/share/") {
					continue // public by design; governed by the chain validator (step 2)
				}
				if res.code/100 == 2 && !publicOK(r, res) {
					fail("%s %s with credentials %s answered HTTP %d body=%q; an unauthenticated request must be refused", r.method, r.sym, c.class, res.code, trunc(res.body))
				}
				for _, mk := range markers {
					if bytes.Contains(res.body, mk.b) && !strings.Contains(r.path, string(mk.b)) && !bytes.Contains(r.body, mk.b) {
						fail("%s %s with credentials %s: HTTP %d, body discloses %s: %q", r.method, r.sym, c.class, res.code, mk.name, trunc(res.body))
					}
				}
				for k := range res.hdr {
					for _, v := range res.hdr[k] {
						if strings.Contains(v, auth.Token()) {
							fail("%s %s with credentials %s: response header %s discloses the process auth token", r.method, r.sym, c.class, k)
						}
					}
				}
			}
		}
		evid.R.EvalN(nUn)
		evid.R.LabelN("endpoint/requests-unauthenticated", nUn)

		phase("unauth")
		// ---- 5. nothing was written or removed by them ----
		st := do(mux, epReq{method: "POST", path: blobRoot + "camli/stat", body: []byte(statForm), ctype: "application/x-www-form-urlencoded"}, good)
		var sr struct {
			Stat []struct {
				BlobRef string `json:"blobRef"`
				Size    int    `json:"size"`
			} `json:"stat"`
		}
		if st.code != 200 || json.Unmarshal(st.body, &sr) != nil {
			t.Fatalf("harness: authenticated stat failed: HTTP %d %s", st.code, st.body)
		}
		if len(sr.Stat) != 1 || sr.Stat[0].BlobRef != secret.Ref {
			fail("after the unauthenticated requests an authenticated stat of {stored blob, two blobs offered without credentials} reports %v; want exactly the stored blob %s", sr.Stat, secret.Ref)
		}
		en := do(mux, epReq{method: "GET", path: blobRoot + "camli/enumerate-blobs?limit=1000"}, good)
		var er struct {
			Blobs []struct {
				BlobRef string `json:"blobRef"`
			} `json:"blobs"`
		}
		if en.code != 200 || json.Unmarshal(en.body, &er) != nil {
			t.Fatalf("harness: authenticated enumerate failed: HTTP %d %s", en.code, en.body)
		}
		var got, want []string
		for _, b := range er.Blobs {
			got = append(got, b.BlobRef)
		}
		for _, n := range present {
			want = append(want, n.Ref)
		}
		sort.Strings(want)
		if strings.Join(got, ",") != strings.Join(want, ",") {
			fail("store contents changed by unauthenticated requests: enumerate = %v, uploaded = %v", got, want)
		}

		phase("verify")
		// ---- 6. with correct credentials the same requests are not refused (non-vacuity) ----
		nAuth, n2xx := 0, 0
		for _, c := range correct {
			for _, r := range reqs {
				res := do(mux, r, c)
				nAuth++
				u, _ := url.Parse(r.path)
				typ := ""
				for _, p := range prefixes {
					if strings.HasPrefix(u.Path, p) && len(p) > 1 {
						typ = types[p]
					}
				}
				if res.code == 401 && !(spec.Share && strings.HasPrefix(u.Path, "/share/")) {
					// (the share handler ignores credentials: there 401 = invalid chain)
					fail("%s %s with CORRECT credentials (%s) answered HTTP 401 %q", r.method, r.sym, c.class, trunc(res.body))
				}
				if res.code/100 == 2 {
					n2xx++
					evid.R.Label("endpoint/2xx-with-credentials/" + nz(typ, "root-or-other"))
					if !publicOK(r, res) && !strings.HasPrefix(u.Path, "/share/") {
						// one distinct case per (configuration, auth kind, method, path); every one of
						// them was refused above under each of the len(wrong) credential classes
						if evid.R.NonTrivial(evid.Hash("endpoint", cfgName, r.method, r.sym)) {
							evid.R.LabelN("endpoint/protected-requests-x-credential-classes", len(wrong))
						}
					}
				}
			}
		}
		evid.R.EvalN(nAuth)
		evid.R.LabelN("endpoint/requests-with-correct-credentials", nAuth)
		evid.R.LabelN("endpoint/of-those-2xx", n2xx)
		evid.R.Label("endpoint/config-" + spec.Storage + "+" + spec.Index)
		evid.R.Label("endpoint/auth-" + am.Kind)
		evid.R.Label(fmt.Sprintf("endpoint/share-handler-%v", spec.Share))
		for _, p := range prefixes {
			evid.R.Label("endpoint/prefix-type-" + types[p])
		}

		phase("auth")
		// ---- observations outside the quantifier ----
		for _, p := range []string{"/debug/vars", "/debug/pprof/", "/debug/pprof/goroutine?debug=2"} {
			if res := do(mux, epReq{method: "GET", path: p}, cred{"none", ""}); res.code/100 == 2 {
				openDebug[p] = true
			}
		}
		if am.Kind == "token" {
			res := do(mux, epReq{method: "GET", path: blobRoot + "camli/enumerate-blobs"}, cred{"configured-token", "Token " + am.Token})
			evid.R.Label(fmt.Sprintf("endpoint/observation-token-mode-configured-token-answered-%d", res.code))
		}
		if evid.R.WantSample(true) {
			var ps []string
			for _, p := range prefixes {
				ps = append(ps, p+"="+types[p])
			}
			var wc []string
			for _, c := range wrong {
				wc = append(wc, c.class)
			}
			evid.R.Sample(true, map[string]any{"kind": "endpoint-sweep", "high_level_config": srv.High, "auth": am, "prefixes": ps,
				"requests": len(reqs), "credential_classes": wc, "answered_2xx_with_credentials": n2xx,
				"example_requests": []string{reqs[0].method + " " + reqs[0].sym, reqs[len(reqs)/2].method + " " + reqs[len(reqs)/2].sym}})
		}
	})
	var od []string
	for p := range openDebug {
		od = append(od, p)
	}
	sort.Strings(od)
	evid.R.Extra("debug_endpoints_open", od)
	evid.R.Extra("servers_left_open_because_sync_queue_did_not_drain", vhttp.Leaked.Load())
}

func nz(s, d string) string {
	if s == "" {
		return d
	}
	return s
}

// signerRef returns the ref of a public key blob in the world.
func (w *world) signerRef() string {
	for _, n := range w.nodes {
		if n.Kind == "pubkey" {
			return n.Ref
		}
	}
	return ""
}
