// C06 — live index and corpus always equal what a restart would load.
package c06

import (
	"context"
	"database/sql"
	"errors"
	"fmt"
	"os"
	"path/filepath"
	"strings"
	"testing"

	"go4.org/jsonconfig"
	"perkeep.org/pkg/index"
	"perkeep.org/pkg/sorted"
	_ "perkeep.org/pkg/sorted/kvfile"
	_ "perkeep.org/pkg/sorted/leveldb"
	_ "perkeep.org/pkg/sorted/sqlite"
	"pgregory.net/rapid"

	"verifharness/internal/evid"
	"verifharness/internal/vworld"
)

const prop = "C06"

var ctxbg = context.Background()

func TestMain(m *testing.M) {
	evid.Main(m, prop, "exploration",
		"a case = (generated world as in C05, sequential arrival schedule with storage arrivals S(b) before index deliveries X(b) in dependency/reverse/random order, coupled/storage-first/mixed, optional duplicate deliveries, "+
			"live configuration in {index+corpus attached from the start, index without corpus}, sorted back end in {memory} (quick tier) or {memory, leveldb, kvfile, sqlite} (thorough tier), prefix k of the schedule). After every delivery and quiescence the rows are copied into a fresh memory KV, "+
			"a fresh index.New (+KeepInMemory) is opened on the copy and a fixed battery of exported query methods is evaluated on both and compared answer by answer: GetBlobMeta, IsDeleted (index and corpus), KeyId, GetFileInfo, GetDirMembers/GetDirChildren/GetParentDirs, GetWholeRef, EdgesTo, ExistingFileSchemas, "+
			"AppendClaims x signer/attr filters, PermanodeAttrValue/AppendPermanodeAttrValues/PermanodeHasAttrValue at {zero, each claim date, +-1ns} x signer filters, PermanodeModtime/AnyTime/Time, ForeachClaim(Back), PathsLookup/PathLookup/PathsOfSignerTarget, GetRecentPermanodes, PermanodeOfSignerAttrValue, SearchPermanodesWithAttr, "+
			"the sorted permanode enumerations, EnumerateBlobMeta/CamliBlobs; the needs cache of the reopened index (VerifPending) must equal what the missing| rows say and never exceed the running one. Absolute anchor at the last prefix: IsDeleted and GetBlobMeta of every ref agree with the harness's world model. "+
			"non-trivial = prefix after which some delivered blob still waits for a dependency, or a prefix of a history whose world contains a delete claim that has been delivered; distinct = FNV-64 of (world hash, configuration, schedule prefix)")
}

var worldCfg = vworld.Config{
	MaxPermanodes: 3, MaxAttrClaims: 6, MaxDeletes: 5, MaxChain: 4,
	MaxFiles: 2, MaxDirs: 1, MaxOpaque: 1, TwoSigners: true, Withhold: true, RefValues: true,
	Values: append(append([]string(nil), vworld.DefaultValues...), longValue),
}

// longValue makes the signer-attr-value row of an indexed attribute exceed sorted.MaxKeySize: every
// sorted implementation skips such a row and must still commit the other rows of the blob.
var longValue = strings.Repeat("long value ", 70)

func newKV(t *rapid.T, backend string) (kv sorted.KeyValue, file string, cleanup func()) {
	if backend == "memory" {
		return sorted.NewMemoryKeyValue(), "", func() {}
	}
	// file-backed KVs fsync on every commit: keep them on tmpfs when there is one,
	// so that a loaded disk does not dominate the run time.
	base := ""
	if st, err := os.Stat("/dev/shm"); err == nil && st.IsDir() {
		base = "/dev/shm"
	}
	dir, err := os.MkdirTemp(base, "verif-c06-")
	if err != nil {
		t.Fatalf("C06 infrastructure: %v", err)
	}
	typ := map[string]string{"leveldb": "leveldb", "kvfile": "kv", "sqlite": "sqlite"}[backend]
	file = filepath.Join(dir, "index."+typ)
	kv, err = sorted.NewKeyValue(jsonconfig.Obj{"type": typ, "file": file})
	if err != nil {
		os.RemoveAll(dir)
		t.Fatalf("C06 infrastructure: sorted.NewKeyValue(%s): %v", typ, err)
	}
	return kv, file, func() {
		kv.Close()
		os.RemoveAll(dir)
	}
}

// lockSQLite takes the write lock of an SQLite index file from a second connection, as another process
// working on the file (a reindex, pk dumprows, a backup) does: a statement of a batch then fails with
// "database is locked" while the roll-back of the batch succeeds.
func lockSQLite(file string) (release func(), err error) {
	db, err := sql.Open("sqlite", file)
	if err != nil {
		return nil, err
	}
	conn, err := db.Conn(ctxbg)
	if err != nil {
		db.Close()
		return nil, err
	}
	if _, err := conn.ExecContext(ctxbg, "BEGIN IMMEDIATE"); err != nil {
		conn.Close()
		db.Close()
		return nil, err
	}
	return func() {
		conn.ExecContext(ctxbg, "ROLLBACK")
		conn.Close()
		db.Close()
	}, nil
}

type mismatch struct {
	Q, Live, Fresh string
}

func diff(a, b []vworld.QA) []mismatch {
	var out []mismatch
	for i := range a {
		if i >= len(b) || a[i].Q != b[i].Q {
			out = append(out, mismatch{"battery shape", fmt.Sprint(len(a)), fmt.Sprint(len(b))})
			return out
		}
		if a[i].A != b[i].A {
			out = append(out, mismatch{a[i].Q, a[i].A, b[i].A})
		}
	}
	return out
}

func render(ms []mismatch) string {
	var sb strings.Builder
	for i, m := range ms {
		if i == 8 {
			fmt.Fprintf(&sb, "... and %d more\n", len(ms)-8)
			break
		}
		fmt.Fprintf(&sb, "%s\n    live : %s\n    fresh: %s\n", m.Q, m.Live, m.Fresh)
	}
	return sb.String()
}

func TestLiveVsReopened(t *testing.T) {
	evid.Check(t, 250, 1500, func(t *rapid.T) { liveVsReopened(t, worldCfg, false) })
}

// contentCfg biases worlds towards permanodes whose camliContent points at files with their own
// modification time, few other claims and no deletes: the permanode orderings by time then depend on
// blobs (the files) that may arrive after the claims — the case in which an ordering cached by the
// running corpus can go stale without any later claim to refresh it.
var contentCfg = vworld.Config{
	MaxPermanodes: 3, MaxAttrClaims: 5, MaxDeletes: 0, MaxChain: 1,
	MaxFiles: 3, MaxDirs: 0, MaxOpaque: 0, TwoSigners: false, Withhold: false, RefValues: true,
	Attrs: []string{"camliContent", "camliContent", "camliContent", "title"},
}

func TestLiveVsReopenedContentHeavy(t *testing.T) {
	evid.Check(t, 400, 1500, func(t *rapid.T) { liveVsReopened(t, contentCfg, true) })
}

func liveVsReopened(t *rapid.T, cfg vworld.Config, alwaysCorpus bool) {
	{
		w := vworld.Draw(t, cfg)
		arriving := w.Arriving()
		ev, class := vworld.DrawSequential(t, w, arriving, true)
		withCorpus := alwaysCorpus || rapid.IntRange(0, 3).Draw(t, "withCorpus") != 0
		// quick tier: mostly memory (file-backed KVs are cheap on an idle machine but
		// slow under load); thorough: half of the cases on the three file-backed ones.
		backends := []string{"memory", "memory", "memory", "memory", "memory", "memory", "memory", "leveldb", "kvfile", "sqlite"}
		if evid.Thorough() {
			backends = []string{"memory", "memory", "memory", "leveldb", "kvfile", "sqlite"}
		}
		backend := rapid.SampledFrom(backends).Draw(t, "backend")
		cfgName := "nocorpus"
		if withCorpus {
			cfgName = "corpus"
		}
		kv, kvFile, cleanup := newKV(t, backend)
		defer cleanup()
		var fk *flakyKV
		failStep := -1
		if backend == "memory" && rapid.IntRange(0, 3).Draw(t, "commitFault") == 0 {
			fk = &flakyKV{KeyValue: kv}
			kv = fk
			failStep = rapid.IntRange(0, len(ev)-1).Draw(t, "commitFaultAtStep")
		}
		lockStep := -1
		if backend == "sqlite" && rapid.IntRange(0, 2).Draw(t, "sqliteLocked") != 0 {
			lockStep = rapid.IntRange(0, len(ev)-1).Draw(t, "sqliteLockedAtStep")
		}
		live, err := vworld.NewEnv(w, kv, nil)
		if err != nil {
			t.Fatalf("C06 infrastructure: %v", err)
		}
		defer func() {
			if backend == "memory" {
				live.Release()
			} else {
				live.ReleaseSrc()
			}
		}()
		var lc *index.Corpus
		if withCorpus {
			if lc, err = live.Ix.KeepInMemory(); err != nil {
				t.Fatalf("C06 infrastructure: KeepInMemory on empty index: %v", err)
			}
		}
		evid.R.Label("config/" + cfgName)
		evid.R.Label("backend/" + backend)
		evid.R.Label("schedule/" + class)
		wh := w.Hash()
		stored, delivered := map[int]bool{}, map[int]bool{}
		deleteDelivered := false
		fail := func(k int, format string, a ...any) {
			t.Fatalf("C06 violated (config %s, backend %s, after step %d of schedule [%s]): "+format+"\nworld:\n%s", append([]any{cfgName, backend, k, vworld.SeqString(ev)}, append(a, strings.Join(w.Summary(), "\n"))...)...)
		}
		for k, e := range ev {
			if e.Op == 'S' {
				live.Store(e.I)
				stored[e.I] = true
				continue
			}
			if fk != nil && k == failStep {
				// the key/value store refuses this blob's batch once: ReceiveBlob reports the failure, the
				// running index and corpus must still be what the rows say, and the client's retry goes through
				fk.failNext = true
				derr := live.Deliver(e.I)
				fk.failNext = false
				live.Await()
				if derr != nil {
					evid.R.Label("fault/receive-failed-at-the-row-commit-then-retried")
					if d := compareWithReopened(w, live, lc, withCorpus); d != "" {
						fail(k, "right after ReceiveBlob(%s) failed with %v (its row commit was refused once): %s", w.Blobs[e.I].Label, derr, d)
					}
				}
			}
			if k == lockStep {
				// another connection holds the file's write lock during this delivery: the batch's first
				// statement fails, the batch is rolled back. Whether or not ReceiveBlob reports it, the running
				// index and corpus must be what the rows say; the lock is released and the client retries.
				release, lerr := lockSQLite(kvFile)
				if lerr != nil {
					t.Fatalf("C06 infrastructure: second SQLite connection: %v", lerr)
				}
				derr := live.Deliver(e.I)
				release()
				live.Await()
				if derr != nil {
					evid.R.Label("fault/receive-failed-on-a-locked-sqlite-file-then-retried")
				} else {
					evid.R.Label("fault/receive-succeeded-on-a-locked-sqlite-file")
				}
				if d := compareWithReopened(w, live, lc, withCorpus); d != "" {
					fail(k, "right after ReceiveBlob(%s) returned %v while another connection held the SQLite write lock: %s", w.Blobs[e.I].Label, derr, d)
				}
			}
			if err := live.Deliver(e.I); err != nil {
				fail(k, "ReceiveBlob(%s): %v", w.Blobs[e.I].Label, err)
			}
			live.Await()
			delivered[e.I] = true
			if w.Blobs[e.I].Kind == vworld.KDelete {
				deleteDelivered = true
			}
			evid.R.Eval()
			needs, ready := live.Ix.VerifPending()
			nt := needs > 0 || deleteDelivered
			if nt {
				evid.R.NonTrivial(evid.Hash(wh, cfgName, backend, vworld.SeqString(ev[:k+1])))
				if needs > 0 {
					evid.R.Label("nontrivial/prefix-with-pending-blobs")
				}
				if deleteDelivered {
					evid.R.Label("nontrivial/prefix-after-a-delete-claim")
				}
			}
			if evid.R.WantSample(nt) {
				evid.R.Sample(nt, map[string]any{"world": w.Summary(), "config": cfgName, "backend": backend, "schedule": vworld.SeqString(ev), "prefix": k + 1, "pending": needs})
			}

			// what a restart would load
			kv2, err := vworld.CopyKV(live.KV)
			if err != nil {
				t.Fatalf("C06 infrastructure: copying rows: %v", err)
			}
			fresh, err := index.New(kv2)
			if err != nil {
				fail(k, "index.New over the current rows fails: %v", err)
			}
			var fc *index.Corpus
			if withCorpus {
				if fc, err = fresh.KeepInMemory(); err != nil {
					fail(k, "KeepInMemory over the current rows fails: %v", err)
				}
			}
			a := vworld.Battery(w, live.Ix, lc, vworld.BatteryOpts{})
			b := vworld.Battery(w, fresh, fc, vworld.BatteryOpts{})
			// The needs cache a restart loads is exactly what the missing| rows say;
			// the running index may transiently remember more (a blob that got
			// completed by a re-delivery while its dependency was in storage but not
			// yet indexed stays in the in-memory map until that dependency is
			// indexed), never less; with everything delivered both agree.
			fn, fr := fresh.VerifPending()
			wantNeeds := pendingPerRows(kv2)
			if fn != wantNeeds || fr != 0 {
				fail(k, "a freshly opened index reports VerifPending()=(%d,%d) but the rows name %d blobs with missing dependencies", fn, fr, wantNeeds)
			}
			if needs < fn || ready != 0 || (allDelivered(arriving, delivered) && needs != fn) {
				fail(k, "running index VerifPending()=(%d,%d), freshly opened one over the same rows (%d,%d)", needs, ready, fn, fr)
			}
			ms := diff(a, b)
			if len(ms) > 0 {
				fail(k, "%d answers of the running index differ from a freshly opened one over the same rows:\n%s", len(ms), render(ms))
			}
			if k == len(ev)-1 || allDelivered(arriving, delivered) {
				// absolute anchor: deletion status and meta presence against the model
				present := func(i int) bool { return !w.Withheld[i] }
				eff := func(d int) bool { return w.Full(d, present) }
				for _, bl := range w.Blobs {
					wantDel := (bl.Kind == vworld.KPermanode || bl.Claim != nil) && w.Deleted(bl.I, eff)
					if got := fresh.IsDeleted(bl.Ref); got != wantDel {
						fail(k, "IsDeleted(%s) = %v on the freshly opened index, the world model says %v", bl.Label, got, wantDel)
					}
					_, err := fresh.GetBlobMeta(ctxbg, bl.Ref)
					if (err == nil) != w.HasMeta(bl.I, present) {
						fail(k, "GetBlobMeta(%s) err=%v on the freshly opened index, the world model says meta row present=%v", bl.Label, err, w.HasMeta(bl.I, present))
					}
				}
			}
		}
		live.Await()
	}
}

func allDelivered(arriving []int, delivered map[int]bool) bool {
	for _, i := range arriving {
		if !delivered[i] {
			return false
		}
	}
	return true
}

// pendingPerRows counts the distinct blobs that have a missing|have|needed row.
func pendingPerRows(kv sorted.KeyValue) int {
	rows, _ := vworld.Dump(kv)
	seen := map[string]bool{}
	for _, r := range rows {
		if rest, ok := strings.CutPrefix(r.K, "missing|"); ok {
			if i := strings.IndexByte(rest, '|'); i > 0 {
				seen[rest[:i]] = true
			}
		}
	}
	return len(seen)
}

// flakyKV refuses one CommitBatch when told to.
type flakyKV struct {
	sorted.KeyValue
	failNext bool
}

func (f *flakyKV) CommitBatch(b sorted.BatchMutation) error {
	if f.failNext {
		f.failNext = false
		return errors.New("verif: injected transient failure of CommitBatch")
	}
	return f.KeyValue.CommitBatch(b)
}

func (f *flakyKV) Wipe() error {
	if w, ok := f.KeyValue.(sorted.Wiper); ok {
		return w.Wipe()
	}
	return nil
}

// compareWithReopened: live index/corpus vs. a fresh index/corpus over a copy of the rows.
func compareWithReopened(w *vworld.World, live *vworld.Env, lc *index.Corpus, withCorpus bool) string {
	kv2, err := vworld.CopyKV(live.KV)
	if err != nil {
		return "harness: copying rows: " + err.Error()
	}
	fresh, err := index.New(kv2)
	if err != nil {
		return "index.New over the current rows fails: " + err.Error()
	}
	var fc *index.Corpus
	if withCorpus {
		if fc, err = fresh.KeepInMemory(); err != nil {
			return "KeepInMemory over the current rows fails: " + err.Error()
		}
	}
	a := vworld.Battery(w, live.Ix, lc, vworld.BatteryOpts{})
	b := vworld.Battery(w, fresh, fc, vworld.BatteryOpts{})
	return vworld.DiffBattery(a, b, "running", "reopened")
}
