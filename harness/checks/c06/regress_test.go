package c06

// Plain (non-rapid) regression tests of the shrunk generated cases behind the two
// fix: commits in pkg/index (index.go initNeededMapsLocked; corpus.go addBlob).

import (
	"testing"
	"time"

	"perkeep.org/pkg/index"
	"perkeep.org/pkg/schema"

	"verifharness/internal/evid"
	"verifharness/internal/vsign"
	"verifharness/internal/vworld"
)

func deleteWorld(key string) *vworld.World {
	id := vsign.Test()
	pn := id.MustSign(schema.NewPlannedPermanode(key), vworld.SigTime)
	del := id.MustSign(schema.NewDeleteClaim(pn.BlobRef()).SetClaimDate(time.Date(2011, 11, 28, 1, 32, 40, 0, time.UTC)), vworld.SigTime)
	w := &vworld.World{Withheld: map[int]bool{}, Ids: []*vsign.Identity{id}}
	for i, b := range []*vworld.Blob{
		{Kind: vworld.KKey, Contents: id.Armored, Ref: id.Ref},
		{Kind: vworld.KPermanode, Contents: pn.Contents, Ref: pn.BlobRef()},
		{Kind: vworld.KDelete, Contents: del.Contents, Ref: del.BlobRef()},
	} {
		b.I = i
		w.Blobs = append(w.Blobs, b)
	}
	return w
}

// Shrunk case (a): key, permanode, delete claim in order; a second index opened
// over the same rows must still say the permanode is deleted.
func TestRegressReopenedIndexKeepsDeletions(t *testing.T) {
	if evid.Replaying() {
		t.Skip()
	}
	w := deleteWorld("regress-c06-a")
	e, err := vworld.NewEnv(w, nil, nil)
	if err != nil {
		t.Fatal(err)
	}
	for _, i := range []int{0, 1, 2} {
		e.Store(i)
		if err := e.Deliver(i); err != nil {
			t.Fatal(err)
		}
	}
	e.Await()
	if !e.Ix.IsDeleted(w.Blobs[1].Ref) {
		t.Fatalf("C06 violated: running index does not report the permanode deleted")
	}
	kv2, err := vworld.CopyKV(e.KV)
	if err != nil {
		t.Fatal(err)
	}
	fresh, err := index.New(kv2)
	if err != nil {
		t.Fatal(err)
	}
	if !fresh.IsDeleted(w.Blobs[1].Ref) {
		t.Fatalf("C06 violated: Index.IsDeleted(permanode) = false on an index reopened over rows that contain its deleted| row (running index says true)")
	}
}

// Shrunk case (b): corpus attached from the start; the delete claim is
// delivered before its target. Once the target has arrived the running corpus
// must know the deletion, exactly as a corpus loaded from the rows does.
func TestRegressCorpusLearnsDeleteDeliveredBeforeTarget(t *testing.T) {
	if evid.Replaying() {
		t.Skip()
	}
	w := deleteWorld("regress-c06-b")
	e, err := vworld.NewEnv(w, nil, nil)
	if err != nil {
		t.Fatal(err)
	}
	lc, err := e.Ix.KeepInMemory()
	if err != nil {
		t.Fatal(err)
	}
	for _, i := range []int{0, 2, 1} {
		e.Store(i)
		if err := e.Deliver(i); err != nil {
			t.Fatal(err)
		}
		e.Await()
	}
	kv2, _ := vworld.CopyKV(e.KV)
	fresh, err := index.New(kv2)
	if err != nil {
		t.Fatal(err)
	}
	fc, err := fresh.KeepInMemory()
	if err != nil {
		t.Fatal(err)
	}
	pn := w.Blobs[1].Ref
	e.Ix.RLock()
	liveDel := lc.IsDeleted(pn)
	liveClaims, _ := lc.AppendClaims(ctxbg, nil, pn, "", "")
	e.Ix.RUnlock()
	fresh.RLock()
	freshDel := fc.IsDeleted(pn)
	freshClaims, _ := fc.AppendClaims(ctxbg, nil, pn, "", "")
	fresh.RUnlock()
	if !freshDel || len(freshClaims) != 1 {
		t.Fatalf("C06: corpus loaded from rows: IsDeleted=%v, %d claims; expected deleted with 1 (delete) claim", freshDel, len(freshClaims))
	}
	if liveDel != freshDel || len(liveClaims) != len(freshClaims) {
		t.Fatalf("C06 violated: running corpus IsDeleted=%v with %d claims on the permanode, a corpus loaded from the same rows says IsDeleted=%v with %d claims", liveDel, len(liveClaims), freshDel, len(freshClaims))
	}
}
