package c06

// Plain (non-rapid) regression tests of the shrunk generated cases behind the two
// fix: commits in pkg/index (index.go initNeededMapsLocked; corpus.go addBlob).

import (
	"testing"
	"time"

	"perkeep.org/pkg/index"
	"perkeep.org/pkg/schema"

	"verifharness/internal/evid"
	"verifharness/internal/vsign"
	"verifharness/internal/vworld"
)

func deleteWorld(key string) *vworld.World {
	id := vsign.Test()
	pn := id.MustSign(schema.NewPlannedPermanode(key), vworld.SigTime)
	del := id.MustSign(schema.NewDeleteClaim(pn.BlobRef()).SetClaimDate(time.Date(2011, 11, 28, 1, 32, 40, 0, time.UTC)), vworld.SigTime)
	w := &vworld.World{Withheld: map[int]bool{}, Ids: []*vsign.Identity{id}}
	for i, b := range []*vworld.Blob{
		{Kind: vworld.KKey, Contents: id.Armored, Ref: id.Ref},
		{Kind: vworld.KPermanode, Contents: pn.Contents, Ref: pn.BlobRef()},
		{Kind: vworld.KDelete, Contents: del.Contents, Ref: del.BlobRef()},
	} {
		b.I = i
		w.Blobs = append(w.Blobs, b)
	}
	return w
}

// Shrunk case (a): key, permanode, delete claim in order; a second index opened
// over the same rows must still say the permanode is deleted.
func TestRegressReopenedIndexKeepsDeletions(t *testing.T) {
	if evid.Replaying() {
		t.Skip()
	}
	w := deleteWorld("regress-c06-a")
	e, err := vworld.NewEnv(w, nil, nil)
	if err != nil {
		t.Fatal(err)
	}
	for _, i := range []int{0, 1, 2} {
		e.Store(i)
		if err := e.Deliver(i); err != nil {
			t.Fatal(err)
		}
	}
	e.Await()
	if !e.Ix.IsDeleted(w.Blobs[1].Ref) {
		t.Fatalf("C06 violated: running index does not report the permanode deleted")
	}
	kv2, err := vworld.CopyKV(e.KV)
	if err != nil {
		t.Fatal(err)
	}
	fresh, err := index.New(kv2)
	if err != nil {
		t.Fatal(err)
	}
	if !fresh.IsDeleted(w.Blobs[1].Ref) {
		t.Fatalf("C06 violated: Index.IsDeleted(permanode) = false on an index reopened over rows that contain its deleted| row (running index says true)")
	}
}

// Shrunk case (b): corpus attached from the start; the delete claim is
// delivered before its target. Once the target has arrived the running corpus
// must know the deletion, exactly as a corpus loaded from the rows does.
func TestRegressCorpusLearnsDeleteDeliveredBeforeTarget(t *testing.T) {
	if evid.Replaying() {
		t.Skip()
	}
	w := deleteWorld("regress-c06-b")
	e, err := vworld.NewEnv(w, nil, nil)
	if err != nil {
		t.Fatal(err)
	}
	lc, err := e.Ix.KeepInMemory()
	if err != nil {
		t.Fatal(err)
	}
	for _, i := range []int{0, 2, 1} {
		e.Store(i)
		if err := e.Deliver(i); err != nil {
			t.Fatal(err)
		}
		e.Await()
	}
	kv2, _ := vworld.CopyKV(e.KV)
	fresh, err := index.New(kv2)
	if err != nil {
		t.Fatal(err)
	}
	fc, err := fresh.KeepInMemory()
	if err != nil {
		t.Fatal(err)
	}
	pn := w.Blobs[1].Ref
	e.Ix.RLock()
	liveDel := lc.IsDeleted(pn)
	liveClaims, _ := lc.AppendClaims(ctxbg, nil, pn, "", "")
	e.Ix.RUnlock()
	fresh.RLock()
	freshDel := fc.IsDeleted(pn)
	freshClaims, _ := fc.AppendClaims(ctxbg, nil, pn, "", "")
	fresh.RUnlock()
	if !freshDel || len(freshClaims) != 1 {
		t.Fatalf("C06: corpus loaded from rows: IsDeleted=%v, %d claims; expected deleted with 1 (delete) claim", freshDel, len(freshClaims))
	}
	if liveDel != freshDel || len(liveClaims) != len(freshClaims) {
		t.Fatalf("C06 violated: running corpus IsDeleted=%v with %d claims on the permanode, a corpus loaded from the same rows says IsDeleted=%v with %d claims", liveDel, len(liveClaims), freshDel, len(freshClaims))
	}
}

// Generated cases (C07 thorough tier, shards 1 and 4) killed the process with
// "fatal error: concurrent map read and map write": several signed blobs wait
// for the same dependency; when it arrives each is re-indexed by its own
// goroutine, and populateDeleteClaim read the corpus (Corpus.GetBlobMeta) without
// the index lock while another goroutine added a new blob to it. The Go runtime
// notices an unsynchronised map access only when the accesses really overlap, so
// on the unfixed tree this loop reports nothing in most runs (go test -race
// reports the race at once); it is kept as a smoke test of the shape, and checks
// the end state of every round.
func TestRegressConcurrentReindexOfDeleteClaimsWithCorpus(t *testing.T) {
	if evid.Replaying() {
		t.Skip()
	}
	id := vsign.Test()
	for round := 0; round < 400; round++ {
		pn := id.MustSign(schema.NewPlannedPermanode("regress-c06-race"), vworld.SigTime)
		w := &vworld.World{Withheld: map[int]bool{}, Ids: []*vsign.Identity{id}}
		add := func(c string) {
			b := &vworld.Blob{I: len(w.Blobs), Contents: c}
			b.Ref = b.TB().BlobRef()
			w.Blobs = append(w.Blobs, b)
		}
		add(id.Armored)
		add(pn.Contents)
		const nDel = 8
		for k := 0; k < nDel; k++ {
			d := id.MustSign(schema.NewDeleteClaim(pn.BlobRef()).SetClaimDate(time.Date(2011, 11, 28, 1, 32, 40+k, 0, time.UTC)), vworld.SigTime)
			add(d.Contents)
		}
		e, err := vworld.NewEnv(w, nil, nil)
		if err != nil {
			t.Fatal(err)
		}
		lc, err := e.Ix.KeepInMemory()
		if err != nil {
			t.Fatal(err)
		}
		// permanode and delete claims first: all of them wait for the signer's key
		// (nothing is committed); the key last: nine goroutines re-index at once,
		// one adds the permanode to the corpus while the others look it up.
		order := []int{1}
		for k := 0; k < nDel; k++ {
			order = append(order, 2+k)
		}
		order = append(order, 0)
		for _, i := range order {
			e.Store(i)
			if err := e.Deliver(i); err != nil {
				t.Fatal(err)
			}
		}
		e.Await()
		e.Ix.RLock()
		del := lc.IsDeleted(pn.BlobRef())
		cls, _ := lc.AppendClaims(ctxbg, nil, pn.BlobRef(), "", "")
		e.Ix.RUnlock()
		if !del || len(cls) != nDel {
			t.Fatalf("C06 violated: round %d: running corpus IsDeleted=%v with %d claims, want deleted with %d delete claims", round, del, len(cls), nDel)
		}
		e.Release()
	}
}
