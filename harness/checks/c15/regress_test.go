package c15

import (
	"bytes"
	"io"
	"testing"

	"perkeep.org/pkg/blob"
	"perkeep.org/pkg/blobserver/memory"
	"perkeep.org/pkg/schema"

	"verifharness/internal/evid"
)

// Regression for the defect found by TestReaderPartTrees (fixed in perkeep by
// "fix: schema: FileReader no longer reads past the end of a part when a read
// starts inside it"): parts [blob[2:5], "abc"] of "0123456789" denote "234abc";
// a read of 4 bytes at offset 1 returned "345b".
func TestRegressReadInsidePartWithLongerSource(t *testing.T) {
	if evid.Replaying() {
		t.Skip()
	}
	st := new(memory.Storage)
	digits, abc := []byte("0123456789"), []byte("abc")
	rd, ra := blob.RefFromBytes(digits), blob.RefFromBytes(abc)
	mustReceive(st, rd.String(), digits)
	mustReceive(st, ra.String(), abc)
	sub := `{"camliVersion":1,"camliType":"bytes","parts":[{"blobRef":"` + rd.String() + `","size":8,"offset":1}]}` // "12345678"
	rs := blob.RefFromString(sub)
	mustReceive(st, rs.String(), []byte(sub))
	for _, tc := range []struct {
		name, parts, want string
	}{
		{"blob", `{"blobRef":"` + rd.String() + `","size":3,"offset":2},{"blobRef":"` + ra.String() + `","size":3}`, "234abc"},
		{"subtree", `{"bytesRef":"` + rs.String() + `","size":3,"offset":1},{"blobRef":"` + ra.String() + `","size":3}`, "234abc"},
		{"last-part", `{"blobRef":"` + ra.String() + `","size":3},{"blobRef":"` + rd.String() + `","size":3,"offset":2}`, "abc234"},
	} {
		js := `{"camliVersion":1,"camliType":"file","parts":[` + tc.parts + `]}`
		ref := blob.RefFromString(js)
		mustReceive(st, ref.String(), []byte(js))
		fr, err := schema.NewFileReader(ctxbg, st, ref)
		if err != nil {
			t.Fatal(err)
		}
		for off := 0; off <= len(tc.want); off++ {
			for ln := 0; ln <= len(tc.want)-off+1; ln++ {
				buf := make([]byte, ln)
				n, err := fr.ReadAt(buf, int64(off))
				want := tc.want[off:min(off+ln, len(tc.want))]
				if string(buf[:n]) != want {
					t.Errorf("C15 violated (regression %s): ReadAt(len=%d, off=%d) = %q (err %v), want %q", tc.name, ln, off, buf[:n], err, want)
				}
			}
		}
		fr.Seek(0, io.SeekStart)
		all, err := io.ReadAll(fr)
		if err != nil || !bytes.Equal(all, []byte(tc.want)) {
			t.Errorf("C15 violated (regression %s): ReadAll = %q, %v", tc.name, all, err)
		}
		evid.R.Eval()
		evid.R.Label("regression/read-inside-part")
	}
}
