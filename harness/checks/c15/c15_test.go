// C15 — files and directories written as schema blobs read back exactly.
//
// (a) writer round trip: schema.WriteFileFromReader over generated contents and
//
//	reader fragmentations into a recording in-memory store, read back through
//	schema.NewFileReader and through an independent interpreter of doc/schema/bytes.md;
//
// (b) reader: hand-built "file"/"bytes" part trees (offsets, sub-ranges, holes,
//
//	nesting) read through FileReader.ReadAt / Seek+Read / ForeachChunk and compared
//	with the same interpreter;
//
// (c) static-set splitting with a lowered threshold, read back by DirReader.StaticSet.
package c15

import (
	"bytes"
	"context"
	"encoding/json"
	"errors"
	"fmt"
	"io"
	"sort"
	"strings"
	"sync"
	"testing"
	"time"

	"perkeep.org/pkg/blob"
	"perkeep.org/pkg/blobserver/memory"
	"perkeep.org/pkg/cacher"
	"perkeep.org/pkg/schema"
	"pgregory.net/rapid"

	"verifharness/internal/evid"
)

const prop = "C15"

// maxChunk is the chunk size limit of the file writer (pkg/schema/filewriter.go maxBlobSize).
const maxChunk = 1 << 20

var ctxbg = context.Background()

func TestMain(m *testing.M) {
	evid.Main(m, prop, "exploration",
		"(a) writer: rapid draws length (0,1, 64K/256K/320K/1M/1.25M/2M/2.25M/3M +-1 or + small tail), content kind (xorshift noise, zeros, short period, noise with a zero run over a boundary, zero tail engineered to end just after a 1 MiB cap), "+
			"source reader (bytes.Reader, one-byte, data+EOF, half, drawn fragment pattern with or without EOF delivered together with the last data) and a store delay; written with schema.WriteFileFromReader into a recording memory store, read back with NewFileReader and with an independent bytes.md interpreter. "+
			"non-trivial = length > 256 KiB from a source other than bytes.Reader; distinct = hash(length, content kind+seed, reader kind+pattern). "+
			"(b) reader: rapid builds file/bytes JSON trees (<=3 nested levels, parts = blob sub-ranges, sub-tree sub-ranges, holes; shared blobs and sub-trees; zero-length roots) and reads them with ReadAt (all (off,len) pairs when the file is <= 40 bytes, else every part boundary +-1 and drawn pairs), Seek+Read, sequential Read with a drawn buffer size, ForeachChunk; oracle = interpreter of doc/schema/bytes.md. "+
			"non-trivial = at least one checked read starts strictly inside a part (at any nesting level) whose source blob/sub-tree is longer than offset+size; distinct = hash of the root blob (content address of the whole tree). "+
			"(c) static sets: threshold M set through the verif hook, every member count in a range covering M, 2M, M^2, M^2+M (and M^3 for small M) plus drawn (M, count, order); oracle = DirReader.StaticSet equals the member list in order, every static-set blob has <= M members / mergeSets, members and mergeSets are exclusive. non-trivial = count > M (the set was split); distinct = hash(M, count, order seed).")
}

// ---------------------------------------------------------------------------
// independent model of doc/schema/bytes.md

type jpart struct {
	BlobRef  string `json:"blobRef,omitempty"`
	BytesRef string `json:"bytesRef,omitempty"`
	Size     uint64 `json:"size"`
	Offset   uint64 `json:"offset,omitempty"`
	// generator-only: write "offset":0 explicitly
	explicitZero bool
}

type jnode struct {
	Type  string  `json:"camliType"`
	Parts []jpart `json:"parts"`
}

// world is the set of blobs a tree is made of, as the harness knows them.
type world struct {
	raw   map[string][]byte // ref -> raw bytes blob
	nodes map[string]*jnode // ref -> bytes/file schema blob
}

func newWorld() *world { return &world{raw: map[string][]byte{}, nodes: map[string]*jnode{}} }

func (n *jnode) size() uint64 {
	var s uint64
	for _, p := range n.Parts {
		s += p.Size
	}
	return s
}

// denote returns the bytes [off, off+cnt) of the byte sequence node n denotes:
// the concatenation over its parts of source[offset:offset+size], where a
// missing source is zeros (doc/schema/bytes.md).
func (w *world) denote(n *jnode, off, cnt uint64) []byte {
	out := make([]byte, 0, cnt)
	var pos uint64
	for _, p := range n.Parts {
		if cnt == 0 {
			break
		}
		end := pos + p.Size
		if off < end {
			rel := off - pos
			take := min(cnt, p.Size-rel)
			switch {
			case p.BlobRef != "":
				out = append(out, w.raw[p.BlobRef][p.Offset+rel:p.Offset+rel+take]...)
			case p.BytesRef != "":
				out = append(out, w.denote(w.nodes[p.BytesRef], p.Offset+rel, take)...)
			default:
				out = append(out, make([]byte, take)...)
			}
			off += take
			cnt -= take
		}
		pos = end
	}
	return out
}

// sourceLen is the length of the thing a part points into (0 for holes).
func (w *world) sourceLen(p jpart) uint64 {
	switch {
	case p.BlobRef != "":
		return uint64(len(w.raw[p.BlobRef]))
	case p.BytesRef != "":
		return w.nodes[p.BytesRef].size()
	}
	return 0
}

// startsInsideOverlong: does a read at off start strictly inside a part (at any
// level) whose source continues past the part's end?
func (w *world) startsInsideOverlong(n *jnode, off uint64) bool {
	var pos uint64
	for _, p := range n.Parts {
		end := pos + p.Size
		if off < end {
			rel := off - pos
			if rel > 0 && (p.BlobRef != "" || p.BytesRef != "") && w.sourceLen(p) > p.Offset+p.Size {
				return true
			}
			if p.BytesRef != "" {
				return w.startsInsideOverlong(w.nodes[p.BytesRef], p.Offset+rel)
			}
			return false
		}
		pos = end
	}
	return false
}

// fullCover: every bytesRef part covers its whole sub-tree (offset 0, size == sub-tree size), recursively.
func (w *world) fullCover(n *jnode) bool {
	for _, p := range n.Parts {
		if p.BytesRef != "" {
			sub := w.nodes[p.BytesRef]
			if p.Offset != 0 || p.Size != sub.size() || !w.fullCover(sub) {
				return false
			}
		}
	}
	return true
}

type leaf struct {
	part jpart
	path string
}

func (w *world) leaves(ref string, path string, out *[]leaf) {
	path += "/" + ref
	for _, p := range w.nodes[ref].Parts {
		if p.BytesRef != "" {
			w.leaves(p.BytesRef, path, out)
		} else {
			*out = append(*out, leaf{p, path})
		}
	}
}

func nodeJSON(n *jnode, versionFirst bool) string {
	var sb strings.Builder
	if versionFirst {
		sb.WriteString(`{"camliVersion": 1,` + "\n" + `"camliType": "` + n.Type + `",` + "\n" + `"parts": [`)
	} else {
		sb.WriteString(`{"camliType":"` + n.Type + `","parts":[`)
	}
	for i, p := range n.Parts {
		if i > 0 {
			sb.WriteString(",")
		}
		var f []string
		if p.BlobRef != "" {
			f = append(f, fmt.Sprintf(`"blobRef":%q`, p.BlobRef))
		}
		if p.BytesRef != "" {
			f = append(f, fmt.Sprintf(`"bytesRef":%q`, p.BytesRef))
		}
		f = append(f, fmt.Sprintf(`"size":%d`, p.Size))
		if p.Offset != 0 || p.explicitZero {
			f = append(f, fmt.Sprintf(`"offset":%d`, p.Offset))
		}
		sb.WriteString("{" + strings.Join(f, ",") + "}")
	}
	if versionFirst {
		sb.WriteString("]}\n")
	} else {
		sb.WriteString(`],"camliVersion":1}`)
	}
	return sb.String()
}

// ---------------------------------------------------------------------------
// recording store for the writer

type recStore struct {
	mem   *memory.Storage
	delay time.Duration

	failAt    int // the failAt-th receive of a non-file blob fails (0 = never)
	failDelay time.Duration
	failedRef string

	mu        sync.Mutex
	received  int
	fileSeen  int
	earlyFile string // non-empty: the "file" blob arrived while something it references was missing
}

func (s *recStore) Fetch(ctx context.Context, br blob.Ref) (io.ReadCloser, uint32, error) {
	return s.mem.Fetch(ctx, br)
}

func (s *recStore) StatBlobs(ctx context.Context, blobs []blob.Ref, fn func(blob.SizedRef) error) error {
	return s.mem.StatBlobs(ctx, blobs, fn)
}

func (s *recStore) ReceiveBlob(ctx context.Context, br blob.Ref, src io.Reader) (blob.SizedRef, error) {
	b, err := io.ReadAll(src)
	if err != nil {
		return blob.SizedRef{}, err
	}
	isFile := false
	if len(b) > 0 && b[0] == '{' && len(b) < 1<<20 {
		var n jnode
		if json.Unmarshal(b, &n) == nil && n.Type == "file" {
			isFile = true
			missing := s.missingFrom(&n)
			s.mu.Lock()
			s.fileSeen++
			if len(missing) > 0 && s.earlyFile == "" {
				s.earlyFile = fmt.Sprintf("file blob %v received while %d referenced blob(s) were not stored yet, e.g. %s", br, len(missing), missing[0])
			}
			s.mu.Unlock()
		}
	}
	if !isFile && s.delay > 0 {
		time.Sleep(s.delay)
	}
	s.mu.Lock()
	s.received++
	fail := !isFile && s.failAt > 0 && s.received == s.failAt
	if fail {
		s.failedRef = br.String()
	}
	s.mu.Unlock()
	if fail {
		time.Sleep(s.failDelay)
		return blob.SizedRef{}, errRefused
	}
	return s.mem.ReceiveBlob(ctx, br, bytes.NewReader(b))
}

var errRefused = errors.New("harness store: this blob is refused (injected failure)")

// missingFrom lists refs reachable from n that are not in the store right now.
func (s *recStore) missingFrom(n *jnode) []string {
	var missing []string
	seen := map[string]bool{}
	var walk func(n *jnode)
	walk = func(n *jnode) {
		for _, p := range n.Parts {
			ref := p.BlobRef + p.BytesRef
			if ref == "" || seen[ref] {
				continue
			}
			seen[ref] = true
			br, ok := blob.Parse(ref)
			if !ok {
				missing = append(missing, "unparsable:"+ref)
				continue
			}
			c, ok := s.mem.BlobContents(br)
			if !ok {
				missing = append(missing, ref)
				continue
			}
			if p.BytesRef != "" {
				var sub jnode
				if err := json.Unmarshal([]byte(c), &sub); err != nil || sub.Type != "bytes" {
					missing = append(missing, "not-a-bytes-blob:"+ref)
					continue
				}
				walk(&sub)
			}
		}
	}
	walk(n)
	return missing
}

// loadWorld parses everything reachable from the stored root into a world.
func (s *recStore) loadWorld(root blob.Ref) (*world, *jnode, error) {
	w := newWorld()
	var load func(ref string, isNode bool) error
	load = func(ref string, isNode bool) error {
		br, ok := blob.Parse(ref)
		if !ok {
			return fmt.Errorf("unparsable ref %q in schema", ref)
		}
		c, ok := s.mem.BlobContents(br)
		if !ok {
			return fmt.Errorf("referenced blob %s is not in the store", ref)
		}
		if !isNode {
			w.raw[ref] = []byte(c)
			return nil
		}
		if _, dup := w.nodes[ref]; dup {
			return nil
		}
		n := new(jnode)
		if err := json.Unmarshal([]byte(c), n); err != nil {
			return fmt.Errorf("schema blob %s is not JSON: %v", ref, err)
		}
		w.nodes[ref] = n
		for _, p := range n.Parts {
			if p.BlobRef != "" && p.BytesRef != "" {
				return fmt.Errorf("part in %s has both blobRef and bytesRef", ref)
			}
			var err error
			switch {
			case p.BlobRef != "":
				err = load(p.BlobRef, false)
			case p.BytesRef != "":
				err = load(p.BytesRef, true)
			}
			if err != nil {
				return err
			}
			if (p.BlobRef != "" || p.BytesRef != "") && p.Offset+p.Size > w.sourceLen(p) {
				return fmt.Errorf("part %+v in %s reaches past its source (len %d)", p, ref, w.sourceLen(p))
			}
		}
		return nil
	}
	if err := load(root.String(), true); err != nil {
		return nil, nil, err
	}
	return w, w.nodes[root.String()], nil
}

// ---------------------------------------------------------------------------
// generators for the writer

func xorshiftFill(b []byte, seed uint64) {
	x := seed | 1
	for i := range b {
		x ^= x << 13
		x ^= x >> 7
		x ^= x << 17
		b[i] = byte(x >> 11)
	}
}

type fragReader struct {
	data        []byte
	pos         int
	sizes       []int
	idx         int
	eofWithData bool
	half        bool
	reads       int
}

func (r *fragReader) Read(p []byte) (int, error) {
	if len(p) == 0 {
		return 0, nil
	}
	if r.pos >= len(r.data) {
		return 0, io.EOF
	}
	n := len(p)
	if r.half {
		n = (n + 1) / 2
	} else if len(r.sizes) > 0 {
		n = min(n, r.sizes[r.idx%len(r.sizes)])
		r.idx++
	}
	n = min(n, len(r.data)-r.pos)
	copy(p, r.data[r.pos:r.pos+n])
	r.pos += n
	r.reads++
	if r.pos == len(r.data) && r.eofWithData {
		return n, io.EOF
	}
	return n, nil
}

type writerCase struct {
	Length     int    `json:"length"`
	Content    string `json:"content"`
	Seed       uint64 `json:"seed"`
	Period     int    `json:"period,omitempty"`
	ZeroFrom   int    `json:"zero_from,omitempty"`
	ZeroTo     int    `json:"zero_to,omitempty"`
	Reader     string `json:"reader"`
	Fragments  []int  `json:"fragments,omitempty"`
	EOFWithDat bool   `json:"eof_with_data"`
	DelayUS    int    `json:"store_delay_us"`
	FileName   string `json:"file_name"`
	// second pass over a store that refuses one data blob (0 = no second pass): the FailPick-th receive
	// counted from the end (FailFromEnd) or from the start fails, FailDelayMS after it was asked to store
	CachedReaders int  `json:"concurrent_readers_through_caching_fetcher,omitempty"`
	FailPick      int  `json:"fail_pick,omitempty"`
	FailFromEnd   bool `json:"fail_from_end,omitempty"`
	FailDelayMS   int  `json:"fail_delay_ms,omitempty"`
}

var lengthBases = []int{0, 1, 64 << 10, 256 << 10, 320 << 10, 1 << 20, 1<<20 + 256<<10, 2 << 20, 2<<20 + 256<<10, 3 << 20}

func genWriterCase(t *rapid.T) writerCase {
	var c writerCase
	engineered := rapid.IntRange(0, 6).Draw(t, "engineered") == 0
	if engineered {
		// a stream that ends shortly after a point where the 1 MiB cap must cut,
		// delivered so that EOF is already known when the cap is reached
		k := rapid.IntRange(1, 2).Draw(t, "capChunks")
		first := rapid.SampledFrom([]int{0, 256 << 10}).Draw(t, "firstChunk")
		tail := rapid.IntRange(1, 3000).Draw(t, "tail")
		c.Length = first + k<<20 + tail
		c.Content = rapid.SampledFrom([]string{"zeros", "zero-run"}).Draw(t, "content")
		if c.Content == "zero-run" {
			c.Seed = rapid.Uint64().Draw(t, "seed")
			c.ZeroFrom = first
			c.ZeroTo = c.Length
			if first == 0 {
				c.Content = "zeros"
			}
		}
		c.Reader = "fragments"
		c.Fragments = rapid.SliceOfN(rapid.IntRange(3001, 40000), 1, 4).Draw(t, "fragments")
		c.EOFWithDat = true
	} else {
		base := rapid.SampledFrom(lengthBases).Draw(t, "lengthBase")
		var delta int
		switch rapid.IntRange(0, 4).Draw(t, "deltaKind") {
		case 0:
			delta = -1
		case 1:
			delta = 0
		case 2:
			delta = 1
		case 3:
			delta = rapid.IntRange(2, 40000).Draw(t, "delta")
		default:
			delta = -rapid.IntRange(2, 40000).Draw(t, "delta")
		}
		c.Length = max(base+delta, 0)
		c.Content = rapid.SampledFrom([]string{"noise", "noise", "zeros", "period", "zero-run"}).Draw(t, "content")
		c.Seed = rapid.Uint64().Draw(t, "seed")
		switch c.Content {
		case "period":
			c.Period = rapid.OneOf(rapid.IntRange(1, 300), rapid.IntRange(60000, 140000)).Draw(t, "period")
		case "zero-run":
			if c.Length > 2 {
				around := rapid.SampledFrom([]int{64 << 10, 256 << 10, 1 << 20, c.Length}).Draw(t, "runAround")
				around = min(around, c.Length)
				c.ZeroFrom = max(0, around-rapid.IntRange(0, 200000).Draw(t, "runBefore"))
				c.ZeroTo = min(c.Length, around+rapid.IntRange(0, 1200000).Draw(t, "runAfter"))
			}
		}
		c.Reader = rapid.SampledFrom([]string{"bytes.Reader", "one-byte", "data+eof", "half", "fragments", "fragments"}).Draw(t, "reader")
		if c.Reader == "fragments" {
			c.Fragments = rapid.SliceOfN(rapid.OneOf(rapid.IntRange(1, 40000), rapid.IntRange(1, 64)), 1, 5).Draw(t, "fragments")
			c.EOFWithDat = rapid.Bool().Draw(t, "eofWithData")
		}
	}
	c.DelayUS = rapid.SampledFrom([]int{0, 100, 1000}).Draw(t, "storeDelayUS")
	c.FileName = rapid.SampledFrom([]string{"", "f.bin", "übung.txt"}).Draw(t, "fileName")
	if c.Length <= 1<<20+300<<10 && rapid.IntRange(0, 3).Draw(t, "cachedReaders") == 0 {
		c.CachedReaders = rapid.IntRange(2, 4).Draw(t, "nCachedReaders")
	}
	if rapid.IntRange(0, 2).Draw(t, "refusal") == 0 {
		c.FailPick = rapid.IntRange(1, 12).Draw(t, "failPick")
		c.FailFromEnd = rapid.IntRange(0, 2).Draw(t, "failFromEnd") > 0
		c.FailDelayMS = rapid.SampledFrom([]int{0, 1, 5, 30}).Draw(t, "failDelayMS")
	}
	return c
}

func (c *writerCase) content() []byte {
	b := make([]byte, c.Length)
	switch c.Content {
	case "noise":
		xorshiftFill(b, c.Seed)
	case "zeros":
	case "period":
		p := min(max(c.Period, 1), max(len(b), 1))
		unit := make([]byte, p)
		xorshiftFill(unit, c.Seed)
		for i := 0; i < len(b); i += p {
			copy(b[i:], unit)
		}
	case "zero-run":
		xorshiftFill(b, c.Seed)
		for i := c.ZeroFrom; i < c.ZeroTo && i < len(b); i++ {
			b[i] = 0
		}
	}
	return b
}

func (c *writerCase) reader(data []byte) io.Reader {
	switch c.Reader {
	case "bytes.Reader":
		return bytes.NewReader(data)
	case "one-byte":
		return &fragReader{data: data, sizes: []int{1}}
	case "data+eof":
		return &fragReader{data: data, eofWithData: true}
	case "half":
		return &fragReader{data: data, half: true}
	default:
		return &fragReader{data: data, sizes: c.Fragments, eofWithData: c.EOFWithDat}
	}
}

// checkWriter runs one writer round trip; returns a violation text or "".
func checkWriter(c *writerCase) (violation string, stats map[string]int) {
	data := c.content()
	st := &recStore{mem: new(memory.Storage), delay: time.Duration(c.DelayUS) * time.Microsecond}
	ref, err := schema.WriteFileFromReader(ctxbg, st, c.FileName, c.reader(data))
	// everything below is judged on the store as it is when the call has returned
	if err != nil {
		return fmt.Sprintf("WriteFileFromReader failed on a healthy store: %v", err), nil
	}
	if !ref.Valid() {
		return "WriteFileFromReader returned an invalid ref without error", nil
	}
	st.mu.Lock()
	early, fileSeen := st.earlyFile, st.fileSeen
	st.mu.Unlock()
	if early != "" {
		return early, nil
	}
	if fileSeen != 1 {
		return fmt.Sprintf("store saw %d file schema blobs, want 1", fileSeen), nil
	}
	// (1) every referenced blob is stored, well-formed tree; (2) the independent interpreter yields the content
	w, root, err := st.loadWorld(ref)
	if err != nil {
		return fmt.Sprintf("after return: %v", err), nil
	}
	if root.Type != "file" {
		return fmt.Sprintf("root blob has camliType %q", root.Type), nil
	}
	if got := root.size(); got != uint64(len(data)) {
		return fmt.Sprintf("sum of part sizes of the file blob = %d, content length %d", got, len(data)), nil
	}
	if got := w.denote(root, 0, uint64(len(data))); !bytes.Equal(got, data) {
		return fmt.Sprintf("bytes.md interpretation of the written tree differs from the content at byte %d", firstDiff(got, data)), nil
	}
	// (3) chunk size limit: every blob in the store, and every leaf part
	maxSeen := 0
	for _, rs := range st.mem.BlobrefStrings() {
		br := blob.MustParse(rs)
		cts, _ := st.mem.BlobContents(br)
		if len(cts) > maxChunk {
			return fmt.Sprintf("stored blob %s has %d bytes > chunk limit %d", rs, len(cts), maxChunk), nil
		}
		maxSeen = max(maxSeen, len(cts))
	}
	var lv []leaf
	w.leaves(ref.String(), "", &lv)
	for _, l := range lv {
		if l.part.Size > maxChunk {
			return fmt.Sprintf("chunk part %+v exceeds the chunk limit", l.part), nil
		}
	}
	// (4) the real reader
	fr, err := schema.NewFileReader(ctxbg, st, ref)
	if err != nil {
		return fmt.Sprintf("NewFileReader: %v", err), nil
	}
	defer fr.Close()
	if fr.Size() != int64(len(data)) {
		return fmt.Sprintf("FileReader.Size() = %d, want %d", fr.Size(), len(data)), nil
	}
	got, err := io.ReadAll(fr)
	if err != nil {
		return fmt.Sprintf("reading back: %v", err), nil
	}
	if !bytes.Equal(got, data) {
		return fmt.Sprintf("read back %d bytes, want %d; first difference at %d", len(got), len(data), firstDiff(got, data)), nil
	}
	if want := c.FileName; fr.FileName() != want {
		return fmt.Sprintf("FileName() = %q want %q", fr.FileName(), want), nil
	}
	// a few ranged reads around chunk edges
	x := c.Seed | 1
	var edges []uint64
	var pos uint64
	for _, l := range lv {
		pos += l.part.Size
		edges = append(edges, pos)
	}
	for i := 0; i < 12 && len(data) > 0; i++ {
		x ^= x << 13
		x ^= x >> 7
		x ^= x << 17
		var off uint64
		if len(edges) > 0 && i%2 == 0 {
			off = edges[x%uint64(len(edges))]
			if d := (x >> 20) % 5; off >= d {
				off -= d
			}
		} else {
			off = x % uint64(len(data))
		}
		ln := (x >> 32) % 200000
		if v := checkReadAt(fr, w, root, off, ln); v != "" {
			return v, nil
		}
	}
	stats = map[string]int{"leaves": len(lv), "nodes": len(w.nodes), "maxBlob": maxSeen}
	if len(lv) >= 2 && c.Seed%3 == 0 {
		// one FileReader shared by several goroutines that ReadAt different chunks at the same time (a
		// ranged download handler, a FUSE mount): each read must return the bytes at ITS offset
		var wg sync.WaitGroup
		verdicts := make([]string, 4)
		for g := range verdicts {
			wg.Add(1)
			go func(g int) {
				defer wg.Done()
				// every goroutine stays inside its own chunk (the reader keeps the last chunk it fetched: a
				// goroutine that finds "its" chunk cached must get that chunk, not the one another goroutine
				// has put there a moment later)
				li := (g * len(edges) / 4) % len(edges)
				start := uint64(0)
				if li > 0 {
					start = edges[li-1]
				}
				span := edges[li] - start
				y := c.Seed + uint64(g)*0x9e3779b97f4a7c15 | 1
				for i := 0; i < 400 && verdicts[g] == "" && span > 0; i++ {
					y ^= y << 13
					y ^= y >> 7
					y ^= y << 17
					verdicts[g] = checkReadAt(fr, w, root, start+y%span, 1+(y>>32)%300)
				}
			}(g)
		}
		wg.Wait()
		stats["concurrentReadAt"] = 1
		for g, v := range verdicts {
			if v != "" {
				return fmt.Sprintf("goroutine %d of 4 sharing one FileReader: %s", g, v), stats
			}
		}
	}
	if c.CachedReaders > 0 {
		if v := checkCachedReaders(c, st, ref, data); v != "" {
			return v, stats
		}
		stats["cachedReaders"] = c.CachedReaders
	}
	if c.FailPick > 0 {
		if v := checkWriterRefusal(c, data, st.received, stats); v != "" {
			return v, stats
		}
	}
	return "", stats
}

// slowFetcher delays every fetch a little, so that concurrent readers of one blob overlap.
type slowFetcher struct {
	src blob.Fetcher
	d   time.Duration
}

func (f slowFetcher) Fetch(ctx context.Context, br blob.Ref) (io.ReadCloser, uint32, error) {
	time.Sleep(f.d)
	return f.src.Fetch(ctx, br)
}

// checkCachedReaders reads the written file back through a cacher.CachingFetcher (what the server's
// download, thumbnail and UI handlers put in front of the blob store), with several readers starting at
// once on a cold cache: each of them must get exactly the file.
func checkCachedReaders(c *writerCase, st *recStore, ref blob.Ref, data []byte) string {
	cf := cacher.NewCachingFetcher(new(memory.Storage), slowFetcher{st, 300 * time.Microsecond})
	errs := make([]string, c.CachedReaders)
	var wg sync.WaitGroup
	for i := range errs {
		wg.Add(1)
		go func(i int) {
			defer wg.Done()
			fr, err := schema.NewFileReader(ctxbg, cf, ref)
			if err != nil {
				errs[i] = fmt.Sprintf("NewFileReader: %v", err)
				return
			}
			defer fr.Close()
			got, err := io.ReadAll(fr)
			if err != nil {
				errs[i] = fmt.Sprintf("reading: %v", err)
			} else if !bytes.Equal(got, data) {
				errs[i] = fmt.Sprintf("read %d bytes, want %d; first difference at %d", len(got), len(data), firstDiff(got, data))
			}
		}(i)
	}
	wg.Wait()
	for i, e := range errs {
		if e != "" {
			return fmt.Sprintf("reader #%d of %d concurrent readers of the file through a cold caching fetcher: %s", i+1, c.CachedReaders, e)
		}
	}
	return ""
}

// checkWriterRefusal writes the same stream into a store that refuses one blob: the writer has to report
// an error, or - if the refused blob got stored by another receive of the same bytes - return a file whose
// every referenced blob is stored and which reads back exactly. It must never return a ref to a file with
// a missing chunk.
func checkWriterRefusal(c *writerCase, data []byte, receives int, stats map[string]int) string {
	n := receives - 1 // the file schema blob is the last receive and is not refused
	if n <= 0 {
		return ""
	}
	k := 1 + (c.FailPick-1)%n
	if c.FailFromEnd {
		k = n - (c.FailPick-1)%min(n, 3)
	}
	st := &recStore{mem: new(memory.Storage), delay: time.Duration(c.DelayUS) * time.Microsecond, failAt: k, failDelay: time.Duration(c.FailDelayMS) * time.Millisecond}
	ref, err := schema.WriteFileFromReader(ctxbg, st, c.FileName, c.reader(data))
	stats["refusedReceive"] = k
	if err != nil {
		stats["refusalReported"] = 1
		return ""
	}
	if st.failedRef == "" {
		return "" // fewer receives this time (uploads are concurrent): nothing was refused
	}
	what := fmt.Sprintf("the store refused receive #%d of %d (blob %s, refusal reported after %d ms) but WriteFileFromReader returned %v without error", k, receives, st.failedRef, c.FailDelayMS, ref)
	w, root, lerr := st.loadWorld(ref)
	if lerr != nil {
		return what + ": " + lerr.Error()
	}
	if got := w.denote(root, 0, uint64(len(data))); root.size() != uint64(len(data)) || !bytes.Equal(got, data) {
		return what + ", and the written tree does not denote the content"
	}
	stats["refusedBlobStoredByAnotherReceive"] = 1
	return ""
}

func firstDiff(a, b []byte) int {
	n := min(len(a), len(b))
	for i := 0; i < n; i++ {
		if a[i] != b[i] {
			return i
		}
	}
	return n
}

func TestWriterRoundTrip(t *testing.T) {
	evid.Check(t, 250, 1500, func(t *rapid.T) {
		c := genWriterCase(t)
		evid.R.Eval()
		evid.R.Label("writer/content=" + c.Content)
		evid.R.Label("writer/reader=" + c.Reader)
		nt := c.Length > 256<<10 && c.Reader != "bytes.Reader"
		v, stats := checkWriter(&c)
		if nt {
			evid.R.NonTrivial(evid.Hash("w", c.Length, c.Content, c.Seed, c.Period, c.ZeroFrom, c.ZeroTo, c.Reader, fmt.Sprint(c.Fragments), c.EOFWithDat))
		}
		if stats != nil {
			if stats["nodes"] > 1 {
				evid.R.Label("writer/nested-bytes-tree")
			}
			if stats["maxBlob"] == maxChunk {
				evid.R.Label("writer/hit-1MiB-cap")
			}
			if stats["concurrentReadAt"] > 0 {
				evid.R.Label("writer/concurrent-ReadAt-on-one-FileReader")
			}
			if stats["cachedReaders"] > 0 {
				evid.R.Label("writer/read-back-by-concurrent-readers-through-a-caching-fetcher")
			}
			if stats["refusedReceive"] > 0 {
				evid.R.Label("writer/second-pass-with-one-refused-blob")
				if stats["refusalReported"] > 0 {
					evid.R.Label("writer/refusal-reported-as-error")
				}
				if stats["refusedBlobStoredByAnotherReceive"] > 0 {
					evid.R.Label("writer/refused-blob-stored-by-another-receive")
				}
			}
		}
		if evid.R.WantSample(nt) {
			evid.R.Sample(nt, map[string]any{"kind": "writer", "case": c, "stats": stats})
		}
		if v != "" {
			t.Fatalf("C15 violated (writer): %s\ncase: %+v", v, c)
		}
	})
}

// ---------------------------------------------------------------------------
// (b) reader over hand-built trees

const alnum = "0123456789abcdefghijklmnopqrstuvwxyzABCDEFGHIJKLMNOPQRSTUVWXYZ"

type treeGen struct {
	t      *rapid.T
	w      *world
	blobs  []string   // pool of raw blob refs
	subs   [][]string // pool of node refs per level
	order  []string   // all schema blob refs in creation order
	jsonOf map[string]string
}

func (g *treeGen) newBlob() string {
	k := len(g.blobs)
	n := rapid.OneOf(rapid.IntRange(1, 12), rapid.IntRange(1, 40), rapid.IntRange(41, 3000)).Draw(g.t, "blobLen")
	b := make([]byte, n)
	for i := range b {
		b[i] = alnum[(k*11+i)%len(alnum)]
	}
	ref := blob.RefFromBytes(b).String()
	if _, dup := g.w.raw[ref]; !dup {
		g.w.raw[ref] = b
		g.blobs = append(g.blobs, ref)
	}
	return ref
}

// subRange draws (offset,size) with offset+size <= n; now and then an empty range (a part of size 0 is
// valid and contributes nothing).
func (g *treeGen) subRange(n uint64) (off, size uint64) {
	if n == 0 {
		return 0, 0 // an empty sub-tree can only be referenced as an empty range
	}
	if rapid.IntRange(0, 11).Draw(g.t, "emptyRange") == 0 {
		return rapid.Uint64Range(0, n).Draw(g.t, "offset"), 0
	}
	switch rapid.IntRange(0, 5).Draw(g.t, "rangeKind") {
	case 0: // whole
		return 0, n
	case 1: // prefix: the source continues past the part
		return 0, rapid.Uint64Range(1, n).Draw(g.t, "size")
	case 2: // suffix
		off = rapid.Uint64Range(0, n-1).Draw(g.t, "offset")
		return off, n - off
	default:
		off = rapid.Uint64Range(0, n-1).Draw(g.t, "offset")
		return off, rapid.Uint64Range(1, n-off).Draw(g.t, "size")
	}
}

// node builds a schema blob at nesting level lvl (0 = root); returns its ref.
func (g *treeGen) node(lvl int, typ string, minParts int) string {
	nparts := rapid.IntRange(minParts, 5).Draw(g.t, "nparts")
	n := &jnode{Type: typ}
	for i := 0; i < nparts; i++ {
		kind := rapid.IntRange(0, 9).Draw(g.t, "partKind")
		var p jpart
		switch {
		case kind <= 3 || (kind <= 7 && lvl >= 3): // blob
			var ref string
			if len(g.blobs) > 0 && rapid.IntRange(0, 2).Draw(g.t, "reuseBlob") > 0 {
				ref = rapid.SampledFrom(g.blobs).Draw(g.t, "blob")
			} else {
				ref = g.newBlob()
			}
			p.BlobRef = ref
			p.Offset, p.Size = g.subRange(uint64(len(g.w.raw[ref])))
		case kind <= 7: // sub-tree
			var ref string
			pool := g.subs[lvl+1]
			if len(pool) > 0 && rapid.IntRange(0, 3).Draw(g.t, "reuseSub") == 0 {
				ref = rapid.SampledFrom(pool).Draw(g.t, "sub")
			} else {
				ref = g.node(lvl+1, "bytes", 1)
			}
			p.BytesRef = ref
			p.Offset, p.Size = g.subRange(g.w.nodes[ref].size())
		default: // hole
			if rapid.IntRange(0, 15).Draw(g.t, "hugeHole") == 0 {
				p.Size = 1<<32 + rapid.Uint64Range(0, 1<<33).Draw(g.t, "holeSize")
			} else {
				p.Size = rapid.Uint64Range(0, 30).Draw(g.t, "holeSize")
			}
		}
		if p.Offset == 0 && (p.BlobRef != "" || p.BytesRef != "") {
			p.explicitZero = rapid.IntRange(0, 3).Draw(g.t, "explicitZeroOffset") == 0
		}
		n.Parts = append(n.Parts, p)
	}
	js := nodeJSON(n, rapid.Bool().Draw(g.t, "versionFirst"))
	ref := blob.RefFromString(js).String()
	if _, dup := g.w.nodes[ref]; !dup {
		g.w.nodes[ref] = n
		g.jsonOf[ref] = js
		g.order = append(g.order, ref)
		g.subs[lvl] = append(g.subs[lvl], ref)
	}
	return ref
}

type treeCase struct {
	w      *world
	root   string
	jsonOf map[string]string
	order  []string
}

func genTree(t *rapid.T) *treeCase {
	g := &treeGen{t: t, w: newWorld(), subs: make([][]string, 6), jsonOf: map[string]string{}}
	typ := rapid.SampledFrom([]string{"file", "file", "bytes"}).Draw(t, "rootType")
	root := g.node(0, typ, 0)
	return &treeCase{w: g.w, root: root, jsonOf: g.jsonOf, order: g.order}
}

func (tc *treeCase) store() *memory.Storage {
	st := new(memory.Storage)
	for ref, b := range tc.w.raw {
		mustReceive(st, ref, b)
	}
	for ref, js := range tc.jsonOf {
		mustReceive(st, ref, []byte(js))
	}
	return st
}

func mustReceive(st *memory.Storage, ref string, b []byte) {
	if _, err := st.ReceiveBlob(ctxbg, blob.MustParse(ref), bytes.NewReader(b)); err != nil {
		panic(err)
	}
}

func (tc *treeCase) dump() map[string]any {
	blobs := map[string]string{}
	for r, b := range tc.w.raw {
		s := string(b)
		if len(s) > 80 {
			s = s[:80] + fmt.Sprintf("...(%d bytes)", len(b))
		}
		blobs[r] = s
	}
	var schemas []map[string]string
	for _, r := range tc.order {
		schemas = append(schemas, map[string]string{"ref": r, "json": tc.jsonOf[r]})
	}
	return map[string]any{"kind": "part-tree", "root": tc.root, "schema_blobs": schemas, "raw_blobs": blobs, "size": tc.w.nodes[tc.root].size()}
}

func okShortErr(err error) bool {
	return errors.Is(err, io.EOF) || errors.Is(err, io.ErrUnexpectedEOF)
}

// checkReadAt compares fr.ReadAt(ln bytes at off) with the interpreter.
func checkReadAt(fr *schema.FileReader, w *world, root *jnode, off, ln uint64) string {
	total := root.size()
	var wantN uint64
	if off < total {
		wantN = min(ln, total-off)
	}
	buf := bytes.Repeat([]byte{0xEE}, int(ln))
	n, err := fr.ReadAt(buf, int64(off))
	want := w.denote(root, off, wantN)
	if uint64(n) != wantN {
		return fmt.Sprintf("ReadAt(len=%d, off=%d) returned n=%d err=%v, want n=%d (file size %d)", ln, off, n, err, wantN, total)
	}
	if !bytes.Equal(buf[:n], want) {
		return fmt.Sprintf("ReadAt(len=%d, off=%d) returned %s, the schema denotes %s (file size %d)", ln, off, short(buf[:n]), short(want), total)
	}
	if ln > 0 {
		if uint64(n) < ln && err == nil {
			return fmt.Sprintf("ReadAt(len=%d, off=%d) returned n=%d < len with a nil error", ln, off, n)
		}
		if uint64(n) == ln && err != nil && err != io.EOF {
			return fmt.Sprintf("ReadAt(len=%d, off=%d) filled the buffer but returned error %v", ln, off, err)
		}
		if uint64(n) < ln && !okShortErr(err) {
			return fmt.Sprintf("ReadAt(len=%d, off=%d) short read with error %v (want EOF/ErrUnexpectedEOF)", ln, off, err)
		}
	}
	return ""
}

func short(b []byte) string {
	if len(b) <= 64 {
		return fmt.Sprintf("%q", b)
	}
	return fmt.Sprintf("%q...(%d bytes)", b[:64], len(b))
}

// checkSeekRead positions with Seek (whence chosen by sel) and reads ln bytes with io.ReadFull.
func checkSeekRead(fr *schema.FileReader, w *world, root *jnode, cur *int64, off, ln uint64, sel int) string {
	total := root.size()
	var pos int64
	var err error
	switch sel % 3 {
	case 0:
		pos, err = fr.Seek(int64(off), io.SeekStart)
	case 1:
		pos, err = fr.Seek(int64(off)-*cur, io.SeekCurrent)
	default:
		pos, err = fr.Seek(int64(off)-int64(total), io.SeekEnd)
	}
	if err != nil || pos != int64(off) {
		return fmt.Sprintf("Seek to %d (whence %d, from %d) = %d, %v", off, sel%3, *cur, pos, err)
	}
	var wantN uint64
	if off < total {
		wantN = min(ln, total-off)
	}
	buf := bytes.Repeat([]byte{0xEE}, int(ln))
	n, err := io.ReadFull(fr, buf)
	*cur = int64(off) + int64(n)
	want := w.denote(root, off, wantN)
	if uint64(n) != wantN || !bytes.Equal(buf[:n], want) {
		return fmt.Sprintf("Seek(%d)+Read(%d) returned n=%d %s err=%v; the schema denotes %s", off, ln, n, short(buf[:n]), err, short(want))
	}
	if ln > 0 && uint64(n) == ln && err != nil {
		return fmt.Sprintf("Seek(%d)+ReadFull(%d) complete but err=%v", off, ln, err)
	}
	if uint64(n) < ln && !okShortErr(err) {
		return fmt.Sprintf("Seek(%d)+ReadFull(%d) short (n=%d) with err=%v", off, ln, n, err)
	}
	return ""
}

// boundaries returns the absolute offsets (within the root) of all part edges at all levels that are visible in the file.
func (w *world) boundaries(n *jnode, base uint64, from, to uint64, out map[uint64]bool) {
	// [from,to) is the window of n's own byte sequence that is visible; base is the file offset of n's byte `from`.
	var pos uint64
	for _, p := range n.Parts {
		end := pos + p.Size
		lo, hi := max(pos, from), min(end, to)
		if lo < hi {
			out[base+lo-from] = true
			out[base+hi-from] = true
			if p.BytesRef != "" {
				w.boundaries(w.nodes[p.BytesRef], base+lo-from, p.Offset+lo-pos, p.Offset+hi-pos, out)
			}
		}
		pos = end
	}
}

type readStats struct {
	reads      int
	ntReads    int
	exhaustive bool
}

func checkTree(t *rapid.T, tc *treeCase) (string, readStats) {
	var rs readStats
	w, root := tc.w, tc.w.nodes[tc.root]
	total := root.size()
	st := tc.store()
	fr, err := schema.NewFileReader(ctxbg, st, blob.MustParse(tc.root))
	if err != nil {
		return fmt.Sprintf("NewFileReader on a well-formed %s blob: %v", root.Type, err), rs
	}
	defer fr.Close()
	if uint64(fr.Size()) != total {
		return fmt.Sprintf("Size() = %d, sum of part sizes %d", fr.Size(), total), rs
	}
	var cur int64
	one := func(off, ln uint64, sel int) string {
		rs.reads++
		if ln > 0 && off < total && w.startsInsideOverlong(root, off) {
			rs.ntReads++
		}
		if v := checkReadAt(fr, w, root, off, ln); v != "" {
			return v
		}
		if sel >= 0 {
			return checkSeekRead(fr, w, root, &cur, off, ln, sel)
		}
		return ""
	}
	// drawn reads first (so that shrinking can minimise them)
	nDrawn := rapid.IntRange(1, 4).Draw(t, "nReads")
	for i := 0; i < nDrawn; i++ {
		off := rapid.Uint64Range(0, min(total+2, 1<<62)).Draw(t, "off")
		maxLen := uint64(70000)
		if off < total {
			maxLen = min(maxLen, total-off+2)
		} else {
			maxLen = 3
		}
		ln := rapid.Uint64Range(0, maxLen).Draw(t, "len")
		if v := one(off, ln, rapid.IntRange(0, 2).Draw(t, "whence")); v != "" {
			return v, rs
		}
	}
	if total <= 40 {
		rs.exhaustive = true
		for off := uint64(0); off <= total+1; off++ {
			var rem uint64
			if off < total {
				rem = total - off
			}
			for ln := uint64(0); ln <= rem+1; ln++ {
				if v := one(off, ln, int(off+ln)); v != "" {
					return v, rs
				}
			}
		}
	} else {
		bs := map[uint64]bool{}
		w.boundaries(root, 0, 0, total, bs)
		var edges []uint64
		for b := range bs {
			edges = append(edges, b)
		}
		sort.Slice(edges, func(i, j int) bool { return edges[i] < edges[j] })
		if len(edges) > 60 {
			edges = edges[:60]
		}
		for i, e := range edges {
			for _, d := range []int64{-2, -1, 0, 1} {
				off := int64(e) + d
				if off < 0 || uint64(off) > total {
					continue
				}
				var next uint64 = total
				if i+1 < len(edges) {
					next = edges[i+1]
				}
				lens := []uint64{1, 2, 5}
				if next > uint64(off) && next-uint64(off) < 5000 {
					lens = append(lens, next-uint64(off), next-uint64(off)+1)
				}
				if total-min(total, uint64(off)) < 5000 {
					lens = append(lens, total-uint64(off)+1)
				}
				for j, ln := range lens {
					sel := -1
					if j == 0 {
						sel = i
					}
					if v := one(uint64(off), ln, sel); v != "" {
						return v, rs
					}
				}
			}
		}
	}
	// sequential reads of the whole file with a drawn buffer size
	if total <= 1<<20 {
		bufSize := rapid.SampledFrom([]int{1, 2, 3, 7, 64, 4096}).Draw(t, "seqBuf")
		if _, err := fr.Seek(0, io.SeekStart); err != nil {
			return fmt.Sprintf("Seek(0): %v", err), rs
		}
		var got []byte
		buf := make([]byte, bufSize)
		for {
			n, err := fr.Read(buf)
			got = append(got, buf[:n]...)
			if err == io.EOF {
				break
			}
			if err != nil {
				return fmt.Sprintf("sequential Read (buffer %d) failed after %d bytes: %v", bufSize, len(got), err), rs
			}
			if n == 0 {
				return fmt.Sprintf("sequential Read (buffer %d) returned 0, nil at %d", bufSize, len(got)), rs
			}
			if uint64(len(got)) > total {
				break
			}
		}
		if want := w.denote(root, 0, total); !bytes.Equal(got, want) {
			return fmt.Sprintf("sequential Read (buffer %d) returned %s, the schema denotes %s", bufSize, short(got), short(want)), rs
		}
		rs.reads++
	}
	// ForeachChunk: exact only where the documentation leaves no room (every bytesRef part covers its whole sub-tree)
	if w.fullCover(root) {
		var want []leaf
		w.leaves(tc.root, "", &want)
		var got []leaf
		err := fr.ForeachChunk(ctxbg, func(path []blob.Ref, p schema.BytesPart) error {
			l := leaf{part: jpart{Size: p.Size, Offset: p.Offset}}
			if p.BlobRef.Valid() {
				l.part.BlobRef = p.BlobRef.String()
			}
			if p.BytesRef.Valid() {
				l.part.BytesRef = p.BytesRef.String()
			}
			for _, r := range path {
				l.path += "/" + r.String()
			}
			got = append(got, l)
			return nil
		})
		if err != nil {
			return fmt.Sprintf("ForeachChunk: %v", err), rs
		}
		if len(got) != len(want) {
			return fmt.Sprintf("ForeachChunk reported %d chunks, the tree has %d leaf parts", len(got), len(want)), rs
		}
		var pos uint64
		for i := range want {
			wp := want[i].part
			wp.explicitZero = false
			if got[i].part != wp || got[i].path != want[i].path {
				return fmt.Sprintf("ForeachChunk chunk %d = %+v path %s, want %+v path %s", i, got[i].part, got[i].path, wp, want[i].path), rs
			}
			pos += wp.Size
		}
		if pos != total {
			return fmt.Sprintf("ForeachChunk chunks sum to %d, file size %d", pos, total), rs
		}
		evid.R.Label("reader/foreachchunk-exact")
	} else {
		// ForeachChunk follows a bytesRef into the whole sub-tree even when the part selects a sub-range of it;
		// doc/schema and the method's comment do not say what a "chunk of fr" is in that case: not judged.
		if err := fr.ForeachChunk(ctxbg, func([]blob.Ref, schema.BytesPart) error { return nil }); err != nil {
			return fmt.Sprintf("ForeachChunk on a well-formed tree: %v", err), rs
		}
		evid.R.Label("reader/foreachchunk-subrange-not-judged")
	}
	return "", rs
}

func TestReaderPartTrees(t *testing.T) {
	evid.Check(t, 5000, 60000, func(t *rapid.T) {
		tc := genTree(t)
		evid.R.Eval()
		root := tc.w.nodes[tc.root]
		v, rs := checkTree(t, tc)
		evid.R.LabelN("reader/reads", rs.reads)
		evid.R.LabelN("reader/reads-starting-inside-overlong-part", rs.ntReads)
		if rs.exhaustive {
			evid.R.Label("reader/all-(off,len)-pairs")
		}
		if len(root.Parts) == 0 {
			evid.R.Label("reader/zero-length")
		}
		if len(tc.order) > 1 {
			evid.R.Label("reader/nested")
		}
		nt := rs.ntReads > 0
		if nt {
			evid.R.NonTrivial(evid.Hash("tree", tc.root))
		}
		if evid.R.WantSample(nt) && (!nt || len(tc.order) > 1) {
			evid.R.Sample(nt, tc.dump())
		}
		if v != "" {
			d, _ := json.MarshalIndent(tc.dump(), "", " ")
			t.Fatalf("C15 violated (reader): %s\ntree: %s", v, d)
		}
	})
}

// ---------------------------------------------------------------------------
// (c) static sets

func memberRefs(n int, seed uint64) []blob.Ref {
	out := make([]blob.Ref, n)
	for i := range out {
		out[i] = blob.RefFromString(fmt.Sprintf("member-%d-%d", seed, i))
	}
	// deterministic shuffle so that the list is not sorted by ref or by index
	x := seed | 1
	for i := n - 1; i > 0; i-- {
		x ^= x << 13
		x ^= x >> 7
		x ^= x << 17
		j := int(x % uint64(i+1))
		out[i], out[j] = out[j], out[i]
	}
	return out
}

type ssBlob struct {
	Type      string   `json:"camliType"`
	Members   []string `json:"members"`
	MergeSets []string `json:"mergeSets"`
}

// checkStaticSet builds a directory of the given members with threshold m and reads it back.
func checkStaticSet(m int, members []blob.Ref) (violation string, nblobs int) {
	old := schema.VerifSetMaxStaticSetMembers(m)
	defer schema.VerifSetMaxStaticSetMembers(old)

	st := new(memory.Storage)
	ssb := schema.NewStaticSet()
	subsets := ssb.SetStaticSetMembers(members)
	top := ssb.Blob()
	for _, b := range append([]*schema.Blob{top}, subsets...) {
		mustReceive(st, b.BlobRef().String(), []byte(b.JSON()))
	}
	dir := schema.NewDirMap("dir").PopulateDirectoryMap(top.BlobRef()).Blob()
	mustReceive(st, dir.BlobRef().String(), []byte(dir.JSON()))

	dr, err := schema.NewDirReader(ctxbg, st, dir.BlobRef())
	if err != nil {
		return fmt.Sprintf("NewDirReader: %v", err), 0
	}
	got, err := dr.StaticSet(ctxbg)
	if err != nil {
		return fmt.Sprintf("StaticSet: %v", err), 0
	}
	if len(got) != len(members) {
		return fmt.Sprintf("StaticSet lists %d members, the directory has %d", len(got), len(members)), 0
	}
	for i := range got {
		if got[i] != members[i] {
			return fmt.Sprintf("StaticSet member %d = %v, want %v", i, got[i], members[i]), 0
		}
	}
	// independent walk: size limit per blob, members/mergeSets exclusive, flattening = members
	var flat []string
	seen := 0
	var walk func(ref blob.Ref, depth int) string
	walk = func(ref blob.Ref, depth int) string {
		c, ok := st.BlobContents(ref)
		if !ok {
			return fmt.Sprintf("static-set %v is referenced but was not returned by SetStaticSetMembers", ref)
		}
		seen++
		var b ssBlob
		if err := json.Unmarshal([]byte(c), &b); err != nil || b.Type != "static-set" {
			return fmt.Sprintf("blob %v is not a static-set: %v", ref, err)
		}
		if len(b.Members) > m || len(b.MergeSets) > m {
			return fmt.Sprintf("static-set %v has %d members / %d mergeSets, limit %d", ref, len(b.Members), len(b.MergeSets), m)
		}
		if len(b.Members) > 0 && len(b.MergeSets) > 0 {
			return fmt.Sprintf("static-set %v has both members and mergeSets", ref)
		}
		flat = append(flat, b.Members...)
		for _, s := range b.MergeSets {
			r, ok := blob.Parse(s)
			if !ok {
				return fmt.Sprintf("bad mergeSets entry %q", s)
			}
			if depth > 8 {
				return "static-set nesting deeper than 8"
			}
			if v := walk(r, depth+1); v != "" {
				return v
			}
		}
		return ""
	}
	if v := walk(top.BlobRef(), 0); v != "" {
		return v, 0
	}
	if len(flat) != len(members) {
		return fmt.Sprintf("flattened static-set tree has %d members, want %d", len(flat), len(members)), 0
	}
	for i := range flat {
		if flat[i] != members[i].String() {
			return fmt.Sprintf("flattened member %d = %s, want %v", i, flat[i], members[i]), 0
		}
	}
	if len(members) > m && len(subsets) == 0 {
		return "more members than the threshold but no subsets returned", 0
	}
	return "", seen
}

func ssUpper(m int) int {
	if m <= evid.Pick(4, 6) {
		return m*m*m + 2*m
	}
	return m*m + 2*m
}

func TestStaticSetAllCounts(t *testing.T) {
	if evid.Replaying() {
		t.Skip()
	}
	si, sn := evid.Shard()
	maxM := evid.Pick(8, 12)
	total := 0
	for m := 3; m <= maxM; m++ {
		for n := 0; n <= ssUpper(m); n++ {
			if (m*100003+n)%sn != si {
				continue
			}
			total++
			seed := uint64(m*1000 + n)
			v, nb := checkStaticSet(m, memberRefs(n, seed))
			evid.R.Eval()
			if n > m {
				evid.R.NonTrivial(evid.Hash("ss", m, n, seed))
				evid.R.Label("staticset/split")
				if n >= m*m {
					evid.R.Label("staticset/recursive-split")
				}
			} else {
				evid.R.Label("staticset/unsplit")
			}
			if n == m*m+m && evid.R.WantSample(true) {
				evid.R.Sample(true, map[string]any{"kind": "static-set", "M": m, "members": n, "static_set_blobs": nb})
			}
			if v != "" {
				t.Fatalf("C15 violated (static-set): M=%d members=%d: %s", m, n, v)
			}
		}
	}
	evid.R.Exhaustive(fmt.Sprintf("static-set member counts 0..M^2+2M for every M in 3..%d (0..M^3+2M for M<=%d), partitioned over shards", maxM, evid.Pick(4, 6)))
}

func TestStaticSetRapid(t *testing.T) {
	evid.Check(t, 300, 3000, func(t *rapid.T) {
		m := rapid.IntRange(3, 12).Draw(t, "M")
		around := rapid.SampledFrom([]int{0, m, 2 * m, m * m, m*m + m, m * m * m}).Draw(t, "around")
		n := max(0, around+rapid.IntRange(-2, 3).Draw(t, "delta"))
		if rapid.IntRange(0, 4).Draw(t, "free") == 0 {
			n = rapid.IntRange(0, m*m*m+m).Draw(t, "n")
		}
		seed := rapid.Uint64().Draw(t, "orderSeed")
		evid.R.Eval()
		v, nb := checkStaticSet(m, memberRefs(n, seed))
		nt := n > m
		if nt {
			evid.R.NonTrivial(evid.Hash("ss", m, n, seed))
			evid.R.Label("staticset/split")
		} else {
			evid.R.Label("staticset/unsplit")
		}
		_ = nb
		if v != "" {
			t.Fatalf("C15 violated (static-set): M=%d members=%d seed=%d: %s", m, n, seed, v)
		}
	})
}
