package c02

// Plain (non-rapid) regression tests of the shrunk cases of the two defects this
// check found; both are repaired in /repo (fix: commits 2c1db26 and 3fc0053).

import (
	"bytes"
	"errors"
	"os"
	"testing"

	"perkeep.org/pkg/blob"
	"perkeep.org/pkg/blobserver"

	"verifharness/internal/evid"
	"verifharness/internal/vcompose"
	"verifharness/internal/vgen"
	"verifharness/internal/vstore"
)

func buildPlain(t *testing.T, tree *vcompose.Node) (*vcompose.Built, func()) {
	dir, err := os.MkdirTemp("", "verif-c02r-")
	if err != nil {
		t.Fatalf("VERIF-INCONCLUSIVE: %v", err)
	}
	b, err := vcompose.Build(vstore.NewEnv(), dir, tree)
	if err != nil {
		os.RemoveAll(dir)
		t.Fatalf("C02 harness: %v", err)
	}
	return b, func() { b.Close(); os.RemoveAll(dir) }
}

func absent(t *testing.T, sto blobserver.Storage, br blob.Ref) {
	t.Helper()
	if rc, _, err := sto.Fetch(ctx, br); err == nil {
		rc.Close()
		t.Fatalf("C02 violated: %v is fetchable after its rejection", br)
	}
}

// Shrunk case of TestOnlyMatchingBytesAccepted on f271d4d..9688361: encrypt(memory,memory),
// the 1-byte blob stored, then ZERO bytes offered under its ref: reported as received.
func TestRegressEncryptDuplicateShortcut(t *testing.T) {
	if evid.Replaying() {
		t.Skip()
	}
	b, done := buildPlain(t, &vcompose.Node{Type: "encrypt", Kids: []*vcompose.Node{{Type: "verif"}, {Type: "verif"}}})
	defer done()
	data := []byte{0x37}
	br := vgen.RefOf("sha224", data)
	if _, err := blobserver.Receive(ctx, b.Root, br, bytes.NewReader(data)); err != nil {
		t.Fatalf("C02 violated: valid blob rejected: %v", err)
	}
	var hooked int
	blobserver.GetHub(b.Root).AddReceiveHook(func(blob.SizedRef) error { hooked++; return nil })
	for _, bad := range [][]byte{{}, {0x36}, {0x37, 0x00}} {
		if sb, err := blobserver.Receive(ctx, b.Root, br, bytes.NewReader(bad)); err == nil {
			t.Fatalf("C02 violated: blobserver.Receive over encrypt accepted %x under the already stored %v (returned %v)", bad, br, sb)
		} else if !errors.Is(err, blobserver.ErrCorruptBlob) {
			t.Fatalf("C02 violated: want ErrCorruptBlob, got %v", err)
		}
		if sb, err := b.Root.ReceiveBlob(ctx, br, bytes.NewReader(bad)); err == nil {
			t.Fatalf("C02 violated: encrypt.ReceiveBlob (a store that verifies itself) accepted %x under the already stored %v (returned %v)", bad, br, sb)
		}
	}
	if sb, err := blobserver.Receive(ctx, b.Root, br, vgen.NewErrReader(data, 1)); err == nil {
		t.Fatalf("C02 violated: Receive over encrypt reported %v although the source failed", sb)
	}
	if hooked != 0 {
		t.Fatalf("C02 violated: hub notified %d times of rejected offers", hooked)
	}
	evid.R.Eval()
}

// Shrunk case of TestBoundary16MiB on f271d4d..9688361: memory store, 16 MiB of noise(seed 1)
// plus one byte offered under the sha1 of the first 16 MiB: accepted, stored truncated.
func TestRegressExtensionOfMaxSizeBlob(t *testing.T) {
	if evid.Replaying() {
		t.Skip()
	}
	b, done := buildPlain(t, &vcompose.Node{Type: "memory"})
	defer done()
	exact := vgen.Noise(1, maxBlob)
	br := vgen.RefOf("sha1", exact)
	ext := append(append(make([]byte, 0, maxBlob+1), exact...), 0x01)
	if sb, err := blobserver.Receive(ctx, b.Root, br, bytes.NewReader(ext)); err == nil {
		t.Fatalf("C02 violated: %d bytes accepted under %v (returned %v); the limit is %d", len(ext), br, sb, maxBlob)
	}
	absent(t, b.Root, br)
	// the unverified entry point used between layers (replica, encrypt, ...) applies the same cap
	vb, vdone := buildPlain(t, &vcompose.Node{Type: "verif"})
	defer vdone()
	if sb, err := blobserver.ReceiveNoHash(ctx, vb.Root, br, bytes.NewReader(ext)); err == nil {
		t.Fatalf("C02 violated: ReceiveNoHash stored %v from a %d-byte source", sb, len(ext))
	}
	absent(t, vb.Root, br)
	if sb, err := blobserver.Receive(ctx, b.Root, br, bytes.NewReader(exact)); err != nil || sb.Size != maxBlob {
		t.Fatalf("C02 violated: exactly 16 MiB rejected: %v %v", sb, err)
	}
	evid.R.Eval()
}

// Found by TestBoundary16MiB (VERIF_SEED=2) after fix 3fc0053: the ciphertext of a plaintext within
// ~4.3 KiB of MaxBlobSize is larger than MaxBlobSize, and encrypt hands it to blobserver.ReceiveNoHash.
// Before 3fc0053 that call stored only the first 16 MiB of the ciphertext and the plaintext was
// ACKNOWLEDGED BUT UNREADABLE (Fetch: corrupt blob); since 3fc0053 the receive is refused and leaves
// nothing behind. Either a clean refusal or a readable blob is fine; an acknowledged unreadable one is not.
func TestRegressEncryptPlaintextAtMaxSize(t *testing.T) {
	if evid.Replaying() {
		t.Skip()
	}
	b, done := buildPlain(t, &vcompose.Node{Type: "encrypt", Kids: []*vcompose.Node{{Type: "verif"}, {Type: "verif"}}})
	defer done()
	exact := vgen.Noise(2, maxBlob)
	br := vgen.RefOf("sha256", exact)
	sb, err := blobserver.Receive(ctx, b.Root, br, bytes.NewReader(exact))
	if err != nil {
		absent(t, b.Root, br)
		for _, s := range b.Env.Stores {
			if s.RawLen() != 0 {
				t.Fatalf("C02 violated: the refused 16 MiB plaintext left %d blobs in the wrapped store %q", s.RawLen(), s.Name)
			}
		}
		evid.R.Eval()
		return
	}
	rc, _, err := b.Root.Fetch(ctx, br)
	if err != nil {
		t.Fatalf("C02 violated: encrypt acknowledged %v but cannot fetch it: %v", sb, err)
	}
	defer rc.Close()
	var got bytes.Buffer
	if _, err := got.ReadFrom(rc); err != nil || !bytes.Equal(got.Bytes(), exact) {
		t.Fatalf("C02 violated: encrypt acknowledged %v but returns %d bytes (err %v)", sb, got.Len(), err)
	}
	evid.R.Eval()
}
