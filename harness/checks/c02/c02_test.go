// C02 — only bytes matching their blobref, within the 16 MiB cap, are ever accepted.
package c02

import (
	"flag"
	"bytes"
	"context"
	"crypto/md5"
	"crypto/sha1"
	"crypto/sha256"
	"crypto/sha512"
	"encoding/hex"
	"encoding/json"
	"errors"
	"fmt"
	"io"
	"mime/multipart"
	"net"
	"net/http"
	"net/http/httptest"
	"net/textproto"
	"os"
	"runtime"
	"runtime/debug"
	"sort"
	"strings"
	"sync"
	"sync/atomic"
	"testing"
	"time"

	"perkeep.org/pkg/blob"
	"perkeep.org/pkg/blobserver"
	"perkeep.org/pkg/blobserver/handlers"
	"perkeep.org/pkg/constants"
	"pgregory.net/rapid"

	"verifharness/internal/evid"
	"verifharness/internal/known"
	"verifharness/internal/vcompose"
	"verifharness/internal/vgen"
	"verifharness/internal/vmodel"
	"verifharness/internal/vstore"
)

const prop = "C02"

const maxBlob = constants.MaxBlobSize

// encryptHeadroom bounds the size overhead of the encrypt store's format (version byte, age
// header, 16 bytes per 64 KiB chunk: about 4.3 KiB for 16 MiB).
const encryptHeadroom = 8 << 10

func TestMain(m *testing.M) {
	evid.QuietStderr()
	evid.Main(m, prop, "exploration",
		"one evaluation = one OFFER (ref text, bytes, source reader, ingest path, backend). A rapid case builds one backend "+
			"(memory|localdisk|diskpacked[maxFileSize]|blobpacked|encrypt|replica|namespace|verif, children drawn, through blobserver.CreateStorage), "+
			"a pool of 2-5 valid blobs (0 B..4 KiB; sha1/sha224/sha256) some of which are stored beforehand, then 1-5 requests over the paths "+
			"blobserver.Receive | direct ReceiveBlob (self-verifying stores memory/encrypt only) | HTTP PUT with Content-Length | HTTP PUT chunked | HTTP multipart batch upload (1-4 parts, good and bad mixed) "+
			"against a real httptest server running handlers.CreatePutUploadHandler/CreateBatchUploadHandler. Each offer = base blob x mutation "+
			"{identity, truncation to any prefix, extension by 1..300 bytes, one bit flipped, two distinct bytes swapped} x ref kind {the base's true ref, ref of another supported hash over the offered bytes, "+
			"unknown hash name (md5/sha384/sha512/blake2 with the true digest), malformed ref text (HTTP only)} x reader {whole, one-byte, data+EOF, halves, fragments, error after k bytes}. "+
			"A separate boundary class offers exactly 16 MiB, 16 MiB+1 under its own ref, and extensions/truncations of the exactly-16-MiB blob (before and after the true blob is stored). "+
			"Oracle: accepted <=> hash(ref's function, offered bytes) == ref and len <= 16 MiB and hash supported and source did not fail; rejected => error/4xx-5xx/not in JSON `received`, "+
			"no hub hook/listener call, ref not fetchable/stat-able/enumerated on the store nor present in any wrapped harness store, nothing written below, stored blobs untouched. "+
			"non-trivial = an offer that must be rejected and differs from valid content in <= 1 byte or by length only, or any offer through an HTTP path; "+
			"distinct = FNV-64 of (path, backend configuration, mutation, ref kind, size class, reader, offered-under-an-already-stored-ref)")
}

var ctx = context.Background()

// ---------------------------------------------------------------------------
// HTTP front: one real server per process; the storage behind it is swapped per case.

type stoConf struct {
	blobserver.Storage
	cfg *blobserver.Config
}

func (s *stoConf) Config() *blobserver.Config { return s.cfg }

var (
	srvOnce sync.Once
	srv     *httptest.Server
	client  *http.Client
	worlds  sync.Map // world id (header X-Verif-World) -> *stoConf
	worldID int64

	connMu       sync.Mutex
	busy         = map[string]bool{} // server side: remote addr of connections in StateActive (reading/handling a request)
	clientClosed = map[string]bool{} // local addr of connections the client closed
	serverClosed = map[string]bool{} // remote addr of connections the server closed
)

var (
	dbgMu  sync.Mutex
	dbgLog []string
	dbgOn  = os.Getenv("C02_DEBUG") != ""
)

func dbg(f string, a ...any) {
	if !dbgOn {
		return
	}
	dbgMu.Lock()
	dbgLog = append(dbgLog, time.Now().Format("15:04:05.000000 ")+fmt.Sprintf(f, a...))
	if len(dbgLog) > 400 {
		dbgLog = dbgLog[200:]
	}
	dbgMu.Unlock()
}

// trackedConn tells the harness when the HTTP client gives up a connection.
type trackedConn struct {
	net.Conn
	key  string
	once sync.Once
}

func (c *trackedConn) Close() error {
	c.once.Do(func() {
		connMu.Lock()
		clientClosed[c.key] = true
		connMu.Unlock()
		dbg("client close %s", c.key)
	})
	return c.Conn.Close()
}

func server() *httptest.Server {
	srvOnce.Do(func() {
		srv = httptest.NewUnstartedServer(http.HandlerFunc(func(w http.ResponseWriter, r *http.Request) {
			v, ok := worlds.Load(r.Header.Get("X-Verif-World"))
			if !ok {
				// a request of a finished case that the server got to late
				http.Error(w, "harness: world is gone", 599)
				return
			}
			dst := v.(*stoConf)
			switch r.Method {
			case "PUT":
				handlers.CreatePutUploadHandler(dst).ServeHTTP(w, r)
			case "POST":
				handlers.CreateBatchUploadHandler(dst).ServeHTTP(w, r)
			default:
				http.Error(w, "harness: unexpected method", 599)
			}
		}))
		srv.Config.ConnState = func(c net.Conn, st http.ConnState) {
			k := c.RemoteAddr().String()
			dbg("server state %s %v", k, st)
			connMu.Lock()
			defer connMu.Unlock()
			switch st {
			case http.StateActive:
				// (StateNew is not counted: the client's transport may dial a spare connection and
				// leave it unused)
				busy[k] = true
			case http.StateIdle:
				delete(busy, k)
			case http.StateClosed, http.StateHijacked:
				delete(busy, k)
				serverClosed[k] = true
			}
		}
		srv.Start()
		d := &net.Dialer{Timeout: 30 * time.Second}
		tr := &http.Transport{
			MaxIdleConnsPerHost: 4,
			DialContext: func(ctx context.Context, network, addr string) (net.Conn, error) {
				c, err := d.DialContext(ctx, network, addr)
				if err != nil {
					return nil, err
				}
				dbg("client dial %s", c.LocalAddr())
				return &trackedConn{Conn: c, key: c.LocalAddr().String()}, nil
			},
		}
		client = &http.Client{Transport: tr, Timeout: 120 * time.Second}
	})
	return srv
}

// waitServerIdle waits until the server is done with everything the client sent: a
// client-side failure returns before the server has even looked at the request, so
// (1) every connection the client gave up must have been closed by the server too (its
// handler, if it ran at all, has returned by then), and (2) no other connection is in
// the middle of a request.
func waitServerIdle() bool {
	dl := time.Now().Add(30 * time.Second)
	for {
		connMu.Lock()
		pending := len(busy)
		for k := range clientClosed {
			if serverClosed[k] {
				delete(clientClosed, k)
				delete(serverClosed, k)
				delete(busy, k)
			} else {
				pending++
			}
		}
		connMu.Unlock()
		if pending == 0 {
			dbg("server idle")
			return true
		}
		if time.Now().After(dl) {
			return false
		}
		time.Sleep(20 * time.Microsecond)
	}
}

// ---------------------------------------------------------------------------
// hub observers

type hookRec struct {
	mu     sync.Mutex
	hooked []blob.SizedRef
}

type observer struct {
	*hookRec
	hub blobserver.BlobHub
	ch  chan blob.Ref
}

func observe(dst any) *observer {
	o := &observer{hookRec: &hookRec{}, ch: make(chan blob.Ref, 64), hub: blobserver.GetHub(dst)}
	rec := o.hookRec // the hub keeps the hook (and what it references) for the life of the process
	o.hub.AddReceiveHook(func(sb blob.SizedRef) error {
		rec.mu.Lock()
		rec.hooked = append(rec.hooked, sb)
		rec.mu.Unlock()
		return nil
	})
	o.hub.RegisterListener(o.ch)
	return o
}

func (o *observer) release() { o.hub.UnregisterListener(o.ch) }

// take returns and clears the hook calls; it also collects as many listener
// messages as there were hook calls (they are sent asynchronously) and whatever
// else is already there.
func (o *observer) take() (hooked []blob.SizedRef, heard []blob.Ref, missing int) {
	o.mu.Lock()
	hooked = o.hooked
	o.hooked = nil
	o.mu.Unlock()
	for range hooked {
		select {
		case br := <-o.ch:
			heard = append(heard, br)
		case <-time.After(10 * time.Second):
			missing++
		}
	}
	runtime.Gosched()
	for {
		select {
		case br := <-o.ch:
			heard = append(heard, br)
			continue
		default:
		}
		break
	}
	return
}

// ---------------------------------------------------------------------------
// case description

type offer struct {
	Base    int    `json:"base_blob"`
	Mut     string `json:"mutation"`
	MutArg  string `json:"mutation_arg,omitempty"`
	RefKind string `json:"ref_kind"`
	RefText string `json:"ref_text"`
	Len     int    `json:"offered_len"`
	Head    string `json:"offered_head,omitempty"`
	Valid   bool   `json:"bytes_match_ref_and_size_ok"`
	Dup     bool   `json:"true_content_already_stored"`
	Expect  string `json:"expect"`
	Got     string `json:"observed,omitempty"`

	data []byte
	ref  blob.Ref // zero for malformed
	near bool
}

type request struct {
	Path   string   `json:"path"`
	Reader string   `json:"reader"`
	ErrK   int      `json:"error_after_bytes,omitempty"`
	Offers []*offer `json:"offers"`
}

var supported = []string{"sha1", "sha224", "sha256"}

func head(b []byte) string {
	if len(b) > 24 {
		return fmt.Sprintf("%x…", b[:24])
	}
	return fmt.Sprintf("%x", b)
}

func sizeClass(n int) string {
	switch {
	case n == 0:
		return "0"
	case n == 1:
		return "1"
	case n <= 300:
		return "small"
	case n <= 8192:
		return "kib"
	case n < maxBlob:
		return "large"
	case n == maxBlob:
		return "16MiB"
	default:
		return ">16MiB"
	}
}

func unknownRef(name string, data []byte) string {
	switch name {
	case "md5":
		h := md5.Sum(data)
		return "md5-" + hex.EncodeToString(h[:])
	case "sha384":
		h := sha512.Sum384(data)
		return "sha384-" + hex.EncodeToString(h[:])
	case "sha512":
		h := sha512.Sum512(data)
		return "sha512-" + hex.EncodeToString(h[:])
	default:
		h := sha512.Sum512_256(data)
		return name + "-" + hex.EncodeToString(h[:])
	}
}

// malformedRef derives a text that blob.Parse must refuse from a true ref text.
func malformedRef(t *rapid.T, good string) string {
	i := strings.IndexByte(good, '-')
	name, hx := good[:i], good[i+1:]
	switch rapid.IntRange(0, 8).Draw(t, "malformedKind") {
	case 0:
		return name + "-" + hx[:len(hx)-1] // one digit short
	case 1:
		return name + "-" + hx + "0" // one digit long
	case 2:
		return name + "-" + strings.ToUpper(hx[:1]) + "G" + hx[2:] // non-hex digit
	case 3:
		return name + hx // no dash
	case 4:
		return "-" + hx // empty hash name
	case 5:
		return name + "-" // empty digest
	case 6:
		return strings.ToUpper(name) + "-" + hx // hash names are lower case
	case 7:
		return name + "_" + hx
	default:
		return name + "-" + strings.Repeat("z", len(hx))
	}
}

func mutate(t *rapid.T, base []byte, kind string, maxExt int) (out []byte, used, arg string) {
	n := len(base)
	if n == 0 && kind != "identity" {
		kind = "extend"
	}
	switch kind {
	case "truncate":
		k := rapid.IntRange(0, n-1).Draw(t, "prefixLen")
		return append([]byte(nil), base[:k]...), kind, fmt.Sprint(k)
	case "bitflip":
		pos := rapid.IntRange(0, n-1).Draw(t, "flipPos")
		bit := rapid.IntRange(0, 7).Draw(t, "flipBit")
		out = append([]byte(nil), base...)
		out[pos] ^= 1 << bit
		return out, kind, fmt.Sprintf("%d.%d", pos, bit)
	case "swap":
		i := rapid.IntRange(0, n-1).Draw(t, "swapI")
		j0 := rapid.IntRange(0, n-1).Draw(t, "swapJ")
		for d := 0; d < n; d++ {
			j := (j0 + d) % n
			if base[j] != base[i] {
				out = append([]byte(nil), base...)
				out[i], out[j] = out[j], out[i]
				return out, kind, fmt.Sprintf("%d<->%d", i, j)
			}
		}
		// all bytes equal: no two distinct bytes to swap
		out = append([]byte(nil), base...)
		out[i] ^= 0x80
		return out, "bitflip", fmt.Sprintf("%d.7", i)
	case "extend":
		k := rapid.IntRange(1, maxExt).Draw(t, "extendBy")
		seed := rapid.Uint64Range(0, 1<<16).Draw(t, "extendSeed")
		out = append(append([]byte(nil), base...), vgen.Noise(seed, k)...)
		return out, "extend", fmt.Sprint(k)
	default:
		return append([]byte(nil), base...), "identity", ""
	}
}

var mutKinds = []string{"identity", "identity", "truncate", "extend", "bitflip", "swap"}

// genOffer draws one offer relative to pool[base].
func genOffer(t *rapid.T, pool []vgen.Blob, httpPath, direct bool) *offer {
	o := &offer{Base: rapid.IntRange(0, len(pool)-1).Draw(t, "base")}
	b := pool[o.Base]
	o.data, o.Mut, o.MutArg = mutate(t, b.Data, rapid.SampledFrom(mutKinds).Draw(t, "mutation"), 300)
	kinds := []string{"own", "own", "own", "own", "otherhash", "unknown"}
	if direct {
		kinds = kinds[:5] // calling ReceiveBlob directly with an unsupported ref is outside every contract
	}
	if httpPath {
		kinds = append(kinds, "malformed")
	}
	o.RefKind = rapid.SampledFrom(kinds).Draw(t, "refKind")
	switch o.RefKind {
	case "own":
		o.ref = b.Ref
		o.RefText = b.Ref.String()
	case "otherhash":
		var others []string
		for _, h := range supported {
			if h != b.Ref.HashName() {
				others = append(others, h)
			}
		}
		o.ref = vgen.RefOf(rapid.SampledFrom(others).Draw(t, "otherHash"), o.data)
		o.RefText = o.ref.String()
	case "unknown":
		uname := rapid.SampledFrom([]string{"md5", "sha384", "sha512", "blake2", "sha3"}).Draw(t, "unknownHash")
		o.RefText = unknownRef(uname, o.data)
		// or: an unsupported NAME in front of the digest a SUPPORTED function gives for these bytes
		// (a fallback to a default hash for unknown names would accept exactly these)
		switch rapid.IntRange(0, 5).Draw(t, "unknownDigestOf") {
		case 0:
			d := sha256.Sum224(o.data)
			o.RefText = uname + "-" + hex.EncodeToString(d[:])
		case 1:
			d := sha1.Sum(o.data)
			o.RefText = uname + "-" + hex.EncodeToString(d[:])
		case 2:
			d := sha256.Sum256(o.data)
			o.RefText = uname + "-" + hex.EncodeToString(d[:])
		}
		r, ok := blob.Parse(o.RefText)
		if !ok {
			t.Fatalf("harness: %q should parse as an unknown-hash ref", o.RefText)
		}
		o.ref = r
	case "malformed":
		o.RefText = malformedRef(t, b.Ref.String())
		if _, ok := blob.Parse(o.RefText); ok {
			t.Fatalf("harness: %q was meant to be malformed but parses", o.RefText)
		}
	}
	o.finish()
	return o
}

// finish computes the oracle's verdict on (ref, bytes) alone.
func (o *offer) finish() {
	o.Len = len(o.data)
	o.Head = head(o.data)
	o.Valid = false
	if o.ref.Valid() && o.ref.IsSupported() && len(o.data) <= maxBlob {
		o.Valid = vgen.RefOf(o.ref.HashName(), o.data) == o.ref
	}
	o.near = !o.Valid && (o.Mut == "truncate" || o.Mut == "extend" || o.Mut == "bitflip" || o.Mut == "identity")
}

// ---------------------------------------------------------------------------
// the world of one case

type world struct {
	t          *rapid.T
	b          *vcompose.Built
	sto        blobserver.Storage
	front      *stoConf
	obsSto     *observer
	obsFr      *observer
	model      *vmodel.Map
	pool       []vgen.Blob
	desc       string
	log        []*request
	known      map[blob.Ref]bool // supported refs ever offered or pooled
	unk        map[blob.Ref]bool // unknown-hash refs offered
	nOffer     int
	id         string
	hasEncrypt bool
	stop       bool // an open known finding was hit: end the case (successfully)
	// preloaded[store name][ref]: blobs the harness itself put into a never-written lower layer (overlay);
	// they stay there by design also after being removed through the overlay
	preloaded map[string]map[blob.Ref]bool
}

func (w *world) dump() string {
	var pool []string
	for _, p := range w.pool {
		pool = append(pool, p.String())
	}
	j, _ := json.MarshalIndent(map[string]any{"backend": w.desc, "pool": pool, "requests": w.log}, "", " ")
	return string(j)
}

func (w *world) violated(sig string, f string, a ...any) bool {
	w.t.Helper()
	msg := fmt.Sprintf(f, a...)
	if sig != "" && known.Hit(prop, sig, msg) {
		w.stop = true
		return true
	}
	if dbgOn {
		dbgMu.Lock()
		fmt.Println("C02_DEBUG timeline:\n" + strings.Join(dbgLog, "\n"))
		dbgMu.Unlock()
	}
	w.t.Fatalf("C02 violated: %s\ncase: %s", msg, w.dump())
	return false
}

func (w *world) inconclusive(f string, a ...any) {
	w.t.Fatalf("VERIF-INCONCLUSIVE: "+f, a...)
}

type outcome struct {
	accepted bool
	unknown  bool // no usable response (client-side failure of a multipart request)
	detail   string
	size     int64
	haveSize bool
	err      error
}

func reader(kind string, data []byte, errK int, seed uint64) io.Reader {
	if kind == "errafter" {
		return vgen.NewErrReader(data, errK)
	}
	return vgen.NewReader(kind, data, seed)
}

type onlyReader struct{ io.Reader }

func (w *world) doPut(o *offer, rq *request, withCL bool) outcome {
	server()
	req, err := http.NewRequest("PUT", srv.URL+"/camli/"+o.RefText, nil)
	if err != nil {
		w.inconclusive("cannot build PUT for %q: %v", o.RefText, err)
	}
	req.Header.Set("X-Verif-World", w.id)
	req.Body = io.NopCloser(onlyReader{reader(rq.Reader, o.data, rq.ErrK, uint64(w.nOffer))})
	if withCL {
		req.ContentLength = int64(len(o.data))
	} else {
		req.ContentLength = -1
	}
	resp, err := client.Do(req)
	if !waitServerIdle() {
		w.inconclusive("server handler still running 30s after the PUT returned")
	}
	if err != nil {
		return outcome{accepted: false, detail: "client error: " + err.Error(), err: err}
	}
	body, _ := io.ReadAll(resp.Body)
	resp.Body.Close()
	d := fmt.Sprintf("HTTP %d %s", resp.StatusCode, strings.TrimSpace(string(body)))
	if resp.StatusCode >= 200 && resp.StatusCode < 300 {
		return outcome{accepted: true, detail: d}
	}
	if resp.StatusCode < 400 {
		w.violated("", "PUT of %s answered neither success nor a 4xx/5xx rejection: %s", o.RefText, d)
	}
	return outcome{accepted: false, detail: d}
}

var quoteEscaper = strings.NewReplacer("\\", "\\\\", `"`, "\\\"")

func (w *world) doMultipart(rq *request) []outcome {
	server()
	var body bytes.Buffer
	mw := multipart.NewWriter(&body)
	for i, o := range rq.Offers {
		h := make(textproto.MIMEHeader)
		h.Set("Content-Disposition", fmt.Sprintf(`form-data; name="%s"; filename="blob%d"`, quoteEscaper.Replace(o.RefText), i))
		h.Set("Content-Type", "application/octet-stream")
		pw, err := mw.CreatePart(h)
		if err != nil {
			w.inconclusive("multipart: %v", err)
		}
		pw.Write(o.data)
	}
	mw.Close()
	all := body.Bytes()
	req, err := http.NewRequest("POST", srv.URL+"/camli/upload", nil)
	if err != nil {
		w.inconclusive("cannot build POST: %v", err)
	}
	req.Header.Set("Content-Type", mw.FormDataContentType())
	req.Header.Set("X-Verif-World", w.id)
	if rq.Reader == "whole" {
		req.Body = io.NopCloser(bytes.NewReader(all))
		req.ContentLength = int64(len(all))
	} else {
		k := rq.ErrK
		if rq.Reader == "errafter" {
			// cut somewhere inside the body: k is drawn as a fraction (per mille)
			k = int(int64(len(all)-1) * int64(rq.ErrK) / 1000)
		}
		req.Body = io.NopCloser(onlyReader{reader(rq.Reader, all, k, uint64(w.nOffer))})
		req.ContentLength = -1
	}
	dbg("POST start reader=%s", rq.Reader)
	resp, err := client.Do(req)
	dbg("POST returned err=%v", err)
	if !waitServerIdle() {
		w.inconclusive("server handler still running 30s after the POST returned")
	}
	outs := make([]outcome, len(rq.Offers))
	if err != nil {
		for i := range outs {
			outs[i] = outcome{unknown: true, detail: "client error: " + err.Error(), err: err}
		}
		return outs
	}
	rb, _ := io.ReadAll(resp.Body)
	resp.Body.Close()
	if resp.StatusCode != 200 {
		if resp.StatusCode < 400 {
			w.violated("", "multipart upload answered HTTP %d %s", resp.StatusCode, rb)
		}
		for i := range outs {
			outs[i] = outcome{detail: fmt.Sprintf("HTTP %d %s", resp.StatusCode, strings.TrimSpace(string(rb)))}
		}
		return outs
	}
	var ur struct {
		Received []struct {
			BlobRef string `json:"blobRef"`
			Size    int64  `json:"size"`
		} `json:"received"`
		ErrorText string `json:"errorText"`
	}
	if err := json.Unmarshal(rb, &ur); err != nil {
		w.violated("", "multipart upload answered 200 with a body that is not the documented JSON: %q (%v)", rb, err)
	}
	// a ref may be offered several times in one request: match listings to parts in order
	used := make([]bool, len(ur.Received))
	for i, o := range rq.Offers {
		outs[i] = outcome{detail: "not in received; errorText=" + strings.TrimSpace(ur.ErrorText)}
		for j, r := range ur.Received {
			if !used[j] && r.BlobRef == o.RefText {
				used[j] = true
				outs[i] = outcome{accepted: true, size: r.Size, haveSize: true, detail: fmt.Sprintf("listed in received with size %d", r.Size)}
				break
			}
		}
	}
	for j, r := range ur.Received {
		if !used[j] {
			w.violated("", "multipart response lists %s (size %d) more often than it was offered in this request (or it was not offered at all)", r.BlobRef, r.Size)
		}
	}
	return outs
}

// rawState is the content of every harness store below the backend.
func (w *world) rawState() map[string]map[blob.Ref][]byte {
	out := map[string]map[blob.Ref][]byte{}
	for name, s := range w.b.Env.Stores {
		out[name] = s.Snapshot()
	}
	return out
}

func sameRaw(a, b map[blob.Ref][]byte) (blob.Ref, bool) {
	for r, d := range b {
		if od, ok := a[r]; !ok || !bytes.Equal(od, d) {
			return r, false
		}
	}
	for r := range a {
		if _, ok := b[r]; !ok {
			return r, false
		}
	}
	return blob.Ref{}, true
}

func (w *world) storeNames() []string {
	var names []string
	for n := range w.b.Env.Stores {
		names = append(names, n)
	}
	sort.Strings(names)
	return names
}

// run executes one request and applies the per-request oracle.
func (w *world) run(rq *request) {
	w.log = append(w.log, rq)
	_ = w.t
	before := w.rawState()
	seq0 := w.b.Env.Seq()
	isHTTP := rq.Path == "put-cl" || rq.Path == "put-chunked" || rq.Path == "multipart"
	srcFails := rq.Reader == "errafter"

	// expectations
	blocked := false
	for _, o := range rq.Offers {
		o.Dup = o.ref.Valid() && w.model.State(o.ref) == vmodel.Present
		ok := o.Valid && !(srcFails && rq.Path != "multipart")
		switch {
		case rq.Path == "multipart" && (srcFails || blocked):
			if o.Valid {
				o.Expect = "maybe"
			} else {
				o.Expect = "reject"
			}
		case ok && w.hasEncrypt && len(o.data) > maxBlob-encryptHeadroom:
			// the ciphertext of such a plaintext exceeds the blob limit of the store underneath:
			// the encrypting store may refuse it (cleanly); the statement only forbids wrong acceptance
			o.Expect = "accept-or-clean-reject"
		case ok:
			o.Expect = "accept"
		default:
			o.Expect = "reject"
			blocked = true
		}
	}

	// execution
	var outs []outcome
	switch rq.Path {
	case "receive", "direct":
		o := rq.Offers[0]
		src := reader(rq.Reader, o.data, rq.ErrK, uint64(w.nOffer))
		var sb blob.SizedRef
		var err error
		if rq.Path == "receive" {
			sb, err = blobserver.Receive(ctx, w.sto, o.ref, src)
		} else {
			sb, err = w.sto.ReceiveBlob(ctx, o.ref, src)
		}
		out := outcome{accepted: err == nil, err: err}
		if err != nil {
			out.detail = "error: " + err.Error()
		} else {
			out.detail = fmt.Sprintf("returned %v", sb)
			out.size, out.haveSize = int64(sb.Size), true
			if sb.Ref != o.ref {
				w.violated("", "%s of %s returned the ref %v", rq.Path, o.RefText, sb.Ref)
			}
		}
		outs = []outcome{out}
	case "put-cl":
		outs = []outcome{w.doPut(rq.Offers[0], rq, true)}
	case "put-chunked":
		outs = []outcome{w.doPut(rq.Offers[0], rq, false)}
	case "multipart":
		outs = w.doMultipart(rq)
	}

	// hub
	dstObs, otherObs := w.obsSto, w.obsFr
	if isHTTP {
		dstObs, otherObs = w.obsFr, w.obsSto
	}
	hooked, heard, missing := dstObs.take()
	oh, ohd, _ := otherObs.take()
	hooked = append(hooked, oh...)
	heard = append(heard, ohd...)

	// verdicts
	anyNew := false
	var rejected []*offer
	for i, o := range rq.Offers {
		out := outs[i]
		w.nOffer++
		evid.R.Eval()
		evid.R.Label("path/" + rq.Path)
		evid.R.Label("mutation/" + o.Mut)
		evid.R.Label("refkind/" + o.RefKind)
		evid.R.Label("reader/" + rq.Reader)
		evid.R.Label("size/" + sizeClass(len(o.data)))
		evid.R.Label("expect/" + o.Expect)
		if o.Dup {
			evid.R.Label("offered-under-stored-ref/" + map[bool]string{true: "valid-bytes", false: "INVALID-bytes"}[o.Valid])
		}
		nt := (o.Expect == "reject" && o.near) || isHTTP
		if nt {
			evid.R.NonTrivial(evid.Hash(rq.Path, w.desc, o.Mut, o.RefKind, sizeClass(len(o.data)), rq.Reader, o.Dup))
		}
		switch {
		case out.unknown:
			o.Got = "no response (" + out.detail + ")"
		case out.accepted:
			o.Got = "ACCEPTED (" + out.detail + ")"
		default:
			o.Got = "rejected (" + out.detail + ")"
		}
		if out.accepted && !o.Valid {
			why := "its bytes do not hash to the ref"
			switch {
			case !o.ref.Valid():
				why = "the ref text is malformed"
			case !o.ref.IsSupported():
				why = "the hash is not supported"
			case len(o.data) > maxBlob && vgen.RefOf(o.ref.HashName(), o.data[:maxBlob]) == o.ref:
				why = fmt.Sprintf("it is %d bytes long (limit %d) and only its first 16 MiB hash to the ref", len(o.data), maxBlob)
			case len(o.data) > maxBlob:
				why = fmt.Sprintf("it is %d bytes long (limit %d)", len(o.data), maxBlob)
			}
			w.violated(w.sigAccepted(rq, o), "%s accepted %d bytes (%s of blob #%d) under %s although %s [%s; already stored: %v; reader %s]",
				rq.Path, len(o.data), o.Mut, o.Base, o.RefText, why, out.detail, o.Dup, rq.Reader)
			// an open known finding: the store said "received"; this case ends here, successfully
			return
		}
		if out.accepted && srcFails && rq.Path != "multipart" {
			w.violated("", "%s reported success although the source failed after %d of %d bytes [%s]", rq.Path, rq.ErrK, len(o.data), out.detail)
		}
		switch o.Expect {
		case "accept":
			if !out.accepted {
				w.violated("", "%s rejected a valid offer: %d bytes hashing to %s [%s; reader %s]", rq.Path, len(o.data), o.RefText, out.detail, rq.Reader)
			}
		case "reject":
			if out.accepted {
				w.violated("", "%s accepted %s which had to be rejected [%s]", rq.Path, o.RefText, out.detail)
			}
			if rq.Path == "receive" && o.ref.Valid() && o.ref.IsSupported() && !srcFails && len(o.data) <= maxBlob && !errors.Is(out.err, blobserver.ErrCorruptBlob) {
				w.violated("", "blobserver.Receive rejected mismatching bytes for %s with %q; its documentation promises ErrCorruptBlob", o.RefText, out.err)
			}
		}
		if out.accepted {
			if out.haveSize && out.size != int64(len(o.data)) {
				w.violated("", "%s accepted %s and reported size %d; %d bytes were offered", rq.Path, o.RefText, out.size, len(o.data))
			}
			if !o.Dup {
				anyNew = true
			}
			w.model.SetPresent(o.ref, o.data)
		} else {
			if o.Expect == "maybe" && w.model.State(o.ref) == vmodel.Absent {
				w.model.SetMaybe(o.ref, o.data)
				anyNew = true
			}
			rejected = append(rejected, o)
		}
	}

	// hub: exactly the accepted offers were announced (direct ReceiveBlob announces nothing)
	want := map[blob.Ref]int{}
	maybe := map[blob.Ref]int{}
	for i, o := range rq.Offers {
		if rq.Path == "direct" {
			continue
		}
		if outs[i].accepted {
			want[o.ref]++
		} else if o.Expect == "maybe" {
			maybe[o.ref]++
		}
	}
	got := map[blob.Ref]int{}
	for _, sb := range hooked {
		got[sb.Ref]++
		if e := w.model.Get(sb.Ref); e.State == vmodel.Absent {
			w.violated("", "the receive hook of the store's hub was called for %v, which was rejected (request %s)", sb, rq.Path)
		} else if int(sb.Size) != len(e.Data) {
			w.violated("", "the receive hook was called with %v; the blob has %d bytes", sb, len(e.Data))
		}
	}
	for r, n := range got {
		if n > want[r]+maybe[r] {
			w.violated("", "the receive hook was called %d times for %s; %d offers of it were accepted", n, r, want[r])
		}
	}
	for r, n := range want {
		if got[r] < n {
			w.violated("", "%s was accepted %d times through %s but the hub's receive hook ran %d times", r, n, rq.Path, got[r])
		}
	}
	hgot := map[blob.Ref]int{}
	for _, r := range heard {
		hgot[r]++
	}
	for r, n := range hgot {
		if n > got[r] {
			w.violated("", "a hub listener heard %s %d times; accepted %d times", r, n, got[r])
		}
	}
	if missing > 0 {
		w.violated("", "%d of %d hub listener notifications never arrived", missing, len(hooked))
	}

	// nothing written below for rejected offers
	for _, ev := range w.b.Env.LogSince(seq0) {
		if ev.Op != "receive" {
			continue
		}
		for _, o := range rejected {
			if o.ref.Valid() && ev.Key == o.RefText && w.model.State(o.ref) == vmodel.Absent {
				w.violated("", "the rejected offer of %s reached the lower layer: %s", o.RefText, ev.String())
			}
		}
	}
	after := w.rawState()
	if !anyNew {
		for _, name := range w.storeNames() {
			for r, d := range after[name] {
				od, had := before[name][r]
				if had && bytes.Equal(od, d) {
					continue
				}
				// a store layered over a never-written lower layer (overlay) stores an accepted duplicate of a
				// lower-layer blob in its upper layer: adding exactly the accepted content of a present ref is
				// not a trace of a rejected upload
				if e := w.model.Get(r); !had && w.b.Tree.Type == "overlay" && e.State == vmodel.Present && bytes.Equal(d, e.Data) {
					continue
				}
				w.violated("", "no new blob was accepted by this %s request, yet the wrapped store %q changed at %s", rq.Path, name, r)
			}
			for r := range before[name] {
				if _, ok := after[name][r]; !ok {
					w.violated("", "no new blob was accepted by this %s request, yet the wrapped store %q lost %s", rq.Path, name, r)
				}
			}
		}
	}
	w.checkRawNames(after)

	// visibility of everything this request touched
	var refs []blob.Ref
	seen := map[blob.Ref]bool{}
	for _, o := range rq.Offers {
		if !o.ref.Valid() || seen[o.ref] {
			continue
		}
		seen[o.ref] = true
		if !o.ref.IsSupported() {
			w.checkUnknownAbsent(o.ref)
			continue
		}
		refs = append(refs, o.ref)
		if err := w.model.CheckFetch(ctx, w.sto, o.ref); err != nil {
			w.mismatch(err, rq)
		}
	}
	if len(refs) > 0 {
		if err := w.model.CheckStat(ctx, w.sto, refs); err != nil {
			w.mismatch(err, rq)
		}
	}
}

func (w *world) mismatch(err error, rq *request) {
	if err == vmodel.ErrTimeout {
		w.inconclusive("watchdog timeout")
	}
	where := "final battery"
	if rq != nil {
		where = "after the " + rq.Path + " request"
	}
	w.violated("", "%s: %v", where, err)
}

// checkRawNames: a blob stored in a wrapped harness store under the name of an
// offered ref must be that ref's true content and the ref must be present.
func (w *world) checkRawNames(state map[string]map[blob.Ref][]byte) {
	for _, name := range w.storeNames() {
		for r, d := range state[name] {
			if !w.known[r] {
				continue
			}
			e := w.model.Get(r)
			if w.preloaded[name][r] && bytes.Equal(d, e.Data) {
				continue
			}
			if e.State == vmodel.Absent {
				w.violated("", "the wrapped store %q holds %d bytes under %s, which was never accepted", name, len(d), r)
			}
			if !bytes.Equal(d, e.Data) {
				w.violated("", "the wrapped store %q holds %d bytes under %s that are not the accepted content (%d bytes)", name, len(d), r, len(e.Data))
			}
		}
	}
}

func (w *world) checkUnknownAbsent(r blob.Ref) {
	if rc, _, err := w.sto.Fetch(ctx, r); err == nil {
		d, _ := io.ReadAll(rc)
		rc.Close()
		w.violated("", "the unsupported ref %s is fetchable (%d bytes) after its rejection", r, len(d))
	}
	n := 0
	err := w.sto.StatBlobs(ctx, []blob.Ref{r}, func(blob.SizedRef) error { n++; return nil })
	if err == nil && n > 0 {
		w.violated("", "the unsupported ref %s is stat-able after its rejection", r)
	}
	for _, s := range w.b.Env.Stores {
		if _, ok := s.RawGet(r); ok {
			w.violated("", "the unsupported ref %s is stored in the wrapped store %q", r, s.Name)
		}
	}
}

// sigAccepted maps an illegitimate acceptance to the id of a recorded finding ("" = none).
func (w *world) sigAccepted(rq *request, o *offer) string {
	return ""
}

func newWorld(t *rapid.T, tree *vcompose.Node, pool []vgen.Blob) (*world, func()) {
	dir, err := os.MkdirTemp("", "verif-c02-")
	if err != nil {
		t.Fatalf("VERIF-INCONCLUSIVE: mkdtemp: %v", err)
	}
	env := vstore.NewEnv()
	b, err := vcompose.Build(env, dir, tree)
	if err != nil {
		os.RemoveAll(dir)
		t.Fatalf("C02 harness: cannot build %s: %v", tree, err)
	}
	w := &world{t: t, b: b, sto: b.Root, model: vmodel.New(), pool: pool, desc: tree.String(), known: map[blob.Ref]bool{}, unk: map[blob.Ref]bool{}}
	w.hasEncrypt = strings.Contains(w.desc, "encrypt")
	w.front = &stoConf{Storage: b.Root, cfg: &blobserver.Config{Writable: true, Readable: true, URLBase: "http://verif/bs"}}
	server()
	w.id = fmt.Sprint(atomic.AddInt64(&worldID, 1))
	worlds.Store(w.id, w.front)
	w.obsSto = observe(w.sto)
	w.obsFr = observe(w.front)
	for _, p := range pool {
		w.model.Know(p.Ref, p.Data)
		w.known[p.Ref] = true
	}
	return w, func() {
		worlds.Delete(w.id)
		w.obsSto.release()
		w.obsFr.release()
		// blobserver's hub registry keeps every storage it was asked about alive for the life of
		// the process: drop what they hold
		var refs []blob.Ref
		for r := range w.known {
			refs = append(refs, r)
		}
		sort.Slice(refs, func(i, j int) bool { return refs[i].String() < refs[j].String() })
		if len(refs) > 0 {
			w.sto.RemoveBlobs(ctx, refs)
		}
		for _, s := range env.Stores {
			s.Restore(nil)
		}
		b.Close()
		os.RemoveAll(dir)
	}
}

func (w *world) note(o *offer) {
	if o.ref.Valid() && o.ref.IsSupported() {
		w.known[o.ref] = true
		w.model.Know(o.ref, o.data)
	}
}

func (w *world) final() {
	var enumExtra []blob.Ref
	if err := w.model.Battery(ctx, w.sto, enumExtra, 2); err != nil {
		w.mismatch(err, nil)
	}
	// an enumeration must not show any unknown-hash ref either (Battery compares the full listing with the model)
	w.checkRawNames(w.rawState())
}

var rootTypes = []string{"memory", "localdisk", "diskpacked", "blobpacked", "encrypt", "replica", "verif", "namespace", "overlay", "proxycache"}

func rootOf(desc string) string {
	if i := strings.IndexAny(desc, "[("); i >= 0 {
		return desc[:i]
	}
	return desc
}

func runCase(t *rapid.T) {
	tree := vcompose.GenTree(t, 2, rapid.SampledFrom(rootTypes).Draw(t, "backend"))
	pool := vgen.GenPool(t, 2, 5, false)
	w, done := newWorld(t, tree, pool)
	defer done()
	evid.R.Label("backend/" + tree.Type)
	selfVerifying := tree.Type == "memory" || tree.Type == "encrypt"

	// overlay: some pool blobs sit in the (never written) lower layer, and some of those were removed
	// through the overlay before the offers start: a removed blob is absent, and a REJECTED offer under its
	// ref must leave it absent (a rejected upload leaves no trace)
	for _, leaf := range w.b.Preload {
		lname := fmt.Sprintf("n%d", leaf.ID())
		if w.preloaded == nil {
			w.preloaded = map[string]map[blob.Ref]bool{}
		}
		if w.preloaded[lname] == nil {
			w.preloaded[lname] = map[blob.Ref]bool{}
		}
		for i, p := range pool {
			w.preloaded[lname][p.Ref] = true // (only matters for the refs really put there below)
			switch rapid.IntRange(0, 3).Draw(t, fmt.Sprintf("lower%d", i)) {
			case 0: // in the lower layer
				if err := w.b.PreloadBlob(leaf, p.Ref, p.Data); err != nil {
					t.Fatalf("C02 harness: preload: %v", err)
				}
				w.model.SetPresent(p.Ref, p.Data)
			case 1: // in the lower layer, then removed through the overlay
				if err := w.b.PreloadBlob(leaf, p.Ref, p.Data); err != nil {
					t.Fatalf("C02 harness: preload: %v", err)
				}
				if err := w.sto.RemoveBlobs(ctx, []blob.Ref{p.Ref}); err != nil {
					t.Fatalf("C02 harness: removing a lower-layer blob through the overlay: %v", err)
				}
				w.model.SetAbsent(p.Ref)
				evid.R.Label("overlay/lower-blob-removed-before-offers")
			}
		}
	}
	// blobs stored beforehand (through the verified entry point; must be accepted)
	for i, p := range pool {
		if rapid.IntRange(0, 2).Draw(t, fmt.Sprintf("prestore%d", i)) != 0 {
			continue
		}
		o := &offer{Base: i, Mut: "identity", RefKind: "own", RefText: p.Ref.String(), ref: p.Ref, data: p.Data}
		o.finish()
		w.run(&request{Path: "receive", Reader: "whole", Offers: []*offer{o}})
		if w.stop {
			return
		}
	}

	nReq := rapid.IntRange(1, 5).Draw(t, "requests")
	for i := 0; i < nReq; i++ {
		paths := []string{"receive", "receive", "put-cl", "put-chunked", "multipart", "multipart"}
		if selfVerifying {
			paths = append(paths, "direct")
		}
		rq := &request{Path: rapid.SampledFrom(paths).Draw(t, "path")}
		isHTTP := rq.Path != "receive" && rq.Path != "direct"
		n := 1
		if rq.Path == "multipart" {
			n = rapid.IntRange(1, 4).Draw(t, "parts")
		}
		for j := 0; j < n; j++ {
			o := genOffer(t, pool, isHTTP, rq.Path == "direct")
			w.note(o)
			rq.Offers = append(rq.Offers, o)
		}
		if rq.Path == "multipart" {
			rq.Reader = rapid.SampledFrom([]string{"whole", "whole", "frags", "half", "dataeof", "onebyte", "errafter"}).Draw(t, "bodyReader")
			if rq.Reader == "errafter" {
				rq.ErrK = rapid.IntRange(0, 999).Draw(t, "cutPerMille")
			}
		} else {
			kinds := append([]string{}, vgen.ReaderKinds...)
			o := rq.Offers[0]
			// a failing source over HTTP must fail before the whole body was sent, otherwise the server
			// legitimately holds a complete request
			if len(o.data) > 0 || !isHTTP {
				kinds = append(kinds, "errafter")
			}
			rq.Reader = rapid.SampledFrom(kinds).Draw(t, "reader")
			if rq.Reader == "errafter" {
				hi := len(o.data)
				if isHTTP {
					hi = len(o.data) - 1
				}
				rq.ErrK = rapid.IntRange(0, hi).Draw(t, "errAfter")
			}
		}
		w.run(rq)
		if w.stop {
			return
		}
	}
	w.final()
	if evid.R.WantSample(true) {
		var smp any
		json.Unmarshal([]byte(w.dump()), &smp)
		evid.R.Sample(true, smp)
	}
}

func TestOnlyMatchingBytesAccepted(t *testing.T) {
	evid.Check(t, 1500, 8000, runCase)
}

// ---------------------------------------------------------------------------
// boundary class around constants.MaxBlobSize

func runBoundary(t *rapid.T, root string) {
	tree := vcompose.GenTree(t, 2, root)
	seed := rapid.Uint64Range(1, 1<<40).Draw(t, "contentSeed")
	hn := rapid.SampledFrom(supported).Draw(t, "hash")
	exact := vgen.Noise(seed, maxBlob)
	plus1 := append(append(make([]byte, 0, maxBlob+1), exact...), byte(seed>>3))
	pool := []vgen.Blob{
		{Ref: vgen.RefOf(hn, exact), Data: exact, Class: "16MiB"},
		{Ref: vgen.RefOf(hn, plus1), Data: plus1, Class: "16MiB+1"},
	}
	w, done := newWorld(t, tree, pool)
	defer done()
	evid.R.Label("backend/" + tree.Type)
	evid.R.Label("boundary-cases")

	mk := func(base int, mut string, label string) *offer {
		o := &offer{Base: base, RefKind: "own", RefText: pool[base].Ref.String(), ref: pool[base].Ref}
		switch mut {
		case "extend":
			k := rapid.SampledFrom([]int{1, 1, 2, 63, 64, 4096, 1 << 20}).Draw(t, "extendBy"+label)
			o.data = append(append(make([]byte, 0, len(pool[base].Data)+k), pool[base].Data...), vgen.Noise(seed+7, k)...)
			o.Mut, o.MutArg = "extend", fmt.Sprint(k)
		case "truncate":
			k := rapid.SampledFrom([]int{1, 1, 2, 64, 4096}).Draw(t, "cutBy"+label)
			o.data = pool[base].Data[:len(pool[base].Data)-k]
			o.Mut, o.MutArg = "truncate", fmt.Sprint(len(o.data))
		case "bitflip":
			pos := rapid.SampledFrom([]int{0, maxBlob / 2, maxBlob - 1}).Draw(t, "flipPos"+label)
			o.data = append([]byte(nil), pool[base].Data...)
			o.data[pos] ^= 1
			o.Mut, o.MutArg = "bitflip", fmt.Sprintf("%d.0", pos)
		default:
			o.data = pool[base].Data
			o.Mut = "identity"
		}
		o.finish()
		return o
	}
	steps := []struct {
		base int
		mut  string
	}{
		{0, "extend"},   // extension of the exactly-16-MiB blob, true blob not stored yet
		{1, "identity"}, // 16 MiB + 1 under its own (matching) ref
		{0, "identity"}, // exactly 16 MiB: accepted
		{0, "extend"},   // extension again, now under an already-stored ref
		{0, rapid.SampledFrom([]string{"truncate", "bitflip"}).Draw(t, "lastMut")},
	}
	for i, s := range steps {
		rq := &request{Path: rapid.SampledFrom([]string{"receive", "put-cl", "put-chunked", "multipart"}).Draw(t, fmt.Sprintf("path%d", i))}
		rq.Reader = "whole"
		if rq.Path != "put-cl" {
			rq.Reader = rapid.SampledFrom([]string{"whole", "frags", "dataeof", "half"}).Draw(t, fmt.Sprintf("reader%d", i))
		}
		o := mk(s.base, s.mut, fmt.Sprint(i))
		w.note(o)
		rq.Offers = []*offer{o}
		w.run(rq)
		if w.stop {
			return
		}
	}
	w.final()
	if evid.R.WantSample(true) {
		var smp any
		json.Unmarshal([]byte(w.dump()), &smp)
		evid.R.Sample(true, smp)
	}
}

func TestBoundary16MiB(t *testing.T) {
	// each case moves ~16 MiB several times: in the thorough tier only every 4th shard runs this class
	// (4 x 50 cases instead of 16 x 13) to bound the memory the 16 shards need together
	if i, n := evid.Shard(); evid.Thorough() && n >= 4 && i%4 != 0 {
		t.Skip("boundary class runs in shards 0,4,8,12")
	}
	defer debug.SetGCPercent(debug.SetGCPercent(40))
	// every back end gets its own cases (one each in the quick tier): with a drawn back end six quick cases
	// left four of the ten unvisited
	// a failing case moves 16 MiB on every shrink attempt and has little to shrink: bound the shrinking, and
	// stop at the first back end that fails (a change in the shared receive path fails all ten)
	flag.Set("rapid.shrinktime", "8s")
	defer flag.Set("rapid.shrinktime", "30s")
	for _, root := range rootTypes {
		ok := t.Run(root, func(t *testing.T) {
			evid.Check(t, 1, 5, func(t *rapid.T) {
				runBoundary(t, root)
				debug.FreeOSMemory()
			})
		})
		if !ok {
			break
		}
	}
}
