package c11

import (
	"bytes"
	"fmt"
	"testing"

	"perkeep.org/pkg/blob"
	"perkeep.org/pkg/blobserver"
	"perkeep.org/pkg/constants"
	"pgregory.net/rapid"

	"verifharness/internal/evid"
	"verifharness/internal/vgen"
	"verifharness/internal/vmodel"
)

// Plaintexts up to the largest blob perkeep accepts (16 MiB): the histories of c11_test.go stay
// below 140 KB, which the code does not ask for. A history here offers a few large plaintexts, offers
// some of them again, offers some under a ref that is not theirs (refused), and stores small ones in
// between; every acknowledged plaintext must come back byte for byte, now and after the meta index
// was lost, and nothing stored may contain plaintext.

type largeStep struct {
	Op   string `json:"op"`
	Size int    `json:"size,omitempty"`
	Of   int    `json:"of,omitempty"`
}

type largeCase struct {
	Steps []largeStep `json:"steps"`
}

func genLarge(t *rapid.T) *plain {
	p := &plain{Seed: rapid.Uint64Range(1, 1<<40).Draw(t, "seed"), Kind: "large"}
	const mib = 1 << 20
	switch rapid.IntRange(0, 5).Draw(t, "largeClass") {
	case 0:
		p.Size = rapid.SampledFrom([]int{8*mib - 1, 8 * mib, 8*mib + 1, 4 * mib, 4*mib + 1}).Draw(t, "pow2")
	case 1:
		// the ciphertext is larger than the plaintext (16 bytes per 64 KiB chunk plus a header) and the wrapped
		// store has the same 16 MiB cap: plaintexts within 8 KiB of the cap are refused cleanly (C02 covers that)
		p.Size = rapid.SampledFrom([]int{constants.MaxBlobSize - 16384, constants.MaxBlobSize - 16385, constants.MaxBlobSize - 65536}).Draw(t, "max")
	case 2:
		p.Size = rapid.IntRange(1*mib, 8*mib).Draw(t, "mid")
	default:
		p.Size = rapid.IntRange(8*mib+1, 12*mib).Draw(t, "big")
	}
	p.Hash = rapid.SampledFrom([]string{"sha224", "sha224", "sha1", "sha256"}).Draw(t, "hash")
	p.data = vgen.Noise(p.Seed, p.Size)
	p.ref = vgen.RefOf(p.Hash, p.data)
	return p
}

func runLarge(t *rapid.T) {
	h := newHarness(t)
	defer h.close()
	// blobserver keeps every storage it ever made a hub for (and with it the wrapped stores) reachable:
	// drop the stored bytes when the case is over, or a run retains about a gigabyte per case
	defer func() {
		h.quiesce()
		h.blobs.Restore(nil)
		h.meta.Restore(nil)
		h.mu.Lock()
		h.needles, h.needleIdx, h.acked, h.snaps = nil, nil, nil, nil
		h.mu.Unlock()
	}()
	sto, err := h.create()
	if err != nil {
		t.Fatalf("C11 harness: cannot create the encrypt storage: %v", err)
	}
	h.sto = sto
	model := vmodel.New()
	lc := &largeCase{}
	seen := map[blob.Ref]bool{}
	var sig []any
	var bigAcked []*plain
	reoffers, refused, afterReoffer := 0, 0, 0
	lastWasReoffer := false
	n := rapid.IntRange(3, 8).Draw(t, "steps")
	for i := 0; i < n; i++ {
		op := rapid.SampledFrom([]string{"large", "small", "small", "again", "again", "wrong-ref"}).Draw(t, "op")
		if len(bigAcked) == 0 && op != "small" {
			op = "large"
		}
		if lastWasReoffer && i == n-1 && afterReoffer == 0 {
			op = "small" // a history ends with a receive that follows the second offer
		}
		switch op {
		case "large", "small":
			var p *plain
			for tries := 0; ; tries++ {
				if op == "large" {
					p = genLarge(t)
				} else {
					p = genPlain(t, i)
				}
				if !seen[p.ref] {
					break
				}
				if tries > 20 {
					t.Fatalf("harness: cannot draw a fresh plaintext")
				}
			}
			seen[p.ref] = true
			h.receive(p, model, false)
			if op == "large" {
				bigAcked = append(bigAcked, p)
			}
			if lastWasReoffer {
				afterReoffer++
			}
			lastWasReoffer = false
			lc.Steps = append(lc.Steps, largeStep{Op: op, Size: p.Size})
			sig = append(sig, op, p.Seed, p.Size, p.Hash)
		case "again":
			k := rapid.IntRange(0, len(bigAcked)-1).Draw(t, "againOf")
			q := bigAcked[k]
			sb, err := blobserver.Receive(ctx, h.sto, q.ref, bytes.NewReader(q.data))
			if err != nil || sb.Ref != q.ref || int(sb.Size) != len(q.data) {
				t.Fatalf("C11 violated: second receive of %s (%d bytes) returned %v, %v", q.ref, len(q.data), sb, err)
			}
			h.quiesce()
			reoffers++
			lastWasReoffer = true
			lc.Steps = append(lc.Steps, largeStep{Op: op, Of: k, Size: q.Size})
			sig = append(sig, op, k)
		case "wrong-ref":
			// the bytes of an acknowledged large plaintext under a ref that is not theirs
			k := rapid.IntRange(0, len(bigAcked)-1).Draw(t, "wrongOf")
			q := bigAcked[k]
			wrong := vgen.RefOf(q.Hash, []byte(fmt.Sprintf("c11-large-not-the-content-%d-%d", q.Seed, i)))
			h.addNeedles(&plain{ref: wrong, data: q.data})
			if sb, err := blobserver.Receive(ctx, h.sto, wrong, bytes.NewReader(q.data)); err == nil {
				t.Fatalf("C11 violated: %d bytes offered under the ref %s, which is not their digest, were accepted: %v", len(q.data), wrong, sb)
			}
			h.quiesce()
			model.Know(wrong, q.data)
			refused++
			lastWasReoffer = true
			lc.Steps = append(lc.Steps, largeStep{Op: op, Of: k, Size: q.Size})
			sig = append(sig, op, k)
		}
	}
	h.quiesce()
	h.checkHooks()
	h.battery(model, "at the end of the large-plaintext history (no restart)")
	stored := h.scanAll()
	if err := h.restart(true); err != nil {
		t.Fatalf("C11 violated (recovery): re-creating the storage over a wiped index after the large-plaintext history failed: %v\n%s", err, h.describe())
	}
	h.battery(model, "after the restart over a wiped index (large-plaintext history)")
	h.quiesce()
	h.scanAll()
	h.checkLeaks()
	h.checkHooks()

	evid.R.Eval()
	evid.R.Label("large/history")
	evid.R.LabelN("large/offered-again", reoffers)
	evid.R.LabelN("large/refused-under-foreign-ref", refused)
	evid.R.LabelN("large/receive-right-after-a-second-or-refused-offer", afterReoffer)
	evid.R.LabelN("leak-scan/stored-blobs", stored)
	nt := afterReoffer > 0
	if nt {
		evid.R.NonTrivial(evid.Hash(sig...))
	}
	if evid.R.WantSample(nt) {
		evid.R.Sample(nt, map[string]any{"kind": "large-plaintext history", "case": lc})
	}
}

func TestLargePlaintexts(t *testing.T) {
	// thorough counts are per shard (16 shards): 16 x 16 histories, each moving up to ~100 MiB
	evid.Check(t, 12, 16, runLarge)
}
