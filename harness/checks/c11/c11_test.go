// C11 — the encrypting store leaks no plaintext, detects tampering, is recoverable.
package c11

import (
	"bytes"
	"context"
	"encoding/binary"
	"encoding/hex"
	"fmt"
	"io"
	"os"
	"path/filepath"
	"regexp"
	"runtime"
	"sort"
	"strconv"
	"strings"
	"sync"
	"testing"
	"time"

	"go4.org/jsonconfig"
	"perkeep.org/pkg/blob"
	"perkeep.org/pkg/blobserver"
	"perkeep.org/pkg/blobserver/encrypt"
	"pgregory.net/rapid"

	"verifharness/internal/evid"
	"verifharness/internal/vcompose"
	"verifharness/internal/vgen"
	"verifharness/internal/vmodel"
	"verifharness/internal/vstore"
)

const prop = "C11"

func TestMain(m *testing.M) {
	evid.Main(m, prop, "fault_enumeration",
		"encrypt(blobs=harness store, meta=harness store, metaIndex=harness KV) built through blobserver.CreateStorage. "+
			"(1) histories (one evaluation each) of 1-260 distinct plaintext blobs (0 B..140 KiB, each >=12 B one carrying high-entropy markers; a few duplicate receives), classes small / one meta compaction (>100) / two compactions (>200); "+
			"at every compaction trigger the harness fixes the schedule of the asynchronous makePackedMetaBlob goroutine relative to the triggering receive's index write (drawn: compaction completes / compaction aborts and the small meta blobs stay), "+
			"waits for its end by observing the goroutine itself (no sleeping), snapshots both wrapped stores before EVERY mutation the compaction makes (packed upload, each deletion), "+
			"restarts (re-CreateStorage, index wiped or kept) at drawn points, and finally restores selected mid-compaction snapshots with a wiped index; after every restart fetch/stat/enumerate of all acknowledged plaintexts are compared with the reference map; "+
			"every byte string ever stored below (also the ones deleted by compaction) and every blob name is scanned for the plaintext markers and for text, hex and binary form of every plaintext ref. "+
			"(2) tamper enumeration (one evaluation per stored blob x variant): for a generated history (2-8 blobs; or 101-106 blobs after a completed compaction; multi-chunk plaintexts included) EVERY blob of both wrapped stores gets each of "+
			"{bit flip at byte 0, 1, 60 (age header), n/2, n-1; truncation to 0, 1, n/2, n-1; one byte appended; contents swapped with the next blob of the same store}; then every affected fetch plus two others (all fetches on histories of <= 4 blobs) through the live instance (ciphertext tampers) and through an instance re-created over a wiped index must return the exact original plaintext or an error. "+
			"non-trivial = a history with >=1 completed compaction and >=1 restart over a wiped index after or during it, or a tamper variant that changes at least one bit of an age payload/header (everything except a swap of a blob with itself); "+
			"distinct = FNV-64 of (plaintext seeds+sizes, schedules, restart points) resp. (history hash, store, blob index, variant)")
}

var ctx = context.Background()

// ---------------------------------------------------------------------------
// goroutine observation

func goid() uint64 {
	var buf [64]byte
	n := runtime.Stack(buf[:], false)
	s := strings.TrimPrefix(string(buf[:n]), "goroutine ")
	if i := strings.IndexByte(s, ' '); i > 0 {
		id, _ := strconv.ParseUint(s[:i], 10, 64)
		return id
	}
	return 0
}

// every goroutine that runs (or is about to run) makePackedMetaBlob was created by recordMeta
const compactionMark = "created by perkeep.org/pkg/blobserver/encrypt.(*storage).recordMeta"

var stackBuf = make([]byte, 1<<20)
var stackMu sync.Mutex

// compactionsRunning counts the meta compaction goroutines that exist right now
// (started or not yet scheduled).
func compactionsRunning() int {
	stackMu.Lock()
	defer stackMu.Unlock()
	for {
		n := runtime.Stack(stackBuf, true)
		if n < len(stackBuf) {
			return bytes.Count(stackBuf[:n], []byte(compactionMark))
		}
		stackBuf = make([]byte, 2*len(stackBuf))
	}
}

// ---------------------------------------------------------------------------
// harness around one encrypt instance family (same wrapped stores, re-created instances)

type loader struct{ m map[string]blobserver.Storage }

func (ld *loader) FindHandlerByType(string) (string, any, error) {
	return "", nil, blobserver.ErrHandlerTypeNotFound
}
func (ld *loader) AllHandlers() (map[string]string, map[string]any) { return nil, nil }
func (ld *loader) MyPrefix() string                                 { return "/enc/" }
func (ld *loader) BaseURL() string                                  { return "" }
func (ld *loader) GetHandlerType(string) string                     { return "" }
func (ld *loader) GetHandler(p string) (any, error)                 { return ld.GetStorage(p) }
func (ld *loader) GetStorage(p string) (blobserver.Storage, error) {
	if s, ok := ld.m[p]; ok {
		return s, nil
	}
	return nil, fmt.Errorf("no storage %q", p)
}

const agreement = "that encryption support hasn't been peer-reviewed, isn't finished, and its format might change."

type plain struct {
	Seed uint64 `json:"seed"`
	Size int    `json:"size"`
	Hash string `json:"hash"`
	Kind string `json:"kind"`
	data []byte
	ref  blob.Ref
}

type snapshot struct {
	what     string
	blobs    map[blob.Ref][]byte
	meta     map[blob.Ref][]byte
	acked    int    // number of acknowledged plaintexts at that moment
	inflight *plain // receive in progress at that moment (its meta blob is already stored)
	compNo   int
}

type fataler interface {
	Fatalf(format string, args ...any)
}

type harness struct {
	t     fataler
	env   *vstore.Env
	blobs *vstore.Store
	meta  *vstore.Store
	kv    *vstore.KV
	dir   string
	sto   blobserver.Storage

	mainG uint64

	mu                sync.Mutex
	inReceive         bool
	curKey            string
	setDone           bool
	scheduleB         bool // for the receive in progress: hold the index write until the compaction gave up
	sched             []bool
	triggers          int
	aborted           int // compactions that ended without uploading anything
	packedUp          int // packed meta uploads by compaction goroutines
	removes           int
	snaps             []*snapshot
	acked             []*plain
	inflight          *plain
	needles           [][]byte
	needleDesc        []string
	needleIdx         map[uint64][]int // first 8 bytes of a needle -> needle numbers
	needle2           [1 << 16]bool    // first 2 bytes of a needle (filter in front of needleIdx)
	leaks             []string
	scannedDel        int
	hookErr           string
	compNo            int
	heldForCompaction bool // schedule B: the index write of the receive in progress waited for a compaction goroutine to end
}

func newHarness(t fataler) *harness {
	dir, err := os.MkdirTemp("", "verif-c11-")
	if err != nil {
		t.Fatalf("VERIF-INCONCLUSIVE: mkdtemp: %v", err)
	}
	if err := os.WriteFile(filepath.Join(dir, "age.key"), []byte(vcompose.AgeKey+"\n"), 0o600); err != nil {
		t.Fatalf("VERIF-INCONCLUSIVE: key file: %v", err)
	}
	h := &harness{t: t, env: vstore.NewEnv(), dir: dir, mainG: goid()}
	h.blobs = h.env.NewStore("blobs")
	h.meta = h.env.NewStore("meta")
	h.kv = h.env.NewKV("idx")
	h.env.YieldHook = h.yield
	h.env.AfterHook = h.after
	h.env.BeforeMut = h.beforeMut
	return h
}

func (h *harness) close() { os.RemoveAll(h.dir) }

// create builds a new encrypt instance over the same wrapped stores and KV.
func (h *harness) create() (blobserver.Storage, error) {
	vstore.SetCurrent(h.env)
	ld := &loader{m: map[string]blobserver.Storage{"/blobs/": h.blobs, "/meta/": h.meta}}
	return blobserver.CreateStorage("encrypt", ld, jsonconfig.Obj{
		"I_AGREE":   agreement,
		"keyFile":   filepath.Join(h.dir, "age.key"),
		"blobs":     "/blobs/",
		"meta":      "/meta/",
		"metaIndex": map[string]any(vstore.KVConf("idx")),
	})
}

func waitUntil(cond func() bool) bool {
	dl := time.Now().Add(60 * time.Second)
	for !cond() {
		if time.Now().After(dl) {
			return false
		}
		time.Sleep(30 * time.Microsecond)
	}
	return true
}

// yield runs before every lower-layer call (outside the Env lock) and pins the
// schedule of a compaction goroutine relative to the triggering receive.
func (h *harness) yield(ev *vstore.Event) {
	if ev.Layer != "kv:idx" || (ev.Op != "get" && ev.Op != "set") {
		return
	}
	h.mu.Lock()
	inRecv, key, schedB := h.inReceive, h.curKey, h.scheduleB
	h.mu.Unlock()
	if !inRecv {
		return
	}
	g := goid()
	if g != h.mainG {
		if ev.Layer == "kv:idx" && ev.Op == "get" && !schedB {
			// schedule A: the compaction reads the index only after the receive wrote its row
			if !waitUntil(func() bool { h.mu.Lock(); defer h.mu.Unlock(); return h.setDone || !h.inReceive }) {
				h.mu.Lock()
				h.hookErr = "compaction goroutine waited 60s for the index write of the receive"
				h.mu.Unlock()
			}
		}
		return
	}
	if ev.Layer == "kv:idx" && ev.Op == "set" && ev.Key == key && schedB {
		// schedule B: the receive writes its index row only after the compaction looked for it (and gave up)
		if compactionsRunning() > 0 {
			h.mu.Lock()
			h.heldForCompaction = true
			h.mu.Unlock()
			if !waitUntil(func() bool { return compactionsRunning() == 0 }) {
				h.mu.Lock()
				h.hookErr = "compaction goroutine did not end within 60s while the index write was held"
				h.mu.Unlock()
			}
		}
	}
}

func (h *harness) after(ev *vstore.Event) {
	if ev.Layer == "kv:idx" && ev.Op == "set" {
		h.mu.Lock()
		if h.inReceive && ev.Key == h.curKey {
			h.setDone = true
		}
		h.mu.Unlock()
	}
}

// beforeMut runs right before a mutating lower-layer call takes effect.
func (h *harness) beforeMut(ev *vstore.Event) {
	if ev.Layer != "store:meta" && ev.Layer != "store:blobs" {
		return
	}
	if ev.Op == "remove" {
		// whatever is deleted is scanned for leaks first
		st := h.meta
		if ev.Layer == "store:blobs" {
			st = h.blobs
		}
		if br, ok := blob.Parse(ev.Key); ok {
			if d, ok := st.RawGet(br); ok {
				h.mu.Lock()
				h.scannedDel++
				h.mu.Unlock()
				h.scan(st.Name, br, d)
			}
		}
	}
	if ev.Layer != "store:meta" || goid() == h.mainG {
		return
	}
	// a compaction goroutine is about to change the meta store
	h.mu.Lock()
	defer h.mu.Unlock()
	if ev.Op == "receive" {
		h.packedUp++
		h.compNo++
	} else {
		h.removes++
	}
	h.snaps = append(h.snaps, &snapshot{
		what:     fmt.Sprintf("before compaction #%d's %s of %s (meta store holds %d blobs)", h.compNo, ev.Op, ev.Key, h.meta.RawLen()),
		blobs:    h.blobs.Snapshot(),
		meta:     h.meta.Snapshot(),
		acked:    len(h.acked),
		inflight: h.inflight,
		compNo:   h.compNo,
	})
}

// quiesce waits until no compaction goroutine exists any more.
func (h *harness) quiesce() {
	if compactionsRunning() == 0 {
		return
	}
	if !waitUntil(func() bool { return compactionsRunning() == 0 }) {
		h.t.Fatalf("VERIF-INCONCLUSIVE: a meta compaction goroutine is still alive after 60s")
	}
}

func (h *harness) checkHooks() {
	h.mu.Lock()
	e := h.hookErr
	h.mu.Unlock()
	if e != "" {
		h.t.Fatalf("VERIF-INCONCLUSIVE: %s", e)
	}
}

// ---------------------------------------------------------------------------
// leak oracle

func (h *harness) addNeedles(p *plain) {
	h.mu.Lock()
	defer h.mu.Unlock()
	if h.needleIdx == nil {
		h.needleIdx = map[uint64][]int{}
	}
	add := func(b []byte, what string) {
		k := binary.LittleEndian.Uint64(b) // every needle has >= 12 bytes
		h.needleIdx[k] = append(h.needleIdx[k], len(h.needles))
		h.needle2[binary.LittleEndian.Uint16(b)] = true
		h.needles = append(h.needles, b)
		h.needleDesc = append(h.needleDesc, what)
	}
	rs := p.ref.String()
	add([]byte(rs), "text of plaintext ref "+rs)
	add([]byte(p.ref.Digest()), "hex digest of plaintext ref "+rs)
	if raw, err := hex.DecodeString(p.ref.Digest()); err == nil {
		add(raw, "binary digest of plaintext ref "+rs)
	}
	d := p.data
	switch {
	case len(d) >= 24:
		add(d[:24], fmt.Sprintf("first 24 bytes of plaintext %s", rs))
		add(d[len(d)/2-12:len(d)/2+12], fmt.Sprintf("24 bytes from the middle of plaintext %s", rs))
		add(d[len(d)-24:], fmt.Sprintf("last 24 bytes of plaintext %s", rs))
	case len(d) >= 12:
		add(d, fmt.Sprintf("the whole plaintext %s (%d bytes)", rs, len(d)))
	}
}

// scan looks for every needle in one stored blob and its name.
func (h *harness) scan(store string, br blob.Ref, data []byte) {
	h.mu.Lock()
	defer h.mu.Unlock()
	find := func(hay []byte) int {
		for i := 0; i+8 <= len(hay); i++ {
			if !h.needle2[binary.LittleEndian.Uint16(hay[i:])] {
				continue // no needle starts with these two bytes
			}
			for _, n := range h.needleIdx[binary.LittleEndian.Uint64(hay[i:])] {
				if bytes.HasPrefix(hay[i:], h.needles[n]) {
					return n
				}
			}
		}
		return -1
	}
	if n := find(data); n >= 0 {
		h.leaks = append(h.leaks, fmt.Sprintf("the blob %s stored in %q (%d bytes) contains the %s", br, store, len(data), h.needleDesc[n]))
		return
	}
	if n := find([]byte(br.String())); n >= 0 {
		h.leaks = append(h.leaks, fmt.Sprintf("the NAME of blob %s stored in %q contains the %s", br, store, h.needleDesc[n]))
	}
}

// scanAll scans everything stored right now.
func (h *harness) scanAll() int {
	n := 0
	for _, st := range []*vstore.Store{h.blobs, h.meta} {
		for _, br := range st.RawRefs() {
			d, _ := st.RawGet(br)
			h.scan(st.Name, br, d)
			n++
		}
	}
	h.checkLeaks()
	return n
}

func (h *harness) checkLeaks() {
	h.mu.Lock()
	l := h.leaks
	h.mu.Unlock()
	if len(l) > 0 {
		h.t.Fatalf("C11 violated (leak): %s\n%s", l[0], h.describe())
	}
}

// ---------------------------------------------------------------------------
// plaintext generation

func genPlain(t *rapid.T, i int) *plain {
	p := &plain{Seed: rapid.Uint64Range(1, 1<<40).Draw(t, "seed")}
	k := rapid.IntRange(0, 19).Draw(t, "sizeClass")
	switch {
	case k == 0:
		p.Size, p.Kind = rapid.IntRange(0, 11).Draw(t, "tiny"), "tiny"
	case k == 1:
		p.Size, p.Kind = rapid.SampledFrom([]int{65535, 65536, 65537, 70000, 131072, 140000}).Draw(t, "chunky"), "multi-chunk"
	case k <= 4:
		p.Size, p.Kind = rapid.IntRange(12, 23).Draw(t, "short"), "short"
	case k <= 6:
		p.Size, p.Kind = rapid.IntRange(1024, 6000).Draw(t, "kib"), "kib"
	default:
		p.Size, p.Kind = rapid.IntRange(24, 600).Draw(t, "small"), "small"
	}
	p.Hash = rapid.SampledFrom([]string{"sha224", "sha224", "sha1", "sha256"}).Draw(t, "hash")
	p.fill()
	return p
}

func (p *plain) fill() {
	p.data = vgen.Noise(p.Seed, p.Size)
	if p.Kind == "kib" && p.Seed%3 == 0 {
		// a schema-looking plaintext with the marker inside
		js := fmt.Sprintf(`{"camliVersion": 1, "camliType": "bytes", "marker": "%x"}`, p.data[:40])
		p.data = append([]byte(js), p.data[len(js):]...)
	}
	p.ref = vgen.RefOf(p.Hash, p.data)
}

func (h *harness) describe() string {
	var b strings.Builder
	h.mu.Lock()
	defer h.mu.Unlock()
	fmt.Fprintf(&b, "acknowledged plaintexts: %d; compaction triggers seen: %d, packed uploads: %d, aborted: %d, removes by compaction: %d\n", len(h.acked), h.triggers, h.packedUp, h.aborted, h.removes)
	for i, p := range h.acked {
		if i >= 12 && i < len(h.acked)-3 {
			if i == 12 {
				b.WriteString("  …\n")
			}
			continue
		}
		fmt.Fprintf(&b, "  #%d %s %s seed=%d size=%d\n", i, p.ref, p.Kind, p.Seed, p.Size)
	}
	return b.String()
}

// ---------------------------------------------------------------------------
// operations

// receive stores one plaintext through the verified entry point and waits for the
// compaction it may have started. It reports what that compaction did: "" (none),
// "completed" (packed meta uploaded) or "aborted" (ended without uploading).
func (h *harness) receive(p *plain, model *vmodel.Map, schedB bool) string {
	t := h.t
	h.addNeedles(p)
	h.mu.Lock()
	h.inReceive, h.curKey, h.setDone, h.scheduleB, h.inflight, h.heldForCompaction = true, p.ref.String(), false, schedB, p, false
	packedBefore := h.packedUp
	h.mu.Unlock()
	sb, err := blobserver.Receive(ctx, h.sto, p.ref, bytes.NewReader(p.data))
	h.mu.Lock()
	h.inReceive, h.inflight = false, nil
	if err == nil {
		h.acked = append(h.acked, p)
	}
	h.mu.Unlock()
	if err != nil {
		t.Fatalf("C11 harness: receive of plaintext #%d (%s, %d bytes) failed without any injected fault: %v", len(h.acked), p.ref, p.Size, err)
	}
	if sb.Ref != p.ref || int(sb.Size) != len(p.data) {
		t.Fatalf("C11 violated: receive of %s (%d bytes) returned %v", p.ref, len(p.data), sb)
	}
	model.SetPresent(p.ref, p.data)
	h.quiesce()
	h.checkHooks()
	h.mu.Lock()
	defer h.mu.Unlock()
	switch {
	case h.packedUp > packedBefore:
		h.triggers++
		return "completed"
	case h.heldForCompaction:
		h.triggers++
		h.aborted++
		return "aborted"
	}
	return ""
}

// receiveFaulty offers p once while one lower-layer call of that receive (made by the receiving
// goroutine itself) fails transiently; the caller then retries through receive. Whatever the failed
// attempt left behind, the acknowledged retry must make the blob recoverable from the wrapped stores.
func (h *harness) receiveFaulty(p *plain, target string, beh vstore.Behaviour) (delivered bool, err error) {
	h.addNeedles(p)
	h.mu.Lock()
	h.inReceive, h.curKey, h.setDone, h.scheduleB, h.inflight, h.heldForCompaction = true, p.ref.String(), false, false, p, false
	h.mu.Unlock()
	h.env.Match = func(e *vstore.Event) vstore.Behaviour {
		if !delivered && goid() == h.mainG && e.Layer+" "+e.Op == target {
			delivered = true
			return beh
		}
		return vstore.OK
	}
	_, err = blobserver.Receive(ctx, h.sto, p.ref, bytes.NewReader(p.data))
	h.env.Match = nil
	h.mu.Lock()
	h.inReceive, h.inflight = false, nil
	h.mu.Unlock()
	h.quiesce()
	return delivered, err
}

// restart re-creates the encrypt instance; wipe = the local meta index was lost.
func (h *harness) restart(wipe bool) error {
	h.quiesce()
	if wipe {
		h.kv.WipeRaw()
	}
	sto, err := h.create()
	if err != nil {
		return err
	}
	h.sto = sto
	return nil
}

func (h *harness) battery(model *vmodel.Map, when string) {
	never := vgen.RefOf("sha224", []byte("c11-never-stored"))
	if err := model.Battery(ctx, h.sto, []blob.Ref{never}, 7); err != nil {
		if err == vmodel.ErrTimeout {
			h.t.Fatalf("VERIF-INCONCLUSIVE: watchdog timeout %s", when)
		}
		h.t.Fatalf("C11 violated (recovery/round trip) %s: %v\n%s", when, err, h.describe())
	}
}

// ---------------------------------------------------------------------------
// the goroutine probe the waiting relies on must really see a compaction goroutine

func TestAACompactionProbeWorks(t *testing.T) {
	if evid.Replaying() {
		t.Skip()
	}
	func(rt *testing.T) {
		h := newHarness(rt)
		defer h.close()
		sto, err := h.create()
		if err != nil {
			rt.Fatalf("C11 harness: %v", err)
		}
		h.sto = sto
		model := vmodel.New()
		sawRunning := false
		for i := 1; i <= encrypt.SmallMetaCountLimit+1; i++ {
			p := &plain{Seed: uint64(i), Size: 40, Hash: "sha224", Kind: "small"}
			p.fill()
			if i == encrypt.SmallMetaCountLimit+1 {
				// hold the compaction at its first index read and look for it
				release := make(chan struct{})
				h.env.YieldHook = func(ev *vstore.Event) {
					if goid() != h.mainG && ev.Layer == "kv:idx" && ev.Op == "get" {
						<-release
					}
				}
				h.addNeedles(p)
				if _, err := blobserver.Receive(ctx, h.sto, p.ref, bytes.NewReader(p.data)); err != nil {
					rt.Fatalf("C11 harness: %v", err)
				}
				sawRunning = compactionsRunning() == 1
				close(release)
				if !waitUntil(func() bool { return compactionsRunning() == 0 }) {
					rt.Fatalf("VERIF-INCONCLUSIVE: compaction goroutine never ended")
				}
				break
			}
			h.receive(p, model, false)
		}
		if !sawRunning {
			rt.Fatalf("VERIF-INCONCLUSIVE: the stack probe did not see the meta compaction goroutine that the %dth receive starts (pattern %q): the harness cannot wait for compactions", encrypt.SmallMetaCountLimit+1, compactionMark)
		}
		if h.meta.RawLen() != 1 {
			rt.Fatalf("VERIF-INCONCLUSIVE: expected exactly the packed meta blob after the compaction, meta store holds %d blobs", h.meta.RawLen())
		}
	}(t)
}

// ---------------------------------------------------------------------------
// (1) histories

type historyCase struct {
	Class          string   `json:"class"`
	N              int      `json:"plaintexts"`
	Sched          []string `json:"schedule_per_compaction_trigger"`
	Restarts       []string `json:"restarts"`
	Dups           int      `json:"duplicate_receives"`
	FaultyReceives int      `json:"receives_failed_transiently_then_retried"`
	Plains         []*plain `json:"first_plaintexts"`
}

func runHistory(t *rapid.T) {
	class := rapid.SampledFrom([]string{"small", "small", "one-compaction", "one-compaction", "two-compactions"}).Draw(t, "class")
	var n int
	switch class {
	case "small":
		n = rapid.IntRange(1, 40).Draw(t, "n")
	case "one-compaction":
		n = rapid.IntRange(encrypt.SmallMetaCountLimit+1, encrypt.SmallMetaCountLimit+40).Draw(t, "n")
	default:
		n = rapid.IntRange(2*encrypt.SmallMetaCountLimit+1, 260).Draw(t, "n")
	}
	h := newHarness(t)
	defer h.close()
	sto, err := h.create()
	if err != nil {
		t.Fatalf("C11 harness: cannot create the encrypt storage: %v", err)
	}
	h.sto = sto
	model := vmodel.New()
	hc := &historyCase{Class: class, N: n}
	sched := make([]bool, 4)
	for i := range sched {
		sched[i] = rapid.IntRange(0, 3).Draw(t, fmt.Sprintf("abortCompaction%d", i)) == 0
		hc.Sched = append(hc.Sched, map[bool]string{false: "completes", true: "aborts"}[sched[i]])
	}
	// restart points: after plaintext #k (1-based)
	restartAt := map[int]bool{}
	for i, r := 0, rapid.IntRange(0, 3).Draw(t, "restarts"); i < r; i++ {
		k := rapid.IntRange(1, n).Draw(t, "restartAfter")
		wipe := rapid.IntRange(0, 3).Draw(t, "wipe") != 0
		restartAt[k] = wipe
	}
	seen := map[blob.Ref]bool{}
	var sig []any
	wipedRestartAfterCompaction := false
	trig := 0
	for i := 1; i <= n; i++ {
		var p *plain
		for tries := 0; ; tries++ {
			p = genPlain(t, i)
			if !seen[p.ref] {
				break
			}
			if tries > 20 {
				t.Fatalf("harness: cannot draw a fresh plaintext")
			}
		}
		seen[p.ref] = true
		if len(hc.Plains) < 6 {
			hc.Plains = append(hc.Plains, p)
		}
		sig = append(sig, p.Seed, p.Size, p.Hash)
		// an occasional transient failure of one lower-layer call of the receive, followed by the client's retry
		if rapid.IntRange(0, 24).Draw(t, "faultyReceive") == 0 {
			target := rapid.SampledFrom([]string{"store:blobs receive", "store:meta receive", "kv:idx set"}).Draw(t, "faultAt")
			beh := vstore.Fail
			if strings.HasPrefix(target, "store:") && rapid.Bool().Draw(t, "performedButError") {
				beh = vstore.FailAfter
			}
			delivered, err := h.receiveFaulty(p, target, beh)
			if err != nil && !delivered {
				t.Fatalf("C11 harness: receive of %s failed without the injected fault having been delivered: %v", p.ref, err)
			}
			if delivered {
				hc.FaultyReceives++
				evid.R.Label("history/receive-failed-transiently-then-retried/" + target)
			}
		}
		// the schedule applies if this receive triggers a compaction
		if h.receive(p, model, sched[trig%len(sched)]) != "" {
			trig++
		}
		// an occasional duplicate receive of an acknowledged plaintext
		if rapid.IntRange(0, 24).Draw(t, "dup") == 0 {
			q := h.acked[rapid.IntRange(0, len(h.acked)-1).Draw(t, "dupOf")]
			before := h.blobs.RawLen()
			sb, err := blobserver.Receive(ctx, h.sto, q.ref, bytes.NewReader(q.data))
			if err != nil || sb.Ref != q.ref || int(sb.Size) != len(q.data) {
				t.Fatalf("C11 violated: duplicate receive of %s returned %v, %v", q.ref, sb, err)
			}
			h.quiesce()
			if h.blobs.RawLen() != before {
				evid.R.Label("history/duplicate-receive-stored-again")
			}
			hc.Dups++
		}
		if wipe, ok := restartAt[i]; ok {
			h.quiesce()
			h.scanAll()
			hc.Restarts = append(hc.Restarts, fmt.Sprintf("after #%d wipe=%v", i, wipe))
			if err := h.restart(wipe); err != nil {
				t.Fatalf("C11 violated (recovery): re-creating the storage after plaintext #%d (index wiped: %v) failed: %v\n%s", i, wipe, err, h.describe())
			}
			h.battery(model, fmt.Sprintf("after the restart following plaintext #%d (index wiped: %v)", i, wipe))
			h.quiesce()
			if wipe && h.packedUp > 0 {
				wipedRestartAfterCompaction = true
			}
		}
	}
	h.quiesce()
	h.checkHooks()
	h.battery(model, "at the end of the history (no restart)")
	stored := h.scanAll()
	// lose the index, recover from the wrapped stores alone
	if err := h.restart(true); err != nil {
		t.Fatalf("C11 violated (recovery): re-creating the storage over a wiped index at the end of the history failed: %v\n%s", err, h.describe())
	}
	h.battery(model, "after the final restart over a wiped index")
	h.quiesce()
	if h.packedUp > 0 {
		wipedRestartAfterCompaction = true
	}
	h.scanAll()

	// mid-compaction states: restore, wipe, recover
	h.mu.Lock()
	snaps := h.snaps
	h.snaps = nil
	ackedAll := append([]*plain(nil), h.acked...)
	h.mu.Unlock()
	picked := pickSnapshots(t, snaps)
	for _, s := range picked {
		h.quiesce()
		h.blobs.Restore(s.blobs)
		h.meta.Restore(s.meta)
		h.kv.WipeRaw()
		m := vmodel.New()
		for i, p := range ackedAll {
			if i < s.acked {
				m.SetPresent(p.ref, p.data)
			} else {
				m.Know(p.ref, p.data)
			}
		}
		if s.inflight != nil {
			m.SetMaybe(s.inflight.ref, s.inflight.data)
		}
		sto, err := h.create()
		if err != nil {
			t.Fatalf("C11 violated (recovery): start-up over the wrapped stores as they were %s (index lost) failed: %v\n%s", s.what, err, h.describe())
		}
		h.sto = sto
		h.battery(m, "after recovering from the state "+s.what)
		evid.R.Label("recovery/mid-compaction-snapshot")
		h.quiesce()
		h.mu.Lock()
		h.snaps = nil // snapshots taken while recovering a snapshot are not recursed into
		h.mu.Unlock()
	}
	h.checkLeaks()
	h.checkHooks()

	evid.R.Eval()
	evid.R.Label("history/" + class)
	h.mu.Lock()
	packed, aborted, scannedDel := h.packedUp, h.aborted, h.scannedDel
	h.mu.Unlock()
	evid.R.LabelN("compaction/completed", packed)
	evid.R.LabelN("compaction/aborted-by-schedule", aborted)
	evid.R.LabelN("leak-scan/stored-blobs", stored)
	evid.R.LabelN("leak-scan/blobs-scanned-before-deletion", scannedDel)
	evid.R.LabelN("recovery/restarts", len(hc.Restarts)+1)
	nt := packed > 0 && (wipedRestartAfterCompaction || len(picked) > 0)
	if nt {
		evid.R.NonTrivial(evid.Hash(append(sig, hc.Sched, hc.Restarts)...))
	}
	if evid.R.WantSample(nt) {
		evid.R.Sample(nt, map[string]any{"kind": "history", "case": hc, "compactions_completed": packed, "compactions_aborted": aborted,
			"mid_compaction_snapshots_recovered": len(picked), "mid_compaction_snapshots_taken": len(snaps)})
	}
}

// pickSnapshots: per compaction the state before the packed upload, before the first
// deletion (= packed blob and all small ones present), before the last deletion, and a drawn one.
func pickSnapshots(t *rapid.T, snaps []*snapshot) []*snapshot {
	byComp := map[int][]*snapshot{}
	var comps []int
	for _, s := range snaps {
		if len(byComp[s.compNo]) == 0 {
			comps = append(comps, s.compNo)
		}
		byComp[s.compNo] = append(byComp[s.compNo], s)
	}
	sort.Ints(comps)
	var out []*snapshot
	for _, c := range comps {
		l := byComp[c]
		idx := map[int]bool{0: true, len(l) - 1: true}
		if len(l) > 1 {
			idx[1] = true
		}
		for i := 0; i < 1 && len(l) > 3; i++ {
			idx[rapid.IntRange(2, len(l)-2).Draw(t, "snapshot")] = true
		}
		var ks []int
		for k := range idx {
			ks = append(ks, k)
		}
		sort.Ints(ks)
		for _, k := range ks {
			out = append(out, l[k])
		}
	}
	return out
}

func TestHistoriesLeakAndRecovery(t *testing.T) {
	evid.Check(t, 25, 150, runHistory)
}

// ---------------------------------------------------------------------------
// (2) tamper enumeration

type variant struct {
	name  string // with the position
	class string // for the class counters
	apply func(d []byte) []byte
}

func variants(n int) []variant {
	var vs []variant
	seenPos := map[int]bool{}
	for _, pos := range []int{0, 1, 60, n / 2, n - 1} {
		if pos < 0 || pos >= n || seenPos[pos] {
			continue
		}
		seenPos[pos] = true
		pos := pos
		cls := map[int]string{0: "flip-bit@0", 1: "flip-bit@1", 60: "flip-bit@60(age-header)", n / 2: "flip-bit@mid", n - 1: "flip-bit@last"}[pos]
		vs = append(vs, variant{fmt.Sprintf("flip-bit@%d", pos), cls, func(d []byte) []byte {
			o := append([]byte(nil), d...)
			o[pos] ^= 1 << uint(pos%8)
			return o
		}})
	}
	seenLen := map[int]bool{}
	for _, l := range []int{0, 1, n / 2, n - 1} {
		if l < 0 || l >= n || seenLen[l] {
			continue
		}
		seenLen[l] = true
		l := l
		cls := map[int]string{0: "truncate-to-0", 1: "truncate-to-1", n / 2: "truncate-to-half", n - 1: "truncate-by-1"}[l]
		vs = append(vs, variant{fmt.Sprintf("truncate-to-%d", l), cls, func(d []byte) []byte { return append([]byte(nil), d[:l]...) }})
	}
	vs = append(vs, variant{"extend-by-1", "extend-by-1", func(d []byte) []byte { return append(append([]byte(nil), d...), 0x41) }})
	return vs
}

func (h *harness) restoreKV(dump map[string]string) {
	h.kv.WipeRaw()
	in := h.kv.Inner()
	keys := make([]string, 0, len(dump))
	for k := range dump {
		keys = append(keys, k)
	}
	sort.Strings(keys)
	for _, k := range keys {
		in.Set(k, dump[k])
	}
}

// fetchExactOrError is the tamper oracle for one plaintext.
func (h *harness) fetchExactOrError(sto blobserver.Storage, p *plain, what string) (ok bool) {
	rc, size, err := sto.Fetch(ctx, p.ref)
	if err != nil {
		return false
	}
	d, rerr := io.ReadAll(rc)
	rc.Close()
	if rerr != nil {
		return false
	}
	if !bytes.Equal(d, p.data) {
		h.t.Fatalf("C11 violated (tamper): after %s, Fetch(%s) returned %d bytes that are NOT the original plaintext (%d bytes): got %s, want %s\n%s",
			what, p.ref, len(d), len(p.data), short(d), short(p.data), h.describe())
	}
	if int(size) != len(p.data) {
		h.t.Fatalf("C11 violated (tamper): after %s, Fetch(%s) returned the original bytes but announced size %d (true %d)", what, p.ref, size, len(p.data))
	}
	return true
}

func short(b []byte) string {
	if len(b) > 32 {
		return fmt.Sprintf("%x…", b[:32])
	}
	return fmt.Sprintf("%x", b)
}

func runTamper(t *rapid.T) {
	class := rapid.SampledFrom([]string{"small", "small", "small", "small", "small", "small", "compacted"}).Draw(t, "class")
	n := rapid.IntRange(2, 8).Draw(t, "n")
	if class == "compacted" {
		n = rapid.IntRange(encrypt.SmallMetaCountLimit+1, encrypt.SmallMetaCountLimit+6).Draw(t, "nCompacted")
	}
	h := newHarness(t)
	defer h.close()
	sto, err := h.create()
	if err != nil {
		t.Fatalf("C11 harness: cannot create the encrypt storage: %v", err)
	}
	h.sto = sto
	model := vmodel.New()
	seen := map[blob.Ref]bool{}
	var sig []any
	for i, tries := 1, 0; i <= n; i++ {
		p := genPlain(t, i)
		if class == "compacted" && p.Size > 6000 {
			p.Size, p.Kind = 100+i, "small"
			p.fill()
		}
		if seen[p.ref] {
			// e.g. a second empty plaintext: draw again
			if tries++; tries > 50 {
				t.Fatalf("harness: cannot draw %d distinct plaintexts", n)
			}
			i--
			continue
		}
		seen[p.ref] = true
		sig = append(sig, p.Seed, p.Size, p.Hash)
		h.receive(p, model, false)
	}
	h.quiesce()
	h.checkHooks()
	hist := evid.Hash(sig...)
	plains := append([]*plain(nil), h.acked...)
	byEnc := map[string][]*plain{} // ciphertext ref -> plaintexts mapped to it
	kvDump := h.kv.Dump()
	byRef := map[string]*plain{}
	for _, p := range plains {
		byRef[p.ref.String()] = p
	}
	for k, v := range kvDump {
		if i := strings.IndexByte(v, '/'); i >= 0 && byRef[k] != nil {
			byEnc[v[i+1:]] = append(byEnc[v[i+1:]], byRef[k])
		}
	}
	if class == "compacted" && h.packedUp == 0 {
		t.Fatalf("VERIF-INCONCLUSIVE: %d receives did not lead to a completed meta compaction", n)
	}
	origBlobs, origMeta := h.blobs.Snapshot(), h.meta.Snapshot()
	live := h.sto
	fetchAll := len(plains) <= 4

	tamperOne := func(st *vstore.Store, orig map[blob.Ref][]byte, refs []blob.Ref, i int, vname, vclass string, put map[blob.Ref][]byte, changed bool) {
		what := fmt.Sprintf("%s of blob %s (#%d of %d, %d bytes) in the %q store", vname, refs[i], i, len(refs), len(orig[refs[i]]), st.Name)
		for r, d := range put {
			st.RawPut(r, d)
		}
		// which plaintexts to look at
		var look []*plain
		if fetchAll {
			look = plains
		} else {
			for r := range put {
				look = append(look, byEnc[r.String()]...)
			}
			look = append(look, plains[i%len(plains)], plains[(i*7+3)%len(plains)])
		}
		okLive, okRestart, startFailed := 0, 0, false
		if st == h.blobs { // the running instance never reads the meta store again
			for _, p := range look {
				if h.fetchExactOrError(live, p, what+" (live instance, index intact)") {
					okLive++
				}
			}
		}
		// index lost, start again over the tampered stores
		h.kv.WipeRaw()
		sto2, err := h.create()
		if err != nil {
			startFailed = true
		} else {
			for _, p := range look {
				if h.fetchExactOrError(sto2, p, what+" (instance re-created over a wiped index)") {
					okRestart++
				}
			}
		}
		h.quiesce()
		// undo
		for r := range put {
			st.RawPut(r, orig[r])
		}
		if st.RawLen() != len(orig) {
			st.Restore(orig)
		}
		h.restoreKV(kvDump)

		evid.R.Eval()
		evid.R.Label("tamper/" + st.Name + "/" + vclass)
		switch {
		case startFailed:
			evid.R.Label("tamper-outcome/start-up-refused")
		case okRestart == len(look):
			evid.R.Label("tamper-outcome/all-fetches-still-exact")
		default:
			evid.R.Label("tamper-outcome/some-fetch-failed")
		}
		if st == h.blobs && changed && okLive == len(look) && !fetchAll {
			// the ciphertext of a plaintext we fetched was changed and still everything decrypted: only
			// possible if the mapping did not point to it
			if len(byEnc[refs[i].String()]) > 0 {
				h.t.Fatalf("C11 violated (tamper): %s went undetected: all %d fetches returned the original plaintexts although the ciphertext of %s was modified", what, len(look), byEnc[refs[i].String()][0].ref)
			}
		}
		if changed {
			evid.R.NonTrivial(evid.Hash(hist, st.Name, i, vname))
		}
		if evid.R.WantSample(changed) && (changed || i == 0) {
			evid.R.Sample(changed, map[string]any{"kind": "tamper", "history_class": class, "plaintexts": len(plains), "store": st.Name, "blob_index": i,
				"blob_size": len(orig[refs[i]]), "variant": vname, "fetches_checked": len(look), "exact_live": okLive, "exact_after_restart": okRestart, "start_up_refused": startFailed})
		}
	}

	for _, pair := range []struct {
		st   *vstore.Store
		orig map[blob.Ref][]byte
	}{{h.blobs, origBlobs}, {h.meta, origMeta}} {
		refs := pair.st.RawRefs()
		for i, r := range refs {
			d := pair.orig[r]
			for _, v := range variants(len(d)) {
				td := v.apply(d)
				tamperOne(pair.st, pair.orig, refs, i, v.name, v.class, map[blob.Ref][]byte{r: td}, !bytes.Equal(td, d))
			}
			if len(refs) >= 2 {
				j := (i + 1) % len(refs)
				tamperOne(pair.st, pair.orig, refs, i, fmt.Sprintf("swap-contents-with@%d", j), "swap-with-next-blob",
					map[blob.Ref][]byte{r: pair.orig[refs[j]], refs[j]: d}, !bytes.Equal(d, pair.orig[refs[j]]))
			}
		}
	}
	// the undo really restored everything: the untouched stores still serve every plaintext
	if _, same := sameMap(origBlobs, h.blobs.Snapshot()); !same {
		t.Fatalf("harness: blobs store not restored")
	}
	if _, same := sameMap(origMeta, h.meta.Snapshot()); !same {
		t.Fatalf("harness: meta store not restored")
	}
	h.battery(model, "after undoing every tamper")
	evid.R.Label("tamper-history/" + class)
	evid.R.Exhaustive("per generated history: every blob stored in the wrapped blobs and meta stores x {bit flips at 0,1,60,n/2,n-1; truncation to 0,1,n/2,n-1; 1 byte appended; contents swapped with the next blob of the store}")
}

func sameMap(a, b map[blob.Ref][]byte) (blob.Ref, bool) {
	for r, d := range a {
		if od, ok := b[r]; !ok || !bytes.Equal(od, d) {
			return r, false
		}
	}
	for r := range b {
		if _, ok := a[r]; !ok {
			return r, false
		}
	}
	return blob.Ref{}, true
}

func TestTamperEnumeration(t *testing.T) {
	evid.Check(t, 16, 200, runTamper)
}

// ---------------------------------------------------------------------------
// (3) start-up roll-up of very many small meta blobs

// TestStartupRollsUpManySmallMetas: while the meta store refuses large uploads (a bad period of a
// remote store), every roll-up of the small meta blobs gives up and more than
// SmallMetaCountLimit^2 single-entry meta blobs accumulate. At the next start the instance reads
// them all, rolls them up in concurrent groups, and the groups' packed blobs - together more than
// FullMetaBlobSize entries - are rolled up again, which is the only way to reach the code that cuts
// one roll-up into several packed blobs. Afterwards the index is lost: every acknowledged blob must be
// served from the wrapped stores alone. Thorough tier only (10^4 receives per case).
func TestStartupRollsUpManySmallMetas(t *testing.T) {
	if !evid.Thorough() && os.Getenv("VERIF_C11_BIG") == "" {
		t.Skip("thorough tier only")
	}
	evid.Check(t, 1, 1, func(t *rapid.T) {
		h := newHarness(t)
		defer h.close()
		h.env.YieldHook, h.env.AfterHook, h.env.BeforeMut = nil, nil, nil // no schedules, no snapshots here
		per := encrypt.SmallMetaCountLimit + 1
		n := rapid.IntRange(per*per, per*per+3*per).Draw(t, "plaintexts")
		if v, _ := strconv.Atoi(os.Getenv("VERIF_C11_N")); v > 0 {
			n = v
		}
		series := rapid.Uint64Range(1, 1<<30).Draw(t, "series")
		firstWipe := rapid.Bool().Draw(t, "indexLostAtFirstRestart")
		// the bad period is not total: every k-th packed upload gets through (0 = none), so that packed
		// meta blobs of different sizes are in the store at the restart as well
		letThrough := rapid.SampledFrom([]int{0, 0, 2, 3, 5, 9}).Draw(t, "everyKthRollupSucceeds")
		refused, large := 0, 0
		h.env.Match = func(e *vstore.Event) vstore.Behaviour {
			if e.Layer == "store:meta" && e.Op == "receive" && e.N > 4096 {
				large++
				if letThrough > 0 && large%letThrough == 0 {
					return vstore.OK
				}
				refused++
				return vstore.Fail
			}
			return vstore.OK
		}
		sto, err := h.create()
		if err != nil {
			t.Fatalf("C11 harness: cannot create the encrypt storage: %v", err)
		}
		h.sto = sto
		model := vmodel.New()
		var refs []blob.Ref
		for i := 0; i < n; i++ {
			d := []byte(fmt.Sprintf("plaintext %d of series %d", i, series))
			ref := blob.RefFromBytes(d)
			sb, err := blobserver.Receive(ctx, h.sto, ref, bytes.NewReader(d))
			if err != nil || sb.Ref != ref || int(sb.Size) != len(d) {
				t.Fatalf("C11 violated: receive #%d of %s returned %v, %v (only roll-up uploads to the meta store were refused)", i, ref, sb, err)
			}
			model.SetPresent(ref, d)
			refs = append(refs, ref)
		}
		h.quiesce()
		var upMu sync.Mutex
		var startupUploads []int // sizes of the packed meta blobs uploaded after the history
		h.env.Match = func(e *vstore.Event) vstore.Behaviour {
			if e.Layer == "store:meta" && e.Op == "receive" && e.N > 4096 {
				upMu.Lock()
				startupUploads = append(startupUploads, e.N)
				upMu.Unlock()
			}
			return vstore.OK
		}
		singles := h.meta.RawLen()
		verify := func(when string) {
			for _, r := range refs {
				if err := model.CheckFetch(ctx, h.sto, r); err != nil {
					t.Fatalf("C11 violated (recovery) %s: %v\n%d plaintexts, %d roll-up uploads refused during the history, %d meta blobs before the first restart, %d now", when, err, n, refused, singles, h.meta.RawLen())
				}
			}
			if err := model.CheckStat(ctx, h.sto, refs); err != nil {
				t.Fatalf("C11 violated (recovery) %s: %v", when, err)
			}
			if err := model.CheckEnumerate(ctx, h.sto, "", n+10); err != nil {
				t.Fatalf("C11 violated (recovery) %s: %v", when, err)
			}
		}
		verify("at the end of the history")
		before := map[string]bool{}
		for _, r := range h.meta.RawRefs() {
			before[r.String()] = true
		}
		if err := h.restart(firstWipe); err != nil {
			origin := "unknown"
			if m := regexp.MustCompile(`meta blob (sha\d+-[0-9a-f]+)`).FindStringSubmatch(err.Error()); m != nil {
				origin = map[bool]string{true: "it was in the meta store when the start-up began", false: "it was written to the meta store by a roll-up of this very start-up"}[before[m[1]]]
			}
			t.Fatalf("C11 violated (recovery): start-up over %d small meta blobs (index wiped: %v) failed: %v\nabout that meta blob: %s; the meta store now holds %d blobs", singles, firstWipe, err, origin, h.meta.RawLen())
		}
		h.quiesce()
		afterFirst := h.meta.RawLen()
		verify(fmt.Sprintf("after the first restart (index wiped: %v) and its roll-ups", firstWipe))
		if err := h.restart(true); err != nil {
			t.Fatalf("C11 violated (recovery): second start-up over a wiped index failed: %v", err)
		}
		h.quiesce()
		verify("after the second restart over a wiped index")
		evid.R.Eval()
		evid.R.Label("startup-rollup/history")
		evid.R.LabelN("startup-rollup/rollup-uploads-refused-during-history", refused)
		evid.R.LabelN("startup-rollup/small-meta-blobs-at-first-restart", singles)
		nt := singles > per*per-per && afterFirst < singles/50
		if nt {
			evid.R.Label("startup-rollup/rolled-up-in-several-rounds")
			evid.R.NonTrivial(evid.Hash("startup-rollup", n, series, firstWipe, letThrough))
		}
		if evid.R.WantSample(nt) {
			evid.R.Sample(nt, map[string]any{"kind": "startup-rollup", "plaintexts": n, "rollup_uploads_refused": refused, "meta_blobs_before_first_restart": singles,
				"meta_blobs_after_first_restart": afterFirst, "meta_blobs_at_end": h.meta.RawLen(), "index_lost_at_first_restart": firstWipe, "sizes_of_packed_meta_uploads_after_the_history": startupUploads, "every_kth_rollup_upload_succeeded_during_history": letThrough})
		}
	})
}

// TestRollupsPileUpBehindSlowMetaStore: the meta store is slow for large uploads for a while, so the
// packed blobs of many roll-ups (of different sizes: the first one contains the packed blob of the
// roll-ups that completed before) arrive together when it recovers and are rolled up again in one go -
// more than FullMetaBlobSize entries, so that this roll-up is cut into several packed blobs with a
// remainder. Then the index is lost. Thorough tier only (10^4 receives per case).
func TestRollupsPileUpBehindSlowMetaStore(t *testing.T) {
	// two cases per shard in the thorough tier
	if !evid.Thorough() && os.Getenv("VERIF_C11_BIG") == "" {
		t.Skip("thorough tier only")
	}
	evid.Check(t, 1, 2, func(t *rapid.T) {
		h := newHarness(t)
		defer h.close()
		h.env.AfterHook, h.env.BeforeMut = nil, nil
		var pmu sync.Mutex
		var pend []chan struct{}
		slow := false
		h.env.YieldHook = func(e *vstore.Event) {
			if e.Layer != "store:meta" || e.Op != "receive" || e.N <= 4096 {
				return
			}
			pmu.Lock()
			if !slow {
				pmu.Unlock()
				return
			}
			c := make(chan struct{})
			pend = append(pend, c)
			pmu.Unlock()
			<-c
		}
		npend := func() int { pmu.Lock(); defer pmu.Unlock(); return len(pend) }
		releaseAll := func(order []int) {
			pmu.Lock()
			slow = false
			cs := append([]chan struct{}(nil), pend...)
			pend = nil
			pmu.Unlock()
			done := map[int]bool{}
			for _, i := range order {
				if i < len(cs) && !done[i] {
					done[i] = true
					close(cs[i])
				}
			}
			for i, c := range cs {
				if !done[i] {
					close(c)
				}
			}
		}
		defer releaseAll(nil)
		per := encrypt.SmallMetaCountLimit + 1
		before := rapid.SampledFrom([]int{0, 1, 1, 2, 3}).Draw(t, "rollupsCompletedBeforeTheSlowPeriod")
		rounds := encrypt.FullMetaBlobSize/per + 1 + rapid.IntRange(0, 4).Draw(t, "extraRounds")
		// (small meta blobs of later receives would take the place of packed ones among the 101 that are
		// rolled up together, and the total would stay below FullMetaBlobSize)
		tail := rapid.SampledFrom([]int{0, 0, 0, 1, 2}).Draw(t, "blobsAfterTheLastRound")
		series := rapid.Uint64Range(1, 1<<30).Draw(t, "series")
		order := rapid.Permutation(seq(rounds+2)).Draw(t, "releaseOrder")
		sto, err := h.create()
		if err != nil {
			t.Fatalf("C11 harness: cannot create the encrypt storage: %v", err)
		}
		h.sto = sto
		model := vmodel.New()
		var refs []blob.Ref
		upload := func(k int) {
			for i := 0; i < k; i++ {
				d := []byte(fmt.Sprintf("plaintext %d of slow series %d", len(refs), series))
				ref := blob.RefFromBytes(d)
				sb, err := blobserver.Receive(ctx, h.sto, ref, bytes.NewReader(d))
				if err != nil || sb.Ref != ref || int(sb.Size) != len(d) {
					t.Fatalf("C11 violated: receive #%d of %s returned %v, %v (no fault was injected; the meta store is only slow)", len(refs), ref, sb, err)
				}
				model.SetPresent(ref, d)
				refs = append(refs, ref)
			}
		}
		settle := func() bool { // every live roll-up goroutine is parked in the slow upload
			return waitUntil(func() bool { return compactionsRunning() == npend() })
		}
		for i := 0; i < before; i++ {
			if i == 0 {
				upload(per)
			} else {
				upload(per - 1)
			}
			h.quiesce()
		}
		pmu.Lock()
		slow = true
		pmu.Unlock()
		for r := 0; r < rounds; r++ {
			if r == 0 && before > 0 {
				upload(per - 1) // the packed blob of the completed roll-ups is the 101st small meta blob
			} else {
				upload(per)
			}
		}
		upload(tail)
		if !settle() {
			t.Fatalf("VERIF-INCONCLUSIVE: roll-up goroutines neither ended nor reached the slow upload within 60s")
		}
		piled := npend()
		releaseAll(order)
		h.quiesce()
		verify := func(when string) {
			for _, r := range refs {
				if err := model.CheckFetch(ctx, h.sto, r); err != nil {
					t.Fatalf("C11 violated (recovery) %s: %v\n%d plaintexts, %d roll-ups completed before the slow period, %d packed uploads piled up behind the slow meta store, released in order %v; %d meta blobs now", when, err, len(refs), before, piled, order, h.meta.RawLen())
				}
			}
			if err := model.CheckStat(ctx, h.sto, refs); err != nil {
				t.Fatalf("C11 violated (recovery) %s: %v", when, err)
			}
			if err := model.CheckEnumerate(ctx, h.sto, "", len(refs)+10); err != nil {
				t.Fatalf("C11 violated (recovery) %s: %v", when, err)
			}
		}
		verify("after the meta store recovered (same instance)")
		metaAfter := h.meta.RawLen()
		if err := h.restart(true); err != nil {
			t.Fatalf("C11 violated (recovery): start-up over a wiped index after the piled-up roll-ups failed: %v", err)
		}
		h.quiesce()
		verify("after a restart over a wiped index")
		evid.R.Eval()
		evid.R.Label("slow-meta/history")
		evid.R.LabelN("slow-meta/packed-uploads-piled-up", piled)
		nt := piled > encrypt.SmallMetaCountLimit
		if nt {
			evid.R.Label("slow-meta/piled-up-packs-rolled-up-together")
			evid.R.NonTrivial(evid.Hash("slow-meta", before, rounds, tail, series, fmt.Sprint(order)))
		}
		if evid.R.WantSample(nt) {
			evid.R.Sample(nt, map[string]any{"kind": "slow-meta-store", "plaintexts": len(refs), "rollups_completed_before_the_slow_period": before, "rounds_during_the_slow_period": rounds,
				"packed_uploads_piled_up": piled, "meta_blobs_after_recovery_of_the_meta_store": metaAfter, "meta_blobs_at_end": h.meta.RawLen()})
		}
	})
}

func seq(n int) []int {
	out := make([]int, n)
	for i := range out {
		out[i] = i
	}
	return out
}
