// C20 — blobref text, encodings and ordering are mutually consistent.
package c20

import (
	"bytes"
	"crypto/sha1"
	"crypto/sha256"
	"encoding/hex"
	"encoding/json"
	"fmt"
	"hash"
	"os"
	"sort"
	"strings"
	"testing"

	"perkeep.org/pkg/blob"
	"pgregory.net/rapid"

	"verifharness/internal/evid"
	"verifharness/internal/known"
)

const prop = "C20"

func TestMain(m *testing.M) {
	evid.Main(m, prop, "exploration",
		"(a) exhaustive: every string of length<=4 over {a-z,0-9,-,A} and every name-hex with name in a fixed set x hex of length 0..5 over {0,9,a,f,g,A}; "+
			"(b) rapid: well-formed refs of sha1/sha224/sha256 and unknown hashes with adversarial digests, all their prefixes, single-character corruptions, wrong lengths, ref pairs/lists for ordering, byte contents for hashing. "+
			"Each string is checked against an independent spec of the text form (Parse/ParseBytes/ParseKnown/EqualString/HasPrefix/JSON/binary round trips). "+
			"non-trivial = the string parses as a ref, or differs from a parsing ref by exactly one character/length step; distinct = FNV-64 of the string (or of the ref list for ordering cases)")
}

// scratchRefs are formatted between taking an encoding and checking it (see checkString).
var scratchRefs = []blob.Ref{
	blob.MustParse("sha224-d14a028c2a3a2bc9476102bb288234c415a2b01f828ea62ac5b3e42f"),
	blob.MustParse("sha1-da39a3ee5e6b4b0d3255bfef95601890afd80709"),
	blob.MustParse("sha256-e3b0c44298fc1c149afbf4c8996fb92427ae41e4649b934ca495991b7852b855"),
	blob.MustParse("foo-0b0c"),
}

var supported = map[string]int{"sha1": 20, "sha224": 28, "sha256": 32}
var testNames = map[string]bool{"fakeref": true, "testref": true, "perma": true}

func lowerHex(s string) bool {
	for i := 0; i < len(s); i++ {
		c := s[i]
		if !('0' <= c && c <= '9' || 'a' <= c && c <= 'f') {
			return false
		}
	}
	return true
}

func validName(n string) bool {
	if n == "" {
		return false
	}
	for i := 0; i < len(n); i++ {
		c := n[i]
		if !('0' <= c && c <= '9' || 'a' <= c && c <= 'z') {
			return false
		}
	}
	return true
}

// spec: is s the text of a well-formed ref? (any / supported only)
func specWellFormed(s string) (any, sup bool, name, hx string) {
	i := strings.IndexByte(s, '-')
	if i < 0 {
		return false, false, "", ""
	}
	name, hx = s[:i], s[i+1:]
	if n, ok := supported[name]; ok {
		w := len(hx) == 2*n && lowerHex(hx)
		return w, w, name, hx
	}
	if !validName(name) || len(hx) < 1 || len(hx) > 256 || !lowerHex(hx) {
		return false, false, name, hx
	}
	return true, false, name, hx
}

type mismatch struct {
	what string
}

func (m *mismatch) Error() string { return m.what }

func mm(format string, a ...any) error { return &mismatch{fmt.Sprintf(format, a...)} }

// checkString runs every text-form oracle on s. nontrivial reports that s parsed.
func checkString(s string) (parsed bool, err error) {
	defer func() {
		if r := recover(); r != nil {
			err = mm("panic on %q: %v", s, r)
		}
	}()
	ref, ok := blob.Parse(s)
	refB, okB := blob.ParseBytes([]byte(s))
	if ok != okB || ref != refB {
		return ok, mm("Parse(%q)=(%v,%v) but ParseBytes=(%v,%v)", s, ref, ok, refB, okB)
	}
	wfAny, wfSup, name, hx := specWellFormed(s)
	_, isSupName := supported[name]
	if ok && !wfAny {
		return ok, mm("Parse accepted %q which is not a well-formed ref (name [a-z0-9]+, '-', lower-case hex)", s)
	}
	if isSupName && ok != wfSup {
		return ok, mm("Parse(%q) ok=%v, want %v for supported hash %s", s, ok, wfSup, name)
	}
	if !isSupName && wfAny && !ok {
		return ok, mm("Parse rejected well-formed unknown-hash ref %q", s)
	}
	// ParseKnown: only supported (or the three built-in test names).
	kref, kok := blob.ParseKnown(s)
	wantKnown := wfSup || (wfAny && testNames[name])
	if kok != wantKnown {
		return ok, mm("ParseKnown(%q) ok=%v, want %v", s, kok, wantKnown)
	}
	if kok && kref != ref {
		return ok, mm("ParseKnown(%q) != Parse", s)
	}
	if blob.ValidRefString(s) != ok || blob.ParseOrZero(s).Valid() != ok {
		return ok, mm("ValidRefString/ParseOrZero disagree with Parse on %q", s)
	}
	// JSON decoding of the quoted text agrees with Parse (UnmarshalJSON takes the raw bytes between the quotes).
	if !strings.ContainsAny(s, "\"\\") {
		var jr blob.Ref
		jerr := jr.UnmarshalJSON([]byte(`"` + s + `"`))
		if (jerr == nil) != ok || (ok && jr != ref) {
			return ok, mm("UnmarshalJSON(%q) err=%v ref=%v; Parse ok=%v", s, jerr, jr, ok)
		}
	}
	if !ok {
		if ref.Valid() {
			return ok, mm("Parse(%q) failed but returned a valid ref", s)
		}
		return false, nil
	}
	// ---- s parsed: the ref must be consistent with its text in every view ----
	if got := ref.String(); got != s {
		return ok, mm("Parse(%q).String() = %q", s, got)
	}
	if r2, ok2 := blob.Parse(ref.String()); !ok2 || r2 != ref {
		return ok, mm("Parse(String()) not equal for %q", s)
	}
	if ref.HashName() != name || ref.Digest() != hx {
		return ok, mm("HashName/Digest of %q = %q/%q", s, ref.HashName(), ref.Digest())
	}
	if ref.IsSupported() != isSupName {
		return ok, mm("IsSupported(%q)=%v", s, ref.IsSupported())
	}
	if (ref.Hash() != nil) != isSupName {
		return ok, mm("Hash()==nil mismatch for %q", s)
	}
	if !ref.EqualString(s) {
		return ok, mm("EqualString(own text) false for %q", s)
	}
	for _, t := range neighbours(s) {
		if ref.EqualString(t) != (t == s) {
			return ok, mm("ref %q EqualString(%q) = %v", s, t, ref.EqualString(t))
		}
	}
	// prefixes: every prefix, and every prefix with its last byte changed
	minLen := len(name) + 2
	for n := 0; n <= len(s); n++ {
		p := s[:n]
		want := n >= minLen
		if got := ref.HasPrefix(p); got != want {
			return ok, mm("ref %q HasPrefix(%q) = %v, want %v", s, p, got, want)
		}
		if n > 0 {
			for _, c := range []byte{'0', 'f', 'g', '-', 'A'} {
				if p[n-1] == c {
					continue
				}
				q := p[:n-1] + string([]byte{c})
				want := strings.HasPrefix(s, q) && len(q) >= minLen
				if got := ref.HasPrefix(q); got != want {
					return ok, mm("ref %q HasPrefix(%q) = %v, want %v", s, q, got, want)
				}
			}
		}
	}
	for _, q := range []string{s + "0", s + "-", s + s} {
		if ref.HasPrefix(q) {
			return ok, mm("ref %q HasPrefix(%q) true for a longer string", s, q)
		}
	}
	// JSON round trip
	jb, jerr := json.Marshal(ref)
	if jerr != nil || string(jb) != `"`+s+`"` {
		return ok, mm("MarshalJSON(%q) = %s, %v", s, jb, jerr)
	}
	// the encodings must be stable values: still the same bytes after other refs were formatted/encoded
	// (an encoder handing out a recycled buffer would only be visible to callers that hold the result)
	mj, _ := ref.MarshalJSON()
	mb, _ := ref.MarshalBinary()
	for _, o := range scratchRefs {
		_ = o.String()
		_ = o.Digest()
		_ = o.StringMinusOne()
		o.MarshalJSON()
		o.MarshalBinary()
	}
	_ = ref.String()
	if string(mj) != `"`+s+`"` {
		return ok, mm("MarshalJSON(%q) result changed to %q after other refs were formatted", s, mj)
	}
	if mb2, _ := ref.MarshalBinary(); !bytes.Equal(mb, mb2) {
		return ok, mm("MarshalBinary(%q) result changed after other refs were formatted", s)
	}
	var back blob.Ref
	if err := json.Unmarshal(jb, &back); err != nil || back != ref {
		return ok, mm("JSON round trip of %q gave %v, %v", s, back, err)
	}
	var holder struct {
		R  blob.Ref
		P  *blob.Ref
		SR blob.SizedRef
	}
	hb, _ := json.Marshal(struct {
		R  blob.Ref
		P  *blob.Ref
		SR blob.SizedRef
	}{ref, &ref, blob.SizedRef{Ref: ref, Size: 7}})
	if err := json.Unmarshal(hb, &holder); err != nil || holder.R != ref || holder.P == nil || *holder.P != ref || holder.SR.Ref != ref || holder.SR.Size != 7 {
		return ok, mm("JSON struct round trip of %q failed: %v %s", s, err, hb)
	}
	// binary round trip
	bb, berr := ref.MarshalBinary()
	if berr != nil {
		return ok, mm("MarshalBinary(%q): %v", s, berr)
	}
	var bback blob.Ref
	if err := bback.UnmarshalBinary(bb); err != nil || bback != ref {
		oddUnknown := !isSupName && len(hx)%2 == 1
		if !(oddUnknown && err == nil && bback.String() == s+"0" &&
			known.Hit(prop, "C20-odd-unknown-binary", fmt.Sprintf("%q -> binary -> %q", s, bback.String()))) {
			return ok, mm("binary round trip of %q gave %q, err=%v", s, bback.String(), err)
		}
	}
	if isSupName {
		raw, _ := hex.DecodeString(hx)
		if !bytes.Equal(bb, append([]byte(name+"-"), raw...)) {
			return ok, mm("MarshalBinary(%q) = %q", s, bb)
		}
	}
	// StringMinusOne: immediately before the text, same length
	m1 := ref.StringMinusOne()
	if !(m1 < s) || len(m1) != len(s) || m1[:len(m1)-1] != s[:len(s)-1] || m1[len(m1)-1] != s[len(s)-1]-1 {
		return ok, mm("StringMinusOne(%q) = %q", s, m1)
	}
	return true, nil
}

func neighbours(s string) []string {
	out := []string{s + "0", s[:len(s)-1], strings.ToUpper(s), s[:len(s)-1] + "g", "-" + s}
	if len(s) > 1 {
		out = append(out, s[:len(s)-2]+string(flip(s[len(s)-2]))+s[len(s)-1:], string(flip(s[0]))+s[1:])
		mid := len(s) / 2
		out = append(out, s[:mid]+string(flip(s[mid]))+s[mid+1:])
	}
	last := s[len(s)-1]
	out = append(out, s[:len(s)-1]+string(flip(last)))
	return out
}

func flip(c byte) byte {
	switch {
	case c == '0':
		return '1'
	case c == 'f':
		return 'e'
	case c == '-':
		return '0'
	case '1' <= c && c <= '9':
		return c - 1
	default:
		return c + 1
	}
}

func fail(t interface{ Fatalf(string, ...any) }, err error) {
	t.Fatalf("C20 violated: %v", err)
}

// ---- (a) exhaustive core ----

func TestExhaustiveShortStrings(t *testing.T) {
	if evid.Replaying() {
		t.Skip()
	}
	if i, _ := evid.Shard(); i != 0 {
		t.Skip("exhaustive core runs in shard 0 only")
	}
	alpha := []byte("abcdefghijklmnopqrstuvwxyz0123456789-A")
	maxLen := 4
	buf := make([]byte, 0, 8)
	var n, parsed int
	var rec func(depth int)
	var firstErr error
	rec = func(depth int) {
		if firstErr != nil {
			return
		}
		s := string(buf)
		n++
		p, err := checkString(s)
		if err != nil {
			firstErr = err
			return
		}
		if p {
			parsed++
			if evid.R.NonTrivial(evid.Hash("s", s)) && parsed%4000 == 1 {
				evid.R.Sample(true, map[string]any{"kind": "exhaustive-short", "string": s, "parses": true})
			}
		}
		if depth == maxLen {
			return
		}
		for _, c := range alpha {
			buf = append(buf, c)
			rec(depth + 1)
			buf = buf[:len(buf)-1]
		}
	}
	rec(0)
	evid.R.EvalN(n)
	evid.R.LabelN("exhaustive-short/strings", n)
	evid.R.LabelN("exhaustive-short/parsed", parsed)
	if firstErr != nil {
		writeCase(t, "short", firstErr)
		fail(t, firstErr)
	}
	evid.R.Exhaustive("all strings of length<=4 over {a-z,0-9,-,A}")
}

func TestExhaustiveNameHex(t *testing.T) {
	if evid.Replaying() {
		t.Skip()
	}
	if i, _ := evid.Shard(); i != 0 {
		t.Skip("exhaustive core runs in shard 0 only")
	}
	names := []string{"sha1", "sha224", "sha256", "sha", "sha2240", "x", "perma", "fakeref", "testref", "9", "Sha1", ""}
	alpha := []byte("09afgA")
	maxLen := evid.Pick(5, 7)
	var n, parsed int
	for _, name := range names {
		buf := make([]byte, 0, 8)
		var rec func(int) error
		rec = func(depth int) error {
			s := name + "-" + string(buf)
			n++
			p, err := checkString(s)
			if err != nil {
				return err
			}
			if p {
				parsed++
				if evid.R.NonTrivial(evid.Hash("s", s)) && parsed%3000 == 1 {
					evid.R.Sample(true, map[string]any{"kind": "exhaustive-namehex", "string": s, "parses": true})
				}
			}
			if depth == maxLen {
				return nil
			}
			for _, c := range alpha {
				buf = append(buf, c)
				if err := rec(depth + 1); err != nil {
					return err
				}
				buf = buf[:len(buf)-1]
			}
			return nil
		}
		if err := rec(0); err != nil {
			evid.R.EvalN(n)
			writeCase(t, "namehex", err)
			fail(t, err)
		}
	}
	evid.R.EvalN(n)
	evid.R.LabelN("exhaustive-namehex/strings", n)
	evid.R.LabelN("exhaustive-namehex/parsed", parsed)
	evid.R.Exhaustive(fmt.Sprintf("name-hex for 12 names x hex length<=%d over {0,9,a,f,g,A}", maxLen))
}

func writeCase(t *testing.T, kind string, err error) {
	root := os.Getenv("VERIF_ROOT")
	if root == "" {
		return
	}
	dir := root + "/replays/C20"
	os.MkdirAll(dir, 0o755)
	os.WriteFile(dir+"/exhaustive-"+kind+".case.json", []byte(fmt.Sprintf("{\"violation\": %q}\n", err.Error())), 0o644)
}

// ---- (b) rapid ----

var hashNames = []string{"sha1", "sha224", "sha256"}

func genDigestHex(n int) *rapid.Generator[string] {
	return rapid.Custom(func(t *rapid.T) string {
		kind := rapid.IntRange(0, 5).Draw(t, "digestKind")
		b := make([]byte, n)
		switch kind {
		case 0: // zeros
		case 1:
			for i := range b {
				b[i] = 0xff
			}
		case 2: // shared prefix then one nibble
			for i := range b {
				b[i] = 0xab
			}
			pos := rapid.IntRange(0, n-1).Draw(t, "pos")
			b[pos] = rapid.Byte().Draw(t, "nib")
		case 3: // zeros with a single low nibble somewhere
			pos := rapid.IntRange(0, n-1).Draw(t, "pos")
			b[pos] = byte(rapid.IntRange(0, 255).Draw(t, "v"))
		default:
			seed := rapid.Uint64().Draw(t, "seed")
			x := seed | 1
			for i := range b {
				x ^= x << 13
				x ^= x >> 7
				x ^= x << 17
				b[i] = byte(x)
			}
		}
		return hex.EncodeToString(b)
	})
}

func genSupportedRefText() *rapid.Generator[string] {
	return rapid.Custom(func(t *rapid.T) string {
		name := rapid.SampledFrom(hashNames).Draw(t, "hash")
		return name + "-" + genDigestHex(supported[name]).Draw(t, "hex")
	})
}

func genUnknownRefText() *rapid.Generator[string] {
	return rapid.Custom(func(t *rapid.T) string {
		name := rapid.OneOf(
			rapid.SampledFrom([]string{"md5", "sha512", "blake2", "sha", "sha2", "sha2240", "sha10", "x", "perma", "fakeref", "testref", "0", "sha1a"}),
			rapid.StringMatching("[a-z0-9]{1,8}"),
		).Filter(func(n string) bool { _, s := supported[n]; return !s }).Draw(t, "name")
		n := rapid.OneOf(rapid.IntRange(1, 12), rapid.SampledFrom([]int{1, 2, 3, 127, 128, 129, 254, 255, 256, 257, 258})).Draw(t, "hexlen")
		hx := genDigestHex((n+1)/2).Draw(t, "hex")[:n]
		return name + "-" + hx
	})
}

func TestRapidRefStrings(t *testing.T) {
	evid.Check(t, 20000, 120000, func(t *rapid.T) {
		var s string
		class := rapid.IntRange(0, 9).Draw(t, "class")
		base := ""
		switch class {
		case 0, 1:
			s = genSupportedRefText().Draw(t, "ref")
			evid.R.Label("rapid/supported-wellformed")
		case 2:
			s = genUnknownRefText().Draw(t, "ref")
			evid.R.Label("rapid/unknown-hash")
		case 3, 4: // single-character corruption of a parsing ref
			base = rapid.OneOf(genSupportedRefText(), genUnknownRefText()).Draw(t, "base")
			pos := rapid.IntRange(0, len(base)-1).Draw(t, "pos")
			c := rapid.SampledFrom([]byte("0fgAF-z /\x00\xff")).Draw(t, "c")
			switch rapid.IntRange(0, 5).Draw(t, "substitute") {
			case 0, 1: // any byte
				c = rapid.Byte().Draw(t, "anyByte")
			case 2: // a hex digit, or the byte at the substituted position, with another high bit pattern
				c = rapid.SampledFrom([]byte{base[pos], '0', '9', 'a', 'f'}).Draw(t, "digit") ^ rapid.SampledFrom([]byte{0x80, 0x40, 0x20, 0x10, 0xc0}).Draw(t, "flip")
			}
			s = base[:pos] + string([]byte{c}) + base[pos+1:]
			evid.R.Label("rapid/one-char-substitution")
		case 5: // wrong length: drop or add
			base = rapid.OneOf(genSupportedRefText(), genUnknownRefText()).Draw(t, "base")
			pos := rapid.IntRange(0, len(base)).Draw(t, "pos")
			if rapid.Bool().Draw(t, "insert") {
				c := rapid.SampledFrom([]byte("0fa-g")).Draw(t, "c")
				s = base[:pos] + string([]byte{c}) + base[pos:]
			} else if pos < len(base) {
				s = base[:pos] + base[pos+1:]
			} else {
				s = base[:len(base)-1]
			}
			evid.R.Label("rapid/one-char-length-change")
		case 6: // prefix of a ref
			base = genSupportedRefText().Draw(t, "base")
			s = base[:rapid.IntRange(0, len(base)).Draw(t, "n")]
			evid.R.Label("rapid/prefix")
		case 7: // supported name with digest of another hash's length
			name := rapid.SampledFrom(hashNames).Draw(t, "hash")
			other := rapid.SampledFrom(hashNames).Draw(t, "other")
			s = name + "-" + genDigestHex(supported[other]).Draw(t, "hex")
			evid.R.Label("rapid/cross-length")
		case 8:
			s = rapid.StringMatching(`[a-z0-9A-]{0,12}`).Draw(t, "s")
			evid.R.Label("rapid/short-alphabet")
		default:
			s = rapid.String().Draw(t, "s")
			evid.R.Label("rapid/arbitrary")
		}
		evid.R.Eval()
		parsed, err := checkString(s)
		nt := parsed || (base != "" && s != base)
		if nt {
			evid.R.NonTrivial(evid.Hash("s", s))
		}
		if evid.R.WantSample(nt) {
			evid.R.Sample(nt, map[string]any{"kind": "rapid-string", "class": class, "string": s, "parses": parsed})
		}
		if err != nil {
			fail(t, err)
		}
	})
}

func TestRapidOrdering(t *testing.T) {
	evid.Check(t, 3000, 30000, func(t *rapid.T) {
		n := rapid.IntRange(2, 12).Draw(t, "n")
		texts := make([]string, n)
		for i := range texts {
			if i > 0 && rapid.IntRange(0, 3).Draw(t, "near") == 0 {
				// neighbour of an earlier one: same digest other hash, or one nibble apart
				b := []byte(texts[rapid.IntRange(0, i-1).Draw(t, "of")])
				pos := rapid.IntRange(strings.IndexByte(string(b), '-')+1, len(b)-1).Draw(t, "pos")
				b[pos] = "0123456789abcdef"[rapid.IntRange(0, 15).Draw(t, "nib")]
				texts[i] = string(b)
			} else {
				texts[i] = genSupportedRefText().Draw(t, "ref")
			}
		}
		evid.R.Eval()
		refs := make([]blob.Ref, n)
		for i, s := range texts {
			r, ok := blob.ParseKnown(s)
			if !ok {
				t.Fatalf("C20 violated: generated supported ref %q rejected by ParseKnown", s)
			}
			refs[i] = r
		}
		for i := range refs {
			for j := range refs {
				if got, want := refs[i].Less(refs[j]), texts[i] < texts[j]; got != want {
					t.Fatalf("C20 violated: %q.Less(%q) = %v but text order says %v", texts[i], texts[j], got, want)
				}
				if (refs[i] == refs[j]) != (texts[i] == texts[j]) {
					t.Fatalf("C20 violated: ref equality of %q and %q disagrees with text equality", texts[i], texts[j])
				}
			}
		}
		sorted := append([]blob.Ref(nil), refs...)
		sort.Sort(blob.ByRef(sorted))
		st := append([]string(nil), texts...)
		sort.Strings(st)
		sized := make([]blob.SizedRef, n)
		for i, r := range refs {
			sized[i] = blob.SizedRef{Ref: r, Size: uint32(i)}
		}
		sort.Sort(blob.SizedByRef(sized))
		for i := range sorted {
			if sorted[i].String() != st[i] || sized[i].Ref.String() != st[i] {
				t.Fatalf("C20 violated: sort.Sort(ByRef) position %d = %q, sort.Strings says %q", i, sorted[i], st[i])
			}
		}
		// invalid refs sort first (documented on Less)
		var zero blob.Ref
		if !zero.Less(refs[0]) || refs[0].Less(zero) || zero.Less(zero) {
			t.Fatalf("C20 violated: zero ref ordering")
		}
		h := evid.Hash("order", strings.Join(texts, ","))
		nt := true
		evid.R.NonTrivial(h)
		evid.R.Label("rapid/ordering-lists")
		if evid.R.WantSample(nt) {
			evid.R.Sample(nt, map[string]any{"kind": "ordering", "refs": texts})
		}
	})
}

func TestRapidHashing(t *testing.T) {
	evid.Check(t, 3000, 30000, func(t *rapid.T) {
		var content []byte
		if rapid.Bool().Draw(t, "big") {
			n := rapid.IntRange(0, 70000).Draw(t, "n")
			seed := rapid.Uint64().Draw(t, "seed") | 1
			content = make([]byte, n)
			x := seed
			for i := range content {
				x ^= x << 13
				x ^= x >> 7
				x ^= x << 17
				content[i] = byte(x)
			}
		} else {
			content = rapid.SliceOfN(rapid.Byte(), 0, 64).Draw(t, "content")
		}
		evid.R.Eval()
		s224 := sha256.Sum224(content)
		want := "sha224-" + hex.EncodeToString(s224[:])
		if got := blob.RefFromBytes(content).String(); got != want {
			t.Fatalf("C20 violated: RefFromBytes = %q want %q", got, want)
		}
		if got := blob.RefFromString(string(content)).String(); got != want {
			t.Fatalf("C20 violated: RefFromString = %q want %q", got, want)
		}
		s1 := sha1.Sum(content)
		s256 := sha256.Sum256(content)
		wants := map[string]string{
			"sha1":   "sha1-" + hex.EncodeToString(s1[:]),
			"sha224": want,
			"sha256": "sha256-" + hex.EncodeToString(s256[:]),
		}
		other := append(append([]byte(nil), content...), 1)
		for _, name := range hashNames {
			h, err := blob.NewHashOfType(name)
			if err != nil {
				t.Fatalf("C20 violated: NewHashOfType(%q): %v", name, err)
			}
			h.Write(content)
			r := blob.RefFromHash(h)
			if r.String() != wants[name] {
				t.Fatalf("C20 violated: RefFromHash(%s) = %q want %q", name, r, wants[name])
			}
			pr, ok := blob.ParseKnown(wants[name])
			if !ok || pr != r {
				t.Fatalf("C20 violated: ParseKnown(%q) != RefFromHash", wants[name])
			}
			var h2 hash.Hash = r.Hash()
			h2.Write(content)
			if !r.HashMatches(h2) {
				t.Fatalf("C20 violated: %v.HashMatches(own content) false", r)
			}
			h3 := r.Hash()
			h3.Write(other)
			if r.HashMatches(h3) {
				t.Fatalf("C20 violated: %v.HashMatches(other content) true", r)
			}
			// a hash of another function never matches
			for _, n2 := range hashNames {
				if n2 == name {
					continue
				}
				hx, _ := blob.NewHashOfType(n2)
				hx.Write(content)
				if r.HashMatches(hx) {
					t.Fatalf("C20 violated: %v matches a %s hash", r, n2)
				}
			}
		}
		if h, err := blob.NewHashOfType(""); err != nil || blob.RefFromHash(h).HashName() != "sha224" {
			t.Fatalf("C20 violated: default hash")
		}
		evid.R.NonTrivial(evid.Hash("content", content))
		evid.R.Label("rapid/hashing")
		if evid.R.WantSample(false) {
			evid.R.Sample(false, map[string]any{"kind": "hashing", "len": len(content), "ref": want})
		}
	})
}

// ---- (c) native fuzz (thorough tier, driven by bin/check) ----

func FuzzParse(f *testing.F) {
	for _, s := range []string{
		"sha1-0beec7b5ea3f0fdbc95d0dd47f3c5bc275da8a33",
		"sha224-d14a028c2a3a2bc9476102bb288234c415a2b01f828ea62ac5b3e42f",
		"sha256-b5bb9d8014a0f9b1d61e21e796d78dccdf1352f23cd32812f4850b878ae4944c",
		"perma-123", "fakeref-0012", "md5-d41d8cd98f00b204e9800998ecf8427e", "x-a", "x-", "-", "", "sha1-", "sha1", "foo-0b0c",
		"sha224-D14a028c2a3a2bc9476102bb288234c415a2b01f828ea62ac5b3e42f", "<invalid-blob.Ref>",
	} {
		f.Add(s)
	}
	f.Fuzz(func(t *testing.T, s string) {
		if _, err := checkString(s); err != nil {
			t.Fatalf("C20 violated: %v", err)
		}
	})
}
