package c20

import (
	"bytes"
	"context"
	"fmt"
	"strings"
	"testing"

	"perkeep.org/pkg/blob"
	"perkeep.org/pkg/blobserver"
	"pgregory.net/rapid"

	"verifharness/internal/evid"
	"verifharness/internal/vstore"
)

// TestUnsupportedRefsRefusedWhereOnlySupportedOnesAreAllowed: the last clause of C20 at the places
// that take a parsed ref and must insist on a supported hash: blobserver.Receive / ReceiveNoHash in
// front of a store that does not verify anything itself (a harness store), blob.ParseKnown (which by
// design lets the three test names fakeref/testref/perma through: they are not generated), and
// Ref.IsSupported. A well-formed ref of an unknown hash function (blob.Parse accepts those, they can be
// fetched and referenced) must not get bytes stored under it: nobody can check them.
func TestUnsupportedRefsRefusedWhereOnlySupportedOnesAreAllowed(t *testing.T) {
	ctx := context.Background()
	evid.Check(t, 400, 4000, func(t *rapid.T) {
		name := rapid.SampledFrom([]string{"sha3", "md5", "foo", "sha1x", "sha2240", "sha25", "sha", "blake2b", "sha512", "x"}).Draw(t, "hashName")
		nhex := rapid.SampledFrom([]int{2, 4, 8, 32, 40, 56, 64, 128}).Draw(t, "hexLen")
		data := []byte(rapid.StringN(0, 40, 40).Draw(t, "data"))
		var digest string
		switch rapid.IntRange(0, 2).Draw(t, "digestKind") {
		case 0: // the real sha1/sha224/sha256 digest of the data under the foreign name
			digest = strings.SplitN(blob.RefFromBytes(data).String(), "-", 2)[1]
		default:
			digest = rapid.StringMatching(fmt.Sprintf("[0-9a-f]{%d}", nhex)).Draw(t, "digest")
		}
		s := name + "-" + digest
		ref, ok := blob.Parse(s)
		evid.R.Eval()
		if !ok {
			evid.R.Label("entry/unparseable")
			return
		}
		evid.R.NonTrivial(evid.Hash("entry", s, string(data)))
		evid.R.Label("entry/well-formed-unknown-hash")
		if ref.IsSupported() {
			t.Fatalf("C20 violated: %q (hash name %q) reports IsSupported() = true", s, name)
		}
		if _, ok := blob.ParseKnown(s); ok {
			t.Fatalf("C20 violated: ParseKnown(%q) accepts a ref of the unsupported hash %q", s, name)
		}
		for _, via := range []string{"Receive", "ReceiveNoHash"} {
			env := vstore.NewEnv()
			st := env.NewStore("sink")
			var sb blob.SizedRef
			var err error
			if via == "Receive" {
				sb, err = blobserver.Receive(ctx, st, ref, bytes.NewReader(data))
			} else {
				sb, err = blobserver.ReceiveNoHash(ctx, st, ref, bytes.NewReader(data))
			}
			if via == "Receive" && err == nil {
				t.Fatalf("C20 violated: blobserver.Receive stored %d bytes under %q, a ref of the unsupported hash %q (returned %v): nothing can verify them", len(data), s, name, sb)
			}
			if via == "Receive" && st.RawLen() != 0 {
				t.Fatalf("C20 violated: blobserver.Receive refused %q (%v) but the store holds %d blobs", s, err, st.RawLen())
			}
			evid.R.Label("entry/" + via + "/" + map[bool]string{true: "refused", false: "accepted"}[err != nil])
			env.ReleaseAll()
		}
		if evid.R.WantSample(true) {
			evid.R.Sample(true, map[string]any{"kind": "unsupported-ref-at-entry-points", "ref": s, "bytes": len(data)})
		}
	})
}
