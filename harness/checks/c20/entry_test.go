package c20

import (
	"bytes"
	"context"
	"crypto/sha1"
	"crypto/sha256"
	"fmt"
	"hash"
	"sort"
	"strings"
	"testing"

	"perkeep.org/pkg/blob"
	"perkeep.org/pkg/blobserver"
	"pgregory.net/rapid"

	"verifharness/internal/evid"
	"verifharness/internal/vstore"
)

// TestUnsupportedRefsRefusedWhereOnlySupportedOnesAreAllowed: the last clause of C20 at the places
// that take a parsed ref and must insist on a supported hash: blobserver.Receive / ReceiveNoHash in
// front of a store that does not verify anything itself (a harness store), blob.ParseKnown (which by
// design lets the three test names fakeref/testref/perma through: they are not generated), and
// Ref.IsSupported. A well-formed ref of an unknown hash function (blob.Parse accepts those, they can be
// fetched and referenced) must not get bytes stored under it: nobody can check them.
func TestUnsupportedRefsRefusedWhereOnlySupportedOnesAreAllowed(t *testing.T) {
	ctx := context.Background()
	evid.Check(t, 400, 4000, func(t *rapid.T) {
		name := rapid.SampledFrom([]string{"sha3", "md5", "foo", "sha1x", "sha2240", "sha25", "sha", "blake2b", "sha512", "x"}).Draw(t, "hashName")
		nhex := rapid.SampledFrom([]int{2, 4, 8, 32, 40, 56, 64, 128}).Draw(t, "hexLen")
		data := []byte(rapid.StringN(0, 40, 40).Draw(t, "data"))
		var digest string
		switch rapid.IntRange(0, 2).Draw(t, "digestKind") {
		case 0: // the real sha1/sha224/sha256 digest of the data under the foreign name
			digest = strings.SplitN(blob.RefFromBytes(data).String(), "-", 2)[1]
		default:
			digest = rapid.StringMatching(fmt.Sprintf("[0-9a-f]{%d}", nhex)).Draw(t, "digest")
		}
		s := name + "-" + digest
		ref, ok := blob.Parse(s)
		evid.R.Eval()
		if !ok {
			evid.R.Label("entry/unparseable")
			return
		}
		evid.R.NonTrivial(evid.Hash("entry", s, string(data)))
		evid.R.Label("entry/well-formed-unknown-hash")
		if ref.IsSupported() {
			t.Fatalf("C20 violated: %q (hash name %q) reports IsSupported() = true", s, name)
		}
		if _, ok := blob.ParseKnown(s); ok {
			t.Fatalf("C20 violated: ParseKnown(%q) accepts a ref of the unsupported hash %q", s, name)
		}
		for _, via := range []string{"Receive", "ReceiveNoHash"} {
			env := vstore.NewEnv()
			st := env.NewStore("sink")
			var sb blob.SizedRef
			var err error
			if via == "Receive" {
				sb, err = blobserver.Receive(ctx, st, ref, bytes.NewReader(data))
			} else {
				sb, err = blobserver.ReceiveNoHash(ctx, st, ref, bytes.NewReader(data))
			}
			if via == "Receive" && err == nil {
				t.Fatalf("C20 violated: blobserver.Receive stored %d bytes under %q, a ref of the unsupported hash %q (returned %v): nothing can verify them", len(data), s, name, sb)
			}
			if via == "Receive" && st.RawLen() != 0 {
				t.Fatalf("C20 violated: blobserver.Receive refused %q (%v) but the store holds %d blobs", s, err, st.RawLen())
			}
			evid.R.Label("entry/" + via + "/" + map[bool]string{true: "refused", false: "accepted"}[err != nil])
			env.ReleaseAll()
		}
		if evid.R.WantSample(true) {
			evid.R.Sample(true, map[string]any{"kind": "unsupported-ref-at-entry-points", "ref": s, "bytes": len(data)})
		}
	})
}

// TestOrderConsumersAgreeWithTextOrder: the merge-join the sync tools run over two enumerations
// (blobserver.ListMissingDestinationBlobs) relies on the order of refs being the byte-wise order of their
// text forms, across hash functions. For generated ref sets (sha1, sha224, sha256 mixed), fed in text
// order as every enumeration delivers them, it must report exactly source minus destination, in order.
func TestOrderConsumersAgreeWithTextOrder(t *testing.T) {
	evid.Check(t, 300, 3000, func(t *rapid.T) {
		n := rapid.IntRange(1, 40).Draw(t, "refs")
		var all []blob.Ref
		seen := map[blob.Ref]bool{}
		for i := 0; i < n; i++ {
			data := []byte(fmt.Sprintf("ordered-%d-%d", i, rapid.IntRange(0, 1<<20).Draw(t, "salt")))
			var r blob.Ref
			switch rapid.IntRange(0, 2).Draw(t, "hash") {
			case 0:
				r = blob.RefFromHash(hashOf("sha1", data))
			case 1:
				r = blob.RefFromHash(hashOf("sha224", data))
			default:
				r = blob.RefFromHash(hashOf("sha256", data))
			}
			if !seen[r] {
				seen[r] = true
				all = append(all, r)
			}
		}
		sort.Slice(all, func(i, j int) bool { return all[i].String() < all[j].String() })
		var src, dst, want []blob.Ref
		for _, r := range all {
			switch rapid.IntRange(0, 2).Draw(t, "where") {
			case 0:
				src, want = append(src, r), append(want, r)
			case 1:
				dst = append(dst, r)
			default:
				src, dst = append(src, r), append(dst, r)
			}
		}
		feed := func(l []blob.Ref) <-chan blob.SizedRef {
			ch := make(chan blob.SizedRef, len(l))
			for _, r := range l {
				ch <- blob.SizedRef{Ref: r, Size: 1}
			}
			close(ch)
			return ch
		}
		out := make(chan blob.SizedRef, len(all)+1)
		blobserver.ListMissingDestinationBlobs(out, func(blob.Ref) {}, feed(src), feed(dst))
		var got []blob.Ref
		for sb := range out {
			got = append(got, sb.Ref)
		}
		evid.R.Eval()
		mixed := map[string]bool{}
		for _, r := range all {
			mixed[r.HashName()] = true
		}
		if len(mixed) >= 2 && len(src) > 0 && len(dst) > 0 {
			evid.R.NonTrivial(evid.Hash("merge", fmt.Sprint(src), fmt.Sprint(dst)))
			evid.R.Label("order/merge-join-over-mixed-hash-enumerations")
		}
		if fmt.Sprint(got) != fmt.Sprint(want) {
			t.Fatalf("C20 violated: ListMissingDestinationBlobs over two enumerations in text order reports %v as missing at the destination; source minus destination is %v\nsource:      %v\ndestination: %v", got, want, src, dst)
		}
	})
}

func hashOf(name string, data []byte) hash.Hash {
	var h hash.Hash
	switch name {
	case "sha1":
		h = sha1.New()
	case "sha224":
		h = sha256.New224()
	default:
		h = sha256.New()
	}
	h.Write(data)
	return h
}
