// C03 — disk stores survive a crash at any instant without losing or tearing blobs.
//
// Two halves:
//   - files (the store behind localdisk) over the harness VFS (internal/vvfs): every prefix of the
//     VFS-call log of the last operation of a generated history, combined with every loss mode for
//     unsynced bytes, is materialised as a crash state;
//   - diskpacked over a real directory with the harness KV as its index: the harness observes (through
//     the KV hooks) in which order pack bytes and index rows are written by the last operation and
//     materialises every torn append, every observed intermediate state and every subset of the
//     effects of a removal.
package c03

import (
	"context"
	"fmt"
	"path"
	"strings"
	"testing"

	"perkeep.org/pkg/blob"
	"perkeep.org/pkg/blobserver"
	"perkeep.org/pkg/blobserver/files"
	"pgregory.net/rapid"

	"verifharness/internal/evid"
	"verifharness/internal/vgen"
	"verifharness/internal/vmodel"
	"verifharness/internal/vvfs"
)

const prop = "C03"

func TestMain(m *testing.M) {
	evid.Main(m, prop, "fault_enumeration",
		"rapid histories of receive / failing receive / remove(batch) / reopen over a pool of 3-8 blobs (0 B - 4 KiB; sha1/sha224/sha256); the LAST operation is cut by a crash and every crash state of it is ENUMERATED inside the case. "+
			"files half (files.NewStorage over the harness VFS): crash index k = every prefix of the VFS call log of the last operation (mkdir per component, temp create, each write, sync, close, rename, unlink) x loss of unsynced bytes in {all kept, only the fsynced prefix, +1 byte, half, all but 1, independent per-file cut}; "+
			"diskpacked half (real directory, harness KV as index, maxFileSize 60..4000 so packs roll over): (i) the written pack truncated to S for S at every byte of the '[ref size]' header (quick: every byte in 1 history of 5, else 8-9 spread positions) and {0,1,mid,last-1} of the body (every byte for bodies <= 64 B) with the index/directory state OBSERVED to be current at that length, (ii) the directory+index snapshots taken at every index mutation of the operation, (iii) for removals all 8^n subsets of {header x-ed, body zeroed, index row deleted} (n<=2 blobs per batch). "+
			"Every crash state is restarted (files.NewStorage / CreateStorage(\"diskpacked\") on a copy) and compared with the reference map: fetch+stat+enumerate+paging+subfetch battery, StreamBlobs hashes, further receives (re-receive of the in-flight blob, a new blob landing behind a torn tail), diskpacked.Reindex(overwrite) into an empty index before and after those receives followed by index == acknowledged set and the battery again. "+
			"non-trivial = crash point strictly inside the operation (after its first and before its last durable effect) AND >= 1 blob acknowledged before; distinct = FNV-64 of (backend, history incl. pool, crash index / truncation length / snapshot / subset, loss mode)")
}

var ctx = context.Background()

// ---------------------------------------------------------------------------
// shared: histories

type histOp struct {
	Kind   string `json:"op"` // receive | receive-fail | remove | reopen
	Blobs  []int  `json:"blobs,omitempty"`
	Reader string `json:"reader,omitempty"`
	FailAt int    `json:"source_fails_after_bytes,omitempty"`
}

func (o histOp) String() string {
	switch o.Kind {
	case "receive":
		return fmt.Sprintf("receive #%d reader=%s", o.Blobs[0], o.Reader)
	case "receive-fail":
		return fmt.Sprintf("receive #%d source fails after %d bytes", o.Blobs[0], o.FailAt)
	case "remove":
		return fmt.Sprintf("remove %v", o.Blobs)
	}
	return o.Kind
}

// genOp draws one operation. presentHint biases towards operations that have an effect.
func genOp(t *rapid.T, pool []vgen.Blob, m *vmodel.Map, last, allowFail bool, maxBatch int) histOp {
	return genOpW(t, pool, m, last, allowFail, maxBatch, rapid.IntRange(0, 10).Draw(t, "opKind"))
}

// genOpW is genOp with the kind weight given (0-5 receive, 6-8 remove, 9 failing receive, 10 reopen).
func genOpW(t *rapid.T, pool []vgen.Blob, m *vmodel.Map, last, allowFail bool, maxBatch int, w int) histOp {
	var present, absent []int
	for i, b := range pool {
		if m.State(b.Ref) == vmodel.Present {
			present = append(present, i)
		} else {
			absent = append(absent, i)
		}
	}
	pickFrom := func(prefer, other []int, label string) int {
		if len(prefer) > 0 && (len(other) == 0 || rapid.IntRange(0, 9).Draw(t, label+"Pref") < 8) {
			return prefer[rapid.IntRange(0, len(prefer)-1).Draw(t, label)]
		}
		return other[rapid.IntRange(0, len(other)-1).Draw(t, label)]
	}
	switch {
	case w <= 5 || len(present) == 0: // receive, mostly of a blob that is not there
		i := pickFrom(absent, present, "recvBlob")
		kinds := []string{"whole", "half", "frags", "dataeof"}
		if len(pool[i].Data) <= 24 {
			kinds = append(kinds, "onebyte")
		}
		return histOp{Kind: "receive", Blobs: []int{i}, Reader: rapid.SampledFrom(kinds).Draw(t, "reader")}
	case w <= 8: // remove, mostly of present blobs
		n := rapid.IntRange(1, maxBatch).Draw(t, "rmBatch")
		seen := map[int]bool{}
		var idx []int
		for try := 0; len(idx) < n && try < 3*n; try++ {
			i := pickFrom(present, absent, "rmBlob")
			if !seen[i] {
				seen[i] = true
				idx = append(idx, i)
			}
		}
		return histOp{Kind: "remove", Blobs: idx}
	case w == 9 && allowFail:
		i := pickFrom(absent, present, "failBlob")
		if len(pool[i].Data) == 0 {
			return histOp{Kind: "receive", Blobs: []int{i}, Reader: "whole"}
		}
		return histOp{Kind: "receive-fail", Blobs: []int{i}, FailAt: rapid.IntRange(0, len(pool[i].Data)-1).Draw(t, "failAt")}
	default:
		if last {
			i := pickFrom(absent, present, "recvBlob")
			return histOp{Kind: "receive", Blobs: []int{i}, Reader: "whole"}
		}
		return histOp{Kind: "reopen"}
	}
}

func opStrings(ops []histOp) []string {
	out := make([]string, len(ops))
	for i, o := range ops {
		out[i] = o.String()
	}
	return out
}

func poolStrings(pool []vgen.Blob) []string {
	out := make([]string, len(pool))
	for i, b := range pool {
		out[i] = fmt.Sprintf("#%d %s", i, b)
	}
	return out
}

// applyAck updates the model for a COMPLETED (acknowledged) operation.
func applyAck(m *vmodel.Map, pool []vgen.Blob, op histOp) {
	switch op.Kind {
	case "receive":
		b := pool[op.Blobs[0]]
		m.SetPresent(b.Ref, b.Data)
	case "remove":
		for _, i := range op.Blobs {
			m.SetAbsent(pool[i].Ref)
		}
	}
}

// applyInflight updates the model for an operation that was cut by a crash:
// a blob that was acknowledged before stays present under a (re-)receive, a
// blob that was absent stays absent under a removal; everything else the
// operation touches becomes Maybe (absent, or present with exactly its bytes).
func applyInflight(m *vmodel.Map, pool []vgen.Blob, op histOp) (touched []blob.Ref) {
	for _, i := range op.Blobs {
		b := pool[i]
		touched = append(touched, b.Ref)
		switch op.Kind {
		case "receive", "receive-fail":
			if m.State(b.Ref) != vmodel.Present {
				m.SetMaybe(b.Ref, b.Data)
			}
		case "remove":
			if m.State(b.Ref) == vmodel.Present {
				m.SetMaybe(b.Ref, b.Data)
			}
		}
	}
	return touched
}

func knowAll(m *vmodel.Map, pool []vgen.Blob) {
	for _, b := range pool {
		m.Know(b.Ref, b.Data)
	}
}

var neverStored = vgen.RefOf("sha224", []byte("c03-never-stored"))

// ---------------------------------------------------------------------------
// files half

const filesRoot = "/blobs"

type lossMode struct {
	name string
	f    vvfs.Loss
}

func execFiles(sto *files.Storage, pool []vgen.Blob, op histOp, seq int) error {
	switch op.Kind {
	case "receive":
		b := pool[op.Blobs[0]]
		sb, err := sto.ReceiveBlob(ctx, b.Ref, vgen.NewReader(op.Reader, b.Data, uint64(seq)))
		if err != nil {
			return fmt.Errorf("ReceiveBlob(%s) failed without any fault: %v", b, err)
		}
		if sb.Ref != b.Ref || int(sb.Size) != len(b.Data) {
			return fmt.Errorf("ReceiveBlob(%s) acknowledged %v", b, sb)
		}
	case "receive-fail":
		b := pool[op.Blobs[0]]
		if _, err := sto.ReceiveBlob(ctx, b.Ref, vgen.NewErrReader(b.Data, op.FailAt)); err == nil {
			return fmt.Errorf("ReceiveBlob(%s) succeeded although its source failed after %d bytes", b, op.FailAt)
		}
	case "remove":
		var refs []blob.Ref
		for _, i := range op.Blobs {
			refs = append(refs, pool[i].Ref)
		}
		if err := sto.RemoveBlobs(ctx, refs); err != nil {
			return fmt.Errorf("RemoveBlobs(%v) failed without any fault: %v", op.Blobs, err)
		}
	}
	return nil
}

// datInvariant: every *.dat in the tree has a parseable blobref name and bytes hashing to it
// (any such file is visible through Fetch of that ref).
func datInvariant(fs *vvfs.FS) error {
	for _, e := range fs.Tree() {
		if e.Dir || !strings.HasSuffix(e.Path, ".dat") {
			continue
		}
		name := strings.TrimSuffix(path.Base(e.Path), ".dat")
		ref, ok := blob.Parse(name)
		if !ok {
			return fmt.Errorf("file %s: name is not a blobref", e.Path)
		}
		h := ref.Hash()
		h.Write(e.Data)
		if !ref.HashMatches(h) {
			return fmt.Errorf("file %s holds %d bytes that do not hash to its name (a torn or foreign blob under a final name)", e.Path, len(e.Data))
		}
	}
	return nil
}

// checkFilesState restarts the store over one crash state and runs the oracle.
func checkFilesState(cfs *vvfs.FS, m *vmodel.Map, pool []vgen.Blob, rereceive []int, seq int) error {
	if err := datInvariant(cfs); err != nil {
		return fmt.Errorf("after restart: %v", err)
	}
	sto := files.NewStorage(cfs, filesRoot)
	if err := m.Battery(ctx, sto, []blob.Ref{neverStored}, 3); err != nil {
		return fmt.Errorf("after restart: %w", err)
	}
	// further operations: the client retries the in-flight blob, other blobs arrive
	for j, i := range rereceive {
		b := pool[i]
		kind := vgen.ReaderKinds[(seq+j)%len(vgen.ReaderKinds)]
		if kind == "onebyte" && len(b.Data) > 64 {
			kind = "frags"
		}
		sb, err := sto.ReceiveBlob(ctx, b.Ref, vgen.NewReader(kind, b.Data, uint64(seq+j)))
		if err != nil {
			return fmt.Errorf("after restart: ReceiveBlob(%s) failed: %v", b, err)
		}
		if sb.Ref != b.Ref || int(sb.Size) != len(b.Data) {
			return fmt.Errorf("after restart: ReceiveBlob(%s) acknowledged %v", b, sb)
		}
		m.SetPresent(b.Ref, b.Data)
	}
	if err := m.Battery(ctx, sto, []blob.Ref{neverStored}, 2); err != nil {
		return fmt.Errorf("after restart and further receives %v: %w", rereceive, err)
	}
	if err := datInvariant(cfs); err != nil {
		return fmt.Errorf("after restart and further receives: %v", err)
	}
	return nil
}

func runFilesCase(t *rapid.T) {
	pool := vgen.GenPool(t, 3, 8, false)
	nOps := rapid.IntRange(2, evid.Pick(7, 11)).Draw(t, "nOps")
	fs := vvfs.New()
	if err := fs.MkdirAll(filesRoot, 0o700); err != nil {
		t.Fatalf("harness: %v", err)
	}
	sto := files.NewStorage(fs, filesRoot)
	m := vmodel.New()
	knowAll(m, pool)
	var ops []histOp
	fail := func(f string, a ...any) {
		t.Helper()
		t.Fatalf("C03 violated (files): %s\npool:\n  %s\nhistory:\n  %s", fmt.Sprintf(f, a...), strings.Join(poolStrings(pool), "\n  "), strings.Join(opStrings(ops), "\n  "))
	}
	for i := 0; i < nOps-1; i++ {
		op := genOp(t, pool, m, false, true, 3)
		ops = append(ops, op)
		if op.Kind == "reopen" {
			sto = files.NewStorage(fs, filesRoot)
			continue
		}
		if err := execFiles(sto, pool, op, i); err != nil {
			fail("%v", err)
		}
		applyAck(m, pool, op)
	}
	last := genOp(t, pool, m, true, true, 3)
	ops = append(ops, last)
	extraIdx := rapid.IntRange(0, len(pool)-1).Draw(t, "laterBlob")
	lossSeed := rapid.Uint64Range(1, 1<<30).Draw(t, "lossSeed")
	acked := m.NumPresent()
	pre := m.Clone()
	start := fs.LogLen()
	if err := execFiles(sto, pool, last, nOps-1); err != nil {
		fail("%v", err)
	}
	end := fs.LogLen()
	// baseline: without a crash the completed history matches the model
	applyAck(m, pool, last)
	if err := m.Battery(ctx, sto, []blob.Ref{neverStored}, 3); err != nil {
		fail("without any crash: %v", err)
	}
	if err := datInvariant(fs); err != nil {
		fail("without any crash: %v", err)
	}
	log := fs.Log()
	histHash := evid.Hash("files", strings.Join(poolStrings(pool), "|"), strings.Join(opStrings(ops), "|"))
	modes := []lossMode{{"keep-all", vvfs.KeepAll}, {"synced-only", vvfs.SyncedOnly}, {"synced+1", vvfs.KeepExtra(1)}, {"half", vvfs.KeepHalf}, {"all-but-1", vvfs.KeepExtra(-1)}, {fmt.Sprintf("per-file(%d)", lossSeed), vvfs.PerFile(lossSeed)}}
	evid.R.Label("files/last-op/" + last.Kind)
	evid.R.Label(fmt.Sprintf("files/acked-before-crash/%d", min(acked, 4)))
	states, ntStates := 0, 0
	var stateDescs []string
	for k := start; k <= end; k++ {
		seenCut := map[string]bool{}
		ms := modes
		if fs.UnsyncedAt(k) == 0 {
			ms = []lossMode{{"nothing-unsynced", nil}}
		}
		for _, lm := range ms {
			cfs, cuts := fs.CrashAt(k, lm.f)
			sig := fmt.Sprint(cuts)
			if seenCut[sig] {
				continue
			}
			seenCut[sig] = true
			cm := pre.Clone()
			applyInflight(cm, pool, last)
			rere := append([]int(nil), last.Blobs...)
			if last.Kind == "remove" {
				rere = rere[:1]
			}
			if extraIdx != rere[0] {
				rere = append(rere, extraIdx)
			}
			states++
			evid.R.Eval()
			inside := k > start && k < end
			nt := inside && acked >= 1
			evid.R.Label("files/crash-state/" + map[bool]string{true: "inside-operation", false: "at-boundary"}[inside])
			if len(cuts) > 0 {
				evid.R.Label("files/loss/" + strings.SplitN(lm.name, "(", 2)[0])
				for _, c := range cuts {
					if c.Kept < c.Total {
						evid.R.Label("files/crash-state/unsynced-bytes-dropped")
						break
					}
				}
			}
			if k > start {
				evid.R.Label("files/crash-after/" + log[k-1].Kind)
			}
			if nt {
				ntStates++
				evid.R.NonTrivial(evid.Hash(histHash, k-start, lm.name))
			}
			if len(stateDescs) < 40 {
				stateDescs = append(stateDescs, fmt.Sprintf("k=%d loss=%s", k-start, lm.name))
			}
			if err := checkFilesState(cfs, cm, pool, rere, k); err != nil {
				var lastLog []string
				for i := start; i < end; i++ {
					mark := "   "
					if i == k {
						mark = ">>>"
					}
					lastLog = append(lastLog, fmt.Sprintf("%s %d: %s", mark, i-start, log[i]))
				}
				if k == end {
					lastLog = append(lastLog, ">>> (after the last call)")
				}
				fail("%v\ncrash before VFS call #%d of the last operation (>>>), loss mode %s, dropped: %+v\nVFS calls of the last operation:\n  %s\ntree right after the crash:\n  %s",
					err, k-start, lm.name, cuts, strings.Join(lastLog, "\n  "), strings.Join(mustCrash(fs, k, lm.f).Describe(), "\n  "))
			}
		}
	}
	evid.R.LabelN("files/crash-states", states)
	evid.R.Label(fmt.Sprintf("files/crash-states-per-history/%s", bucket(states)))
	if (ntStates == 0 || filesNTSamples < 2) && evid.R.WantSample(ntStates > 0) {
		if ntStates > 0 {
			filesNTSamples++
		}
		var lastLog []string
		for i := start; i < end; i++ {
			lastLog = append(lastLog, log[i].String())
		}
		evid.R.Sample(ntStates > 0, map[string]any{"half": "files", "pool": poolStrings(pool), "history": opStrings(ops), "vfs_calls_of_last_operation": lastLog, "crash_states_checked": stateDescs, "crash_states": states, "nontrivial_crash_states": ntStates})
	}
}

// filesNTSamples leaves room in the evidence samples for the diskpacked half.
var filesNTSamples int

func mustCrash(fs *vvfs.FS, k int, l vvfs.Loss) *vvfs.FS {
	c, _ := fs.CrashAt(k, l)
	return c
}

func bucket(n int) string {
	switch {
	case n <= 2:
		return "1-2"
	case n <= 8:
		return "3-8"
	case n <= 20:
		return "9-20"
	case n <= 50:
		return "21-50"
	case n <= 100:
		return "51-100"
	}
	return ">100"
}

func TestFilesCrashAtEveryVFSCall(t *testing.T) {
	evid.R.Assume("files half, power-loss model: directory operations (mkdir, create, rename, unlink) are durable in issue order (ordered metadata journal); file data is durable only up to the last fsync of that file, any prefix of the unsynced bytes may survive; no other corruption of synced data")
	evid.Check(t, 900, 4000, runFilesCase)
	if !t.Failed() {
		evid.R.Exhaustive("files: per history every prefix of the VFS call log of the last operation x 6 loss modes for unsynced bytes")
	}
}

var _ blobserver.Storage = (*files.Storage)(nil)
