package c03

import (
	"bytes"
	"errors"
	"fmt"
	"io"
	"os"
	"path/filepath"
	"regexp"
	"sort"
	"strconv"
	"strings"
	"sync"
	"testing"

	"go4.org/jsonconfig"
	"perkeep.org/pkg/blob"
	"perkeep.org/pkg/blobserver"
	"perkeep.org/pkg/blobserver/diskpacked"
	"pgregory.net/rapid"

	"verifharness/internal/evid"
	"verifharness/internal/known"
	"verifharness/internal/vgen"
	"verifharness/internal/vmodel"
	"verifharness/internal/vstore"
)

// ---------------------------------------------------------------------------
// diskpacked half

// tmpBase prefers a tmpfs: diskpacked fsyncs every append, and durability of an
// fsync is outside what the harness can observe anyway (see the assumption).
func tmpBase() string {
	if v := os.Getenv("VERIF_TMPDIR"); v != "" {
		return v
	}
	if fi, err := os.Stat("/dev/shm"); err == nil && fi.IsDir() {
		if f, err := os.CreateTemp("/dev/shm", "verif-probe-"); err == nil {
			f.Close()
			os.Remove(f.Name())
			return "/dev/shm"
		}
	}
	return ""
}

type dirSnap map[string][]byte

func readDir(dir string) dirSnap {
	out := dirSnap{}
	ents, err := os.ReadDir(dir)
	if err != nil {
		return out
	}
	for _, e := range ents {
		if e.Type().IsRegular() {
			b, err := os.ReadFile(filepath.Join(dir, e.Name()))
			if err == nil {
				out[e.Name()] = b
			}
		}
	}
	return out
}

func (d dirSnap) clone() dirSnap {
	out := make(dirSnap, len(d))
	for k, v := range d {
		out[k] = v
	}
	return out
}

func (d dirSnap) describe() []string {
	var names []string
	for k := range d {
		names = append(names, k)
	}
	sort.Strings(names)
	var out []string
	for _, n := range names {
		if strings.HasPrefix(n, "pack-") && strings.HasSuffix(n, ".blobs") {
			out = append(out, fmt.Sprintf("%s (%d bytes): %s", n, len(d[n]), renderPack(d[n])))
		} else {
			out = append(out, fmt.Sprintf("%s (%d bytes)", n, len(d[n])))
		}
	}
	return out
}

var hdrRe = regexp.MustCompile(`^\[([a-z0-9]+-[0-9a-f]+) (\d+)\]`)

// renderPack prints a pack as a sequence of headers and body lengths (for case dumps only).
func renderPack(b []byte) string {
	var sb strings.Builder
	pos := 0
	for pos < len(b) {
		m := hdrRe.FindSubmatch(b[pos:])
		if m == nil {
			fmt.Fprintf(&sb, "@%d:<%d unparseable bytes %q>", pos, len(b)-pos, clip(b[pos:], 90))
			break
		}
		n, _ := strconv.Atoi(string(m[2]))
		ref := string(m[1])
		if len(ref) > 16 {
			ref = ref[:16] + "…"
		}
		have := len(b) - pos - len(m[0])
		if have < n {
			fmt.Fprintf(&sb, "@%d:[%s %d]+ONLY %d body bytes", pos, ref, n, have)
			break
		}
		fmt.Fprintf(&sb, "@%d:[%s %d] ", pos, ref, n)
		pos += len(m[0]) + n
	}
	return sb.String()
}

func clip(b []byte, n int) []byte {
	if len(b) > n {
		return b[:n]
	}
	return b
}

func writeDir(dir string, d dirSnap) error {
	if err := os.MkdirAll(dir, 0o755); err != nil {
		return err
	}
	for name, b := range d {
		if err := os.WriteFile(filepath.Join(dir, name), b, 0o644); err != nil {
			return err
		}
	}
	return nil
}

func kvClone(m map[string]string) map[string]string {
	out := make(map[string]string, len(m))
	for k, v := range m {
		out[k] = v
	}
	return out
}

// obs is one observation of (directory, index) during the last operation.
type obs struct {
	label string
	dir   dirSnap
	kv    map[string]string
}

// dpState is one crash state to restart from.
type dpState struct {
	Class  string // torn-header | torn-body | data-complete-unindexed | snapshot | removal-subset
	Desc   string
	Dir    dirSnap
	KV     map[string]string
	Inside bool
	// Strict: the state was observed while the real code ran (it is not a synthetic subset of effects), so
	// a blob whose removal was in flight must be absent or intact, never present with other bytes.
	Strict bool
	// torn appends only:
	TornPack string
	TornAt   int64  // offset of the torn header in TornPack
	TornLen  int64  // pack length in the crash state
	Key      string // canonical identity of the state inside its history
}

type dpCase struct {
	t       *rapid.T
	env     *vstore.Env
	base    string // case temp dir
	maxSize int
	pool    []vgen.Blob
	ops     []histOp
	kvSeq   int
	dirSeq  int
}

func (c *dpCase) open(dir, kvName string) (blobserver.Storage, error) {
	vstore.SetCurrent(c.env)
	return blobserver.CreateStorage("diskpacked", nil, jsonconfig.Obj{
		"path": dir, "maxFileSize": float64(c.maxSize), "metaIndex": map[string]any(vstore.KVConf(kvName)),
	})
}

func (c *dpCase) newKV(rows map[string]string) string {
	c.kvSeq++
	name := fmt.Sprintf("idx%d", c.kvSeq)
	kv := c.env.NewKV(name)
	for k, v := range rows {
		kv.Inner().Set(k, v)
	}
	return name
}

func (c *dpCase) dropKV(name string) {
	delete(c.env.KVs, name)
}

func closeSto(s blobserver.Storage) {
	if cl, ok := s.(io.Closer); ok {
		cl.Close()
	}
}

func execDP(sto blobserver.Storage, pool []vgen.Blob, op histOp, seq int) error {
	switch op.Kind {
	case "receive":
		b := pool[op.Blobs[0]]
		sb, err := sto.ReceiveBlob(ctx, b.Ref, vgen.NewReader(op.Reader, b.Data, uint64(seq)))
		if err != nil {
			return fmt.Errorf("ReceiveBlob(%s) failed without any fault: %v", b, err)
		}
		if sb.Ref != b.Ref || int(sb.Size) != len(b.Data) {
			return fmt.Errorf("ReceiveBlob(%s) acknowledged %v", b, sb)
		}
	case "remove":
		var refs []blob.Ref
		for _, i := range op.Blobs {
			refs = append(refs, pool[i].Ref)
		}
		if err := sto.RemoveBlobs(ctx, refs); err != nil {
			return fmt.Errorf("RemoveBlobs(%v) failed without any fault: %v", op.Blobs, err)
		}
	}
	return nil
}

type streamed struct {
	ref   blob.Ref
	data  []byte
	token string
}

func streamAll(sto blobserver.Storage) ([]streamed, error, bool) {
	bs, ok := sto.(blobserver.BlobStreamer)
	if !ok {
		return nil, nil, false
	}
	ch := make(chan blobserver.BlobAndToken, 16)
	errc := make(chan error, 1)
	go func() { errc <- bs.StreamBlobs(ctx, ch, "") }()
	var out []streamed
	for bt := range ch {
		r, err := bt.Blob.ReadAll(ctx)
		var data []byte
		if err == nil {
			data, _ = io.ReadAll(r)
		}
		out = append(out, streamed{bt.Blob.Ref(), data, bt.Token})
	}
	return out, <-errc, true
}

func hashesTo(ref blob.Ref, data []byte) bool {
	h := ref.Hash()
	if h == nil {
		return false
	}
	h.Write(data)
	return ref.HashMatches(h)
}

// violation is a structured oracle failure of the diskpacked half.
type violation struct {
	Stage string // restart | reindex-1 | after-receives | reindex-2
	Kind  string // open | battery | stream-hash | reindex-error | index-set | receive
	Ref   string
	Msg   string
	Err   error
}

func (v *violation) Error() string { return fmt.Sprintf("[%s/%s] %s", v.Stage, v.Kind, v.Msg) }

// pinUnconstrained makes the model accept whatever the store says about refs
// whose REMOVAL was in flight (the statement does not constrain them).
func pinUnconstrained(sto blobserver.Storage, m *vmodel.Map, refs []blob.Ref, strict bool) (odd bool, torn *violation) {
	for _, r := range refs {
		rc, size, err := sto.Fetch(ctx, r)
		if err != nil {
			if vmodel.IsNotExist(err) {
				m.SetAbsent(r)
				continue
			}
			return true, nil
		}
		data, rerr := io.ReadAll(rc)
		rc.Close()
		if rerr != nil || int(size) != len(data) {
			return true, nil
		}
		if strict && !hashesTo(r, data) {
			// a crash state the real code went through (not a synthetic subset): the blob whose removal
			// was in flight is served as a present blob, but with bytes that are not the blob
			return false, &violation{Kind: "removal-torn", Ref: r.String(),
				Msg: fmt.Sprintf("the blob %s, whose removal was in flight at the crash, is fetched as a present blob of %d bytes %q that do not hash to its ref", r, len(data), clip(data, 60))}
		}
		m.SetPresent(r, data)
	}
	return false, nil
}

// checkIndexSet: after Reindex the index holds exactly the acknowledged,
// non-removed blobs; `optional` (in-flight receive, in-flight removal) may be there too.
func checkIndexSet(rows map[string]string, m *vmodel.Map, optional map[blob.Ref]bool) (string, error) {
	want := map[string]bool{}
	for _, e := range m.Entries() {
		switch {
		case optional[e.Ref]:
		case e.State == vmodel.Present:
			want[e.Ref.String()] = true
			if _, ok := rows[e.Ref.String()]; !ok {
				return e.Ref.String(), fmt.Errorf("acknowledged blob %s (%d bytes) is missing from the rebuilt index", e.Ref, len(e.Data))
			}
		}
	}
	var keys []string
	for k := range rows {
		keys = append(keys, k)
	}
	sort.Strings(keys)
	for _, k := range keys {
		if want[k] {
			continue
		}
		ref, ok := blob.Parse(k)
		if !ok {
			return "", fmt.Errorf("rebuilt index has the unparseable key %q", k)
		}
		if optional[ref] {
			continue
		}
		return k, fmt.Errorf("rebuilt index contains %s (row %q), which is not in the acknowledged, non-removed set", k, rows[k])
	}
	return "", nil
}

// checkDPState runs the whole oracle on one crash state. unconstrained = refs
// whose removal was in flight; inflight = refs whose receive was in flight.
func (c *dpCase) checkDPState(st *dpState, pre *vmodel.Map, last histOp, laterBlobs []vgen.Blob, excuse func(*violation) bool) *violation {
	c.dirSeq++
	dir := filepath.Join(c.base, fmt.Sprintf("s%d", c.dirSeq))
	if err := writeDir(dir, st.Dir); err != nil {
		c.t.Fatalf("VERIF-INCONCLUSIVE: materialise crash state: %v", err)
	}
	defer os.RemoveAll(dir)
	var kvs []string
	defer func() {
		for _, n := range kvs {
			c.dropKV(n)
		}
	}()
	newKV := func(rows map[string]string) string {
		n := c.newKV(rows)
		kvs = append(kvs, n)
		return n
	}
	var unconstrained []blob.Ref
	optional := map[blob.Ref]bool{}
	var inflightRecv []vgen.Blob
	for _, i := range last.Blobs {
		b := c.pool[i]
		switch last.Kind {
		case "remove":
			if pre.State(b.Ref) == vmodel.Present {
				unconstrained = append(unconstrained, b.Ref)
				optional[b.Ref] = true
			}
		case "receive":
			if pre.State(b.Ref) != vmodel.Present {
				optional[b.Ref] = true
			}
			inflightRecv = append(inflightRecv, b)
		}
	}
	model := func() *vmodel.Map {
		m := pre.Clone()
		if last.Kind == "receive" {
			applyInflight(m, c.pool, last)
		}
		return m
	}
	battery := func(stage string, sto blobserver.Storage, m *vmodel.Map, page int) *violation {
		odd, torn := pinUnconstrained(sto, m, unconstrained, st.Strict)
		if torn != nil {
			torn.Stage = stage
			return torn
		}
		if odd {
			evid.R.Label("diskpacked/removal-inflight/blob-in-odd-state")
			for _, r := range unconstrained {
				m.SetAbsent(r)
			}
			// the in-flight removal left its blob in a state that is neither absent nor a consistent
			// present blob: check every other blob one by one, without the enumeration
			for _, e := range m.Entries() {
				if optional[e.Ref] && last.Kind == "remove" {
					continue
				}
				if err := m.CheckFetch(ctx, sto, e.Ref); err != nil {
					return &violation{Stage: stage, Kind: "battery", Msg: err.Error(), Err: err}
				}
			}
			return nil
		}
		if err := m.Battery(ctx, sto, []blob.Ref{neverStored}, page); err != nil {
			if err == vmodel.ErrTimeout {
				c.t.Fatalf("VERIF-INCONCLUSIVE: watchdog timeout in the battery")
			}
			v := &violation{Stage: stage, Kind: "battery", Msg: err.Error(), Err: err}
			var mm *vmodel.Mismatch
			if errors.As(err, &mm) {
				v.Ref = mm.Ref
			}
			return v
		}
		return nil
	}
	streamCheck := func(stage string, sto blobserver.Storage, m *vmodel.Map) *violation {
		got, serr, ok := streamAll(sto)
		if !ok {
			return nil
		}
		evid.R.Label("diskpacked/stream/" + map[bool]string{true: "completed", false: "ended-with-error"}[serr == nil])
		isUnc := map[blob.Ref]bool{}
		for _, r := range unconstrained {
			isUnc[r] = true
		}
		for _, s := range got {
			if isUnc[s.ref] && !st.Strict {
				continue
			}
			if !hashesTo(s.ref, s.data) {
				return &violation{Stage: stage, Kind: "stream-hash", Ref: s.ref.String(),
					Msg: fmt.Sprintf("StreamBlobs presented %s (token %q) with %d bytes %q that do not hash to that ref (stream error afterwards: %v)", s.ref, s.token, len(s.data), clip(s.data, 60), serr)}
			}
		}
		return nil
	}
	reindex := func(stage string, m *vmodel.Map) *violation {
		name := newKV(nil)
		vstore.SetCurrent(c.env)
		err := diskpacked.Reindex(ctx, dir, true, jsonconfig.Obj(vstore.KVConf(name)))
		if err != nil {
			return &violation{Stage: stage, Kind: "reindex-error", Msg: fmt.Sprintf("diskpacked.Reindex(overwrite) over the pack files failed: %v", err), Err: err}
		}
		rows := c.env.NewKV(name).Dump()
		sto, err := c.open(dir, name)
		if err != nil {
			return &violation{Stage: stage, Kind: "open", Msg: fmt.Sprintf("cannot open the store over the rebuilt index: %v", err), Err: err}
		}
		defer closeSto(sto)
		// battery first: it pins the Maybe entries (an intact in-flight blob may be indexed)
		if v := battery(stage, sto, m, 2); v != nil {
			return v
		}
		if ref, err := checkIndexSet(rows, m, optional); err != nil {
			return &violation{Stage: stage, Kind: "index-set", Ref: ref, Msg: err.Error()}
		}
		return nil
	}

	// 0. an administrator rebuilds the index from the untouched crash state (own copy of the
	// directory: opening the store may repair the packs)
	c.dirSeq++
	dirA := filepath.Join(c.base, fmt.Sprintf("s%da", c.dirSeq))
	if err := writeDir(dirA, st.Dir); err != nil {
		c.t.Fatalf("VERIF-INCONCLUSIVE: materialise crash state: %v", err)
	}
	dirB := dir
	dir = dirA
	v := reindex("reindex-0", model())
	os.RemoveAll(dirA)
	dir = dirB
	if v != nil && !excuse(v) {
		return v
	}
	// a. restart on the crash state
	idx := newKV(st.KV)
	sto, err := c.open(dir, idx)
	if err != nil {
		return &violation{Stage: "restart", Kind: "open", Msg: fmt.Sprintf("CreateStorage(diskpacked) on the crash state failed: %v", err), Err: err}
	}
	m := model()
	v = battery("restart", sto, m, 3)
	if v == nil {
		v = streamCheck("restart", sto, m)
	}
	closeSto(sto)
	if v != nil && !excuse(v) {
		return v
	}
	// b. the packs alone rebuild the index (no further writes yet)
	if v := reindex("reindex-1", model()); v != nil && !excuse(v) {
		return v
	}
	// c. the server continues on the crashed index: the client retries, new blobs arrive
	sto, err = c.open(dir, idx)
	if err != nil {
		return &violation{Stage: "after-receives", Kind: "open", Msg: fmt.Sprintf("second CreateStorage(diskpacked) failed: %v", err), Err: err}
	}
	m = model()
	var recv []vgen.Blob
	recv = append(recv, inflightRecv...)
	recv = append(recv, laterBlobs...)
	for j, b := range recv {
		sb, err := sto.ReceiveBlob(ctx, b.Ref, vgen.NewReader(vgen.ReaderKinds[j%len(vgen.ReaderKinds)], b.Data, uint64(j)))
		if err != nil || sb.Ref != b.Ref || int(sb.Size) != len(b.Data) {
			closeSto(sto)
			return &violation{Stage: "after-receives", Kind: "receive", Ref: b.Ref.String(), Msg: fmt.Sprintf("ReceiveBlob(%s) after the restart returned %v, %v", b, sb, err), Err: err}
		}
		m.SetPresent(b.Ref, b.Data)
		delete(optional, b.Ref)
	}
	v = battery("after-receives", sto, m, 2)
	if v == nil {
		v = streamCheck("after-receives", sto, m)
	}
	closeSto(sto)
	if v != nil && !excuse(v) {
		return v
	}
	// d. the packs alone rebuild the index, now with data behind the crash point
	m2 := m.Clone()
	for _, r := range unconstrained {
		m2.SetMaybe(r, nil)
	}
	if v := reindex("reindex-2", m2); v != nil && !excuse(v) {
		return v
	}
	return nil
}

// headerOf is the pack header diskpacked writes in front of a blob.
func headerOf(b vgen.Blob) []byte {
	return []byte(fmt.Sprintf("[%s %d]", b.Ref.String(), len(b.Data)))
}

// appendStates derives the crash states of a receive from the observations.
func appendStates(t *rapid.T, o []obs, x vgen.Blob) (states []*dpState, exhaustiveHeader bool, grew bool) {
	pre, post := o[0], o[len(o)-1]
	var w string
	for name, after := range post.dir {
		if !strings.HasPrefix(name, "pack-") || !strings.HasSuffix(name, ".blobs") {
			continue
		}
		before := pre.dir[name]
		if len(after) > len(before) && bytes.HasPrefix(after, before) {
			if w != "" {
				t.Fatalf("harness: a single receive grew two packs (%s, %s)", w, name)
			}
			w = name
		}
	}
	if w == "" {
		return nil, false, false
	}
	full := post.dir[w]
	P, Q := len(pre.dir[w]), len(full)
	hdr := headerOf(x)
	layoutKnown := bytes.Equal(full[P:min(Q, P+len(hdr))], hdr) && Q-P == len(hdr)+len(x.Data)
	hl := len(hdr)
	if !layoutKnown {
		hl = 0
	}
	type cut struct {
		s     int
		class string
	}
	var cuts []cut
	// header: every byte in thorough; a spread in quick
	if evid.Thorough() || hl == 0 || rapid.IntRange(0, 4).Draw(t, "everyHeaderByte") == 0 {
		for i := 1; i < hl; i++ {
			cuts = append(cuts, cut{P + i, "torn-header"})
		}
		exhaustiveHeader = hl > 0
	} else {
		pos := map[int]bool{1: true, 2: true, hl / 2: true, hl - 1: true, hl - 2: true}
		pos[len(x.Ref.HashName())+2] = true // right after the dash
		pos[1+len(x.Ref.String())] = true   // ref complete, no space yet
		pos[2+len(x.Ref.String())] = true   // ref and space, no size digit
		pos[rapid.IntRange(1, hl-1).Draw(t, "hdrCut")] = true
		var ps []int
		for p := range pos {
			if p >= 1 && p < hl {
				ps = append(ps, p)
			}
		}
		sort.Ints(ps)
		for _, p := range ps {
			cuts = append(cuts, cut{P + p, "torn-header"})
		}
	}
	body := Q - P - hl
	if body > 0 {
		var offs []int
		if body <= 64 {
			for j := 0; j < body; j++ {
				offs = append(offs, j)
			}
		} else {
			offs = []int{0, 1, body / 2, body - 1}
		}
		for _, j := range offs {
			if hl == 0 && j == 0 {
				continue
			}
			cuts = append(cuts, cut{P + hl + j, "torn-body"})
		}
	}
	baseFor := func(s int, strict bool) obs {
		b := o[0]
		for _, x := range o {
			n := len(x.dir[w])
			if n < s || (!strict && n == s) {
				b = x
			}
		}
		return b
	}
	for _, cu := range cuts {
		b := baseFor(cu.s, false)
		d := b.dir.clone()
		d[w] = full[:cu.s:cu.s]
		states = append(states, &dpState{
			Class: cu.class, Dir: d, KV: kvClone(b.kv), Inside: true, TornPack: w, TornAt: int64(P), TornLen: int64(cu.s),
			Desc: fmt.Sprintf("%s: %s cut at %d = %d of the %d appended bytes (header %d + body %d); directory and index as observed at %q", cu.class, w, cu.s, cu.s-P, Q-P, hl, body, b.label),
			Key:  fmt.Sprintf("trunc:%d", cu.s-P),
		})
	}
	// all bytes written, nothing else happened yet (before a roll-over / before the index row)
	b := baseFor(Q, true)
	d := b.dir.clone()
	d[w] = full
	states = append(states, &dpState{Class: "data-complete-unindexed", Dir: d, KV: kvClone(b.kv), Inside: true,
		Desc: fmt.Sprintf("data-complete: all %d bytes appended to %s; directory and index as observed at %q", Q-P, w, b.label), Key: "trunc:full"})
	return states, exhaustiveHeader, true
}

// snapshotStates: the states the harness observed at every index mutation.
func snapshotStates(o []obs) (states []*dpState) {
	same := func(a, b obs) bool {
		if len(a.kv) != len(b.kv) || len(a.dir) != len(b.dir) {
			return false
		}
		for k, v := range a.kv {
			if w, ok := b.kv[k]; !ok || w != v {
				return false
			}
		}
		for k, v := range a.dir {
			if w, ok := b.dir[k]; !ok || !bytes.Equal(v, w) {
				return false
			}
		}
		return true
	}
	for i, x := range o {
		// inside the operation = some effect is durable, but not all of them (observed, not assumed)
		inside := !same(x, o[0]) && !same(x, o[len(o)-1])
		states = append(states, &dpState{Class: "snapshot", Dir: x.dir.clone(), KV: kvClone(x.kv), Inside: inside, Strict: true,
			Desc: "snapshot observed at " + x.label, Key: fmt.Sprintf("snap:%d", i)})
	}
	return states
}

type rowT struct {
	pack      string
	off, size int
	hdrLen    int
}

func parseRow(ref blob.Ref, v string) (rowT, bool) {
	var file, off, size int
	if n, err := fmt.Sscan(v, &file, &off, &size); n != 3 || err != nil {
		return rowT{}, false
	}
	return rowT{pack: fmt.Sprintf("pack-%05d.blobs", file), off: off, size: size,
		hdrLen: 1 + len(ref.String()) + 1 + len(strconv.Itoa(size)) + 1}, true
}

// removalStates: every subset of the three effects of removing each blob, built from the
// bytes the real code wrote (copied from the post-operation snapshot).
func removalStates(t *rapid.T, o []obs, refs []blob.Ref) (states []*dpState) {
	pre, post := o[0], o[len(o)-1]
	var rows []rowT
	var live []blob.Ref
	for _, r := range refs {
		v, ok := pre.kv[r.String()]
		if !ok {
			continue
		}
		row, ok := parseRow(r, v)
		if !ok || row.off+row.size > len(pre.dir[row.pack]) || row.off-row.hdrLen < 0 || len(post.dir[row.pack]) != len(pre.dir[row.pack]) {
			t.Fatalf("harness: cannot locate %s (row %q) in the packs", r, v)
		}
		rows = append(rows, row)
		live = append(live, r)
	}
	n := len(live)
	if n == 0 {
		return nil
	}
	total := 1
	for i := 0; i < n; i++ {
		total *= 8
	}
	for code := 0; code < total; code++ {
		d := pre.dir.clone()
		kv := kvClone(pre.kv)
		copied := map[string]bool{}
		var parts []string
		x := code
		for i := 0; i < n; i++ {
			bits := x % 8
			x /= 8
			row := rows[i]
			if bits&3 != 0 && !copied[row.pack] {
				d[row.pack] = append([]byte(nil), d[row.pack]...)
				copied[row.pack] = true
			}
			if bits&1 != 0 {
				copy(d[row.pack][row.off-row.hdrLen:row.off], post.dir[row.pack][row.off-row.hdrLen:row.off])
			}
			if bits&2 != 0 {
				copy(d[row.pack][row.off:row.off+row.size], post.dir[row.pack][row.off:row.off+row.size])
			}
			if bits&4 != 0 {
				delete(kv, live[i].String())
			}
			parts = append(parts, fmt.Sprintf("%s{header-x-ed:%v body-zeroed:%v row-deleted:%v}", live[i].String()[:14], bits&1 != 0, bits&2 != 0, bits&4 != 0))
		}
		states = append(states, &dpState{Class: "removal-subset", Dir: d, KV: kv, Inside: code != 0 && code != total-1,
			Desc: "removal subset " + strings.Join(parts, " "), Key: fmt.Sprintf("rm:%d", code)})
	}
	return states
}

func runDPCase(t *rapid.T) {
	pool := vgen.GenPool(t, 3, 7, false)
	maxSize := rapid.SampledFrom([]int{60, 150, 400, 1000, 4000, 1 << 20}).Draw(t, "maxFileSize")
	nOps := rapid.IntRange(2, evid.Pick(6, 10)).Draw(t, "nOps")
	base, err := os.MkdirTemp(tmpBase(), "verif-c03-")
	if err != nil {
		t.Fatalf("VERIF-INCONCLUSIVE: mkdtemp: %v", err)
	}
	defer os.RemoveAll(base)
	env := vstore.NewEnv()
	c := &dpCase{t: t, env: env, base: base, maxSize: maxSize, pool: pool}
	live := filepath.Join(base, "live")
	if err := os.Mkdir(live, 0o755); err != nil {
		t.Fatalf("VERIF-INCONCLUSIVE: %v", err)
	}
	sto, err := c.open(live, "live")
	if err != nil {
		t.Fatalf("harness: cannot create diskpacked: %v", err)
	}
	defer func() { closeSto(sto) }()
	m := vmodel.New()
	knowAll(m, pool)
	fail := func(f string, a ...any) {
		t.Helper()
		t.Fatalf("C03 violated (diskpacked maxFileSize=%d): %s\npool:\n  %s\nhistory:\n  %s", maxSize, fmt.Sprintf(f, a...), strings.Join(poolStrings(pool), "\n  "), strings.Join(opStrings(c.ops), "\n  "))
	}
	for i := 0; i < nOps-1; i++ {
		op := genOp(t, pool, m, false, false, 2)
		c.ops = append(c.ops, op)
		if op.Kind == "reopen" {
			closeSto(sto)
			if sto, err = c.open(live, "live"); err != nil {
				fail("clean reopen failed: %v", err)
			}
			continue
		}
		if err := execDP(sto, pool, op, i); err != nil {
			fail("%v", err)
		}
		applyAck(m, pool, op)
	}
	// the last operation must have an effect: a receive of an absent blob or a removal of a present one
	last := genOpW(t, pool, m, true, false, 2, rapid.SampledFrom([]int{0, 0, 0, 7, 7}).Draw(t, "lastOpKind"))
	switch last.Kind {
	case "receive":
		if m.State(pool[last.Blobs[0]].Ref) == vmodel.Present {
			for i, b := range pool {
				if m.State(b.Ref) != vmodel.Present {
					last.Blobs = []int{i}
					break
				}
			}
		}
	}
	c.ops = append(c.ops, last)
	nLater := rapid.IntRange(1, 2).Draw(t, "laterBlobs")
	var later []vgen.Blob
	for i := 0; i < nLater; i++ {
		sz := rapid.SampledFrom([]int{0, 1, 9, 40, 200, 700}).Draw(t, "laterSize")
		d := vgen.Noise(uint64(1000+i*77+sz), sz)
		d = append(d, []byte(fmt.Sprintf("later-%d", i))...)
		later = append(later, vgen.Blob{Ref: vgen.RefOf([]string{"sha224", "sha1", "sha256"}[i%3], d), Data: d, Class: "later"})
	}
	acked := m.NumPresent()
	pre := m.Clone()
	kv := env.NewKV("live")
	observations := []obs{{label: "pre-op", dir: readDir(live), kv: kv.Dump()}}
	nMut := 0
	env.BeforeMut = func(e *vstore.Event) {
		if e.Layer != "kv:live" {
			return
		}
		nMut++
		observations = append(observations, obs{label: fmt.Sprintf("before index %s #%d", e.Op, nMut), dir: readDir(live), kv: kv.Dump()})
	}
	env.AfterHook = func(e *vstore.Event) {
		if e.Layer != "kv:live" || !e.Mutating {
			return
		}
		observations = append(observations, obs{label: fmt.Sprintf("after index %s #%d", e.Op, nMut), dir: readDir(live), kv: kv.Dump()})
	}
	restorePunch := func() {}
	if last.Kind == "remove" {
		// the data of a removed blob is erased by a hole punch: observe the pack right before and right
		// after it. Only for removals of one stored blob: several are erased concurrently, and a snapshot
		// taken while another goroutine writes is not a state of the disk at one instant.
		nLive := 0
		for _, i := range last.Blobs {
			if pre.State(pool[i].Ref) == vmodel.Present {
				nLive++
			}
		}
		if nLive == 1 {
			var pmu sync.Mutex
			snap := func(when string) func(string, int64, int64) {
				return func(pack string, off, size int64) {
					pmu.Lock()
					defer pmu.Unlock()
					observations = append(observations, obs{label: fmt.Sprintf("%s erasing %d data bytes at offset %d of %s", when, size, off, filepath.Base(pack)), dir: readDir(live), kv: kv.Dump()})
					evid.R.Label("diskpacked/removal/observed-" + when + "-data-erase")
				}
			}
			restorePunch = diskpacked.VerifSetPunchHoleHook(snap("before"), snap("after"))
		}
	}
	err = execDP(sto, pool, last, nOps-1)
	restorePunch()
	env.BeforeMut, env.AfterHook = nil, nil
	if err != nil {
		fail("%v", err)
	}
	observations = append(observations, obs{label: "post-op", dir: readDir(live), kv: kv.Dump()})
	applyAck(m, pool, last)
	if err := m.Battery(ctx, sto, []blob.Ref{neverStored}, 3); err != nil {
		fail("without any crash: %v", err)
	}
	closeSto(sto) // the old process is gone (it holds the pack lock)

	var states []*dpState
	switch last.Kind {
	case "receive":
		x := pool[last.Blobs[0]]
		st, exh, grew := appendStates(t, observations, x)
		if !grew && pre.State(x.Ref) != vmodel.Present {
			fail("receive of the absent blob %s was acknowledged but no pack grew", x)
		}
		states = append(states, st...)
		if exh {
			evid.R.Label("diskpacked/history-with-every-header-byte-cut")
		}
	case "remove":
		var refs []blob.Ref
		for _, i := range last.Blobs {
			refs = append(refs, pool[i].Ref)
		}
		states = append(states, removalStates(t, observations, refs)...)
	}
	states = append(states, snapshotStates(observations)...)

	histHash := evid.Hash("diskpacked", maxSize, strings.Join(poolStrings(pool), "|"), strings.Join(opStrings(c.ops), "|"))
	evid.R.Label("diskpacked/last-op/" + last.Kind)
	evid.R.Label(fmt.Sprintf("diskpacked/acked-before-crash/%d", min(acked, 4)))
	evid.R.Label(fmt.Sprintf("diskpacked/packs-at-crash/%d", min(countPacks(observations[len(observations)-1].dir), 4)))
	if countPacks(observations[len(observations)-1].dir) > countPacks(observations[0].dir) {
		evid.R.Label("diskpacked/last-op-rolls-over-to-a-new-pack")
	}
	evid.R.Label(fmt.Sprintf("diskpacked/index-mutations-observed-in-last-op/%d", nMut))
	if nMut > 0 {
		// what the hooks SAW about the order of data and index writes (nothing of this is assumed)
		firstMut, pre0, post0 := observations[1], observations[0], observations[len(observations)-1]
		// pack bytes only: a new (empty) pack created by a roll-over is reported separately
		dataSame := func(a, b obs) bool {
			for n, x := range b.dir {
				if len(x) > 0 && !bytes.Equal(a.dir[n], x) {
					return false
				}
			}
			return true
		}
		switch {
		case dataSame(pre0, post0):
			evid.R.Label("diskpacked/observed-order/" + last.Kind + "/no-pack-bytes-changed")
		case dataSame(firstMut, post0):
			evid.R.Label("diskpacked/observed-order/" + last.Kind + "/pack-bytes-complete-before-index-write")
		case dataSame(firstMut, pre0):
			evid.R.Label("diskpacked/observed-order/" + last.Kind + "/index-written-before-pack-bytes")
		default:
			evid.R.Label("diskpacked/observed-order/" + last.Kind + "/index-written-between-pack-writes")
		}
		if len(post0.dir) > len(pre0.dir) {
			if len(firstMut.dir) == len(pre0.dir) {
				evid.R.Label("diskpacked/observed-order/roll-over-after-index-write")
			} else {
				evid.R.Label("diskpacked/observed-order/roll-over-before-index-write")
			}
		}
	}
	nt := 0
	var descs []string
	for _, st := range states {
		evid.R.Eval()
		evid.R.Label("diskpacked/crash-state/" + st.Class)
		isNT := st.Inside && acked >= 1
		if isNT {
			nt++
			evid.R.NonTrivial(evid.Hash(histHash, st.Key))
		}
		if len(descs) < 30 {
			descs = append(descs, st.Desc)
		}
		var inflightRef blob.Ref
		behind := map[string]bool{}
		if last.Kind == "receive" {
			inflightRef = pool[last.Blobs[0]].Ref
			behind[inflightRef.String()] = true
		}
		for _, b := range later {
			behind[b.Ref.String()] = true
		}
		excuse := func(v *violation) bool {
			id := knownSig(st, v, inflightRef, behind)
			if id == "" || !known.Hit(prop, id, fmt.Sprintf("maxFileSize=%d history=%v; crash state: %s; %s", maxSize, opStrings(c.ops), st.Desc, v)) {
				return false
			}
			evid.R.Label("diskpacked/known/" + id + "/" + v.Stage + "/" + v.Kind)
			return true
		}
		if v := c.checkDPState(st, pre, last, later, excuse); v != nil {
			fail("%v\ncrash state: %s\nfiles of the crash state:\n  %s\nindex rows of the crash state: %v\nblobs received after the restart: in-flight blob, then %v",
				v, st.Desc, strings.Join(st.Dir.describe(), "\n  "), st.KV, later)
		}
	}
	evid.R.LabelN("diskpacked/crash-states", len(states))
	evid.R.Label("diskpacked/crash-states-per-history/" + bucket(len(states)))
	if evid.R.WantSample(nt > 0) {
		evid.R.Sample(nt > 0, map[string]any{"half": "diskpacked", "maxFileSize": maxSize, "pool": poolStrings(pool), "history": opStrings(c.ops),
			"observed_during_last_operation": obsLabels(observations), "crash_states_checked": descs, "crash_states": len(states), "nontrivial_crash_states": nt})
	}
}

func obsLabels(o []obs) []string {
	var out []string
	for _, x := range o {
		out = append(out, fmt.Sprintf("%s: %s; %d index rows", x.label, strings.Join(packSizes(x.dir), " "), len(x.kv)))
	}
	return out
}

func packSizes(d dirSnap) []string {
	var out []string
	for n, b := range d {
		if strings.HasPrefix(n, "pack-") && strings.HasSuffix(n, ".blobs") {
			out = append(out, fmt.Sprintf("%s=%dB", n, len(b)))
		}
	}
	sort.Strings(out)
	return out
}

func countPacks(d dirSnap) int { return len(packSizes(d)) }

const sigTornThenAppend = "C03-diskpacked-append-behind-torn-tail"

var walkErrRe = regexp.MustCompile(`at (\d+) \(0x[0-9a-f]+\) in "([^"]+)":`)

// knownSig maps a violation to the id of a recorded open finding ("" = none).
//
// The defect described below was REPAIRED in /repo (cd956d7: the torn tail is dropped when the write
// pack is opened), so known_findings.json lists no open entry for it and known.Hit returns false: a
// recurrence is a violation (see mutations/C03/dp-revert-fix-drop-torn-tail.diff). The predicate is kept
// so that the finding can be re-opened by adding the entry, should the repair ever be reverted.
//
// C03-diskpacked-append-behind-torn-tail: after a crash in the middle of an append the write pack
// ends with a strict prefix of "[ref size]body"; on restart openForWrite seeks to EOF and the next
// receive is appended right behind those bytes. Every reader that walks the pack from its start
// (StreamBlobs, walkPack/Reindex) is then out of step from the torn header on. The signature is
// limited to: crash state = torn append (torn-header/torn-body) whose pack is the write pack of the
// restarted store, stage = after at least one further append, and an observation the defect predicts:
//   - StreamBlobs presents exactly the in-flight ref with wrong bytes (its header was complete), or
//   - Reindex fails with a walkPack parse error located in the torn pack at/after the torn header, or
//   - Reindex succeeds but the only blobs wrong/missing are the in-flight one and those appended
//     behind the torn bytes.
//
// Index-based reads (fetch/stat/enumerate) are never excused, nor is anything before the further append.
func knownSig(st *dpState, v *violation, inflight blob.Ref, behind map[string]bool) string {
	if st.Class != "torn-header" && st.Class != "torn-body" {
		return ""
	}
	if st.TornPack == "" || !(st.TornLen > st.TornAt) {
		return ""
	}
	// the torn pack must be the last pack = the one opened for writing after the restart
	for name := range st.Dir {
		if strings.HasPrefix(name, "pack-") && strings.HasSuffix(name, ".blobs") && name > st.TornPack {
			return ""
		}
	}
	switch {
	case v.Stage == "after-receives" && v.Kind == "stream-hash":
		if st.Class == "torn-body" && inflight.Valid() && v.Ref == inflight.String() {
			return sigTornThenAppend
		}
	case v.Stage == "reindex-2" && v.Kind == "reindex-error":
		m := walkErrRe.FindStringSubmatch(v.Msg)
		if m == nil {
			return ""
		}
		pos, _ := strconv.ParseInt(m[1], 10, 64)
		if filepath.Base(m[2]) == st.TornPack && pos >= st.TornAt {
			return sigTornThenAppend
		}
	case v.Stage == "reindex-2" && (v.Kind == "index-set" || v.Kind == "battery"):
		if v.Ref != "" && (behind[v.Ref] || (inflight.Valid() && v.Ref == inflight.String())) {
			return sigTornThenAppend
		}
	}
	return ""
}

func TestDiskpackedCrashStates(t *testing.T) {
	evid.R.Assume("diskpacked half, process-crash model: bytes handed to write(2) on a pack file are on disk in file order (loss of written-but-unsynced pack bytes, i.e. a missing writer.Sync(), is not observable without syscall interception); the index (harness KV) applies each Set/Delete/CommitBatch atomically; a removal may persist any subset of {header rewrite, body zeroing, index row deletion}")
	evid.R.Assume("the blob whose REMOVAL was in flight is unconstrained (the statement binds acknowledged, not-removed blobs and partially WRITTEN ones); all other blobs must stay intact and the packs walkable")
	evid.Check(t, 240, 500, runDPCase)
	if !t.Failed() {
		evid.R.Exhaustive("diskpacked: per removal history all 8^n subsets of {header x-ed, body zeroed, index row deleted} (n<=2)")
		evid.R.Exhaustive("diskpacked: per receive history every body byte prefix for bodies <= 64 B and every observed index-mutation snapshot")
		if evid.Thorough() {
			evid.R.Exhaustive("diskpacked: per receive history every byte prefix of the appended header")
		}
	}
}
