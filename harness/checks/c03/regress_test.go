package c03

// Plain (non-rapid) regression tests of the shrunk generated cases behind the two
// diskpacked repairs (a7bb114 walkPack/torn blob, cd956d7 torn tail dropped on open).

import (
	"os"
	"path/filepath"
	"testing"

	"go4.org/jsonconfig"
	"perkeep.org/pkg/blob"
	"perkeep.org/pkg/blobserver/diskpacked"

	"verifharness/internal/evid"
	"verifharness/internal/vgen"
	"verifharness/internal/vmodel"
	"verifharness/internal/vstore"
)

// tornState builds: pack-00000 = acknowledged blob A, then "[X 53]" + 20 of X's 53 bytes; index = {A}.
func tornState(t *testing.T, cut int) (c *dpCase, dir, idx string, a, x vgen.Blob) {
	t.Helper()
	base, err := os.MkdirTemp(tmpBase(), "verif-c03-regress-")
	if err != nil {
		t.Fatalf("VERIF-INCONCLUSIVE: %v", err)
	}
	t.Cleanup(func() { os.RemoveAll(base) })
	c = &dpCase{env: vstore.NewEnv(), base: base, maxSize: 1 << 20}
	dir = filepath.Join(base, "d")
	os.Mkdir(dir, 0o755)
	mk := func(seed uint64, n int) vgen.Blob {
		d := vgen.Noise(seed, n)
		return vgen.Blob{Ref: vgen.RefOf("sha224", d), Data: d, Class: "regress"}
	}
	a, x = mk(1, 30), mk(2, 53)
	sto, err := c.open(dir, "idx")
	if err != nil {
		t.Fatal(err)
	}
	for _, b := range []vgen.Blob{a, x} {
		if _, err := sto.ReceiveBlob(ctx, b.Ref, vgen.NewReader("whole", b.Data, 0)); err != nil {
			t.Fatal(err)
		}
	}
	closeSto(sto)
	pack := filepath.Join(dir, "pack-00000.blobs")
	fi, err := os.Stat(pack)
	if err != nil {
		t.Fatal(err)
	}
	// drop the last cut bytes of X's body: the crash came before they were written
	if err := os.Truncate(pack, fi.Size()-int64(cut)); err != nil {
		t.Fatal(err)
	}
	c.env.NewKV("idx").Inner().Delete(x.Ref.String()) // the index row is written after the data
	return c, dir, "idx", a, x
}

func TestRegressReindexIgnoresTornBlob(t *testing.T) {
	if evid.Replaying() {
		t.Skip()
	}
	c, dir, _, a, x := tornState(t, 33)
	vstore.SetCurrent(c.env)
	if err := diskpacked.Reindex(ctx, dir, true, jsonconfig.Obj(vstore.KVConf("rebuilt"))); err != nil {
		t.Fatalf("C03 violated (regression a7bb114): Reindex over [A][X 53]+20 bytes failed: %v", err)
	}
	rows := c.env.NewKV("rebuilt").Dump()
	if _, ok := rows[a.Ref.String()]; !ok || len(rows) != 1 {
		t.Fatalf("C03 violated (regression a7bb114): rebuilt index = %v, want exactly the acknowledged blob %s (the torn blob %s must not be indexed)", rows, a.Ref, x.Ref)
	}
	sto, err := c.open(dir, "rebuilt")
	if err != nil {
		t.Fatal(err)
	}
	defer closeSto(sto)
	m := vmodel.New()
	m.SetPresent(a.Ref, a.Data)
	m.Know(x.Ref, x.Data)
	if err := m.Battery(ctx, sto, nil, 2); err != nil {
		t.Fatalf("C03 violated (regression a7bb114): %v", err)
	}
}

func TestRegressAppendBehindTornTail(t *testing.T) {
	if evid.Replaying() {
		t.Skip()
	}
	for _, cut := range []int{33, 53, 53 + 2, 53 + 30, 53 + 67} { // torn body, header only, torn size digits, torn ref, only "["
		c, dir, idx, a, x := tornState(t, cut)
		sto, err := c.open(dir, idx)
		if err != nil {
			t.Fatal(err)
		}
		y := vgen.Blob{Data: []byte("a later blob that lands behind the crash point")}
		y.Ref = blob.RefFromBytes(y.Data)
		if _, err := sto.ReceiveBlob(ctx, y.Ref, vgen.NewReader("whole", y.Data, 0)); err != nil {
			t.Fatal(err)
		}
		m := vmodel.New()
		m.SetPresent(a.Ref, a.Data)
		m.SetPresent(y.Ref, y.Data)
		m.Know(x.Ref, x.Data)
		if err := m.Battery(ctx, sto, nil, 2); err != nil {
			t.Fatalf("C03 violated (regression cd956d7, cut %d): %v", cut, err)
		}
		got, serr, _ := streamAll(sto)
		for _, s := range got {
			if !hashesTo(s.ref, s.data) {
				t.Fatalf("C03 violated (regression cd956d7, cut %d): StreamBlobs presented %s with %d bytes that do not hash to it (stream error: %v)", cut, s.ref, len(s.data), serr)
			}
		}
		closeSto(sto)
		vstore.SetCurrent(c.env)
		if err := diskpacked.Reindex(ctx, dir, true, jsonconfig.Obj(vstore.KVConf("rebuilt"))); err != nil {
			t.Fatalf("C03 violated (regression cd956d7, cut %d): after a torn append followed by a further append Reindex fails, the packs no longer rebuild the index: %v", cut, err)
		}
		rows := c.env.NewKV("rebuilt").Dump()
		if len(rows) != 2 || rows[a.Ref.String()] == "" || rows[y.Ref.String()] == "" {
			t.Fatalf("C03 violated (regression cd956d7, cut %d): rebuilt index = %v, want exactly %s and %s", cut, rows, a.Ref, y.Ref)
		}
	}
}
