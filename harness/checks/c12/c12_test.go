// C12 — replicated writes are acknowledged only at quorum; reads survive replica loss.
package c12

import (
	"bytes"
	"context"
	"fmt"
	"io"
	"regexp"
	"sort"
	"strconv"
	"strings"
	"sync"
	"testing"
	"time"

	"go4.org/jsonconfig"
	"perkeep.org/pkg/blob"
	"perkeep.org/pkg/blobserver"
	_ "perkeep.org/pkg/blobserver/replica"
	"pgregory.net/rapid"

	"verifharness/internal/evid"
	"verifharness/internal/vcompose"
	"verifharness/internal/vgen"
	"verifharness/internal/vmodel"
	"verifharness/internal/vstore"
)

const prop = "C12"

func TestMain(m *testing.M) {
	evid.Main(m, prop, "fault_enumeration",
		"write side: exhaustive enumeration of (n write replicas 1..3 quick / 1..4 thorough) x (minWritesForSuccess 1..n) x (behaviour of each replica in {ok, error, stored-but-error, wrong-size}) x (order in which the harness releases the replicas, every replica being held = slow until released); "+
			"after each release the harness checks that ReceiveBlob has not acknowledged before the quorum-th correct store completed, that it acknowledges once it has, and that it fails when fewer than the quorum can succeed. "+
			"read side (rapid): replica sets with arbitrary overlapping preloaded contents, distinct read/write sets, failing earlier replicas; fetch/stat/enumerate vs. the union. "+
			"non-trivial (write) = at least one failing and one succeeding replica and the number of succeeding replicas within +-1 of the quorum; non-trivial (read) = a blob held by some but not all read replicas, or an erroring replica before the holder; distinct = FNV-64 of the case tuple")
}

var ctx = context.Background()

type loader struct{ m map[string]blobserver.Storage }

func (ld *loader) FindHandlerByType(string) (string, any, error) {
	return "", nil, blobserver.ErrHandlerTypeNotFound
}
func (ld *loader) AllHandlers() (map[string]string, map[string]any) { return nil, nil }
func (ld *loader) MyPrefix() string                                 { return "/r/" }
func (ld *loader) BaseURL() string                                  { return "" }
func (ld *loader) GetHandlerType(string) string                     { return "" }
func (ld *loader) GetHandler(p string) (any, error)                 { return ld.GetStorage(p) }
func (ld *loader) GetStorage(p string) (blobserver.Storage, error) {
	if s, ok := ld.m[p]; ok {
		return s, nil
	}
	return nil, fmt.Errorf("no storage %q", p)
}

var behNames = []string{"ok", "error", "stored-but-error", "wrong-size", "nothing-stored-size-0-no-error"}
var behs = []vstore.Behaviour{vstore.OK, vstore.Fail, vstore.FailAfter, vstore.WrongSize, vstore.ZeroSize}

// settle is how long the harness waits to see an (illegal) early acknowledgement.
// A longer wait only makes the check more sensitive; it can never cause a false alarm.
const settle = 1500 * time.Microsecond

type writeCase struct {
	N     int   `json:"replicas"`
	Min   int   `json:"minWritesForSuccess"`
	Beh   []int `json:"behaviour_per_replica"`
	Order []int `json:"release_order"`
	// configuration shape (TestQuorumConfigShapes): minWritesForSuccess left out (documented default: all
	// write replicas; Min is then N), a separate readBackends list of NRead stores, shape of the replicas' errors
	// Remote[i]: 0 = replica i is the harness store itself; 1 = it is reached over HTTP (perkeep's handlers
	// over the harness store, a pkg/client in front, as the "remote" storage type does); 2 = over HTTP, and
	// the peer reports one byte more than it stored in its upload response (a misreporting replica)
	Remote   []int `json:"remote,omitempty"`
	MinUnset bool  `json:"minWritesForSuccess_unset,omitempty"`
	NRead    int   `json:"readBackends,omitempty"`
	ErrKind  int   `json:"error_kind,omitempty"`
}

// good: replica i stores the blob and says so correctly.
func (c writeCase) good(i int) bool {
	return c.Beh[i] == 0 && (i >= len(c.Remote) || c.Remote[i] != 2)
}

var sizeRx = regexp.MustCompile(`"size":\s*(\d+)`)

// misreportSizes adds one to every size of an upload response.
func misreportSizes(body []byte) []byte {
	return sizeRx.ReplaceAllFunc(body, func(m []byte) []byte {
		n, _ := strconv.Atoi(string(sizeRx.FindSubmatch(m)[1]))
		return []byte(fmt.Sprintf(`"size": %d`, n+1))
	})
}

func (c writeCase) String() string {
	var b []string
	for _, x := range c.Beh {
		b = append(b, behNames[x])
	}
	cfg := ""
	if c.MinUnset {
		cfg += " (minWritesForSuccess not configured)"
	}
	if c.NRead > 0 {
		cfg += fmt.Sprintf(" readBackends=%d", c.NRead)
	}
	if c.ErrKind != 0 {
		cfg += fmt.Sprintf(" errorKind=%d", c.ErrKind)
	}
	if len(c.Remote) > 0 {
		cfg += fmt.Sprintf(" remote(1=http,2=http-misreporting)=%v", c.Remote)
	}
	return fmt.Sprintf("n=%d min=%d%s behaviours=[%s] releaseOrder=%v", c.N, c.Min, cfg, strings.Join(b, ","), c.Order)
}

func runWriteCase(c writeCase) error {
	env := vstore.NewEnv()
	env.ErrKind = c.ErrKind
	if c.MinUnset {
		c.Min = c.N
	}
	ld := &loader{m: map[string]blobserver.Storage{}}
	gates := map[string]chan struct{}{}
	var backends []any
	stores := make([]*vstore.Store, c.N)
	for i := 0; i < c.N; i++ {
		name := fmt.Sprintf("w%d", i)
		stores[i] = env.NewStore(name)
		p := "/" + name + "/"
		ld.m[p] = stores[i]
		if i < len(c.Remote) && c.Remote[i] != 0 {
			var tamper func([]byte) []byte
			if c.Remote[i] == 2 {
				tamper = misreportSizes
			}
			hs, err := vcompose.NewHTTPStore(stores[i], false, tamper)
			if err != nil {
				return fmt.Errorf("harness: http replica: %v", err)
			}
			defer hs.(io.Closer).Close()
			ld.m[p] = hs
		}
		backends = append(backends, p)
		gates["store:"+name] = make(chan struct{})
	}
	behByLayer := map[string]vstore.Behaviour{}
	for i := 0; i < c.N; i++ {
		behByLayer[fmt.Sprintf("store:w%d", i)] = behs[c.Beh[i]]
	}
	var doneMu sync.Mutex
	done := map[string]bool{}
	env.Match = func(e *vstore.Event) vstore.Behaviour {
		if e.Op == "receive" {
			return behByLayer[e.Layer]
		}
		return vstore.OK
	}
	env.YieldHook = func(e *vstore.Event) {
		if e.Op == "receive" {
			<-gates[e.Layer]
		}
	}
	env.AfterHook = func(e *vstore.Event) {
		if e.Op == "receive" {
			doneMu.Lock()
			done[e.Layer] = true
			doneMu.Unlock()
		}
	}
	conf := jsonconfig.Obj{"backends": backends}
	if !c.MinUnset {
		conf["minWritesForSuccess"] = float64(c.Min)
	}
	if c.NRead > 0 {
		var rb []any
		for i := 0; i < c.NRead; i++ {
			name := fmt.Sprintf("r%d", i)
			ld.m["/"+name+"/"] = env.NewStore(name)
			rb = append(rb, "/"+name+"/")
		}
		conf["readBackends"] = rb
	}
	sto, err := blobserver.CreateStorage("replica", ld, conf)
	if err != nil {
		return fmt.Errorf("harness: create replica: %v", err)
	}
	data := []byte(fmt.Sprintf("payload-%v", c))
	ref := blob.RefFromBytes(data)
	type res struct {
		sb  blob.SizedRef
		err error
	}
	resc := make(chan res, 1)
	// the client goroutine: the first blob, and later (when told to) a second one - from the same goroutine,
	// as a client connection's handler would, so that whatever per-thread pools the store uses hand the
	// second receive the buffers the first one gave back
	secondGo, second := make(chan []byte, 1), make(chan struct{})
	go func() {
		sb, err := sto.ReceiveBlob(ctx, ref, bytes.NewReader(data))
		resc <- res{sb, err}
		defer close(second)
		if d2 := <-secondGo; d2 != nil {
			// a few more blobs of the same length: each of them takes buffers from the pools again
			for i := 0; i < 4; i++ {
				d := append([]byte(nil), d2...)
				d[0] = byte('A' + i)
				sto.ReceiveBlob(ctx, blob.RefFromBytes(d), bytes.NewReader(d))
			}
		}
	}()
	defer func() {
		select {
		case secondGo <- nil:
		default:
		}
	}()
	waitDone := func(layer string) error {
		dl := time.Now().Add(30 * time.Second)
		for {
			doneMu.Lock()
			d := done[layer]
			doneMu.Unlock()
			if d {
				return nil
			}
			if time.Now().After(dl) {
				return fmt.Errorf("VERIF-INCONCLUSIVE: replica never called %s", layer)
			}
			time.Sleep(50 * time.Microsecond)
		}
	}
	okTotal := 0
	for i := range c.Beh {
		if c.good(i) {
			okTotal++
		}
	}
	successes := 0
	var got *res
	released := map[int]bool{}
	releaseRest := func() {
		for i := 0; i < c.N; i++ {
			if !released[i] {
				released[i] = true
				close(gates[fmt.Sprintf("store:w%d", i)])
			}
		}
	}
	defer releaseRest()
	for step, i := range c.Order {
		layer := fmt.Sprintf("store:w%d", i)
		released[i] = true
		close(gates[layer])
		if err := waitDone(layer); err != nil {
			return err
		}
		if c.good(i) {
			successes++
		}
		if successes < c.Min {
			// must not have acknowledged yet; and must not have given up while quorum is still reachable
			remainingOK := 0
			for _, j := range c.Order[step+1:] {
				if c.good(j) {
					remainingOK++
				}
			}
			if step < len(c.Order)-1 {
				select {
				case r := <-resc:
					got = &r
				case <-time.After(settle):
				}
				if got != nil {
					if got.err == nil {
						return fmt.Errorf("ReceiveBlob acknowledged success after only %d correct stores (quorum %d); released so far %v", successes, c.Min, c.Order[:step+1])
					}
					if successes+remainingOK >= c.Min {
						return fmt.Errorf("ReceiveBlob gave up with %v after %d/%d replicas answered although %d more healthy replicas would have reached the quorum %d", got.err, step+1, c.N, remainingOK, c.Min)
					}
					break
				}
			}
			continue
		}
		// quorum reached with this release: must acknowledge now, without needing the still-held replicas
		select {
		case r := <-resc:
			got = &r
		case <-time.After(30 * time.Second):
			return fmt.Errorf("VERIF-INCONCLUSIVE-OR-HANG: quorum %d reached (%d correct stores) but ReceiveBlob did not return within 30s while %d replicas are still slow", c.Min, successes, c.N-step-1)
		}
		if got.err != nil {
			return fmt.Errorf("quorum %d reached (%d correct stores) but ReceiveBlob returned error %v", c.Min, successes, got.err)
		}
		break
	}
	if got == nil {
		// everything released, quorum not reached
		select {
		case r := <-resc:
			got = &r
		case <-time.After(30 * time.Second):
			return fmt.Errorf("VERIF-INCONCLUSIVE-OR-HANG: all replicas answered, ReceiveBlob did not return within 30s")
		}
	}
	if okTotal < c.Min && got.err == nil {
		return fmt.Errorf("only %d of %d replicas stored the blob correctly, quorum is %d, but ReceiveBlob reported success %v", okTotal, c.N, c.Min, got.sb)
	}
	if okTotal >= c.Min && got.err != nil {
		return fmt.Errorf("%d replicas stored the blob correctly, quorum is %d, but ReceiveBlob reported %v", okTotal, c.Min, got.err)
	}
	if got.err == nil {
		if got.sb.Ref != ref || int(got.sb.Size) != len(data) {
			return fmt.Errorf("acknowledged with %v, want ref %v size %d", got.sb, ref, len(data))
		}
		// at acknowledgement at least Min healthy replicas hold the blob (they were released before)
		holders := 0
		for i := 0; i < c.N; i++ {
			if c.good(i) && released[i] {
				if d, ok := stores[i].RawGet(ref); ok && bytes.Equal(d, data) {
					holders++
				}
			}
		}
		if holders < c.Min {
			return fmt.Errorf("acknowledged but only %d healthy replicas hold the blob (quorum %d)", holders, c.Min)
		}
	}
	// a second blob arrives while the slow replicas have not even started on the first one: whatever the
	// replicated store keeps of an acknowledged receive must not be disturbed by the next receive
	var data2 []byte
	if got.err == nil && len(released) < c.N {
		data2 = []byte(fmt.Sprintf("PAYLOAD-%v", c)) // same length as data, other bytes
		secondGo <- data2
		select {
		case <-second:
		case <-time.After(20 * time.Millisecond):
		}
	} else {
		secondGo <- nil
	}
	releaseRest()
	for i := 0; i < c.N; i++ {
		if err := waitDone(fmt.Sprintf("store:w%d", i)); err != nil {
			return err
		}
	}
	select {
	case <-second:
	case <-time.After(30 * time.Second):
		return fmt.Errorf("VERIF-INCONCLUSIVE: the second receive did not return within 30s after all replicas were released")
	}
	if got.err == nil {
		// every replica that stored the acknowledged blob, early or late, holds exactly its bytes
		dl := time.Now().Add(5 * time.Second)
		for i := 0; i < c.N; i++ {
			if c.Beh[i] != 0 && c.Beh[i] != 2 {
				continue
			}
			for {
				d, ok := stores[i].RawGet(ref)
				if ok && bytes.Equal(d, data) {
					break
				}
				if ok {
					return fmt.Errorf("acknowledged blob %s (%q): replica #%d, which was slow and stored it after the acknowledgement (four more blobs like %q had been received meanwhile), holds %q under that ref", ref, data, i, data2, d)
				}
				if time.Now().After(dl) {
					break // a replica may legitimately never get the blob (its write failed)
				}
				time.Sleep(100 * time.Microsecond)
			}
		}
	}
	return nil
}

func permutations(n int) [][]int {
	var out [][]int
	var rec func(cur []int, used int)
	rec = func(cur []int, used int) {
		if len(cur) == n {
			out = append(out, append([]int(nil), cur...))
			return
		}
		for i := 0; i < n; i++ {
			if used&(1<<i) == 0 {
				rec(append(cur, i), used|1<<i)
			}
		}
	}
	rec(nil, 0)
	return out
}

func TestQuorumExhaustive(t *testing.T) {
	if evid.Replaying() {
		t.Skip()
	}
	maxN := evid.Pick(3, 4)
	shard, nshards := evid.Shard()
	idx := 0
	var cases, nontrivial int
	for n := 1; n <= maxN; n++ {
		perms := permutations(n)
		nb := 1
		for i := 0; i < n; i++ {
			nb *= len(behs)
		}
		for min := 1; min <= n; min++ {
			for bcode := 0; bcode < nb; bcode++ {
				beh := make([]int, n)
				x := bcode
				ok, bad := 0, 0
				for i := range beh {
					beh[i] = x % len(behs)
					x /= len(behs)
					if beh[i] == 0 {
						ok++
					} else {
						bad++
					}
				}
				for _, order := range perms {
					idx++
					if idx%nshards != shard {
						continue
					}
					c := writeCase{N: n, Min: min, Beh: beh, Order: order}
					cases++
					evid.R.Eval()
					evid.R.Label(fmt.Sprintf("write/n=%d", n))
					nt := ok >= 1 && bad >= 1 && ok >= min-1 && ok <= min+1
					if nt {
						nontrivial++
						evid.R.NonTrivial(evid.Hash("w", c.String()))
					}
					if evid.R.WantSample(nt) && (nt || cases < 3) {
						evid.R.Sample(nt, map[string]any{"kind": "write-quorum", "case": c, "text": c.String()})
					}
					if err := runWriteCase(c); err != nil {
						if strings.HasPrefix(err.Error(), "VERIF-INCONCLUSIVE:") || strings.HasPrefix(err.Error(), "harness:") {
							t.Fatalf("%v (case %s)", err, c)
						}
						t.Fatalf("C12 violated: %v\ncase: %s", err, c)
					}
				}
			}
		}
	}
	evid.R.Exhaustive(fmt.Sprintf("all (n<=%d, min<=n, %d behaviours per replica, all release orders)", maxN, len(behs)))
}

// TestQuorumConfigShapes: the same write oracle over generated configuration shapes the exhaustive
// enumeration keeps fixed: minWritesForSuccess left to its documented default (all write replicas),
// a separate readBackends list shorter or longer than the write list, and replicas whose errors look
// like their own timeouts or cancellations.
func TestQuorumConfigShapes(t *testing.T) {
	evid.Check(t, 400, 3000, func(t *rapid.T) {
		n := rapid.IntRange(1, 4).Draw(t, "writeReplicas")
		c := writeCase{N: n}
		c.MinUnset = rapid.Bool().Draw(t, "minUnset")
		c.Min = n
		if !c.MinUnset {
			c.Min = rapid.IntRange(1, n).Draw(t, "min")
		}
		c.NRead = rapid.SampledFrom([]int{0, 1, 2, 3, 5}).Draw(t, "readBackends")
		c.ErrKind = rapid.IntRange(0, vstore.NumErrKinds-1).Draw(t, "errKind")
		ok := 0
		for i := 0; i < n; i++ {
			b := rapid.SampledFrom([]int{0, 0, 0, 1, 2, 3, 4}).Draw(t, "behaviour")
			c.Beh = append(c.Beh, b)
			if b == 0 {
				ok++
			}
		}
		if rapid.Bool().Draw(t, "someRemote") {
			for i := 0; i < n; i++ {
				c.Remote = append(c.Remote, rapid.SampledFrom([]int{0, 1, 1, 2}).Draw(t, "remote"))
			}
			ok = 0
			for i := range c.Beh {
				if c.good(i) {
					ok++
				}
			}
			evid.R.Label("write-config/with-replicas-over-http")
		}
		idx := make([]int, n)
		for i := range idx {
			idx[i] = i
		}
		c.Order = rapid.Permutation(idx).Draw(t, "releaseOrder")
		evid.R.Eval()
		evid.R.Label("write-config/" + map[bool]string{true: "min-unset", false: "min-set"}[c.MinUnset] + fmt.Sprintf("/readBackends-%s", map[bool]string{true: "none", false: map[bool]string{true: "fewer-than-write", false: "as-many-or-more"}[c.NRead < n]}[c.NRead == 0]))
		evid.R.Label(fmt.Sprintf("write-config/error-kind-%d", c.ErrKind))
		nt := ok < n && (c.MinUnset || c.NRead > 0 && c.NRead != n)
		if nt {
			evid.R.NonTrivial(evid.Hash("wc", c.String()))
		}
		if evid.R.WantSample(nt) {
			evid.R.Sample(nt, map[string]any{"kind": "write-quorum-config", "case": c, "text": c.String()})
		}
		if err := runWriteCase(c); err != nil {
			if strings.HasPrefix(err.Error(), "VERIF-INCONCLUSIVE:") || strings.HasPrefix(err.Error(), "harness:") {
				t.Fatalf("%v (case %s)", err, c)
			}
			t.Fatalf("C12 violated: %v\ncase: %s", err, c)
		}
	})
}

// ---------------------------------------------------------------------------
// read side

func TestReadsSurviveReplicaLoss(t *testing.T) {
	evid.Check(t, 1500, 8000, func(t *rapid.T) {
		env := vstore.NewEnv()
		ld := &loader{m: map[string]blobserver.Storage{}}
		env.ErrKind = rapid.IntRange(0, vstore.NumErrKinds-1).Draw(t, "errKind")
		evid.R.Label(fmt.Sprintf("read/error-kind-%d", env.ErrKind))
		nw := rapid.IntRange(1, 3).Draw(t, "writeReplicas")
		distinct := rapid.Bool().Draw(t, "distinctReadSet")
		nr := nw
		var wb, rb []any
		var readStores []*vstore.Store
		for i := 0; i < nw; i++ {
			s := env.NewStore(fmt.Sprintf("w%d", i))
			ld.m["/"+s.Name+"/"] = s
			if rapid.IntRange(0, 3).Draw(t, "replicaOverHTTP") == 0 {
				hs, err := vcompose.NewHTTPStore(s, false, nil)
				if err != nil {
					t.Fatalf("harness: %v", err)
				}
				defer hs.(io.Closer).Close()
				ld.m["/"+s.Name+"/"] = hs
				evid.R.Label("read/replica-over-http")
			}
			wb = append(wb, "/"+s.Name+"/")
			if !distinct {
				readStores = append(readStores, s)
			}
		}
		conf := jsonconfig.Obj{"backends": wb}
		if distinct {
			nr = rapid.IntRange(1, 4).Draw(t, "readReplicas")
			for i := 0; i < nr; i++ {
				s := env.NewStore(fmt.Sprintf("r%d", i))
				ld.m["/"+s.Name+"/"] = s
				if rapid.IntRange(0, 3).Draw(t, "replicaOverHTTP") == 0 {
					hs, err := vcompose.NewHTTPStore(s, false, nil)
					if err != nil {
						t.Fatalf("harness: %v", err)
					}
					defer hs.(io.Closer).Close()
					ld.m["/"+s.Name+"/"] = hs
					evid.R.Label("read/replica-over-http")
				}
				rb = append(rb, "/"+s.Name+"/")
				readStores = append(readStores, s)
			}
			conf["readBackends"] = rb
		}
		sto, err := blobserver.CreateStorage("replica", ld, conf)
		if err != nil {
			t.Fatalf("harness: %v", err)
		}
		pool := vgen.GenPool(t, 2, 8, false)
		model := vmodel.New()
		partial := false
		var layout []string
		for _, b := range pool {
			model.Know(b.Ref, b.Data)
			mask := rapid.IntRange(0, 1<<nr-1).Draw(t, "holders")
			for i, s := range readStores {
				if mask&(1<<i) != 0 {
					s.RawPut(b.Ref, b.Data)
					model.SetPresent(b.Ref, b.Data)
				}
			}
			if mask != 0 && mask != 1<<nr-1 {
				partial = true
			}
			layout = append(layout, fmt.Sprintf("%s@%b", b.Ref.String()[:14], mask))
		}
		evid.R.Eval()
		evid.R.Label(fmt.Sprintf("read/replicas=%d", nr))
		// A replica may hold a damaged (shorter) copy of a blob another replica holds intact: the overlap
		// then differs in size. Such a blob must still be reported exactly once by stat and enumerate
		// (its reported size and fetched bytes depend on which replica answers and are not judged).
		if nr >= 2 && rapid.IntRange(0, 3).Draw(t, "damagedCopy") == 0 {
			extra := vgen.GenBlob(false).Draw(t, "damagedBlob")
			if len(extra.Data) >= 2 && model.State(extra.Ref) == vmodel.Absent {
				a := rapid.IntRange(0, nr-1).Draw(t, "intactOn")
				b := (a + 1 + rapid.IntRange(0, nr-2).Draw(t, "damagedOn")) % nr
				readStores[a].RawPut(extra.Ref, extra.Data)
				readStores[b].RawPut(extra.Ref, extra.Data[:len(extra.Data)/2])
				evid.R.Label("read/with-damaged-copy")
				got, err := vmodel.Enumerate(ctx, sto, "", 1000)
				if err != nil {
					t.Fatalf("C12 violated: enumerate failed: %v", err)
				}
				n := 0
				for _, sb := range got {
					if sb.Ref == extra.Ref {
						n++
					}
				}
				if n != 1 {
					t.Fatalf("C12 violated: blob %s held by replica #%d (intact) and #%d (shorter copy) is enumerated %d times, want exactly once (layout %v)", extra.Ref, a, b, n, layout)
				}
				for _, page := range []int{1, 2, 3} {
					seen := 0
					after := ""
					for rounds := 0; rounds < 64; rounds++ {
						pg, err := vmodel.Enumerate(ctx, sto, after, page)
						if err != nil {
							t.Fatalf("C12 violated: enumerate failed: %v", err)
						}
						for _, sb := range pg {
							if sb.Ref == extra.Ref {
								seen++
							}
						}
						if len(pg) < page {
							break
						}
						after = pg[len(pg)-1].Ref.String()
					}
					if seen != 1 {
						t.Fatalf("C12 violated: paging with page size %d lists blob %s (intact on #%d, shorter copy on #%d) %d times, want exactly once", page, extra.Ref, a, b, seen)
					}
				}
				cnt := 0
				if err := sto.StatBlobs(ctx, []blob.Ref{extra.Ref}, func(sb blob.SizedRef) error { cnt++; return nil }); err != nil || cnt != 1 {
					t.Fatalf("C12 violated: StatBlobs of %s (intact on #%d, shorter copy on #%d) reported it %d times (err %v), want exactly once", extra.Ref, a, b, cnt, err)
				}
				readStores[a].RawDelete(extra.Ref)
				readStores[b].RawDelete(extra.Ref)
			}
		}
		// fetch with erroring earlier replicas
		failMask := rapid.IntRange(0, 1<<nr-1).Draw(t, "fetchFailingReplicas")
		errBefore := false
		for _, b := range pool {
			holders := 0
			firstHealthyHolder := -1
			for i, s := range readStores {
				if _, ok := s.RawGet(b.Ref); ok {
					holders++
					if failMask&(1<<i) == 0 && firstHealthyHolder < 0 {
						firstHealthyHolder = i
					}
				}
			}
			env.Match = func(e *vstore.Event) vstore.Behaviour {
				if e.Op == "fetch" {
					for i, s := range readStores {
						if e.Layer == "store:"+s.Name && failMask&(1<<i) != 0 {
							return vstore.Fail
						}
					}
				}
				return vstore.OK
			}
			rc, size, err := sto.Fetch(ctx, b.Ref)
			env.Match = nil
			if firstHealthyHolder >= 0 {
				if failMask&(1<<firstHealthyHolder-1) != 0 {
					errBefore = true
				}
				if err != nil {
					t.Fatalf("C12 violated: blob %s is held by healthy read replica #%d (failing replicas mask %b, layout %v) but Fetch returned %v", b.Ref, firstHealthyHolder, failMask, layout, err)
				}
				d, _ := io.ReadAll(rc)
				rc.Close()
				if !bytes.Equal(d, b.Data) || int(size) != len(b.Data) {
					t.Fatalf("C12 violated: Fetch(%s) returned %d bytes size %d, want %d", b.Ref, len(d), size, len(b.Data))
				}
			} else if err == nil {
				d, _ := io.ReadAll(rc)
				rc.Close()
				if holders == 0 {
					t.Fatalf("C12 violated: no read replica holds %s but Fetch returned %d bytes", b.Ref, len(d))
				}
				// held only by failing replicas: success is impossible
				t.Fatalf("C12 violated: %s is held only by failing replicas (mask %b) but Fetch succeeded", b.Ref, failMask)
			}
		}
		// stat + enumerate + paging: exactly once under any overlap
		var refs []blob.Ref
		for _, b := range pool {
			refs = append(refs, b.Ref)
		}
		if err := model.CheckStat(ctx, sto, refs); err != nil {
			t.Fatalf("C12 violated: %v (layout %v)", err, layout)
		}
		cursor := vgen.GenCursor(t, pool)
		limit := rapid.SampledFrom([]int{1, 2, 3, 100}).Draw(t, "limit")
		if err := model.CheckEnumerate(ctx, sto, cursor, limit); err != nil {
			t.Fatalf("C12 violated: %v (layout %v)", err, layout)
		}
		if err := model.CheckPaging(ctx, sto, rapid.IntRange(1, 4).Draw(t, "page")); err != nil {
			t.Fatalf("C12 violated: %v (layout %v)", err, layout)
		}
		nt := partial || errBefore
		sort.Strings(layout)
		if nt {
			evid.R.NonTrivial(evid.Hash("r", nr, failMask, strings.Join(layout, ","), cursor, limit))
		}
		if evid.R.WantSample(nt) {
			evid.R.Sample(nt, map[string]any{"kind": "read-side", "readReplicas": nr, "distinctReadSet": distinct, "layout(ref@holdersMask)": layout, "fetchFailingReplicasMask": failMask, "cursor": cursor, "limit": limit})
		}
	})
}

// TestRetryOverHTTPStillNeedsQuorum: the replicated store behind the blob protocol handlers, driven by a
// pkg/client. A write that fails for lack of quorum may leave the blob on some replicas; a client's retry
// while the others are still down must fail again (one replica holding the blob is not a quorum), and
// succeed once enough replicas are back.
func TestRetryOverHTTPStillNeedsQuorum(t *testing.T) {
	evid.Check(t, 150, 1500, func(t *rapid.T) {
		n := rapid.IntRange(2, 4).Draw(t, "replicas")
		min := rapid.IntRange(2, n).Draw(t, "min")
		down := rapid.IntRange(n-min+1, n-1).Draw(t, "down") // so many fail that the quorum is out of reach
		env := vstore.NewEnv()
		defer env.ReleaseAll()
		ld := &loader{m: map[string]blobserver.Storage{}}
		var backends []any
		stores := make([]*vstore.Store, n)
		for i := range stores {
			stores[i] = env.NewStore(fmt.Sprintf("w%d", i))
			ld.m["/"+stores[i].Name+"/"] = stores[i]
			backends = append(backends, "/"+stores[i].Name+"/")
		}
		failing := map[string]bool{}
		for _, i := range rapid.Permutation(seqInts(n)).Draw(t, "downReplicas")[:down] {
			failing[fmt.Sprintf("store:w%d", i)] = true
		}
		env.Match = func(e *vstore.Event) vstore.Behaviour {
			if e.Op == "receive" && failing[e.Layer] {
				return vstore.Fail
			}
			return vstore.OK
		}
		rep, err := blobserver.CreateStorage("replica", ld, jsonconfig.Obj{"backends": backends, "minWritesForSuccess": float64(min)})
		if err != nil {
			t.Fatalf("harness: %v", err)
		}
		front, err := vcompose.NewHTTPStore(rep, rapid.Bool().Draw(t, "clientHaveCache"), nil)
		if err != nil {
			t.Fatalf("harness: %v", err)
		}
		defer front.(io.Closer).Close()
		data := []byte(fmt.Sprintf("retry payload n=%d min=%d down=%d %d", n, min, down, rapid.IntRange(0, 1<<20).Draw(t, "salt")))
		ref := blob.RefFromBytes(data)
		desc := fmt.Sprintf("replica of %d (minWritesForSuccess %d) behind the HTTP handlers, %d replicas down", n, min, down)
		evid.R.Eval()
		evid.R.Label("retry-over-http/case")
		evid.R.NonTrivial(evid.Hash("retry", n, min, down, string(data)))
		for attempt := 1; attempt <= 3; attempt++ {
			if _, err := blobserver.Receive(ctx, front, ref, bytes.NewReader(data)); err == nil {
				holders := 0
				for _, s := range stores {
					if d, ok := s.RawGet(ref); ok && bytes.Equal(d, data) {
						holders++
					}
				}
				t.Fatalf("C12 violated: %s: upload attempt %d was acknowledged; %d replicas hold the blob, the quorum is %d", desc, attempt, holders, min)
			}
		}
		for k := range failing {
			delete(failing, k)
		}
		if _, err := blobserver.Receive(ctx, front, ref, bytes.NewReader(data)); err != nil {
			t.Fatalf("C12 violated: %s, then all replicas healthy again: the retried upload failed: %v", desc, err)
		}
		holders := 0
		for _, s := range stores {
			if d, ok := s.RawGet(ref); ok && bytes.Equal(d, data) {
				holders++
			}
		}
		if holders < min {
			t.Fatalf("C12 violated: %s, then healthy: the retry was acknowledged but only %d replicas hold the blob (quorum %d)", desc, holders, min)
		}
		if evid.R.WantSample(true) {
			evid.R.Sample(true, map[string]any{"kind": "retry-over-http", "replicas": n, "minWritesForSuccess": min, "replicas_down_for_three_attempts": down})
		}
	})
}

func seqInts(n int) []int {
	out := make([]int, n)
	for i := range out {
		out[i] = i
	}
	return out
}
