// C01 — every storage backend and composition behaves as a content-addressed map.
package c01

import (
	"flag"
	"context"
	"errors"
	"fmt"
	"os"
	"strings"
	"testing"

	"perkeep.org/pkg/blob"
	"perkeep.org/pkg/blobserver"
	"pgregory.net/rapid"

	"verifharness/internal/evid"
	"verifharness/internal/known"
	"verifharness/internal/vcompose"
	"verifharness/internal/vgen"
	"verifharness/internal/vmodel"
	"verifharness/internal/vstore"
)

const prop = "C01"

func TestMain(m *testing.M) {
	evid.QuietStderr()
	evid.Main(m, prop, "exploration",
		"rapid state machine: a backend configuration tree (depth<=3) drawn from the grammar memory|verif|localdisk|diskpacked[maxFileSize]|blobpacked|encrypt|replica|shard|cond|overlay|namespace|proxycache[evicting cache]|union, "+
			"built through blobserver.CreateStorage; then up to 40 (quick) / 120 (thorough) operations receive(verified/direct, 5 reader kinds)/receiveDup/fetch/subfetch/stat(batch)/enumerate(any-string cursor, limit)/pageAll/remove(batch)/reopen over a pool of 4-12 blobs (empty, 1 byte, schema, non-schema JSON, small, KiB, 64KiB, 1MiB; sha1/sha224/sha256), "+
			"each compared with a reference map; full read battery at the end. "+
			"non-trivial = >=5 ops AND a mutation followed by a read of the same ref AND one of {remove then re-receive of one ref, duplicate receive, enumerate with a cursor that is not a present ref, composite depth>=2}; "+
			"distinct = FNV-64 of (configuration descriptor, operation list)")
}

var ctx = context.Background()

var rootTypes = []string{"memory", "localdisk", "diskpacked", "blobpacked", "encrypt", "replica", "shard", "cond", "overlay", "namespace", "proxycache", "union", "verif"}

type machine struct {
	t     *rapid.T
	b     *vcompose.Built
	sto   blobserver.Storage
	model *vmodel.Map
	pool  []vgen.Blob
	ops   []string
	desc  string

	mutated     map[blob.Ref]bool
	readAfter   bool
	removed     map[blob.Ref]bool
	reReceived  bool
	dupReceive  bool
	oddCursor   bool
	nOps        int
}

func (m *machine) logf(f string, a ...any) { m.ops = append(m.ops, fmt.Sprintf(f, a...)) }

func (m *machine) fail(err error) {
	m.t.Helper()
	if err == vmodel.ErrTimeout {
		m.t.Fatalf("VERIF-INCONCLUSIVE: watchdog timeout in %s after ops:\n%s", m.desc, strings.Join(m.ops, "\n"))
	}
	var mm *vmodel.Mismatch
	if errors.As(err, &mm) {
		if id := knownSig(m, mm); id != "" && known.Hit(prop, id, m.desc+": "+mm.Error()) {
			m.t.Skip("known finding " + id)
		}
	}
	m.t.Fatalf("C01 violated: %v\nconfiguration: %s\noperations:\n  %s", err, m.desc, strings.Join(m.ops, "\n  "))
}

// knownSig maps a mismatch to the id of a recorded open finding ("" = none).
func knownSig(m *machine, mm *vmodel.Mismatch) string {
	return ""
}

func (m *machine) pick(label string) vgen.Blob {
	return m.pool[rapid.IntRange(0, len(m.pool)-1).Draw(m.t, label)]
}

func (m *machine) noteRead(ref blob.Ref) {
	if m.mutated[ref] {
		m.readAfter = true
	}
}

func (m *machine) receive(t *rapid.T) {
	b := m.pick("blob")
	kind := rapid.SampledFrom(vgen.ReaderKinds).Draw(t, "reader")
	verified := rapid.Bool().Draw(t, "viaReceive")
	src := vgen.NewReader(kind, b.Data, uint64(len(m.ops)))
	was := m.model.State(b.Ref)
	m.logf("receive %s verified=%v reader=%s", b, verified, kind)
	var sb blob.SizedRef
	var err error
	if verified {
		sb, err = blobserver.Receive(ctx, m.sto, b.Ref, src)
	} else {
		sb, err = m.sto.ReceiveBlob(ctx, b.Ref, src)
	}
	if !m.b.Caps.Receive {
		if err == nil {
			m.fail(fmt.Errorf("receive on a read-only store succeeded"))
		}
		return
	}
	if err != nil {
		m.fail(fmt.Errorf("receive of %s failed: %v", b, err))
	}
	if sb.Ref != b.Ref || int(sb.Size) != len(b.Data) {
		m.fail(fmt.Errorf("receive of %s returned %v, want size %d", b, sb, len(b.Data)))
	}
	if was == vmodel.Present {
		m.dupReceive = true
	}
	if m.removed[b.Ref] {
		m.reReceived = true
	}
	m.model.SetPresent(b.Ref, b.Data)
	m.mutated[b.Ref] = true
}

func (m *machine) fetch(t *rapid.T) {
	b := m.pick("blob")
	m.logf("fetch %s", b.Ref)
	if err := m.model.CheckFetch(ctx, m.sto, b.Ref); err != nil {
		m.fail(err)
	}
	m.noteRead(b.Ref)
}

func (m *machine) subfetch(t *rapid.T) {
	sf, ok := m.sto.(blob.SubFetcher)
	if !ok {
		t.Skip("no SubFetcher")
	}
	b := m.pick("blob")
	n := int64(len(b.Data))
	off := rapid.OneOf(rapid.Int64Range(0, n+2), rapid.SampledFrom([]int64{-1, 0, n, n + 1, n - 1})).Draw(t, "off")
	length := rapid.OneOf(rapid.Int64Range(0, n+2), rapid.SampledFrom([]int64{-1, 0, 1, n, n + 1, 1 << 40})).Draw(t, "len")
	m.logf("subfetch %s off=%d len=%d", b.Ref, off, length)
	unimpl, err := m.model.CheckSubFetch(ctx, sf, b.Ref, off, length)
	if err != nil {
		m.fail(err)
	}
	if !unimpl {
		m.noteRead(b.Ref)
		evid.R.Label("op/subfetch-implemented")
	}
}

func (m *machine) stat(t *rapid.T) {
	idx := rapid.SliceOfNDistinct(rapid.IntRange(0, len(m.pool)-1), 1, len(m.pool), rapid.ID[int]).Draw(t, "statIdx")
	var refs []blob.Ref
	for _, i := range idx {
		refs = append(refs, m.pool[i].Ref)
		m.noteRead(m.pool[i].Ref)
	}
	if rapid.Bool().Draw(t, "withUnknown") {
		refs = append(refs, vgen.RefOf("sha224", []byte(fmt.Sprintf("unknown-%d", len(m.ops)))))
	}
	m.logf("stat %d refs %v", len(refs), idx)
	if err := m.model.CheckStat(ctx, m.sto, refs); err != nil {
		m.fail(err)
	}
}

func (m *machine) enumerate(t *rapid.T) {
	cursor := vgen.GenCursor(t, m.pool)
	limit := rapid.SampledFrom([]int{1, 2, 3, 5, 1000}).Draw(t, "limit")
	m.logf("enumerate after=%q limit=%d", cursor, limit)
	if err := m.model.CheckEnumerate(ctx, m.sto, cursor, limit); err != nil {
		m.fail(err)
	}
	if cursor != "" {
		isPresent := false
		for _, e := range m.model.PresentSorted() {
			if e.Ref.String() == cursor {
				isPresent = true
			}
		}
		if !isPresent {
			m.oddCursor = true
		}
	}
}

func (m *machine) pageAll(t *rapid.T) {
	page := rapid.IntRange(1, 5).Draw(t, "page")
	m.logf("pageAll page=%d", page)
	if err := m.model.CheckPaging(ctx, m.sto, page); err != nil {
		m.fail(err)
	}
}

func (m *machine) remove(t *rapid.T) {
	if !m.b.Caps.Remove && m.b.Tree.Type != "union" && m.b.Tree.Type != "encrypt" {
		t.Skip("composition without removal")
	}
	idx := rapid.SliceOfNDistinct(rapid.IntRange(0, len(m.pool)-1), 1, 4, rapid.ID[int]).Draw(t, "rmIdx")
	var refs []blob.Ref
	for _, i := range idx {
		refs = append(refs, m.pool[i].Ref)
	}
	m.logf("remove %v", idx)
	err := m.sto.RemoveBlobs(ctx, refs)
	if !m.b.Caps.Remove {
		if err == nil {
			m.fail(fmt.Errorf("RemoveBlobs on a store without removal support returned nil"))
		}
		return // model unchanged: everything must still be there
	}
	if err != nil {
		m.fail(fmt.Errorf("RemoveBlobs(%v) failed: %v", refs, err))
	}
	for _, r := range refs {
		if m.model.State(r) == vmodel.Present {
			m.removed[r] = true
		}
		m.model.SetAbsent(r)
		m.mutated[r] = true
	}
}

func (m *machine) reopen(t *rapid.T) {
	if !m.b.Caps.Persistent {
		t.Skip("not persistent")
	}
	m.logf("reopen")
	if err := m.b.Reopen(); err != nil {
		m.fail(fmt.Errorf("reopen failed: %v", err))
	}
	m.sto = m.b.Root
	evid.R.Label("history/with-reopen-op")
}

func runCase(t *rapid.T) {
	root := ""
	if rapid.IntRange(0, 9).Draw(t, "forceRoot") < 7 {
		root = rapid.SampledFrom(rootTypes).Draw(t, "root")
	}
	tree := vcompose.GenTree(t, 3, root)
	pool := vgen.GenPool(t, 4, 12, rapid.IntRange(0, 5).Draw(t, "bigBlobs") == 0)
	dir, err := os.MkdirTemp("", "verif-c01-")
	if err != nil {
		t.Fatalf("VERIF-INCONCLUSIVE: mkdtemp: %v", err)
	}
	defer os.RemoveAll(dir)
	env := vstore.NewEnv()
	b, err := vcompose.Build(env, dir, tree)
	if err != nil {
		t.Fatalf("C01 harness: cannot build %s: %v", tree, err)
	}
	defer b.Release()
	m := &machine{t: t, b: b, sto: b.Root, model: vmodel.New(), pool: pool, desc: tree.String(),
		mutated: map[blob.Ref]bool{}, removed: map[blob.Ref]bool{}}
	for _, pb := range pool {
		m.model.Know(pb.Ref, pb.Data)
	}
	// preloaded leaves (overlay lower, union subsets): overlapping subsets of the pool
	for _, leaf := range b.Preload {
		for i, pb := range pool {
			if rapid.IntRange(0, 2).Draw(t, fmt.Sprintf("preload%d", i)) == 0 {
				if err := b.PreloadBlob(leaf, pb.Ref, pb.Data); err != nil {
					t.Fatalf("C01 harness: preload: %v", err)
				}
				m.model.SetPresent(pb.Ref, pb.Data)
				m.logf("preload %s into %s", pb.Ref, leaf.Type)
			}
		}
	}
	evid.R.Eval()
	evid.R.Label("root/" + tree.Type)
	for _, ty := range tree.Types() {
		evid.R.Label("node/" + ty)
	}
	evid.R.Label(fmt.Sprintf("depth/%d", tree.Depth()))

	count := func(f func(*rapid.T)) func(*rapid.T) {
		return func(t *rapid.T) {
			f(t)
			m.nOps++
		}
	}
	t.Repeat(map[string]func(*rapid.T){
		"receive":   count(m.receive),
		"receive2":  count(m.receive),
		"fetch":     count(m.fetch),
		"subfetch":  count(m.subfetch),
		"stat":      count(m.stat),
		"enumerate": count(m.enumerate),
		"pageAll":   count(m.pageAll),
		"remove":    count(m.remove),
		"reopen":    count(m.reopen),
		"": func(t *rapid.T) {
			// cheap invariant each step: the number of present blobs never exceeds the pool
			if m.model.NumPresent() > len(m.pool) {
				t.Fatalf("harness: model larger than pool")
			}
		},
	})
	// final full battery
	m.logf("final battery")
	var extra []blob.Ref
	extra = append(extra, vgen.RefOf("sha1", []byte("never-stored")))
	if err := m.model.Battery(ctx, m.sto, extra, 3); err != nil {
		m.fail(err)
	}
	nt := m.nOps >= 5 && m.readAfter && (m.reReceived || m.dupReceive || m.oddCursor || tree.Depth() >= 2)
	if m.reReceived {
		evid.R.Label("history/remove-then-rereceive")
	}
	if m.dupReceive {
		evid.R.Label("history/duplicate-receive")
	}
	if m.oddCursor {
		evid.R.Label("history/non-ref-cursor")
	}
	if nt {
		evid.R.NonTrivial(evid.Hash(m.desc, strings.Join(m.ops, "|")))
	}
	if evid.R.WantSample(nt) {
		evid.R.Sample(nt, map[string]any{"configuration": m.desc, "pool": fmt.Sprint(pool), "operations": m.ops})
	}
}

func TestBackendsAreMaps(t *testing.T) {
	flag.Set("rapid.steps", fmt.Sprint(evid.Pick(25, 60)))
	evid.Check(t, 2500, 8000, runCase)
}
