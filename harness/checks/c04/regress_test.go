package c04

import (
	"fmt"
	"testing"

	"perkeep.org/pkg/blobserver/blobpacked"

	"verifharness/internal/evid"
	"verifharness/internal/known"
)

// TestInterruptedPackThenSameContentOtherSplit is the shrunk form of the
// generated case behind the open finding C04-reindex-panics-on-same-part-different-split
// (VERIF_SEED=2, 9th history): the pack of "x" dies between its first and second
// zip; after the restart the same bytes arrive as "photo.jpg", whose longer file
// schema blob makes the first zip hold one chunk less; the meta index is lost;
// blobpacked must start in recovery mode and serve everything from the zips.
// While the finding is open the test reports it through known.Hit; once it is
// repaired the same test checks the recovered store.
func TestInterruptedPackThenSameContentOtherSplit(t *testing.T) {
	if evid.Replaying() {
		t.Skip()
	}
	a := fileSpec{Name: "x", Seed: 2093387, Size: 921601}
	b := a
	b.Name = "photo.jpg"
	fa, err := buildFile(a)
	if err != nil {
		t.Fatal(err)
	}
	fb, err := buildFile(b)
	if err != nil {
		t.Fatal(err)
	}
	h := &history{specs: []fileSpec{a, b}, second: "same-content-other-name", page: 3, wholeOff: 12345}
	h.u = newUniverse([]*builtFile{fa, fb})
	// the first zip of "x" is exactly full (by the packer's estimate) with 4 chunks
	h.maxZip = fa.FitSizes[3]
	h.maxZipDrawn = h.maxZip
	h.exactFit = true
	h.seq = append(append([]int{}, h.u.fileBlobs[0]...), h.u.fileBlobs[1]...)
	nA := len(h.u.fileBlobs[0])

	w := newWorld(h.maxZip)
	defer w.release()
	if err := w.open(blobpacked.NoRecovery); err != nil {
		t.Fatal(err)
	}
	r := newRun(h, w)
	for _, ix := range h.seq[:nA-1] {
		if _, err := r.upload(ix, "chunks and inner schema blobs of x"); err != nil {
			t.Fatal(err)
		}
	}
	// learn the writes of the pack on a copy, then crash the real one before its second zip
	pre := w.snapshot()
	probe := newWorld(h.maxZip)
	defer probe.release()
	probe.restore(pre)
	if err := probe.open(blobpacked.NoRecovery); err != nil {
		t.Fatal(err)
	}
	pr := newRun(h, probe)
	muts, err := pr.upload(h.seq[nA-1], "probe: file blob of x")
	if err != nil {
		t.Fatal(err)
	}
	k, zips := 0, 0
	for i, ev := range muts {
		if ev.Layer == "store:large" && ev.Op == "receive" {
			zips++
			if zips == 2 {
				k = i + 1
			}
		}
	}
	if k == 0 {
		t.Fatalf("harness: the pack of x wrote %d zips, want >= 2 (max zip %d)", zips, h.maxZip)
	}
	w.env.FreezeAtMut(k)
	target := h.u.U[h.seq[nA-1]]
	safeReceive(w.sto, target)
	if !w.env.Frozen() {
		t.Fatal("harness: crash point not reached")
	}
	r.tolerant = true
	r.model.SetPresent(target.Ref, target.Data) // stored by the first write of the upload (k >= 2)
	crashed := w.snapshot()
	w2 := newWorld(h.maxZip)
	defer w2.release()
	w2.restore(crashed)
	r2 := r.cloneOnto(w2)
	if err := r2.reopen(blobpacked.NoRecovery, "after the crash"); err != nil {
		t.Fatal(err)
	}
	if err := r2.check("after crash + restart"); err != nil {
		t.Fatalf("C04 violated: %v", err)
	}
	for _, ix := range h.seq[nA:] {
		if _, err := r2.upload(ix, "photo.jpg"); err != nil {
			t.Fatal(err)
		}
	}
	if err := r2.check("after the upload of the same content as photo.jpg"); err != nil {
		t.Fatalf("C04 violated: %v", err)
	}
	w2.meta.WipeRaw()
	for _, mode := range []blobpacked.RecoveryMode{blobpacked.FastRecovery, blobpacked.FullRecovery} {
		err := r2.reopen(mode, "meta index emptied")
		if err == nil {
			err = r2.check("after recovery over an emptied meta index")
		}
		if err == nil {
			continue
		}
		if id := knownSig(h, r2, err); id != "" && known.Hit(prop, id, fmt.Sprintf("regression case, recovery mode %s: %s", modeNames[mode], firstLine(err.Error()))) {
			return
		}
		t.Fatalf("C04 violated (recovery mode %s): %v\n%s", modeNames[mode], err, h.describe())
	}
}
