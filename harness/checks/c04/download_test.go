package c04

import (
	"bytes"
	"fmt"
	"net/http"
	"net/http/httptest"

	"perkeep.org/pkg/blobserver"
	"perkeep.org/pkg/index"
	"perkeep.org/pkg/search"
	"perkeep.org/pkg/server"
	"perkeep.org/pkg/test"
)

// checkDownloads: what a browser gets for the files of the history through the server's download
// handler (which serves packed files from the zips when the index knows their whole-file ref): the
// whole file, and byte ranges, must be the file's bytes whether its chunks are loose or packed.
// ranges is a list of (offset seed, length seed) pairs.
func checkDownloads(h *history, w *world, ranges [][2]int64) error {
	ix := index.NewMemoryIndex()
	src := new(test.Fetcher)
	ix.InitBlobSource(src)
	for _, b := range h.u.U {
		tb := &test.Blob{Contents: string(b.Data)}
		src.AddBlob(tb)
	}
	for _, b := range h.u.U {
		if _, err := ix.ReceiveBlob(ctx, b.Ref, bytes.NewReader(b.Data)); err != nil {
			return fmt.Errorf("harness: indexing %v: %v", b.Ref, err)
		}
	}
	sh := search.NewHandler(ix, nil)
	fe, ok := w.sto.(blobserver.FetcherEnumerator)
	if !ok {
		return nil
	}
	_ = fe
	for fi, f := range h.u.Files {
		size := int64(len(f.Content))
		type rg struct {
			hdr      string
			from, to int64
			code     int
		}
		rgs := []rg{{"", 0, size, http.StatusOK}, {fmt.Sprintf("bytes=0-%d", size-1), 0, size, http.StatusPartialContent}, {"bytes=-300", size - 300, size, http.StatusPartialContent}}
		for _, r := range ranges {
			from := r[0] % size
			to := from + 1 + r[1]%(size-from)
			rgs = append(rgs, rg{fmt.Sprintf("bytes=%d-%d", from, to-1), from, to, http.StatusPartialContent})
			rgs = append(rgs, rg{fmt.Sprintf("bytes=%d-", from), from, size, http.StatusPartialContent})
		}
		for _, r := range rgs {
			dh := &server.DownloadHandler{Fetcher: w.sto, Search: sh}
			req := httptest.NewRequest("GET", "/download/"+f.FileRef.String()+"/f.bin", nil)
			if r.hdr != "" {
				req.Header.Set("Range", r.hdr)
			}
			rec := httptest.NewRecorder()
			dh.ServeFile(rec, req, f.FileRef)
			if rec.Code != r.code || !bytes.Equal(rec.Body.Bytes(), f.Content[r.from:r.to]) {
				return fmt.Errorf("download of file %d (%v, %d bytes) with Range %q: HTTP %d with %d body bytes (served from the zips: %q); want HTTP %d with the %d bytes [%d,%d) of the file",
					fi, f.FileRef, size, r.hdr, rec.Code, rec.Body.Len(), rec.Header().Get("X-Camlistore-Packed"), r.code, r.to-r.from, r.from, r.to)
			}
		}
	}
	return nil
}
