package c04

import (
	"bytes"
	"fmt"
	"testing"
	"time"

	"go4.org/jsonconfig"
	"perkeep.org/pkg/blob"
	"perkeep.org/pkg/blobserver"
	"perkeep.org/pkg/blobserver/memory"
	"pgregory.net/rapid"

	"verifharness/internal/evid"
)

// TestListingInFlightAcrossAPack: a client is in the middle of an enumeration (it reads slowly) when
// the upload of a file's schema blob makes the server pack the file: the chunks move from the loose
// store into a zip. "Every acknowledged logical blob is still ... enumerated exactly once": every blob
// that was acknowledged before the listing began and that nobody removed must be in the listing, once,
// in ascending order. Here the loose and zip stores are perkeep's own in-memory stores (the harness
// stores' listing is a snapshot and cannot interleave with a pack at all).
func TestListingInFlightAcrossAPack(t *testing.T) {
	evid.Check(t, 12, 100, func(t *rapid.T) {
		spec := genSpec(t, "f")
		if spec.Size > 1200<<10 {
			spec.Size = 600<<10 + spec.Size%(600<<10)
		}
		f, err := buildFile(spec)
		if err != nil {
			t.Fatalf("harness: %v", err)
		}
		ld := &loader{m: map[string]blobserver.Storage{"/small/": new(memory.Storage), "/large/": new(memory.Storage)}}
		sto, err := blobserver.CreateStorage("blobpacked", ld, jsonconfig.Obj{
			"smallBlobs": "/small/", "largeBlobs": "/large/", "metaIndex": map[string]any{"type": "memory"},
		})
		if err != nil {
			t.Fatalf("harness: %v", err)
		}
		var before []blob.Ref
		var fileBlob lblob
		for _, b := range f.Blobs {
			if b.Kind == "file" {
				fileBlob = b
				continue
			}
			if _, err := blobserver.Receive(ctx, sto, b.Ref, bytes.NewReader(b.Data)); err != nil {
				t.Fatalf("harness: upload of %v: %v", b.Ref, err)
			}
			before = append(before, b.Ref)
		}
		readFirst := rapid.IntRange(0, min(4, len(before)-1)).Draw(t, "entriesReadBeforeThePack")
		dest := make(chan blob.SizedRef) // unbuffered: the listing proceeds at the reader's pace
		enumErr := make(chan error, 1)
		go func() { enumErr <- sto.EnumerateBlobs(ctx, dest, "", 100000) }()
		var listed []blob.Ref
		for i := 0; i < readFirst; i++ {
			sb, ok := <-dest
			if !ok {
				break
			}
			listed = append(listed, sb.Ref)
		}
		packDone := make(chan error, 1)
		go func() {
			_, err := blobserver.Receive(ctx, sto, fileBlob.Ref, bytes.NewReader(fileBlob.Data))
			packDone <- err
		}()
		time.Sleep(time.Duration(rapid.IntRange(0, 20).Draw(t, "pauseMS")) * time.Millisecond) // the reader is slow
		for sb := range dest {
			listed = append(listed, sb.Ref)
			if len(listed)%8 == 0 {
				time.Sleep(200 * time.Microsecond)
			}
		}
		if err := <-enumErr; err != nil {
			t.Fatalf("C04 violated: the listing that was in flight while the file was packed failed: %v", err)
		}
		select {
		case err := <-packDone:
			if err != nil {
				t.Fatalf("C04 violated: upload of the file schema blob failed: %v", err)
			}
		case <-time.After(60 * time.Second):
			t.Fatalf("VERIF-INCONCLUSIVE: the pack-triggering upload did not return within 60s")
		}
		evid.R.Eval()
		evid.R.Label("listing-in-flight/case")
		evid.R.NonTrivial(evid.Hash("listing", fmt.Sprint(spec), readFirst))
		seen := map[blob.Ref]int{}
		for i, r := range listed {
			seen[r]++
			if i > 0 && !listed[i-1].Less(r) {
				t.Fatalf("C04 violated: the listing in flight across the pack is not ascending at position %d: %v then %v", i, listed[i-1], r)
			}
		}
		for _, r := range before {
			if seen[r] != 1 {
				t.Fatalf("C04 violated: blob %v (acknowledged before the listing began, never removed) appears %d times in a listing that was in flight while its file was packed (%d of %d such blobs listed; %d entries read before the pack started)", r, seen[r], len(seen), len(before), readFirst)
			}
		}
		if evid.R.WantSample(true) {
			evid.R.Sample(true, map[string]any{"kind": "listing-in-flight-across-a-pack", "file": fmt.Sprint(spec), "logical_blobs_before": len(before), "entries_read_before_the_pack": readFirst})
		}
	})
}
