// C04 — packing files into zips is invisible to clients and recoverable from the zips.
package c04

import (
	"bytes"
	"context"
	"errors"
	"fmt"
	"io"
	"os"
	"runtime/debug"
	"sort"
	"strings"
	"sync"
	"testing"

	"go4.org/jsonconfig"
	"perkeep.org/pkg/blob"
	"perkeep.org/pkg/blobserver"
	"perkeep.org/pkg/blobserver/blobpacked"
	"pgregory.net/rapid"

	"verifharness/internal/evid"
	"verifharness/internal/known"
	"verifharness/internal/vgen"
	"verifharness/internal/vmodel"
	"verifharness/internal/vstore"
)

const prop = "C04"

func TestMain(m *testing.M) {
	if os.Getenv("VERIF_LOG") == "" {
		// every blobpacked instance creates its own logger on os.Stderr ("Packing file ...");
		// runtime panics and test timeouts still go to the real fd 2.
		if f, err := os.OpenFile(os.DevNull, os.O_WRONLY, 0); err == nil {
			os.Stderr = f
		}
	}
	// the check allocates and drops megabyte buffers at a high rate; keep the heap near the live set
	debug.SetGCPercent(50)
	debug.SetMemoryLimit(640 << 20)
	evid.Main(m, prop, "fault_enumeration",
		"rapid histories: 1-2 files at or above the 512 KiB packing threshold (512 KiB..2.2 MiB; noise, short-period and rolling-checksum-period content with repeated chunks; a second file with identical content under another name or a different file), cut by schema.WriteFileFromReader into a staging store and uploaded blob by blob to blobpacked(small=harness store, large=harness store, meta=harness KV) in a drawn order (writer order / file schema blob first / shuffled / reversed, duplicates, final re-upload of the file blob, two files sequential/swapped/interleaved), forced maximum zip size in {default 16 MiB, 300 KiB..1 MiB, first zip exactly full by the packer's own size estimate -1..+48 bytes} (1-11 zips per file; never smaller than the largest chunk plus schema blobs). "+
			"A dry run on fresh stores finds the uploads that write a zip and logs their mutating lower-layer calls; for one of them (drawn) the crash point k = 'the k-th mutating lower-layer call and everything after it fails' is enumerated (quick: 3 drawn kinds; thorough: every k, plus k = no crash) and each crashed state is restarted in 3 modes (no recovery, FastRecovery, FullRecovery); then the same drawn suffix runs: re-upload of the file blob, the remaining uploads, RemoveBlobs of packed and loose blobs, re-upload of removed ones, loss of the whole meta index followed by a recovery restart. "+
			"Oracle at every step: reference-map battery over the logical blobs (fetch, 4 sub-ranges, stat, enumerate, paging; in-flight blob = maybe), schema.FileReader over the store returns the file, OpenWholeRef at 3 offsets is exact whenever it opens and must open after a completed pack and after recovery if it opened before the meta loss, every blob of large is a valid zip (hash, size limits, manifest offsets and hashes, first entry = the file's bytes at the part's offset). Removed blobs must be absent in histories without crash and recovery; after a crash or a re-index they may be visible again iff their bytes are right. "+
			"non-trivial = at least one zip was stored before the crash point and the crash point is a write of the pack (between two of its writes), or a recovery mode re-indexed >= 1 zip; distinct = FNV-64 of (files, upload sequence, zip size, suffix plan, crash point k, restart mode)")
}

var ctx = context.Background()

// ---------------------------------------------------------------------------
// world: the lower layer and the blobpacked instance over it

type loader struct{ m map[string]blobserver.Storage }

func (ld *loader) FindHandlerByType(string) (string, any, error) {
	return "", nil, blobserver.ErrHandlerTypeNotFound
}
func (ld *loader) AllHandlers() (map[string]string, map[string]any) { return nil, nil }
func (ld *loader) MyPrefix() string                                 { return "/bp/" }
func (ld *loader) BaseURL() string                                  { return "" }
func (ld *loader) GetHandlerType(string) string                     { return "" }
func (ld *loader) GetHandler(p string) (any, error)                 { return ld.GetStorage(p) }
func (ld *loader) GetStorage(p string) (blobserver.Storage, error) {
	if s, ok := ld.m[p]; ok {
		return s, nil
	}
	return nil, fmt.Errorf("no storage %q", p)
}

// detachable forwards to a harness store until it is detached.
// blobserver.ReceiveNoHash (used by the packer for every zip) registers its
// destination storage in a process-global map (blobserver.GetHub) and never
// forgets it; handing blobpacked the *vstore.Store itself would keep every
// world of every case (all its zips) reachable for the life of the process.
// The hub map only ever sees this small handle, which drops its store when
// the world is released.
type detachable struct {
	mu sync.RWMutex
	s  *vstore.Store
}

var errDetached = errors.New("harness: store of a released world used")

func (d *detachable) get() *vstore.Store { d.mu.RLock(); defer d.mu.RUnlock(); return d.s }
func (d *detachable) detach()            { d.mu.Lock(); d.s = nil; d.mu.Unlock() }

func (d *detachable) Fetch(ctx context.Context, br blob.Ref) (io.ReadCloser, uint32, error) {
	if s := d.get(); s != nil {
		return s.Fetch(ctx, br)
	}
	return nil, 0, errDetached
}
func (d *detachable) SubFetch(ctx context.Context, br blob.Ref, off, n int64) (io.ReadCloser, error) {
	if s := d.get(); s != nil {
		return s.SubFetch(ctx, br, off, n)
	}
	return nil, errDetached
}
func (d *detachable) ReceiveBlob(ctx context.Context, br blob.Ref, src io.Reader) (blob.SizedRef, error) {
	if s := d.get(); s != nil {
		return s.ReceiveBlob(ctx, br, src)
	}
	return blob.SizedRef{}, errDetached
}
func (d *detachable) StatBlobs(ctx context.Context, blobs []blob.Ref, fn func(blob.SizedRef) error) error {
	if s := d.get(); s != nil {
		return s.StatBlobs(ctx, blobs, fn)
	}
	return errDetached
}
func (d *detachable) EnumerateBlobs(ctx context.Context, dest chan<- blob.SizedRef, after string, limit int) error {
	if s := d.get(); s != nil {
		return s.EnumerateBlobs(ctx, dest, after, limit)
	}
	close(dest)
	return errDetached
}
func (d *detachable) RemoveBlobs(ctx context.Context, blobs []blob.Ref) error {
	if s := d.get(); s != nil {
		return s.RemoveBlobs(ctx, blobs)
	}
	return errDetached
}

type world struct {
	env    *vstore.Env
	small  *vstore.Store
	large  *vstore.Store
	meta   *vstore.KV
	sto    blobserver.Storage
	maxZip int
	hs, hl *detachable // what blobpacked is given as small / large

	mutCount int // mutating calls since the last resetFuse
	fuse     bool
}

// errFuse is panicked (as an error, so that writeAZip's recover turns it into a
// failed pack) when one upload performs an absurd number of lower-layer writes.
var errFuse = errors.New("verif: fuse blown: more than 3000 mutating lower-layer calls in one upload")

func newWorld(maxZip int) *world {
	env := vstore.NewEnv()
	w := &world{env: env, small: env.NewStore("small"), large: env.NewStore("large"), meta: env.NewKV("meta"), maxZip: maxZip}
	w.hs, w.hl = &detachable{s: w.small}, &detachable{s: w.large}
	env.BeforeMut = func(*vstore.Event) {
		w.mutCount++
		if w.mutCount > 3000 {
			w.fuse = true
			panic(errFuse)
		}
	}
	return w
}

// release makes the world collectable (see detachable).
func (w *world) release() {
	w.hs.detach()
	w.hl.detach()
	w.sto = nil
}

type snap struct {
	small, large map[blob.Ref][]byte
	meta         map[string]string
}

func (w *world) snapshot() snap {
	return snap{small: w.small.Snapshot(), large: w.large.Snapshot(), meta: w.meta.Dump()}
}

func (w *world) restore(s snap) {
	w.small.Restore(s.small)
	w.large.Restore(s.large)
	w.meta.WipeRaw()
	keys := make([]string, 0, len(s.meta))
	for k := range s.meta {
		keys = append(keys, k)
	}
	sort.Strings(keys)
	for _, k := range keys {
		w.meta.Inner().Set(k, s.meta[k])
	}
}

var modeNames = map[blobpacked.RecoveryMode]string{blobpacked.NoRecovery: "none", blobpacked.FastRecovery: "fast", blobpacked.FullRecovery: "full"}

// open creates a new blobpacked instance over the named stores (= process start).
func (w *world) open(mode blobpacked.RecoveryMode) (err error) {
	defer func() {
		if e := recover(); e != nil {
			err = fmt.Errorf("panic while starting blobpacked (recovery mode %s): %v\n%s", modeNames[mode], e, shortStack())
		}
	}()
	vstore.SetCurrent(w.env)
	blobpacked.SetRecovery(mode)
	defer blobpacked.SetRecovery(blobpacked.NoRecovery)
	w.mutCount = 0
	ld := &loader{m: map[string]blobserver.Storage{"/small/": w.hs, "/large/": w.hl}}
	sto, err := blobserver.CreateStorage("blobpacked", ld, jsonconfig.Obj{
		"smallBlobs": "/small/",
		"largeBlobs": "/large/",
		"metaIndex":  map[string]any{"type": "verifkv", "name": "meta"},
		"keepGoing":  true, // condFatalf would os.Exit otherwise
	})
	if err != nil {
		return err
	}
	if w.maxZip > 0 && !blobpacked.VerifSetMaxZipSize(sto, w.maxZip) {
		return errors.New("harness: VerifSetMaxZipSize: not a blobpacked storage")
	}
	w.sto = sto
	return nil
}

// ---------------------------------------------------------------------------
// history

type suffixPlan struct {
	Retry     bool  `json:"reupload_file_blob_after_restart"`
	Removes   []int `json:"remove"`
	ReReceive []int `json:"reupload_removed"`
	WipeMode  int   `json:"recovery_mode_after_meta_loss"` // 1 fast, 2 full
}

type history struct {
	specs       []fileSpec
	second      string
	u           *universe
	seq         []int
	orderKinds  []string
	maxZipDrawn int
	maxZip      int
	exactFit    bool
	manyZips    bool
	wholeOff    int64
	page        int
	plan        suffixPlan
	hash        uint64
}

func (h *history) describe() string {
	var sb strings.Builder
	for i, f := range h.u.Files {
		fmt.Fprintf(&sb, "file %d: %s -> %d chunks (max %d B, repeated=%v), %d schema blobs, fileRef %v wholeRef %v\n", i, f.Spec, len(f.ChunkSeq), f.MaxChunk, f.Repeated, f.NSchema, f.FileRef, f.WholeRef)
	}
	fmt.Fprintf(&sb, "second file: %s; upload order %v; max zip size %d (drawn %d)\n", h.second, h.orderKinds, h.maxZip, h.maxZipDrawn)
	fmt.Fprintf(&sb, "upload sequence (index:kind):")
	for _, ix := range h.seq {
		fmt.Fprintf(&sb, " %d:%s", ix, h.u.U[ix].Kind)
	}
	fmt.Fprintf(&sb, "\nsuffix plan: %+v; OpenWholeRef offset seed %d; page %d\n", h.plan, h.wholeOff, h.page)
	return sb.String()
}

func genHistory(t *rapid.T) *history {
	h := &history{}
	first := genSpec(t, "f0")
	// one history in ten: a file spread over more than ten zips (the per-zip rows of the meta index
	// are keyed by a decimal part number, so their key order stops being their numeric order at 10)
	h.manyZips = rapid.IntRange(0, 9).Draw(t, "manyZips") == 0
	if h.manyZips {
		first.Size = rapid.IntRange(3<<20, 4500<<10).Draw(t, "manyZipsSize")
		first.Period = 0
	}
	h.specs = []fileSpec{first}
	h.second = rapid.SampledFrom([]string{"none", "none", "same-content-other-name", "same-content-other-name", "different"}).Draw(t, "secondFile")
	if h.manyZips {
		h.second = "none"
	}
	switch h.second {
	case "same-content-other-name":
		s := first
		for s.Name == first.Name {
			s.Name = rapid.SampledFrom(fileNames).Draw(t, "f1Name")
		}
		h.specs = append(h.specs, s)
	case "different":
		s := genSpec(t, "f1")
		if s.Size > 1200<<10 {
			s.Size = 600<<10 + s.Size%(600<<10) // keep two-file histories affordable
		}
		if s == first {
			s.Seed++
		}
		h.specs = append(h.specs, s)
	}
	var files []*builtFile
	maxChunk, schemaOverhead := 0, 0
	for _, s := range h.specs {
		bf, err := buildFile(s)
		if err != nil {
			t.Fatalf("harness: building %s: %v", s, err)
		}
		files = append(files, bf)
		if bf.MaxChunk > maxChunk {
			maxChunk = bf.MaxChunk
		}
		if o := bf.SchemaBytes + 166*bf.NSchema; o > schemaOverhead {
			schemaOverhead = o
		}
	}
	h.u = newUniverse(files)
	h.seq, h.orderKinds = genDeliveries(t, h.u)
	switch zc := rapid.IntRange(0, 7).Draw(t, "zipSizeClass"); {
	case h.manyZips:
		h.maxZipDrawn = rapid.IntRange(280<<10, 360<<10).Draw(t, "manyZipsMaxZip")
	case zc <= 1:
		h.maxZipDrawn = 0
	case zc == 2 && len(files[0].FitSizes) > 3:
		// boundary: the first zip is (by the packer's own estimate) exactly full, or full
		// within the few bytes by which the file schema blobs of two names differ, after
		// >= 3 chunks (so that the packer's truncate-and-retry path can back up)
		fs := files[0].FitSizes
		j := rapid.IntRange(2, len(fs)-2).Draw(t, "fitChunks")
		h.maxZipDrawn = fs[j] + rapid.IntRange(-1, 48).Draw(t, "fitSlack")
		h.exactFit = true
	default:
		h.maxZipDrawn = rapid.IntRange(300<<10, 1<<20).Draw(t, "maxZip")
	}
	h.maxZip = h.maxZipDrawn
	if h.maxZip > 0 {
		// Domain: the packer assumes that a chunk plus the schema blobs above it always
		// fit into an empty zip (true for 1 MiB chunks and 16 MiB zips); with a forced
		// tiny zip size a pack that cannot place its next chunk never terminates.
		if min := maxChunk + schemaOverhead + 2048; h.maxZip < min {
			h.maxZip = min
		}
	}
	h.wholeOff = rapid.Int64Range(1, 1<<40).Draw(t, "wholeOff")
	h.page = rapid.IntRange(1, 7).Draw(t, "page")
	h.plan.Retry = rapid.IntRange(0, 2).Draw(t, "retryFileBlob") > 0
	if rapid.IntRange(0, 3).Draw(t, "withRemoves") > 0 {
		h.plan.Removes = rapid.SliceOfNDistinct(rapid.IntRange(0, len(h.u.U)-1), 1, 4, rapid.ID[int]).Draw(t, "removes")
		for _, ix := range h.plan.Removes {
			if rapid.IntRange(0, 2).Draw(t, "reReceive") == 0 {
				h.plan.ReReceive = append(h.plan.ReReceive, ix)
			}
		}
	}
	h.plan.WipeMode = rapid.IntRange(1, 2).Draw(t, "wipeRecoveryMode")
	h.hash = evid.Hash(fmt.Sprint(h.specs), fmt.Sprint(h.seq), h.maxZip, fmt.Sprintf("%+v", h.plan), h.page, h.wholeOff)
	return h
}

// ---------------------------------------------------------------------------
// run: one execution of (a part of) a history against one world

type run struct {
	h           *history
	w           *world
	model       *vmodel.Map
	maybes      map[blob.Ref]bool  // un-pinned whenever a new instance starts
	removed     map[blob.Ref]bool  // removed and not re-uploaded
	tolerant    bool               // a crash or a re-index happened: removed blobs may be visible again
	completed   map[blob.Ref]bool  // wholeRef -> a pack wrote its final w: row
	wholeServed map[blob.Ref]bool  // wholeRef -> OpenWholeRef opened at the last check
	partStart   map[blob.Ref]int64 // wholeRef -> file offset where some zip after the first starts
	steps       []string
	reappeared  int
}

func newRun(h *history, w *world) *run {
	r := &run{h: h, w: w, model: vmodel.New(), maybes: map[blob.Ref]bool{}, removed: map[blob.Ref]bool{}, completed: map[blob.Ref]bool{}, wholeServed: map[blob.Ref]bool{}, partStart: map[blob.Ref]int64{}}
	for _, b := range h.u.U {
		r.model.Know(b.Ref, b.Data)
	}
	return r
}

func (r *run) cloneOnto(w *world) *run {
	c := &run{h: r.h, w: w, model: r.model.Clone(), maybes: map[blob.Ref]bool{}, removed: map[blob.Ref]bool{}, completed: map[blob.Ref]bool{}, wholeServed: map[blob.Ref]bool{}, partStart: map[blob.Ref]int64{}, tolerant: r.tolerant}
	for k := range r.maybes {
		c.maybes[k] = true
	}
	for k := range r.removed {
		c.removed[k] = true
	}
	for k := range r.completed {
		c.completed[k] = true
	}
	c.steps = append([]string(nil), r.steps...)
	return c
}

func (r *run) logf(f string, a ...any) { r.steps = append(r.steps, fmt.Sprintf(f, a...)) }

// unpin: a new instance may see a maybe-blob differently than the previous one.
func (r *run) unpin() {
	for ref := range r.maybes {
		r.model.SetMaybe(ref, r.h.u.U[r.h.u.idx[ref]].Data)
	}
}

type callResult struct {
	sb  blob.SizedRef
	err error
}

func safeReceive(sto blobserver.Storage, b lblob) (res callResult) {
	defer func() {
		if e := recover(); e != nil {
			res.err = fmt.Errorf("panic in ReceiveBlob(%v): %v\n%s", b.Ref, e, shortStack())
		}
	}()
	res.sb, res.err = sto.ReceiveBlob(ctx, b.Ref, bytes.NewReader(b.Data))
	return
}

// noteCompleted looks at the lower-layer writes since seq0: a successful
// meta.Set("w:<wholeRef>") is the last write of a pack.
func (r *run) noteCompleted(seq0 int) (muts []vstore.Event) {
	for _, ev := range r.w.env.LogSince(seq0) {
		if ev.MutSeq == 0 {
			continue
		}
		muts = append(muts, ev)
		if ev.Layer == "kv:meta" && ev.Op == "set" && strings.HasPrefix(ev.Key, "w:") && ev.Outcome == "ok" {
			if wr, ok := blob.Parse(strings.TrimPrefix(ev.Key, "w:")); ok {
				r.completed[wr] = true
			}
		}
	}
	return muts
}

// upload delivers one blob without any armed fault: it must be acknowledged.
func (r *run) upload(ix int, why string) ([]vstore.Event, error) {
	b := r.h.u.U[ix]
	seq0 := r.w.env.Seq()
	r.w.mutCount = 0
	res := safeReceive(r.w.sto, b)
	muts := r.noteCompleted(seq0)
	r.logf("upload #%d %s %v (%s): %d mutating lower-layer calls, err=%v", ix, b.Kind, b.Ref, why, len(muts), res.err)
	if r.w.fuse {
		return muts, errFuse
	}
	if res.err != nil {
		return muts, fmt.Errorf("upload of %s blob %v (%s) failed without any injected fault: %v", b.Kind, b.Ref, why, res.err)
	}
	if res.sb.Ref != b.Ref || int(res.sb.Size) != len(b.Data) {
		return muts, fmt.Errorf("upload of %v acknowledged as %v, want size %d", b.Ref, res.sb, len(b.Data))
	}
	r.model.SetPresent(b.Ref, b.Data)
	delete(r.maybes, b.Ref)
	delete(r.removed, b.Ref)
	return muts, nil
}

var neverStored = vgen.RefOf("sha224", []byte("c04-never-stored"))

// check is the oracle of one step.
func (r *run) check(step string) (err error) {
	defer func() {
		if e := recover(); e != nil {
			err = fmt.Errorf("%s: panic while reading: %v\n%s", step, e, shortStack())
		}
	}()
	r.logf("check: %s (small=%d large=%d meta=%d rows)", step, r.w.small.RawLen(), r.w.large.RawLen(), len(r.w.meta.Dump()))
	if err := r.battery(); err != nil {
		if err == vmodel.ErrTimeout {
			return err
		}
		var mm *vmodel.Mismatch
		if errors.As(err, &mm) {
			return &stepError{step: step, mm: mm}
		}
		return fmt.Errorf("%s: %v", step, err)
	}
	for ref := range r.removed {
		if r.model.State(ref) == vmodel.Present {
			r.reappeared++
		}
	}
	if err := r.checkZips(); err != nil {
		return fmt.Errorf("%s: %v", step, err)
	}
	if err := r.checkWholeFiles(step); err != nil {
		return fmt.Errorf("%s: %v", step, err)
	}
	return nil
}

type stepError struct {
	step string
	mm   *vmodel.Mismatch
}

func (e *stepError) Error() string { return e.step + ": " + e.mm.Error() }
func (e *stepError) Unwrap() error { return e.mm }

// reopen = the process is started again over the same stores.
func (r *run) reopen(mode blobpacked.RecoveryMode, why string) error {
	nz := r.w.large.RawLen()
	r.logf("restart (%s), recovery mode %s, %d zips in large", why, modeNames[mode], nz)
	if err := r.w.open(mode); err != nil {
		return fmt.Errorf("restart (%s) in recovery mode %s over %d zips failed: %v", why, modeNames[mode], nz, err)
	}
	if mode != blobpacked.NoRecovery {
		r.tolerant = true
		// the re-index knows nothing about removals (documented TODO in reindex)
		for ref := range r.removed {
			r.maybes[ref] = true
		}
	}
	r.unpin()
	return nil
}

// suffix: what the clients do after the (possibly crashed) pack and the restart.
func (r *run) suffix(targetIx int, rest []int) error {
	if r.h.plan.Retry {
		if _, err := r.upload(targetIx, "client re-uploads the file schema blob"); err != nil {
			return err
		}
	}
	for _, ix := range rest {
		if _, err := r.upload(ix, "remaining upload"); err != nil {
			return err
		}
	}
	if r.h.plan.Retry || len(rest) > 0 {
		if err := r.check("after re-upload / remaining uploads"); err != nil {
			return err
		}
	}
	if len(r.h.plan.Removes) > 0 {
		var refs []blob.Ref
		for _, ix := range r.h.plan.Removes {
			refs = append(refs, r.h.u.U[ix].Ref)
		}
		r.w.mutCount = 0
		err := func() (err error) {
			defer func() {
				if e := recover(); e != nil {
					err = fmt.Errorf("panic: %v\n%s", e, shortStack())
				}
			}()
			return r.w.sto.RemoveBlobs(ctx, refs)
		}()
		r.logf("RemoveBlobs(%v) = %v (tolerant=%v)", r.h.plan.Removes, err, r.tolerant)
		if err != nil {
			return fmt.Errorf("RemoveBlobs(%v) failed without any injected fault: %v", refs, err)
		}
		for _, ref := range refs {
			was := r.model.State(ref)
			if was != vmodel.Absent {
				r.removed[ref] = true
			}
			if r.tolerant && was != vmodel.Absent {
				r.model.SetMaybe(ref, r.h.u.U[r.h.u.idx[ref]].Data)
				r.maybes[ref] = true
			} else {
				r.model.SetAbsent(ref)
				delete(r.maybes, ref)
			}
		}
		for _, ix := range r.h.plan.ReReceive {
			if _, err := r.upload(ix, "re-upload of a removed blob"); err != nil {
				return err
			}
		}
		if err := r.check("after RemoveBlobs" + map[bool]string{true: " and re-upload of removed blobs", false: ""}[len(r.h.plan.ReReceive) > 0]); err != nil {
			return err
		}
	}
	// the meta index is lost; the zips alone must suffice
	served := map[blob.Ref]bool{}
	for k, v := range r.wholeServed {
		served[k] = v
	}
	r.w.meta.WipeRaw()
	mode := blobpacked.RecoveryMode(r.h.plan.WipeMode)
	if err := r.reopen(mode, "meta index emptied"); err != nil {
		return err
	}
	if err := r.check("after recovery (" + modeNames[mode] + ") over an emptied meta index"); err != nil {
		return err
	}
	for whole, was := range served {
		if was && !r.wholeServed[whole] {
			return fmt.Errorf("OpenWholeRef(%v) served the file before the meta index was lost, but not after recovery (%s) from the zips", whole, modeNames[mode])
		}
	}
	return nil
}

// ---------------------------------------------------------------------------
// crash-point classification

type trigger struct {
	pos  int            // position in h.seq
	muts []vstore.Event // mutating lower-layer calls of that upload, in order
	zips int
}

// crashKind names what a crash at k (= muts[k-1] and everything later never happens) interrupts.
func (tr *trigger) crashKind(k int) string {
	if k > len(tr.muts) {
		return "none(restart-after-completed-pack)"
	}
	ev := tr.muts[k-1]
	switch {
	case ev.Layer == "store:small" && ev.Op == "receive":
		return "before-file-blob-stored"
	case ev.Layer == "store:large" && ev.Op == "receive":
		if tr.zipsBefore(k) == 0 {
			return "before-first-zip-stored"
		}
		return "between-zips(before-next-zip-stored)"
	case ev.Layer == "kv:meta" && ev.Op == "commit":
		return "after-zip-stored(before-meta-commit)"
	case ev.Layer == "store:small" && ev.Op == "remove":
		if k >= 2 && tr.muts[k-2].Op == "commit" {
			return "after-meta-commit(before-small-deletion)"
		}
		return "mid-small-deletion"
	case ev.Layer == "kv:meta" && ev.Op == "set":
		return "before-final-w-row"
	}
	return "other:" + ev.Layer + "/" + ev.Op
}

func (tr *trigger) zipsBefore(k int) int {
	n := 0
	for i := 0; i < k-1 && i < len(tr.muts); i++ {
		if tr.muts[i].Layer == "store:large" && tr.muts[i].Op == "receive" {
			n++
		}
	}
	return n
}

// ---------------------------------------------------------------------------
// the property

func report(t *rapid.T, h *history, what string, r *run, err error) {
	if errors.Is(err, vmodel.ErrTimeout) {
		t.Fatalf("VERIF-INCONCLUSIVE: watchdog timeout (%s)\n%s", what, h.describe())
	}
	if errors.Is(err, errFuse) {
		// forced zip sizes can defeat the packer's size estimate (see genHistory); not a C04 case
		evid.R.Label("domain/fuse-blown(pack-does-not-terminate-with-forced-zip-size)")
		t.Skip("out of domain: pack does not terminate with the forced zip size")
	}
	if strings.HasPrefix(err.Error(), "harness:") {
		t.Fatalf("%v\n%s", err, h.describe())
	}
	if id := knownSig(h, r, err); id != "" && known.Hit(prop, id, what+": "+firstLine(err.Error())) {
		return
	}
	steps := ""
	if r != nil {
		steps = "\nsteps:\n  " + strings.Join(r.steps, "\n  ")
	}
	t.Fatalf("C04 violated [%s]: %v\n%s%s", what, err, h.describe(), steps)
}

// shortStack is the part of the stack between the panic and the harness.
func shortStack() string {
	lines := strings.Split(string(debug.Stack()), "\n")
	var out []string
	seenPanic := false
	for i := 0; i+1 < len(lines); i++ {
		if strings.HasPrefix(lines[i], "panic(") {
			seenPanic = true
			i++
			continue
		}
		if !seenPanic {
			continue
		}
		if strings.HasPrefix(lines[i], "verifharness/") || strings.HasPrefix(lines[i], "pgregory.net/") {
			break
		}
		out = append(out, lines[i])
		if len(out) >= 16 {
			break
		}
	}
	return strings.Join(out, "\n")
}

func firstLine(s string) string {
	if i := strings.IndexByte(s, '\n'); i >= 0 {
		return s[:i]
	}
	return s
}

// sigHasDups: starting blobpacked in a recovery mode panics in hasDups because
// large holds two zips for the same part of the same whole file whose data
// lengths differ (the same content packed twice with a different split).
const sigHasDups = "C04-reindex-panics-on-same-part-different-split"

// knownSig maps a failure to the id of a recorded open finding ("" = none).
// The predicate is deliberately narrow: the exact panic of hasDups during a
// recovery start AND the harness sees, in the raw zips, two zips of one whole
// file with the same part index and different first-entry lengths.
func knownSig(h *history, r *run, err error) string {
	if r == nil {
		return ""
	}
	msg := err.Error()
	if strings.Contains(msg, "panic while starting blobpacked (recovery mode") &&
		strings.Contains(msg, "looked like duplicates at first, but don't actually have the same dataSize") &&
		strings.Contains(msg, "blobpacked.hasDups(") {
		type key struct {
			whole blob.Ref
			part  int
		}
		lens := map[key]int{}
		for _, ref := range r.w.large.RawRefs() {
			raw, _ := r.w.large.RawGet(ref)
			zi, zerr := checkOneZip(ref, raw, h.maxZip)
			if zerr != nil {
				return "" // a broken zip is a different failure
			}
			k := key{zi.WholeRef, zi.PartIndex}
			if l, ok := lens[k]; ok && l != zi.DataLen {
				return sigHasDups
			}
			lens[k] = zi.DataLen
		}
	}
	return ""
}

func presentAfter(h *history, r *run, n int) {
	for _, ix := range h.seq[:n] {
		b := h.u.U[ix]
		r.model.SetPresent(b.Ref, b.Data)
	}
}

func runHistory(t *rapid.T) {
	h := genHistory(t)
	evid.R.Label("files/" + fmt.Sprint(len(h.specs)))
	evid.R.Label("second-file/" + h.second)
	for _, k := range h.orderKinds {
		evid.R.Label("order/" + k)
	}
	for _, f := range h.u.Files {
		switch {
		case f.Spec.Period > 0 && f.Repeated:
			evid.R.Label("content/periodic-with-repeated-chunks")
		case f.Spec.Period > 0:
			evid.R.Label("content/periodic-no-repeated-chunk")
		default:
			evid.R.Label("content/noise")
		}
	}
	if h.maxZip == 0 {
		evid.R.Label("zip-size/default-16MiB")
	} else if h.maxZip != h.maxZipDrawn {
		evid.R.Label("zip-size/forced(raised-to-fit-largest-chunk)")
	} else if h.exactFit {
		evid.R.Label("zip-size/forced(first-zip-exactly-full-by-estimate)")
	} else {
		evid.R.Label("zip-size/forced")
	}

	// ---- dry run: the whole history without crash, on fresh stores
	w := newWorld(h.maxZip)
	defer w.release()
	if err := w.open(blobpacked.NoRecovery); err != nil {
		t.Fatalf("harness: cannot create blobpacked: %v", err)
	}
	dry := newRun(h, w)
	type pre struct {
		snap      snap
		completed map[blob.Ref]bool
	}
	pres := map[int]pre{}
	var triggers []*trigger
	checkedBeforePack := false
	for pos, ix := range h.seq {
		b := h.u.U[ix]
		if b.Kind == "file" {
			c := map[blob.Ref]bool{}
			for k := range dry.completed {
				c[k] = true
			}
			pres[pos] = pre{snap: w.snapshot(), completed: c}
			if !checkedBeforePack && pos > 0 {
				checkedBeforePack = true
				if err := dry.check("before the first upload of a file schema blob"); err != nil {
					report(t, h, "dry run", dry, err)
					return
				}
			}
		}
		muts, err := dry.upload(ix, "dry run")
		if err != nil {
			report(t, h, "dry run", dry, err)
			return
		}
		nz := 0
		for _, ev := range muts {
			if ev.Layer == "store:large" && ev.Op == "receive" {
				nz++
			}
		}
		if b.Kind == "file" && nz > 0 {
			triggers = append(triggers, &trigger{pos: pos, muts: muts, zips: nz})
		}
	}
	evid.R.Eval()
	evid.R.Label("restart/none(dry-run-without-crash)")
	evid.R.Label(fmt.Sprintf("packs-per-history/%d", len(triggers)))
	if err := dry.check("after all uploads (no crash)"); err != nil {
		report(t, h, "dry run", dry, err)
		return
	}
	if err := checkDownloads(h, w, [][2]int64{{h.wholeOff % 1000003, h.wholeOff % 77777}, {h.wholeOff % 70001, 99}}); err != nil {
		report(t, h, "dry run", dry, err)
		return
	}
	evid.R.Label("download-handler/whole-and-ranged-after-all-uploads")
	zipsDry := dry.zipCount()
	if len(triggers) > 0 {
		if err := dry.suffix(h.seq[triggers[0].pos], nil); err != nil {
			report(t, h, "dry run", dry, err)
			return
		}
	} else {
		evid.R.Label("history/no-pack-triggered")
	}
	if dry.reappeared > 0 {
		evid.R.Label("removed-blob-visible-again/after-reindex(dry)")
	}
	ntDry := zipsDry > 0 && len(triggers) > 0
	if ntDry {
		evid.R.NonTrivial(evid.Hash(h.hash, -1, "dry"))
	}
	if len(triggers) == 0 {
		if evid.R.WantSample(false) {
			evid.R.Sample(false, map[string]any{"history": h.describe(), "note": "no upload wrote a zip"})
		}
		return
	}

	// ---- crash enumeration over one pack
	tr := triggers[rapid.IntRange(0, len(triggers)-1).Draw(t, "targetPack")]
	K := len(tr.muts)
	evid.R.Label(fmt.Sprintf("zips-per-pack/%d", tr.zips))
	var ks []int
	if tr.zips > 10 {
		evid.R.Label("zips-per-pack/more-than-10")
	}
	exhaustive := evid.Thorough() && K <= 80
	if exhaustive {
		for k := 1; k <= K+1; k++ {
			ks = append(ks, k)
		}
	} else if evid.Thorough() {
		// a very long pack (a file over many zips): a drawn sample of its crash points
		evid.R.Label("crash-points/sampled(pack-with-more-than-80-writes)")
		ks = rapid.SliceOfNDistinct(rapid.IntRange(1, K+1), 16, 16, rapid.ID[int]).Draw(t, "crashPoints")
		sort.Ints(ks)
	} else {
		// a handful: three distinct kinds, one drawn k of each
		byKind := map[string][]int{}
		var kinds []string
		for k := 1; k <= K+1; k++ {
			kd := tr.crashKind(k)
			if _, ok := byKind[kd]; !ok {
				kinds = append(kinds, kd)
			}
			byKind[kd] = append(byKind[kd], k)
		}
		kinds = rapid.Permutation(kinds).Draw(t, "crashKinds")
		if len(kinds) > 3 {
			kinds = kinds[:3]
		}
		for _, kd := range kinds {
			c := byKind[kd]
			ks = append(ks, c[rapid.IntRange(0, len(c)-1).Draw(t, "crashAt")])
		}
		sort.Ints(ks)
	}
	targetIx := h.seq[tr.pos]
	target := h.u.U[targetIx]
	rest := h.seq[tr.pos+1:]
	var trigDesc []string
	for i, ev := range tr.muts {
		trigDesc = append(trigDesc, fmt.Sprintf("%d: %s %s %s", i+1, ev.Layer, ev.Op, ev.Key))
	}
	sampled := false
	var live []*world
	defer func() {
		for _, lw := range live {
			lw.release()
		}
	}()
	for _, k := range ks {
		for _, lw := range live {
			lw.release()
		}
		live = live[:0]
		kind := tr.crashKind(k)
		cw := newWorld(h.maxZip)
		live = append(live, cw)
		cw.restore(pres[tr.pos].snap)
		if err := cw.open(blobpacked.NoRecovery); err != nil {
			t.Fatalf("harness: cannot create blobpacked over the pre-pack snapshot: %v", err)
		}
		cr := newRun(h, cw)
		presentAfter(h, cr, tr.pos)
		for wr := range pres[tr.pos].completed {
			cr.completed[wr] = true
		}
		what := fmt.Sprintf("pack of %v (upload position %d), crash point k=%d/%d [%s]", target.Ref, tr.pos, k, K, kind)
		seq0 := cw.env.Seq()
		cw.mutCount = 0
		cw.env.FreezeAtMut(k)
		res := safeReceive(cw.sto, target)
		crashed := cw.env.Frozen()
		muts := cr.noteCompleted(seq0)
		cr.logf("upload #%d file %v with crash armed at k=%d: crashed=%v err=%v, %d mutating calls reached the lower layer", targetIx, target.Ref, k, crashed, res.err, len(muts))
		if cw.fuse {
			report(t, h, what, cr, errFuse)
			return
		}
		if k <= K && !crashed {
			// the pack took another path than in the dry run: harness determinism broken
			t.Fatalf("harness: crash point k=%d of %d never reached (pack not deterministic?)\n%s\ntrigger: %v", k, K, h.describe(), trigDesc)
		}
		if crashed {
			cr.tolerant = true
			if cr.model.State(target.Ref) != vmodel.Present {
				cr.model.SetMaybe(target.Ref, target.Data) // in flight when the process died
				cr.maybes[target.Ref] = true
			}
		} else {
			if res.err != nil {
				report(t, h, what, cr, fmt.Errorf("upload of the file blob failed without a crash: %v", res.err))
				return
			}
			cr.model.SetPresent(target.Ref, target.Data)
		}
		crashState := cw.snapshot()
		zipsAtCrash := len(crashState.large)
		for _, mode := range []blobpacked.RecoveryMode{blobpacked.NoRecovery, blobpacked.FastRecovery, blobpacked.FullRecovery} {
			mw := newWorld(h.maxZip)
			live = append(live, mw)
			mw.restore(crashState)
			mr := cr.cloneOnto(mw)
			mwhat := what + ", restart mode " + modeNames[mode]
			evid.R.Eval()
			evid.R.Label("restart/" + modeNames[mode])
			evid.R.Label("crash/" + kind)
			nt := (tr.zipsBefore(k) > 0 && k <= K) || (mode != blobpacked.NoRecovery && zipsAtCrash > 0)
			if nt {
				evid.R.NonTrivial(evid.Hash(h.hash, tr.pos, k, modeNames[mode]))
			}
			if !sampled && evid.R.WantSample(nt) {
				sampled = true
				evid.R.Sample(nt, map[string]any{
					"history": strings.Split(strings.TrimSpace(h.describe()), "\n"), "pack_writes_in_dry_run": trigDesc,
					"crash_point_k": k, "crash_kind": kind, "restart_mode": modeNames[mode], "zips_in_large_at_crash": zipsAtCrash,
					"crash_points_of_this_history": ks,
				})
			}
			if err := mr.reopen(mode, "after the crash"); err != nil {
				report(t, h, mwhat, mr, err)
				return
			}
			if err := mr.check("after crash + restart"); err != nil {
				report(t, h, mwhat, mr, err)
				return
			}
			if err := mr.suffix(targetIx, rest); err != nil {
				report(t, h, mwhat, mr, err)
				return
			}
			if mr.reappeared > 0 {
				evid.R.Label("removed-blob-visible-again/tolerated(bytes-correct)")
			}
			mw.release()
		}
	}
	if exhaustive {
		evid.R.Exhaustive("every crash point (each mutating lower-layer call of the pack-triggering upload, and no crash) x 3 restart modes of each generated history whose pack makes at most 80 writes; 16 drawn crash points for longer packs")
	}
}

func TestPackInvisibleAndRecoverable(t *testing.T) {
	evid.Check(t, 60, 120, runHistory)
}
