package c04

import (
	"bytes"
	"errors"
	"fmt"
	"io"

	"perkeep.org/pkg/blob"

	"verifharness/internal/vmodel"
)

// The read battery of this check is vmodel.Battery with the byte comparisons
// done by streaming through one scratch buffer: a thorough shard reads some
// hundred GiB of blob bytes back, and io.ReadAll (used by vmodel.CheckFetch)
// allocates about three times what it reads. States, pinning of "maybe"
// entries and mismatch kinds are the same as in vmodel.

var scratch = make([]byte, 256<<10)

// streamEqual reads r to the end and compares with want.
// It returns the number of bytes read, the offset of the first difference (-1 if none), and the read error.
func streamEqual(r io.Reader, want []byte) (n int, diffAt int, err error) {
	diffAt = -1
	for {
		k, rerr := r.Read(scratch)
		if k > 0 {
			if diffAt < 0 {
				avail := len(want) - n
				switch {
				case avail <= 0:
					diffAt = len(want) // more bytes than wanted
				default:
					c := k
					if c > avail {
						c = avail
					}
					if !bytes.Equal(scratch[:c], want[n:n+c]) {
						diffAt = n + firstDiff(scratch[:c], want[n:n+c])
					} else if k > avail {
						diffAt = len(want)
					}
				}
			}
			n += k
		}
		if rerr == io.EOF {
			if diffAt < 0 && n < len(want) {
				diffAt = n
			}
			return n, diffAt, nil
		}
		if rerr != nil {
			return n, diffAt, rerr
		}
	}
}

func mis(kind string, ref blob.Ref, f string, a ...any) *vmodel.Mismatch {
	s := ""
	if ref.Valid() {
		s = ref.String()
	}
	return &vmodel.Mismatch{Kind: kind, Ref: s, Detail: fmt.Sprintf(f, a...)}
}

// checkFetch mirrors vmodel.(*Map).CheckFetch.
func (r *run) checkFetch(ref blob.Ref) error {
	e := r.model.Get(ref)
	rc, size, err := r.w.sto.Fetch(ctx, ref)
	if err != nil {
		if vmodel.IsNotExist(err) {
			if e.State == vmodel.Present {
				return mis("fetch-missing", ref, "model has the blob (%d bytes) but Fetch says not-exist", len(e.Data))
			}
			if e.State == vmodel.Maybe {
				e.State = vmodel.Absent
			}
			return nil
		}
		return mis("fetch-error", ref, "Fetch returned unexpected error %v (model state %d)", err, e.State)
	}
	n, diffAt, rerr := streamEqual(rc, e.Data)
	rc.Close()
	if e.State == vmodel.Absent {
		return mis("fetch-resurrected", ref, "model says absent but Fetch returned %d bytes", n)
	}
	if rerr != nil {
		return mis("fetch-read-error", ref, "reading the fetched blob failed after %d bytes: %v", n, rerr)
	}
	if diffAt >= 0 {
		return mis("fetch-bytes", ref, "Fetch returned %d bytes, want %d; first difference at offset %d", n, len(e.Data), diffAt)
	}
	if int(size) != len(e.Data) {
		return mis("fetch-size", ref, "Fetch reported size %d, true size %d", size, len(e.Data))
	}
	if e.State == vmodel.Maybe {
		e.State = vmodel.Present
	}
	return nil
}

// checkSubFetch mirrors vmodel.(*Map).CheckSubFetch for 0 <= off <= size, length >= 0
// (entries are resolved by checkFetch before).
func (r *run) checkSubFetch(ref blob.Ref, off, length int64) error {
	e := r.model.Get(ref)
	sf, ok := r.w.sto.(blob.SubFetcher)
	if !ok {
		return errors.New("harness: blobpacked is not a SubFetcher")
	}
	rc, err := sf.SubFetch(ctx, ref, off, length)
	if e.State != vmodel.Present {
		if err == nil {
			n, _, _ := streamEqual(rc, nil)
			rc.Close()
			return mis("subfetch-resurrected", ref, "model says absent but SubFetch(%d,%d) returned %d bytes", off, length, n)
		}
		if !vmodel.IsNotExist(err) {
			return mis("subfetch-error", ref, "SubFetch of absent blob: error %v, want not-exist", err)
		}
		return nil
	}
	size := int64(len(e.Data))
	if err != nil {
		if off+length > size {
			return nil // tolerated when the range runs past the end (as in storagetest)
		}
		return mis("subfetch-error", ref, "SubFetch(%d,%d) of present blob (size %d): %v", off, length, size, err)
	}
	end := off + length
	if end > size {
		end = size
	}
	want := e.Data[off:end]
	n, diffAt, rerr := streamEqual(rc, want)
	rc.Close()
	if rerr != nil {
		if off+length > size && diffAt < 0 && n == len(want) {
			return nil
		}
		return mis("subfetch-read-error", ref, "reading SubFetch(%d,%d): %v after %d bytes", off, length, rerr, n)
	}
	if diffAt >= 0 {
		return mis("subfetch-bytes", ref, "SubFetch(%d,%d) returned %d bytes, want %d; first difference at +%d", off, length, n, len(want), diffAt)
	}
	return nil
}

// battery = vmodel.(*Map).Battery: fetch + stat of every known ref and of a
// never-stored one, full enumeration, paging, four sub-ranges per blob.
func (r *run) battery() error {
	var refs []blob.Ref
	for _, e := range r.model.Entries() {
		refs = append(refs, e.Ref)
	}
	refs = append(refs, neverStored)
	for _, ref := range refs {
		if err := r.checkFetch(ref); err != nil {
			return err
		}
	}
	if err := r.model.CheckStat(ctx, r.w.sto, refs); err != nil {
		return err
	}
	if err := r.model.CheckEnumerate(ctx, r.w.sto, "", 1<<20); err != nil {
		return err
	}
	if err := r.model.CheckPaging(ctx, r.w.sto, r.h.page); err != nil {
		return err
	}
	for _, e := range r.model.Entries() {
		n := int64(len(e.Data))
		for _, rg := range [][2]int64{{0, n}, {n / 2, n}, {n, 1}, {1, 1}} {
			if err := r.checkSubFetch(e.Ref, rg[0], rg[1]); err != nil {
				return err
			}
		}
	}
	return nil
}
