package c04

import (
	"archive/zip"
	"bytes"
	"encoding/json"
	"errors"
	"fmt"
	"io"
	"os"
	"sort"
	"strings"
	"verifharness/internal/evid"

	"perkeep.org/pkg/blob"
	"perkeep.org/pkg/blobserver"
	"perkeep.org/pkg/blobserver/blobpacked"
	"perkeep.org/pkg/constants"
	"perkeep.org/pkg/schema"

	"verifharness/internal/vmodel"
)

const manifestPath = "camlistore/camlistore-pack-manifest.json"

type zipInfo struct {
	Ref       blob.Ref
	Size      int
	WholeRef  blob.Ref
	PartIndex int
	DataLen   int
	NData     int
	NSchema   int
	data      []byte
}

// checkOneZip validates one physical blob of the large store in isolation.
func checkOneZip(ref blob.Ref, raw []byte, maxZip int) (*zipInfo, error) {
	h := ref.Hash()
	if h == nil {
		return nil, fmt.Errorf("large blob %v: unknown hash", ref)
	}
	h.Write(raw)
	if !ref.HashMatches(h) {
		return nil, fmt.Errorf("large blob %v (%d bytes) does not hash to its name", ref, len(raw))
	}
	if len(raw) > constants.MaxBlobSize {
		return nil, fmt.Errorf("zip %v is %d bytes > MaxBlobSize %d", ref, len(raw), constants.MaxBlobSize)
	}
	if maxZip > 0 && len(raw) > maxZip {
		return nil, fmt.Errorf("zip %v is %d bytes > the configured maximum zip size %d", ref, len(raw), maxZip)
	}
	zr, err := zip.NewReader(bytes.NewReader(raw), int64(len(raw)))
	if err != nil {
		return nil, fmt.Errorf("large blob %v does not open as a zip: %v", ref, err)
	}
	if len(zr.File) < 2 {
		return nil, fmt.Errorf("zip %v has %d entries, want content + manifest", ref, len(zr.File))
	}
	var mfile *zip.File
	names := map[string]bool{}
	for _, f := range zr.File {
		if names[f.Name] {
			return nil, fmt.Errorf("zip %v: duplicate entry name %q", ref, f.Name)
		}
		names[f.Name] = true
		if f.Name == manifestPath {
			mfile = f
		}
	}
	if mfile == nil {
		return nil, fmt.Errorf("zip %v has no %s", ref, manifestPath)
	}
	rc, err := mfile.Open()
	if err != nil {
		return nil, fmt.Errorf("zip %v: manifest does not open: %v", ref, err)
	}
	mj, err := io.ReadAll(rc)
	rc.Close()
	if err != nil {
		return nil, fmt.Errorf("zip %v: manifest unreadable: %v", ref, err)
	}
	var mf blobpacked.Manifest
	if err := json.Unmarshal(mj, &mf); err != nil {
		return nil, fmt.Errorf("zip %v: manifest is not JSON: %v", ref, err)
	}
	first := zr.File[0]
	if first.Name == manifestPath || strings.HasPrefix(first.Name, "camlistore/") {
		return nil, fmt.Errorf("zip %v: first entry is %q, not the file content", ref, first.Name)
	}
	if first.Method != zip.Store {
		return nil, fmt.Errorf("zip %v: first entry is compressed (method %d); its bytes are not contiguous file content", ref, first.Method)
	}
	off, err := first.DataOffset()
	if err != nil {
		return nil, fmt.Errorf("zip %v: first entry offset: %v", ref, err)
	}
	n := int64(first.UncompressedSize64)
	if off < 0 || off+n > int64(len(raw)) {
		return nil, fmt.Errorf("zip %v: first entry [%d,+%d) outside the zip (%d bytes)", ref, off, n, len(raw))
	}
	data := raw[off : off+n]
	// the manifest describes the first entry: contiguous blobs that hash to their names
	var pos int64
	for i, bp := range mf.DataBlobs {
		if bp.Offset != pos {
			return nil, fmt.Errorf("zip %v: manifest dataBlobs[%d] %v has offset %d, the preceding blobs end at %d", ref, i, bp.Ref, bp.Offset, pos)
		}
		end := pos + int64(bp.Size)
		if end > n {
			return nil, fmt.Errorf("zip %v: manifest dataBlobs[%d] %v [%d,+%d) runs past the first entry (%d bytes)", ref, i, bp.Ref, bp.Offset, bp.Size, n)
		}
		bh := bp.Ref.Hash()
		bh.Write(data[pos:end])
		if !bp.Ref.HashMatches(bh) {
			return nil, fmt.Errorf("zip %v: manifest dataBlobs[%d]: bytes [%d,+%d) of the first entry do not hash to %v", ref, i, bp.Offset, bp.Size, bp.Ref)
		}
		pos = end
	}
	if pos != n {
		return nil, fmt.Errorf("zip %v: manifest data blobs cover %d bytes, first entry has %d", ref, pos, n)
	}
	if !mf.WholeRef.Valid() || !mf.DataBlobsOrigin.Valid() {
		return nil, fmt.Errorf("zip %v: manifest lacks wholeRef/dataBlobsOrigin", ref)
	}
	oh := mf.DataBlobsOrigin.Hash()
	oh.Write(data)
	if !mf.DataBlobsOrigin.HashMatches(oh) {
		return nil, fmt.Errorf("zip %v: dataBlobsOrigin %v is not the hash of the first entry", ref, mf.DataBlobsOrigin)
	}
	zi := &zipInfo{Ref: ref, Size: len(raw), WholeRef: mf.WholeRef, PartIndex: mf.WholePartIndex, DataLen: int(n), NData: len(mf.DataBlobs), data: data}
	// schema entries hash to their names
	for _, f := range zr.File[1:] {
		if f.Name == manifestPath {
			continue
		}
		if !strings.HasPrefix(f.Name, "camlistore/") || !strings.HasSuffix(f.Name, ".json") {
			return nil, fmt.Errorf("zip %v: unexpected entry %q", ref, f.Name)
		}
		br, ok := blob.Parse(strings.TrimSuffix(strings.TrimPrefix(f.Name, "camlistore/"), ".json"))
		if !ok {
			return nil, fmt.Errorf("zip %v: entry %q is not named by a blobref", ref, f.Name)
		}
		rc, err := f.Open()
		if err != nil {
			return nil, fmt.Errorf("zip %v: entry %q: %v", ref, f.Name, err)
		}
		d, err := io.ReadAll(rc)
		rc.Close()
		if err != nil {
			return nil, fmt.Errorf("zip %v: entry %q: %v", ref, f.Name, err)
		}
		sh := br.Hash()
		sh.Write(d)
		if !br.HashMatches(sh) {
			return nil, fmt.Errorf("zip %v: entry %q does not hash to its name", ref, f.Name)
		}
		zi.NSchema++
	}
	if int64(mf.WholeSize) <= 0 {
		return nil, fmt.Errorf("zip %v: manifest wholeSize %d", ref, mf.WholeSize)
	}
	return zi, nil
}

// checkZips validates every physical blob of `large` and places each zip's
// first entry in the file it claims to be part of.
func (r *run) checkZips() error {
	byWhole := map[blob.Ref][]*zipInfo{}
	for _, ref := range r.w.large.RawRefs() {
		raw, _ := r.w.large.RawGet(ref)
		zi, err := checkOneZip(ref, raw, r.h.maxZip)
		if err != nil {
			return err
		}
		byWhole[zi.WholeRef] = append(byWhole[zi.WholeRef], zi)
	}
	for whole, zs := range byWhole {
		var content []byte
		for _, f := range r.h.u.Files {
			if f.WholeRef == whole {
				content = f.Content
			}
		}
		if content == nil {
			return fmt.Errorf("zip %v names wholeRef %v, which is no uploaded file", zs[0].Ref, whole)
		}
		sort.Slice(zs, func(i, j int) bool {
			if zs[i].PartIndex != zs[j].PartIndex {
				return zs[i].PartIndex < zs[j].PartIndex
			}
			return zs[i].Ref.String() < zs[j].Ref.String()
		})
		// offset of part i = total data of parts 0..i-1 (zips of one pack are written in order).
		// Several zips may carry the same part index (a file with the same content packed again
		// after a crashed pack), possibly with a different split: every chain of starts is tried.
		starts := map[int][]int{0: {0}}
		for _, z := range zs {
			cands := starts[z.PartIndex]
			if len(cands) == 0 {
				// predecessor missing: at least a contiguous slice somewhere
				if !bytes.Contains(content, z.data) {
					return fmt.Errorf("zip %v (part %d of %v): first entry (%d bytes) is not a contiguous slice of the file", z.Ref, z.PartIndex, whole, z.DataLen)
				}
				continue
			}
			found := false
			for _, st := range cands {
				if st+z.DataLen <= len(content) && bytes.Equal(content[st:st+z.DataLen], z.data) {
					found = true
					starts[z.PartIndex+1] = append(starts[z.PartIndex+1], st+z.DataLen)
					break
				}
			}
			if found && z.PartIndex > 0 {
				r.partStart[whole] = int64(starts[z.PartIndex][0])
			}
			if !found {
				// The chains of start offsets are the harness's inference from the zips it can see; after an
				// interrupted pack followed by a differently split re-pack, a zip's predecessor may be a zip
				// that was never stored. What the property itself demands is that the first entry is a
				// contiguous slice of the file: fall back to that.
				idx := bytes.Index(content, z.data)
				if idx < 0 {
					return fmt.Errorf("zip %v (part %d of %v): first entry (%d bytes) is not a contiguous slice of the file (and not at any of the offsets %v where part %d could start)", z.Ref, z.PartIndex, whole, z.DataLen, cands, z.PartIndex)
				}
				evid.R.Label("zip/placed-by-containment-only")
				starts[z.PartIndex+1] = append(starts[z.PartIndex+1], idx+z.DataLen)
			}
		}
	}
	return nil
}

// zipCount is the number of physical blobs in large.
func (r *run) zipCount() int { return r.w.large.RawLen() }

// readWhole opens the whole-file fast path, reads it to the end and compares with want.
func readWhole(sto blobserver.Storage, whole blob.Ref, off int64, want []byte) (n, diffAt int, size int64, openErr, readErr error) {
	wf, ok := sto.(blobserver.WholeRefFetcher)
	if !ok {
		return 0, -1, 0, errors.New("not a WholeRefFetcher"), nil
	}
	rc, size, err := wf.OpenWholeRef(whole, off)
	if err != nil {
		return 0, -1, 0, err, nil
	}
	defer rc.Close()
	n, diffAt, rerr := streamEqual(rc, want)
	return n, diffAt, size, nil, rerr
}

// checkWholeFiles: the file-level reads.
func (r *run) checkWholeFiles(step string) error {
	for fi, f := range r.h.u.Files {
		intact := true
		for _, ix := range r.h.u.fileBlobs[fi] {
			if r.model.State(r.h.u.U[ix].Ref) != vmodel.Present {
				intact = false
			}
		}
		if intact {
			fr, err := schema.NewFileReader(ctx, r.w.sto, f.FileRef)
			if err != nil {
				return fmt.Errorf("every blob of file %d (%s) is acknowledged, but schema.NewFileReader over the packed store fails: %v", fi, f.Spec, err)
			}
			got, diffAt, err := streamEqual(fr, f.Content)
			if err != nil {
				return fmt.Errorf("file %d (%s): reading through schema.FileReader over the packed store: %v after %d bytes", fi, f.Spec, err, got)
			}
			if diffAt >= 0 {
				return fmt.Errorf("file %d (%s): schema.FileReader over the packed store returned %d bytes that differ from the uploaded %d bytes (first difference at %d)", fi, f.Spec, got, len(f.Content), diffAt)
			}
		}
		// whole-ref fast path at three offsets
		n := int64(len(f.Content))
		offs := []int64{0, r.h.wholeOff % (n + 1), n}
		if ps, ok := r.partStart[f.WholeRef]; ok && ps > 0 && ps < n {
			// exactly at, and one byte before, a boundary between two zips
			offs = []int64{0, r.h.wholeOff % (n + 1), ps - 1 + (r.h.wholeOff & 1), n}
		}
		opened := false
		for _, off := range offs {
			got, diffAt, size, oerr, rerr := readWhole(r.w.sto, f.WholeRef, off, f.Content[off:])
			if oerr != nil {
				if !errors.Is(oerr, os.ErrNotExist) {
					return fmt.Errorf("OpenWholeRef(%v, %d) of file %d failed with %v (neither served nor not-exist)", f.WholeRef, off, fi, oerr)
				}
				if r.completed[f.WholeRef] {
					return fmt.Errorf("the pack of file %d (%s) completed (final w: row written), but OpenWholeRef(%v, %d) says %v", fi, f.Spec, f.WholeRef, off, oerr)
				}
				if opened {
					return fmt.Errorf("OpenWholeRef(%v) served offset 0 but not offset %d: %v", f.WholeRef, off, oerr)
				}
				continue
			}
			opened = true
			if rerr != nil {
				return fmt.Errorf("OpenWholeRef(%v, %d) of file %d opened, then reading failed after %d bytes: %v", f.WholeRef, off, fi, got, rerr)
			}
			if size != n {
				return fmt.Errorf("OpenWholeRef(%v, %d) reports whole size %d, the file has %d bytes", f.WholeRef, off, size, n)
			}
			if diffAt >= 0 {
				return fmt.Errorf("OpenWholeRef(%v, %d) of file %d returned %d bytes that differ from the file's bytes from that offset (%d bytes; first difference at +%d)", f.WholeRef, off, fi, got, n-off, diffAt)
			}
		}
		r.wholeServed[f.WholeRef] = opened
	}
	return nil
}

func firstDiff(a, b []byte) int {
	n := len(a)
	if len(b) < n {
		n = len(b)
	}
	for i := 0; i < n; i++ {
		if a[i] != b[i] {
			return i
		}
	}
	return n
}
