package c04

import (
	"bytes"
	"fmt"
	"io"
	"sort"
	"sync"

	"perkeep.org/pkg/blob"
	"perkeep.org/pkg/schema"
	"pgregory.net/rapid"

	"verifharness/internal/vgen"
	"verifharness/internal/vstore"
)

// fileSpec is the drawn description of one file; the content is expanded from
// it deterministically (so a megabyte file shrinks as three integers).
type fileSpec struct {
	Name   string `json:"name"`
	Seed   uint64 `json:"seed"`
	Size   int    `json:"size"`
	Period int    `json:"period"` // 0 = noise; >0 = a noise block of that length repeated
}

func (s fileSpec) String() string {
	return fmt.Sprintf("%q seed=%d size=%d period=%d", s.Name, s.Seed, s.Size, s.Period)
}

func (s fileSpec) content() []byte {
	if s.Period <= 0 || s.Period >= s.Size {
		return vgen.Noise(s.Seed, s.Size)
	}
	block := vgen.Noise(s.Seed, s.Period)
	out := make([]byte, 0, s.Size)
	for len(out) < s.Size {
		n := s.Size - len(out)
		if n > len(block) {
			n = len(block)
		}
		out = append(out, block[:n]...)
	}
	return out
}

// lblob is one logical blob of the universe of a history.
type lblob struct {
	Ref  blob.Ref
	Data []byte
	Kind string // "chunk" | "bytes" (inner schema blob) | "file" (file schema blob)
}

// builtFile is a file cut up by schema.WriteFileFromReader into a staging store.
type builtFile struct {
	Spec     fileSpec
	Content  []byte
	FileRef  blob.Ref
	WholeRef blob.Ref
	// Blobs in writer order: data chunks in file order (first occurrence),
	// then inner "bytes" schema blobs bottom-up, the file schema blob last.
	Blobs       []lblob
	ChunkSeq    []blob.Ref // data chunks in file order, with repetitions
	MaxChunk    int
	SchemaBytes int // sum of sizes of all schema blobs (file + bytes)
	NSchema     int
	Repeated    bool // some chunk occurs more than once
	// FitSizes[j] = the packer's size estimate (blobpacked.writeAZip: approxSize +
	// manifest estimate) of a first zip holding chunks 0..j; a forced maximum zip
	// size equal to it is the "exactly full" boundary.
	FitSizes []int
}

var (
	buildMu    sync.Mutex
	buildCache = map[fileSpec]*builtFile{}
	buildOrder []fileSpec
)

// buildFile writes the file into a fresh memory store and reads its structure back.
func buildFile(spec fileSpec) (*builtFile, error) {
	buildMu.Lock()
	if bf, ok := buildCache[spec]; ok {
		buildMu.Unlock()
		return bf, nil
	}
	buildMu.Unlock()
	content := spec.content()
	// (a handle, not the store itself: schema.WriteFileFromReader goes through
	// blobserver.Receive, which registers its destination forever — see detachable)
	stagingStore := vstore.NewEnv().NewStore("staging")
	staging := &detachable{s: stagingStore}
	defer staging.detach()
	fileRef, err := schema.WriteFileFromReader(ctx, staging, spec.Name, bytes.NewReader(content))
	if err != nil {
		return nil, fmt.Errorf("WriteFileFromReader: %v", err)
	}
	get := func(br blob.Ref) ([]byte, error) {
		rc, _, err := staging.Fetch(ctx, br)
		if err != nil {
			return nil, fmt.Errorf("staging fetch %v: %v", br, err)
		}
		defer rc.Close()
		return io.ReadAll(rc)
	}
	bf := &builtFile{Spec: spec, Content: content, FileRef: fileRef, WholeRef: blob.RefFromBytes(content)}
	fr, err := schema.NewFileReader(ctx, staging, fileRef)
	if err != nil {
		return nil, fmt.Errorf("NewFileReader(staging): %v", err)
	}
	seenChunk := map[blob.Ref]bool{}
	seenSchema := map[blob.Ref]bool{}
	var schemaOrder []blob.Ref // discovery order, top-down
	var ferr error
	approx := zipFixedOverhead + zipPerEntryOverhead
	err = fr.ForeachChunk(ctx, func(path []blob.Ref, p schema.BytesPart) error {
		if !p.BlobRef.Valid() || p.Offset != 0 {
			ferr = fmt.Errorf("unexpected part %+v", p)
			return ferr
		}
		for _, sr := range path {
			if !seenSchema[sr] {
				seenSchema[sr] = true
				schemaOrder = append(schemaOrder, sr)
				sd, err := get(sr)
				if err != nil {
					ferr = err
					return err
				}
				approx += len(sd) + zipPerEntryOverhead
			}
		}
		approx += int(p.Size)
		bf.FitSizes = append(bf.FitSizes, approx+manifestEstimate)
		bf.ChunkSeq = append(bf.ChunkSeq, p.BlobRef)
		if seenChunk[p.BlobRef] {
			bf.Repeated = true
			return nil
		}
		seenChunk[p.BlobRef] = true
		d, err := get(p.BlobRef)
		if err != nil {
			ferr = err
			return err
		}
		if len(d) > bf.MaxChunk {
			bf.MaxChunk = len(d)
		}
		bf.Blobs = append(bf.Blobs, lblob{Ref: p.BlobRef, Data: d, Kind: "chunk"})
		return nil
	})
	if err != nil {
		return nil, fmt.Errorf("ForeachChunk(staging): %v / %v", err, ferr)
	}
	// schema blobs bottom-up: reverse discovery order, file schema blob last
	for i := len(schemaOrder) - 1; i >= 0; i-- {
		sr := schemaOrder[i]
		d, err := get(sr)
		if err != nil {
			return nil, err
		}
		kind := "bytes"
		if sr == fileRef {
			kind = "file"
		}
		bf.SchemaBytes += len(d)
		bf.NSchema++
		bf.Blobs = append(bf.Blobs, lblob{Ref: sr, Data: d, Kind: kind})
	}
	// the file blob must be last
	sort.SliceStable(bf.Blobs, func(i, j int) bool {
		return bf.Blobs[i].Kind != "file" && bf.Blobs[j].Kind == "file"
	})
	if n := len(bf.Blobs); n == 0 || bf.Blobs[n-1].Ref != fileRef {
		return nil, fmt.Errorf("file schema blob %v not found among the written blobs", fileRef)
	}
	// everything the writer stored must be accounted for
	if got, want := len(bf.Blobs), stagingStore.RawLen(); got != want {
		return nil, fmt.Errorf("staging holds %d blobs, file structure names %d", want, got)
	}
	buildMu.Lock()
	buildCache[spec] = bf
	buildOrder = append(buildOrder, spec)
	if len(buildOrder) > 24 {
		delete(buildCache, buildOrder[0])
		buildOrder = buildOrder[1:]
	}
	buildMu.Unlock()
	return bf, nil
}

var fileNames = []string{"a.bin", "photo.jpg", "b.dat", "a-much-longer-file-name-than-the-others.tar.gz", "übung №1.txt", "x"}

// The packer's size-estimate constants (blobpacked.go: zipFixedOverhead,
// zipPerEntryOverhead, Manifest.approxSerializedSize with no data blobs yet).
const (
	zipFixedOverhead    = 20 + 56 + 22 + 512
	zipPerEntryOverhead = 30 + 24 + 22 + 90
	manifestEstimate    = 204 / 2
)

// packThreshold mirrors blobpacked.packThreshold (files below are never packed).
const packThreshold = 512 << 10

func genSpec(t *rapid.T, label string) fileSpec {
	var s fileSpec
	s.Name = rapid.SampledFrom(fileNames).Draw(t, label+"Name")
	s.Seed = rapid.Uint64Range(1, 1<<30).Draw(t, label+"Seed")
	switch rapid.IntRange(0, 9).Draw(t, label+"SizeClass") {
	case 0:
		s.Size = packThreshold + rapid.IntRange(0, 2).Draw(t, label+"AtThreshold") // exactly at / just above the threshold
	case 1, 2, 3:
		s.Size = rapid.IntRange(packThreshold, 900<<10).Draw(t, label+"Size")
	default:
		s.Size = rapid.IntRange(900<<10, evid2MiB()).Draw(t, label+"Size")
	}
	switch rapid.IntRange(0, 9).Draw(t, label+"Content") {
	case 0:
		// short period dividing the first-chunk size: identical maximal chunks
		s.Period = rapid.SampledFrom([]int{4096, 16384, 65536}).Draw(t, label+"Period")
		if s.Size < 1400<<10 {
			s.Size += 1300 << 10 // needs > 256 KiB + 1 MiB to repeat a chunk
		}
	case 1, 2:
		// a period above the minimum chunk size: the rolling checksum re-synchronises and chunks repeat
		s.Period = rapid.IntRange(70<<10, 200<<10).Draw(t, label+"Period")
	}
	return s
}

func evid2MiB() int { return 2200 << 10 }

// universe is the set of logical blobs of a history (files may share blobs).
type universe struct {
	Files []*builtFile
	U     []lblob
	idx   map[blob.Ref]int
	// fileBlobs[f] = indexes into U of file f's blobs in writer order
	fileBlobs [][]int
}

func newUniverse(files []*builtFile) *universe {
	u := &universe{Files: files, idx: map[blob.Ref]int{}}
	for _, f := range files {
		var ix []int
		for _, b := range f.Blobs {
			i, ok := u.idx[b.Ref]
			if !ok {
				i = len(u.U)
				u.U = append(u.U, b)
				u.idx[b.Ref] = i
			}
			ix = append(ix, i)
		}
		u.fileBlobs = append(u.fileBlobs, ix)
	}
	return u
}

// genDeliveries draws the upload sequence (indexes into u.U).
func genDeliveries(t *rapid.T, u *universe) (seq []int, kinds []string) {
	var perFile [][]int
	for f := range u.Files {
		ix := append([]int(nil), u.fileBlobs[f]...)
		fileIx := ix[len(ix)-1]
		kind := rapid.SampledFrom([]string{"writer", "writer", "writer", "file-first", "shuffled", "shuffled", "reverse"}).Draw(t, fmt.Sprintf("order%d", f))
		kinds = append(kinds, kind)
		switch kind {
		case "file-first":
			ix = append([]int{fileIx}, ix[:len(ix)-1]...)
		case "shuffled":
			ix = rapid.Permutation(ix).Draw(t, fmt.Sprintf("perm%d", f))
		case "reverse":
			for i, j := 0, len(ix)-1; i < j; i, j = i+1, j-1 {
				ix[i], ix[j] = ix[j], ix[i]
			}
		}
		// duplicates (client retries) at drawn positions
		nd := rapid.IntRange(0, 3).Draw(t, fmt.Sprintf("dups%d", f))
		for d := 0; d < nd; d++ {
			what := ix[rapid.IntRange(0, len(ix)-1).Draw(t, "dupOf")]
			at := rapid.IntRange(0, len(ix)).Draw(t, "dupAt")
			ix = append(ix[:at], append([]int{what}, ix[at:]...)...)
		}
		// a final re-upload of the file schema blob (what pk-put does when the server
		// said it lacks the blob / a retry): the only way a pack can start when the file
		// blob did not arrive last.
		if ix[len(ix)-1] != fileIx && rapid.IntRange(0, 9).Draw(t, fmt.Sprintf("finalRetry%d", f)) < 8 {
			ix = append(ix, fileIx)
		}
		perFile = append(perFile, ix)
	}
	if len(perFile) == 1 {
		return perFile[0], kinds
	}
	a, b := perFile[0], perFile[1]
	switch rapid.SampledFrom([]string{"seq", "seq", "seq", "swapped", "interleaved"}).Draw(t, "fileOrder") {
	case "seq":
		seq = append(append(seq, a...), b...)
	case "swapped":
		seq = append(append(seq, b...), a...)
		kinds = append(kinds, "files-swapped")
	default:
		kinds = append(kinds, "files-interleaved")
		for len(a) > 0 || len(b) > 0 {
			takeA := len(b) == 0 || (len(a) > 0 && rapid.Bool().Draw(t, "riffle"))
			if takeA {
				seq = append(seq, a[0])
				a = a[1:]
			} else {
				seq = append(seq, b[0])
				b = b[1:]
			}
		}
	}
	return seq, kinds
}
