package c09

import (
	"testing"
	"time"

	"perkeep.org/pkg/schema"
	"perkeep.org/pkg/search"

	"verifharness/internal/evid"
	vw "verifharness/internal/vsearchworld"
)

// fix 8f2cff3 (parsePermanodeContinueToken: ParseUint -> ParseInt). Shrunk
// generated case: one permanode whose only claim is dated 1969-12-31T23:59:58Z,
// camliType=permanode, sort -created, limit 1: the token "pn:-2000000000:<ref>"
// was rejected and page 2 was page 1 again, forever.
func TestRegressPre1970ContinueToken(t *testing.T) {
	if evid.Replaying() {
		t.Skip()
	}
	w := vw.New()
	pre := time.Date(1969, 12, 31, 23, 59, 58, 0, time.UTC)
	for i, d := range []time.Time{pre, pre.Add(-time.Hour), time.Date(2013, 1, 2, 3, 4, 5, 0, time.UTC), pre.Add(-time.Hour)} {
		p := w.AddPermanode([]string{"p0", "p1", "p2", "p3"}[i])
		w.AddClaim(p, d, "add-attribute", "tag", "foo")
	}
	ix, err := w.Build()
	if err != nil {
		t.Fatal(err)
	}
	r := &runner{w: w, ix: ix, wh: w.Hash()}
	c := &search.Constraint{CamliType: schema.TypePermanode}
	for _, st := range []search.SortType{search.CreatedDesc, search.LastModifiedDesc, search.UnspecifiedSort} {
		L, _, err := r.query(&search.SearchQuery{Constraint: c, Sort: st, Limit: -1})
		if err != nil || len(L) != 4 {
			t.Fatalf("C09 violated (regression): unlimited: %v %v", L, err)
		}
		model, _ := r.modelList(c, st)
		if !eq(L, model) {
			t.Fatalf("C09 violated (regression): order %v, want %v", L, model)
		}
		for n := 1; n <= 5; n++ {
			if v := r.checkPaging(c, st, n, L); v != "" {
				t.Fatalf("C09 violated (regression pre-1970 token, sort %s, limit %d): %s", sortNames[st], n, v)
			}
		}
	}
}
