// C09 — paging through search results neither skips nor repeats anything.
package c09

import (
	"bytes"
	"context"
	"encoding/json"
	"errors"
	"fmt"
	"io"
	"log"
	"net/http/httptest"
	"os"
	"sort"
	"strings"
	"testing"
	"time"

	"perkeep.org/pkg/blob"
	"perkeep.org/pkg/schema"
	"perkeep.org/pkg/search"
	"pgregory.net/rapid"

	"verifharness/internal/evid"
	vw "verifharness/internal/vsearchworld"
)

const prop = "C09"

const rule = "case = (world, permanode constraint, continuable sort, page size | around pivot). World: 1-60 planned permanodes (one signer, nothing deleted), each with 1-3 claims (tag, title, camliDefVis, " +
	"at most one of dateCreated / camliContent -> file with unixMtime) whose claim dates, dateCreated values and file mtimes come from a per-world pool of instants in one of the modes " +
	"all-equal (1 instant), two clusters, 3-5 instants, all distinct (base + i*stride, stride 1ns..1h, bases before, across and after 1970); instants include sub-second values with differing digit counts, pre-1970, and runs that cross 1970 (never an instant of the first second of 1970, which Time3339.IsAnyZero treats as unset). " +
	"Constraints (all 'about permanodes only', so that tokens are issued): camliType=permanode, permanode{}, tag=X, and(camliType=permanode, tag=X), numValue(tag)>=1, skipHidden, and(tag=X, title=Y). Sorts -created, -mod, unspecified (= -created). " +
	"Oracle: L = unlimited result; (a) L equals the harness model's list: reference match set ordered by (model time desc, blobref desc); (b) for page sizes n in 1..N+1: following Continue tokens terminates within |L|+2 pages, every page has <= n results, " +
	"and the concatenation equals L exactly; (c) Around=p, limit n: p in L => non-empty contiguous slice of L, length <= n, containing p; p not in L (non-matching permanode, claim, file, absent ref) => empty. " +
	"non-trivial = some page boundary separates two results with the same timestamp, or the pivot is neither the first nor the last element of L; distinct = FNV-64 of (world blob list, query JSON)"

// zones: the same instant may be written with different UTC offsets (dateCreated is free text in RFC 3339);
// ordering and ties are about instants, not about their spelling.
var zones = []*time.Location{time.UTC, time.UTC, time.FixedZone("", 2*3600), time.FixedZone("", 5*3600+1800), time.FixedZone("", -8*3600)}

func TestMain(m *testing.M) {
	log.SetOutput(io.Discard)
	evid.Main(m, prop, "exploration", rule)
}

// ---- world ----

var (
	bases = []time.Time{
		time.Date(2013, 1, 2, 3, 4, 5, 0, time.UTC),
		time.Date(1969, 12, 31, 23, 59, 58, 0, time.UTC), // a run of instants from here crosses the epoch
		time.Date(1969, 12, 31, 23, 59, 59, 999999990, time.UTC),
		time.Date(1951, 7, 8, 9, 10, 11, 0, time.UTC),
		time.Date(2001, 9, 9, 1, 46, 39, 500000000, time.UTC),
	}
	strides = []time.Duration{time.Nanosecond, time.Microsecond, 250 * time.Millisecond, time.Second, time.Hour}
	tags    = []string{"foo", "bar"}
)

type worldInfo struct {
	w     *vw.World
	mode  string
	pool  []time.Time
	files []*vw.File
}

func genWorld(t *rapid.T, maxPerms int) *worldInfo {
	wi := &worldInfo{w: vw.New()}
	n := rapid.IntRange(1, maxPerms).Draw(t, "nPerms")
	base := rapid.SampledFrom(bases).Draw(t, "base")
	stride := rapid.SampledFrom(strides).Draw(t, "stride")
	var poolN int
	switch rapid.IntRange(0, 3).Draw(t, "tieMode") {
	case 0:
		wi.mode, poolN = "all-equal", 1
	case 1:
		wi.mode, poolN = "two-clusters", 2
	case 2:
		wi.mode, poolN = "few-instants", rapid.IntRange(3, 5).Draw(t, "poolN")
	default:
		wi.mode, poolN = "all-distinct", n+2
	}
	for i := 0; len(wi.pool) < poolN; i++ {
		if ti := base.Add(time.Duration(i) * stride); ti.Unix() != 0 {
			wi.pool = append(wi.pool, ti)
		} else if stride < time.Millisecond {
			// skip the whole first second of 1970 in one step
			base = base.Add(time.Second)
			i--
		}
	}
	if wi.mode == "two-clusters" && rapid.Bool().Draw(t, "farApart") {
		wi.pool[1] = notUnixZero(rapid.SampledFrom(bases).Draw(t, "base2").Add(3 * time.Second))
		if wi.pool[1].Equal(wi.pool[0]) {
			wi.pool[1] = wi.pool[1].Add(time.Second)
		}
	}
	w := wi.w
	// a few files with mtimes from the pool, as permanode contents
	nf := rapid.IntRange(0, 3).Draw(t, "nFiles")
	for i := 0; i < nf; i++ {
		mt := rapid.SampledFrom(wi.pool).Draw(t, "mtime")
		wi.files = append(wi.files, w.AddFile(fmt.Sprintf("f%d.txt", i), fmt.Sprintf("content %d", i), "text/plain", mt, nil))
	}
	for i := 0; i < n; i++ {
		w.AddPermanode(fmt.Sprintf("p%d", i))
	}
	for i, p := range w.Perms {
		k := rapid.IntRange(1, min(3, len(wi.pool))).Draw(t, "nClaims")
		var dates []time.Time
		if wi.mode == "all-distinct" && rapid.IntRange(0, 3).Draw(t, "ownInstant") > 0 {
			dates = []time.Time{wi.pool[i]} // every permanode its own instant
			k = 1
		} else {
			idx := rapid.Permutation(seq(len(wi.pool))).Draw(t, "dateIdx")[:k]
			sort.Ints(idx)
			for _, ix := range idx {
				dates = append(dates, wi.pool[ix])
			}
		}
		timeSource := false
		for j := 0; j < k; j++ {
			d := dates[j]
			switch c := rapid.IntRange(0, 11).Draw(t, "claimClass"); {
			case c >= 10:
				// a node type (set, or given with add-attribute): queries that pin the type may be planned
				// through the per-type candidate source
				typ := rapid.SampledFrom(nodeTypes).Draw(t, "nodeType")
				kind := "set-attribute"
				if !has(p.ValuesAt("camliNodeType", time.Time{}), typ) && rapid.IntRange(0, 2).Draw(t, "typeAdded") == 0 {
					kind = "add-attribute"
				}
				w.AddClaim(p, d, kind, "camliNodeType", typ)
			case c <= 3:
				tag := rapid.SampledFrom(tags).Draw(t, "tag")
				if has(p.ValuesAt("tag", time.Time{}), tag) {
					w.AddClaim(p, d, "del-attribute", "tag", tag)
				} else {
					w.AddClaim(p, d, "add-attribute", "tag", tag)
				}
			case c <= 5:
				w.AddClaim(p, d, "set-attribute", "title", rapid.SampledFrom([]string{"Alpha", "Beta"}).Draw(t, "title"))
			case c == 6:
				w.AddClaim(p, d, "set-attribute", "camliDefVis", rapid.SampledFrom([]string{"hide", "show"}).Draw(t, "vis"))
			case c == 7 && !timeSource:
				timeSource = true
				w.AddClaim(p, d, "set-attribute", "dateCreated", rapid.SampledFrom(wi.pool).Draw(t, "created").In(rapid.SampledFrom(zones).Draw(t, "zone")).Format(time.RFC3339Nano))
			case c == 8 && !timeSource && len(wi.files) > 0:
				timeSource = true
				w.AddClaim(p, d, "set-attribute", "camliContent", rapid.SampledFrom(wi.files).Draw(t, "content").RefS)
			default:
				w.AddClaim(p, d, "set-attribute", "title", "Gamma")
			}
		}
	}
	if rapid.IntRange(0, 2).Draw(t, "shuffleClaims") == 0 {
		vw.ShuffleClaims(t, w)
	}
	return wi
}

// notUnixZero: schema claim dates are types.Time3339 values and
// Time3339.IsAnyZero ("Go zero or Unix zero") treats every instant with
// Unix()==0 as "not set", so a claim dated in the first second of 1970 is not a
// claim at all. Such instants are never generated.
func notUnixZero(t time.Time) time.Time {
	if t.Unix() == 0 {
		return t.Add(time.Second)
	}
	return t
}

func seq(n int) []int {
	out := make([]int, n)
	for i := range out {
		out[i] = i
	}
	return out
}

func has(vs []string, v string) bool {
	for _, x := range vs {
		if x == v {
			return true
		}
	}
	return false
}

// ---- constraints ----

func attrC(a, v string) *search.Constraint {
	return &search.Constraint{Permanode: &search.PermanodeConstraint{Attr: a, Value: v}}
}

func and(a, b *search.Constraint) *search.Constraint {
	return &search.Constraint{Logical: &search.LogicalConstraint{Op: "and", A: a, B: b}}
}

func genConstraint(t *rapid.T) (*search.Constraint, string) {
	pn := &search.Constraint{CamliType: schema.TypePermanode}
	switch rapid.IntRange(0, 11).Draw(t, "constraint") {
	case 9:
		return attrC("camliNodeType", rapid.SampledFrom(nodeTypes).Draw(t, "ctype")), "nodeType=X"
	case 10:
		return and(attrC("camliNodeType", rapid.SampledFrom(nodeTypes).Draw(t, "ctype")), attrC("tag", rapid.SampledFrom(tags).Draw(t, "ctag"))), "and(nodeType=X,tag=Y)"
	case 11:
		// (a bare "or" of permanode constraints is refused with sorted results: documented TODO in onlyMatchesPermanode)
		return and(pn, &search.Constraint{Logical: &search.LogicalConstraint{Op: "or", A: attrC("camliNodeType", nodeTypes[0]), B: attrC("camliNodeType", nodeTypes[1])}}), "and(permanode,or(nodeType=a,nodeType=b))"
	case 0, 1:
		return pn, "camliType=permanode"
	case 2:
		return &search.Constraint{Permanode: &search.PermanodeConstraint{}}, "permanode{}"
	case 3:
		return attrC("tag", rapid.SampledFrom(tags).Draw(t, "ctag")), "tag=X"
	case 4:
		return and(pn, attrC("tag", rapid.SampledFrom(tags).Draw(t, "ctag"))), "and(permanode,tag=X)"
	case 5:
		return &search.Constraint{Permanode: &search.PermanodeConstraint{Attr: "tag", NumValue: &search.IntConstraint{Min: 1}}}, "numValue(tag)>=1"
	case 6:
		return &search.Constraint{Permanode: &search.PermanodeConstraint{SkipHidden: true}}, "skipHidden"
	case 7:
		return and(attrC("tag", "foo"), attrC("title", "Alpha")), "and(tag,title)"
	default:
		return and(attrC("title", rapid.SampledFrom([]string{"Alpha", "Gamma"}).Draw(t, "ctitle")), pn), "and(title,permanode)"
	}
}

var nodeTypes = []string{"t:a", "t:b"}

var sortNames = map[search.SortType]string{search.CreatedDesc: "-created", search.LastModifiedDesc: "-mod", search.UnspecifiedSort: "unspecified"}

// ---- oracle ----

type runner struct {
	w    *vw.World
	ix   *vw.Indexed
	wh   uint64
	http bool // queries go through Handler.ServeHTTP (POST camli/search/query), as the web UI's and pkg/client's do
}

func (r *runner) httpQuery(q *search.SearchQuery) ([]string, string, error) {
	body, err := json.Marshal(q)
	if err != nil {
		return nil, "", err
	}
	req := httptest.NewRequest("POST", "http://verif.invalid/my-search/camli/search/query", bytes.NewReader(body))
	req.Header.Set("X-Prefixhandler-Pathsuffix", "camli/search/query") // httputil.PathSuffixHeader, set by the PrefixHandler in front of every handler
	rec := httptest.NewRecorder()
	r.ix.H.ServeHTTP(rec, req)
	var res struct {
		Blobs []struct {
			Blob string `json:"blob"`
		} `json:"blobs"`
		Continue string `json:"continue"`
		Error    string `json:"error"`
	}
	if rec.Code != 200 {
		return nil, "", fmt.Errorf("HTTP %d %.200q", rec.Code, rec.Body.String())
	}
	if err := json.Unmarshal(rec.Body.Bytes(), &res); err != nil {
		return nil, "", fmt.Errorf("response is not JSON: %v", err)
	}
	if res.Error != "" {
		return nil, "", errors.New(res.Error)
	}
	out := make([]string, len(res.Blobs))
	for i, b := range res.Blobs {
		out[i] = b.Blob
	}
	return out, res.Continue, nil
}

func (r *runner) modelTime(st search.SortType, ref string) time.Time {
	p := r.w.Blobs[ref].Perm
	if st == search.LastModifiedDesc {
		return p.ModTime()
	}
	// -created: "sorted using the contents creation date if any, the permanode modtime otherwise"
	return r.w.AnyTime(p)
}

// modelList: reference matches ordered by (time desc, blobref desc) — the order
// documented for the continuation token ("sorted by modtime, and then by
// blobref, and then reversed overall").
func (r *runner) modelList(c *search.Constraint, st search.SortType) ([]string, error) {
	ev := &vw.Evaluator{W: r.w}
	must, may := ev.Result(c)
	if len(may) > 0 {
		return nil, fmt.Errorf("harness: C09 constraints must be fully specified, got %d unspecified verdicts", len(may))
	}
	var l []string
	for rs := range must {
		l = append(l, rs)
	}
	sort.Slice(l, func(i, j int) bool {
		ti, tj := r.modelTime(st, l[i]), r.modelTime(st, l[j])
		if !ti.Equal(tj) {
			return ti.After(tj)
		}
		return l[i] > l[j]
	})
	return l, nil
}

func (r *runner) query(q *search.SearchQuery) ([]string, string, error) {
	if r.http {
		return r.httpQuery(q)
	}
	res, err := r.ix.H.Query(context.Background(), q)
	if err != nil {
		return nil, "", err
	}
	out := make([]string, len(res.Blobs))
	for i, b := range res.Blobs {
		out[i] = b.Blob.String()
	}
	return out, res.Continue, nil
}

func (r *runner) fmtList(st search.SortType, l []string) string {
	var sb strings.Builder
	for i, rs := range l {
		if b := r.w.Blobs[rs]; b != nil && b.Perm != nil {
			fmt.Fprintf(&sb, "\n      %2d %s %s (%s, unixnano %d)", i, rs, b.Perm.Key, r.modelTime(st, rs).Format(time.RFC3339Nano), r.modelTime(st, rs).UnixNano())
		} else {
			fmt.Fprintf(&sb, "\n      %2d %s (not a permanode of the world)", i, rs)
		}
	}
	return sb.String()
}

func eq(a, b []string) bool {
	if len(a) != len(b) {
		return false
	}
	for i := range a {
		if a[i] != b[i] {
			return false
		}
	}
	return true
}

func qjson(q *search.SearchQuery) string {
	b, _ := json.Marshal(q)
	return string(b)
}

// checkPaging follows continuation tokens with page size n.
func (r *runner) checkPaging(c *search.Constraint, st search.SortType, n int, L []string) string {
	var got []string
	cont := ""
	pages := 0
	var trace []string
	for {
		q := &search.SearchQuery{Constraint: c, Sort: st, Limit: n, Continue: cont}
		page, next, err := r.query(q)
		if err != nil {
			return fmt.Sprintf("page %d (continue=%q): query error: %v", pages, cont, err)
		}
		pages++
		trace = append(trace, fmt.Sprintf("page %d continue=%q -> %d results, next=%q", pages, cont, len(page), next))
		if len(page) > n {
			return fmt.Sprintf("page %d has %d results, limit is %d", pages, len(page), n)
		}
		got = append(got, page...)
		if next == "" {
			break
		}
		if pages > len(L)+2 {
			return fmt.Sprintf("paging does not terminate: %d pages of size %d requested for a result of %d (results repeat)\n    %s\n    concatenation so far:%s",
				pages, n, len(L), strings.Join(trace[max(0, len(trace)-4):], "\n    "), r.fmtList(st, got[:min(len(got), 3*n+3)]))
		}
		cont = next
	}
	if !eq(got, L) {
		seen := map[string]int{}
		for _, x := range got {
			seen[x]++
		}
		var skipped, repeated []string
		for _, x := range L {
			if seen[x] == 0 {
				skipped = append(skipped, x)
			}
			if seen[x] > 1 {
				repeated = append(repeated, x)
			}
		}
		return fmt.Sprintf("pages of size %d concatenate to %d results, the unlimited list has %d; skipped=%v repeated=%v\n    %s\n    paged:%s",
			n, len(got), len(L), skipped, repeated, strings.Join(trace, "\n    "), r.fmtList(st, got))
	}
	return ""
}

func (r *runner) checkAround(c *search.Constraint, st search.SortType, n int, pivot string, L []string) string {
	pr, ok := blob.Parse(pivot)
	if !ok {
		return "harness: bad pivot " + pivot
	}
	got, _, err := r.query(&search.SearchQuery{Constraint: c, Sort: st, Limit: n, Around: pr})
	if err != nil {
		return fmt.Sprintf("around=%s limit=%d: query error: %v", pivot, n, err)
	}
	pos := -1
	for i, x := range L {
		if x == pivot {
			pos = i
		}
	}
	if pos < 0 {
		if len(got) != 0 {
			return fmt.Sprintf("around=%s (not in the result) limit=%d returned %d results, want none:%s", pivot, n, len(got), r.fmtList(st, got))
		}
		return ""
	}
	eff := n
	if eff == 0 {
		eff = 200
	}
	if len(got) == 0 {
		return fmt.Sprintf("around=%s (position %d of %d) limit=%d returned nothing", pivot, pos, len(L), n)
	}
	if eff > 0 && len(got) > eff {
		return fmt.Sprintf("around=%s limit=%d returned %d results", pivot, n, len(got))
	}
	start := -1
	for i, x := range L {
		if x == got[0] {
			start = i
		}
	}
	if start < 0 || start+len(got) > len(L) || !eq(got, L[start:start+len(got)]) {
		return fmt.Sprintf("around=%s (position %d) limit=%d: result is not a contiguous slice of the full ordered list\n    window:%s", pivot, pos, n, r.fmtList(st, got))
	}
	if pos < start || pos >= start+len(got) {
		return fmt.Sprintf("around=%s (position %d) limit=%d: window [%d,%d) does not contain the pivot", pivot, pos, n, start, start+len(got))
	}
	return ""
}

// TestPagingLargeResultsOverHTTP: one world with more permanodes than the search handler returns in one
// response at most (1000), massively tied times, paged through the HTTP entry point and in-process with
// page sizes around and above that cap: the pages must still concatenate to exactly the unlimited list,
// and an Around window must contain its pivot.
func TestPagingLargeResultsOverHTTP(t *testing.T) {
	evid.Check(t, 1, 4, func(t *rapid.T) {
		n := rapid.IntRange(1030, 1250).Draw(t, "permanodes")
		w := vw.New()
		pool := []time.Time{time.Date(2011, 5, 6, 7, 8, 9, 0, time.UTC), time.Date(2011, 5, 6, 7, 8, 9, 500, time.UTC), time.Date(1969, 12, 31, 23, 0, 0, 0, time.UTC), time.Date(2020, 1, 1, 0, 0, 0, 0, time.UTC)}
		salt := rapid.IntRange(0, 1<<20).Draw(t, "salt")
		for i := 0; i < n; i++ {
			p := w.AddPermanode(fmt.Sprintf("big%d-%d", salt, i))
			w.AddClaim(p, pool[(i*7+salt)%len(pool)], "set-attribute", "title", []string{"Alpha", "Beta"}[i%2])
		}
		ix, err := w.Build()
		if err != nil {
			t.Fatalf("harness: building the index failed: %v", err)
		}
		c := &search.Constraint{Permanode: &search.PermanodeConstraint{}}
		for _, st := range []search.SortType{search.CreatedDesc, search.LastModifiedDesc} {
			inproc := &runner{w: w, ix: ix, wh: w.Hash()}
			L, err := inproc.modelList(c, st)
			if err != nil {
				t.Fatalf("%v", err)
			}
			full, _, err := inproc.query(&search.SearchQuery{Constraint: c, Sort: st, Limit: -1})
			if err != nil || !eq(full, L) {
				t.Fatalf("C09 violated: unlimited query over %d permanodes (sort %s): err=%v, %d results, the model order has %d", n, sortNames[st], err, len(full), len(L))
			}
			for _, via := range []bool{false, true} {
				r := &runner{w: w, ix: ix, wh: w.Hash(), http: via}
				for _, page := range []int{999, 1000, 1001, rapid.IntRange(1002, n+5).Draw(t, "page")} {
					evid.R.Eval()
					evid.R.Label(fmt.Sprintf("large/http=%v/page-size-%s", via, map[bool]string{true: "above-1000", false: "up-to-1000"}[page > 1000]))
					evid.R.NonTrivial(evid.Hash("large", n, salt, sortNames[st], via, page))
					if v := r.checkPaging(c, st, page, L); v != "" {
						t.Fatalf("C09 violated (%d permanodes, sort %s, over HTTP: %v): %s", n, sortNames[st], via, v)
					}
				}
				pivot := L[rapid.IntRange(0, len(L)-1).Draw(t, "pivot")]
				for _, lim := range []int{1000, 2001, 2 * n} {
					if v := r.checkAround(c, st, lim, pivot, L); v != "" {
						t.Fatalf("C09 violated (%d permanodes, sort %s, over HTTP: %v): %s", n, sortNames[st], via, v)
					}
				}
			}
		}
		if evid.R.WantSample(true) {
			evid.R.Sample(true, map[string]any{"kind": "large-result-paging", "permanodes": n, "page_sizes": "999, 1000, 1001 and one drawn above", "transports": "in-process and Handler.ServeHTTP"})
		}
	})
}

func TestPagingExactlyOnce(t *testing.T) {
	maxPerms := evid.Pick(60, 60)
	evid.Check(t, 120, 800, func(t *rapid.T) {
		wi := genWorld(t, maxPerms)
		w := wi.w
		ix, err := w.Build()
		if err != nil {
			t.Fatalf("harness: building the index failed: %v", err)
		}
		r := &runner{w: w, ix: ix, wh: w.Hash()}
		evid.R.Label("world/" + wi.mode)
		N := len(w.Perms)
		nq := rapid.IntRange(1, 4).Draw(t, "nQueries")
		for qi := 0; qi < nq; qi++ {
			c, cname := genConstraint(t)
			st := rapid.SampledFrom([]search.SortType{search.CreatedDesc, search.LastModifiedDesc, search.CreatedDesc, search.LastModifiedDesc, search.UnspecifiedSort}).Draw(t, "sort")
			cj, _ := json.Marshal(c)
			fail := func(format string, a ...any) {
				wd, _ := json.Marshal(w.Describe())
				t.Fatalf("C09 violated: constraint %s sort=%s: %s\n  world(%s, %d permanodes): %s", cj, sortNames[st], fmt.Sprintf(format, a...), wi.mode, N, wd)
			}
			model, err := r.modelList(c, st)
			if err != nil {
				t.Fatalf("%v", err)
			}
			// (a) unlimited list equals the model's list
			L, tok, err := r.query(&search.SearchQuery{Constraint: c, Sort: st, Limit: -1})
			evid.R.Eval()
			evid.R.Label("constraint/" + cname)
			evid.R.Label("sort/" + sortNames[st])
			if err != nil {
				fail("unlimited query error: %v", err)
			}
			if tok != "" {
				fail("unlimited query returned a continue token %q", tok)
			}
			if !eq(L, model) {
				fail("unlimited result differs from the model's ordered list (time desc, blobref desc)\n    got:%s\n    want:%s", r.fmtList(st, L), r.fmtList(st, model))
			}
			ties := 0
			for i := 1; i < len(L); i++ {
				if r.modelTime(st, L[i-1]).Equal(r.modelTime(st, L[i])) {
					ties++
				}
			}
			if ties > 0 {
				evid.R.Label("list/has-tied-neighbours")
			}
			if len(L) == 0 {
				evid.R.Label("list/empty")
			}
			// (b) paging
			limits := map[int]bool{}
			for i, k := 0, rapid.IntRange(1, 4).Draw(t, "nLimits"); i < k; i++ {
				limits[rapid.IntRange(1, N+1).Draw(t, "limit")] = true
			}
			var ls []int
			for n := range limits {
				ls = append(ls, n)
			}
			sort.Ints(ls)
			for _, n := range ls {
				evid.R.Eval()
				evid.R.Label("check/paging")
				nt := false
				pre1970End := false
				for k := n; k < len(L); k += n {
					if r.modelTime(st, L[k-1]).Equal(r.modelTime(st, L[k])) {
						nt = true
					}
					if r.modelTime(st, L[k-1]).UnixNano() < 0 {
						pre1970End = true
					}
				}
				if nt {
					evid.R.Label("paging/tie-straddles-page-boundary")
					evid.R.NonTrivial(evid.Hash(r.wh, string(cj), sortNames[st], "page", n))
				}
				if pre1970End {
					evid.R.Label("paging/page-ends-before-1970")
				}
				if len(L) > n {
					evid.R.Label("paging/multi-page")
				}
				if v := r.checkPaging(c, st, n, L); v != "" {
					fail("%s\n    full list:%s", v, r.fmtList(st, L))
				}
				if evid.R.WantSample(nt) {
					evid.R.Sample(nt, map[string]any{"kind": "paging", "mode": wi.mode, "permanodes": N, "constraint": json.RawMessage(cj), "sort": sortNames[st], "limit": n, "result_len": len(L), "tied_neighbours": ties})
				}
			}
			// (c) around
			var pivots []string
			if len(L) > 0 && len(L) <= 10 {
				pivots = append(pivots, L...) // every result
			} else if len(L) > 0 {
				pivots = append(pivots, L[0], L[len(L)-1], L[len(L)/2], L[rapid.IntRange(0, len(L)-1).Draw(t, "pivotIx")], L[rapid.IntRange(0, len(L)-1).Draw(t, "pivotIx2")])
			}
			inL := map[string]bool{}
			for _, x := range L {
				inL[x] = true
			}
			for _, p := range w.Perms {
				if !inL[p.RefS] {
					pivots = append(pivots, p.RefS) // a permanode that does not match
					break
				}
			}
			pivots = append(pivots, w.Perms[0].Claims[0].Ref.String())                         // a claim
			pivots = append(pivots, blob.RefFromString("no such blob in this world").String()) // absent
			if len(wi.files) > 0 {
				pivots = append(pivots, wi.files[0].RefS)
			}
			seenP := map[string]bool{}
			for _, pv := range pivots {
				n := rapid.SampledFrom([]int{1, 2, 3, 4, 5, 7, N, N + 1, 0, -1}).Draw(t, "aroundLimit")
				key := fmt.Sprintf("%s/%d", pv, n)
				if seenP[key] {
					continue
				}
				seenP[key] = true
				evid.R.Eval()
				evid.R.Label("check/around")
				nt := inL[pv] && pv != L[0] && pv != L[len(L)-1]
				switch {
				case nt:
					evid.R.Label("around/pivot-inside")
					evid.R.NonTrivial(evid.Hash(r.wh, string(cj), sortNames[st], "around", pv, n))
				case inL[pv]:
					evid.R.Label("around/pivot-at-end")
				default:
					evid.R.Label("around/pivot-not-in-result")
				}
				if v := r.checkAround(c, st, n, pv, L); v != "" {
					fail("%s\n    full list:%s", v, r.fmtList(st, L))
				}
				if nt && evid.R.WantSample(true) && len(L) > 4 {
					evid.R.Sample(true, map[string]any{"kind": "around", "mode": wi.mode, "permanodes": N, "constraint": json.RawMessage(cj), "sort": sortNames[st], "limit": n, "pivot": pv, "result_len": len(L)})
				}
			}
		}
	})
}

var _ = os.Getenv
