package c16

import (
	"context"
	"io"
	"sync"
	"encoding/json"
	"fmt"
	"math/big"
	"sort"
	"strings"
	"testing"
	"time"

	"perkeep.org/pkg/blob"
	"perkeep.org/pkg/jsonsign"
	"perkeep.org/pkg/schema"
	"pgregory.net/rapid"

	"verifharness/internal/evid"
	"verifharness/internal/vgen"
	"verifharness/internal/vsign"
)

// The route clients take when they hold a parsed schema blob rather than JSON text
// (client.UploadAndSignBlob, planned permanodes): schema.Blob -> Builder() -> SignAt. It accepts
// permanodes and claims, sets claimDate and camliSigner, and must leave every other field as it was:
// same keys, same strings, and numbers equal as exact rationals (not as float64).

func decodeNumbers(s string) (map[string]any, error) {
	dec := json.NewDecoder(strings.NewReader(s))
	dec.UseNumber()
	var m map[string]any
	err := dec.Decode(&m)
	return m, err
}

// sameJSON compares two values decoded with UseNumber; numbers by exact value.
func sameJSON(path string, a, b any) string {
	switch av := a.(type) {
	case json.Number:
		bv, ok := b.(json.Number)
		if !ok {
			return fmt.Sprintf("%s: number %s became %T %v", path, av, b, b)
		}
		ar, ok1 := new(big.Rat).SetString(av.String())
		br, ok2 := new(big.Rat).SetString(bv.String())
		if !ok1 || !ok2 {
			if av.String() != bv.String() {
				return fmt.Sprintf("%s: number %s became %s", path, av, bv)
			}
			return ""
		}
		if ar.Cmp(br) != 0 {
			return fmt.Sprintf("%s: number %s became %s", path, av, bv)
		}
	case map[string]any:
		bv, ok := b.(map[string]any)
		if !ok {
			return fmt.Sprintf("%s: object became %T", path, b)
		}
		var keys []string
		for k := range av {
			keys = append(keys, k)
		}
		sort.Strings(keys)
		for _, k := range keys {
			w, ok := bv[k]
			if !ok {
				return fmt.Sprintf("%s: member %q is gone", path, k)
			}
			if d := sameJSON(path+"."+k, av[k], w); d != "" {
				return d
			}
		}
		for k := range bv {
			if _, ok := av[k]; !ok {
				return fmt.Sprintf("%s: member %q appeared", path, k)
			}
		}
	case []any:
		bv, ok := b.([]any)
		if !ok || len(bv) != len(av) {
			return fmt.Sprintf("%s: array %v became %v", path, a, b)
		}
		for i := range av {
			if d := sameJSON(fmt.Sprintf("%s[%d]", path, i), av[i], bv[i]); d != "" {
				return d
			}
		}
	default:
		if a != b {
			return fmt.Sprintf("%s: %#v became %#v", path, a, b)
		}
	}
	return ""
}

func hasWideInt(v any) bool {
	switch x := v.(type) {
	case json.Number:
		r, ok := new(big.Rat).SetString(x.String())
		if !ok || !r.IsInt() {
			return false
		}
		return new(big.Int).Abs(r.Num()).BitLen() > 53
	case map[string]any:
		for _, w := range x {
			if hasWideInt(w) {
				return true
			}
		}
	case []any:
		for _, w := range x {
			if hasWideInt(w) {
				return true
			}
		}
	}
	return false
}

type legacyFetcher struct {
	id  *vsign.Identity
	ref blob.Ref
}

func (f legacyFetcher) Fetch(ctx context.Context, br blob.Ref) (io.ReadCloser, uint32, error) {
	if br == f.ref {
		return io.NopCloser(strings.NewReader(f.id.Armored)), uint32(len(f.id.Armored)), nil
	}
	return vsign.KeyFetcher().Fetch(ctx, br)
}

var (
	legacyMu      sync.Mutex
	legacySigners = map[string]*schema.Signer{}
)

func legacySigner(id *vsign.Identity, ref blob.Ref) (*schema.Signer, error) {
	legacyMu.Lock()
	defer legacyMu.Unlock()
	if s, ok := legacySigners[id.Name]; ok {
		return s, nil
	}
	s, err := schema.NewSigner(ref, strings.NewReader(id.Armored), entityOf(id))
	if err == nil {
		legacySigners[id.Name] = s
	}
	return s, err
}

type builderCase struct {
	Unsigned string `json:"unsigned"`
	Signer   string `json:"signer"`
	SigTime  int64  `json:"sig_time_unix"`
}

func TestBuilderRouteKeepsFields(t *testing.T) {
	evid.Check(t, 1500, 30000, func(t *rapid.T) {
		g := &jgen{t: t}
		id := rapid.SampledFrom(identities()).Draw(t, "identity")
		ty := rapid.SampledFrom([]string{"permanode", "claim"}).Draw(t, "camliType")
		fixed := []member{
			{key: "camliVersion", keyLit: `"camliVersion"`, val: float64(1), valLit: "1"},
			{key: "camliType", keyLit: `"camliType"`, val: ty, valLit: fmt.Sprintf("%q", ty)},
		}
		if rapid.Bool().Draw(t, "withSigner") {
			// any signer reference: the route replaces it by the signing key's
			r := rapid.SampledFrom(identities()).Draw(t, "statedSigner").Ref.String()
			fixed = append(fixed, member{key: "camliSigner", keyLit: `"camliSigner"`, val: r, valLit: fmt.Sprintf("%q", r)})
		}
		_, lit := g.object(0, fixed)
		st := rapid.Int64Range(1, 1<<32-1).Draw(t, "sigTime")
		bc := &builderCase{Unsigned: lit, Signer: id.Name, SigTime: st}
		want, err := decodeNumbers(lit)
		if err != nil {
			panic("harness bug: generated document is not valid JSON: " + lit)
		}
		if _, ok := want["camliSig"]; ok {
			evid.R.Label("builder-route/skipped-object-with-camliSig-member")
			return // not an unsigned object
		}
		b, err := schema.BlobFromReader(vgen.RefOf("sha224", []byte(lit)), strings.NewReader(lit))
		if err != nil {
			// a typed schema field (claimDate, permaNode, ...) drew a value of another type: not a schema blob
			evid.R.Label("builder-route/skipped-not-a-schema-blob")
			return
		}
		signer, err := id.SchemaSigner()
		if err != nil {
			panic("harness: schema.NewSigner: " + err.Error())
		}
		var fetch blob.Fetcher = vsign.KeyFetcher()
		wantSigner := id.Ref
		if rapid.IntRange(0, 3).Draw(t, "legacyKeyRef") == 0 {
			// the signer's public key blob named by its legacy sha1 ref, as stores created before the
			// switch to sha224 name it
			wantSigner = vgen.RefOf("sha1", []byte(id.Armored))
			if signer, err = legacySigner(id, wantSigner); err != nil {
				t.Fatalf("C16 violated (completeness): schema.NewSigner refuses the public key under its sha1 ref %v: %v", wantSigner, err)
			}
			fetch = legacyFetcher{id: id, ref: wantSigner}
			evid.R.Label("builder-route/signer-named-by-sha1-ref")
		}
		sigTime := time.Unix(st, 0)
		signed, err := b.Builder().SignAt(ctxbg, signer, sigTime)
		if err != nil {
			t.Fatalf("C16 violated (completeness): Blob.Builder().SignAt refused a valid %s: %v\nunsigned: %q", ty, err, lit)
		}
		if !json.Valid([]byte(signed)) {
			t.Fatalf("C16 violated (completeness): Blob.Builder().SignAt returned invalid JSON: %q", signed)
		}
		vr := jsonsign.NewVerificationRequest(signed, fetch)
		if _, err := vr.Verify(ctxbg); err != nil {
			t.Fatalf("C16 violated (completeness): a document signed through Blob.Builder().SignAt does not verify: %v\nsigned: %q", err, signed)
		}
		if vr.CamliSigner != wantSigner {
			t.Fatalf("C16 violated (completeness): signed through %s's signer, the document names %v", id.Name, vr.CamliSigner)
		}
		got, err := decodeNumbers(signed)
		if err != nil {
			t.Fatalf("C16 violated (completeness): signed document does not decode: %v", err)
		}
		if s, _ := got["camliSig"].(string); s == "" {
			t.Fatalf("C16 violated (completeness): signed document has no camliSig: %q", signed)
		}
		cd, _ := got["claimDate"].(string)
		if tm, err := time.Parse(time.RFC3339Nano, cd); err != nil || !tm.Equal(sigTime) {
			t.Fatalf("C16 violated (completeness): SignAt(%v) wrote claimDate %q", sigTime.UTC(), cd)
		}
		// the fields the route sets itself
		for _, k := range []string{"camliSig", "claimDate", "camliSigner"} {
			delete(got, k)
			delete(want, k)
		}
		if d := sameJSON("", want, got); d != "" {
			t.Fatalf("C16 violated (completeness): the document signed through Blob.Builder().SignAt does not expose the original fields: %s\nunsigned: %q\nsigned:   %q", d, lit, signed)
		}
		evid.R.Eval()
		evid.R.Label("builder-route/signed-and-compared")
		wide := hasWideInt(want)
		if wide {
			evid.R.Label("builder-route/with-integer-beyond-2^53")
		}
		nt := len(want) > 2
		if nt {
			evid.R.NonTrivial(evid.Hash(lit, st, id.Name))
		}
		if evid.R.WantSample(nt && wide) {
			evid.R.Sample(nt, map[string]any{"kind": "Blob -> Builder -> SignAt", "case": bc})
		}
	})
}
