package c16

import (
	"context"
	"encoding/json"
	"fmt"
	"strings"
	"sync"
	"testing"
	"time"

	"perkeep.org/pkg/jsonsign"
	"perkeep.org/pkg/schema"
	"pgregory.net/rapid"

	"verifharness/internal/evid"
	"verifharness/internal/vsign"
)

// TestSchemaSignerShared: schema.Signer (the signer every server component and importer shares) must give
// each caller the signature of ITS OWN object, also when several goroutines sign at once: the output is
// valid JSON, verifies, carries exactly the caller's fields and signature time, and a request that must be
// refused (no camliSigner) is refused.
func TestSchemaSignerShared(t *testing.T) {
	id := vsign.Test()
	signer, err := schema.NewSigner(id.Ref, strings.NewReader(id.Armored), vsign.TestSecring)
	if err != nil {
		t.Fatalf("harness: NewSigner: %v", err)
	}
	evid.Check(t, 40, 400, func(t *rapid.T) {
		ng := rapid.IntRange(2, 8).Draw(t, "goroutines")
		per := rapid.IntRange(2, 12).Draw(t, "perGoroutine")
		type job struct {
			unsigned string
			marker   string
			at       time.Time
			bad      bool
		}
		jobs := make([][]job, ng)
		for g := range jobs {
			for i := 0; i < per; i++ {
				marker := fmt.Sprintf("g%d-i%d-%d", g, i, rapid.IntRange(0, 1<<20).Draw(t, "salt"))
				at := time.Unix(int64(rapid.IntRange(1, 1<<31-1).Draw(t, "sigTime")), 0)
				if rapid.IntRange(0, 4).Draw(t, "bad") == 0 {
					jobs[g] = append(jobs[g], job{unsigned: fmt.Sprintf(`{"camliVersion": 1, "marker": %q}`, marker), marker: marker, at: at, bad: true})
					continue
				}
				nested := ""
				if rapid.Bool().Draw(t, "nested") {
					nested = `, "sub": {"k": [1, 2, {"z": null}]}`
				}
				jobs[g] = append(jobs[g], job{unsigned: fmt.Sprintf(`{"camliVersion": 1, "camliSigner": %q, "marker": %q%s}`, id.Ref.String(), marker, nested), marker: marker, at: at})
			}
		}
		var mu sync.Mutex
		var problems []string
		var wg sync.WaitGroup
		ctx := context.Background()
		for g := range jobs {
			wg.Add(1)
			go func(g int) {
				defer wg.Done()
				for _, j := range jobs[g] {
					out, err := signer.SignJSON(ctx, j.unsigned, j.at)
					prob := ""
					switch {
					case j.bad && err == nil:
						prob = fmt.Sprintf("object without camliSigner (marker %s) was signed: %.120q", j.marker, out)
					case j.bad:
					case err != nil:
						prob = fmt.Sprintf("valid object (marker %s) was refused: %v", j.marker, err)
					default:
						var m map[string]any
						if jerr := json.Unmarshal([]byte(out), &m); jerr != nil {
							prob = fmt.Sprintf("signed document (marker %s) is not valid JSON: %v", j.marker, jerr)
						} else if m["marker"] != j.marker {
							prob = fmt.Sprintf("caller signed marker %s but got back a document with marker %v", j.marker, m["marker"])
						} else {
							vr := jsonsign.NewVerificationRequest(out, vsign.KeyFetcher())
							if _, verr := vr.Verify(ctx); verr != nil {
								prob = fmt.Sprintf("signed document (marker %s) does not verify: %v", j.marker, verr)
							} else if sg, perr := parseSig(vr.CamliSig); perr != nil {
								prob = fmt.Sprintf("signature of marker %s cannot be parsed: %v", j.marker, perr)
							} else if !sg.CreationTime.Equal(j.at) {
								prob = fmt.Sprintf("caller asked for signature time %v (marker %s) but the signature carries %v", j.at.UTC(), j.marker, sg.CreationTime.UTC())
							}
						}
					}
					if prob != "" {
						mu.Lock()
						problems = append(problems, prob)
						mu.Unlock()
					}
				}
			}(g)
		}
		wg.Wait()
		evid.R.EvalN(ng * per)
		evid.R.Label("signer/concurrent-batches")
		evid.R.NonTrivial(evid.Hash("signer", fmt.Sprint(jobs)))
		if len(problems) > 0 {
			t.Fatalf("C16 violated (shared schema.Signer, %d goroutines): %s", ng, strings.Join(problems, "\n"))
		}
	})
}
