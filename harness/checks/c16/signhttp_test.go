package c16

import (
	"encoding/json"
	"fmt"
	"io"
	"net/http"
	"net/http/httptest"
	"net/url"
	"reflect"
	"strings"
	"sync"
	"testing"
	"time"

	"go4.org/jsonconfig"
	"perkeep.org/pkg/auth"
	"perkeep.org/pkg/blobserver"
	"perkeep.org/pkg/blobserver/memory"
	"perkeep.org/pkg/client"
	"perkeep.org/pkg/jsonsign"
	"pgregory.net/rapid"

	"verifharness/internal/evid"
	"verifharness/internal/vsign"
)

// Signing as a remote client does it: pkg/client.Sign posts the unsigned object to the server's sign
// helper (found through discovery) and returns what the helper wrote. The helper accepts objects of up
// to 1 MiB; whatever it accepts must come back as a document that is valid JSON, verifies, signs the
// payload jsonsign signs for the same object, and exposes the original fields. Larger objects must be
// refused, not answered with something else.

const signHelperMax = 1024 * 1024 // pkg/jsonsign/signhandler: maxJSONLength

var (
	signSrvOnce sync.Once
	signSrv     *httptest.Server
	signClient  *client.Client
	signSrvErr  error
)

func signServer() (*client.Client, string, error) {
	signSrvOnce.Do(func() {
		// as perkeepd configures it: the helper publishes its public key to a blob store
		helper, err := blobserver.CreateHandler("jsonsign", keyDestLoader{dest: &memory.Storage{}}, jsonconfig.Obj{
			"keyId": vsign.Test().KeyID, "secretRing": vsign.TestSecring, "publicKeyDest": "/bs/",
		})
		if err != nil {
			signSrvErr = err
			return
		}
		id := vsign.Test()
		disco, _ := json.Marshal(map[string]any{
			"blobRoot": "/bs/",
			"signing": map[string]any{
				"publicKeyId":      id.KeyID,
				"publicKeyBlobRef": id.Ref.String(),
				"signHandler":      "/sighelper/camli/sig/sign",
				"verifyHandler":    "/sighelper/camli/sig/verify",
			},
		})
		mux := http.NewServeMux()
		mux.HandleFunc("/", func(rw http.ResponseWriter, req *http.Request) {
			rw.Header().Set("Content-Type", "text/javascript")
			rw.Write(disco)
		})
		mux.HandleFunc("/sighelper/", func(rw http.ResponseWriter, req *http.Request) {
			req.Header.Set("X-Prefixhandler-Pathsuffix", strings.TrimPrefix(req.URL.Path, "/sighelper/"))
			req.Header.Set("X-Prefixhandler-Pathbase", "/sighelper/")
			defer func() {
				if p := recover(); p != nil {
					http.Error(rw, fmt.Sprintf("sign helper panicked: %v", p), 500)
				}
			}()
			helper.ServeHTTP(rw, req)
		})
		signSrv = httptest.NewServer(mux)
		signClient, signSrvErr = client.New(client.OptionNoExternalConfig(), client.OptionServer(signSrv.URL), client.OptionAuthMode(auth.None{}))
		if signSrvErr == nil {
			signClient.Logger.SetOutput(io.Discard)
		}
	})
	if signSrvErr != nil {
		return nil, "", signSrvErr
	}
	return signClient, signSrv.URL, nil
}

type keyDestLoader struct {
	noLoader
	dest blobserver.Storage
}

func (l keyDestLoader) GetStorage(p string) (blobserver.Storage, error) {
	if p == "/bs/" {
		return l.dest, nil
	}
	return nil, fmt.Errorf("no storage %q", p)
}

type signHTTPCase struct {
	Class     string `json:"class"`
	Length    int    `json:"unsigned_length"`
	Head      string `json:"unsigned_head"`
	OverLimit bool   `json:"over_the_helper_limit"`
}

func TestSignThroughClientAndHelper(t *testing.T) {
	evid.Check(t, 60, 1500, func(t *rapid.T) {
		cl, base, err := signServer()
		if err != nil {
			t.Fatalf("VERIF-INCONCLUSIVE: sign server: %v", err)
		}
		d := genDoc(t)
		for d.id.Name != vsign.Test().Name || d.Tree["camliSig"] != nil { // the helper signs with its own key only
			d = genDoc(t)
		}
		class := rapid.SampledFrom([]string{"as-drawn", "as-drawn", "near-limit", "near-limit", "at-limit", "over-limit"}).Draw(t, "sizeClass")
		if _, has := d.Tree["pad"]; has {
			class = "as-drawn"
		}
		if class != "as-drawn" {
			// grow the object to a drawn total length with one more string member
			body := strings.TrimRight(d.Unsigned, " \t\r\n")
			const frame = `,"pad":""`
			var total int
			switch class {
			case "near-limit":
				total = signHelperMax - rapid.IntRange(1, 2000).Draw(t, "below")
			case "at-limit":
				total = signHelperMax - rapid.SampledFrom([]int{0, 0, 1, 2}).Draw(t, "belowAtLimit")
			default:
				total = signHelperMax + rapid.IntRange(1, 600).Draw(t, "above")
			}
			n := total - len(body) - len(frame) - (len(d.Unsigned) - len(body))
			pad := strings.Repeat("p", n)
			d.Unsigned = body[:len(body)-1] + `,"pad":"` + pad + `"}` + d.Unsigned[len(body):]
			d.Tree["pad"] = pad
			if len(d.Unsigned) != total {
				panic(fmt.Sprintf("harness: padded to %d, wanted %d", len(d.Unsigned), total))
			}
		}
		sc := &signHTTPCase{Class: class, Length: len(d.Unsigned), Head: d.Unsigned[:min(len(d.Unsigned), 300)], OverLimit: len(d.Unsigned) > signHelperMax}
		got, err := cl.Sign(ctxbg, base, strings.NewReader(url.Values{"json": {d.Unsigned}}.Encode()))
		if sc.OverLimit {
			if err == nil {
				// whatever came back must not pass for a signed document of something else
				vr := jsonsign.NewVerificationRequest(string(got), vsign.KeyFetcher())
				if _, verr := vr.Verify(ctxbg); verr == nil && !reflect.DeepEqual(vr.PayloadMap, map[string]any(d.Tree)) {
					t.Fatalf("C16 violated: an object of %d bytes (over the helper's limit) came back as a verifying document with other fields", len(d.Unsigned))
				}
			}
			evid.R.Eval()
			evid.R.Label("sign-over-http/over-limit-refused-or-exact")
			return
		}
		if err != nil {
			t.Fatalf("C16 violated (completeness): client.Sign of a valid unsigned object of %d bytes failed: %v\nhead: %q", len(d.Unsigned), err, sc.Head)
		}
		s := string(got)
		if !json.Valid(got) {
			t.Fatalf("C16 violated (completeness): client.Sign returned %d bytes that are not valid JSON for an unsigned object of %d bytes; tail %q", len(got), len(d.Unsigned), s[max(0, len(s)-120):])
		}
		vr := jsonsign.NewVerificationRequest(s, vsign.KeyFetcher())
		if _, err := vr.Verify(ctxbg); err != nil {
			t.Fatalf("C16 violated (completeness): the document client.Sign returned for an unsigned object of %d bytes does not verify: %v", len(d.Unsigned), err)
		}
		if !reflect.DeepEqual(vr.PayloadMap, map[string]any(d.Tree)) {
			t.Fatalf("C16 violated (completeness): the document client.Sign returned exposes other fields than the unsigned object (%d bytes)", len(d.Unsigned))
		}
		local, err := d.id.SignJSON(d.Unsigned, time.Unix(d.SigTime, 0))
		if err != nil {
			t.Fatalf("C16 violated (completeness): jsonsign refuses an object the helper signed: %v", err)
		}
		i, j := strings.LastIndex(s, sep), strings.LastIndex(local, sep)
		if i < 0 || j < 0 || s[:i] != local[:j] {
			t.Fatalf("C16 violated: helper and jsonsign sign different payloads for the same object (%d bytes)", len(d.Unsigned))
		}
		evid.R.Eval()
		evid.R.Label("sign-over-http/" + class)
		nt := class != "as-drawn" || len(d.Tree) > 2
		if nt {
			evid.R.NonTrivial(evid.Hash(class, len(d.Unsigned), d.Unsigned[:min(len(d.Unsigned), 2000)]))
		}
		if evid.R.WantSample(nt) {
			evid.R.Sample(nt, map[string]any{"kind": "client.Sign through the sign helper", "case": sc})
		}
	})
}
