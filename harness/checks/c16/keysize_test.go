package c16

import (
	"context"
	"fmt"
	"io"
	"reflect"
	"strings"
	"sync"
	"testing"
	"time"

	"golang.org/x/crypto/openpgp"
	"golang.org/x/crypto/openpgp/packet"
	"perkeep.org/pkg/blob"
	"perkeep.org/pkg/jsonsign"
	"pgregory.net/rapid"

	"verifharness/internal/evid"
)

// Signers with keys of other sizes than the two shipped key rings (1024 and 2048 bits): the length of the
// armored signature, and so where its base64 body is wrapped, depends on the key size. The keys are made
// once per process (crypto/rand: their values differ between runs, the verdict does not depend on them);
// the documents are generated as everywhere else.

var sizedBits = []int{1024, 1184, 1536, 2048, 2264}

type sizedKey struct {
	bits int
	ent  *openpgp.Entity
	arm  string
	ref  blob.Ref
}

var (
	sizedMu   sync.Mutex
	sizedKeys = map[int]*sizedKey{}
)

func keyOfSize(bits int) (*sizedKey, error) {
	sizedMu.Lock()
	defer sizedMu.Unlock()
	if k, ok := sizedKeys[bits]; ok {
		return k, nil
	}
	ent, err := openpgp.NewEntity("", "verif", "", &packet.Config{RSABits: bits})
	if err != nil {
		return nil, err
	}
	arm, err := jsonsign.ArmoredPublicKey(ent)
	if err != nil {
		return nil, err
	}
	k := &sizedKey{bits: bits, ent: ent, arm: arm, ref: blob.RefFromString(arm)}
	sizedKeys[bits] = k
	return k, nil
}

func (k *sizedKey) Fetch(ctx context.Context, br blob.Ref) (io.ReadCloser, uint32, error) {
	if br == k.ref {
		return io.NopCloser(strings.NewReader(k.arm)), uint32(len(k.arm)), nil
	}
	return nil, 0, fmt.Errorf("verif: no such key blob %v", br)
}

func TestSignersOfOtherKeySizes(t *testing.T) {
	evid.Check(t, 150, 3000, func(t *rapid.T) {
		bits := rapid.SampledFrom(sizedBits).Draw(t, "keyBits")
		k, err := keyOfSize(bits)
		if err != nil {
			t.Fatalf("VERIF-INCONCLUSIVE: cannot make a %d-bit key: %v", bits, err)
		}
		g := &jgen{t: t}
		fixed := []member{
			{key: "camliVersion", keyLit: `"camliVersion"`, val: float64(1), valLit: "1"},
			{key: "camliSigner", keyLit: `"camliSigner"`, val: k.ref.String(), valLit: fmt.Sprintf("%q", k.ref.String())},
		}
		tree, lit := g.object(0, fixed)
		if _, has := tree["camliSig"]; has {
			return // not an unsigned object
		}
		st := rapid.Int64Range(1, 1<<32-1).Draw(t, "sigTime")
		sr := &jsonsign.SignRequest{UnsignedJSON: lit, Fetcher: k, EntityFetcher: fixedEntity{k.ent}, SignatureTime: time.Unix(st, 0)}
		signed, err := sr.Sign(ctxbg)
		if err != nil {
			t.Fatalf("C16 violated (completeness): signing a valid unsigned object with a %d-bit key failed: %v\nunsigned: %q", bits, err, lit)
		}
		vr := jsonsign.NewVerificationRequest(signed, k)
		if _, err := vr.Verify(ctxbg); err != nil {
			i := strings.LastIndex(signed, sep)
			t.Fatalf("C16 violated (completeness): a document freshly signed with a %d-bit key does not verify: %v (camliSig of %d characters)\nunsigned: %q", bits, err, len(signed)-i-len(sep)-3, lit)
		}
		if !reflect.DeepEqual(vr.PayloadMap, map[string]any(tree)) {
			t.Fatalf("C16 violated (completeness): PayloadMap = %v, the unsigned object was %v", vr.PayloadMap, tree)
		}
		if vr.CamliSigner != k.ref {
			t.Fatalf("C16 violated (completeness): CamliSigner = %v, want %v", vr.CamliSigner, k.ref)
		}
		// a one-character change of the payload must not verify
		if i := strings.Index(signed, `"camliVersion"`); i >= 0 {
			m := signed[:i+1] + "C" + signed[i+2:]
			if _, err := jsonsign.NewVerificationRequest(m, k).Verify(ctxbg); err == nil {
				t.Fatalf("C16 violated: a changed payload verifies under a %d-bit key: %q", bits, m)
			}
		}
		evid.R.Eval()
		evid.R.Label(fmt.Sprintf("key-size/%d-bits", bits))
		evid.R.NonTrivial(evid.Hash("keysize", bits, lit, st))
		if evid.R.WantSample(true) {
			evid.R.Sample(true, map[string]any{"kind": "signer of another key size", "key_bits": bits, "unsigned": lit, "sig_time_unix": st})
		}
	})
}
