// C16 — signed schema blobs verify, and only untampered ones do.
//
// Completeness: generated unsigned JSON objects (camliVersion, camliSigner, arbitrary
// further members) are signed with jsonsign.SignRequest and must verify, stay valid
// JSON and expose exactly the original fields.
//
// Soundness (fault enumeration): for EVERY byte position of each signed document a fixed
// family of substitutions, insertions and the deletion is applied (all 255 substitutions and
// all 256 insertions for a few documents per run); plus structural forgeries: signature by
// the other key while naming the first, signature spliced from another document, signer
// reference swapped, members appended behind the signature. A mutant that Verify accepts
// must (1) have exactly the signed payload bytes of the original (payload = everything
// before the last `,"camliSig":"`, doc/json-signing/README.md), (2) be valid JSON as a
// whole whose members are exactly the signed members plus camliSig, (3) report the key
// the payload names.
package c16

import (
	"bytes"
	"context"
	"encoding/json"
	"fmt"
	"io"
	"log"
	"path/filepath"
	"reflect"
	"runtime"
	"strconv"
	"strings"
	"sync"
	"testing"
	"time"
	"unicode/utf8"

	"golang.org/x/crypto/openpgp"
	"golang.org/x/crypto/openpgp/armor"
	"golang.org/x/crypto/openpgp/packet"
	"perkeep.org/pkg/blob"
	"perkeep.org/pkg/jsonsign"
	"pgregory.net/rapid"

	"verifharness/internal/evid"
	"verifharness/internal/vsign"
)

const prop = "C16"

const sep = `,"camliSig":"`

var ctxbg = context.Background()

func TestMain(m *testing.M) {
	log.SetOutput(io.Discard)
	evid.Main(m, prop, "fault_enumeration",
		"documents: rapid builds JSON objects with camliVersion and camliSigner at drawn positions plus drawn members (nested objects/arrays, numbers, unicode and escaped strings in drawn escape styles, drawn inter-token whitespace, leading/trailing whitespace, members named camliSig at top level or nested so that the literal separator ,\"camliSig\":\" occurs inside the payload, string values containing escaped separator look-alikes), "+
			"signed by one of two identities at signature times drawn across 0..2^32-1. Every document must sign, verify, stay valid JSON and expose the original members. "+
			"mutants (enumerated per document, not sampled): at EVERY byte position p of the signed document: substitution by each byte of a fixed family (case flip, c+1, c-1, quote, backslash, space, brace, comma, '0', 'A', '=', newline, 0x00, 0xC3 and two drawn bytes), insertion of each byte of a family before p (and at the end), deletion of p; "+
			"for some documents ALL 255 substitutions and ALL 256 insertions at every position; structural forgeries per document (other key signs while payload names the first, signature spliced from another document, signer reference swapped, members appended behind the signature, duplicate camliSig). "+
			"oracle: accepted => payload bytes (before the last separator) identical to the signed payload AND whole document is valid JSON with exactly the signed members + camliSig AND reported key id is the named signer's. "+
			"evaluations = mutants + documents verified; non-trivial = mutant differs from the original and its position lies in the payload, the separator or the armored signature (not behind the signature's closing quote), or a structural forgery; "+
			"distinct = hash(document, position) — all edits tried at one position of one document are counted as ONE distinct case (conservative), structural forgeries one per (document, kind)")
}

// ---------------------------------------------------------------------------
// identities

var (
	entOnce   sync.Once
	entSecond *openpgp.Entity
	entTest   *openpgp.Entity
	entErr    error
)

func secondRing() string {
	_, file, _, _ := runtime.Caller(0)
	return filepath.Join(filepath.Dir(file), "..", "..", "internal", "vsign", "testdata", "second-secring.gpg")
}

func entities() (test, second *openpgp.Entity) {
	entOnce.Do(func() {
		entTest, entErr = jsonsign.EntityFromSecring(vsign.Test().KeyID, vsign.TestSecring)
		if entErr != nil {
			return
		}
		entSecond, entErr = jsonsign.EntityFromSecring(vsign.Second().KeyID, secondRing())
	})
	if entErr != nil {
		panic("c16: cannot load signing entities: " + entErr.Error())
	}
	return entTest, entSecond
}

// fixedEntity hands out one entity whatever fingerprint is asked for: this is how the
// harness makes a signature with a key other than the one the payload names.
type fixedEntity struct{ e *openpgp.Entity }

func (f fixedEntity) FetchEntity(string) (*openpgp.Entity, error) { return f.e, nil }

func identities() []*vsign.Identity { return []*vsign.Identity{vsign.Test(), vsign.Second()} }

func otherOf(id *vsign.Identity) *vsign.Identity {
	if id == vsign.Test() {
		return vsign.Second()
	}
	return vsign.Test()
}

func entityOf(id *vsign.Identity) *openpgp.Entity {
	t, s := entities()
	if id == vsign.Test() {
		return t
	}
	return s
}

// registry of everything the harness signed legitimately: payload bytes -> signer, and
// (payload, signed portion of the signature packet) pairs
var (
	regMu      sync.Mutex
	signed     = map[string]*vsign.Identity{}
	signedSigs = map[string]bool{}
)

// registerSigned records a document produced by a legitimate signing call.
func registerSigned(s string, id *vsign.Identity) error {
	i := strings.LastIndex(s, sep)
	if i < 0 {
		return fmt.Errorf("no separator")
	}
	rest := s[i+len(sep):]
	q := strings.IndexByte(rest, '"')
	if q < 0 {
		return fmt.Errorf("unterminated camliSig")
	}
	sg, err := parseSig(rest[:q])
	if err != nil {
		return fmt.Errorf("cannot decode the signature packet: %v", err)
	}
	regMu.Lock()
	signed[s[:i]] = id
	signedSigs[s[:i]+"\x00"+string(sg.HashSuffix)] = true
	regMu.Unlock()
	return nil
}

func signedBy(payload string) *vsign.Identity {
	regMu.Lock()
	defer regMu.Unlock()
	return signed[payload]
}

func sigRegistered(payload string, hashSuffix []byte) bool {
	regMu.Lock()
	defer regMu.Unlock()
	return signedSigs[payload+"\x00"+string(hashSuffix)]
}

// parseSig decodes the single-line armored signature the way doc/json-signing describes it
// (base64 text, '=' + CRC24 at the end) into the OpenPGP signature packet.
func parseSig(line string) (*packet.Signature, error) {
	eq := strings.LastIndex(line, "=")
	if eq < 0 {
		return nil, fmt.Errorf("no '=' in signature")
	}
	var sb strings.Builder
	sb.WriteString("-----BEGIN PGP SIGNATURE-----\n\n")
	body := line[:eq]
	for len(body) > 0 {
		n := min(len(body), 60)
		sb.WriteString(body[:n] + "\n")
		body = body[n:]
	}
	sb.WriteString(line[eq:] + "\n-----END PGP SIGNATURE-----\n")
	block, err := armor.Decode(strings.NewReader(sb.String()))
	if err != nil || block == nil {
		return nil, fmt.Errorf("armor: %v", err)
	}
	p, err := packet.Read(block.Body)
	if err != nil {
		return nil, err
	}
	sg, ok := p.(*packet.Signature)
	if !ok {
		return nil, fmt.Errorf("not a signature packet: %T", p)
	}
	return sg, nil
}

// ---------------------------------------------------------------------------
// JSON generator: value tree + its serialisation in a drawn style

type jgen struct {
	t        *rapid.T
	lookLike int // literal separators placed in the payload
}

var wsChoices = []string{"", "", "", "", "", " ", "\n", "\t", "\r\n", "  ", " \n "}

func (g *jgen) ws() string { return rapid.SampledFrom(wsChoices).Draw(g.t, "ws") }

var runePool = []rune{'a', 'b', 'Z', '0', '9', ' ', '"', '\\', '/', '\n', '\t', '\r', '\b', '\f', 0x01, 0x1f, 0x7f, 'é', 'ß', '日', 0x2028, 0xfffd, '😀', 0x10ffff, ',', ':', '{', '}', '[', ']', '=', '-', '<', '&'}

var shortEsc = map[rune]string{'"': `\"`, '\\': `\\`, '/': `\/`, '\n': `\n`, '\t': `\t`, '\r': `\r`, '\b': `\b`, '\f': `\f`}

func (g *jgen) runeLit(r rune) string {
	mustEscape := r < 0x20 || r == '"' || r == '\\'
	// 0: short escape where one exists, else as 1; 1: raw where legal, else short or \u; 2/3: \u escape (lower/upper hex)
	style := rapid.IntRange(0, 3).Draw(g.t, "escStyle")
	se, hasShort := shortEsc[r]
	switch {
	case style == 0 && hasShort:
		return se
	case style <= 1 && !mustEscape:
		return string(r)
	case style <= 1 && hasShort:
		return se
	}
	hexf := "%04x"
	if style == 3 {
		hexf = "%04X"
	}
	if r >= 0x10000 {
		r -= 0x10000
		return `\u` + fmt.Sprintf(hexf, 0xd800+(r>>10)) + `\u` + fmt.Sprintf(hexf, 0xdc00+(r&0x3ff))
	}
	return `\u` + fmt.Sprintf(hexf, r)
}

var lookAlikes = []string{sep, `x` + sep + `y"}`, `,"camliSig":`, `"camliSig":"`, `","camliSig":"AAAA=BBBB"}` + "\n", `\",\"camliSig\":\"`}

func (g *jgen) str() (val, lit string) {
	var sb, lb strings.Builder
	lb.WriteByte('"')
	if rapid.IntRange(0, 7).Draw(g.t, "lookAlikeString") == 0 {
		s := rapid.SampledFrom(lookAlikes).Draw(g.t, "lookAlike")
		for _, r := range s {
			sb.WriteRune(r)
			lb.WriteString(g.runeLit(r))
		}
	}
	n := rapid.IntRange(0, 8).Draw(g.t, "strLen")
	for i := 0; i < n; i++ {
		r := rapid.SampledFrom(runePool).Draw(g.t, "rune")
		sb.WriteRune(r)
		lb.WriteString(g.runeLit(r))
	}
	lb.WriteByte('"')
	return sb.String(), lb.String()
}

type numLit struct {
	lit string
	val float64
}

var numPool = []numLit{{"0", 0}, {"-0", 0}, {"1", 1}, {"-1", -1}, {"1.5", 1.5}, {"-2.25e2", -225}, {"1e3", 1000}, {"2E-2", 0.02}, {"1E+2", 100}, {"0.1", 0.1}, {"9007199254740991", 9007199254740991}, {"1234567890123", 1234567890123}, {"4294967295", 4294967295}, {"1e308", 1e308}, {"0e0", 0}}

// integers no float64 holds exactly: a signing route that decodes into float64 and writes the object
// out again changes them. The value tree holds what encoding/json yields for the literal.
func init() {
	for _, l := range []string{"9007199254740993", "-9007199254740993", "18446744073709551615", "-9223372036854775807", "12345678901234567890123"} {
		f, err := strconv.ParseFloat(l, 64)
		if err != nil {
			panic(err)
		}
		numPool = append(numPool, numLit{l, f})
	}
}

func (g *jgen) value(depth int) (any, string) {
	k := rapid.IntRange(0, 9).Draw(g.t, "valueKind")
	if depth >= 3 && k >= 7 {
		k -= 4
	}
	switch k {
	case 0, 1, 2:
		v, l := g.str()
		return v, l
	case 3:
		if rapid.Bool().Draw(g.t, "poolNum") {
			n := rapid.SampledFrom(numPool).Draw(g.t, "num")
			return n.val, n.lit
		}
		i := rapid.IntRange(-1000000, 1<<40).Draw(g.t, "int")
		return float64(i), strconv.Itoa(i)
	case 4:
		return true, "true"
	case 5:
		return false, "false"
	case 6:
		return nil, "null"
	case 7: // array
		n := rapid.IntRange(0, 3).Draw(g.t, "arrLen")
		arr := make([]any, 0, n)
		lit := "[" + g.ws()
		for i := 0; i < n; i++ {
			v, l := g.value(depth + 1)
			arr = append(arr, v)
			if i > 0 {
				lit += "," + g.ws()
			}
			lit += l + g.ws()
		}
		return arr, lit + "]"
	default:
		m, l := g.object(depth+1, nil)
		return m, l
	}
}

type member struct {
	key     string
	keyLit  string
	val     any
	valLit  string
	compact bool // no whitespace around (keeps a literal separator intact)
}

var keyPool = []string{"a", "b", "claimDate", "claimType", "permaNode", "attribute", "value", "random", "key", "x y", "é", "日本", "k\"q", "k\\b", "camliSigX", "CamliSig", "camlisig", "camliVersion2", ""}

func (g *jgen) object(depth int, fixed []member) (map[string]any, string) {
	n := rapid.IntRange(0, 4).Draw(g.t, "nMembers")
	if depth > 0 && len(fixed) == 0 && n == 0 && rapid.Bool().Draw(g.t, "emptyObj") {
		return map[string]any{}, "{" + g.ws() + "}"
	}
	ms := append([]member(nil), fixed...)
	used := map[string]bool{"camliSig": true}
	for _, m := range fixed {
		used[m.key] = true
	}
	for i := 0; i < n; i++ {
		key := rapid.SampledFrom(keyPool).Draw(g.t, "key")
		if used[key] {
			continue
		}
		used[key] = true
		var kl strings.Builder
		kl.WriteByte('"')
		for _, r := range key {
			kl.WriteString(g.runeLit(r))
		}
		kl.WriteByte('"')
		v, l := g.value(depth)
		ms = append(ms, member{key: key, keyLit: kl.String(), val: v, valLit: l})
	}
	// a member literally named camliSig with a string value, written compactly: the separator bytes occur inside the payload
	wantLook := rapid.IntRange(0, 5).Draw(g.t, "camliSigMember")
	if (depth > 0 && wantLook <= 1) || (depth == 0 && wantLook == 0) {
		v := rapid.SampledFrom([]string{"", "zzz", "AAAA=BBBB", "x\"}"}).Draw(g.t, "fakeSig")
		ms = append(ms, member{key: "camliSig", keyLit: `"camliSig"`, val: v, valLit: strconv.Quote(v), compact: true})
	}
	if len(ms) > 1 {
		ms = rapid.Permutation(ms).Draw(g.t, "memberOrder")
	}
	out := map[string]any{}
	lit := "{"
	for i, m := range ms {
		out[m.key] = m.val
		if m.compact && i > 0 {
			lit = strings.TrimRight(lit, " \t\r\n")
			lit += `,"camliSig":` + m.valLit
			g.lookLike++
			continue
		}
		if i > 0 {
			lit += ","
		}
		lit += g.ws() + m.keyLit + g.ws() + ":" + g.ws() + m.valLit
		if i+1 < len(ms) && ms[i+1].compact {
			continue
		}
		lit += g.ws()
	}
	return out, lit + "}"
}

type doc struct {
	Unsigned string         `json:"unsigned"`
	Signer   string         `json:"signer"`
	SigTime  int64          `json:"sig_time_unix"`
	Tree     map[string]any `json:"-"`
	LookLike int            `json:"literal_separators_in_payload"`

	id       *vsign.Identity
	signed   string
	payload  string // signed[:last separator]
	sigStart int    // offset of the armored signature text in signed
	sigEnd   int    // offset of its closing quote
}

var sigTimes = []int64{0, 1, 1 << 31, 1<<31 - 1, 1<<32 - 1, 1<<32 - 2, 1300000000}

func genDoc(t *rapid.T) *doc {
	g := &jgen{t: t}
	id := rapid.SampledFrom(identities()).Draw(t, "identity")
	fixed := []member{
		{key: "camliVersion", keyLit: `"camliVersion"`, val: float64(1), valLit: "1"},
		{key: "camliSigner", keyLit: `"camliSigner"`, val: id.Ref.String(), valLit: strconv.Quote(id.Ref.String())},
	}
	if rapid.Bool().Draw(t, "withType") {
		ty := rapid.SampledFrom([]string{"claim", "permanode", "share", "keep", "delete", "x"}).Draw(t, "camliType")
		fixed = append(fixed, member{key: "camliType", keyLit: `"camliType"`, val: ty, valLit: strconv.Quote(ty)})
	}
	tree, lit := g.object(0, fixed)
	lead := rapid.SampledFrom([]string{"", "", "", " ", "\n", "\t\r\n"}).Draw(t, "leadingWS")
	trail := rapid.SampledFrom([]string{"", "", "\n", " ", "\n\n", " \t\r\n"}).Draw(t, "trailingWS")
	var st int64
	if rapid.Bool().Draw(t, "edgeTime") {
		st = rapid.SampledFrom(sigTimes).Draw(t, "sigTime")
	} else {
		st = rapid.Int64Range(0, 1<<32-1).Draw(t, "sigTime")
	}
	return &doc{Unsigned: lead + lit + trail, Signer: id.Name, SigTime: st, Tree: tree, LookLike: g.lookLike, id: id}
}

// sign signs d and checks the completeness half of the property. Returns a violation text or "".
func (d *doc) sign() string {
	if !utf8.ValidString(d.Unsigned) || !json.Valid([]byte(d.Unsigned)) {
		panic("harness bug: generated unsigned document is not valid JSON: " + d.Unsigned)
	}
	s, err := d.id.SignJSON(d.Unsigned, time.Unix(d.SigTime, 0))
	if err != nil {
		return fmt.Sprintf("signing a valid unsigned object failed: %v", err)
	}
	d.signed = s
	// the payload is whatever precedes the last separator (doc/json-signing "VERIFYING"); the
	// canonical shape T + separator + S + "}\n is recommended by the document, not demanded
	i := strings.LastIndex(s, sep)
	if i < 0 {
		return fmt.Sprintf("signed document has no signature separator: %q", s)
	}
	d.payload = s[:i]
	d.sigStart = i + len(sep)
	q := strings.IndexByte(s[d.sigStart:], '"')
	if q < 0 {
		return fmt.Sprintf("signed document has an unterminated camliSig: %q", s)
	}
	d.sigEnd = d.sigStart + q
	if err := registerSigned(s, d.id); err != nil {
		return fmt.Sprintf("signed document %q: %v", s, err)
	}
	trimmed := strings.TrimRight(d.Unsigned, " \t\r\n")
	if s == trimmed[:len(trimmed)-1]+sep+s[d.sigStart:d.sigEnd]+"\"}\n" {
		evid.R.Label("documents/canonical-shape")
	}
	var whole map[string]any
	if err := json.Unmarshal([]byte(s), &whole); err != nil {
		return fmt.Sprintf("signed document is not valid JSON: %v", err)
	}
	sig, _ := whole["camliSig"].(string)
	if sig == "" || sig != s[d.sigStart:d.sigEnd] {
		return "signed document does not expose camliSig as the appended signature string"
	}
	delete(whole, "camliSig")
	want := cloneWithout(d.Tree, "camliSig")
	if !reflect.DeepEqual(whole, want) {
		return fmt.Sprintf("signed document exposes %v, the unsigned object was %v", whole, want)
	}
	vr := jsonsign.NewVerificationRequest(s, vsign.KeyFetcher())
	if _, err := vr.Verify(ctxbg); err != nil {
		return fmt.Sprintf("freshly signed document does not verify: %v (vr.Err=%v)", err, vr.Err)
	}
	if !reflect.DeepEqual(vr.PayloadMap, map[string]any(d.Tree)) {
		return fmt.Sprintf("PayloadMap = %v, the unsigned object was %v", vr.PayloadMap, d.Tree)
	}
	if vr.SignerKeyId != d.id.KeyID {
		return fmt.Sprintf("SignerKeyId = %q, signer's key id is %q", vr.SignerKeyId, d.id.KeyID)
	}
	if vr.CamliSigner != d.id.Ref {
		return fmt.Sprintf("CamliSigner = %v, want %v", vr.CamliSigner, d.id.Ref)
	}
	// the same object through schema.Signer, the path every server component, importer and client uses
	ssig, err := d.id.SchemaSigner()
	if err != nil {
		panic("harness: schema.NewSigner: " + err.Error())
	}
	s2, err := ssig.SignJSON(ctxbg, d.Unsigned, time.Unix(d.SigTime, 0))
	if err != nil {
		return fmt.Sprintf("schema.Signer.SignJSON refused a valid unsigned object that jsonsign signs: %v", err)
	}
	if j := strings.LastIndex(s2, sep); j < 0 || s2[:j] != d.payload {
		return fmt.Sprintf("schema.Signer.SignJSON signed another payload than jsonsign for the same object: %q", s2)
	}
	vr2 := jsonsign.NewVerificationRequest(s2, vsign.KeyFetcher())
	if _, err := vr2.Verify(ctxbg); err != nil {
		return fmt.Sprintf("document signed through schema.Signer does not verify: %v", err)
	}
	evid.R.Label("documents/also-signed-through-schema.Signer")
	return ""
}

func cloneWithout(m map[string]any, k string) map[string]any {
	out := make(map[string]any, len(m))
	for kk, v := range m {
		if kk != k {
			out[kk] = v
		}
	}
	return out
}

// ---------------------------------------------------------------------------
// soundness oracle

// verifyAccepts runs the real verifier; a panic is reported as an error text.
func verifyAccepts(s string) (ok bool, vr *jsonsign.VerifyRequest, panicked string) {
	defer func() {
		if r := recover(); r != nil {
			ok, panicked = false, fmt.Sprint(r)
		}
	}()
	vr = jsonsign.NewVerificationRequest(s, vsign.KeyFetcher())
	_, err := vr.Verify(ctxbg)
	return err == nil, vr, ""
}

// judgeAccepted decides whether an ACCEPTED document m is one the property allows to be
// accepted. Returns "" if fine.
func judgeAccepted(m string, vr *jsonsign.VerifyRequest) string {
	i := strings.LastIndex(m, sep)
	if i < 0 {
		return "accepted a document without a signature separator"
	}
	payload := m[:i]
	id := signedBy(payload)
	if id == nil {
		return fmt.Sprintf("accepted a document whose payload bytes were never signed by the harness: payload %q", payload)
	}
	// the payload must name the key that signed it, and Verify must report that key
	var pm map[string]any
	if err := json.Unmarshal([]byte(payload+"}"), &pm); err != nil {
		return fmt.Sprintf("accepted a document whose payload+'}' is not JSON: %v", err)
	}
	if pm["camliSigner"] != id.Ref.String() {
		return fmt.Sprintf("accepted payload names signer %v but was signed by %s (%v)", pm["camliSigner"], id.Name, id.Ref)
	}
	if vr.SignerKeyId != id.KeyID || vr.CamliSigner != id.Ref {
		return fmt.Sprintf("accepted, but reports signer %q/%v; the payload was signed by %q/%v", vr.SignerKeyId, vr.CamliSigner, id.KeyID, id.Ref)
	}
	if !reflect.DeepEqual(vr.PayloadMap, pm) {
		return fmt.Sprintf("accepted, but PayloadMap %v differs from the signed payload %v", vr.PayloadMap, pm)
	}
	// the signature packet may only differ from a genuine one in parts that are not signed
	sg, err := parseSig(vr.CamliSig)
	if err != nil {
		return fmt.Sprintf("accepted, but the harness cannot decode the signature packet: %v", err)
	}
	if !sigRegistered(payload, sg.HashSuffix) {
		return fmt.Sprintf("accepted a signature packet whose signed portion (type %d, hash %v, time %v, suffix %x) is not one the harness produced for this payload", sg.SigType, sg.Hash, sg.CreationTime, sg.HashSuffix)
	}
	// the document as a whole: valid JSON, exactly the signed members + camliSig
	var whole map[string]any
	if err := json.Unmarshal([]byte(m), &whole); err != nil {
		return fmt.Sprintf("accepted a document that is not valid JSON as a whole: %v", err)
	}
	if _, ok := whole["camliSig"].(string); !ok {
		return "accepted a document whose camliSig member is not a string"
	}
	delete(whole, "camliSig")
	if !reflect.DeepEqual(whole, cloneWithout(pm, "camliSig")) {
		return fmt.Sprintf("accepted a document that exposes members %v which differ from the signed ones %v", whole, cloneWithout(pm, "camliSig"))
	}
	return ""
}

type mutStats struct {
	mutants  int
	examples []map[string]any // first accepted (harmless) mutants, for the evidence samples
	accepted map[string]int   // region/op -> count of accepted (harmless) mutants
}

func region(d *doc, p int) string {
	switch {
	case p < len(d.payload):
		return "payload"
	case p < len(d.payload)+len(sep):
		return "separator"
	case p < d.sigEnd:
		if eq := strings.LastIndex(d.signed[d.sigStart:d.sigEnd], "="); eq >= 0 && p >= d.sigStart+eq {
			return "armor-crc"
		}
		return "armor-body"
	}
	return "tail"
}

// tryMutant verifies m (a mutant of d made by op at original position p) and returns a violation or "".
func tryMutant(d *doc, m string, op string, p int, st *mutStats) string {
	st.mutants++
	ok, vr, pan := verifyAccepts(m)
	if pan != "" {
		return fmt.Sprintf("Verify panicked on mutant (%s at %d): %s\nmutant: %q", op, p, pan, m)
	}
	if !ok {
		return ""
	}
	reg := region(d, min(p, len(d.signed)-1))
	st.accepted[reg+"/"+op]++
	if len(st.examples) < 3 && (len(st.examples) == 0 || st.examples[len(st.examples)-1]["region"] != reg) {
		st.examples = append(st.examples, map[string]any{"edit": op, "position": p, "region": reg, "verdict": "accepted; signed payload, signed part of the signature packet and exposed members identical to the original", "mutant": m})
	}
	i := strings.LastIndex(m, sep)
	if i < 0 || m[:i] != d.payload {
		got := ""
		if i >= 0 {
			got = m[:i]
		}
		return fmt.Sprintf("mutant (%s at %d, region %s) ACCEPTED although its signed payload differs from the original\noriginal payload: %q\nmutant payload:   %q\nmutant: %q", op, p, reg, d.payload, got, m)
	}
	if v := judgeAccepted(m, vr); v != "" {
		return fmt.Sprintf("mutant (%s at %d, region %s): %s\nmutant: %q", op, p, reg, v, m)
	}
	return ""
}

var fixedSubst = []byte{'"', '\\', ' ', '}', ',', '0', 'A', '=', '\n', 0x00, 0xC3}
var fixedInsert = []byte{'"', '\\', ' ', '}', ',', 'A', '=', '\n', 0x00}

func flipCase(c byte) byte {
	if 'a' <= c && c <= 'z' || 'A' <= c && c <= 'Z' {
		return c ^ 0x20
	}
	return c ^ 0x01
}

// enumerate applies the edit family at every position. full = all byte values.
func enumerate(d *doc, drawn []byte, full bool, st *mutStats) string {
	s := d.signed
	docHash := evid.Hash("doc", s)
	buf := make([]byte, 0, len(s)+1)
	for p := 0; p <= len(s); p++ {
		nt := p < d.sigEnd
		if nt {
			evid.R.NonTrivial(evid.Hash(docHash, p))
		}
		// insertions before p (p == len(s): append)
		var ins []byte
		if full {
			ins = allBytes
		} else {
			ins = append(append([]byte{}, fixedInsert...), drawn...)
			if p < len(s) {
				ins = append(ins, s[p])
			}
		}
		for _, b := range ins {
			buf = append(append(append(buf[:0], s[:p]...), b), s[p:]...)
			if v := tryMutant(d, string(buf), "insert", p, st); v != "" {
				return v
			}
		}
		if p == len(s) {
			break
		}
		// deletion
		buf = append(append(buf[:0], s[:p]...), s[p+1:]...)
		if v := tryMutant(d, string(buf), "delete", p, st); v != "" {
			return v
		}
		// substitutions
		var subs []byte
		if full {
			subs = allBytes
		} else {
			subs = append(append([]byte{flipCase(s[p]), s[p] + 1, s[p] - 1}, fixedSubst...), drawn...)
		}
		var done [256]bool
		done[s[p]] = true
		for _, b := range subs {
			if done[b] {
				continue
			}
			done[b] = true
			buf = append(buf[:0], s...)
			buf[p] = b
			if v := tryMutant(d, string(buf), "substitute", p, st); v != "" {
				return v
			}
		}
	}
	return ""
}

var allBytes = func() []byte {
	b := make([]byte, 256)
	for i := range b {
		b[i] = byte(i)
	}
	return b
}()

// forgeries builds the structural mutants of d. other is a second, independently generated signed document.
func forgeries(d, other *doc, st *mutStats) string {
	docHash := evid.Hash("doc", d.signed)
	try := func(kind, m string, mustReject bool) string {
		evid.R.NonTrivial(evid.Hash(docHash, kind))
		evid.R.Label("forgery/" + kind)
		st.mutants++
		ok, vr, pan := verifyAccepts(m)
		if pan != "" {
			return fmt.Sprintf("Verify panicked on forgery %s: %s\ndocument: %q", kind, pan, m)
		}
		if !ok {
			return ""
		}
		st.accepted["forgery/"+kind]++
		if mustReject {
			return fmt.Sprintf("forgery %q ACCEPTED\ndocument: %q", kind, m)
		}
		if v := judgeAccepted(m, vr); v != "" {
			return fmt.Sprintf("forgery %q: %s\ndocument: %q", kind, v, m)
		}
		return ""
	}
	sigOf := func(x *doc) string { return x.signed[x.sigStart:x.sigEnd] }
	// 1. the other key signs a payload that names d's signer
	oth := otherOf(d.id)
	sr := &jsonsign.SignRequest{UnsignedJSON: d.Unsigned, Fetcher: vsign.KeyFetcher(), EntityFetcher: fixedEntity{entityOf(oth)}, SignatureTime: time.Unix(d.SigTime, 0)}
	forged, err := sr.Sign(ctxbg)
	if err != nil {
		panic("harness: cannot produce other-key signature: " + err.Error())
	}
	if !strings.HasPrefix(forged, d.payload+sep) {
		panic("harness: other-key document has a different payload")
	}
	if forged == d.signed {
		panic("harness: other-key signature equals the genuine one")
	}
	if v := try("signed-by-other-key-naming-first", forged, true); v != "" {
		return v
	}
	// 2. signature spliced from another document (same or other signer)
	if other != nil {
		if v := try("signature-spliced-from-other-document", d.payload+sep+sigOf(other)+"\"}\n", other.payload != d.payload); v != "" {
			return v
		}
	}
	// 3. same payload, signature made at another time by the right key: must still be fine (not a forgery, a control)
	s2, err := d.id.SignJSON(d.Unsigned, time.Unix((d.SigTime+86400)%(1<<32), 0))
	if err != nil {
		return "re-signing at another time failed: " + err.Error()
	}
	if err := registerSigned(s2, d.id); err != nil {
		return fmt.Sprintf("document re-signed at another time: %v", err)
	}
	if ok, _, _ := verifyAccepts(s2); !ok {
		return "document re-signed at another time does not verify"
	}
	// 4. signer reference swapped to the other (existing) key / to a missing key, signature kept
	ref := d.id.Ref.String()
	if strings.Count(d.payload, ref) >= 1 {
		if v := try("signer-ref-swapped-to-other-key", strings.Replace(d.signed, ref, oth.Ref.String(), 1), true); v != "" {
			return v
		}
		missing := blob.RefFromString("no such key").String()
		if v := try("signer-ref-swapped-to-missing-key", strings.Replace(d.signed, ref, missing, 1), true); v != "" {
			return v
		}
	}
	// 5. members smuggled in behind the signature (not covered by it)
	sig := sigOf(d)
	for _, extra := range []string{
		`,"camliSigner":"` + oth.Ref.String() + `"`,
		`,"camliType":"permanode"`,
		`,"injected":1`,
		`,"camliVersion":2`,
		`, "camliSig":"` + sig + `"`,
		`,"camliSig" :"x"`,
	} {
		// accepted only if it changes neither payload nor the exposed members (judgeAccepted)
		if v := try("member-appended-after-signature", d.payload+sep+sig+`"`+extra+"}\n", false); v != "" {
			return v
		}
	}
	// 6. members smuggled in between payload and signature
	if v := try("member-inserted-before-signature", d.payload+`,"injected":1`+sep+sig+"\"}\n", true); v != "" {
		return v
	}
	// 7. a second signature object / duplicate separator
	if v := try("double-signature", d.payload+sep+sig+`"`+sep+sig+"\"}\n", true); v != "" {
		return v
	}
	// 8. payload truncated at an inner literal separator (only exists with look-alike members)
	if i := strings.Index(d.payload, sep); i >= 0 {
		if v := try("truncated-at-inner-separator", d.payload[:i]+sep+sig+"\"}\n", true); v != "" {
			return v
		}
	}
	// 9. harmless re-formatting of the signature object: allowed to pass
	for _, m := range []string{d.payload + sep + sig + "\" }\n", d.payload + sep + sig + "\"}", d.payload + sep + sig + "\"\n}\n\n"} {
		if v := try("tail-reformatted", m, false); v != "" {
			return v
		}
	}
	return ""
}

// ---------------------------------------------------------------------------

func flushStats(st *mutStats) {
	evid.R.EvalN(st.mutants)
	for k, n := range st.accepted {
		evid.R.LabelN("accepted-with-identical-payload/"+k, n)
	}
}

func TestSignVerifyAndMutants(t *testing.T) {
	evid.Check(t, 25, 160, func(t *rapid.T) {
		d := genDoc(t)
		other := genDoc(t)
		drawn := []byte{rapid.Byte().Draw(t, "extraByte1"), rapid.Byte().Draw(t, "extraByte2")}
		evid.R.EvalN(2)
		evid.R.Label("documents")
		if d.LookLike > 0 {
			evid.R.Label("documents/with-literal-separator-in-payload")
		}
		st := &mutStats{accepted: map[string]int{}}
		defer flushStats(st)
		if v := d.sign(); v != "" {
			t.Fatalf("C16 violated (completeness): %s\nunsigned: %q", v, d.Unsigned)
		}
		if v := other.sign(); v != "" {
			t.Fatalf("C16 violated (completeness): %s\nunsigned: %q", v, other.Unsigned)
		}
		if v := forgeries(d, other, st); v != "" {
			t.Fatalf("C16 violated (soundness): %s\noriginal: %q", v, d.signed)
		}
		if v := enumerate(d, drawn, false, st); v != "" {
			t.Fatalf("C16 violated (soundness): %s\noriginal: %q", v, d.signed)
		}
		evid.R.LabelN("positions-enumerated", len(d.signed)+1)
		if evid.R.WantSample(true) {
			evid.R.Sample(true, map[string]any{"kind": "document + every-position mutants + forgeries", "document": d, "signed": d.signed, "positions": len(d.signed) + 1,
				"mutants_verified": st.mutants, "accepted_harmless_by_region": st.accepted, "accepted_examples": st.examples,
				"rejected_example": map[string]any{"edit": "substitute", "position": 2, "mutant": d.signed[:2] + string(flipCase(d.signed[2])) + d.signed[3:]}})
		}
	})
}

// TestAllByteValues: every one of the 255 substitutions and 256 insertions at every position.
func TestAllByteValues(t *testing.T) {
	evid.Check(t, 1, 3, func(t *rapid.T) {
		d := genDoc(t)
		evid.R.Eval()
		st := &mutStats{accepted: map[string]int{}}
		defer flushStats(st)
		if v := d.sign(); v != "" {
			t.Fatalf("C16 violated (completeness): %s\nunsigned: %q", v, d.Unsigned)
		}
		if v := enumerate(d, nil, true, st); v != "" {
			t.Fatalf("C16 violated (soundness): %s\noriginal: %q", v, d.signed)
		}
		evid.R.Label("documents/all-255-substitutions-256-insertions-per-position")
		evid.R.LabelN("positions-enumerated", len(d.signed)+1)
	})
	if !t.Failed() {
		evid.R.Exhaustive("all single-byte substitutions, insertions and deletions at every position of the documents of TestAllByteValues")
	}
}

// TestCompleteness: many more documents, sign/verify/expose only (cheap).
func TestCompleteness(t *testing.T) {
	evid.Check(t, 400, 4000, func(t *rapid.T) {
		d := genDoc(t)
		evid.R.Eval()
		evid.R.Label("documents/completeness-only")
		if d.LookLike > 0 {
			evid.R.Label("documents/with-literal-separator-in-payload")
		}
		if v := d.sign(); v != "" {
			t.Fatalf("C16 violated (completeness): %s\nunsigned: %q", v, d.Unsigned)
		}
		if d.LookLike > 0 || d.SigTime >= 1<<31 {
			evid.R.NonTrivial(evid.Hash("doc", d.signed))
		}
	})
}

// ---------------------------------------------------------------------------
// native fuzzing (thorough tier): accepted => payload is one the harness signed.

var fuzzSeeds = []string{
	`{"camliVersion": 1,
  "camliSigner": "%s",
  "camliType": "permanode",
  "random": "abc"
}`,
	`{"camliVersion":1,"camliSigner":"%s","k":{"a":1,"camliSig":"zzz"},"s":"\",\"camliSig\":\""}`,
	` {"a":[1,2,{"b":null}],"camliSigner":"%s","camliSig":"AAAA=BBBB","camliVersion":1 }` + "\n",
	`{"camliVersion":1,"camliSigner":"%s","camliType":"claim","claimType":"set-attribute","attribute":"title","value":"é😀"}`,
}

func FuzzVerifyMutant(f *testing.F) {
	var seeds []string
	for i, tmpl := range fuzzSeeds {
		for j, id := range identities() {
			un := fmt.Sprintf(tmpl, id.Ref.String())
			d := &doc{Unsigned: un, id: id, SigTime: int64(1300000000 + 1000*i + j)}
			var tree map[string]any
			if err := json.Unmarshal([]byte(un), &tree); err != nil {
				f.Fatal(err)
			}
			d.Tree = tree
			if v := d.sign(); v != "" {
				f.Fatalf("C16 violated (completeness, fuzz seed): %s", v)
			}
			seeds = append(seeds, d.signed)
			f.Add([]byte(d.signed))
		}
	}
	// cross material: payload of one seed with the signature of another, other-key forgery
	f.Add([]byte(seeds[0][:strings.LastIndex(seeds[0], sep)] + seeds[2][strings.LastIndex(seeds[2], sep):]))
	f.Add([]byte(strings.Replace(seeds[0], vsign.Test().Ref.String(), vsign.Second().Ref.String(), 1)))
	f.Fuzz(func(t *testing.T, b []byte) {
		m := string(b)
		ok, vr, pan := verifyAccepts(m)
		if pan != "" {
			t.Fatalf("C16 violated: Verify panicked: %s\ninput: %q", pan, m)
		}
		if !ok {
			return
		}
		if v := judgeAccepted(m, vr); v != "" {
			t.Fatalf("C16 violated (soundness, fuzz): %s\ninput: %q", v, m)
		}
	})
}

var _ = bytes.Equal
