package c16

import (
	"encoding/json"
	"fmt"
	"net/http"
	"net/http/httptest"
	"net/url"
	"strings"
	"sync"
	"testing"

	"go4.org/jsonconfig"
	"perkeep.org/pkg/blobserver"
	"perkeep.org/pkg/jsonsign"
	_ "perkeep.org/pkg/jsonsign/signhandler"
	"pgregory.net/rapid"

	"verifharness/internal/evid"
	"verifharness/internal/vsign"
)

type noLoader struct{}

func (noLoader) FindHandlerByType(string) (string, any, error) {
	return "", nil, blobserver.ErrHandlerTypeNotFound
}
func (noLoader) AllHandlers() (map[string]string, map[string]any) { return nil, nil }
func (noLoader) MyPrefix() string                                 { return "/sighelper/" }
func (noLoader) BaseURL() string                                  { return "http://verif.invalid" }
func (noLoader) GetHandlerType(string) string                     { return "" }
func (noLoader) GetHandler(p string) (any, error)                 { return nil, fmt.Errorf("no handler %q", p) }
func (noLoader) GetStorage(p string) (blobserver.Storage, error) {
	return nil, fmt.Errorf("no storage %q", p)
}

var (
	sigHandlerOnce sync.Once
	sigHandler     http.Handler
	sigHandlerErr  error
)

// verifyOverHTTP asks the server's signature helper (POST camli/sig/verify), the verification entry
// point the web UI and other servers use.
func verifyOverHTTP(sjson string) (valid bool, err error) {
	sigHandlerOnce.Do(func() {
		sigHandler, sigHandlerErr = blobserver.CreateHandler("jsonsign", noLoader{}, jsonconfig.Obj{
			"keyId": vsign.Test().KeyID, "secretRing": vsign.TestSecring,
		})
	})
	if sigHandlerErr != nil {
		return false, sigHandlerErr
	}
	req := httptest.NewRequest("POST", "http://verif.invalid/sighelper/camli/sig/verify", strings.NewReader(url.Values{"sjson": {sjson}}.Encode()))
	req.Header.Set("Content-Type", "application/x-www-form-urlencoded")
	req.Header.Set("X-Prefixhandler-Pathsuffix", "camli/sig/verify")
	req.Header.Set("X-Prefixhandler-Pathbase", "/sighelper/")
	rec := httptest.NewRecorder()
	sigHandler.ServeHTTP(rec, req)
	if rec.Code != 200 {
		return false, fmt.Errorf("HTTP %d %.200q", rec.Code, rec.Body.String())
	}
	var res struct {
		SignatureValid bool `json:"signatureValid"`
	}
	if err := json.Unmarshal(rec.Body.Bytes(), &res); err != nil {
		return false, fmt.Errorf("verify response is not JSON: %v", err)
	}
	return res.SignatureValid, nil
}

// TestVerifyHandlerAgreesWithLibrary: the HTTP verification endpoint must say "valid" exactly for the
// documents jsonsign itself verifies: the freshly signed document, and for each document a sample of
// single-byte insertions (weighted towards white space and line-ending bytes, which a handler might be
// tempted to normalise), substitutions and deletions.
func TestVerifyHandlerAgreesWithLibrary(t *testing.T) {
	evid.Check(t, 120, 1200, func(t *rapid.T) {
		d := genDoc(t)
		for d.id.Name != vsign.Test().Name { // the handler only knows its own key
			d = genDoc(t)
		}
		if v := d.sign(); v != "" {
			t.Fatalf("C16 violated (completeness): %s\nunsigned: %q", v, d.Unsigned)
		}
		ok, err := verifyOverHTTP(d.signed)
		if err != nil {
			t.Fatalf("harness: %v", err)
		}
		if !ok {
			t.Fatalf("C16 violated (completeness): the verify handler rejects a freshly signed document that jsonsign verifies: %q", d.signed)
		}
		s := d.signed
		nm := rapid.IntRange(10, 40).Draw(t, "mutants")
		for i := 0; i < nm; i++ {
			pos := rapid.IntRange(0, len(s)).Draw(t, "pos")
			if rapid.IntRange(0, 2).Draw(t, "nearNewline") == 0 {
				// right before a line ending, if the document has one
				if nl := strings.IndexByte(s[min(pos, len(s)-1):], '\n'); nl >= 0 {
					pos = min(pos, len(s)-1) + nl
				}
			}
			var m string
			kind := rapid.SampledFrom([]string{"insert", "insert", "insert", "substitute", "delete"}).Draw(t, "mutation")
			b := rapid.SampledFrom([]byte{'\r', '\n', ' ', '\t', '\r', 0, 'x', '"', '}', 0x7f, 0xc3}).Draw(t, "byte")
			switch {
			case kind == "insert":
				m = s[:pos] + string([]byte{b}) + s[pos:]
			case kind == "substitute" && pos < len(s) && s[pos] != b:
				m = s[:pos] + string([]byte{b}) + s[pos+1:]
			case kind == "delete" && pos < len(s):
				m = s[:pos] + s[pos+1:]
			default:
				continue
			}
			vr := jsonsign.NewVerificationRequest(m, vsign.KeyFetcher())
			_, lerr := vr.Verify(ctxbg)
			hv, herr := verifyOverHTTP(m)
			if herr != nil {
				t.Fatalf("harness: %v", herr)
			}
			evid.R.Eval()
			evid.R.Label("handler/" + kind)
			if pos < d.sigStart {
				evid.R.NonTrivial(evid.Hash("hv", m))
			}
			if hv != (lerr == nil) {
				t.Fatalf("C16 violated (soundness): mutant (%s of byte %q at %d) of a signed document: the verify handler says valid=%v, jsonsign says %v\noriginal: %q\nmutant:   %q", kind, b, pos, hv, lerr, s, m)
			}
		}
		if evid.R.WantSample(true) {
			evid.R.Sample(true, map[string]any{"kind": "verify-handler-vs-library", "document": d.signed, "mutants": nm})
		}
	})
}
