package c18

import (
	"bytes"
	"context"
	"encoding/json"
	"io"
	"net/http"
	"sync"
	"testing"

	"perkeep.org/pkg/auth"
	"perkeep.org/pkg/blob"
	"perkeep.org/pkg/client"

	"verifharness/internal/evid"
	"verifharness/internal/vhttp"
)

// Regressions of the two shrunk generated cases that led to
//
//	b1b31cc fix: blobserver/handlers: enumerate-blobs with maxwaitsec lists the blobs that are present
//	  (history: client.Upload <empty blob>; client.EnumerateBlobsOpts{MaxWait: 1s} -> 0 blobs)
//	1f3baf9 fix: client: StatBlobs reports each blob once and calls fn serially
//	  (history: client.Upload <blob>; client.StatBlobs(2 refs, 1 present) -> reported twice)
func TestRegressMaxWaitAndClientStat(t *testing.T) {
	if evid.Replaying() {
		t.Skip()
	}
	srv, err := vhttp.Start(vhttp.Spec{Storage: "memory", Index: "memory", Auth: "userpass:" + user + ":" + pass}, true)
	if err != nil {
		t.Fatal(err)
	}
	defer srv.Close()
	cl, err := client.New(client.OptionServer(srv.URL), client.OptionAuthMode(auth.NewBasicAuth(user, pass)))
	if err != nil {
		t.Fatal(err)
	}
	defer cl.Close()
	cl.Logger.SetOutput(io.Discard)
	ctx := context.Background()
	var refs []blob.Ref
	for _, d := range []string{"", "second blob"} {
		br := blob.RefFromString(d)
		refs = append(refs, br)
		if _, err := cl.Upload(ctx, &client.UploadHandle{BlobRef: br, Size: uint32(len(d)), Contents: bytes.NewReader([]byte(d))}); err != nil {
			t.Fatal(err)
		}
	}
	// raw: maxwaitsec=1 on a non-empty store
	req, _ := http.NewRequest("GET", srv.URL+"/bs-and-maybe-also-index/camli/enumerate-blobs?maxwaitsec=1", nil)
	req.SetBasicAuth(user, pass)
	res, err := http.DefaultClient.Do(req)
	if err != nil {
		t.Fatal(err)
	}
	body, _ := io.ReadAll(res.Body)
	res.Body.Close()
	var er enumResp
	if err := json.Unmarshal(body, &er); err != nil || len(er.Blobs) != 2 {
		t.Errorf("C18 violated: enumerate-blobs?maxwaitsec=1 over 2 uploaded blobs lists %d: %s", len(er.Blobs), body)
	}
	// client: long-poll enumeration
	ch := make(chan blob.SizedRef, 4)
	errc := make(chan error, 1)
	go func() { errc <- cl.EnumerateBlobsOpts(ctx, ch, client.EnumerateOpts{MaxWait: 1e9}) }()
	n := 0
	for range ch {
		n++
	}
	if err := <-errc; err != nil || n != 2 {
		t.Errorf("C18 violated: client.EnumerateBlobsOpts{MaxWait:1s} over 2 uploaded blobs lists %d (err %v)", n, err)
	}
	// client: stat reports each blob once
	var mu sync.Mutex
	seen := map[blob.Ref]int{}
	absent := blob.RefFromString("never uploaded")
	if err := cl.StatBlobs(ctx, append(refs, absent), func(sb blob.SizedRef) error {
		mu.Lock()
		seen[sb.Ref]++
		mu.Unlock()
		return nil
	}); err != nil {
		t.Fatal(err)
	}
	if len(seen) != 2 || seen[refs[0]] != 1 || seen[refs[1]] != 1 {
		t.Errorf("C18 violated: client.StatBlobs over {2 present, 1 absent} reported %v", seen)
	}
}
