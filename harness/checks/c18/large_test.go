package c18

import (
	"bytes"
	"context"
	"encoding/json"
	"fmt"
	"io"
	"mime/multipart"
	"net/http"
	"net/url"
	"sort"
	"strings"
	"testing"
	"time"

	"perkeep.org/pkg/auth"
	"perkeep.org/pkg/blob"
	"perkeep.org/pkg/client"
	"pgregory.net/rapid"

	"verifharness/internal/evid"
	"verifharness/internal/vhttp"
)

// TestLargeStoreEnumeration: the protocol's page caps (10000 blobs per enumerate response, 1000 per client
// page) only matter on stores larger than the cap. One server per case is filled with a drawn number of
// blobs just above 10000 through the batch-upload endpoint; then a complete enumeration must list every blob
// exactly once, ascending — by raw requests with limits above, at and below the server's cap and with no
// limit (following continueAfter), and through pkg/client with and without MaxWait.
func TestLargeStoreEnumeration(t *testing.T) {
	evid.Check(t, 1, 2, func(t *rapid.T) {
		storage := "memory"
		index := "memory"
		if evid.Thorough() {
			storage = rapid.SampledFrom([]string{"memory", "diskpacked"}).Draw(t, "storage")
		}
		spec := vhttp.Spec{Storage: storage, Index: index, Auth: "userpass:" + user + ":" + pass, Share: false}
		srv, err := vhttp.Start(spec, true)
		if err != nil {
			t.Fatalf("harness: %v", err)
		}
		defer srv.Close()
		tr := &http.Transport{DisableCompression: true, MaxIdleConnsPerHost: 4}
		defer tr.CloseIdleConnections()
		hc := &http.Client{Transport: tr, Timeout: 120 * time.Second}
		root := srv.URL + "/bs-and-maybe-also-index"
		n := 10000 + rapid.IntRange(1, 400).Draw(t, "blobsAboveCap")
		salt := rapid.IntRange(0, 1<<20).Draw(t, "salt")
		want := make([]string, 0, n)
		sizes := map[string]int{}
		do := func(method, pq string, body []byte, ctype string) (int, []byte) {
			var rd io.Reader
			if body != nil {
				rd = bytes.NewReader(body)
			}
			req, _ := http.NewRequest(method, root+pq, rd)
			req.SetBasicAuth(user, pass)
			if ctype != "" {
				req.Header.Set("Content-Type", ctype)
			}
			res, err := hc.Do(req)
			if err != nil {
				t.Fatalf("VERIF-INCONCLUSIVE harness: %s %s: %v", method, pq, err)
			}
			defer res.Body.Close()
			b, _ := io.ReadAll(res.Body)
			return res.StatusCode, b
		}
		for i := 0; i < n; {
			var buf bytes.Buffer
			mw := multipart.NewWriter(&buf)
			for j := 0; j < 100 && i < n; j, i = j+1, i+1 {
				data := []byte(fmt.Sprintf("large-%d-%d", salt, i))
				ref := blob.RefFromBytes(data).String()
				pw, _ := mw.CreateFormFile(ref, ref)
				pw.Write(data)
				want = append(want, ref)
				sizes[ref] = len(data)
			}
			mw.Close()
			code, body := do("POST", "/camli/upload", buf.Bytes(), mw.FormDataContentType())
			if code != 200 {
				t.Fatalf("C18 violated [%s+%s]: batch upload of 100 blobs answered HTTP %d %q", storage, index, code, trimQ(string(body)))
			}
		}
		sort.Strings(want)
		evid.R.Eval()
		evid.R.Label("large/store-above-10000-blobs")
		check := func(what string, got []string) {
			if len(got) != len(want) {
				seen := map[string]int{}
				for _, r := range got {
					seen[r]++
				}
				missing, dup := 0, 0
				for _, r := range want {
					if seen[r] == 0 {
						missing++
					}
					if seen[r] > 1 {
						dup++
					}
				}
				t.Fatalf("C18 violated [%s+%s]: %s listed %d blobs, %d were uploaded (%d never listed, %d listed more than once)", storage, index, what, len(got), len(want), missing, dup)
			}
			for i := range want {
				if got[i] != want[i] {
					t.Fatalf("C18 violated [%s+%s]: %s: position %d is %s, the ascending listing has %s", storage, index, what, i, got[i], want[i])
				}
			}
		}
		for _, limit := range []string{"", "20000", "10000", "9999", "2500"} {
			var got []string
			after := ""
			for page := 0; page < 1000000; page++ {
				q := url.Values{}
				if limit != "" {
					q.Set("limit", limit)
				}
				if after != "" {
					q.Set("after", after)
				}
				pq := "/camli/enumerate-blobs"
				if len(q) > 0 {
					pq += "?" + q.Encode()
				}
				code, body := do("GET", pq, nil, "")
				if code != 200 {
					t.Fatalf("C18 violated [%s+%s]: GET %s answered HTTP %d %q", storage, index, pq, code, trimQ(string(body)))
				}
				var er enumResp
				if err := json.Unmarshal(body, &er); err != nil {
					t.Fatalf("C18 violated: GET %s: not JSON: %v", pq, err)
				}
				for _, b := range er.Blobs {
					got = append(got, b.BlobRef)
					if b.Size != sizes[b.BlobRef] {
						t.Fatalf("C18 violated: GET %s lists %s with size %d, uploaded %d", pq, b.BlobRef, b.Size, sizes[b.BlobRef])
					}
				}
				if er.ContinueAfter == "" {
					break
				}
				after = er.ContinueAfter
			}
			check(fmt.Sprintf("raw enumeration following continueAfter with limit=%q", limit), got)
			evid.R.Label("large/raw-enumeration-limit=" + nzs(limit))
		}
		cl, err := client.New(client.OptionServer(srv.URL), client.OptionAuthMode(auth.NewBasicAuth(user, pass)))
		if err != nil {
			t.Fatalf("harness: client.New: %v", err)
		}
		defer cl.Close()
		cl.Logger.SetOutput(io.Discard)
		for _, mw := range []time.Duration{0, time.Second} {
			ch := make(chan blob.SizedRef, 64)
			errc := make(chan error, 1)
			go func() { errc <- cl.EnumerateBlobsOpts(context.Background(), ch, client.EnumerateOpts{MaxWait: mw}) }()
			var got []string
			for sb := range ch {
				got = append(got, sb.Ref.String())
			}
			if err := <-errc; err != nil {
				t.Fatalf("C18 violated [%s+%s]: client.EnumerateBlobsOpts(MaxWait=%v) over %d blobs failed: %v", storage, index, mw, len(want), err)
			}
			check(fmt.Sprintf("client.EnumerateBlobsOpts(MaxWait=%v)", mw), got)
			evid.R.Label(fmt.Sprintf("large/client-enumeration-maxwait=%v", mw))
		}
		evid.R.NonTrivial(evid.Hash("large", storage, index, n, salt))
		if evid.R.WantSample(false) {
			evid.R.Sample(false, map[string]any{"kind": "large-store", "config": storage + "+" + index, "blobs": n, "raw_limits": []string{"", "20000", "10000", "9999", "2500"}, "client_maxwait": []string{"0", "1s"}})
		}
		_ = strings.TrimSpace
	})
}
