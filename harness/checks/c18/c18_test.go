// C18 — the HTTP blob protocol gives clients the same map semantics end to end.
package c18

import (
	"bytes"
	"context"
	"crypto/sha1"
	"crypto/sha256"
	"encoding/hex"
	"encoding/json"
	"errors"
	"flag"
	"fmt"
	"io"
	"mime/multipart"
	"net/http"
	"net/url"
	"os"
	"sort"
	"strconv"
	"strings"
	"sync"
	"sync/atomic"
	"testing"
	"time"

	"perkeep.org/pkg/auth"
	"perkeep.org/pkg/blob"
	"perkeep.org/pkg/blobserver/memory"
	"perkeep.org/pkg/client"
	"perkeep.org/pkg/schema"
	"pgregory.net/rapid"

	"verifharness/internal/evid"
	"verifharness/internal/vhttp"
)

const prop = "C18"

const (
	user = "verif"
	pass = "s3cr3tpw"
)

func TestMain(m *testing.M) {
	flag.Parse()
	vhttp.Quiet()
	evid.Main(m, prop, "exploration",
		"one in-process server per case: the HIGH-LEVEL configuration {memoryStorage | blobPath | blobPath+packBlobs (diskpacked) | blobPath+packRelated (blobpacked)} x {memoryIndex | levelDB | kvIndexFile | sqlite}, auth userpass, is expanded by serverinit.Load and installed with InstallHandlers on an httptest.Server (all 16 combinations in every run, one test function each). "+
			"A rapid state machine issues, against the discovered blobRoot (/bs-and-maybe-also-index/), pkg/client operations (Upload, StatBlobs, Fetch, SimpleEnumerateBlobs, EnumerateBlobs(after,limit), EnumerateBlobsOpts{MaxWait}) and RAW protocol requests (multipart upload with 1-20 parts incl. duplicates, already-present blobs and a part whose bytes do not match its name; PUT; GET/HEAD camli/<ref>; camli/stat by GET and POST with 1..1000 and 1001 blobN keys mixing present, absent and just-refused refs; camli/enumerate-blobs with limit in {absent,1,2,7,huge,non-numeric}, after in {absent, present ref, absent ref}, maxwaitsec in {absent,0,1}, and complete paged enumerations following continueAfter). Blobs: sizes 0..70000 around the 32 KiB text-sniffing boundary, binary/text/schema JSON, sha224 and sha1 refs. "+
			"Oracle: reference map (ref -> bytes) owned by the harness: stat = exactly the present refs with their sizes; GET = bytes with explicit Content-Length, HEAD = length, 404 when absent; every page is a prefix of the ascending model listing after the cursor with right sizes, continueAfter present (= last ref of the page) whenever the page is truncated and never on a non-full untruncated page; paged enumeration = every blob exactly once ascending; <=1000 stat keys answered, 1001 => 400 or a correct answer (doc: 'may'); maxwaitsec!=0 with after => 400; maxwaitsec with blobs present lists them. "+
			"non-trivial = a history containing a paged enumeration of >= 2 pages or a stat batch mixing present and absent refs; distinct = FNV-64 of (configuration, operation log)")
}

// ---------------------------------------------------------------------------
// model
// ---------------------------------------------------------------------------

type model struct {
	blobs map[string][]byte
}

func (m *model) sorted() []string {
	out := make([]string, 0, len(m.blobs))
	for r := range m.blobs {
		out = append(out, r)
	}
	sort.Strings(out)
	return out
}

func (m *model) after(a string) []string {
	s := m.sorted()
	i := sort.SearchStrings(s, a)
	for i < len(s) && s[i] <= a {
		i++
	}
	return s[i:]
}

// ---------------------------------------------------------------------------
// blob generation
// ---------------------------------------------------------------------------

type tblob struct {
	ref  string
	data []byte
	desc string
}

func xorshift(seed uint64, n int) []byte {
	b := make([]byte, n)
	x := seed | 1
	for i := range b {
		x ^= x << 13
		x ^= x >> 7
		x ^= x << 17
		b[i] = byte(x)
	}
	return b
}

func refOf(hash string, data []byte) string {
	if hash == "sha1" {
		s := sha1.Sum(data)
		return "sha1-" + hex.EncodeToString(s[:])
	}
	if hash == "sha256" {
		s := sha256.Sum256(data)
		return "sha256-" + hex.EncodeToString(s[:])
	}
	s := sha256.Sum224(data)
	return "sha224-" + hex.EncodeToString(s[:])
}

var sizeClasses = []int{0, 1, 2, 15, 100, 1000, 5000, 32767, 32768, 32769, 70000}

func genBlob(t *rapid.T, m *model) tblob {
	kind := rapid.SampledFrom([]string{"binary", "binary", "text", "text", "schema-bytes", "schema-file", "tiny"}).Draw(t, "blobKind")
	seed := rapid.Uint64().Draw(t, "blobSeed")
	var data []byte
	switch kind {
	case "binary":
		n := sizeClasses[rapid.IntRange(0, len(sizeClasses)-1).Draw(t, "sizeClass")]
		data = xorshift(seed, n)
	case "text":
		n := sizeClasses[rapid.IntRange(0, len(sizeClasses)-1).Draw(t, "sizeClass")]
		data = xorshift(seed, n)
		for i := range data {
			data[i] = "abcdefghijklmnopqrstuvwxyz 0123456789\n"[int(data[i])%38]
		}
	case "schema-bytes":
		data = []byte(fmt.Sprintf("{\"camliVersion\": 1,\n  \"camliType\": \"bytes\",\n  \"parts\": [],\n  \"verifSeed\": \"%x\"\n}", seed))
	case "schema-file":
		// a file whose single part is a blob already on the server (if any)
		var parts string
		if refs := m.sorted(); len(refs) > 0 {
			r := refs[int(seed%uint64(len(refs)))]
			if len(m.blobs[r]) > 0 {
				parts = fmt.Sprintf("{\"blobRef\": %q, \"size\": %d}", r, len(m.blobs[r]))
			}
		}
		data = []byte(fmt.Sprintf("{\"camliVersion\": 1,\n  \"camliType\": \"file\",\n  \"fileName\": \"f%x.bin\",\n  \"parts\": [%s]\n}", seed, parts))
	case "tiny":
		data = xorshift(seed, int(seed%4))
	}
	// mostly the default hash; refs of the two other supported hash functions sort before and after it
	hash := rapid.SampledFrom([]string{"sha224", "sha224", "sha224", "sha224", "sha224", "sha1", "sha256", "sha256"}).Draw(t, "hash")
	return tblob{ref: refOf(hash, data), data: data, desc: fmt.Sprintf("%s/%d/%s", kind, len(data), hash)}
}

func absentRef(seed uint64, i int) string {
	s := sha256.Sum224([]byte(fmt.Sprintf("verif-absent-%d-%d", seed, i)))
	return "sha224-" + hex.EncodeToString(s[:])
}

// ---------------------------------------------------------------------------
// one case
// ---------------------------------------------------------------------------

type caseEnv struct {
	t           *rapid.T
	spec        vhttp.Spec
	srv         *vhttp.Server
	root        string // blob root URL without trailing slash
	hc          *http.Client
	cl          *client.Client
	m           *model
	log         []string
	files       int  // files uploaded by clientUploadFile
	longPolls   int  // concurrentLongPollStat rounds
	concUploads int  // concurrentUploads rounds
	pages2      bool // a paged enumeration with >= 2 pages happened
	mixed       bool // a stat batch mixing present and absent refs happened
	// refs offered with wrong bytes (must stay absent unless uploaded genuinely later)
	refused map[string]bool
}

func (e *caseEnv) logf(format string, a ...any) {
	e.log = append(e.log, fmt.Sprintf(format, a...))
}

func (e *caseEnv) violate(format string, a ...any) {
	msg := fmt.Sprintf(format, a...)
	writeCase(e, msg)
	e.t.Fatalf("C18 violated [%s+%s]: %s\nhistory:\n  %s", e.spec.Storage, e.spec.Index, msg, strings.Join(e.log, "\n  "))
}

func (e *caseEnv) req(method, pathQuery string, body []byte, ctype string) (*http.Response, []byte) {
	var rd io.Reader
	if body != nil {
		rd = bytes.NewReader(body)
	}
	req, err := http.NewRequest(method, e.root+pathQuery, rd)
	if err != nil {
		e.t.Fatalf("harness: %v", err)
	}
	req.SetBasicAuth(user, pass)
	if ctype != "" {
		req.Header.Set("Content-Type", ctype)
	}
	res, err := e.hc.Do(req)
	if err != nil {
		e.t.Fatalf("VERIF-INCONCLUSIVE harness: %s %s: %v", method, pathQuery, err)
	}
	defer res.Body.Close()
	b, err := io.ReadAll(res.Body)
	if err != nil {
		e.violate("%s %s: reading the body failed: %v (declared Content-Length %d, got %d bytes)", method, trimQ(pathQuery), err, res.ContentLength, len(b))
	}
	return res, b
}

func nzs(s string) string {
	if s == "" {
		return "absent"
	}
	return s
}

func trimQ(s string) string {
	if len(s) > 200 {
		return s[:200] + "..."
	}
	return s
}

// ---- uploads ----

func (e *caseEnv) pickBlob(label string) tblob {
	// new blob, or (1 in 4) one that is already on the server
	if refs := e.m.sorted(); len(refs) > 0 && rapid.IntRange(0, 3).Draw(e.t, label+"Existing") == 0 {
		r := refs[rapid.IntRange(0, len(refs)-1).Draw(e.t, label+"Which")]
		return tblob{ref: r, data: e.m.blobs[r], desc: "existing"}
	}
	return genBlob(e.t, e.m)
}

func (e *caseEnv) clientUpload() {
	b := e.pickBlob("up")
	_, had := e.m.blobs[b.ref]
	e.logf("client.Upload %s (%s) alreadyPresent=%v", b.ref, b.desc, had)
	h := &client.UploadHandle{BlobRef: blob.MustParse(b.ref), Size: uint32(len(b.data)), Contents: bytes.NewReader(b.data)}
	pr, err := e.cl.Upload(context.Background(), h)
	if err != nil {
		e.violate("client.Upload(%s, %d bytes) failed: %v", b.ref, len(b.data), err)
	}
	if pr.BlobRef.String() != b.ref || int(pr.Size) != len(b.data) {
		e.violate("client.Upload(%s, %d bytes) returned %v size %d", b.ref, len(b.data), pr.BlobRef, pr.Size)
	}
	if pr.Skipped != had {
		e.violate("client.Upload(%s): Skipped=%v but the blob was alreadyPresent=%v (the pre-upload stat is wrong)", b.ref, pr.Skipped, had)
	}
	e.m.blobs[b.ref] = b.data
	delete(e.refused, b.ref)
}

// clientUploadFile uploads a file of at least 512 KiB the way camput does: its chunks, then the file schema
// blob. On the packRelated configurations the last upload makes the server pack the chunks into zip blobs
// stored under <blobPath>/packed; the protocol must keep showing the logical blobs, exactly once each.
func (e *caseEnv) clientUploadFile() {
	if e.files >= 2 {
		e.t.Skip("two files per history are enough")
	}
	e.files++
	size := 512<<10 + rapid.IntRange(0, 200<<10).Draw(e.t, "fileExtra")
	seed := rapid.Uint64Range(1, 1<<30).Draw(e.t, "fileSeed")
	staging := &memory.Storage{}
	content := xorshift(seed, size)
	fileRef, err := schema.WriteFileFromReader(context.Background(), staging, fmt.Sprintf("c18-%d.bin", seed), bytes.NewReader(content))
	if err != nil {
		e.t.Fatalf("harness: cutting the file: %v", err)
	}
	var refs []string
	for _, rs := range staging.BlobrefStrings() {
		if rs != fileRef.String() {
			refs = append(refs, rs)
		}
	}
	sort.Strings(refs)
	refs = append(refs, fileRef.String())
	e.logf("client.Upload of a %d-byte file: %d chunk and schema blobs, then the file schema blob %s", size, len(refs)-1, fileRef)
	for _, rs := range refs {
		br := blob.MustParse(rs)
		c, _ := staging.BlobContents(br)
		data := []byte(c)
		h := &client.UploadHandle{BlobRef: br, Size: uint32(len(data)), Contents: bytes.NewReader(data)}
		pr, err := e.cl.Upload(context.Background(), h)
		if err != nil {
			e.violate("client.Upload(%s, %d bytes, part of the file %s) failed: %v", rs, len(data), fileRef, err)
		}
		if pr.BlobRef != br || int(pr.Size) != len(data) {
			e.violate("client.Upload(%s, %d bytes) returned %v size %d", rs, len(data), pr.BlobRef, pr.Size)
		}
		e.m.blobs[rs] = data
		delete(e.refused, rs)
	}
	// straight away: the first page of the enumeration and a stat of all parts
	e.onePage("", 0, "", "")
	got := map[string]int{}
	var brs []blob.Ref
	for _, rs := range refs {
		brs = append(brs, blob.MustParse(rs))
	}
	if err := e.cl.StatBlobs(context.Background(), brs, func(sb blob.SizedRef) error { got[sb.Ref.String()] = int(sb.Size); return nil }); err != nil {
		e.violate("client.StatBlobs of the %d blobs of the uploaded file failed: %v", len(refs), err)
	}
	e.checkStat("client.StatBlobs after the file upload", refs, got, false)
}

type uploadResp struct {
	Received []struct {
		BlobRef string `json:"blobRef"`
		Size    int    `json:"size"`
	} `json:"received"`
	ErrorText string `json:"errorText"`
}

func (e *caseEnv) rawMultipart() {
	n := rapid.SampledFrom([]int{1, 1, 2, 3, 5, 20}).Draw(e.t, "parts")
	corruptAt := -1
	if rapid.IntRange(0, 4).Draw(e.t, "corruptPart") == 0 {
		corruptAt = rapid.IntRange(0, n-1).Draw(e.t, "corruptAt")
	}
	var buf bytes.Buffer
	mw := multipart.NewWriter(&buf)
	type sent struct {
		b       tblob
		corrupt bool
	}
	var parts []sent
	var desc []string
	for i := 0; i < n; i++ {
		b := e.pickBlob("part")
		if i > 0 && rapid.IntRange(0, 7).Draw(e.t, "dupPart") == 0 {
			b = parts[rapid.IntRange(0, i-1).Draw(e.t, "dupOf")].b
		}
		s := sent{b: b}
		if i == corruptAt {
			// the name of a blob nobody has, over other bytes
			claimed := refOf("sha224", append([]byte("verif-never-stored:"), b.data...))
			s = sent{b: tblob{ref: claimed, data: b.data, desc: "corrupt"}, corrupt: true}
		}
		parts = append(parts, s)
		pw, err := mw.CreateFormFile(s.b.ref, s.b.ref)
		if err != nil {
			e.t.Fatalf("harness: %v", err)
		}
		pw.Write(s.b.data)
		desc = append(desc, fmt.Sprintf("%s(%s)", s.b.ref[:14], s.b.desc))
	}
	mw.Close()
	e.logf("raw POST camli/upload parts=%d corruptAt=%d [%s]", n, corruptAt, strings.Join(desc, " "))
	res, body := e.req("POST", "/camli/upload", buf.Bytes(), mw.FormDataContentType())
	if res.StatusCode != 200 {
		e.violate("multipart upload answered HTTP %d %q", res.StatusCode, trimQ(string(body)))
	}
	var ur uploadResp
	if err := json.Unmarshal(body, &ur); err != nil {
		e.violate("multipart upload: response is not JSON: %v %q", err, trimQ(string(body)))
	}
	got := map[string]int{}
	for _, r := range ur.Received {
		got[r.BlobRef] = r.Size
	}
	sentOK := map[string][]byte{}
	for _, s := range parts {
		if !s.corrupt {
			sentOK[s.b.ref] = s.b.data
		}
	}
	for r, sz := range got {
		d, ok := sentOK[r]
		if !ok {
			e.violate("multipart upload: 'received' lists %s which was not sent with matching bytes (response %q)", r, trimQ(string(body)))
		}
		if sz != len(d) {
			e.violate("multipart upload: 'received' reports size %d for %s, sent %d bytes", sz, r, len(d))
		}
		e.m.blobs[r] = d
		delete(e.refused, r)
	}
	for i, s := range parts {
		if s.corrupt {
			if _, ok := e.m.blobs[s.b.ref]; !ok {
				e.refused[s.b.ref] = true
			}
			break
		}
		if _, ok := got[s.b.ref]; !ok {
			e.violate("multipart upload: part %d (%s, %d bytes, before any bad part) is missing from 'received' (response %q)", i, s.b.ref, len(s.b.data), trimQ(string(body)))
		}
	}
}

func (e *caseEnv) rawPut() {
	b := e.pickBlob("put")
	corrupt := rapid.IntRange(0, 5).Draw(e.t, "corruptPut") == 0
	if corrupt {
		claimed := refOf("sha224", append([]byte("verif-never-stored-put:"), b.data...))
		e.logf("raw PUT camli/%s with %d non-matching bytes", claimed, len(b.data))
		res, body := e.req("PUT", "/camli/"+claimed, b.data, "")
		if res.StatusCode/100 == 2 {
			e.violate("PUT camli/%s with bytes that do not match the ref answered HTTP %d %q", claimed, res.StatusCode, trimQ(string(body)))
		}
		e.refused[claimed] = true
		return
	}
	e.logf("raw PUT camli/%s (%s)", b.ref, b.desc)
	res, body := e.req("PUT", "/camli/"+b.ref, b.data, "")
	if res.StatusCode/100 != 2 {
		e.violate("PUT camli/%s (%d matching bytes) answered HTTP %d %q", b.ref, len(b.data), res.StatusCode, trimQ(string(body)))
	}
	e.m.blobs[b.ref] = b.data
	delete(e.refused, b.ref)
}

// ---- reads ----

// pickRef returns a ref and whether the model has it.
func (e *caseEnv) pickRef(label string) (string, bool) {
	refs := e.m.sorted()
	k := rapid.IntRange(0, 9).Draw(e.t, label+"Kind")
	switch {
	case k < 6 && len(refs) > 0:
		return refs[rapid.IntRange(0, len(refs)-1).Draw(e.t, label+"Which")], true
	case k < 8 && len(e.refused) > 0:
		var rs []string
		for r := range e.refused {
			rs = append(rs, r)
		}
		sort.Strings(rs)
		return rs[rapid.IntRange(0, len(rs)-1).Draw(e.t, label+"Refused")], false
	default:
		return absentRef(rapid.Uint64Range(0, 1000).Draw(e.t, label+"Absent"), 0), false
	}
}

func (e *caseEnv) rawGet() {
	ref, has := e.pickRef("get")
	e.logf("raw GET camli/%s present=%v", ref, has)
	res, body := e.req("GET", "/camli/"+ref, nil, "")
	if !has {
		if res.StatusCode != 404 {
			e.violate("GET of absent blob %s answered HTTP %d (%d bytes); want 404", ref, res.StatusCode, len(body))
		}
		return
	}
	want := e.m.blobs[ref]
	if res.StatusCode != 200 {
		e.violate("GET of uploaded blob %s answered HTTP %d %q", ref, res.StatusCode, trimQ(string(body)))
	}
	if !bytes.Equal(body, want) {
		e.violate("GET of %s returned %d bytes that differ from the %d uploaded bytes", ref, len(body), len(want))
	}
	if cl := res.Header.Get("Content-Length"); cl != strconv.Itoa(len(want)) || res.ContentLength != int64(len(want)) {
		e.violate("GET of %s: Content-Length header %q (parsed %d), blob has %d bytes (doc/protocol/blob-get.md: explicit Content-Length)", ref, cl, res.ContentLength, len(want))
	}
}

func (e *caseEnv) rawHead() {
	ref, has := e.pickRef("head")
	e.logf("raw HEAD camli/%s present=%v", ref, has)
	res, body := e.req("HEAD", "/camli/"+ref, nil, "")
	if !has {
		if res.StatusCode != 404 {
			e.violate("HEAD of absent blob %s answered HTTP %d; want 404", ref, res.StatusCode)
		}
		return
	}
	want := e.m.blobs[ref]
	if res.StatusCode != 200 || len(body) != 0 {
		e.violate("HEAD of uploaded blob %s answered HTTP %d with %d body bytes", ref, res.StatusCode, len(body))
	}
	if cl := res.Header.Get("Content-Length"); cl != strconv.Itoa(len(want)) {
		e.violate("HEAD of %s: Content-Length %q, blob has %d bytes", ref, cl, len(want))
	}
}

func (e *caseEnv) clientFetch() {
	ref, has := e.pickRef("fetch")
	e.logf("client.Fetch %s present=%v", ref, has)
	rc, size, err := e.cl.Fetch(context.Background(), blob.MustParse(ref))
	if !has {
		if !errors.Is(err, os.ErrNotExist) {
			if rc != nil {
				rc.Close()
			}
			e.violate("client.Fetch of absent blob %s: err=%v; want os.ErrNotExist", ref, err)
		}
		return
	}
	if err != nil {
		e.violate("client.Fetch of uploaded blob %s failed: %v", ref, err)
	}
	got, rerr := io.ReadAll(rc)
	rc.Close()
	want := e.m.blobs[ref]
	if rerr != nil || !bytes.Equal(got, want) || int(size) != len(want) {
		e.violate("client.Fetch of %s: size=%d read %d bytes err=%v; uploaded %d bytes (equal=%v)", ref, size, len(got), rerr, len(want), bytes.Equal(got, want))
	}
}

// statSet draws the refs of a stat batch.
func (e *caseEnv) statSet(n int) (refs []string, present int) {
	have := e.m.sorted()
	seed := rapid.Uint64Range(0, 1<<20).Draw(e.t, "statSeed")
	fracPresent := rapid.SampledFrom([]int{0, 1, 2, 4}).Draw(e.t, "statPresentOutOf4")
	seen := map[string]bool{}
	var refusedList []string
	for r := range e.refused {
		refusedList = append(refusedList, r)
	}
	sort.Strings(refusedList)
	x := seed | 1
	for i := 0; len(refs) < n; i++ {
		x ^= x << 13
		x ^= x >> 7
		x ^= x << 17
		var r string
		switch {
		case len(have) > 0 && int(x%4) < fracPresent:
			r = have[int((x>>8)%uint64(len(have)))]
		case len(refusedList) > 0 && (x>>4)%8 == 0:
			r = refusedList[int((x>>8)%uint64(len(refusedList)))]
		default:
			r = absentRef(seed, i)
		}
		if seen[r] {
			r = absentRef(seed+1, i) // StatBlobs input has no duplicates
			if seen[r] {
				continue
			}
		}
		seen[r] = true
		refs = append(refs, r)
		if _, ok := e.m.blobs[r]; ok {
			present++
		}
	}
	return
}

type statResp struct {
	Stat []struct {
		BlobRef string `json:"blobRef"`
		Size    int    `json:"size"`
	} `json:"stat"`
	CanLongPoll bool `json:"canLongPoll"`
}

func (e *caseEnv) checkStat(what string, refs []string, got map[string]int, dups bool) {
	if dups {
		e.violate("%s: a ref is reported more than once", what)
	}
	asked := map[string]bool{}
	for _, r := range refs {
		asked[r] = true
		d, has := e.m.blobs[r]
		sz, ok := got[r]
		switch {
		case has && !ok:
			e.violate("%s: uploaded blob %s (%d bytes) is missing from the stat result", what, r, len(d))
		case has && sz != len(d):
			e.violate("%s: blob %s reported with size %d, uploaded %d bytes", what, r, sz, len(d))
		case !has && ok:
			e.violate("%s: blob %s was never stored (refused=%v) but stat reports it with size %d", what, r, e.refused[r], sz)
		}
	}
	for r := range got {
		if !asked[r] {
			e.violate("%s: stat result contains %s which was not asked for", what, r)
		}
	}
}

// concurrentUploads: several clients upload different blobs of tens to hundreds of KB at the same time
// (pkg/client multipart and raw PUT mixed). Each of them is valid, so each must be acknowledged, and
// afterwards served byte for byte.
func (e *caseEnv) concurrentUploads() {
	if e.concUploads >= 2 {
		e.t.Skip("two concurrent upload rounds per history are enough")
	}
	e.concUploads++
	k := rapid.IntRange(3, 8).Draw(e.t, "uploaders")
	var bs []tblob
	seen := map[string]bool{}
	for i := 0; i < k; i++ {
		n := rapid.SampledFrom([]int{20000, 32769, 70000, 200000, 400000}).Draw(e.t, "concSize")
		data := xorshift(rapid.Uint64().Draw(e.t, "concSeed"), n)
		b := tblob{ref: refOf("sha224", data), data: data, desc: fmt.Sprintf("binary/%d/sha224", n)}
		if seen[b.ref] {
			continue
		}
		seen[b.ref] = true
		bs = append(bs, b)
	}
	usePut := rapid.SliceOfN(rapid.Bool(), len(bs), len(bs)).Draw(e.t, "viaPut")
	e.logf("%d concurrent uploads (client.Upload / raw PUT) of %d..%d bytes", len(bs), len(bs[0].data), len(bs[len(bs)-1].data))
	errs := make([]string, len(bs))
	var wg sync.WaitGroup
	for i := range bs {
		wg.Add(1)
		go func(i int) {
			defer wg.Done()
			b := bs[i]
			if usePut[i] {
				req, _ := http.NewRequest("PUT", e.root+"/camli/"+b.ref, bytes.NewReader(b.data))
				req.SetBasicAuth(user, pass)
				res, err := e.hc.Do(req)
				if err != nil {
					errs[i] = "transport: " + err.Error()
					return
				}
				body, _ := io.ReadAll(res.Body)
				res.Body.Close()
				if res.StatusCode/100 != 2 {
					errs[i] = fmt.Sprintf("PUT camli/%s (%d bytes) answered HTTP %d %q", b.ref, len(b.data), res.StatusCode, trimQ(string(body)))
				}
				return
			}
			h := &client.UploadHandle{BlobRef: blob.MustParse(b.ref), Size: uint32(len(b.data)), Contents: bytes.NewReader(b.data)}
			if _, err := e.cl.Upload(context.Background(), h); err != nil {
				errs[i] = fmt.Sprintf("client.Upload(%s, %d bytes) failed: %v", b.ref, len(b.data), err)
			}
		}(i)
	}
	wg.Wait()
	for i, b := range bs {
		if strings.HasPrefix(errs[i], "transport: ") {
			e.t.Fatalf("VERIF-INCONCLUSIVE harness: concurrent PUT: %s", errs[i])
		}
		if errs[i] != "" {
			e.violate("one of %d concurrent uploads of valid blobs was refused: %s", len(bs), errs[i])
		}
		e.m.blobs[b.ref] = b.data
		delete(e.refused, b.ref)
	}
	for _, b := range bs {
		res, body := e.req("GET", "/camli/"+b.ref, nil, "")
		if res.StatusCode != 200 || !bytes.Equal(body, b.data) {
			e.violate("after %d concurrent uploads: GET %s -> HTTP %d, %d bytes; uploaded %d bytes", len(bs), b.ref, res.StatusCode, len(body), len(b.data))
		}
	}
	evid.R.Label("history/with-concurrent-uploads")
}

// concurrentLongPollStat: several clients long-poll (maxwaitsec) for the same blob that is not there yet,
// then it is uploaded. Every one of them must get a well-formed answer (a dropped connection or a 5xx is
// not an answer); an answer that lists the blob lists its right size. No wall-clock verdict: whether a
// waiter answers at the upload or at its deadline is only counted.
func (e *caseEnv) concurrentLongPollStat() {
	if e.longPolls >= 2 {
		e.t.Skip("two concurrent long-poll rounds per history are enough")
	}
	e.longPolls++
	b := genBlob(e.t, e.m)
	if _, had := e.m.blobs[b.ref]; had {
		e.t.Skip("drew a blob that is already there")
	}
	k := rapid.IntRange(2, 3).Draw(e.t, "waiters")
	method := rapid.SampledFrom([]string{"GET", "POST"}).Draw(e.t, "lpMethod")
	e.logf("raw %s camli/stat by %d concurrent long-pollers (maxwaitsec=2) for the absent %s, then client.Upload of it", method, k, b.ref)
	type ans struct {
		status int
		body   []byte
		err    error
	}
	out := make(chan ans, k)
	q := "camliversion=1&maxwaitsec=2&blob1=" + b.ref
	for i := 0; i < k; i++ {
		go func() {
			var req *http.Request
			if method == "GET" {
				req, _ = http.NewRequest("GET", e.root+"/camli/stat?"+q, nil)
			} else {
				req, _ = http.NewRequest("POST", e.root+"/camli/stat", strings.NewReader(q))
				req.Header.Set("Content-Type", "application/x-www-form-urlencoded")
			}
			req.SetBasicAuth(user, pass)
			res, err := e.hc.Do(req)
			if err != nil {
				out <- ans{err: err}
				return
			}
			defer res.Body.Close()
			body, err := io.ReadAll(res.Body)
			out <- ans{status: res.StatusCode, body: body, err: err}
		}()
	}
	time.Sleep(time.Duration(rapid.IntRange(0, 60).Draw(e.t, "uploadAfterMS")) * time.Millisecond)
	h := &client.UploadHandle{BlobRef: blob.MustParse(b.ref), Size: uint32(len(b.data)), Contents: bytes.NewReader(b.data)}
	if _, err := e.cl.Upload(context.Background(), h); err != nil {
		e.violate("client.Upload(%s) while %d clients long-poll for it failed: %v", b.ref, k, err)
	}
	e.m.blobs[b.ref] = b.data
	delete(e.refused, b.ref)
	for i := 0; i < k; i++ {
		a := <-out
		what := fmt.Sprintf("long-poll stat #%d of %d concurrent ones for %s (uploaded meanwhile)", i+1, k, b.ref)
		if a.err != nil {
			var ne interface{ Timeout() bool }
			if errors.As(a.err, &ne) && ne.Timeout() {
				e.t.Fatalf("VERIF-INCONCLUSIVE harness: %s: %v", what, a.err)
			}
			e.violate("%s got no answer: %v", what, a.err)
		}
		if a.status != 200 {
			e.violate("%s answered HTTP %d %q", what, a.status, trimQ(string(a.body)))
		}
		var sr statResp
		if err := json.Unmarshal(a.body, &sr); err != nil {
			e.violate("%s: response is not JSON: %v %q", what, err, trimQ(string(a.body)))
		}
		for _, st := range sr.Stat {
			if st.BlobRef != b.ref || st.Size != len(b.data) {
				e.violate("%s lists %s size %d; asked for %s (%d bytes)", what, st.BlobRef, st.Size, b.ref, len(b.data))
			}
		}
		if len(sr.Stat) == 1 {
			evid.R.Label("stat/concurrent-long-poll/answered-with-the-blob")
		} else {
			evid.R.Label("stat/concurrent-long-poll/answered-without-the-blob")
		}
	}
}

func (e *caseEnv) rawStat() {
	n := rapid.SampledFrom([]int{1, 1, 2, 3, 7, 20, 37, 100, 999, 1000, 1001}).Draw(e.t, "statN")
	method := rapid.SampledFrom([]string{"GET", "POST"}).Draw(e.t, "statMethod")
	refs, present := e.statSet(n)
	mw := rapid.SampledFrom([]string{"", "", "0", "1"}).Draw(e.t, "statMaxWait")
	if mw == "1" && present != len(refs) {
		// maxwaitsec>0 with absent refs legitimately blocks for the whole wait: the answer is judged like
		// any other (the present blobs are reported, the absent ones are not), it just takes a second, so
		// it is only done now and then and for small batches
		if n > 20 || rapid.IntRange(0, 3).Draw(e.t, "statLongPollWithAbsent") != 0 {
			mw = ""
		} else {
			evid.R.Label("stat/long-poll-with-absent-ref")
		}
	}
	var sb strings.Builder
	sb.WriteString("camliversion=1")
	if mw != "" {
		sb.WriteString("&maxwaitsec=" + mw)
	}
	for i, r := range refs {
		fmt.Fprintf(&sb, "&blob%d=%s", i+1, r)
	}
	e.logf("raw %s camli/stat keys=%d present=%d maxwaitsec=%q", method, n, present, mw)
	evid.R.Label(fmt.Sprintf("stat/%s-keys-%d", method, n))
	if present > 0 && present < len(refs) {
		e.mixed = true
	}
	var res *http.Response
	var body []byte
	if method == "GET" {
		res, body = e.req("GET", "/camli/stat?"+sb.String(), nil, "")
	} else {
		res, body = e.req("POST", "/camli/stat", []byte(sb.String()), "application/x-www-form-urlencoded")
	}
	what := fmt.Sprintf("%s camli/stat with %d keys", method, n)
	if n > 1000 && res.StatusCode == 400 {
		return // doc/protocol/blob-stat.md: "servers may return a 400 Bad Request if you ask for too many. All servers should support <= 1000"
	}
	if res.StatusCode != 200 {
		e.violate("%s answered HTTP %d %q", what, res.StatusCode, trimQ(string(body)))
	}
	var sr statResp
	if err := json.Unmarshal(body, &sr); err != nil {
		e.violate("%s: response is not JSON: %v %q", what, err, trimQ(string(body)))
	}
	got := map[string]int{}
	dups := false
	for _, s := range sr.Stat {
		if _, d := got[s.BlobRef]; d {
			dups = true
		}
		got[s.BlobRef] = s.Size
	}
	e.checkStat(what, refs, got, dups)
}

func (e *caseEnv) clientStat() {
	n := rapid.SampledFrom([]int{1, 2, 5, 30}).Draw(e.t, "cstatN")
	refs, present := e.statSet(n)
	e.logf("client.StatBlobs keys=%d present=%d", n, present)
	if present > 0 && present < len(refs) {
		e.mixed = true
	}
	var brs []blob.Ref
	for _, r := range refs {
		brs = append(brs, blob.MustParse(r))
	}
	got := map[string]int{}
	dups := false
	var mu sync.Mutex
	var inFlight, concurrent atomic.Int32
	err := e.cl.StatBlobs(context.Background(), brs, func(sb blob.SizedRef) error {
		if inFlight.Add(1) > 1 {
			concurrent.Store(1)
		}
		defer inFlight.Add(-1)
		mu.Lock()
		defer mu.Unlock()
		if _, d := got[sb.Ref.String()]; d {
			dups = true
		}
		got[sb.Ref.String()] = int(sb.Size)
		return nil
	})
	if concurrent.Load() != 0 {
		e.violate("client.StatBlobs(%d refs) called fn concurrently (blobserver.BlobStatter: 'calling fn in serial')", n)
	}
	if err != nil {
		e.violate("client.StatBlobs(%d refs) failed: %v", n, err)
	}
	e.checkStat(fmt.Sprintf("client.StatBlobs with %d refs", n), refs, got, dups)
}

// ---- enumerate ----

type enumResp struct {
	Blobs []struct {
		BlobRef string `json:"blobRef"`
		Size    int    `json:"size"`
	} `json:"blobs"`
	ContinueAfter string `json:"continueAfter"`
	CanLongPoll   bool   `json:"canLongPoll"`
}

// onePage requests one page and checks it; limit<=0 means "no usable limit parameter".
func (e *caseEnv) onePage(limitParam string, limit int, after, maxwait string) enumResp {
	q := url.Values{}
	if limitParam != "" {
		q.Set("limit", limitParam)
	}
	if after != "" {
		q.Set("after", after)
	}
	if maxwait != "" {
		q.Set("maxwaitsec", maxwait)
	}
	pq := "/camli/enumerate-blobs"
	if len(q) > 0 {
		pq += "?" + q.Encode()
	}
	what := "GET " + pq
	res, body := e.req("GET", pq, nil, "")
	afterClass := "none"
	if _, ok := e.m.blobs[after]; ok {
		afterClass = "present-ref"
	} else if after != "" {
		afterClass = "absent-ref"
	}
	evid.R.Label(fmt.Sprintf("enum-page/limit=%s,after=%s,maxwaitsec=%s", nzs(limitParam), afterClass, nzs(maxwait)))
	if mwn, _ := strconv.Atoi(maxwait); mwn != 0 && after != "" {
		if res.StatusCode != 400 {
			e.violate("%s: maxwaitsec with after must be an error (doc/protocol/blob-enumerate.md); got HTTP %d %q", what, res.StatusCode, trimQ(string(body)))
		}
		return enumResp{}
	}
	if res.StatusCode != 200 {
		e.violate("%s answered HTTP %d %q", what, res.StatusCode, trimQ(string(body)))
	}
	var er enumResp
	if err := json.Unmarshal(body, &er); err != nil {
		e.violate("%s: response is not JSON: %v %q", what, err, trimQ(string(body)))
	}
	want := e.m.after(after)
	if limit > 0 && len(er.Blobs) > limit {
		e.violate("%s: %d blobs returned, limit was %d", what, len(er.Blobs), limit)
	}
	if len(er.Blobs) > len(want) {
		e.violate("%s: %d blobs returned but only %d uploaded blobs sort after the cursor; first extra: %s", what, len(er.Blobs), len(want), er.Blobs[len(want)].BlobRef)
	}
	for i, b := range er.Blobs {
		if b.BlobRef != want[i] {
			e.violate("%s: position %d is %s, the ascending listing of uploaded blobs has %s there (skipped, repeated, out of order or unknown blob)", what, i, b.BlobRef, want[i])
		}
		if b.Size != len(e.m.blobs[b.BlobRef]) {
			e.violate("%s: %s listed with size %d, uploaded %d bytes", what, b.BlobRef, b.Size, len(e.m.blobs[b.BlobRef]))
		}
	}
	truncated := len(er.Blobs) < len(want)
	if truncated && len(er.Blobs) == 0 {
		e.violate("%s: the listing is EMPTY although %d uploaded blobs sort after the cursor (first: %s) and there is no continueAfter", what, len(want), want[0])
	}
	if truncated && er.ContinueAfter == "" {
		e.violate("%s: page of %d blobs ends at %s, %d more uploaded blobs follow, but there is no continueAfter", what, len(er.Blobs), er.Blobs[len(er.Blobs)-1].BlobRef, len(want)-len(er.Blobs))
	}
	if er.ContinueAfter != "" {
		if len(er.Blobs) == 0 || er.ContinueAfter != er.Blobs[len(er.Blobs)-1].BlobRef {
			e.violate("%s: continueAfter=%q is not the last blob of the page (%d blobs)", what, er.ContinueAfter, len(er.Blobs))
		}
		if !truncated && limit > 0 && len(er.Blobs) < limit {
			e.violate("%s: continueAfter present on a page of %d < limit %d blobs that already ends the listing (doc: present = truncated)", what, len(er.Blobs), limit)
		}
	}
	return er
}

var limitClasses = []struct {
	param string
	n     int
}{{"", 0}, {"1", 1}, {"2", 2}, {"7", 7}, {"100000000", 0}, {"lots", 0}, {"3", 3}, {"100", 100}}

func (e *caseEnv) pickAfter() string {
	refs := e.m.sorted()
	switch k := rapid.IntRange(0, 5).Draw(e.t, "afterKind"); {
	case k <= 2:
		return ""
	case k <= 4 && len(refs) > 0:
		return refs[rapid.IntRange(0, len(refs)-1).Draw(e.t, "afterWhich")]
	default:
		return absentRef(rapid.Uint64Range(0, 1000).Draw(e.t, "afterAbsent"), 1)
	}
}

func (e *caseEnv) rawEnumPage() {
	lc := limitClasses[rapid.IntRange(0, len(limitClasses)-1).Draw(e.t, "limitClass")]
	after := e.pickAfter()
	mw := rapid.SampledFrom([]string{"", "", "0", "1"}).Draw(e.t, "maxwaitsec")
	if mw == "1" && after == "" && len(e.m.blobs) == 0 {
		mw = "0" // an empty store legitimately blocks for the whole wait
	}
	e.logf("raw GET camli/enumerate-blobs limit=%q after=%q maxwaitsec=%q (blobs on server: %d)", lc.param, after, mw, len(e.m.blobs))
	e.onePage(lc.param, lc.n, after, mw)
}

func (e *caseEnv) rawEnumAll() {
	lc := limitClasses[rapid.IntRange(0, len(limitClasses)-1).Draw(e.t, "limitClass")]
	mw := rapid.SampledFrom([]string{"", "0", "1"}).Draw(e.t, "maxwaitsecFirstPage")
	if mw == "1" && len(e.m.blobs) == 0 {
		mw = ""
	}
	e.logf("raw paged enumeration limit=%q maxwaitsec(first page)=%q (blobs on server: %d)", lc.param, mw, len(e.m.blobs))
	var all []string
	after := ""
	pages := 0
	for {
		er := e.onePage(lc.param, lc.n, after, mw)
		mw = "" // only legal without 'after'
		pages++
		for _, b := range er.Blobs {
			all = append(all, b.BlobRef)
		}
		if er.ContinueAfter == "" {
			break
		}
		after = er.ContinueAfter
		if pages > len(e.m.blobs)+3 {
			e.violate("paged enumeration with limit %q does not terminate: %d pages for %d blobs", lc.param, pages, len(e.m.blobs))
		}
	}
	if pages >= 2 {
		e.pages2 = true
	}
	want := e.m.sorted()
	if strings.Join(all, ",") != strings.Join(want, ",") {
		e.violate("complete paged enumeration (limit %q, %d pages) lists %d blobs, uploaded %d: got %v want %v", lc.param, pages, len(all), len(want), short(all), short(want))
	}
	e.logf("  -> %d pages", pages)
}

func short(s []string) []string {
	var out []string
	for _, r := range s {
		if len(r) > 16 {
			r = r[:16]
		}
		out = append(out, r)
	}
	return out
}

func (e *caseEnv) clientEnum() {
	kind := rapid.SampledFrom([]string{"simple", "afterlimit", "maxwait"}).Draw(e.t, "cenumKind")
	ch := make(chan blob.SizedRef, 16)
	errc := make(chan error, 1)
	var want []string
	ctx := context.Background()
	switch kind {
	case "simple":
		e.logf("client.SimpleEnumerateBlobs")
		want = e.m.sorted()
		go func() { errc <- e.cl.SimpleEnumerateBlobs(ctx, ch) }()
	case "afterlimit":
		after := e.pickAfter()
		limit := rapid.SampledFrom([]int{1, 2, 7, 5000}).Draw(e.t, "cenumLimit")
		e.logf("client.EnumerateBlobs after=%q limit=%d", after, limit)
		want = e.m.after(after)
		if len(want) > limit {
			want = want[:limit]
		}
		go func() { errc <- e.cl.EnumerateBlobs(ctx, ch, after, limit) }()
	case "maxwait":
		if len(e.m.blobs) == 0 {
			e.logf("client.EnumerateBlobsOpts{} (store empty)")
			want = nil
			go func() { errc <- e.cl.EnumerateBlobsOpts(ctx, ch, client.EnumerateOpts{}) }()
		} else {
			e.logf("client.EnumerateBlobsOpts{MaxWait: 1s} (blobs on server: %d)", len(e.m.blobs))
			want = e.m.sorted()
			go func() { errc <- e.cl.EnumerateBlobsOpts(ctx, ch, client.EnumerateOpts{MaxWait: time.Second}) }()
		}
	}
	var got []string
	sizesOK := true
	for sb := range ch {
		got = append(got, sb.Ref.String())
		if d, ok := e.m.blobs[sb.Ref.String()]; ok && int(sb.Size) != len(d) {
			sizesOK = false
		}
	}
	if err := <-errc; err != nil {
		e.violate("client enumerate (%s) failed: %v", kind, err)
	}
	if strings.Join(got, ",") != strings.Join(want, ",") || !sizesOK {
		e.violate("client enumerate (%s): got %d blobs %v, the uploaded blobs in order are %d: %v (sizes ok=%v)", kind, len(got), short(got), len(want), short(want), sizesOK)
	}
}

// ---------------------------------------------------------------------------
// driver of one configuration
// ---------------------------------------------------------------------------

func runHistories(t *testing.T, storage, index string) {
	spec := vhttp.Spec{Storage: storage, Index: index, Auth: "userpass:" + user + ":" + pass, Share: false}
	flag.Set("rapid.steps", strconv.Itoa(evid.Pick(40, 110)))
	flag.Set("rapid.shrinktime", "8s") // every shrink attempt starts a server; 16 tests may fail at once
	evid.Check(t, 6, 40, func(t *rapid.T) {
		srv, err := vhttp.Start(spec, true)
		if err != nil {
			t.Fatalf("harness: %v", err)
		}
		defer srv.Close()
		tr := &http.Transport{DisableCompression: true, MaxIdleConnsPerHost: 4}
		defer tr.CloseIdleConnections()
		cl, err := client.New(client.OptionServer(srv.URL), client.OptionAuthMode(auth.NewBasicAuth(user, pass)))
		if err != nil {
			t.Fatalf("harness: client.New: %v", err)
		}
		defer cl.Close()
		cl.Logger.SetOutput(io.Discard)
		e := &caseEnv{t: t, spec: spec, srv: srv, root: srv.URL + "/bs-and-maybe-also-index", hc: &http.Client{Transport: tr, Timeout: 60 * time.Second},
			cl: cl, m: &model{blobs: map[string][]byte{}}, refused: map[string]bool{}}
		// the client must discover the same blob root from the server
		if br, err := cl.BlobRoot(); err != nil || strings.TrimSuffix(br, "/") != e.root {
			t.Fatalf("harness: discovered blobRoot %q (err %v), expected %q", br, err, e.root)
		}
		// a fresh server is empty
		e.logf("initial enumeration")
		e.onePage("", 0, "", "")

		t.Repeat(map[string]func(*rapid.T){
			"clientUpload":           func(*rapid.T) { e.clientUpload() },
			"clientUploadFile":       func(*rapid.T) { e.clientUploadFile() },
			"rawMultipart":           func(*rapid.T) { e.rawMultipart() },
			"rawPut":                 func(*rapid.T) { e.rawPut() },
			"rawGet":                 func(*rapid.T) { e.rawGet() },
			"rawHead":                func(*rapid.T) { e.rawHead() },
			"clientFetch":            func(*rapid.T) { e.clientFetch() },
			"rawStat":                func(*rapid.T) { e.rawStat() },
			"concurrentLongPollStat": func(*rapid.T) { e.concurrentLongPollStat() },
			"concurrentUploads":      func(*rapid.T) { e.concurrentUploads() },
			"clientStat":             func(*rapid.T) { e.clientStat() },
			"rawEnumPage":            func(*rapid.T) { e.rawEnumPage() },
			"rawEnumAll":             func(*rapid.T) { e.rawEnumAll() },
			"clientEnum":             func(*rapid.T) { e.clientEnum() },
		})
		// closing sweep: everything uploaded is still there, exactly once, with its bytes
		e.logf("final sweep")
		e.rawEnumAllWith("2")
		for _, r := range e.m.sorted() {
			res, body := e.req("GET", "/camli/"+r, nil, "")
			if res.StatusCode != 200 || !bytes.Equal(body, e.m.blobs[r]) {
				e.violate("final sweep: GET %s -> HTTP %d, %d bytes; uploaded %d bytes", r, res.StatusCode, len(body), len(e.m.blobs[r]))
			}
		}

		evid.R.Eval()
		evid.R.Label("config/" + storage + "+" + index)
		evid.R.LabelN("ops", len(e.log))
		for _, l := range e.log {
			f := strings.Fields(l)
			if len(f) >= 2 && (f[0] == "raw" || strings.HasPrefix(f[0], "client.")) {
				k := f[0]
				if f[0] == "raw" {
					k = "raw " + f[1]
					if len(f) > 2 && (f[1] == "GET" || f[1] == "POST" || f[1] == "PUT" || f[1] == "HEAD") {
						p := f[2]
						if strings.HasPrefix(p, "camli/sha") {
							p = "camli/<ref>"
						}
						k += " " + p
					}
				}
				evid.R.Label("op/" + k)
			}
		}
		evid.R.LabelN("blobs-on-server-at-end", len(e.m.blobs))
		nt := e.pages2 || e.mixed
		if e.pages2 {
			evid.R.Label("history/with-multi-page-enumeration")
		}
		if e.mixed {
			evid.R.Label("history/with-mixed-stat-batch")
		}
		if e.files > 0 {
			evid.R.Label("history/with-packable-file-upload")
		}
		if nt {
			evid.R.NonTrivial(evid.Hash("hist", storage, index, strings.Join(e.log, "\n")))
		}
		if evid.R.WantSample(nt) {
			lg := e.log
			if len(lg) > 60 {
				lg = append(append([]string{}, lg[:60]...), fmt.Sprintf("... %d more", len(e.log)-60))
			}
			evid.R.Sample(nt, map[string]any{"high_level_config": srv.High, "blob_root": "/bs-and-maybe-also-index/", "history": lg, "blobs_at_end": len(e.m.blobs)})
		}
	})
}

func (e *caseEnv) rawEnumAllWith(limit string) {
	n, _ := strconv.Atoi(limit)
	var all []string
	after := ""
	pages := 0
	for {
		er := e.onePage(limit, n, after, "")
		pages++
		for _, b := range er.Blobs {
			all = append(all, b.BlobRef)
		}
		if er.ContinueAfter == "" {
			break
		}
		after = er.ContinueAfter
		if pages > len(e.m.blobs)+3 {
			e.violate("final paged enumeration does not terminate")
		}
	}
	if pages >= 2 {
		e.pages2 = true
	}
	if want := e.m.sorted(); strings.Join(all, ",") != strings.Join(want, ",") {
		e.violate("final paged enumeration (limit %s) lists %d blobs, uploaded %d: got %v want %v", limit, len(all), len(want), short(all), short(want))
	}
}

func writeCase(e *caseEnv, msg string) {
	root := os.Getenv("VERIF_ROOT")
	if root == "" || os.Getenv("VERIF_REPO") != "" {
		return
	}
	dir := root + "/replays/C18"
	os.MkdirAll(dir, 0o755)
	b, _ := json.MarshalIndent(map[string]any{"violation": msg, "high_level_config": e.srv.High, "history": e.log}, "", " ")
	os.WriteFile(dir+"/last-violation.case.json", append(b, '\n'), 0o644)
}

// one test function per configuration: all 16 are exercised in every run, and a rapid fail file
// names its configuration.
func TestHist_memory_memory(t *testing.T)      { runHistories(t, "memory", "memory") }
func TestHist_memory_leveldb(t *testing.T)     { runHistories(t, "memory", "leveldb") }
func TestHist_memory_kv(t *testing.T)          { runHistories(t, "memory", "kv") }
func TestHist_memory_sqlite(t *testing.T)      { runHistories(t, "memory", "sqlite") }
func TestHist_localdisk_memory(t *testing.T)   { runHistories(t, "localdisk", "memory") }
func TestHist_localdisk_leveldb(t *testing.T)  { runHistories(t, "localdisk", "leveldb") }
func TestHist_localdisk_kv(t *testing.T)       { runHistories(t, "localdisk", "kv") }
func TestHist_localdisk_sqlite(t *testing.T)   { runHistories(t, "localdisk", "sqlite") }
func TestHist_diskpacked_memory(t *testing.T)  { runHistories(t, "diskpacked", "memory") }
func TestHist_diskpacked_leveldb(t *testing.T) { runHistories(t, "diskpacked", "leveldb") }
func TestHist_diskpacked_kv(t *testing.T)      { runHistories(t, "diskpacked", "kv") }
func TestHist_diskpacked_sqlite(t *testing.T)  { runHistories(t, "diskpacked", "sqlite") }
func TestHist_blobpacked_memory(t *testing.T)  { runHistories(t, "blobpacked", "memory") }
func TestHist_blobpacked_leveldb(t *testing.T) { runHistories(t, "blobpacked", "leveldb") }
func TestHist_blobpacked_kv(t *testing.T)      { runHistories(t, "blobpacked", "kv") }
func TestHist_blobpacked_sqlite(t *testing.T)  { runHistories(t, "blobpacked", "sqlite") }

// runs last (source order): how many servers could not be shut down cleanly
func TestZZLeaks(t *testing.T) {
	evid.R.Extra("servers_left_open_because_sync_queue_did_not_drain", vhttp.Leaked.Load())
}
