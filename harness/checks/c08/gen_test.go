package c08

import (
	"strings"
	"time"

	"go4.org/types"
	"perkeep.org/pkg/blob"
	"perkeep.org/pkg/schema"
	"perkeep.org/pkg/search"
	"pgregory.net/rapid"

	vw "verifharness/internal/vsearchworld"
)

// cgen generates constraint trees over the vocabulary of one world. Everything
// it builds is valid by construction (SearchQuery.checkValid accepts it and no
// [Recursive]Contains shape error can arise at match time).
type cgen struct {
	visDates []time.Time // dates of the camliDefVis claims of the world
	t *rapid.T
	w *vw.World

	refs, permRefs, fileRefs, dirRefs []string
	sizes                             []int64
	nestLeft                          int // how many more levels of nested sub-constraints may be opened
	fileSizes                         []int64
	mimes                             []string
}

func newCgen(t *rapid.T, w *vw.World) *cgen {
	g := &cgen{t: t, w: w, nestLeft: 2}
	g.refs = w.SortedRefs()
	seenSize := map[int64]bool{}
	for _, rs := range g.refs {
		b := w.Blobs[rs]
		switch {
		case b.Perm != nil:
			g.permRefs = append(g.permRefs, rs)
			for _, cl := range b.Perm.Claims {
				if cl.Attr == "camliDefVis" && cl.Date.Unix() != 0 {
					g.visDates = append(g.visDates, cl.Date)
				}
			}
		case b.File != nil:
			g.fileRefs = append(g.fileRefs, rs)
		case b.Dir != nil:
			g.dirRefs = append(g.dirRefs, rs)
		}
		if !seenSize[int64(b.Size)] {
			seenSize[int64(b.Size)] = true
			g.sizes = append(g.sizes, int64(b.Size))
		}
	}
	g.fileSizes = []int64{0, 1, 17}
	g.mimes = []string{"text/plain", "application/pdf", "image/gif", "application/json", "application/x-gzip"}
	for _, f := range w.Files {
		g.fileSizes = append(g.fileSizes, f.Size)
	}
	return g
}

func (g *cgen) n(lo, hi int, label string) int { return rapid.IntRange(lo, hi).Draw(g.t, label) }
func (g *cgen) p(pct int, label string) bool   { return rapid.IntRange(0, 99).Draw(g.t, label) < pct }
func pick[T any](g *cgen, xs []T, label string) T {
	return rapid.SampledFrom(xs).Draw(g.t, label)
}

func logical(op string, a, b *search.Constraint) *search.Constraint {
	return &search.Constraint{Logical: &search.LogicalConstraint{Op: op, A: a, B: b}}
}

// ---- scalar constraints ----

func (g *cgen) intC(vals []int64, label string) *search.IntConstraint {
	v := pick(g, vals, label+"V") + int64(g.n(-1, 1, label+"D"))
	switch g.n(0, 8, label+"K") {
	case 0, 1:
		return &search.IntConstraint{Equals: &v}
	case 2:
		return &search.IntConstraint{Min: v}
	case 3:
		return &search.IntConstraint{Max: v}
	case 4:
		v2 := pick(g, vals, label+"V2")
		if v2 < v {
			v, v2 = v2, v
		}
		return &search.IntConstraint{Min: v, Max: v2}
	case 5:
		return &search.IntConstraint{ZeroMax: true}
	case 6:
		c := &search.IntConstraint{ZeroMin: true}
		if v > 0 {
			c.Max = v
		}
		return c
	case 7:
		if v < 0 {
			return &search.IntConstraint{ZeroMax: true, Min: v}
		}
		return &search.IntConstraint{ZeroMin: true}
	default:
		return &search.IntConstraint{}
	}
}

func swapCase(s string) string {
	b := []byte(s)
	for i, c := range b {
		switch {
		case 'a' <= c && c <= 'z':
			b[i] = c - 32
		case 'A' <= c && c <= 'Z':
			b[i] = c + 32
		}
	}
	return string(b)
}

func (g *cgen) strC(pool []string, label string) *search.StringConstraint {
	s := pick(g, pool, label+"S")
	sub := func(kind string) string {
		if s == "" {
			return "x"
		}
		for i := 0; i < len(s); i++ {
			if s[i] >= 0x80 {
				return s // never cut inside a multi-byte rune
			}
		}
		switch kind {
		case "prefix":
			return s[:g.n(1, len(s), label+"L")]
		case "suffix":
			return s[g.n(0, len(s)-1, label+"L"):]
		default:
			i := g.n(0, len(s)-1, label+"I")
			return s[i:g.n(i+1, len(s), label+"J")]
		}
	}
	c := &search.StringConstraint{}
	fold := g.p(30, label+"Fold")
	mangle := func(x string) string {
		if fold && g.p(70, label+"Swap") {
			return swapCase(x)
		}
		return x
	}
	c.CaseInsensitive = fold
	for i, k := 0, g.n(1, 2, label+"N"); i < k; i++ {
		switch g.n(0, 6, label+"K") {
		case 0, 1:
			c.Equals = mangle(s)
		case 2:
			c.Contains = mangle(sub("mid"))
		case 3:
			c.HasPrefix = mangle(sub("prefix"))
		case 4:
			c.HasSuffix = mangle(sub("suffix"))
		case 5:
			c.ByteLength = g.intC([]int64{int64(len(s)), 0, 3, 5}, label+"BL")
		case 6:
			if g.p(30, label+"Empty") {
				c.Empty = true
			}
		}
	}
	return c
}

func (g *cgen) instant(label string) time.Time {
	d := pick(g, vw.DatePool, label)
	switch g.n(0, 5, label+"D") {
	case 0:
		d = d.Add(time.Nanosecond)
	case 1:
		d = d.Add(-time.Nanosecond)
	case 2:
		d = d.Add(time.Second)
	}
	if d.Unix() == 0 {
		// TimeConstraint bounds are types.Time3339; IsAnyZero ("Go zero or Unix zero")
		// makes every instant of the first second of 1970 mean "not set".
		d = d.Add(time.Second)
	}
	return d
}

func (g *cgen) timeC(label string) *search.TimeConstraint {
	c := &search.TimeConstraint{}
	switch g.n(0, 2, label+"K") {
	case 0:
		c.Before = types.Time3339(g.instant(label + "B"))
	case 1:
		c.After = types.Time3339(g.instant(label + "A"))
	default:
		a, b := g.instant(label+"A"), g.instant(label+"B")
		if b.Before(a) {
			a, b = b, a
		}
		c.After, c.Before = types.Time3339(a), types.Time3339(b)
	}
	return c
}

func (g *cgen) refPrefix(pool []string, label string) string {
	if len(pool) == 0 {
		pool = g.refs
	}
	r := pick(g, pool, label)
	dash := strings.IndexByte(r, '-')
	switch g.n(0, 9, label+"K") {
	case 0:
		return r // full ref: planner may use the single-blob source
	case 1, 2:
		return r
	case 3:
		return r[:dash+1] // digest name only: HasPrefix doc says this matches nothing
	case 4:
		// a prefix of the right shape that (very likely) matches nothing
		b := []byte(r[:dash+1+g.n(1, 6, label+"L")])
		b[len(b)-1] = "0123456789abcdef"[g.n(0, 15, label+"X")]
		return string(b)
	default:
		return r[:dash+1+g.n(1, 5, label+"L")]
	}
}

// ---- leaves ----

var attrPool = []string{"tag", "tag", "title", "num", "camliNodeType", "camliMember", "camliPath:x", "camliContent", "camliDefVis", "dateCreated", "nope"}

func (g *cgen) valuesFor(attr string) []string {
	switch attr {
	case "tag":
		return vw.Tags
	case "title":
		return vw.Titles
	case "num":
		return vw.Nums
	case "camliNodeType":
		return vw.NodeTypes
	case "camliDefVis":
		return []string{"hide", "show"}
	case "camliMember", "camliPath:x", "camliContent":
		out := append([]string{"not-a-ref"}, g.permRefs...)
		out = append(out, g.fileRefs...)
		return append(out, g.dirRefs...)
	}
	return []string{"foo", "Alpha", "7"}
}

func (g *cgen) nodeTypeLeaf() *search.Constraint {
	return &search.Constraint{Permanode: &search.PermanodeConstraint{Attr: "camliNodeType", Value: pick(g, vw.NodeTypes, "ntValue")}}
}

func (g *cgen) permC(budget int) *search.PermanodeConstraint {
	pc := &search.PermanodeConstraint{}
	if g.p(20, "pAt") {
		pc.At = g.instant("pAtT")
	}
	if g.p(18, "pSkipHidden") {
		pc.SkipHidden = true
		// visibility as of a past instant (often exactly the date of a claim): the hide claim has to be
		// found by replaying the claims up to and including that instant
		if pc.At.IsZero() && g.p(50, "pSkipHiddenAt") {
			pc.At = g.instant("pSkipHiddenAtT")
			if len(g.visDates) > 0 && g.p(50, "pAtVisClaim") {
				pc.At = pick(g, g.visDates, "visClaimDate") // the instant of a visibility claim of this world
			}
		}
	}
	if g.p(12, "pModTime") {
		pc.ModTime = g.timeC("pMod")
	}
	if g.p(12, "pTime") {
		pc.Time = g.timeC("pTime")
	}
	if g.p(78, "pAttr") {
		pc.Attr = pick(g, attrPool, "attr")
		vals := g.valuesFor(pc.Attr)
		k := g.n(0, 9, "pValueKind")
		hasValue := true
		switch {
		case k <= 2:
			pc.Value = pick(g, vals, "value")
		case k <= 4:
			pc.ValueMatches = g.strC(vals, "vm")
		case k == 5:
			pc.ValueMatchesInt = g.intC([]int64{-3, 0, 7, 42, 100}, "vmi")
		case (k == 6 || k == 8) && g.nestLeft > 0:
			if g.p(70, "visAttr") {
				pc.Attr = pick(g, []string{"camliMember", "camliContent", "camliPath:x", "camliPath:y"}, "visAttrName")
			}
			fl := flPerm
			if pc.Attr == "camliContent" || g.p(25, "visFileish") {
				fl = flFile
			}
			pc.ValueInSet = g.sub(fl)
		case k == 7:
			pc.Value = pick(g, vals, "value")
			pc.ValueMatches = g.strC(vals, "vm")
		default:
			hasValue = false
		}
		if hasValue && g.p(25, "valueAll") {
			pc.ValueAll = true
		}
		if !hasValue || g.p(20, "numValueToo") {
			nv := &search.IntConstraint{}
			switch g.n(0, 4, "nvKind") {
			case 0:
				v := int64(g.n(0, 3, "nvEq"))
				nv.Equals = &v
			case 1:
				nv.Min = int64(g.n(1, 3, "nvMin"))
			case 2:
				nv.Max = int64(g.n(1, 3, "nvMax"))
			case 3:
				nv.Min = int64(g.n(1, 2, "nvMin"))
				nv.Max = nv.Min + int64(g.n(0, 2, "nvSpan"))
			case 4:
				if hasValue {
					nv.Max = 1
				} else {
					nv.ZeroMax = true
				}
			}
			pc.NumValue = nv
		}
	}
	if g.nestLeft > 0 && g.p(22, "pRelation") {
		rc := &search.RelationConstraint{Relation: pick(g, []string{"parent", "child"}, "relation")}
		rc.EdgeType = pick(g, []string{"", "", "", "camliMember", "camliPath:x", "tag"}, "edgeType")
		sub := g.sub(pick(g, []int{flPerm, flPerm, flAny}, "relFlavor"))
		if g.p(65, "relAny") {
			rc.Any = sub
		} else {
			rc.All = sub
		}
		pc.Relation = rc
	}
	return pc
}

func (g *cgen) fileC(budget int) *search.FileConstraint {
	fc := &search.FileConstraint{}
	if g.p(30, "fSize") {
		fc.FileSize = g.intC(g.fileSizes, "fSizeC")
	}
	if g.p(40, "fName") {
		fc.FileName = g.strC(vw.FileNames, "fNameC")
	}
	if g.p(25, "fMime") {
		fc.MIMEType = g.strC(g.mimes, "fMimeC")
	}
	if g.p(25, "fWhole") {
		fc.WholeRef = g.wholeRef()
	}
	if g.nestLeft > 0 && g.p(20, "fParent") {
		g.nestLeft--
		fc.ParentDir = g.dirC(budget)
		g.nestLeft++
	}
	return fc
}

func (g *cgen) wholeRef() blob.Ref {
	if len(g.w.Files) > 0 && g.p(85, "wholeExisting") {
		return pick(g, g.w.Files, "wholeOf").WholeRef
	}
	return blob.MustParse(pick(g, g.refs, "wholeBogus")) // some blob's own ref: (almost never) a whole-file digest
}

func (g *cgen) dirC(budget int) *search.DirConstraint {
	dc := &search.DirConstraint{}
	if g.p(35, "dName") {
		dc.FileName = g.strC(vw.DirNames, "dNameC")
	}
	if g.p(12, "dPrefix") {
		dc.BlobRefPrefix = g.refPrefix(g.dirRefs, "dPrefixR")
	}
	if g.p(25, "dCount") {
		dc.TopFileCount = g.intC([]int64{0, 1, 2, 3, 4}, "dCountC")
	}
	if g.nestLeft > 0 && g.p(15, "dParent") {
		g.nestLeft--
		dc.ParentDir = g.dirC(budget)
		g.nestLeft++
	}
	if g.nestLeft > 0 && g.p(45, "dContains") {
		g.nestLeft--
		sub := g.containsTree(budget)
		g.nestLeft++
		if g.p(50, "dRecursive") {
			dc.RecursiveContains = sub
		} else {
			dc.Contains = sub
		}
	}
	return dc
}

// sub draws a nested sub-query (valueInSet, relation any/all).
func (g *cgen) sub(fl int) *search.Constraint {
	g.nestLeft--
	defer func() { g.nestLeft++ }()
	return g.tree(g.n(0, 2, "subDepth"), fl)
}

// containsTree: a BlobRefPrefix, a File, a Dir, or a logical combination of File/Dir leaves.
func (g *cgen) containsTree(budget int) *search.Constraint {
	if g.p(15, "ctPrefix") {
		return &search.Constraint{BlobRefPrefix: g.refPrefix(append(append([]string{}, g.fileRefs...), g.dirRefs...), "ctPrefixR")}
	}
	return g.containsSub(budget, 2)
}

func (g *cgen) containsSub(budget, depth int) *search.Constraint {
	if depth > 0 && g.p(35, "ctLogical") {
		op := pick(g, []string{"and", "or", "xor", "not"}, "ctOp")
		a := g.containsSub(budget, depth-1)
		if op == "not" {
			return logical(op, a, nil)
		}
		return logical(op, a, g.containsSub(budget, depth-1))
	}
	if g.p(65, "ctFile") {
		return &search.Constraint{File: g.fileC(budget)}
	}
	return &search.Constraint{Dir: g.dirC(budget)}
}

const (
	flAny = iota
	flPerm
	flFile
)

func (g *cgen) leaf(budget, fl int) *search.Constraint {
	k := g.n(0, 19, "leafKind")
	switch fl {
	case flPerm:
		switch {
		case k < 6:
			return g.nodeTypeLeaf()
		case k < 15:
			return &search.Constraint{Permanode: g.permC(budget)}
		case k < 17:
			return &search.Constraint{CamliType: schema.TypePermanode}
		}
	case flFile:
		switch {
		case k < 8:
			return &search.Constraint{File: g.fileC(budget)}
		case k < 15:
			return &search.Constraint{Dir: g.dirC(budget)}
		}
	}
	switch g.n(0, 15, "anyLeaf") {
	case 0:
		return &search.Constraint{Anything: true}
	case 1, 2:
		return &search.Constraint{CamliType: pick(g, []schema.CamliType{"permanode", "file", "directory", "claim", "static-set", "bytes"}, "camliType")}
	case 3:
		return &search.Constraint{AnyCamliType: true}
	case 4, 5:
		return &search.Constraint{BlobRefPrefix: g.refPrefix(nil, "prefix")}
	case 6, 7:
		return &search.Constraint{BlobSize: g.intC(g.sizes, "blobSize")}
	case 8, 9:
		return &search.Constraint{Permanode: g.permC(budget)}
	case 10:
		return &search.Constraint{File: g.fileC(budget)}
	case 11:
		return &search.Constraint{Dir: g.dirC(budget)}
	case 12:
		return g.nodeTypeLeaf()
	case 13: // several fields in one constraint: all must match
		c := &search.Constraint{BlobSize: g.intC(g.sizes, "mfSize")}
		switch g.n(0, 3, "mfKind") {
		case 0:
			c.CamliType = pick(g, []schema.CamliType{"permanode", "file", "claim"}, "mfType")
		case 1:
			c.BlobRefPrefix = g.refPrefix(nil, "mfPrefix")
		case 2:
			c.Permanode = g.permC(0)
		case 3:
			c.AnyCamliType = true
			c.File = g.fileC(0)
		}
		return c
	case 14:
		return &search.Constraint{CamliType: pick(g, []schema.CamliType{"permanode", "file"}, "mf2Type"), BlobRefPrefix: g.refPrefix(nil, "mf2Prefix")}
	default:
		if g.p(25, "zero") {
			return &search.Constraint{} // "A zero constraint matches nothing."
		}
		return &search.Constraint{Anything: true}
	}
}

// tree draws a constraint tree with at most `budget` levels of logical operators / nested sub-constraints.
func (g *cgen) tree(budget, fl int) *search.Constraint {
	if budget > 0 && g.p(55, "isLogical") {
		op := pick(g, []string{"and", "and", "or", "or", "xor", "not"}, "op")
		a := g.tree(budget-1, fl)
		if op == "not" {
			return logical(op, a, nil)
		}
		fl2 := fl
		if g.p(25, "mixFlavor") {
			fl2 = pick(g, []int{flAny, flPerm, flFile}, "flavor2")
		}
		return logical(op, a, g.tree(budget-1, fl2))
	}
	return g.leaf(budget, fl)
}

// top draws a whole query constraint; the shapes are biased so that every
// candidate source of the planner is reached.
func (g *cgen) top() (c *search.Constraint, shape string) {
	depth := g.n(0, 4, "depth")
	switch g.n(0, 11, "shape") {
	case 0, 1:
		return g.tree(depth, pick(g, []int{flAny, flPerm, flFile}, "flavor")), "free"
	case 2, 3: // permanode-only through "and"
		var head *search.Constraint
		if g.p(50, "headType") {
			head = &search.Constraint{CamliType: schema.TypePermanode}
		} else {
			head = &search.Constraint{Permanode: g.permC(1)}
		}
		rest := g.tree(max(depth-1, 0), flPerm)
		if g.p(50, "headFirst") {
			return logical("and", head, rest), "and(permanode,tree)"
		}
		return logical("and", rest, head), "and(tree,permanode)"
	case 4, 5: // node types combined with and/or and other permanode predicates
		var build func(d int) *search.Constraint
		build = func(d int) *search.Constraint {
			if d > 0 && g.p(70, "ntLogical") {
				return logical(pick(g, []string{"or", "or", "and"}, "ntOp"), build(d-1), build(d-1))
			}
			if g.p(60, "ntLeaf") {
				return g.nodeTypeLeaf()
			}
			return &search.Constraint{Permanode: g.permC(0)}
		}
		body := build(g.n(1, 3, "ntDepth"))
		if g.p(50, "ntWrap") {
			return logical("and", &search.Constraint{CamliType: schema.TypePermanode}, body), "and(permanode,nodeTypes)"
		}
		return logical("and", body, &search.Constraint{Permanode: g.permC(0)}), "and(nodeTypes,permanode)"
	case 6: // a bare permanode constraint
		if edges := g.edgeClaims(); len(edges) > 0 && g.p(45, "relTargeted") {
			// relation through an edge claim that exists in the world (current, replaced or removed)
			cl := pick(g, edges, "edgeClaim")
			rc := &search.RelationConstraint{}
			var target string
			if g.p(50, "relChild") {
				rc.Relation, target = "child", cl.Value
			} else {
				rc.Relation, target = "parent", cl.Perm.RefS
			}
			if g.p(25, "relEdgeType") {
				rc.EdgeType = cl.Attr
			}
			sub := &search.Constraint{BlobRefPrefix: target}
			if g.p(30, "relSubMore") {
				sub = logical("and", sub, g.sub(flAny))
			}
			if g.p(75, "relAnyT") {
				rc.Any = sub
			} else {
				rc.All = sub
			}
			pc := &search.PermanodeConstraint{Relation: rc}
			if g.p(25, "relAt") {
				pc.At = g.instant("relAtT")
			}
			return &search.Constraint{Permanode: pc}, "permanode-relation"
		}
		if refClaims := g.refClaims(); len(refClaims) > 0 && g.p(35, "visTargeted") {
			// valueInSet over an attribute that really holds refs, with a sub-query about
			// the referenced blob itself or about some other blob
			cl := pick(g, refClaims, "visClaim")
			target := cl.Value
			if g.p(50, "visOther") {
				target = pick(g, g.refs, "visOtherRef")
			}
			var sub *search.Constraint
			switch g.n(0, 5, "visSub") {
			case 4, 5:
				// a sub-query that itself looks at a (typically multi-valued) attribute of the referenced
				// permanode: its evaluation runs in the middle of the outer loop over the set's values
				// prefer a tag that one of the permanodes referenced by this very attribute really carries
				cands := append([]string(nil), vw.Tags...)
				var held []string
				for _, v := range cl.Perm.AttrsAt(time.Time{})[cl.Attr] {
					for _, p := range g.w.Perms {
						if p.RefS == v {
							held = append(held, p.AttrsAt(time.Time{})["tag"]...)
						}
					}
				}
				if len(held) > 0 && g.p(75, "visTagHeld") {
					cands = held
				}
				sub = &search.Constraint{Permanode: &search.PermanodeConstraint{Attr: "tag", Value: pick(g, cands, "visTag")}}
				if g.p(30, "visTagNum") {
					sub = &search.Constraint{Permanode: &search.PermanodeConstraint{Attr: "tag", NumValue: &search.IntConstraint{Min: int64(g.n(1, 2, "visTagMin"))}}}
				}
			case 0:
				sub = &search.Constraint{BlobRefPrefix: target}
			case 1:
				if tb := g.w.Blobs[target]; tb != nil && tb.Type != "" {
					sub = &search.Constraint{CamliType: schema.CamliType(tb.Type)}
				} else {
					sub = &search.Constraint{AnyCamliType: true}
				}
			case 2:
				sub = logical("and", &search.Constraint{BlobRefPrefix: target[:len("sha224-")+g.n(1, 3, "visPfx")]}, g.sub(flAny))
			default:
				sub = g.sub(pick(g, []int{flPerm, flFile, flAny}, "visFl"))
			}
			pc := &search.PermanodeConstraint{Attr: cl.Attr, ValueInSet: sub}
			if g.p(25, "visAll") {
				pc.ValueAll = true
			}
			if g.p(20, "visAt") {
				pc.At = g.instant("visAtT")
			}
			return &search.Constraint{Permanode: pc}, "permanode-valueInSet"
		}
		return &search.Constraint{Permanode: g.permC(depth)}, "permanode"
	case 7: // single-blob planner path
		one := &search.Constraint{BlobRefPrefix: pick(g, g.refs, "oneRef")}
		if g.p(30, "oneAlone") {
			return one, "fullref"
		}
		return logical("and", one, g.tree(max(depth-1, 0), flAny)), "and(fullref,tree)"
	case 8: // whole-ref planner path
		f := &search.Constraint{File: &search.FileConstraint{WholeRef: g.wholeRef()}}
		if g.p(40, "wholeMore") {
			f.File.FileName = g.strC(vw.FileNames, "wholeName")
		}
		if g.p(40, "wholeAlone") {
			return f, "wholeRef"
		}
		return logical("and", g.tree(max(depth-1, 0), flFile), f), "and(tree,wholeRef)"
	case 9: // camliType at the top: typed enumeration
		c := &search.Constraint{CamliType: pick(g, []schema.CamliType{"file", "directory", "claim", "static-set", "permanode"}, "topType")}
		if g.p(30, "anyType") {
			c = &search.Constraint{AnyCamliType: true}
		}
		if g.p(50, "topTypeSize") {
			c.BlobSize = g.intC(g.sizes, "topSize")
		}
		return c, "camliType"
	case 10:
		if g.p(50, "dirDeep") {
			// a directory picked by its own properties that holds something somewhere below it
			dc := &search.DirConstraint{}
			switch g.n(0, 2, "deepOwn") {
			case 0:
				dc.FileName = &search.StringConstraint{Equals: pick(g, vw.DirNames[:4], "deepDirName")}
			case 1:
				dc.TopFileCount = g.intC([]int64{1, 2, 3}, "deepCount")
			default:
				dc.BlobRefPrefix = g.refPrefix(g.dirRefs, "deepPrefix")
			}
			var sub *search.Constraint
			if chains := g.deepChains(); len(chains) > 0 && g.p(75, "deepFromWorld") {
				// take the own-field from a real directory D and the sub-constraint from a real
				// descendant X at depth >= 2 (D > E > X), so that the case is rarely vacuous
				ch := pick(g, chains, "deepChain")
				d, x := g.w.Blobs[ch[0]], g.w.Blobs[ch[1]]
				dc = &search.DirConstraint{}
				switch g.n(0, 2, "deepOwnW") {
				case 0:
					dc.FileName = &search.StringConstraint{Equals: d.Dir.Name}
					if d.Dir.Name == "" {
						dc.FileName = &search.StringConstraint{Empty: true}
					}
				case 1:
					n := int64(len(d.Dir.Children))
					dc.TopFileCount = &search.IntConstraint{Equals: &n}
				default:
					dc.BlobRefPrefix = d.RefS[:len("sha224-")+g.n(4, 10, "deepPfxLen")]
				}
				name := ""
				if x.File != nil {
					name = x.File.Name
				} else {
					name = x.Dir.Name
				}
				sc := &search.StringConstraint{Equals: name}
				if name == "" {
					sc = &search.StringConstraint{Empty: true}
				}
				if x.File != nil {
					sub = &search.Constraint{File: &search.FileConstraint{FileName: sc}}
				} else {
					sub = &search.Constraint{Dir: &search.DirConstraint{FileName: sc}}
				}
			} else if g.p(70, "deepFile") {
				sub = &search.Constraint{File: &search.FileConstraint{FileName: &search.StringConstraint{Equals: pick(g, vw.FileNames[:8], "deepFileName")}}}
			} else {
				sub = &search.Constraint{Dir: &search.DirConstraint{FileName: &search.StringConstraint{Equals: pick(g, vw.DirNames[:4], "deepSubDirName")}}}
			}
			dc.RecursiveContains = sub
			return &search.Constraint{Dir: dc}, "dir-recursive"
		}
		return &search.Constraint{File: g.fileC(depth)}, "file"
	default:
		return &search.Constraint{Dir: g.dirC(depth)}, "dir"
	}
}

// edgeClaims lists the claims of the world whose attribute is an edge and whose value is a ref.
func (g *cgen) edgeClaims() []*vw.Claim {
	var out []*vw.Claim
	for _, p := range g.w.Perms {
		for _, c := range p.Claims {
			if c.Attr == "camliMember" || strings.HasPrefix(c.Attr, "camliPath:") {
				if _, ok := blob.Parse(c.Value); ok {
					out = append(out, c)
				}
			}
		}
	}
	return out
}

// refClaims lists the claims whose value is the ref of a blob of the world.
func (g *cgen) refClaims() []*vw.Claim {
	var out []*vw.Claim
	for _, p := range g.w.Perms {
		for _, c := range p.Claims {
			if c.Kind != "del-attribute" && g.w.Blobs[c.Value] != nil {
				out = append(out, c)
			}
		}
	}
	return out
}

// deepChains lists (directory, descendant at depth >= 2) pairs of the world.
func (g *cgen) deepChains() [][2]string {
	var out [][2]string
	for _, d := range g.w.Dirs {
		seen := map[string]bool{}
		for _, c := range d.Children {
			cb := g.w.Blobs[c.String()]
			if cb.Dir == nil {
				continue
			}
			for _, x := range cb.Dir.Children {
				if !seen[x.String()] {
					seen[x.String()] = true
					out = append(out, [2]string{d.RefS, x.String()})
				}
			}
		}
	}
	return out
}

// ---- syntactic helpers of the check ----

func countLogical(c *search.Constraint) int {
	if c == nil {
		return 0
	}
	n := 0
	if l := c.Logical; l != nil {
		n = 1 + countLogical(l.A) + countLogical(l.B)
	}
	if p := c.Permanode; p != nil {
		n += countLogical(p.ValueInSet)
		if r := p.Relation; r != nil {
			n += countLogical(r.Any) + countLogical(r.All)
		}
	}
	if d := c.Dir; d != nil {
		n += countLogical(d.Contains) + countLogical(d.RecursiveContains)
	}
	return n
}

// aboutPermanodesOnly: SearchQuery.Sort doc — "It defaults to CreatedDesc when the
// query is about permanodes only." The syntactic notion the planner documents in
// onlyMatchesPermanode: a permanode constraint or camliType permanode, possibly
// under "and". For such queries every sort except "mod" is supported.
func aboutPermanodesOnly(c *search.Constraint) bool {
	if c.Permanode != nil || c.CamliType == schema.TypePermanode {
		return true
	}
	if l := c.Logical; l != nil && l.Op == "and" {
		return aboutPermanodesOnly(l.A) || aboutPermanodesOnly(l.B)
	}
	return false
}

// features lists which parts of the constraint language a tree uses (evidence labels).
func features(c *search.Constraint, out map[string]bool) {
	if c == nil {
		return
	}
	intF := func(name string, ic *search.IntConstraint) {
		if ic == nil {
			return
		}
		out[name] = true
		switch {
		case ic.Equals != nil:
			out["int/equals"] = true
		case ic.ZeroMin || ic.ZeroMax:
			out["int/zeroMin|zeroMax"] = true
		case ic.Min != 0 && ic.Max != 0:
			out["int/min+max"] = true
		case ic.Min != 0:
			out["int/min"] = true
		case ic.Max != 0:
			out["int/max"] = true
		default:
			out["int/empty"] = true
		}
	}
	strF := func(name string, sc *search.StringConstraint) {
		if sc == nil {
			return
		}
		out[name] = true
		if sc.Equals != "" {
			out["string/equals"] = true
		}
		if sc.Contains != "" {
			out["string/contains"] = true
		}
		if sc.HasPrefix != "" {
			out["string/hasPrefix"] = true
		}
		if sc.HasSuffix != "" {
			out["string/hasSuffix"] = true
		}
		if sc.CaseInsensitive {
			out["string/caseInsensitive"] = true
		}
		if sc.Empty {
			out["string/empty"] = true
		}
		intF("string/byteLength", sc.ByteLength)
	}
	var dirF func(prefix string, d *search.DirConstraint)
	dirF = func(prefix string, d *search.DirConstraint) {
		if d == nil {
			return
		}
		out[prefix] = true
		strF("dir/fileName", d.FileName)
		intF("dir/topFileCount", d.TopFileCount)
		if d.BlobRefPrefix != "" {
			out["dir/blobRefPrefix"] = true
		}
		dirF("dir/parentDir", d.ParentDir)
		if d.Contains != nil {
			out["dir/contains"] = true
			features(d.Contains, out)
		}
		if d.RecursiveContains != nil {
			out["dir/recursiveContains"] = true
			if d.FileName != nil || d.TopFileCount != nil || d.ParentDir != nil || d.BlobRefPrefix != "" {
				out["dir/recursiveContains+own-fields"] = true
			}
			features(d.RecursiveContains, out)
		}
	}
	if l := c.Logical; l != nil {
		out["logical/"+l.Op] = true
		features(l.A, out)
		features(l.B, out)
		return
	}
	nf := 0
	if c.Anything {
		out["anything"] = true
		nf++
	}
	if c.CamliType != "" {
		out["camliType"] = true
		nf++
	}
	if c.AnyCamliType {
		out["anyCamliType"] = true
		nf++
	}
	if c.BlobRefPrefix != "" {
		out["blobRefPrefix"] = true
		if _, ok := blob.Parse(c.BlobRefPrefix); ok {
			out["blobRefPrefix/full-ref"] = true
		}
		nf++
	}
	if c.BlobSize != nil {
		intF("blobSize", c.BlobSize)
		nf++
	}
	if p := c.Permanode; p != nil {
		nf++
		out["permanode"] = true
		if !p.At.IsZero() {
			out["permanode/at"] = true
		}
		if p.SkipHidden {
			out["permanode/skipHidden"] = true
		}
		if p.ModTime != nil {
			out["permanode/modTime"] = true
		}
		if p.Time != nil {
			out["permanode/time"] = true
		}
		if p.Attr != "" {
			out["permanode/attr"] = true
		}
		if p.Value != "" {
			out["permanode/value"] = true
		}
		strF("permanode/valueMatches", p.ValueMatches)
		intF("permanode/valueMatchesInt", p.ValueMatchesInt)
		intF("permanode/numValue", p.NumValue)
		if p.ValueAll {
			out["permanode/valueAll"] = true
		}
		if p.ValueInSet != nil {
			out["permanode/valueInSet"] = true
			features(p.ValueInSet, out)
		}
		if r := p.Relation; r != nil {
			k := "any"
			if r.All != nil {
				k = "all"
			}
			out["permanode/relation/"+r.Relation+"/"+k] = true
			if r.EdgeType != "" {
				out["permanode/relation/edgeType"] = true
			}
			features(r.Any, out)
			features(r.All, out)
		}
	}
	if f := c.File; f != nil {
		nf++
		out["file"] = true
		intF("file/fileSize", f.FileSize)
		strF("file/fileName", f.FileName)
		strF("file/mimeType", f.MIMEType)
		if f.WholeRef.Valid() {
			out["file/wholeRef"] = true
		}
		dirF("file/parentDir", f.ParentDir)
	}
	if d := c.Dir; d != nil {
		nf++
		dirF("dir", d)
	}
	if nf == 0 {
		out["zero-constraint"] = true
	}
	if nf > 1 {
		out["multi-field-constraint"] = true
	}
}
