package c08

import (
	"context"
	"sort"
	"testing"
	"time"

	"perkeep.org/pkg/blob"
	"perkeep.org/pkg/schema"
	"perkeep.org/pkg/search"

	"verifharness/internal/evid"
	vw "verifharness/internal/vsearchworld"
)

// Plain (non-rapid) regression tests of the shrunk generated cases behind the
// three fix: commits in pkg/search/query.go.

func day(n int) time.Time { return time.Date(2012, 3, 4+n, 5, 6, 7, 0, time.UTC) }

func runQ(t *testing.T, ix *vw.Indexed, c *search.Constraint, st search.SortType) []string {
	t.Helper()
	res, err := ix.H.Query(context.Background(), &search.SearchQuery{Constraint: c, Sort: st, Limit: -1})
	if err != nil {
		t.Fatalf("C08 violated (regression): query error: %v", err)
	}
	var out []string
	for _, b := range res.Blobs {
		out = append(out, b.Blob.String())
	}
	return out
}

func wantSet(t *testing.T, what string, got []string, want ...string) {
	t.Helper()
	g := append([]string(nil), got...)
	sort.Strings(g)
	sort.Strings(want)
	if len(g) != len(want) {
		t.Fatalf("C08 violated (regression %s): got %v, want %v", what, got, want)
	}
	for i := range g {
		if g[i] != want[i] {
			t.Fatalf("C08 violated (regression %s): got %v, want %v", what, got, want)
		}
	}
}

func attr(a, v string) *search.Constraint {
	return &search.Constraint{Permanode: &search.PermanodeConstraint{Attr: a, Value: v}}
}

// fix 646f40e: and(camliType=permanode, or(tag=foo, camliNodeType=t:a)) lost the
// tag=foo permanode under every sort that uses the node-type candidate source.
func TestRegressOrTypedUntyped(t *testing.T) {
	if evid.Replaying() {
		t.Skip()
	}
	w := vw.New()
	p0, p1, p2 := w.AddPermanode("p0"), w.AddPermanode("p1"), w.AddPermanode("p2")
	w.AddClaim(p0, day(0), "add-attribute", "tag", "foo")
	w.AddClaim(p1, day(1), "set-attribute", "camliNodeType", "t:a")
	w.AddClaim(p2, day(2), "set-attribute", "camliNodeType", "t:b")
	ix, err := w.Build()
	if err != nil {
		t.Fatal(err)
	}
	c := logical("and", &search.Constraint{CamliType: schema.TypePermanode}, logical("or", attr("tag", "foo"), attr("camliNodeType", "t:a")))
	for _, st := range []search.SortType{search.UnspecifiedSort, search.Unsorted, search.BlobRefAsc, search.CreatedAsc, search.CreatedDesc, search.LastModifiedDesc, search.MapSort} {
		wantSet(t, "or typed/untyped sort="+sortNames[st], runQ(t, ix, c, st), p0.RefS, p1.RefS)
	}
}

// fix f0771bb: a permanode that had two of the listed node types (or a type
// listed twice) was returned more than once.
func TestRegressNodeTypesDuplicate(t *testing.T) {
	if evid.Replaying() {
		t.Skip()
	}
	w := vw.New()
	p0, p1 := w.AddPermanode("p0"), w.AddPermanode("p1")
	w.AddClaim(p0, day(0), "set-attribute", "camliNodeType", "t:a")
	w.AddClaim(p0, day(1), "set-attribute", "camliNodeType", "t:c")
	w.AddClaim(p1, day(2), "set-attribute", "camliNodeType", "t:a")
	ix, err := w.Build()
	if err != nil {
		t.Fatal(err)
	}
	pn := &search.Constraint{CamliType: schema.TypePermanode}
	for _, st := range []search.SortType{search.Unsorted, search.BlobRefAsc, search.CreatedAsc} {
		wantSet(t, "or(t:a,t:c)", runQ(t, ix, logical("and", pn, logical("or", attr("camliNodeType", "t:a"), attr("camliNodeType", "t:c"))), st), p0.RefS, p1.RefS)
		wantSet(t, "or(t:a,t:a)", runQ(t, ix, logical("and", pn, logical("or", attr("camliNodeType", "t:a"), attr("camliNodeType", "t:a"))), st), p1.RefS)
	}
}

// fix cd2ecba: Dir{FileName:"top", RecursiveContains: File{FileName:"a.txt"}} missed
// "top" when the file sits below an intermediate directory not named "top".
func TestRegressRecursiveContainsIntermediate(t *testing.T) {
	if evid.Replaying() {
		t.Skip()
	}
	w := vw.New()
	f := w.AddFile("a.txt", "lorem ipsum", "text/plain", time.Time{}, nil)
	g := w.AddFile("b.txt", "dolor", "text/plain", time.Time{}, nil)
	sub := w.AddDir("sub", []blob.Ref{f.Ref})
	top := w.AddDir("top", []blob.Ref{sub.Ref, g.Ref})
	ix, err := w.Build()
	if err != nil {
		t.Fatal(err)
	}
	rc := &search.Constraint{File: &search.FileConstraint{FileName: &search.StringConstraint{Equals: "a.txt"}}}
	wantSet(t, "fileName+recursiveContains",
		runQ(t, ix, &search.Constraint{Dir: &search.DirConstraint{FileName: &search.StringConstraint{Equals: "top"}, RecursiveContains: rc}}, search.Unsorted), top.RefS)
	two := int64(2)
	wantSet(t, "topFileCount+recursiveContains",
		runQ(t, ix, &search.Constraint{Dir: &search.DirConstraint{TopFileCount: &search.IntConstraint{Equals: &two}, RecursiveContains: rc}}, search.Unsorted), top.RefS)
	wantSet(t, "recursiveContains alone",
		runQ(t, ix, &search.Constraint{Dir: &search.DirConstraint{RecursiveContains: rc}}, search.Unsorted), top.RefS, sub.RefS)
}

// fix 435ee72: one camliMember claim naming a blob the index never received made
// every parent/child relation query touching that permanode fail with
// "file does not exist".
func TestRegressRelationDanglingEdge(t *testing.T) {
	if evid.Replaying() {
		t.Skip()
	}
	w := vw.New()
	p0, p1, p2 := w.AddPermanode("p0"), w.AddPermanode("p1"), w.AddPermanode("p2")
	w.AddClaim(p0, day(0), "add-attribute", "camliMember", vw.DanglingRef)
	w.AddClaim(p0, day(1), "add-attribute", "camliMember", p1.RefS)
	w.AddClaim(p2, day(0), "add-attribute", "camliMember", vw.DanglingRef)
	w.AddClaim(p1, day(0), "add-attribute", "tag", "foo")
	ix, err := w.Build()
	if err != nil {
		t.Fatal(err)
	}
	c := &search.Constraint{Permanode: &search.PermanodeConstraint{Relation: &search.RelationConstraint{Relation: "child", Any: &search.Constraint{CamliType: schema.TypePermanode}}}}
	wantSet(t, "child any with dangling member", runQ(t, ix, c, search.Unsorted), p0.RefS)
}

// fix 8ddd7cb: sort=map. (a) 5 matches, 1 with a location, limit 3 (and any
// unlimited query with a located match) never returned: bestByLocation looped
// forever holding the index read lock; (b) without any located match the limit
// was ignored. Each query runs under a deadline so that a regression fails
// instead of hanging the run.
func TestRegressMapSortLimit(t *testing.T) {
	if evid.Replaying() {
		t.Skip()
	}
	w := vw.New()
	var all []string
	for i, k := range []string{"p0", "p1", "p2", "p3", "p4"} {
		p := w.AddPermanode(k)
		all = append(all, p.RefS)
		w.AddClaim(p, day(i), "add-attribute", "tag", "foo")
		if i == 0 {
			w.AddClaim(p, day(10), "set-attribute", "latitude", "10.5")
			w.AddClaim(p, day(11), "set-attribute", "longitude", "20.5")
		}
	}
	ix, err := w.Build()
	if err != nil {
		t.Fatal(err)
	}
	run := func(c *search.Constraint, limit int) []string {
		type ans struct {
			refs []string
			err  error
		}
		ch := make(chan ans, 1)
		go func() {
			res, err := ix.H.Query(context.Background(), &search.SearchQuery{Constraint: c, Sort: search.MapSort, Limit: limit})
			var refs []string
			if err == nil {
				for _, b := range res.Blobs {
					refs = append(refs, b.Blob.String())
				}
			}
			ch <- ans{refs, err}
		}()
		select {
		case a := <-ch:
			if a.err != nil {
				t.Fatalf("C08 violated (regression map sort): %v", a.err)
			}
			return a.refs
		case <-time.After(60 * time.Second):
			t.Fatalf("C08 violated (regression map sort): query with limit %d did not return within 60s", limit)
		}
		return nil
	}
	located := &search.Constraint{Permanode: &search.PermanodeConstraint{Attr: "tag", Value: "foo"}} // permanode constraint: locations are looked up
	wantSet(t, "map unlimited", run(located, -1), all...)
	wantSet(t, "map limit 5", run(located, 5), all...)
	if got := run(located, 3); len(got) == 0 || len(got) > 3 || dupOf(got) != "" {
		t.Fatalf("C08 violated (regression map sort): limit 3 with one located match returned %v", got)
	}
	plain := &search.Constraint{CamliType: schema.TypePermanode} // no location is ever looked up
	if got := run(plain, 2); len(got) != 2 || dupOf(got) != "" {
		t.Fatalf("C08 violated (regression map sort): limit 2 without located matches returned %d results", len(got))
	}
}
