// C08 — a search returns exactly the matching blobs, however it is planned.
package c08

import (
	"bytes"
	"context"
	"encoding/json"
	"fmt"
	"io"
	"log"
	"net/http/httptest"
	"os"
	"runtime"
	"slices"
	"sort"
	"strings"
	"sync"
	"testing"
	"time"

	"perkeep.org/pkg/blob"
	"perkeep.org/pkg/search"
	"pgregory.net/rapid"

	"verifharness/internal/evid"
	vw "verifharness/internal/vsearchworld"
)

const prop = "C08"

const rule = "case = (generated world, constraint tree, planner wrapper, sort, limit) run through search.Handler.Query on an index with incremental corpus. " +
	"World: 0-10 files (text/pdf/gif/gzip/binary contents in 1-3 chunks, names with/without extension, optional unixMtime), 0-9 nested directories sharing children, " +
	"1-16 planned permanodes each with 1-9 set/add/del claims (camliNodeType, tag, title, num, camliMember, camliPath:x|y, camliContent, dateCreated, camliDefVis, latitude, longitude) dated from a 16-instant pool " +
	"(ties across permanodes, sub-second, pre-1970), claim blobs uploaded in date order or shuffled. Domain restrictions: one signer (the owner); every permanode has >=1 claim, nothing is deleted; " +
	"claim dates distinct per permanode and in the past; no empty values, no add of a value already present; edge/content values name indexed blobs, are not refs at all, or (camliMember) name a blob the index never received; a permanode has at most one of dateCreated/camliContent. " +
	"Constraint fragment generated: logical and/or/xor/not (<=4 levels, plus nested sub-queries); anything, camliType, anyCamliType, blobRefPrefix (digest-name-only, 1..56 hex digits, full ref), blobSize, several fields in one constraint, the zero constraint; " +
	"permanode attr + value / valueMatches(equals,contains,hasPrefix,hasSuffix,byteLength,caseInsensitive,empty) / valueMatchesInt / numValue / valueAll / valueInSet(sub-query), at, modTime, time, skipHidden, relation(parent|child, edgeType, any|all); " +
	"file fileName/fileSize/mimeType/wholeRef(sha224)/parentDir; dir fileName/blobRefPrefix/topFileCount/parentDir/contains/recursiveContains (contains shapes: blobRefPrefix | file | dir | and/or/xor/not of file/dir leaves). " +
	"Not generated: regexp, inLast, valueMatchesFloat, location, image/EXIF/media fields, file time/modTime, claim constraints, Logical together with other fields, time bounds within the first second of 1970 (Time3339.IsAnyZero reads them as unset), sort 'mod' (documented unsupported). Permanodes may carry latitude/longitude so that the 'map' sort prunes; for 'map' with a limit only: terminates, subset of the matches, no duplicate, at most N, nothing pruned when the matches fit. " +
	"Oracles: (1) reference evaluator over the harness model (three-valued: doc-silent cases — relation 'all' over no relatives or with an edge to an unknown blob, permanode 'time' without a content time — may or may not match): no miss, no extra, no duplicate; " +
	"(2) the same constraint as not(not C) (full enumeration) and under every supported sort returns the identical set; (3) sorted results are in key order, limit N = first N of the unlimited list (any N-subset when unsorted). " +
	"non-trivial = tree with >=2 logical operators or planner chose a restricted candidate source; distinct = FNV-64 of (world blob list, query JSON incl. sort and limit, wrapper)"

var (
	srcMu   sync.Mutex
	lastSrc string
)

func TestMain(m *testing.M) {
	log.SetOutput(io.Discard)
	if err := vw.CheckEnv(); err != nil {
		fmt.Fprintln(os.Stderr, "VERIF-INCONCLUSIVE:", err)
		os.Exit(2)
	}
	search.VerifSetCandSourceHook(func(name string) {
		srcMu.Lock()
		lastSrc = name
		srcMu.Unlock()
	})
	evid.Main(m, prop, "exploration", rule)
}

var sortNames = map[search.SortType]string{
	search.UnspecifiedSort:  "unspecified",
	search.Unsorted:         "unsorted",
	search.LastModifiedDesc: "-mod",
	search.CreatedDesc:      "-created",
	search.CreatedAsc:       "created",
	search.BlobRefAsc:       "blobref",
	search.MapSort:          "map",
}

type runner struct {
	t  *rapid.T
	w  *vw.World
	ix *vw.Indexed
	ev *vw.Evaluator
	wh uint64
	nq int // queries so far (every third one is repeated over HTTP)
}

// httpQuery sends q the way the web UI and pkg/client do: as the JSON body of POST camli/search/query
// to the handler's ServeHTTP (fields at their zero value are left out of the JSON).
func (r *runner) httpQuery(q *search.SearchQuery) ([]string, error) {
	body, err := json.Marshal(q)
	if err != nil {
		return nil, err
	}
	req := httptest.NewRequest("POST", "http://verif.invalid/my-search/camli/search/query", bytes.NewReader(body))
	req.Header.Set("X-Prefixhandler-Pathsuffix", "camli/search/query") // httputil.PathSuffixHeader, set by the PrefixHandler in front of every handler
	rec := httptest.NewRecorder()
	r.ix.H.ServeHTTP(rec, req)
	if rec.Code != 200 {
		return nil, fmt.Errorf("HTTP %d %.200q", rec.Code, rec.Body.String())
	}
	var res struct {
		Blobs []struct {
			Blob string `json:"blob"`
		} `json:"blobs"`
		Error string `json:"error"`
	}
	if err := json.Unmarshal(rec.Body.Bytes(), &res); err != nil {
		return nil, fmt.Errorf("response is not JSON: %v", err)
	}
	if res.Error != "" {
		return nil, fmt.Errorf("error response: %s", res.Error)
	}
	out := make([]string, len(res.Blobs))
	for i, b := range res.Blobs {
		out[i] = b.Blob
	}
	return out, nil
}

type violation struct{ msg string }

func (r *runner) describe(refs []string) []string {
	var out []string
	for _, rs := range refs {
		b := r.w.Blobs[rs]
		if b == nil {
			out = append(out, rs+" (NOT IN WORLD)")
			continue
		}
		d := fmt.Sprintf("%s type=%q size=%d", rs, b.Type, b.Size)
		switch {
		case b.Perm != nil:
			d += fmt.Sprintf(" key=%s attrs=%v mod=%s any=%s", b.Perm.Key, b.Perm.AttrsAt(time.Time{}), b.Perm.ModTime().Format(time.RFC3339Nano), r.w.AnyTime(b.Perm).Format(time.RFC3339Nano))
		case b.File != nil:
			d += fmt.Sprintf(" name=%q fsize=%d mime=%q", b.File.Name, b.File.Size, b.File.Mime)
		case b.Dir != nil:
			d += fmt.Sprintf(" name=%q children=%v", b.Dir.Name, b.Dir.Children)
		}
		out = append(out, d)
	}
	return out
}

func qjson(q *search.SearchQuery) string {
	b, err := json.Marshal(q)
	if err != nil {
		return fmt.Sprintf("unmarshalable: %v", err)
	}
	return string(b)
}

// query runs one query, records evidence, and returns the result refs.
func (r *runner) query(c *search.Constraint, wrapper string, st search.SortType, limit int, nLogical int) ([]string, string, error) {
	q := &search.SearchQuery{Constraint: c, Sort: st, Limit: limit}
	srcMu.Lock()
	lastSrc = ""
	srcMu.Unlock()
	res, err := r.ix.H.Query(context.Background(), q)
	srcMu.Lock()
	src := lastSrc
	srcMu.Unlock()
	evid.R.Eval()
	evid.R.Label("source/" + src)
	evid.R.Label("sort/" + sortNames[st])
	evid.R.Label("wrapper/" + wrapper)
	nt := nLogical >= 2 || (src != "index_blob_meta" && src != "")
	if nt {
		evid.R.NonTrivial(evid.Hash(r.wh, qjson(q), wrapper))
	}
	if err != nil {
		return nil, src, err
	}
	out := make([]string, len(res.Blobs))
	for i, b := range res.Blobs {
		out[i] = b.Blob.String()
	}
	// the HTTP entry point must give the answer of the query it was sent, whatever it served before
	r.nq++
	if r.nq%3 == 0 && st != search.MapSort {
		evid.R.Label("transport/also-over-http")
		hout, herr := r.httpQuery(q)
		if herr != nil {
			return nil, src, fmt.Errorf("the query succeeds in-process but fails over HTTP (POST camli/search/query): %v", herr)
		}
		// ties in the sort key may come back in any order: the same set if the query is unlimited, the same
		// number of results otherwise (the order of every answer is judged separately, against the model)
		same := len(hout) == len(out)
		if same && limit < 0 {
			a, b := slices.Clone(hout), slices.Clone(out)
			slices.Sort(a)
			slices.Sort(b)
			same = slices.Equal(a, b)
		}
		if !same {
			return nil, src, fmt.Errorf("over HTTP (POST camli/search/query, body %s) the answer is %d blobs %v, in-process it is %d blobs %v", qjson(q), len(hout), short(hout), len(out), short(out))
		}
	}
	return out, src, nil
}

func short(l []string) []string {
	if len(l) > 6 {
		return append(append([]string{}, l[:6]...), "...")
	}
	return l
}

// queryWithDeadline is query for the map sort, whose pruning loop is the only
// place of the query path that can fail to return. A query that is still running
// after the deadline is a violation only if its goroutine is provably inside
// search.bestByLocation (stack dump); otherwise the run is inconclusive. The
// process ends right away in both cases: the goroutine cannot be stopped and
// rapid's shrinking would start one more of them per attempt.
func (r *runner) queryWithDeadline(c *search.Constraint, wrapper string, st search.SortType, limit int, nLogical int) ([]string, string, error) {
	type ans struct {
		refs []string
		src  string
		err  error
	}
	ch := make(chan ans, 1)
	go func() {
		refs, src, err := r.query(c, wrapper, st, limit, nLogical)
		ch <- ans{refs, src, err}
	}()
	deadline := 60 * time.Second
	select {
	case a := <-ch:
		return a.refs, a.src, a.err
	case <-time.After(deadline):
	}
	buf := make([]byte, 4<<20)
	buf = buf[:runtime.Stack(buf, true)]
	cj, _ := json.Marshal(c)
	wd, _ := json.Marshal(r.w.Describe())
	if bytes.Contains(buf, []byte("search.bestByLocation")) {
		fmt.Fprintf(os.Stderr, "C08 violated: query does not return: sort=map limit=%d still inside search.bestByLocation after %v (it holds the index read lock)\n  constraint: %s\n  world: %s\n", limit, deadline, cj, wd)
		evid.R.Violation()
		evid.R.Flush(true)
		os.Exit(1)
	}
	fmt.Fprintf(os.Stderr, "VERIF-INCONCLUSIVE: sort=map limit=%d query not finished after %v, but not inside bestByLocation\n%s\n", limit, deadline, buf)
	evid.R.Flush(false)
	os.Exit(2)
	return nil, "", nil
}

func dupOf(refs []string) string {
	seen := map[string]bool{}
	for _, r := range refs {
		if seen[r] {
			return r
		}
		seen[r] = true
	}
	return ""
}

func setOf(refs []string) map[string]bool {
	m := map[string]bool{}
	for _, r := range refs {
		m[r] = true
	}
	return m
}

func sortedKeys(m map[string]bool) []string {
	out := make([]string, 0, len(m))
	for k := range m {
		out = append(out, k)
	}
	sort.Strings(out)
	return out
}

// key returns the documented sort key of a result under st (ok=false: st has no order).
func (r *runner) key(st search.SortType, permOnly bool, ref string) (t time.Time, ok bool) {
	b := r.w.Blobs[ref]
	if b == nil || b.Perm == nil {
		return time.Time{}, false
	}
	switch st {
	case search.CreatedDesc, search.CreatedAsc:
		return r.w.AnyTime(b.Perm), true
	case search.UnspecifiedSort:
		if permOnly {
			return r.w.AnyTime(b.Perm), true
		}
	case search.LastModifiedDesc:
		return b.Perm.ModTime(), true
	}
	return time.Time{}, false
}

// checkOrder verifies that list is in the documented order of st.
func (r *runner) checkOrder(st search.SortType, permOnly bool, list []string) string {
	for i := 1; i < len(list); i++ {
		a, b := list[i-1], list[i]
		switch st {
		case search.BlobRefAsc:
			if !(a < b) {
				return fmt.Sprintf("blobref order broken at %d: %s then %s", i, a, b)
			}
		case search.CreatedDesc, search.LastModifiedDesc, search.CreatedAsc, search.UnspecifiedSort:
			ka, ok1 := r.key(st, permOnly, a)
			kb, ok2 := r.key(st, permOnly, b)
			if st == search.UnspecifiedSort && !permOnly {
				continue
			}
			if !ok1 || !ok2 {
				return fmt.Sprintf("time-sorted result contains a non-permanode: %s / %s", a, b)
			}
			if st == search.CreatedAsc {
				if kb.Before(ka) {
					return fmt.Sprintf("ascending time order broken at %d: %s (%s) then %s (%s)", i, a, ka.Format(time.RFC3339Nano), b, kb.Format(time.RFC3339Nano))
				}
			} else if ka.Before(kb) {
				return fmt.Sprintf("descending time order broken at %d: %s (%s) then %s (%s)", i, a, ka.Format(time.RFC3339Nano), b, kb.Format(time.RFC3339Nano))
			}
		}
	}
	return ""
}

func exactOrderSort(st search.SortType, permOnly bool) bool {
	switch st {
	case search.BlobRefAsc, search.CreatedDesc, search.LastModifiedDesc:
		return true
	case search.UnspecifiedSort:
		return permOnly
	}
	return false
}

func hasOrder(st search.SortType, permOnly bool) bool {
	return exactOrderSort(st, permOnly) || st == search.CreatedAsc
}

// checkConstraint runs every oracle for one constraint; returns a violation text or "".
func (r *runner) checkConstraint(c *search.Constraint, shape string, limitPick func(n int, label string) []int) string {
	must, may := r.ev.Result(c)
	permOnly := aboutPermanodesOnly(c)
	nLog := countLogical(c)
	cj, _ := json.Marshal(c)
	fail := func(format string, a ...any) string {
		return fmt.Sprintf("C08 violated: "+format, a...) + fmt.Sprintf("\n  constraint(%s): %s\n  reference must-match (%d): %v\n  reference may-match (%d): %v",
			shape, cj, len(must), sortedKeys(must), len(may), sortedKeys(may))
	}
	vsRef := func(what string, got []string) string {
		if d := dupOf(got); d != "" {
			return fail("%s: duplicate result %s\n  %v", what, d, r.describe([]string{d}))
		}
		gs := setOf(got)
		var missing, extra []string
		for rs := range must {
			if !gs[rs] {
				missing = append(missing, rs)
			}
		}
		for rs := range gs {
			if !must[rs] && !may[rs] {
				extra = append(extra, rs)
			}
		}
		sort.Strings(missing)
		sort.Strings(extra)
		if len(missing) > 0 || len(extra) > 0 {
			return fail("%s: result set differs from the reference evaluator\n  MISSED (%d): %s\n  EXTRA (%d): %s", what,
				len(missing), strings.Join(r.describe(missing), "\n          "), len(extra), strings.Join(r.describe(extra), "\n          "))
		}
		return ""
	}
	if len(may) > 0 {
		evid.R.Label("reference/has-unspecified-blobs")
	}

	// (2) baseline: planner defeated, full enumeration
	wrapped := logical("not", logical("not", c, nil), nil)
	base, src, err := r.query(wrapped, "not-not", search.Unsorted, -1, nLog)
	if err != nil {
		return fail("not(not C) unsorted: query error: %v", err)
	}
	if src != "index_blob_meta" {
		return fmt.Sprintf("harness: not(not C) was expected to force the full enumeration, planner picked %q", src)
	}
	if v := vsRef("not(not C) unsorted [source "+src+"]", base); v != "" {
		return v
	}
	baseSet := setOf(base)
	base2, _, err := r.query(wrapped, "not-not", search.BlobRefAsc, -1, nLog)
	if err != nil {
		return fail("not(not C) blobref: query error: %v", err)
	}
	if v := vsRef("not(not C) sort=blobref", base2); v != "" {
		return v
	}
	if v := r.checkOrder(search.BlobRefAsc, false, base2); v != "" {
		return fail("not(not C) sort=blobref: %s", v)
	}

	sorts := []search.SortType{search.UnspecifiedSort, search.Unsorted, search.BlobRefAsc, search.MapSort}
	if permOnly {
		sorts = append(sorts, search.CreatedDesc, search.CreatedAsc, search.LastModifiedDesc)
	}
	// a second rewrite that keeps the planner's shortcuts reachable but moves C one level down
	{
		any := &search.Constraint{Anything: true}
		w2, w2name := logical("and", c, any), "and(C,anything)"
		if limitPick(1, "w2side")[0]%2 == 1 {
			w2, w2name = logical("and", any, c), "and(anything,C)"
		}
		for _, st := range []search.SortType{search.Unsorted, search.UnspecifiedSort} {
			got, src, err := r.query(w2, w2name, st, -1, nLog)
			what := fmt.Sprintf("%s sort=%s [source %s]", w2name, sortNames[st], src)
			if err != nil {
				return fail("%s: query error: %v", what, err)
			}
			if v := vsRef(what, got); v != "" {
				return v
			}
			gs := setOf(got)
			if len(gs) != len(baseSet) {
				return fail("%s: returns %d blobs, not(not C) returns %d", what, len(gs), len(baseSet))
			}
			for rs := range gs {
				if !baseSet[rs] {
					return fail("%s: returns %v which not(not C) does not", what, r.describe([]string{rs}))
				}
			}
		}
	}
	for _, st := range sorts {
		what := "C sort=" + sortNames[st]
		var full []string
		var src string
		var err error
		if st == search.MapSort {
			full, src, err = r.queryWithDeadline(c, "plain", st, -1, nLog)
		} else {
			full, src, err = r.query(c, "plain", st, -1, nLog)
		}
		if err != nil {
			return fail("%s: query error: %v", what, err)
		}
		what += " [source " + src + "]"
		if v := vsRef(what, full); v != "" {
			return v
		}
		// planner independence: identical set as the full enumeration (also on doc-silent blobs)
		fs := setOf(full)
		for rs := range baseSet {
			if !fs[rs] {
				return fail("%s: misses %v which not(not C) returns", what, r.describe([]string{rs}))
			}
		}
		for rs := range fs {
			if !baseSet[rs] {
				return fail("%s: returns %v which not(not C) does not", what, r.describe([]string{rs}))
			}
		}
		if v := r.checkOrder(st, permOnly, full); v != "" {
			return fail("%s: %s", what, v)
		}
		for _, lim := range limitPick(len(full), sortNames[st]) {
			var got []string
			var src2 string
			var err error
			if st == search.MapSort {
				got, src2, err = r.queryWithDeadline(c, "plain", st, lim, nLog)
			} else {
				got, src2, err = r.query(c, "plain", st, lim, nLog)
			}
			lw := fmt.Sprintf("C sort=%s limit=%d [source %s]", sortNames[st], lim, src2)
			if err != nil {
				return fail("%s: query error: %v", lw, err)
			}
			eff := lim
			if eff == 0 {
				eff = 200 // "If unspecified, a default (of 200) will be used."
			}
			want := len(full)
			if eff > 0 && eff < want {
				want = eff
			}
			if st == search.MapSort {
				// "MapSort requests that any limited search results are optimized for rendering
				// on a map. If there are fewer matches than the requested limit, no results are
				// pruned." Which results survive pruning is not specified; Limit is "the maximum
				// number of returned results".
				if len(full) <= want && len(got) != len(full) {
					return fail("%s: %d results, but the %d matches fit the limit and none may be pruned", lw, len(got), len(full))
				}
				if len(got) > want {
					return fail("%s: %d results exceed the limit (unlimited result has %d)", lw, len(got), len(full))
				}
			} else if len(got) != want {
				return fail("%s: %d results, want %d (unlimited result has %d)\n  got: %v", lw, len(got), want, len(full), got)
			}
			if d := dupOf(got); d != "" {
				return fail("%s: duplicate result %s", lw, d)
			}
			for _, rs := range got {
				if !fs[rs] {
					return fail("%s: returns %v which the unlimited query does not", lw, r.describe([]string{rs}))
				}
			}
			if exactOrderSort(st, permOnly) {
				for i := range got {
					if got[i] != full[i] {
						return fail("%s: position %d is %s, the unlimited ordered list has %s there\n  limited: %v\n  unlimited: %v", lw, i, got[i], full[i], got, full)
					}
				}
			} else if hasOrder(st, permOnly) {
				if v := r.checkOrder(st, permOnly, got); v != "" {
					return fail("%s: %s", lw, v)
				}
				for i := range got {
					kg, _ := r.key(st, permOnly, got[i])
					kf, _ := r.key(st, permOnly, full[i])
					if !kg.Equal(kf) {
						return fail("%s: position %d has key %s, the first %d of the ordered full list has %s there", lw, i, kg, want, kf)
					}
				}
			}
		}
	}
	return ""
}

func TestSearchMatchesReference(t *testing.T) {
	cfg := vw.QuickConfig
	perWorld := 25
	if evid.Thorough() {
		cfg = vw.ThoroughConfig
		perWorld = 40
	}
	evid.Check(t, 500, 1600, func(t *rapid.T) {
		w := vw.Gen(t, cfg)
		ix, err := w.Build()
		if err != nil {
			t.Fatalf("harness: building the index failed: %v", err)
		}
		evid.R.Label("world/built")
		r := &runner{t: t, w: w, ix: ix, ev: &vw.Evaluator{W: w}, wh: w.Hash()}
		g := newCgen(t, w)
		nq := rapid.IntRange(1, perWorld).Draw(t, "nQueries")
		for i := 0; i < nq; i++ {
			c, shape := g.top()
			evid.R.Label("shape/" + shape)
			fs := map[string]bool{}
			features(c, fs)
			for f := range fs {
				evid.R.Label("feature/" + f)
			}
			limitPick := func(n int, label string) []int {
				all := []int{0, 1, 2, 3, n, n + 1}
				a := rapid.IntRange(0, len(all)-1).Draw(t, "limA/"+label)
				b := rapid.IntRange(0, len(all)-1).Draw(t, "limB/"+label)
				out := []int{all[a]}
				if all[b] != all[a] {
					out = append(out, all[b])
				}
				return out
			}
			v := r.checkConstraint(c, shape, limitPick)
			if evid.R.WantSample(true) && countLogical(c) >= 2 {
				evid.R.Sample(true, map[string]any{"world": w.Describe(), "constraint": json.RawMessage(mustJSON(c)), "shape": shape})
			}
			if v != "" {
				wd, _ := json.Marshal(w.Describe())
				t.Fatalf("%s\n  world: %s", v, wd)
			}
		}
		// targeted: visibility as of the exact instant of a visibility claim (the claim dated T counts at T)
		for i, d := range g.visDates {
			if i >= 3 {
				break
			}
			c := &search.Constraint{Permanode: &search.PermanodeConstraint{SkipHidden: true, At: d}}
			evid.R.Label("shape/targeted:skipHidden-at-visibility-claim-instant")
			if v := r.checkConstraint(c, "targeted-skipHidden-at", func(n int, label string) []int { return []int{0} }); v != "" {
				wd, _ := json.Marshal(w.Describe())
				t.Fatalf("%s\n  world: %s", v, wd)
			}
		}
		evid.R.LabelN("reference/unspecified:relation-all-empty", r.ev.Stats.URelAllEmpty)
		evid.R.LabelN("reference/unspecified:time-without-content-time", r.ev.Stats.UTimeGuess)
		evid.R.LabelN("reference/unspecified:relation-all-dangling-edge", r.ev.Stats.URelAllDangling)
	})
}

func mustJSON(v any) []byte {
	b, err := json.Marshal(v)
	if err != nil {
		return []byte(`"unmarshalable"`)
	}
	return b
}

var _ = blob.Ref{}
