package c08

import (
	"testing"

	"perkeep.org/pkg/search"

	"verifharness/internal/evid"
	vw "verifharness/internal/vsearchworld"
)

// Regression (found by reading, reported by an independent reviewer, then reproduced here): a valueInSet
// sub-constraint that itself has an attribute test re-used the search's scratch slice while the outer loop
// was still ranging over it, so the outer permanode's remaining values were overwritten by the inner
// permanode's values: set S = {A, B}, A has two tags, only B is tagged "wanted" -> S was not returned.
func TestRegressValueInSetScratchAlias(t *testing.T) {
	if evid.Replaying() {
		t.Skip()
	}
	w := vw.New()
	s, a, b := w.AddPermanode("set"), w.AddPermanode("a"), w.AddPermanode("b")
	w.AddClaim(a, day(0), "add-attribute", "tag", "one")
	w.AddClaim(a, day(1), "add-attribute", "tag", "two")
	w.AddClaim(b, day(2), "add-attribute", "tag", "wanted")
	// members in an order that evaluates A first whatever the value order is: also try the reverse set
	w.AddClaim(s, day(3), "add-attribute", "camliMember", a.RefS)
	w.AddClaim(s, day(4), "add-attribute", "camliMember", b.RefS)
	s2 := w.AddPermanode("set2")
	w.AddClaim(s2, day(5), "add-attribute", "camliMember", b.RefS)
	w.AddClaim(s2, day(6), "add-attribute", "camliMember", a.RefS)
	ix, err := w.Build()
	if err != nil {
		t.Fatal(err)
	}
	c := &search.Constraint{Permanode: &search.PermanodeConstraint{
		Attr:       "camliMember",
		ValueInSet: &search.Constraint{Permanode: &search.PermanodeConstraint{Attr: "tag", Value: "wanted"}},
	}}
	for _, st := range []search.SortType{search.Unsorted, search.BlobRefAsc, search.CreatedDesc} {
		wantSet(t, "member valueInSet tag=wanted sort="+sortNames[st], runQ(t, ix, c, st), s.RefS, s2.RefS)
	}
}
