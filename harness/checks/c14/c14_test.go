// C14 — concurrent clients see linearizable, race-free stores (built with -race).
package c14

import (
	"bytes"
	"context"
	"errors"
	"fmt"
	"io"
	"os"
	"runtime"
	"sort"
	"strings"
	"sync"
	"sync/atomic"
	"testing"
	"time"

	"github.com/anishathalye/porcupine"
	"perkeep.org/pkg/blob"
	"perkeep.org/pkg/blobserver"
	"pgregory.net/rapid"

	"verifharness/internal/evid"
	"verifharness/internal/known"
	"verifharness/internal/vcompose"
	"verifharness/internal/vgen"
	"verifharness/internal/vmodel"
	"verifharness/internal/vstore"
	"verifharness/internal/vwatch"
)

const prop = "C14"

func TestMain(m *testing.M) {
	evid.QuietStderr()
	vmodel.CallTimeout = 15 * time.Minute // the vwatch watchdog (with its parked-goroutine analysis) fires first
	vcompose.LeafTypes = []string{"verif", "verif", "memory", "localdisk", "diskpacked"}
	evid.Main(m, prop, "exploration",
		"concurrent programs of 2-16 clients x 3-12 operations (receive, fetch, single and batched stat, enumerate with cursor/limit, batched remove) over 3-6 shared blobs, run against generated backend trees (memory, localdisk, diskpacked with tiny maxFileSize, blobpacked, proxycache, encrypt, replica, shard, cond, namespace, overlay) whose harness leaves yield or sleep 0-200us at every lower-layer boundary according to a drawn seed; "+
			"every call's invoke/return is timestamped with a logical clock; multi-ref calls are decomposed into per-ref observations sharing the call's interval; each per-ref history (plus a final fetch after joining all clients) is checked for linearizability against a present/absent register with porcupine; wrong bytes/sizes, duplicate or unordered enumeration entries fail immediately; the binary is built with -race, any race report fails the run. "+
			"non-trivial = at least two clients' operations on the same ref overlap in time and at least one of them is a mutation; distinct = FNV-64 of (configuration, program)")
}

var ctx = context.Background()

type opDef struct {
	Kind   string `json:"kind"`
	Idx    []int  `json:"idx,omitempty"`
	Cursor string `json:"cursor,omitempty"`
	Limit  int    `json:"limit,omitempty"`
}

func (o opDef) String() string {
	if o.Kind == "enumerate" {
		return fmt.Sprintf("enumerate(%q,%d)", o.Cursor, o.Limit)
	}
	return fmt.Sprintf("%s%v", o.Kind, o.Idx)
}

// observation of one ref by one call
type obs struct {
	ref     int
	client  int
	kind    string // "receive" "remove" "read"
	present bool   // for reads
	call    int64
	ret     int64
	what    string
}

type regInput struct {
	kind string
}
type regOutput struct {
	present bool
}

var registerModel = porcupine.Model{
	Init: func() interface{} { return false },
	Step: func(state, input, output interface{}) (bool, interface{}) {
		st := state.(bool)
		in := input.(regInput)
		switch in.kind {
		case "receive":
			return true, true
		case "remove":
			return true, false
		default:
			return output.(regOutput).present == st, st
		}
	},
	Equal: func(a, b interface{}) bool { return a.(bool) == b.(bool) },
	DescribeOperation: func(input, output interface{}) string {
		in := input.(regInput)
		if in.kind == "read" {
			return fmt.Sprintf("read->present=%v", output.(regOutput).present)
		}
		return in.kind
	},
}

type program struct {
	Clients [][]opDef
}

func genProgram(t *rapid.T, pool []vgen.Blob, caps vcompose.Caps) program {
	nc := rapid.IntRange(2, evid.Pick(8, 16)).Draw(t, "clients")
	var p program
	for c := 0; c < nc; c++ {
		n := rapid.IntRange(3, evid.Pick(8, 12)).Draw(t, "nOps")
		var ops []opDef
		for i := 0; i < n; i++ {
			kinds := []string{"receive", "receive", "fetch", "fetch", "stat", "enumerate", "longpoll"}
			if caps.Remove {
				kinds = append(kinds, "remove", "remove")
			}
			k := rapid.SampledFrom(kinds).Draw(t, "op")
			o := opDef{Kind: k}
			switch k {
			case "receive", "fetch", "longpoll":
				o.Idx = []int{rapid.IntRange(0, len(pool)-1).Draw(t, "blob")}
			case "stat":
				o.Idx = rapid.SliceOfNDistinct(rapid.IntRange(0, len(pool)-1), 1, len(pool), rapid.ID[int]).Draw(t, "statIdx")
			case "remove":
				o.Idx = rapid.SliceOfNDistinct(rapid.IntRange(0, len(pool)-1), 1, 2, rapid.ID[int]).Draw(t, "rmIdx")
			case "enumerate":
				o.Cursor = vgen.GenCursor(t, pool)
				o.Limit = rapid.SampledFrom([]int{1, 2, 1000}).Draw(t, "limit")
			}
			ops = append(ops, o)
		}
		p.Clients = append(p.Clients, ops)
	}
	return p
}

type hardItem struct {
	class string // "zeroed-read", "recv-enoent", "other"
	ref   int
}

type caseResult struct {
	vioRef     int        // index of the blob the violation is about (-1 unknown)
	items      []hardItem // set when EVERY immediate violation was classified
	violation  string
	inconcl    string
	overlapMut bool
	// the per-ref history is linearizable once the reads that overlap a RemoveBlobs of that ref are left out
	onlyReadsDuringRemove bool
	history               []string
}

func runProgram(tree *vcompose.Node, pool []vgen.Blob, prog program, yieldSeed uint64) (res caseResult) {
	res.vioRef = -1
	dir, err := os.MkdirTemp("", "verif-c14-")
	if err != nil {
		res.inconcl = err.Error()
		return
	}
	defer os.RemoveAll(dir)
	env := vstore.NewEnv()
	var ycount atomic.Uint64
	env.YieldHook = func(e *vstore.Event) {
		x := (yieldSeed + ycount.Add(1)) * 0x9E3779B97F4A7C15
		x ^= x >> 29
		switch x % 8 {
		case 0, 1, 2:
			runtime.Gosched()
		case 3:
			time.Sleep(time.Duration(x>>8%200) * time.Microsecond)
		}
	}
	b, err := vcompose.Build(env, dir, tree)
	if err != nil {
		res.inconcl = fmt.Sprintf("harness: build %s: %v", tree, err)
		return
	}
	defer b.Release()
	sto := b.Root
	sorted := make([]string, len(pool))
	for i, pb := range pool {
		sorted[i] = pb.Ref.String()
	}
	sort.Strings(sorted)
	refIndex := map[blob.Ref]int{}
	for i, pb := range pool {
		refIndex[pb.Ref] = i
	}

	var clock atomic.Int64
	var mu sync.Mutex
	var all []obs
	var hist []string
	var hard []string    // immediate (non-linearizability) violations
	var items []hardItem // classified immediate violations (those not classified make len(hard) > len(items))
	record := func(o ...obs) {
		mu.Lock()
		all = append(all, o...)
		mu.Unlock()
	}
	hardf := func(f string, a ...any) {
		mu.Lock()
		hard = append(hard, fmt.Sprintf(f, a...))
		mu.Unlock()
	}
	logf := func(f string, a ...any) {
		mu.Lock()
		hist = append(hist, fmt.Sprintf(f, a...))
		mu.Unlock()
	}

	doOp := func(client int, o opDef) {
		call := clock.Add(1)
		switch o.Kind {
		case "receive":
			pb := pool[o.Idx[0]]
			sb, err := blobserver.Receive(ctx, sto, pb.Ref, bytes.NewReader(pb.Data))
			ret := clock.Add(1)
			logf("[%d..%d] c%d receive %d -> %v %v", call, ret, client, o.Idx[0], sb.Size, err)
			if err != nil {
				enoent := strings.Contains(err.Error(), "lstat ") && errors.Is(err, os.ErrNotExist)
				mu.Lock()
				if enoent {
					items = append(items, hardItem{"recv-enoent", o.Idx[0]})
				} else {
					items = append(items, hardItem{"other", o.Idx[0]})
				}
				mu.Unlock()
				hardf("client %d: receive of %s failed without any injected fault: %v", client, pb, err)
				return
			}
			if sb.Ref != pb.Ref || int(sb.Size) != len(pb.Data) {
				hardf("client %d: receive of %s returned %v", client, pb, sb)
			}
			record(obs{ref: o.Idx[0], client: client, kind: "receive", call: call, ret: ret, what: "receive"})
		case "longpoll":
			// what a stat or enumerate with maxwaitsec does on this store: register with its blob hub for
			// a blob, wait (here: 300us at most) and unregister, while other clients' receives notify the hub.
			// It observes nothing about the blob; under the race detector it is there for the hub itself.
			blobserver.WaitForBlob(sto, time.Now().Add(300*time.Microsecond), []blob.Ref{pool[o.Idx[0]].Ref})
			ret := clock.Add(1)
			logf("[%d..%d] c%d long-poll for %d", call, ret, client, o.Idx[0])
		case "remove":
			var refs []blob.Ref
			for _, ix := range o.Idx {
				refs = append(refs, pool[ix].Ref)
			}
			err := sto.RemoveBlobs(ctx, refs)
			ret := clock.Add(1)
			logf("[%d..%d] c%d remove %v -> %v", call, ret, client, o.Idx, err)
			if err != nil {
				hardf("client %d: RemoveBlobs(%v) failed without any injected fault: %v", client, o.Idx, err)
				return
			}
			for _, ix := range o.Idx {
				record(obs{ref: ix, client: client, kind: "remove", call: call, ret: ret, what: "remove"})
			}
		case "fetch":
			pb := pool[o.Idx[0]]
			rc, size, err := sto.Fetch(ctx, pb.Ref)
			var data []byte
			var rerr error
			if err == nil {
				data, rerr = io.ReadAll(rc)
				rc.Close()
			}
			ret := clock.Add(1)
			logf("[%d..%d] c%d fetch %d -> %d bytes err=%v", call, ret, client, o.Idx[0], len(data), err)
			switch {
			case err == nil:
				if rerr != nil {
					hardf("client %d: reading fetched %s: %v", client, pb, rerr)
					return
				}
				if !bytes.Equal(data, pb.Data) || int(size) != len(pb.Data) {
					// right length, and every byte is either the blob's byte or zero (erasure in progress / done)
					zeroed := len(data) == len(pb.Data)
					for i := 0; zeroed && i < len(data); i++ {
						if data[i] != pb.Data[i] && data[i] != 0 {
							zeroed = false
						}
					}
					mu.Lock()
					if zeroed {
						items = append(items, hardItem{"zeroed-read", o.Idx[0]})
					} else {
						items = append(items, hardItem{"other", o.Idx[0]})
					}
					mu.Unlock()
					hardf("client %d: Fetch(%s) returned %d bytes (size %d, every differing byte is zero: %v), not the blob's %d bytes", client, pb, len(data), size, zeroed, len(pb.Data))
					return
				}
				record(obs{ref: o.Idx[0], client: client, kind: "read", present: true, call: call, ret: ret, what: "fetch"})
			case vmodel.IsNotExist(err):
				record(obs{ref: o.Idx[0], client: client, kind: "read", present: false, call: call, ret: ret, what: "fetch"})
			default:
				hardf("client %d: Fetch(%s) failed without any injected fault: %v", client, pb, err)
			}
		case "stat":
			var refs []blob.Ref
			for _, ix := range o.Idx {
				refs = append(refs, pool[ix].Ref)
			}
			got := map[blob.Ref]uint32{}
			var gmu sync.Mutex
			dup := false
			err := sto.StatBlobs(ctx, refs, func(sb blob.SizedRef) error {
				gmu.Lock()
				if _, ok := got[sb.Ref]; ok {
					dup = true
				}
				got[sb.Ref] = sb.Size
				gmu.Unlock()
				return nil
			})
			ret := clock.Add(1)
			logf("[%d..%d] c%d stat %v -> %d found err=%v", call, ret, client, o.Idx, len(got), err)
			if err != nil {
				hardf("client %d: StatBlobs(%v) failed without any injected fault: %v", client, o.Idx, err)
				return
			}
			if dup {
				hardf("client %d: StatBlobs(%v) called back twice for one ref", client, o.Idx)
			}
			for _, ix := range o.Idx {
				sz, ok := got[pool[ix].Ref]
				if ok && int(sz) != len(pool[ix].Data) {
					hardf("client %d: StatBlobs reported size %d for %s", client, sz, pool[ix])
				}
				record(obs{ref: ix, client: client, kind: "read", present: ok, call: call, ret: ret, what: "stat"})
			}
		case "enumerate":
			got, err := vmodel.Enumerate(ctx, sto, o.Cursor, o.Limit)
			ret := clock.Add(1)
			logf("[%d..%d] c%d enumerate(%q,%d) -> %d refs err=%v", call, ret, client, o.Cursor, o.Limit, len(got), err)
			if err != nil {
				if err == vmodel.ErrTimeout {
					hardf("HANG: client %d: EnumerateBlobs(%q,%d) did not complete within the watchdog", client, o.Cursor, o.Limit)
				} else {
					hardf("client %d: EnumerateBlobs(%q,%d) failed without any injected fault: %v", client, o.Cursor, o.Limit, err)
				}
				return
			}
			if len(got) > o.Limit {
				hardf("client %d: EnumerateBlobs(%q,%d) sent %d blobs", client, o.Cursor, o.Limit, len(got))
			}
			seen := map[int]bool{}
			last := o.Cursor
			for i, sb := range got {
				s := sb.Ref.String()
				if !(s > last) {
					hardf("client %d: EnumerateBlobs(%q,%d): entry %d %s is not strictly after %q (order/duplicate/cursor)", client, o.Cursor, o.Limit, i, s, last)
				}
				last = s
				ix, ok := refIndex[sb.Ref]
				if !ok {
					hardf("client %d: EnumerateBlobs sent a blob nobody stored: %s", client, s)
					continue
				}
				if int(sb.Size) != len(pool[ix].Data) {
					hardf("client %d: EnumerateBlobs reported size %d for %s", client, sb.Size, pool[ix])
				}
				seen[ix] = true
			}
			// the observed window: (cursor, last returned] if the limit was hit, else (cursor, +inf)
			hi := ""
			if len(got) == o.Limit && len(got) > 0 {
				hi = got[len(got)-1].Ref.String()
			}
			for ix, pb := range pool {
				s := pb.Ref.String()
				if s <= o.Cursor {
					continue
				}
				if hi != "" && s > hi {
					continue
				}
				if len(got) == o.Limit && len(got) == 0 {
					continue
				}
				record(obs{ref: ix, client: client, kind: "read", present: seen[ix], call: call, ret: ret, what: "enumerate"})
			}
		}
	}

	wr := vwatch.Run(func() {
		var wg sync.WaitGroup
		for c, ops := range prog.Clients {
			wg.Add(1)
			go func(c int, ops []opDef) {
				defer wg.Done()
				for _, o := range ops {
					doOp(c, o)
				}
			}(c, ops)
		}
		wg.Wait()
	})
	if wr.TimedOut {
		if wr.Parked {
			res.violation = wr.Describe("the concurrent program (deadlock)")
		} else {
			res.inconcl = wr.Describe("the concurrent program")
		}
		return
	}
	env.YieldHook = nil
	// final observation of every ref, after all clients joined
	final := vmodel.New()
	for ix, pb := range pool {
		doOp(len(prog.Clients), opDef{Kind: "fetch", Idx: []int{ix}})
		final.Know(pb.Ref, pb.Data)
		final.SetMaybe(pb.Ref, pb.Data)
	}
	sort.Strings(hist)
	res.history = hist
	if len(hard) > 0 {
		res.violation = strings.Join(hard, "\n")
		if len(items) == len(hard) {
			res.items = items
		}
		return
	}
	// the quiescent store must be self-consistent (fetch, stat, enumerate, paging agree)
	if err := final.Battery(ctx, sto, nil, 2); err != nil {
		res.violation = fmt.Sprintf("after joining all clients the store is not a consistent map: %v", err)
		var mm *vmodel.Mismatch
		if errors.As(err, &mm) {
			for ix, pb := range pool {
				if pb.Ref.String() == mm.Ref {
					res.vioRef = ix
				}
			}
		}
		return
	}
	// per-ref linearizability
	byRef := map[int][]obs{}
	for _, o := range all {
		byRef[o.ref] = append(byRef[o.ref], o)
	}
	for ix, list := range byRef {
		var ops []porcupine.Operation
		for _, o := range list {
			ops = append(ops, porcupine.Operation{ClientId: o.client, Input: regInput{o.kind}, Output: regOutput{o.present}, Call: o.call, Return: o.ret})
		}
		// overlap with a mutation?
		for i := range list {
			for j := range list {
				if i != j && list[i].client != list[j].client && list[i].kind != "read" && list[i].call <= list[j].ret && list[j].call <= list[i].ret {
					res.overlapMut = true
				}
			}
		}
		r := porcupine.CheckOperationsTimeout(registerModel, ops, 20*time.Second)
		if r == porcupine.Illegal {
			var lines []string
			sort.Slice(list, func(a, b int) bool { return list[a].call < list[b].call })
			for _, o := range list {
				lines = append(lines, fmt.Sprintf("[%d..%d] client %d %s(%s) present=%v", o.call, o.ret, o.client, o.kind, o.what, o.present))
			}
			res.vioRef = ix
			res.violation = fmt.Sprintf("history of blob #%d (%s) is not linearizable against a present/absent register:\n  %s", ix, pool[ix].Ref, strings.Join(lines, "\n  "))
			// is the contradiction confined to reads made WHILE a RemoveBlobs of this ref was running?
			var relaxed []porcupine.Operation
			for _, o := range list {
				during := false
				if o.kind == "read" {
					for _, m := range list {
						if m.kind == "remove" && m.call <= o.ret && o.call <= m.ret {
							during = true
						}
					}
				}
				if !during {
					relaxed = append(relaxed, porcupine.Operation{ClientId: o.client, Input: regInput{o.kind}, Output: regOutput{o.present}, Call: o.call, Return: o.ret})
				}
			}
			res.onlyReadsDuringRemove = len(relaxed) < len(list) && porcupine.CheckOperationsTimeout(registerModel, relaxed, 20*time.Second) == porcupine.Ok
			return
		}
	}
	return
}

// knownSig: proxycache keeps a blob in its cache and in its origin and updates the two without a
// common lock; a receive and a remove of the SAME ref by different clients can leave the blob in one of
// them only, after which fetch/stat (cache first) and enumerate (origin only) disagree for good.
// Signature: the tree contains a proxycache, the violation is about one ref, and the program has a
// remove of that ref by one client and a receive or a fetch (which re-populates the cache on a miss) of
// it by a different client.
func knownSig(tree *vcompose.Node, prog program, res caseResult) string {
	has := false
	for _, ty := range tree.Types() {
		if ty == "proxycache" {
			has = true
		}
	}
	if !has || res.vioRef < 0 || len(res.items) > 0 {
		return ""
	}
	// a remove of the ref by one client, and a receive OR a fetch of it (a fetch miss re-populates the
	// cache from the origin) by a different client
	touchBy, rmBy := map[int]bool{}, map[int]bool{}
	for c, ops := range prog.Clients {
		for _, o := range ops {
			for _, ix := range o.Idx {
				if ix == res.vioRef && (o.Kind == "receive" || o.Kind == "fetch") {
					touchBy[c] = true
				}
				if ix == res.vioRef && o.Kind == "remove" {
					rmBy[c] = true
				}
			}
		}
	}
	for c := range touchBy {
		for d := range rmBy {
			if c != d {
				return "C14-proxycache-receive-remove-divergence"
			}
		}
	}
	return ""
}

// removeTwoStepSig: proxycache removes a blob from its origin and from its cache one after the other;
// while that RemoveBlobs runs, readers that go to the origin (enumerate) already miss the blob while
// readers that look into the cache first (stat, fetch) still find it, in either order.
// Signature: the tree contains a proxycache, the quiescent store is consistent, and the history of the
// one violating ref is linearizable as soon as the reads that overlap a RemoveBlobs of that ref are left
// out (every other contradiction is still reported).
func removeTwoStepSig(tree *vcompose.Node, res caseResult) string {
	if !res.onlyReadsDuringRemove || res.vioRef < 0 || len(res.items) > 0 {
		return ""
	}
	for _, ty := range tree.Types() {
		if ty == "proxycache" {
			return "C14-proxycache-remove-visible-in-two-steps"
		}
	}
	return ""
}

// itemsKnown: every immediate violation of the case is an instance of an OPEN finding:
//
//	zeroed-read  (C14-diskpacked-fetch-during-remove-zeroes): diskpacked erases removed blobs in place while a
//	             concurrent Fetch already holds a reader over the region; the Fetch yields the right number of ZERO
//	             bytes. Needs: tree contains diskpacked, and the program removes that ref.
//	recv-enoent  (C14-files-receive-lstat-after-concurrent-remove): files.ReceiveBlob re-stats the file after the
//	             rename; a concurrent remove of the same ref makes the receive report ENOENT. Needs: tree contains
//	             localdisk, and the program removes that ref.
func itemsKnown(tree *vcompose.Node, prog program, res caseResult) bool {
	if len(res.items) == 0 {
		return false
	}
	types := map[string]bool{}
	for _, ty := range tree.Types() {
		types[ty] = true
	}
	removed := map[int]bool{}
	for _, ops := range prog.Clients {
		for _, o := range ops {
			if o.Kind == "remove" {
				for _, ix := range o.Idx {
					removed[ix] = true
				}
			}
		}
	}
	for _, it := range res.items {
		switch {
		case it.class == "zeroed-read" && types["diskpacked"] && removed[it.ref] && known.Open(prop, "C14-diskpacked-fetch-during-remove-zeroes"):
		case it.class == "recv-enoent" && types["localdisk"] && removed[it.ref] && known.Open(prop, "C14-files-receive-lstat-after-concurrent-remove"):
		default:
			return false
		}
	}
	for _, it := range res.items {
		if it.class == "zeroed-read" {
			known.Hit(prop, "C14-diskpacked-fetch-during-remove-zeroes", tree.String())
		} else {
			known.Hit(prop, "C14-files-receive-lstat-after-concurrent-remove", tree.String())
		}
	}
	return true
}

// replicaSig: replica (and cond, whose read/remove path is a replica over both branches) stores a blob on
// its replicas one after the other without excluding a concurrent RemoveBlobs: the blob is visible from
// the first replica while the receive is still running, a remove issued then clears only the replicas
// that already have it, and the blob reappears when the receive finishes on the remaining replica.
// Signature: tree contains replica or cond, the violation concerns one ref, and the program has a receive
// and a remove of that ref by different clients.
func replicaSig(tree *vcompose.Node, prog program, res caseResult) string {
	has, hasOverlay := false, false
	for _, ty := range tree.Types() {
		if ty == "replica" || ty == "cond" {
			has = true
		}
		if ty == "overlay" {
			hasOverlay = true
		}
	}
	if !(has || hasOverlay) || res.vioRef < 0 || len(res.items) > 0 {
		return ""
	}
	id := "C14-replica-receive-remove-divergence"
	if !has {
		// overlay.RemoveBlobs removes from the upper store first and records the "deleted" marks in a
		// second step; a ReceiveBlob of the same ref that completes in between (clearing the mark) is
		// then hidden by the late mark although it was acknowledged after the blob had been observed absent.
		id = "C14-overlay-receive-remove-divergence"
	}
	recvBy, rmBy := map[int]bool{}, map[int]bool{}
	for c, ops := range prog.Clients {
		for _, o := range ops {
			for _, ix := range o.Idx {
				if ix == res.vioRef && o.Kind == "receive" {
					recvBy[c] = true
				}
				if ix == res.vioRef && o.Kind == "remove" {
					rmBy[c] = true
				}
			}
		}
	}
	for c := range recvBy {
		for d := range rmBy {
			if c != d {
				return id
			}
		}
	}
	return ""
}

func TestConcurrentClients(t *testing.T) {
	evid.Check(t, 1500, 4000, func(t *rapid.T) {
		root := ""
		if rapid.IntRange(0, 9).Draw(t, "forceRoot") < 7 {
			root = rapid.SampledFrom([]string{"memory", "localdisk", "diskpacked", "blobpacked", "encrypt", "replica", "shard", "cond", "namespace", "proxycache", "overlay", "http"}).Draw(t, "root")
			if v := os.Getenv("VERIF_C14_ROOT"); v != "" {
				root = v
			}
		}
		tree := vcompose.GenTree(t, 2, root)
		for tree.Type == "union" {
			tree = vcompose.GenTree(t, 2, "shard")
		}
		if tree.Type == "http" {
			// behind the protocol the error texts and the partial effects by which the five open findings of
			// this property are recognised (see knownSig) are not visible: the HTTP composition is only put in
			// front of backends none of them concerns
			for _, typ := range tree.Kids[0].Types() {
				switch typ {
				case "localdisk", "diskpacked", "proxycache", "replica", "cond", "overlay":
					tree.Kids[0] = &vcompose.Node{Type: rapid.SampledFrom([]string{"verif", "memory"}).Draw(t, "httpKid")}
				}
			}
		}
		if tree.Type == "diskpacked" || rapid.Bool().Draw(t, "tinyPacks") {
			forceTiny(tree)
		}
		pool := vgen.GenPool(t, 3, 6, false)
		caps := capsOf(tree)
		prog := genProgram(t, pool, caps)
		seed := rapid.Uint64().Draw(t, "yieldSeed")
		res := runProgram(tree, pool, prog, seed)
		evid.R.Eval()
		evid.R.Label("root/" + tree.Type)
		evid.R.Label(fmt.Sprintf("clients/%d", len(prog.Clients)))
		if res.inconcl != "" {
			t.Fatalf("VERIF-INCONCLUSIVE: %s", res.inconcl)
		}
		if res.violation != "" {
			if itemsKnown(tree, prog, res) {
				t.Skip("known finding")
			}
			if id := knownSig(tree, prog, res); id != "" && known.Hit(prop, id, tree.String()) {
				t.Skip("known finding")
			}
			if id := replicaSig(tree, prog, res); id != "" && known.Hit(prop, id, tree.String()) {
				t.Skip("known finding")
			}
			if id := removeTwoStepSig(tree, res); id != "" && known.Hit(prop, id, tree.String()) {
				t.Skip("known finding")
			}
			writeCase(tree, pool, prog, res)
			t.Fatalf("C14 violated: %s\nconfiguration: %s\npool: %v\nhistory:\n  %s", res.violation, tree, pool, strings.Join(res.history, "\n  "))
		}
		if res.overlapMut {
			evid.R.NonTrivial(evid.Hash(tree.String(), fmt.Sprint(prog), seed))
		}
		if evid.R.WantSample(res.overlapMut) {
			evid.R.Sample(res.overlapMut, map[string]any{"configuration": tree.String(), "program": fmt.Sprint(prog.Clients), "yieldSeed": seed, "history_head": head(res.history, 25)})
		}
	})
}

func head(s []string, n int) []string {
	if len(s) > n {
		return s[:n]
	}
	return s
}

func forceTiny(n *vcompose.Node) {
	if n.Type == "diskpacked" {
		n.Int = 200
	}
	for _, k := range n.Kids {
		forceTiny(k)
	}
}

func capsOf(tree *vcompose.Node) vcompose.Caps {
	env := vstore.NewEnv()
	dir, _ := os.MkdirTemp("", "verif-c14-caps-")
	defer os.RemoveAll(dir)
	b, err := vcompose.Build(env, dir, tree)
	if err != nil {
		return vcompose.Caps{Receive: true}
	}
	defer b.Release()
	return b.Caps
}

func writeCase(tree *vcompose.Node, pool []vgen.Blob, prog program, res caseResult) {
	root := os.Getenv("VERIF_ROOT")
	if root == "" || os.Getenv("VERIF_REPO") != "" {
		return
	}
	dir := root + "/replays/C14"
	os.MkdirAll(dir, 0o755)
	os.WriteFile(dir+"/last-violation.case.txt", []byte(fmt.Sprintf("configuration: %s\npool: %v\nprogram: %v\nviolation: %s\nhistory:\n%s\n", tree, pool, prog.Clients, res.violation, strings.Join(res.history, "\n"))), 0o644)
}
