package c14

import (
	"context"
	"encoding/json"
	"fmt"
	"go4.org/jsonconfig"
	"perkeep.org/pkg/blobserver"
	"sync"
	"sync/atomic"
	"testing"

	"perkeep.org/pkg/index"
	"perkeep.org/pkg/search"
	"perkeep.org/pkg/sorted"
	"pgregory.net/rapid"

	"verifharness/internal/evid"
	"verifharness/internal/vsign"
	"verifharness/internal/vwatch"
	"verifharness/internal/vworld"
)

// TestConcurrentIndexingWhileQueried: the index half of C14. Several goroutines feed a generated world
// to an index with an in-memory corpus while other goroutines run the corpus/index query battery and
// search queries. Under the race detector any unsynchronised access fails the run; after all arrivals the
// rows and every answer must equal those of a sequential, dependency-ordered delivery of the same world.
func TestConcurrentIndexingWhileQueried(t *testing.T) {
	evid.Check(t, 180, 400, func(t *rapid.T) {
		cfg := vworld.Config{MaxPermanodes: 3, MaxAttrClaims: 8, MaxDeletes: 3, MaxChain: 2, MaxFiles: 2, MaxDirs: 1, MaxOpaque: 2,
			TwoSigners: rapid.Bool().Draw(t, "twoSigners"), Attrs: vworld.DefaultAttrs, Values: vworld.DefaultValues, RefValues: true}
		w := vworld.Draw(t, cfg)
		arriving := w.Arriving()
		nw := rapid.IntRange(2, 4).Draw(t, "feeders")
		nr := rapid.IntRange(1, 3).Draw(t, "readers")
		// partition of the arrivals over the feeders, each feeder in a drawn order
		part := make([][]int, nw)
		perm := rapid.Permutation(arriving).Draw(t, "order")
		for _, i := range perm {
			k := rapid.IntRange(0, nw-1).Draw(t, "feeder")
			part[k] = append(part[k], i)
		}
		evid.R.Eval()
		evid.R.Label("index/concurrent-feed")

		// sequential reference
		ref, err := vworld.NewEnv(w, sorted.NewMemoryKeyValue(), nil)
		if err != nil {
			t.Fatalf("harness: %v", err)
		}
		ref.Ix.KeyFetcher = ref.Src
		rc, err := ref.Ix.KeepInMemory()
		if err != nil {
			t.Fatalf("harness: %v", err)
		}
		for _, i := range arriving {
			ref.Store(i)
		}
		for _, i := range arriving {
			if err := ref.Deliver(i); err != nil {
				t.Fatalf("harness: sequential delivery of #%d failed: %v", i, err)
			}
		}
		ref.Await()
		refRows, _ := vworld.Dump(ref.KV)
		refBat := vworld.Battery(w, ref.Ix, rc, vworld.BatteryOpts{})

		live, err := vworld.NewEnv(w, sorted.NewMemoryKeyValue(), nil)
		if err != nil {
			t.Fatalf("harness: %v", err)
		}
		live.Ix.KeyFetcher = live.Src
		lc, err := live.Ix.KeepInMemory()
		if err != nil {
			t.Fatalf("harness: %v", err)
		}
		for _, i := range arriving {
			live.Store(i)
		}
		h := search.NewHandler(live.Ix, index.NewOwner(vsign.Test().KeyID, vsign.Test().Ref))
		h.SetCorpus(lc)
		var stop atomic.Bool
		var feedErr atomic.Value
		var queries atomic.Int64
		wr := vwatch.Run(func() {
			var fw, rw sync.WaitGroup
			for k := 0; k < nw; k++ {
				fw.Add(1)
				go func(k int) {
					defer fw.Done()
					for _, i := range part[k] {
						if err := live.Deliver(i); err != nil {
							feedErr.Store(fmt.Sprintf("delivery of blob #%d failed: %v", i, err))
						}
					}
				}(k)
			}
			for r := 0; r < nr; r++ {
				rw.Add(1)
				go func(r int) {
					defer rw.Done()
					for !stop.Load() {
						if r%2 == 0 {
							vworld.Battery(w, live.Ix, lc, vworld.BatteryOpts{})
						} else {
							_, err := h.Query(context.Background(), &search.SearchQuery{
								Constraint: &search.Constraint{Permanode: &search.PermanodeConstraint{SkipHidden: false}},
								Describe:   &search.DescribeRequest{},
								Limit:      -1,
							})
							if err != nil {
								feedErr.Store(fmt.Sprintf("search query failed while indexing: %v", err))
							}
						}
						queries.Add(1)
					}
				}(r)
			}
			fw.Wait()
			live.Await()
			stop.Store(true)
			rw.Wait()
		})
		if wr.TimedOut {
			if wr.Parked {
				t.Fatalf("C14 violated: %s", wr.Describe("concurrent indexing with queries (deadlock)"))
			}
			t.Fatalf("%s", wr.Describe("concurrent indexing with queries"))
		}
		if e := feedErr.Load(); e != nil {
			t.Fatalf("C14 violated: %v\nworld: %v", e, w.Summary())
		}
		rows, _ := vworld.Dump(live.KV)
		if d := vworld.DiffRows(rows, refRows, "concurrent", "sequential"); d != "" {
			t.Fatalf("C14 violated: index rows after concurrent feeding (%d feeders, %d readers) differ from a sequential delivery:\n%s\nworld: %v", nw, nr, d, w.Summary())
		}
		bat := vworld.Battery(w, live.Ix, lc, vworld.BatteryOpts{})
		if d := vworld.DiffBattery(bat, refBat, "concurrent", "sequential"); d != "" {
			t.Fatalf("C14 violated: answers after concurrent feeding differ from a sequential delivery:\n%s\nworld: %v", d, w.Summary())
		}
		nt := len(arriving) >= 4
		if nt {
			evid.R.NonTrivial(evid.Hash("index", w.Hash(), fmt.Sprint(part), nr))
		}
		evid.R.LabelN("index/queries-run-during-feeding", int(queries.Load()))
		if evid.R.WantSample(false) {
			evid.R.Sample(false, map[string]any{"kind": "concurrent-indexing", "world": w.Summary(), "feeders": part, "readers": nr, "queries_during_feeding": queries.Load()})
		}
		live.Release()
		ref.Release()
	})
}

type idxLoader struct{ ix *index.Index }

func (l idxLoader) FindHandlerByType(string) (string, any, error) {
	return "", nil, blobserver.ErrHandlerTypeNotFound
}
func (l idxLoader) AllHandlers() (map[string]string, map[string]any) { return nil, nil }
func (l idxLoader) MyPrefix() string                                 { return "/my-search/" }
func (l idxLoader) BaseURL() string                                  { return "http://verif.invalid" }
func (l idxLoader) GetHandlerType(string) string                     { return "" }
func (l idxLoader) GetStorage(p string) (blobserver.Storage, error) {
	return nil, fmt.Errorf("no storage %q", p)
}
func (l idxLoader) GetHandler(p string) (any, error) {
	if p == "/index/" {
		return l.ix, nil
	}
	return nil, fmt.Errorf("no handler %q", p)
}

// describeAll asks h for every permanode with its description, as the web UI does, and returns a
// canonical text per blob.
func describeAll(h *search.Handler) (map[string]string, error) {
	res, err := h.Query(context.Background(), &search.SearchQuery{
		Constraint: &search.Constraint{Permanode: &search.PermanodeConstraint{}},
		Describe:   &search.DescribeRequest{Depth: 1},
		Limit:      -1,
	})
	if err != nil {
		return nil, err
	}
	out := map[string]string{}
	for _, b := range res.Blobs {
		out[b.Blob.String()] = ""
	}
	if res.Describe != nil {
		for ref, db := range res.Describe.Meta {
			j, _ := json.Marshal(db)
			out[ref] = string(j)
		}
	}
	return out, nil
}

// TestSearchHandlerStartsWhileBlobsArrive: the search handler is created from its configuration
// (slurpToMemory: it loads the in-memory corpus from the index rows) while other goroutines keep feeding
// blobs to the index. Afterwards the handler must answer like a handler freshly started over the final
// rows: a blob that arrived during the load must not be missing from the corpus for the rest of the
// process's life. Runs under the race detector.
func TestSearchHandlerStartsWhileBlobsArrive(t *testing.T) {
	evid.Check(t, 60, 300, func(t *rapid.T) {
		cfg := vworld.Config{MaxPermanodes: 3, MaxAttrClaims: 8, MaxDeletes: 2, MaxChain: 2, MaxFiles: 1, MaxDirs: 0, MaxOpaque: 1,
			Attrs: vworld.DefaultAttrs, Values: vworld.DefaultValues, RefValues: true}
		w := vworld.Draw(t, cfg)
		arriving := w.Arriving()
		if len(arriving) < 3 {
			t.Skip("world too small")
		}
		live, err := vworld.NewEnv(w, sorted.NewMemoryKeyValue(), nil)
		if err != nil {
			t.Fatalf("harness: %v", err)
		}
		defer live.Release()
		for _, i := range arriving {
			live.Store(i)
		}
		before := rapid.IntRange(0, len(arriving)-1).Draw(t, "deliveredBeforeTheHandlerStarts")
		for _, i := range arriving[:before] {
			if err := live.Deliver(i); err != nil {
				t.Fatalf("harness: delivery of #%d failed: %v", i, err)
			}
		}
		live.Await()
		rest := arriving[before:]
		var handler any
		var herr error
		var ferr atomic.Value
		wr := vwatch.Run(func() {
			var wg sync.WaitGroup
			wg.Add(2)
			go func() {
				defer wg.Done()
				handler, herr = blobserver.CreateHandler("search", idxLoader{live.Ix}, jsonconfig.Obj{
					"index": "/index/", "slurpToMemory": true,
					"owner": map[string]any{"identity": vsign.Test().KeyID, "secringFile": vsign.TestSecring},
				})
			}()
			go func() {
				defer wg.Done()
				for _, i := range rest {
					if err := live.Deliver(i); err != nil {
						ferr.Store(fmt.Sprintf("delivery of blob #%d failed: %v", i, err))
					}
				}
			}()
			wg.Wait()
			live.Await()
		})
		if wr.TimedOut {
			if wr.Parked {
				t.Fatalf("C14 violated: %s", wr.Describe("starting the search handler while blobs arrive (deadlock)"))
			}
			t.Fatalf("%s", wr.Describe("starting the search handler while blobs arrive"))
		}
		if herr != nil {
			t.Fatalf("harness: CreateHandler(search): %v", herr)
		}
		if e := ferr.Load(); e != nil {
			t.Fatalf("C14 violated: %v\nworld: %v", e, w.Summary())
		}
		got, err := describeAll(handler.(*search.Handler))
		if err != nil {
			t.Fatalf("C14 violated: query of the handler started during the arrivals failed: %v", err)
		}
		// a handler started now, over the same rows
		ix2, err := index.New(live.KV)
		if err != nil {
			t.Fatalf("harness: %v", err)
		}
		ix2.InitBlobSource(live.Src)
		c2, err := ix2.KeepInMemory()
		if err != nil {
			t.Fatalf("harness: %v", err)
		}
		h2 := search.NewHandler(ix2, index.NewOwner(vsign.Test().KeyID, vsign.Test().Ref))
		h2.SetCorpus(c2)
		want, err := describeAll(h2)
		if err != nil {
			t.Fatalf("harness: query of the fresh handler failed: %v", err)
		}
		evid.R.Eval()
		evid.R.Label("index/search-handler-started-during-arrivals")
		if len(rest) >= 2 {
			evid.R.NonTrivial(evid.Hash("startup", w.Hash(), before))
		}
		for ref, d := range want {
			if g, ok := got[ref]; !ok || g != d {
				t.Fatalf("C14 violated: the search handler that loaded its corpus while %d blobs were still arriving answers differently from a handler started afterwards over the same rows, about %s:\n  started during arrivals: %s (listed: %v)\n  started afterwards:      %s\nworld: %v", len(rest), ref, g, ok, d, w.Summary())
			}
		}
		for ref := range got {
			if _, ok := want[ref]; !ok {
				t.Fatalf("C14 violated: the search handler started during the arrivals lists %s, a handler started afterwards does not\nworld: %v", ref, w.Summary())
			}
		}
		if evid.R.WantSample(true) {
			evid.R.Sample(true, map[string]any{"kind": "search-handler-start-during-arrivals", "world": w.Summary(), "delivered_before": before, "delivered_during": len(rest)})
		}
	})
}
