package c14

import (
	"context"
	"fmt"
	"sync"
	"sync/atomic"
	"testing"

	"perkeep.org/pkg/index"
	"perkeep.org/pkg/search"
	"perkeep.org/pkg/sorted"
	"pgregory.net/rapid"

	"verifharness/internal/evid"
	"verifharness/internal/vsign"
	"verifharness/internal/vworld"
	"verifharness/internal/vwatch"
)

// TestConcurrentIndexingWhileQueried: the index half of C14. Several goroutines feed a generated world
// to an index with an in-memory corpus while other goroutines run the corpus/index query battery and
// search queries. Under the race detector any unsynchronised access fails the run; after all arrivals the
// rows and every answer must equal those of a sequential, dependency-ordered delivery of the same world.
func TestConcurrentIndexingWhileQueried(t *testing.T) {
	evid.Check(t, 180, 400, func(t *rapid.T) {
		cfg := vworld.Config{MaxPermanodes: 3, MaxAttrClaims: 8, MaxDeletes: 3, MaxChain: 2, MaxFiles: 2, MaxDirs: 1, MaxOpaque: 2,
			TwoSigners: rapid.Bool().Draw(t, "twoSigners"), Attrs: vworld.DefaultAttrs, Values: vworld.DefaultValues, RefValues: true}
		w := vworld.Draw(t, cfg)
		arriving := w.Arriving()
		nw := rapid.IntRange(2, 4).Draw(t, "feeders")
		nr := rapid.IntRange(1, 3).Draw(t, "readers")
		// partition of the arrivals over the feeders, each feeder in a drawn order
		part := make([][]int, nw)
		perm := rapid.Permutation(arriving).Draw(t, "order")
		for _, i := range perm {
			k := rapid.IntRange(0, nw-1).Draw(t, "feeder")
			part[k] = append(part[k], i)
		}
		evid.R.Eval()
		evid.R.Label("index/concurrent-feed")

		// sequential reference
		ref, err := vworld.NewEnv(w, sorted.NewMemoryKeyValue(), nil)
		if err != nil {
			t.Fatalf("harness: %v", err)
		}
		ref.Ix.KeyFetcher = ref.Src
		rc, err := ref.Ix.KeepInMemory()
		if err != nil {
			t.Fatalf("harness: %v", err)
		}
		for _, i := range arriving {
			ref.Store(i)
		}
		for _, i := range arriving {
			if err := ref.Deliver(i); err != nil {
				t.Fatalf("harness: sequential delivery of #%d failed: %v", i, err)
			}
		}
		ref.Await()
		refRows, _ := vworld.Dump(ref.KV)
		refBat := vworld.Battery(w, ref.Ix, rc, vworld.BatteryOpts{})

		live, err := vworld.NewEnv(w, sorted.NewMemoryKeyValue(), nil)
		if err != nil {
			t.Fatalf("harness: %v", err)
		}
		live.Ix.KeyFetcher = live.Src
		lc, err := live.Ix.KeepInMemory()
		if err != nil {
			t.Fatalf("harness: %v", err)
		}
		for _, i := range arriving {
			live.Store(i)
		}
		h := search.NewHandler(live.Ix, index.NewOwner(vsign.Test().KeyID, vsign.Test().Ref))
		h.SetCorpus(lc)
		var stop atomic.Bool
		var feedErr atomic.Value
		var queries atomic.Int64
		wr := vwatch.Run(func() {
			var fw, rw sync.WaitGroup
			for k := 0; k < nw; k++ {
				fw.Add(1)
				go func(k int) {
					defer fw.Done()
					for _, i := range part[k] {
						if err := live.Deliver(i); err != nil {
							feedErr.Store(fmt.Sprintf("delivery of blob #%d failed: %v", i, err))
						}
					}
				}(k)
			}
			for r := 0; r < nr; r++ {
				rw.Add(1)
				go func(r int) {
					defer rw.Done()
					for !stop.Load() {
						if r%2 == 0 {
							vworld.Battery(w, live.Ix, lc, vworld.BatteryOpts{})
						} else {
							_, err := h.Query(context.Background(), &search.SearchQuery{
								Constraint: &search.Constraint{Permanode: &search.PermanodeConstraint{SkipHidden: false}},
								Describe:   &search.DescribeRequest{},
								Limit:      -1,
							})
							if err != nil {
								feedErr.Store(fmt.Sprintf("search query failed while indexing: %v", err))
							}
						}
						queries.Add(1)
					}
				}(r)
			}
			fw.Wait()
			live.Await()
			stop.Store(true)
			rw.Wait()
		})
		if wr.TimedOut {
			if wr.Parked {
				t.Fatalf("C14 violated: %s", wr.Describe("concurrent indexing with queries (deadlock)"))
			}
			t.Fatalf("%s", wr.Describe("concurrent indexing with queries"))
		}
		if e := feedErr.Load(); e != nil {
			t.Fatalf("C14 violated: %v\nworld: %v", e, w.Summary())
		}
		rows, _ := vworld.Dump(live.KV)
		if d := vworld.DiffRows(rows, refRows, "concurrent", "sequential"); d != "" {
			t.Fatalf("C14 violated: index rows after concurrent feeding (%d feeders, %d readers) differ from a sequential delivery:\n%s\nworld: %v", nw, nr, d, w.Summary())
		}
		bat := vworld.Battery(w, live.Ix, lc, vworld.BatteryOpts{})
		if d := vworld.DiffBattery(bat, refBat, "concurrent", "sequential"); d != "" {
			t.Fatalf("C14 violated: answers after concurrent feeding differ from a sequential delivery:\n%s\nworld: %v", d, w.Summary())
		}
		nt := len(arriving) >= 4
		if nt {
			evid.R.NonTrivial(evid.Hash("index", w.Hash(), fmt.Sprint(part), nr))
		}
		evid.R.LabelN("index/queries-run-during-feeding", int(queries.Load()))
		if evid.R.WantSample(false) {
			evid.R.Sample(false, map[string]any{"kind": "concurrent-indexing", "world": w.Summary(), "feeders": part, "readers": nr, "queries_during_feeding": queries.Load()})
		}
		live.Release()
		ref.Release()
	})
}
