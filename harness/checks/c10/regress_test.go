package c10

// Plain (non-rapid) regression tests of the shrunk generated cases behind the
// two `fix:` commits in pkg/sorted/buffer, plus the empty-value probe.

import (
	"errors"
	"os"
	"path/filepath"
	"testing"
	"time"

	"go4.org/jsonconfig"
	"perkeep.org/pkg/sorted"
	"perkeep.org/pkg/sorted/buffer"

	"verifharness/internal/evid"
)

func tempStore(t *testing.T, typ, file string) (sorted.KeyValue, string) {
	t.Helper()
	dir, err := caseDir()
	if err != nil {
		t.Fatal(err)
	}
	t.Cleanup(func() { os.RemoveAll(dir) })
	kv, err := sorted.NewKeyValue(jsonconfig.Obj{"type": typ, "file": filepath.Join(dir, file)})
	if err != nil {
		t.Fatalf("NewKeyValue(%s): %v", typ, err)
	}
	return kv, dir
}

// Generated case (TestKVFile, buffer1(kv)): batch [set "aaaa"=""]; Find("","") drained
// -> panic "Next called after Next returned value" in kvfile's iterator, because
// buffer.iter.Next re-called Next on the exhausted backing iterator.
func TestRegressBufferScanOverEmptyKVFileRange(t *testing.T) {
	if evid.Replaying() {
		t.Skip()
	}
	back, _ := tempStore(t, "kv", "index.kv")
	b := buffer.New(sorted.NewMemoryKeyValue(), back, 1<<20)
	defer b.Close()
	bm := b.BeginBatch()
	bm.Set("aaaa", "")
	bm.Set("b", "2")
	if err := b.CommitBatch(bm); err != nil {
		t.Fatal(err)
	}
	var got []string
	func() {
		defer func() {
			if r := recover(); r != nil {
				t.Fatalf("C10 violated: scan of buffer(memory, kv) with an empty backing range panicked: %v", r)
			}
		}()
		it := b.Find("", "")
		for it.Next() {
			got = append(got, it.Key()+"="+it.Value())
		}
		if err := it.Close(); err != nil {
			t.Fatalf("Close: %v", err)
		}
	}()
	if len(got) != 2 || got[0] != "aaaa=" || got[1] != "b=2" {
		t.Fatalf("C10 violated: scan = %q, want [aaaa= b=2]", got)
	}
}

// Generated case (TestSqlite, buffer1(sqlite)): flush -> sqlkv's gate slot stays
// held, the next call on the store never returns.
func TestRegressBufferFlushEmptyOverSqlite(t *testing.T) {
	if evid.Replaying() {
		t.Skip()
	}
	back, _ := tempStore(t, "sqlite", "index.sqlite")
	in := &inst{spec: implSpec{base: "sqlite", buffered: true, maxBuf: 64}, back: back}
	in.wrap()
	defer in.destroy()
	if err := in.buf.Flush(); err != nil {
		t.Fatal(err)
	}
	if n := in.gateHeld(); n != 0 {
		t.Errorf("C10 violated: %d gate slot(s) held after Flush of an empty buffer over sqlite", n)
	}
	done := make(chan error, 1)
	go func() {
		_, err := in.buf.Get("x")
		done <- err
	}()
	select {
	case err := <-done:
		if !errors.Is(err, sorted.ErrNotFound) {
			t.Fatalf("C10 violated: Get after Flush = %v, want ErrNotFound", err)
		}
	case <-time.After(20 * time.Second):
		t.Fatalf("C10 violated: Get after Flush of an empty buffer over sqlite did not return within 20s (gate slot leaked by Flush)")
	}
}

// Generated case (thorough tier, TestLevelDB): after several reopens (so that
// goleveldb has table files in a sorted level) Find("\xff\xc3\xa9", " a"), an
// inverted and therefore empty range, panicked with "slice bounds out of range
// [1:0]" inside goleveldb instead of yielding nothing like every other store.
func TestRegressLevelDBInvertedRangeAfterReopens(t *testing.T) {
	if evid.Replaying() {
		t.Skip()
	}
	in, err := newInst(implSpec{base: "leveldb"})
	if err != nil {
		t.Fatal(err)
	}
	defer in.destroy()
	for r := 0; r < 12; r++ {
		if err := in.top.Set("k"+string(rune('a'+r)), "v"); err != nil {
			t.Fatal(err)
		}
		if err := in.top.Set("a", "x"); err != nil {
			t.Fatal(err)
		}
		if err := in.reopen(); err != nil {
			t.Fatal(err)
		}
		for _, rg := range [][2]string{{"kz", "a"}, {"\xff\xc3\xa9", " a"}, {"kb", "ka"}, {"a", "a"}} {
			func() {
				defer func() {
					if e := recover(); e != nil {
						t.Fatalf("C10 violated: leveldb Find(%q, %q) after %d reopens panicked: %v", rg[0], rg[1], r+1, e)
					}
				}()
				it := in.top.Find(rg[0], rg[1])
				if it.Next() {
					t.Errorf("C10 violated: leveldb Find(%q, %q) yielded %q from an empty range", rg[0], rg[1], it.Key())
				}
				if err := it.Close(); err != nil {
					t.Errorf("C10 violated: Close: %v", err)
				}
			}()
		}
	}
}

// Probe from the design (CR b): an empty value is a value, not "not found", on
// every implementation, through Get and through Find, before and after reopen.
func TestEmptyValueRoundTrips(t *testing.T) {
	if evid.Replaying() {
		t.Skip()
	}
	for _, base := range []string{"memory", "leveldb", "kv", "sqlite"} {
		for _, spec := range []implSpec{{base: base}, {base: base, buffered: true, maxBuf: 64}} {
			in, err := newInst(spec)
			if err != nil {
				t.Fatal(err)
			}
			check := func(when string) {
				v, err := in.top.Get("deleted|x")
				if err != nil || v != "" {
					t.Errorf("C10 violated: %s %s: Get of a key set to \"\" = %q, %v", spec.name(), when, v, err)
				}
				it := in.top.Find("deleted|", "deleted}")
				if !it.Next() || it.Key() != "deleted|x" || it.Value() != "" {
					t.Errorf("C10 violated: %s %s: Find does not yield the key with the empty value", spec.name(), when)
				}
				it.Close()
			}
			if err := in.top.Set("deleted|x", ""); err != nil {
				t.Fatal(err)
			}
			check("live")
			if spec.persistent() || spec.buffered {
				if err := in.reopen(); err != nil {
					t.Fatal(err)
				}
				check("reopened")
			}
			in.destroy()
		}
	}
}
