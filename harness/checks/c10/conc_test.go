package c10

import (
	"fmt"
	"sync"
	"testing"

	"perkeep.org/pkg/sorted"
	"pgregory.net/rapid"

	"verifharness/internal/evid"
)

// TestBatchesAreUnitsUnderConcurrency: "a committed batch applies its sets and deletes in order as one
// unit" also when several writers commit batches over the same keys at the same time (the index commits
// one batch per received blob from concurrent receives): every batch writes ONE value to all keys of a
// group, so once the writers are done all keys of the group must carry the same value - the last batch's.
// And a Set that has returned is what Get returns, whatever a concurrent Flush of the buffer is doing.
func TestBatchesAreUnitsUnderConcurrency(t *testing.T) {
	evid.Check(t, 100, 800, func(t *rapid.T) {
		spec := genSpec(rapid.SampledFrom([]string{"memory", "memory", "leveldb", "kv", "sqlite"}).Draw(t, "base")).Draw(t, "impl")
		in, err := newInst(spec)
		if err != nil {
			t.Fatalf("harness: %v", err)
		}
		defer in.destroy()
		kv := in.top
		nkeys := rapid.IntRange(2, 6).Draw(t, "keysPerBatch")
		writers := rapid.IntRange(2, 4).Draw(t, "writers")
		rounds := rapid.IntRange(5, 40).Draw(t, "batchesPerWriter")
		withOversize := rapid.Bool().Draw(t, "oversizedRowInTheMiddle") // skipped rows must not split the unit
		// every round has its own group of keys; all writers write it in their r-th batch, at about the same time
		keysOf := func(r int) []string {
			keys := make([]string, nkeys)
			for i := range keys {
				keys[i] = fmt.Sprintf("grp|%03d|%c", r, 'a'+i)
			}
			return keys
		}
		var wg sync.WaitGroup
		errs := make(chan error, writers+1)
		for w := 0; w < writers; w++ {
			wg.Add(1)
			go func(w int) {
				defer wg.Done()
				for r := 0; r < rounds; r++ {
					b := kv.BeginBatch()
					v := fmt.Sprintf("w%d-r%d", w, r)
					for i, k := range keysOf(r) {
						if withOversize && i == nkeys/2 {
							b.Set(fmt.Sprintf("big|%d|%d", w, r), string(make([]byte, sorted.MaxValueSize+1)))
						}
						b.Set(k, v)
					}
					if err := kv.CommitBatch(b); err != nil {
						errs <- fmt.Errorf("CommitBatch of writer %d: %v", w, err)
						return
					}
				}
			}(w)
		}
		// a writer of single keys with read-your-write, and (for the buffer) a flusher
		stop := make(chan struct{})
		var fl sync.WaitGroup
		if in.buf != nil {
			fl.Add(1)
			go func() {
				defer fl.Done()
				for {
					select {
					case <-stop:
						return
					default:
						in.buf.Flush()
					}
				}
			}()
		}
		wg.Add(1)
		go func() {
			defer wg.Done()
			for r := 0; r < rounds*2; r++ {
				want := fmt.Sprintf("solo-%d", r)
				if err := kv.Set("solo", want); err != nil {
					errs <- fmt.Errorf("Set: %v", err)
					return
				}
				if got, err := kv.Get("solo"); err != nil || got != want {
					errs <- fmt.Errorf("Get(\"solo\") right after Set(\"solo\", %q) returned %q, %v (only this goroutine writes the key; a Flush may be running)", want, got, err)
					return
				}
			}
		}()
		wg.Wait()
		close(stop)
		fl.Wait()
		select {
		case err := <-errs:
			t.Fatalf("C10 violated: impl=%s: %v", spec.name(), err)
		default:
		}
		evid.R.Eval()
		evid.R.Label("concurrent-batches/" + spec.name())
		evid.R.NonTrivial(evid.Hash("conc", spec.name(), nkeys, writers, rounds, withOversize))
		for r := 0; r < rounds; r++ {
			keys := keysOf(r)
			first, err := kv.Get(keys[0])
			if err != nil {
				t.Fatalf("C10 violated: impl=%s: Get(%q) after %d concurrent writers: %v", spec.name(), keys[0], writers, err)
			}
			for _, k := range keys[1:] {
				if v, err := kv.Get(k); err != nil || v != first {
					t.Fatalf("C10 violated: impl=%s: %d writers each committed a batch that sets ALL of %v to one value; afterwards %q=%q but %q=%q (err %v): two batches were interleaved", spec.name(), writers, keys, keys[0], first, k, v, err)
				}
			}
		}
		if evid.R.WantSample(true) {
			evid.R.Sample(true, map[string]any{"kind": "concurrent-batches", "impl": spec.name(), "keys_per_batch": nkeys, "writers": writers, "batches_per_writer": rounds})
		}
	})
}
