// C10 — every sorted key/value store is a byte-ordered map with atomic batches.
//
// One rapid state machine (t.Repeat) drives a real sorted.KeyValue and a
// map[string]string model side by side. Implementations: memory, leveldb,
// kv file, sqlite (all made by sorted.NewKeyValue) and buffer.New(memory, X,
// maxBuffer in {1, 64, 0}) over each X.
//
// Domain (grounded in pkg/sorted/kv.go and the callers in pkg/index):
//   - keys are never empty (no caller writes "", buffer.iter uses "" as its
//     "not started" sentinel); values may be empty (deleted| rows);
//   - an iterator is closed before the next operation on the store and Next is
//     never called again after it returned false (kv.go promises neither);
//   - a batch is committed right after it was filled (sqlkv holds its 1-slot
//     gate between BeginBatch and CommitBatch);
//   - oversize Set (direct or in a batch) is silently skipped: every
//     implementation returns nil and keeps the old value (kvtest.testInsertTooLarge).
package c10

import (
	"errors"
	"flag"
	"fmt"
	"io"
	"log"
	"os"
	"path/filepath"
	"reflect"
	"sort"
	"strconv"
	"strings"
	"testing"
	"time"

	"go4.org/jsonconfig"
	"perkeep.org/pkg/sorted"
	"perkeep.org/pkg/sorted/buffer"
	_ "perkeep.org/pkg/sorted/kvfile"
	_ "perkeep.org/pkg/sorted/leveldb"
	_ "perkeep.org/pkg/sorted/sqlite"
	"perkeep.org/pkg/sorted/sqlkv"
	"pgregory.net/rapid"

	"verifharness/internal/evid"
)

const prop = "C10"

func TestMain(m *testing.M) {
	log.SetOutput(io.Discard) // CheckSizes and kvfile.Close log on every call
	sweepStale()
	evid.Main(m, prop, "exploration",
		"rapid t.Repeat histories of get/set/delete/batch(1-8 mixed mods)/find(start,end; drained or closed early)/flush/reopen against a sorted map[string]string model, "+
			"on memory, leveldb, kv file, sqlite and buffer.New(memory, X, maxBuffer in {1,64,0}) over each X; keys over {a,b,|,:,~,0xc3a9,0xff,space} of 1-6 tokens drawn mostly from a per-case pool of nested/colliding keys plus keys of 766/767/768 bytes; "+
			"values of 0-20 bytes plus 62999/63000/63001 bytes. non-trivial = the history contains a range scan after a delete, or a batch touching one key twice, or a reopen after >= 3 mutations; "+
			"distinct = FNV-64 of (implementation, canonical op list)")
}

// ---------------------------------------------------------------------------
// implementations

type implSpec struct {
	base     string // memory | leveldb | kv | sqlite
	buffered bool
	maxBuf   int64
}

func (s implSpec) name() string {
	if s.buffered {
		return fmt.Sprintf("buffer%d(%s)", s.maxBuf, s.base)
	}
	return s.base
}

func (s implSpec) persistent() bool { return s.base != "memory" }

type inst struct {
	spec implSpec
	dir  string
	top  sorted.KeyValue
	back sorted.KeyValue  // the store made by sorted.NewKeyValue (== top when not buffered)
	buf  *buffer.KeyValue // nil when not buffered
}

func (in *inst) openBase() (sorted.KeyValue, error) {
	cfg := jsonconfig.Obj{"type": in.spec.base}
	switch in.spec.base {
	case "memory":
	case "leveldb":
		cfg["file"] = filepath.Join(in.dir, "ldb")
	case "kv":
		cfg["file"] = filepath.Join(in.dir, "index.kv")
	case "sqlite":
		cfg["file"] = filepath.Join(in.dir, "index.sqlite")
	}
	return sorted.NewKeyValue(cfg)
}

func (in *inst) wrap() {
	if in.spec.buffered {
		in.buf = buffer.New(sorted.NewMemoryKeyValue(), in.back, in.spec.maxBuf)
		in.top = in.buf
	} else {
		in.top = in.back
	}
}

func newInst(spec implSpec) (*inst, error) {
	in := &inst{spec: spec}
	if spec.persistent() {
		d, err := caseDir()
		if err != nil {
			return nil, err
		}
		in.dir = d
	}
	b, err := in.openBase()
	if err != nil {
		in.destroy()
		return nil, err
	}
	in.back = b
	in.wrap()
	return in, nil
}

// caseDir makes the per-case directory. It prefers tmpfs (/dev/shm): the
// property is about what a store shows after Close + reopen in a live process,
// not about surviving power loss, and on the shared disk every sqlite/kv commit
// is an fsync whose latency under load (other checks run concurrently) made the
// quick tier take 15 minutes instead of 30 seconds.
func caseDir() (string, error) {
	if d, err := os.MkdirTemp(tmpRoot, "c10-"); err == nil {
		return d, nil
	}
	return os.MkdirTemp("", "c10-")
}

var tmpRoot = func() string {
	if fi, err := os.Stat("/dev/shm"); err == nil && fi.IsDir() {
		return "/dev/shm"
	}
	return ""
}()

// sweepStale removes case directories left behind by a killed run (older than 2 h).
func sweepStale() {
	root := tmpRoot
	if root == "" {
		root = os.TempDir()
	}
	ents, err := os.ReadDir(root)
	if err != nil {
		return
	}
	for _, e := range ents {
		if !e.IsDir() || !strings.HasPrefix(e.Name(), "c10-") {
			continue
		}
		if fi, err := e.Info(); err == nil && time.Since(fi.ModTime()) > 2*time.Hour {
			os.RemoveAll(filepath.Join(root, e.Name()))
		}
	}
}

// reopen closes the store and opens it again over the same file. For the
// buffer: Close "flushes then closes the backing store" (buffer.go), so a fresh
// buffer over the reopened (or, for memory, the same) backing store must show
// the same contents.
func (in *inst) reopen() error {
	if err := in.top.Close(); err != nil {
		return fmt.Errorf("Close: %w", err)
	}
	if in.spec.persistent() {
		b, err := in.openBase()
		if err != nil {
			return fmt.Errorf("NewKeyValue on the same file: %w", err)
		}
		in.back = b
	}
	in.wrap()
	return nil
}

func (in *inst) destroy() {
	if in.top != nil {
		// Close must not be able to wedge the harness: a store whose gate slot
		// leaked (reported as a violation by afterOp) would block here forever.
		done := make(chan struct{})
		go func() {
			defer close(done)
			defer func() { recover() }()
			if in.gateHeld() != 0 {
				if skv := in.sqlkv(); skv != nil {
					skv.DB.Close()
					return
				}
			}
			in.top.Close()
		}()
		select {
		case <-done:
		case <-time.After(10 * time.Second):
		}
	}
	if in.dir != "" {
		os.RemoveAll(in.dir)
	}
}

func (in *inst) sqlkv() *sqlkv.KeyValue {
	if in.spec.base != "sqlite" || in.back == nil {
		return nil
	}
	v := reflect.ValueOf(in.back)
	if v.Kind() != reflect.Ptr || v.Elem().Kind() != reflect.Struct {
		return nil
	}
	f := v.Elem().FieldByName("KeyValue")
	if !f.IsValid() || !f.CanInterface() {
		return nil
	}
	skv, _ := f.Interface().(*sqlkv.KeyValue)
	return skv
}

// gateHeld returns how many slots of sqlkv's gate are occupied (sqlite only).
// Between two operations, with no iterator and no batch open, it must be 0:
// a held slot means the next call on the store blocks forever.
func (in *inst) gateHeld() int {
	skv := in.sqlkv()
	if skv == nil || skv.Gate == nil {
		return 0
	}
	return reflect.ValueOf(skv.Gate).Elem().Field(0).Len()
}

// ---------------------------------------------------------------------------
// generators

var tokens = []string{"a", "b", "|", ":", "~", "\xc3\xa9", "\xff", " "}

func genShortKey(maxTok int) *rapid.Generator[string] {
	return rapid.Custom(func(t *rapid.T) string {
		n := rapid.IntRange(1, maxTok).Draw(t, "ntok")
		var sb strings.Builder
		for i := 0; i < n; i++ {
			sb.WriteString(rapid.SampledFrom(tokens).Draw(t, "tok"))
		}
		return sb.String()
	})
}

// long keys: a short head (so that they nest with the short keys) padded to
// exactly 766, 767 (= MaxKeySize) or 768 bytes.
func genLongKey() *rapid.Generator[string] {
	return rapid.Custom(func(t *rapid.T) string {
		head := genShortKey(2).Draw(t, "head")
		pad := rapid.SampledFrom([]string{"a", "b", "~"}).Draw(t, "pad")
		n := rapid.SampledFrom([]int{766, 767, 768}).Draw(t, "keylen")
		return head + strings.Repeat(pad, n-len(head))
	})
}

func genPool() *rapid.Generator[[]string] {
	return rapid.Custom(func(t *rapid.T) []string {
		n := rapid.IntRange(3, 8).Draw(t, "poolsize")
		pool := make([]string, 0, n)
		for i := 0; i < n; i++ {
			kind := rapid.IntRange(0, 9).Draw(t, "poolkind")
			switch {
			case kind <= 2 && i > 0: // nest: extend or cut an earlier key
				base := pool[rapid.IntRange(0, i-1).Draw(t, "of")]
				if len(base) > 40 {
					base = base[:2]
				}
				if rapid.Bool().Draw(t, "extend") {
					pool = append(pool, base+rapid.SampledFrom(tokens).Draw(t, "tok"))
				} else if len(base) > 1 {
					pool = append(pool, base[:rapid.IntRange(1, len(base)-1).Draw(t, "cut")])
				} else {
					pool = append(pool, base+"|")
				}
			case kind == 3:
				pool = append(pool, genLongKey().Draw(t, "long"))
			default:
				pool = append(pool, genShortKey(6).Draw(t, "short"))
			}
		}
		return pool
	})
}

var valAlphabet = []byte("ab|:~ 0\xc3\xa9\xff")

// valSpec is what is drawn for a value; the string itself is built outside
// the Draw so that rapid never logs a 63 kB line (its fail-file loader cannot
// read lines over 64 kB, which would make such a case impossible to replay).
type valSpec struct {
	Fill string // big values: Fill repeated N times
	N    int
	Lit  string // small values (0-20 bytes)
}

func (v valSpec) str() string {
	if v.N > 0 {
		return strings.Repeat(v.Fill, v.N)
	}
	return v.Lit
}

func genValue() *rapid.Generator[valSpec] {
	return rapid.Custom(func(t *rapid.T) valSpec {
		kind := rapid.IntRange(0, 19).Draw(t, "valkind")
		switch {
		case kind <= 2:
			return valSpec{}
		case kind == 3:
			n := rapid.SampledFrom([]int{62999, 63000, 63001}).Draw(t, "vallen")
			c := rapid.SampledFrom([]string{"v", "|", "\xff"}).Draw(t, "valfill")
			return valSpec{Fill: c, N: n}
		default:
			n := rapid.IntRange(1, 20).Draw(t, "vallen")
			b := make([]byte, n)
			for i := range b {
				b[i] = rapid.SampledFrom(valAlphabet).Draw(t, "vb")
			}
			return valSpec{Lit: string(b)}
		}
	})
}

// show abbreviates long strings canonically (length + FNV of the content).
func show(s string) string {
	if len(s) <= 40 {
		return strconv.Quote(s)
	}
	return fmt.Sprintf("%s..(len=%d,h=%x)", strconv.Quote(s[:6]), len(s), evid.Hash(s))
}

// ---------------------------------------------------------------------------
// the machine

type machine struct {
	in     *inst
	model  map[string]string
	pool   []string
	hist   []string
	maxOps int
	nOps   int
	nMut   int // mutations (set/delete/batch) so far, incl. skipped oversize ones not counted
	sawDel bool
	f      map[string]bool // history features
	counts map[string]int
}

func (m *machine) key(t *rapid.T) string {
	if rapid.IntRange(0, 99).Draw(t, "keysrc") < 85 {
		return rapid.SampledFrom(m.pool).Draw(t, "poolkey")
	}
	return genShortKey(6).Draw(t, "freshkey")
}

func (m *machine) fail(t *rapid.T, format string, a ...any) {
	t.Helper()
	var sb strings.Builder
	for i, h := range m.hist {
		fmt.Fprintf(&sb, "  %2d %s\n", i+1, h)
	}
	t.Fatalf("C10 violated: impl=%s: %s\nhistory (%d ops):\n%s", m.in.spec.name(), fmt.Sprintf(format, a...), len(m.hist), sb.String())
}

// guard runs one call into the store, turning a panic into a violation.
func (m *machine) guard(t *rapid.T, what string, fn func()) {
	t.Helper()
	defer func() {
		if r := recover(); r != nil {
			// rapid's own failure signalling also travels by panic: only intercept foreign panics
			if s := fmt.Sprintf("%T", r); strings.Contains(s, "rapid.") {
				panic(r)
			}
			m.fail(t, "panic in %s: %v", what, r)
		}
	}()
	fn()
}

func oversize(k, v string) bool { return len(k) > sorted.MaxKeySize || len(v) > sorted.MaxValueSize }

func (m *machine) noteKV(k, v string, isSet bool) {
	if len(k) > sorted.MaxKeySize {
		m.f["oversize-key"] = true
	} else if len(k) >= sorted.MaxKeySize-1 {
		m.f["key-at-limit"] = true
	}
	if !isSet {
		return
	}
	if len(v) > sorted.MaxValueSize {
		m.f["oversize-value"] = true
	} else if len(v) >= sorted.MaxValueSize-1 {
		m.f["value-at-limit"] = true
	}
	if v == "" {
		m.f["empty-value"] = true
	}
}

func (m *machine) op(name, desc string) {
	m.nOps++
	m.counts[name]++
	m.hist = append(m.hist, name+" "+desc)
}

func (m *machine) full() bool { return m.nOps >= m.maxOps }

func (m *machine) checkGet(t *rapid.T, k string) {
	var got string
	var err error
	m.guard(t, "Get", func() { got, err = m.in.top.Get(k) })
	want, ok := m.model[k]
	if ok {
		if err != nil || got != want {
			m.fail(t, "Get(%s) = %s, %v; want %s, nil (last value set)", show(k), show(got), err, show(want))
		}
		return
	}
	if !errors.Is(err, sorted.ErrNotFound) {
		m.fail(t, "Get(%s) = %s, %v; want sorted.ErrNotFound (never set, deleted, or only an oversize set)", show(k), show(got), err)
	}
}

func (m *machine) get(t *rapid.T) {
	k := m.key(t)
	m.op("get", show(k))
	m.checkGet(t, k)
}

func (m *machine) set(t *rapid.T) {
	if m.full() {
		m.get(t)
		return
	}
	k, v := m.key(t), genValue().Draw(t, "value").str()
	m.op("set", show(k)+"="+show(v))
	m.noteKV(k, v, true)
	var err error
	m.guard(t, "Set", func() { err = m.in.top.Set(k, v) })
	if err != nil {
		m.fail(t, "Set(%s, %s) returned %v (oversize=%v; oversize sets are skipped silently, others succeed)", show(k), show(v), err, oversize(k, v))
	}
	if !oversize(k, v) {
		m.model[k] = v
		m.nMut++
	}
	m.checkGet(t, k)
}

func (m *machine) del(t *rapid.T) {
	if m.full() {
		m.get(t)
		return
	}
	k := m.key(t)
	_, existed := m.model[k]
	m.op("delete", show(k)+fmt.Sprintf(" (present=%v)", existed))
	m.noteKV(k, "", false)
	var err error
	m.guard(t, "Delete", func() { err = m.in.top.Delete(k) })
	if err != nil {
		m.fail(t, "Delete(%s) returned %v (deleting a non-existent key is not an error)", show(k), err)
	}
	delete(m.model, k)
	m.nMut++
	m.sawDel = true
	if !existed {
		m.f["delete-absent"] = true
	}
	m.checkGet(t, k)
}

type mod struct {
	del  bool
	k, v string
}

func (m *machine) batch(t *rapid.T) {
	if m.full() {
		m.get(t)
		return
	}
	n := rapid.IntRange(1, 8).Draw(t, "nmods")
	// a small sub-pool makes repeats of one key inside the batch frequent
	sub := make([]string, rapid.IntRange(1, 3).Draw(t, "nsub"))
	for i := range sub {
		sub[i] = m.key(t)
	}
	mods := make([]mod, n)
	seen := map[string]int{}
	var parts []string
	for i := range mods {
		var k string
		if rapid.IntRange(0, 9).Draw(t, "fromsub") < 7 {
			k = rapid.SampledFrom(sub).Draw(t, "subkey")
		} else {
			k = m.key(t)
		}
		if rapid.IntRange(0, 9).Draw(t, "isdel") < 3 {
			mods[i] = mod{del: true, k: k}
			parts = append(parts, "del "+show(k))
		} else {
			v := genValue().Draw(t, "value").str()
			mods[i] = mod{k: k, v: v}
			parts = append(parts, "set "+show(k)+"="+show(v))
		}
		seen[k]++
	}
	m.op("batch", "["+strings.Join(parts, "; ")+"]")
	var err error
	m.guard(t, "BeginBatch/CommitBatch", func() {
		b := m.in.top.BeginBatch()
		for _, x := range mods {
			if x.del {
				b.Delete(x.k)
			} else {
				b.Set(x.k, x.v)
			}
		}
		err = m.in.top.CommitBatch(b)
	})
	if err != nil {
		m.fail(t, "CommitBatch returned %v", err)
	}
	hasDel, hasSet := false, false
	for _, x := range mods {
		m.noteKV(x.k, x.v, !x.del)
		if x.del {
			delete(m.model, x.k)
			hasDel = true
			continue
		}
		hasSet = true
		if oversize(x.k, x.v) {
			m.f["batch-oversize-set"] = true
			continue
		}
		m.model[x.k] = x.v
	}
	m.nMut++
	m.f["batch"] = true
	if hasDel {
		m.sawDel = true
	}
	if hasDel && hasSet {
		m.f["batch-mixed"] = true
	}
	for _, c := range seen {
		if c >= 2 {
			m.f["batch-samekey-twice"] = true
		}
	}
	// every key the batch touched now reads as the model says (sorted for determinism)
	ks := make([]string, 0, len(seen))
	for k := range seen {
		ks = append(ks, k)
	}
	sort.Strings(ks)
	for _, k := range ks {
		m.checkGet(t, k)
	}
}

func (m *machine) expectRange(start, end string) []string {
	var ks []string
	for k := range m.model {
		if k >= start && (end == "" || k < end) {
			ks = append(ks, k)
		}
	}
	sort.Strings(ks)
	return ks
}

// scan runs Find(start,end) on kv and compares with the model. limit < 0 drains
// the iterator; otherwise it is closed after limit pairs (or at exhaustion).
func (m *machine) scan(t *rapid.T, kv sorted.KeyValue, who, start, end string, limit int, closeTwice bool) (yielded int) {
	want := m.expectRange(start, end)
	desc := fmt.Sprintf("%sFind(%s, %s)", who, show(start), show(end))
	m.guard(t, desc, func() {
		it := kv.Find(start, end)
		closed := false
		defer func() {
			if !closed {
				it.Close()
			}
		}()
		i := 0
		for limit < 0 || i < limit {
			if !it.Next() {
				if i < len(want) {
					closed = true
					cerr := it.Close()
					m.fail(t, "%s ended after %d pairs; missing %s (and %d more) [Close=%v]", desc, i, show(want[i]), len(want)-i-1, cerr)
				}
				break
			}
			k, kb := it.Key(), string(it.KeyBytes())
			v, vb := it.Value(), string(it.ValueBytes())
			if k != kb || v != vb {
				closed = true
				it.Close()
				m.fail(t, "%s pair %d: Key()=%s KeyBytes()=%s Value()=%s ValueBytes()=%s disagree", desc, i, show(k), show(kb), show(v), show(vb))
			}
			if i >= len(want) {
				closed = true
				it.Close()
				m.fail(t, "%s yielded an extra pair %d: %s=%s; the model has only %d keys in range", desc, i, show(k), show(v), len(want))
			}
			if k != want[i] {
				closed = true
				it.Close()
				m.fail(t, "%s pair %d has key %s, want %s (ascending byte order, no gaps, no duplicates)", desc, i, show(k), show(want[i]))
			}
			if v != m.model[k] {
				closed = true
				it.Close()
				m.fail(t, "%s pair %d key %s has value %s, want current value %s", desc, i, show(k), show(v), show(m.model[k]))
			}
			// the cached string forms stay stable on a second call
			if it.Key() != k || it.Value() != v {
				closed = true
				it.Close()
				m.fail(t, "%s pair %d: second Key()/Value() call differs", desc, i)
			}
			i++
		}
		yielded = i
		closed = true
		if err := it.Close(); err != nil {
			m.fail(t, "%s: Close returned %v", desc, err)
		}
		if limit < 0 {
			// the package's own scan helper, as its callers use it: the strings handed to the callback are
			// kept and looked at when the scan is over
			type pair struct{ k, v string }
			var got []pair
			if err := sorted.ForeachInRange(kv, start, end, func(k, v string) error { got = append(got, pair{k, v}); return nil }); err != nil {
				m.fail(t, "sorted.ForeachInRange over %s returned %v", desc, err)
			}
			if len(got) != len(want) {
				m.fail(t, "sorted.ForeachInRange over %s yielded %d pairs, want %d", desc, len(got), len(want))
			}
			for j, p := range got {
				if p.k != want[j] || p.v != m.model[p.k] {
					m.fail(t, "sorted.ForeachInRange over %s: pair %d, kept until the scan was over, reads %s=%s; want %s=%s", desc, j, show(p.k), show(p.v), show(want[j]), show(m.model[want[j]]))
				}
			}
		}
		if closeTwice {
			it.Close() // "It is valid to call Close multiple times": must not panic or wedge; its result is unspecified
		}
	})
	return yielded
}

func succPrefix(p string) (string, bool) {
	if p == "" || p[len(p)-1] == 0xff {
		return "", false
	}
	return p[:len(p)-1] + string([]byte{p[len(p)-1] + 1}), true
}

func (m *machine) find(t *rapid.T) {
	kind := rapid.IntRange(0, 9).Draw(t, "rangekind")
	var start, end, rk string
	switch kind {
	case 0:
		rk = "all"
	case 1, 2:
		start, rk = m.key(t), "from-key"
	case 3:
		end, rk = m.key(t), "upto-key"
	case 4, 5, 6: // the index's queryPrefixString: [p, p with last byte + 1)
		p := m.key(t)
		if len(p) > 1 && len(p) < 40 && rapid.Bool().Draw(t, "cutprefix") {
			p = p[:rapid.IntRange(1, len(p)-1).Draw(t, "cut")]
		}
		if e, ok := succPrefix(p); ok {
			start, end, rk = p, e, "prefix"
		} else {
			start, rk = p, "from-key" // queryPrefixString refuses prefixes ending in 0xff
		}
	default:
		start, end = m.key(t), m.key(t)
		switch {
		case start > end:
			rk = "start>end"
		case start == end:
			rk = "start==end"
		default:
			rk = "two-keys"
		}
	}
	limit := -1
	if rapid.IntRange(0, 9).Draw(t, "early") < 3 {
		limit = rapid.IntRange(0, 3).Draw(t, "limit")
	}
	closeTwice := rapid.IntRange(0, 9).Draw(t, "closetwice") == 0
	m.op("find", fmt.Sprintf("[%s, %s) %s limit=%d closeTwice=%v", show(start), show(end), rk, limit, closeTwice))
	n := m.scan(t, m.in.top, "", start, end, limit, closeTwice)
	m.f["find/"+rk] = true
	if limit >= 0 && n < len(m.expectRange(start, end)) {
		m.f["find-closed-early"] = true
	}
	if n > 0 {
		m.f["find-nonempty"] = true
	}
	if n >= 2 {
		m.f["find-2+pairs"] = true
	}
	if m.sawDel {
		m.f["find-after-delete"] = true
	}
}

func (m *machine) flush(t *rapid.T) {
	m.op("flush", "")
	var err error
	m.guard(t, "Flush", func() { err = m.in.buf.Flush() })
	if err != nil {
		m.fail(t, "Flush returned %v", err)
	}
	m.f["flush"] = true
	m.afterOp(t)
	// "Flush ... flush[es] the buffer to the backing storage": the backing store alone now equals the model
	m.scan(t, m.in.back, "after Flush, backing store ", "", "", -1, false)
}

func (m *machine) reopen(t *rapid.T) {
	m.op("reopen", fmt.Sprintf("(after %d mutations)", m.nMut))
	var err error
	m.guard(t, "Close+reopen", func() { err = m.in.reopen() })
	if err != nil {
		m.fail(t, "reopen: %v", err)
	}
	m.f["reopen"] = true
	if m.nMut >= 3 {
		m.f["reopen-after-3+mutations"] = true
	}
	m.scan(t, m.in.top, "after reopen, ", "", "", -1, false)
}

// afterOp: invariants that must hold between any two operations.
func (m *machine) afterOp(t *rapid.T) {
	if n := m.in.gateHeld(); n != 0 {
		m.fail(t, "sqlite gate has %d slot(s) held after the operation returned with no iterator or batch open: every further call on the store blocks forever", n)
	}
}

func runCase(t *rapid.T, spec implSpec) {
	in, err := newInst(spec)
	if err != nil {
		t.Fatalf("C10 harness: cannot create %s: %v", spec.name(), err)
	}
	defer in.destroy()
	m := &machine{
		in:     in,
		model:  map[string]string{},
		pool:   genPool().Draw(t, "pool"),
		maxOps: evid.Pick(40, 100),
		f:      map[string]bool{},
		counts: map[string]int{},
	}
	// Prologue ("aged" store): a few set+reopen rounds, so that the persistent
	// stores are not always in their freshly-created shape (leveldb: table files
	// in sorted levels instead of only the memtable/journal) when the history starts.
	if spec.persistent() {
		age := rapid.SampledFrom([]int{0, 0, 0, 3, 7}).Draw(t, "age")
		for i := 0; i < age; i++ {
			k, v := m.pool[i%len(m.pool)], fmt.Sprintf("age%d", i)
			var err error
			m.guard(t, "Set", func() { err = in.top.Set(k, v) })
			if err != nil {
				m.fail(t, "prologue Set(%s): %v", show(k), err)
			}
			if !oversize(k, v) {
				m.model[k] = v
			}
			m.guard(t, "Close+reopen", func() { err = in.reopen() })
			if err != nil {
				m.fail(t, "prologue reopen: %v", err)
			}
		}
		if age > 0 {
			m.hist = append(m.hist, fmt.Sprintf("prologue %d x (set pool[i]=\"age<i>\"; reopen)", age))
			m.scan(t, in.top, "after prologue, ", "", "", -1, false)
			m.f["aged-store"] = true
		}
	}
	actions := map[string]func(*rapid.T){
		"":        m.afterOp,
		"get":     m.get,
		"set1":    m.set,
		"set2":    m.set,
		"set3":    m.set,
		"delete1": m.del,
		"delete2": m.del,
		"batch1":  m.batch,
		"batch2":  m.batch,
		"find1":   m.find,
		"find2":   m.find,
		"find3":   m.find,
	}
	if spec.buffered {
		actions["flush"] = m.flush
	}
	if spec.persistent() || spec.buffered {
		actions["reopen"] = m.reopen
	}
	t.Repeat(actions)
	// final: complete contents equal the model
	m.hist = append(m.hist, "final full scan")
	m.scan(t, in.top, "final ", "", "", -1, false)
	m.afterOp(t)

	// ---- evidence ----
	evid.R.Eval()
	evid.R.Label("impl/" + spec.name())
	feats := make([]string, 0, len(m.f))
	for k := range m.f {
		feats = append(feats, k)
	}
	sort.Strings(feats)
	for _, k := range feats {
		evid.R.Label("history-has/" + k)
	}
	for _, k := range []string{"get", "set", "delete", "batch", "find", "flush", "reopen"} {
		if c := m.counts[k]; c > 0 {
			evid.R.LabelN("ops/"+k, c)
		}
	}
	evid.R.LabelN("ops/total", m.nOps)
	nt := m.f["find-after-delete"] || m.f["batch-samekey-twice"] || m.f["reopen-after-3+mutations"]
	if nt {
		evid.R.Label("nontrivial/" + spec.name())
		evid.R.NonTrivial(evid.Hash(spec.name(), strings.Join(m.hist, "\n")))
	}
	if evid.R.WantSample(nt) {
		evid.R.Sample(nt, map[string]any{"impl": spec.name(), "pool": showAll(m.pool), "ops": m.hist, "features": feats, "final_keys": len(m.model)})
	}
}

func showAll(ss []string) []string {
	out := make([]string, len(ss))
	for i, s := range ss {
		out[i] = show(s)
	}
	return out
}

func genSpec(base string) *rapid.Generator[implSpec] {
	return rapid.Custom(func(t *rapid.T) implSpec {
		switch rapid.IntRange(0, 9).Draw(t, "wrap") {
		case 0, 1, 2, 3:
			return implSpec{base: base}
		case 4, 5:
			return implSpec{base: base, buffered: true, maxBuf: 1}
		case 6, 7:
			return implSpec{base: base, buffered: true, maxBuf: 64}
		default:
			return implSpec{base: base, buffered: true, maxBuf: 0}
		}
	})
}

func runBase(t *testing.T, base string, quickN, thoroughN int) {
	flag.Set("rapid.steps", strconv.Itoa(evid.Pick(22, 50)))
	evid.Check(t, quickN, thoroughN, func(t *rapid.T) {
		runCase(t, genSpec(base).Draw(t, "impl"))
	})
}

func TestMemory(t *testing.T)  { runBase(t, "memory", 800, 2500) }
func TestLevelDB(t *testing.T) { runBase(t, "leveldb", 700, 2500) }
func TestKVFile(t *testing.T)  { runBase(t, "kv", 700, 2500) }
func TestSqlite(t *testing.T)  { runBase(t, "sqlite", 700, 2500) }
