// C13 — a transient lower-layer failure fails one call and nothing else.
package c13

import (
	"bytes"
	"context"
	"errors"
	"flag"
	"fmt"
	"os"
	"perkeep.org/pkg/blobserver/memory"
	"perkeep.org/pkg/schema"
	"runtime"
	"slices"
	"sort"
	"strings"
	"sync"
	"testing"
	"time"

	"perkeep.org/pkg/blob"
	"perkeep.org/pkg/blobserver"
	"perkeep.org/pkg/blobserver/blobpacked"
	"perkeep.org/pkg/blobserver/diskpacked"
	"perkeep.org/pkg/blobserver/encrypt"
	"perkeep.org/pkg/blobserver/files"
	"pgregory.net/rapid"

	"verifharness/internal/evid"
	"verifharness/internal/known"
	"verifharness/internal/vcompose"
	"verifharness/internal/vgen"
	"verifharness/internal/vmodel"
	"verifharness/internal/vstore"
	"verifharness/internal/vwatch"
)

const prop = "C13"

func TestMain(m *testing.M) {
	evid.QuietStderr()
	vmodel.CallTimeout = 15 * time.Minute                                     // the vwatch watchdog (with its parked-goroutine analysis) fires first
	vcompose.LeafTypes = []string{"verif", "verif", "diskpacked", "filesvfs"} // fault-injectable leaves (diskpacked: its index is a harness KV)
	evid.Main(m, prop, "fault_enumeration",
		"a backend tree (depth<=3, leaves = harness 'verif' stores and diskpacked with a harness KV index; every KV of blobpacked/encrypt/overlay/namespace is a harness KV) and an operation list (receive/fetch/stat batches of 3-60 refs/enumerate/remove) are generated; a dry run counts the lower-layer calls N; then the same history is re-run with a transient error injected at the k-th lower-layer call (every k in thorough, drawn k in quick; plain failure or performed-but-error), or with a burst of several failing calls; "+
			"afterwards faults stop, healthy operations and the full read battery run, then the backend's own recovery (diskpacked Reindex, blobpacked full recovery, encrypt meta re-scan) and the battery again; the four package-level stat gates must read 0. A separate gated-fault test makes the failing stat worker return while the dispatch loop is parked on the gate. "+
			"non-trivial = the fault was delivered inside a multi-step operation (not as the first lower-layer call of that operation) and is followed by >=3 healthy operations; distinct = FNV-64 of (configuration, op list, fault positions)")
}

var ctx = context.Background()

type op struct {
	Kind   string `json:"kind"`
	Idx    []int  `json:"idx,omitempty"`
	Cursor string `json:"cursor,omitempty"`
	Limit  int    `json:"limit,omitempty"`
	Reader string `json:"reader,omitempty"`
}

func (o op) String() string {
	switch o.Kind {
	case "enumerate":
		return fmt.Sprintf("enumerate(after=%q,limit=%d)", o.Cursor, o.Limit)
	case "receive":
		return fmt.Sprintf("receive(%v,%s)", o.Idx, o.Reader)
	}
	return fmt.Sprintf("%s%v", o.Kind, o.Idx)
}

func genOps(t *rapid.T, pool []vgen.Blob, caps vcompose.Caps, n int) []op {
	var ops []op
	var received []int // blobs received earlier in this list: removes and reads prefer them
	for i := 0; i < n; i++ {
		kinds := []string{"receive", "receive", "fetch", "stat", "enumerate"}
		if !caps.Receive {
			kinds = []string{"fetch", "stat", "enumerate"}
		}
		if caps.Remove {
			kinds = append(kinds, "remove")
		}
		k := rapid.SampledFrom(kinds).Draw(t, "op")
		o := op{Kind: k}
		switch k {
		case "receive":
			o.Idx = []int{rapid.IntRange(0, len(pool)-1).Draw(t, "blob")}
			o.Reader = rapid.SampledFrom(vgen.ReaderKinds).Draw(t, "reader")
			received = append(received, o.Idx[0])
		case "fetch":
			o.Idx = []int{rapid.IntRange(0, len(pool)-1).Draw(t, "blob")}
			if len(received) > 0 && rapid.Bool().Draw(t, "fetchReceived") {
				o.Idx = []int{rapid.SampledFrom(received).Draw(t, "receivedBlob")}
			}
		case "stat":
			o.Idx = rapid.SliceOfNDistinct(rapid.IntRange(0, len(pool)-1), 1, len(pool), rapid.ID[int]).Draw(t, "statIdx")
		case "remove":
			o.Idx = rapid.SliceOfNDistinct(rapid.IntRange(0, len(pool)-1), 1, 3, rapid.ID[int]).Draw(t, "rmIdx")
			if len(received) > 0 && rapid.IntRange(0, 3).Draw(t, "rmReceived") != 0 {
				// mostly remove something that is really there
				r := rapid.SampledFrom(received).Draw(t, "receivedBlob")
				has := false
				for _, x := range o.Idx {
					if x == r {
						has = true
					}
				}
				if !has {
					o.Idx[0] = r
				}
			}
		case "enumerate":
			o.Cursor = vgen.GenCursor(t, pool)
			o.Limit = rapid.SampledFrom([]int{1, 2, 5, 1000}).Draw(t, "limit")
		}
		ops = append(ops, o)
	}
	return ops
}

type caseDef struct {
	MaxZip        int // forced maximum zip size for blobpacked nodes (0 = default) when the history uploads a packable file
	HasFile       bool
	FaultyRestart bool    // encrypt root: the recovery is first attempted with a failing listing of the meta store
	Bulk          int     // encrypt root: number of tiny blobs received first, so that the history crosses the meta roll-up threshold
	ErrKind       int     // shape of the injected error (vstore.ErrPlain, a deadline, a cancellation, an i/o timeout)
	Preload       [][]int // per preload leaf (overlay lower / union subsets): pool indexes stored there before the history
	Tree          *vcompose.Node
	Pool          []vgen.Blob
	Ops           []op
	Heal          []op
	Desc          string
}

// A fault is addressed by (layer, op, key, n-th occurrence of that triple): unlike a global call
// number this is independent of how goroutines of a composite (replica, shard, parallel stat)
// interleave their lower-layer calls.
type fault struct {
	Addr string
	Beh  vstore.Behaviour
}

// stableKeys are the keys that are the same in every execution of a history (the pool's refs, cursors...).
// Keys derived from randomised data (encrypt's ciphertext and meta blob refs, temp names) are replaced by
// "*" so that the dry run's addresses still exist in the faulted re-run.
var stableKeys = map[string]bool{}

func addrOf(e *vstore.Event, counts map[string]int) string {
	key := e.Key
	if _, isRef := blob.Parse(key); isRef && !stableKeys[key] {
		key = "*"
	}
	k := e.Layer + " " + e.Op + " " + key
	counts[k]++
	return fmt.Sprintf("%s #%d", k, counts[k])
}

type result struct {
	calls     int      // lower-layer calls during the fault phase
	addrs     []string // their addresses, sorted (dry run)
	tails     []string // dry run: per mutating operation and (layer, op) kind, the address of the LAST such call
	finals    []string // dry run: per mutating operation, the address of its very last lower-layer call
	violation error
	inconcl   string
	hitInside bool // a fault was delivered not as the first lower call of an op
	retried   bool // a failed mutation was retried after the faults stopped
	hits      int
	knownID   string
}

// every goroutine that runs (or is about to run) encrypt's makePackedMetaBlob was created by recordMeta
const rollupMark = "created by perkeep.org/pkg/blobserver/encrypt.(*storage).recordMeta"

var stackBuf = make([]byte, 1<<20)

func metaRollupsRunning() int {
	for {
		n := runtime.Stack(stackBuf, true)
		if n < len(stackBuf) {
			return bytes.Count(stackBuf[:n], []byte(rollupMark))
		}
		stackBuf = make([]byte, 2*len(stackBuf))
	}
}

func waitNoMetaRollup() bool {
	dl := time.Now().Add(60 * time.Second)
	for metaRollupsRunning() > 0 {
		if time.Now().After(dl) {
			return false
		}
		time.Sleep(50 * time.Microsecond)
	}
	return true
}

type timeoutErr struct{ res vwatch.Result }

func (e *timeoutErr) Error() string { return "call did not return within the watchdog" }

// withWatchdog runs f and reports a hang (with a goroutine dump) instead of blocking forever.
func withWatchdog(f func() error) error {
	var err error
	r := vwatch.Run(func() { err = f() })
	if r.TimedOut {
		return &timeoutErr{res: r}
	}
	return err
}

var gateMu sync.Mutex // cases run one at a time per process; the gates are package-level

func gatesInUse() map[string]int {
	return map[string]int{
		"files":      files.VerifStatGateInUse(),
		"diskpacked": diskpacked.VerifStatGateInUse(),
		"encrypt":    encrypt.VerifStatGateInUse(),
		"blobpacked": blobpacked.VerifStatGateInUse(),
	}
}

func waitGatesZero() (map[string]int, bool) {
	deadline := time.Now().Add(2 * time.Second)
	for {
		g := gatesInUse()
		zero := true
		for k, v := range g {
			if v != gateBase[k] {
				zero = false
			}
		}
		if zero || time.Now().After(deadline) {
			return g, zero
		}
		time.Sleep(2 * time.Millisecond)
	}
}

// run executes the case with the given faults. faults==nil is the dry run.
func run(cd *caseDef, faults []fault, recoverAfter bool) (res result) {
	dir, err := os.MkdirTemp("", "verif-c13-")
	if err != nil {
		res.inconcl = "mkdtemp: " + err.Error()
		return
	}
	defer os.RemoveAll(dir)
	defer waitNoMetaRollup() // background roll-ups of (nested) encrypt stores must not outlive the case's directory
	env := vstore.NewEnv()
	env.ErrKind = cd.ErrKind
	env.SlowErrorReturn = 200 * time.Microsecond // the harness owns this bit of the schedule, see vstore
	b, err := vcompose.Build(env, dir, cd.Tree)
	if err != nil {
		res.inconcl = fmt.Sprintf("harness: cannot build %s: %v", cd.Tree, err)
		return
	}
	defer func() { b.Release() }()
	setMaxZip := func() {
		if cd.MaxZip > 0 {
			walkTree(cd.Tree, func(n *vcompose.Node) {
				if n.Type == "blobpacked" {
					blobpacked.VerifSetMaxZipSize(b.Storage(n), cd.MaxZip)
				}
			})
		}
	}
	setMaxZip()
	model := vmodel.New()
	stableKeys = map[string]bool{vgen.RefOf("sha224", []byte("never-stored")).String(): true}
	for _, pb := range cd.Pool {
		model.Know(pb.Ref, pb.Data)
		if pb.Class != "bulk" {
			stableKeys[pb.Ref.String()] = true
		}
	}
	everMaybe := map[blob.Ref]bool{}
	partialRemoved = map[string]bool{}
	for li, leaf := range b.Preload {
		if li >= len(cd.Preload) {
			break
		}
		for _, ix := range cd.Preload[li] {
			pb := cd.Pool[ix]
			if err := b.PreloadBlob(leaf, pb.Ref, pb.Data); err != nil {
				res.inconcl = "harness: preload: " + err.Error()
				return
			}
			model.SetPresent(pb.Ref, pb.Data)
		}
	}
	base := env.Seq() // construction calls (e.g. encrypt's start-up scan) are not part of the fault domain
	fm := map[string]vstore.Behaviour{}
	for _, f := range faults {
		fm[f.Addr] = f.Beh
	}
	counts := map[string]int{}
	callsInOp := 0
	faultPhase := true
	curMutating := false
	tailOfKind := map[string]string{}                    // kind -> last address inside the current mutating op
	lastOfOp := ""                                       // last address inside the current mutating op
	env.Match = func(e *vstore.Event) vstore.Behaviour { // runs under the Env lock: serialised
		if !faultPhase {
			return vstore.OK
		}
		a := addrOf(e, counts)
		callsInOp++
		if faults == nil {
			res.addrs = append(res.addrs, a)
			if curMutating {
				tailOfKind[e.Layer+" "+e.Op] = a
				lastOfOp = a
			}
		}
		b, ok := fm[a]
		if !ok {
			return vstore.OK
		}
		if callsInOp > 1 {
			res.hitInside = true
		}
		// "performed but the acknowledgement was lost" is modelled for wrapped blob stores only
		// (the canonical transient failure of a remote store); a key/value index either applies
		// a mutation and says so, or fails without applying it.
		if b == vstore.FailAfter && strings.HasPrefix(e.Layer, "kv:") {
			return vstore.Fail
		}
		return b
	}
	var trace []string
	var lastOpErr error
	fail := func(format string, a ...any) {
		res.violation = fmt.Errorf(format+"\nconfiguration: %s\nfaults (layer op key #occurrence): %v\ntrace:\n  %s", append(a, cd.Desc, faults, strings.Join(trace, "\n  "))...)
	}
	doOp := func(i int, o op, healthy bool) bool {
		seq0, hit0 := env.Seq(), env.FaultsHit()
		callsInOp = 0
		curMutating = o.Kind == "receive" || o.Kind == "remove"
		defer func() {
			if faults == nil && !healthy {
				var ks []string
				for k := range tailOfKind {
					ks = append(ks, k)
				}
				sort.Strings(ks)
				for _, k := range ks {
					res.tails = append(res.tails, tailOfKind[k])
				}
				if lastOfOp != "" {
					res.finals = append(res.finals, lastOfOp)
				}
			}
			lastOfOp = ""
			for k := range tailOfKind {
				delete(tailOfKind, k)
			}
		}()
		// refs in state maybe when the op starts: a read that is itself hit by a fault must not pin them
		maybeBefore := map[string][]byte{}
		for _, e := range model.Entries() {
			if e.State == vmodel.Maybe {
				maybeBefore[e.Ref.String()] = e.Data
			}
		}
		var opErr error
		var mm error
		werr := withWatchdog(func() error {
			switch o.Kind {
			case "receive":
				pb := cd.Pool[o.Idx[0]]
				sb, err := blobserver.Receive(ctx, b.Root, pb.Ref, vgen.NewReader(o.Reader, pb.Data, uint64(i)))
				opErr = err
				if err == nil {
					if sb.Ref != pb.Ref || int(sb.Size) != len(pb.Data) {
						mm = fmt.Errorf("receive of %s returned %v", pb, sb)
					}
					model.SetPresent(pb.Ref, pb.Data)
					delete(everMaybe, pb.Ref)
				} else if model.State(pb.Ref) != vmodel.Present {
					model.SetMaybe(pb.Ref, pb.Data)
					everMaybe[pb.Ref] = true
				}
			case "remove":
				var refs []blob.Ref
				for _, ix := range o.Idx {
					refs = append(refs, cd.Pool[ix].Ref)
				}
				h0 := env.FaultsHit()
				err := b.Root.RemoveBlobs(ctx, refs)
				opErr = err
				if err == nil && env.FaultsHit() > h0 {
					// acknowledged although a lower-layer remove failed during it
					for _, r := range refs {
						partialRemoved[r.String()] = true
					}
				}
				for _, r := range refs {
					if err == nil {
						model.SetAbsent(r)
						delete(everMaybe, r)
					} else if model.State(r) != vmodel.Absent {
						model.SetMaybe(r, nil)
						everMaybe[r] = true
					}
				}
			case "fetch":
				mm = model.CheckFetch(ctx, b.Root, cd.Pool[o.Idx[0]].Ref)
			case "stat":
				var refs []blob.Ref
				for _, ix := range o.Idx {
					refs = append(refs, cd.Pool[ix].Ref)
				}
				mm = model.CheckStat(ctx, b.Root, refs)
			case "enumerate":
				mm = model.CheckEnumerate(ctx, b.Root, o.Cursor, o.Limit)
			case "battery":
				mm = model.Battery(ctx, b.Root, []blob.Ref{vgen.RefOf("sha224", []byte("never-stored"))}, 2)
			}
			return nil
		})
		if cd.Bulk > 0 && werr == nil && o.Kind == "receive" && model.NumPresent() >= encrypt.SmallMetaCountLimit-8 {
			// encrypt rolls its small meta blobs up in a goroutine started by the receive: its lower-layer
			// calls belong to the operation that started it
			if !waitNoMetaRollup() {
				res.inconcl = "a meta roll-up goroutine of encrypt is still alive after 60s"
				return false
			}
		}
		hit := env.FaultsHit() > hit0
		lastOpErr = opErr
		if hit && !healthy && (o.Kind == "fetch" || o.Kind == "stat" || o.Kind == "enumerate") {
			// the observation was made through a faulted read (e.g. the replica that holds the blob failed
			// and the next one answered not-found): it says nothing definite about a maybe blob
			for _, e := range model.Entries() {
				if d, ok := maybeBefore[e.Ref.String()]; ok && e.State != vmodel.Maybe {
					model.SetMaybe(e.Ref, d)
				}
			}
			var m *vmodel.Mismatch
			if mm != nil && errors.As(mm, &m) {
				if _, wasMaybe := maybeBefore[m.Ref]; wasMaybe {
					mm = nil
				}
			}
		}
		trace = append(trace, fmt.Sprintf("%s -> err=%v mismatch=%v faultDelivered=%v lowerCalls=%d..%d", o, opErr, mm, hit, seq0-base+1, env.Seq()-base))
		if te, ok := werr.(*timeoutErr); ok {
			if !te.res.Parked {
				res.inconcl = te.res.Describe(o.String())
				return false
			}
			fail("C13 violated: %s", te.res.Describe(o.String()))
			return false
		}
		if mm == vmodel.ErrTimeout {
			fail("C13 violated: %s: enumeration did not complete within the watchdog (hang)", o)
			return false
		}
		if opErr != nil && (healthy || !hit) {
			fail("C13 violated: %s failed with %v although no lower-layer fault was delivered during it (healthy=%v)", o, opErr, healthy)
			return false
		}
		if mm != nil {
			var m *vmodel.Mismatch
			if errors.As(mm, &m) {
				tolerable := hit && !healthy && strings.HasSuffix(m.Kind, "-error")
				// a Fetch that says "not found" because the lower layer failed is an error result of the affected
				// call. A stat or an enumeration that RETURNS NIL must be right, though: a present blob missing
				// from it is a silently truncated answer (what an HTTP client sees when a handler turns a
				// mid-stream failure into well-formed JSON), not a failed call.
				if hit && !healthy && m.Kind == "fetch-missing" {
					tolerable = true
				}
				if tolerable {
					return true
				}
				if id := knownSig(cd, faults, o, m, healthy); id != "" && known.Hit(prop, id, cd.Desc+": "+m.Error()) {
					res.knownID = id
					return false
				}
			}
			fail("C13 violated: %s: %v (healthy=%v, faultDelivered=%v)", o, mm, healthy, hit)
			return false
		}
		return true
	}
	var retries []op
	for i, o := range cd.Ops {
		h0 := env.FaultsHit()
		if !doOp(i, o, false) {
			return
		}
		// a client retries a mutation that failed transiently: remember it for the healthy phase
		if (o.Kind == "receive" || o.Kind == "remove") && env.FaultsHit() > h0 && lastOpErr != nil {
			retries = append(retries, o)
		}
	}
	res.calls = env.Seq() - base
	res.hits = env.FaultsHit()
	env.ClearFaults()
	faultPhase = false
	env.Match = nil
	sort.Strings(res.addrs)
	if faults == nil && !recoverAfter {
		return
	}
	// healthy phase: first the retries of what failed, then the generated healthy operations
	for i, o := range retries {
		if !doOp(500+i, o, true) {
			return
		}
	}
	if len(retries) > 0 {
		res.retried = true
	}
	for i, o := range cd.Heal {
		if !doOp(1000+i, o, true) {
			return
		}
	}
	if !doOp(2000, op{Kind: "battery"}, true) {
		return
	}
	if g, zero := waitGatesZero(); !zero {
		if known.Hit(prop, "C13-stat-gate-leak", fmt.Sprintf("%s gates=%v", cd.Desc, g)) {
			res.knownID = "C13-stat-gate-leak"
			drainGates()
			return
		}
		fail("C13 violated: package-level stat gate slots still taken after the case finished: %v (a later stat will block once the gate is exhausted)", g)
		drainGates()
		return
	}
	if !recoverAfter {
		return
	}
	// the backend's own recovery procedure
	root := cd.Tree
	var rerr error
	switch root.Type {
	case "diskpacked":
		b.Close()
		env.NewKV(root.KVName("dpindex")).WipeRaw()
		rerr = diskpacked.Reindex(ctx, b.DiskDir(root), true, vstore.KVConf(root.KVName("dpindex")))
		if rerr == nil {
			rerr = b.Reopen()
		}
	case "encrypt":
		// roll-up goroutines of the instances that are about to be replaced (nested encrypt stores have their
		// own) belong to the process that "dies" here: let them finish first, a real restart has none of them
		if !waitNoMetaRollup() {
			res.inconcl = "a meta roll-up goroutine of encrypt is still alive after 60s (before the recovery)"
			return
		}
		b.Close()
		env.NewKV(root.KVName("encmeta")).WipeRaw()
		if cd.FaultyRestart {
			// first a start-up during which the listing of the meta store fails once: the store has to refuse
			// to start (and start at the next attempt), or start with everything it is responsible for - a
			// start-up that "succeeds" over an empty mapping serves none of the acknowledged blobs
			n := 0
			env.Match = func(e *vstore.Event) vstore.Behaviour {
				if e.Op == "enumerate" && strings.HasPrefix(e.Layer, "store:") {
					if n++; n == 1 {
						return vstore.Fail
					}
				}
				return vstore.OK
			}
			ferr := b.Reopen()
			env.Match = nil
			trace = append(trace, fmt.Sprintf("start-up over a wiped index with a failing listing of a wrapped store -> %v (faults delivered: %d)", ferr, n))
			if ferr == nil {
				for r := range everMaybe {
					model.SetMaybe(r, nil)
				}
				if !doOp(2900, op{Kind: "battery"}, true) {
					return
				}
			}
			if !waitNoMetaRollup() {
				res.inconcl = "a meta roll-up goroutine of encrypt is still alive after 60s (after the first start-up)"
				return
			}
			b.Close()
			env.NewKV(root.KVName("encmeta")).WipeRaw()
		}
		rerr = b.Reopen()
	case "blobpacked":
		b.Close()
		blobpacked.SetRecovery(blobpacked.FullRecovery)
		rerr = b.Reopen()
		blobpacked.SetRecovery(blobpacked.NoRecovery)
	default:
		return
	}
	if rerr == nil {
		setMaxZip()
	}
	trace = append(trace, fmt.Sprintf("recovery(%s) -> %v", root.Type, rerr))
	if rerr != nil {
		fail("C13 violated: the store's own recovery procedure failed after the faults stopped: %v", rerr)
		return
	}
	for r := range everMaybe {
		// a recovery may legitimately surface (or drop) a blob whose last mutation was never acknowledged
		model.SetMaybe(r, nil)
	}
	if !doOp(3000, op{Kind: "battery"}, true) {
		return
	}
	return
}

// gateBase is the occupancy the gates had when the previous case finished: leaked slots cannot be
// released from outside, so a leak is reported once (by the case that caused it) and then becomes the baseline.
var gateBase = map[string]int{}

func drainGates() {
	for k, v := range gatesInUse() {
		gateBase[k] = v
	}
}

func clip(s string, n int) string {
	if len(s) > n {
		return s[:n] + "…"
	}
	return s
}

// partialRemoved: refs of a RemoveBlobs call that returned nil although a lower-layer call failed during it.
var partialRemoved = map[string]bool{}

// knownSig maps a mismatch to the id of a recorded open finding ("" = none).
func knownSig(cd *caseDef, faults []fault, o op, m *vmodel.Mismatch, healthy bool) string {
	// replica.RemoveBlobs is documented best effort ("we return nil if any of the blobservers said
	// success"): a blob whose removal failed on one replica is acknowledged as removed and comes back.
	// Signature: tree contains a replica (cond's remove path is a replica too), the blob reappears
	// (resurrected / extra in enumeration), and it was part of a remove batch that returned nil while
	// a lower-layer fault was delivered.
	hasReplica := false
	for _, ty := range cd.Tree.Types() {
		if ty == "replica" || ty == "cond" {
			hasReplica = true
		}
	}
	if hasReplica && partialRemoved[m.Ref] && (strings.HasSuffix(m.Kind, "-resurrected") || m.Kind == "enum-extra") {
		return "C13-replica-remove-best-effort"
	}
	return ""
}

func walkTree(n *vcompose.Node, f func(*vcompose.Node)) {
	f(n)
	for _, k := range n.Kids {
		walkTree(k, f)
	}
}

// packableFile cuts a file just above blobpacked's packing threshold into blobs (chunks, bytes schema
// blobs, the file schema blob last) with schema.WriteFileFromReader over a staging store.
func packableFile(seed uint64, size int) ([]vgen.Blob, error) {
	staging := &memory.Storage{}
	content := vgen.Noise(seed, size)
	fileRef, err := schema.WriteFileFromReader(ctx, staging, fmt.Sprintf("c13-%d.bin", seed), bytes.NewReader(content))
	if err != nil {
		return nil, err
	}
	var out []vgen.Blob
	var fileBlob vgen.Blob
	for _, rs := range staging.BlobrefStrings() {
		br := blob.MustParse(rs)
		c, _ := staging.BlobContents(br)
		vb := vgen.Blob{Ref: br, Data: []byte(c), Class: "file-part"}
		if br == fileRef {
			vb.Class = "file-schema"
			fileBlob = vb
			continue
		}
		out = append(out, vb)
	}
	return append(out, fileBlob), nil
}

func genCase(t *rapid.T) *caseDef {
	root := ""
	if rapid.IntRange(0, 9).Draw(t, "forceRoot") < 7 {
		root = rapid.SampledFrom([]string{"filesvfs", "diskpacked", "blobpacked", "encrypt", "replica", "shard", "cond", "overlay", "namespace", "proxycache", "verif", "union", "http", "http"}).Draw(t, "root")
	}
	if v := os.Getenv("VERIF_C13_ROOT"); v != "" {
		root = v
	}
	tree := vcompose.GenTree(t, 3, root)
	pool := vgen.GenPool(t, 4, 10, false)
	caps := treeCaps(tree)
	cd := &caseDef{Tree: tree, Pool: pool, Desc: tree.String()}
	cd.ErrKind = rapid.SampledFrom([]int{vstore.ErrPlain, vstore.ErrPlain, vstore.ErrDeadline, vstore.ErrCanceled, vstore.ErrTimeout}).Draw(t, "errKind")
	if cd.ErrKind != vstore.ErrPlain {
		cd.Desc += fmt.Sprintf(" [injected errors of kind %d]", cd.ErrKind)
	}
	if caps.Preloaded {
		for li := 0; li < 3; li++ { // at most 3 preload leaves (union subsets); overlay has one
			var ixs []int
			for i := range pool {
				if rapid.IntRange(0, 2).Draw(t, "preload") == 0 {
					ixs = append(ixs, i)
				}
			}
			cd.Preload = append(cd.Preload, ixs)
		}
	}
	cd.Ops = genOps(t, pool, caps, rapid.IntRange(3, 10).Draw(t, "nOps"))
	cd.Heal = genOps(t, pool, caps, rapid.IntRange(3, 5).Draw(t, "nHeal"))
	// an encrypt root sometimes first receives a hundred tiny blobs: the receive that crosses
	// encrypt.SmallMetaCountLimit starts the background roll-up of the small meta blobs (index reads, one
	// packed meta upload, a hundred meta removals), and the faults land in there as well
	if tree.Type == "encrypt" {
		cd.FaultyRestart = rapid.Bool().Draw(t, "faultyRestart")
	}
	if tree.Type == "encrypt" && caps.Receive && rapid.IntRange(0, 3).Draw(t, "bulk") == 0 {
		cd.Bulk = rapid.IntRange(encrypt.SmallMetaCountLimit-3, encrypt.SmallMetaCountLimit+8).Draw(t, "bulkN")
		seed := rapid.Uint64Range(1, 1<<20).Draw(t, "bulkSeed")
		base := len(cd.Pool)
		var bulkOps []op
		for i := 0; i < cd.Bulk; i++ {
			d := []byte(fmt.Sprintf("bulk blob %d of series %d", i, seed))
			cd.Pool = append(cd.Pool, vgen.Blob{Ref: vgen.RefOf("sha224", d), Data: d, Class: "bulk"})
			bulkOps = append(bulkOps, op{Kind: "receive", Idx: []int{base + i}, Reader: "whole"})
		}
		cd.Ops = append(bulkOps, cd.Ops...)
		cd.Desc += fmt.Sprintf(" +%d tiny blobs first", cd.Bulk)
	}
	// trees with a blobpacked node sometimes upload a packable file: the fault then lands inside the pack
	// (zip stored, meta batch, loose-blob deletion, whole-file row) while the same instance keeps running
	hasBP := false
	walkTree(tree, func(n *vcompose.Node) {
		if n.Type == "blobpacked" {
			hasBP = true
		}
	})
	if hasBP && caps.Receive && rapid.IntRange(0, 2).Draw(t, "packableFile") == 0 {
		parts, err := packableFile(rapid.Uint64Range(1, 1<<16).Draw(t, "fileSeed"), 512<<10+rapid.IntRange(1, 300<<10).Draw(t, "fileExtra"))
		if err != nil {
			t.Fatalf("harness: cutting the file: %v", err)
		}
		base := len(cd.Pool)
		cd.Pool = append(cd.Pool, parts...)
		var fileOps []op
		for i := range parts {
			fileOps = append(fileOps, op{Kind: "receive", Idx: []int{base + i}, Reader: "whole"})
		}
		pos := rapid.IntRange(0, len(cd.Ops)).Draw(t, "fileAt")
		cd.Ops = append(append(append([]op{}, cd.Ops[:pos]...), fileOps...), cd.Ops[pos:]...)
		cd.HasFile = true
		cd.MaxZip = rapid.SampledFrom([]int{0, 300 << 10, 450 << 10}).Draw(t, "maxZip")
		cd.Desc += fmt.Sprintf(" +packable file (%d blobs, maxZip %d)", len(parts), cd.MaxZip)
	}
	return cd
}

func treeCaps(tree *vcompose.Node) vcompose.Caps {
	// Build computes caps; replicate the part we need without building.
	env := vstore.NewEnv()
	dir, _ := os.MkdirTemp("", "verif-c13-caps-")
	defer os.RemoveAll(dir)
	b, err := vcompose.Build(env, dir, tree)
	if err != nil {
		return vcompose.Caps{Receive: true}
	}
	defer b.Release()
	return b.Caps
}

func TestSingleFaults(t *testing.T) {
	flag.Set("rapid.steps", "10")
	evid.Check(t, 350, 500, func(t *rapid.T) {
		cd := genCase(t)
		gateMu.Lock()
		defer gateMu.Unlock()
		dry := run(cd, nil, false)
		if dry.inconcl != "" {
			t.Fatalf("VERIF-INCONCLUSIVE: %s", dry.inconcl)
		}
		if dry.violation != nil {
			t.Fatalf("C13 harness: the fault-free dry run already deviates from the reference map (C01 territory): %v", dry.violation)
		}
		n := len(dry.addrs)
		if n == 0 {
			t.Skip("history makes no lower-layer call")
		}

		var ks []int
		if evid.Thorough() && n <= 160 {
			for k := 0; k < n; k++ {
				ks = append(ks, k)
			}
			evid.R.Label("single/every-address-of-the-history")
		} else if evid.Thorough() {
			// a long history (a packed file, a hundred tiny blobs): 160 drawn addresses
			ks = rapid.SliceOfNDistinct(rapid.IntRange(0, n-1), 160, 160, rapid.ID[int]).Draw(t, "ks")
			sort.Ints(ks)
			evid.R.Label("single/160-drawn-addresses-of-a-long-history")
		} else {
			// stratified: one drawn address per kind of lower-layer operation (receive, remove, stat, get,
			// set, commit, enumerate, fs calls ...), so that rare kinds (the removes of a shard, the index
			// commit of a pack) are faulted as often as the frequent ones
			groups := map[string][]int{}
			var kinds []string
			for i, a := range dry.addrs {
				f := strings.Fields(a)
				// kind = (class of the layer, operation): "kv-bpmeta commit", "kv-dpindex set", "store receive", "fs rename" ...
				kind := f[0]
				if i := strings.IndexByte(kind, ':'); i >= 0 {
					cls, rest := kind[:i], kind[i+1:]
					if j := strings.IndexByte(rest, '-'); cls == "kv" && j >= 0 {
						cls += "-" + rest[j+1:]
					}
					kind = cls
				}
				if len(f) > 1 {
					kind += " " + f[1]
				}
				if _, ok := groups[kind]; !ok {
					kinds = append(kinds, kind)
				}
				groups[kind] = append(groups[kind], i)
			}
			sort.Strings(kinds)
			if len(kinds) > 8 {
				kinds = rapid.Permutation(kinds).Draw(t, "kinds")[:8]
			}
			for _, kind := range kinds {
				g := groups[kind]
				ks = append(ks, g[rapid.IntRange(0, len(g)-1).Draw(t, "k")])
			}
			// plus up to three "tail" addresses: the last call of its kind inside a receive or remove
			// (the verifying stat after a rename, the index write after the data) - a failure that
			// arrives after the operation's point of no return
			pos := map[string]int{}
			for i, a := range dry.addrs {
				pos[a] = i
			}
			pickFrom := func(list []string, n int, label, evLabel string) {
				if len(list) == 0 {
					return
				}
				n = min(n, len(list))
				for _, ti := range rapid.SliceOfNDistinct(rapid.IntRange(0, len(list)-1), n, n, rapid.ID[int]).Draw(t, label) {
					if k, ok := pos[list[ti]]; ok && !slices.Contains(ks, k) {
						ks = append(ks, k)
						evid.R.Label(evLabel)
					}
				}
			}
			// the very last lower-layer call of two receives/removes (the verifying stat after a rename, the
			// row written after the data), and two more "last call of its kind" addresses
			pickFrom(dry.finals, 2, "finalAddrs", "single/fault-at-the-last-lower-call-of-a-mutation")
			pickFrom(dry.tails, 2, "tailAddrs", "single/fault-at-last-call-of-its-kind-in-a-mutation")
		}
		recoverRoot := cd.Tree.Type == "diskpacked" || cd.Tree.Type == "encrypt" || cd.Tree.Type == "blobpacked"
		for _, k := range ks {
			for _, beh := range []vstore.Behaviour{vstore.Fail, vstore.FailAfter} {
				if beh == vstore.FailAfter && strings.HasPrefix(dry.addrs[k], "kv:") {
					continue // identical to Fail for key/value layers (see run)
				}
				fs := []fault{{Addr: dry.addrs[k], Beh: beh}}
				res := run(cd, fs, recoverRoot)

				evid.R.Eval()
				evid.R.Label("single/root=" + cd.Tree.Type)
				if cd.HasFile {
					evid.R.Label("single/history-uploads-packable-file")
				}
				if cd.Bulk > 0 {
					evid.R.Label("single/history-crosses-encrypt-meta-rollup-threshold")
				}
				evid.R.Label(fmt.Sprintf("single/injected-error-kind-%d", cd.ErrKind))
				if res.inconcl != "" {
					t.Fatalf("VERIF-INCONCLUSIVE: %s", res.inconcl)
				}
				if res.knownID != "" {
					continue
				}
				if res.violation != nil {
					t.Fatalf("%v", res.violation)
				}
				nt := res.hitInside && len(cd.Heal) >= 3
				if res.hits > 0 {
					evid.R.Label("single/fault-delivered")
				}
				if res.retried {
					evid.R.Label("single/failed-mutation-retried")
				}
				if nt {
					evid.R.Label("single/fault-inside-multistep-op")
					evid.R.NonTrivial(evid.Hash(cd.Desc, fmt.Sprint(cd.Ops), fmt.Sprint(fs)))
				}
				if evid.R.WantSample(nt) {
					evid.R.Sample(nt, map[string]any{"configuration": cd.Desc, "ops": fmt.Sprint(cd.Ops), "healthy_ops": fmt.Sprint(cd.Heal), "fault_at_lower_call": dry.addrs[k], "behaviour": behName(beh), "lower_calls_in_history": n})
				}
			}
		}
		if evid.Thorough() {
			evid.R.Exhaustive("every single fault position k (both fault kinds) of each generated history of up to 160 lower-layer calls; 160 drawn positions of longer histories")
		}
	})
}

func behName(b vstore.Behaviour) string {
	if b == vstore.FailAfter {
		return "performed-but-error"
	}
	return "error"
}

func TestFaultBursts(t *testing.T) {
	evid.Check(t, 1000, 3000, func(t *rapid.T) {
		cd := genCase(t)
		gateMu.Lock()
		defer gateMu.Unlock()
		dry := run(cd, nil, false)
		if dry.inconcl != "" {
			t.Fatalf("VERIF-INCONCLUSIVE: %s", dry.inconcl)
		}
		if dry.violation != nil {
			t.Fatalf("C13 harness: the fault-free dry run already deviates from the reference map: %v", dry.violation)
		}
		if dry.calls == 0 {
			t.Skip("no lower-layer call")
		}
		nf := rapid.IntRange(2, 5).Draw(t, "burst")
		var fs []fault
		for i := 0; i < nf; i++ {
			beh := vstore.Fail
			if rapid.Bool().Draw(t, "after") {
				beh = vstore.FailAfter
			}
			fs = append(fs, fault{Addr: dry.addrs[rapid.IntRange(0, len(dry.addrs)-1).Draw(t, "addr")], Beh: beh})
		}
		recoverRoot := cd.Tree.Type == "diskpacked" || cd.Tree.Type == "encrypt" || cd.Tree.Type == "blobpacked"
		res := run(cd, fs, recoverRoot)
		evid.R.Eval()
		evid.R.Label("burst/root=" + cd.Tree.Type)
		if cd.HasFile {
			evid.R.Label("burst/history-uploads-packable-file")
		}
		if cd.Bulk > 0 {
			evid.R.Label("burst/history-crosses-encrypt-meta-rollup-threshold")
		}
		if res.inconcl != "" {
			t.Fatalf("VERIF-INCONCLUSIVE: %s", res.inconcl)
		}
		if res.knownID != "" {
			t.Skip("known finding")
		}
		if res.violation != nil {
			t.Fatalf("%v", res.violation)
		}
		nt := res.hitInside && len(cd.Heal) >= 3
		if nt {
			evid.R.NonTrivial(evid.Hash("burst", cd.Desc, fmt.Sprint(cd.Ops), fmt.Sprint(fs)))
		}
		if evid.R.WantSample(nt) {
			evid.R.Sample(nt, map[string]any{"configuration": cd.Desc, "ops": fmt.Sprint(cd.Ops), "burst": fmt.Sprint(fs)})
		}
	})
}
